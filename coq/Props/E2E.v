(* E2E — end to end: a token handed out by get_peers makes the announce_peer of the same host accepted
   for 10 minutes, and what was announced is served; the announce owner (C16) meets the server (C10,
   C08, C11).  An EXTRA: not one of the 20 listed properties; it links two models that were verified
   separately (model/Server.v: one node B; model/Lookups.v: the owner of an announce).
   This file holds statements only; every proof is `exact <lemma>` from proofs/AnnounceEndToEnd.v, which
   composes C10_issue, C10_window_lower, C08_exactly_one_form, C08_dest_and_t, C11 step_peers /
   C11_roundtrip, C20_run_unlimited, C01 (update_node_ok / pick_victim) and C16_tokens without changing
   them.  Parametric in the Section parameters (BEP 44 store wrapper, sha1, NodeIdSecure, configuration):
   no axioms, no hypothesis on sha1.

   Times are nanoseconds since 1970; a history is [run] of ServerDefs.v (sequential events; EAdvance
   moves the clock, possibly backwards: only the SUM over the history matters).  "Open gates" is
   ServerC08.open_gate: datagram not oversize, source port not 0, server not closed, source not blocked,
   send budget not exhausted, OnQuery hook not vetoing, not passive.  Every theorem is about ANY state
   (hence every reachable one) and every accepted outcome of a step; that the step has an accepted
   outcome is E2E_announce_possible.

   What connects the two models in Part 2 is NOT proved (there is no model of the network): it is stated
   as premises named net_*. *)
From Dht Require Import Base Int160 Msg Bep44 Lookups LookupsProofs.
From Dht Require Import Server ServerDefs Int160Proofs ServerInv ServerInv2 ServerC08 ServerC10 ServerC11
                        ServerExamples AnnounceEndToEnd Sha1.
From DhtGen Require Import Params.
Local Open Scope Z_scope.

Section E2E.
  Variable Store : Type.
  Variable w_put : Store -> witem -> Z -> Store * put_result.
  Variable w_get : Store -> bytes -> Z -> Store * get_result.
  Variable sha1 : bytes -> bytes.
  Variable id_secure : N -> bytes -> bool.
  Variable cfg : config.

  Notation sstate := (sstate Store).
  Notation step := (step Store w_put w_get sha1 id_secure cfg).
  Notation run := (ServerDefs.run Store w_put w_get sha1 id_secure cfg).
  Notation token_for := (token_for sha1 cfg).
  Notation valid_token := (valid_token sha1 cfg).
  Notation open_gate := (open_gate Store cfg).
  Notation announce_of := (announce_of Store sha1 cfg).
  Notation announced := (announced Store w_put w_get sha1 id_secure cfg).
  Notation get_peers_of := (get_peers_of Store).
  Notation answers_with_token := (answers_with_token Store w_put w_get sha1 id_secure cfg).
  Notation fresh_token := (fresh_token Store w_put w_get sha1 id_secure cfg).
  Notation announce_effects := (announce_effects cfg).
  Notation s_now := (s_now Store).
  Notation s_peers := (s_peers Store).
  Notation s_closed := (s_closed Store).
  Notation s_blocklist := (s_blocklist Store).
  Notation s_budget := (s_budget Store).
  Notation SR := (SR Store).

  (* ================= histories: clock, closed flag, blocklist ================= *)

  (* B's clock after ANY history is the start time plus the sum of its EAdvance events *)
  Theorem E2E_run_now evs s s' outs :
    run s evs = Some (s', outs) -> s_now s' = s_now s + elapsed evs.
  Proof. exact (run_now Store w_put w_get sha1 id_secure cfg evs s s' outs). Qed.

  (* the server is closed by EClose only, the blocklist replaced by ESetBlocklist only *)
  Theorem E2E_run_closed evs s s' outs :
    run s evs = Some (s', outs) -> never_closes evs = true -> s_closed s' = s_closed s.
  Proof. exact (run_closed Store w_put w_get sha1 id_secure cfg evs s s' outs). Qed.

  Theorem E2E_run_blocklist evs s s' outs :
    run s evs = Some (s', outs) -> keeps_blocklist evs = true -> s_blocklist s' = s_blocklist s.
  Proof. exact (run_blocklist Store w_put w_get sha1 id_secure cfg evs s s' outs). Qed.

  (* hence: a history without Close / SetBlocklist of a server without send limiter leaves the gates of
     the write routine open (with a limiter the budget at the time of the announce is a premise) *)
  Theorem E2E_run_gates_stay_open evs s s' outs a :
    run s evs = Some (s', outs) -> never_closes evs = true -> keeps_blocklist evs = true ->
    s_closed s = false -> blocked (s_blocklist s) (ip a) = false -> s_budget s = None ->
    s_closed s' = false /\ blocked (s_blocklist s') (ip a) = false /\ s_budget s' <> Some 0%N.
  Proof. exact (run_gates_stay_open Store w_put w_get sha1 id_secure cfg evs s s' outs a). Qed.

  (* ================= Part 1: get_peers -> any history < 10 min -> announce_peer -> get_peers ================= *)

  (* [fresh_token x tok s2]: tok is the token of a reply B sent to a get_peers / get query from an
     address whose To16 form is x, at a time t >= 0, and B reached s2 from there by some history during
     which 0 <= elapsed < token_max_delta * token_interval (10 min) passed.  Such a token validates at s2
     for every address with that To16 form (any source port, 4-byte or v4-mapped) *)
  Theorem E2E_fresh_token_valid x tok s2 A' :
    c_peer_store cfg = true -> fresh_token x tok s2 -> to16 (ip A') = Some x ->
    valid_token tok A' (s_now s2) = Some true.
  Proof. exact (fresh_token_valid Store w_put w_get sha1 id_secure cfg x tok s2 A'). Qed.

  Theorem E2E_fresh_token_unfold x tok s2 :
    fresh_token x tok s2 <->
    exists s0 A s1 mid outs,
      to16 (ip A) = Some x /\ 0 <= s_now s0 /\
      (exists size mg chg outg d rm k r,
         m_y mg = s_q /\ (m_q mg = s_get_peers \/ m_q mg = s_get) /\
         step s0 (EPacket A size (Some mg)) chg = SR s1 outg /\
         In (ESend d rm k) outg /\ m_r rm = Some r /\ r_token r = Some tok) /\
      run s1 mid = Some (s2, outs) /\ 0 <= elapsed mid < token_max_delta * token_interval_ns.
  Proof. exact (iff_refl _). Qed.

  (* THE END-TO-END PROPERTY.  B (peer store configured) answers a get_peers (or get) query from A at
     time t = s_now s0 >= 0; the reply carries [tok].  After ANY history [mid] of B with
     0 <= elapsed mid < 10 min, an announce_peer carrying tok arrives from A' (same To16 form as A: same
     IP, any port, 4-byte or v4-mapped) at open gates.  Then, for every outcome of that step:
       1  tok = token_for (To16 (ip A)) (token_idx t)                                   (C10_issue)
       2  tok validates for A' at the time of the announce                  (C10_window_lower, run_now)
       3  the output is [announce callback if configured; peer-store call; ONE reply to A' echoing the
          transaction id]; exactly one datagram                                        (C08_exactly_one)
       4  the announce is an accepted announce in the sense of C11; the store is AddPeer of
          (infohash, raw IP of A', chosen port) and holds exactly that entry for (infohash, raw IP)
       5  after every later history WITHOUT another accepted announce of that (infohash, raw IP), every
          answered get_peers for the infohash from a requester R to which the endpoint is representable
          (filter_peer = Some v: R wants the family of the stored IP, or IPv4 for a v4-mapped one, or
          IPv6) has (na_ip v, port mod 2^16) among its values and carries a token; the answer goes to R,
          echoes R's transaction id, and at open gates it is sent                       (C11_roundtrip) *)
  Theorem E2E_announce_end_to_end
      s0 A size mg chg s1 outg d rm k r tok
      mid s2 outs
      A' size' ma aa cha s3 outa x :
    c_peer_store cfg = true ->
    0 <= s_now s0 ->
    m_y mg = s_q -> (m_q mg = s_get_peers \/ m_q mg = s_get) ->
    step s0 (EPacket A size (Some mg)) chg = SR s1 outg ->
    In (ESend d rm k) outg -> m_r rm = Some r -> r_token r = Some tok ->
    run s1 mid = Some (s2, outs) -> 0 <= elapsed mid < token_window_ns ->
    to16 (ip A) = Some x -> to16 (ip A') = Some x ->
    m_y ma = s_q -> m_q ma = s_announce_peer -> m_a ma = Some aa -> a_token aa = tok ->
    open_gate s2 A' size' ma ->
    step s2 (EPacket A' size' (Some ma)) cha = SR s3 outa ->
    let p := mkPeer (a_info_hash aa) (ip A') (chosen_port A' aa) in
    tok = token_for x (token_idx (s_now s0)) /\
    (s_now s2 = s_now s0 + elapsed mid /\ valid_token tok A' (s_now s2) = Some true) /\
    (outa = announce_effects A' ma aa /\
     sends outa = [ESend A' (reply_msg cfg A' (m_t ma) empty_return) SReply] /\
     m_t (reply_msg cfg A' (m_t ma) empty_return) = m_t ma /\ length (sends outa) = 1%nat) /\
    (announce_of s2 (EPacket A' size' (Some ma)) = Some p /\
     s_peers s3 = add_peer (s_peers s2) p /\ In p (get_peers_of s3 (a_info_hash aa)) /\
     (forall q, In q (s_peers s3) -> same_key q p -> q = p)) /\
    (forall later s4 outs' R sizeg mg' ag' chg' s5 outg' v,
       run s3 later = Some (s4, outs') ->
       (forall q, In q (announced s3 later) -> ~ same_key q p) ->
       m_y mg' = s_q -> m_q mg' = s_get_peers -> m_a mg' = Some ag' -> a_info_hash ag' = a_info_hash aa ->
       step s4 (EPacket R sizeg (Some mg')) chg' = SR s5 outg' ->
       filter_peer (should_return_nodes (want_list ag') (ip R)) (should_return_nodes6 (want_list ag') (ip R)) p = Some v ->
       (forall d' rm' k', In (ESend d' rm' k') outg' ->
          d' = R /\ k' = SReply /\ m_t rm' = m_t mg' /\
          exists r' vs tok', m_r rm' = Some r' /\ r_values r' = Some vs /\
            In (mkNA (na_ip v) (wire_port (na_port v))) vs /\ r_token r' = Some tok') /\
       (open_gate s4 R sizeg mg' -> exists rm', sends outg' = [ESend R rm' SReply])).
  Proof.
    exact (AnnounceEndToEnd.E2E_announce_end_to_end Store w_put w_get sha1 id_secure cfg
             s0 A size mg chg s1 outg d rm k r tok mid s2 outs A' size' ma aa cha s3 outa x).
  Qed.

  (* the 10 minutes, the output of the announce step, the stored port *)
  Theorem E2E_window_is_ten_minutes : token_window_ns = 10 * 60 * 1000000000.
  Proof. exact eq_refl. Qed.

  Theorem E2E_announce_effects_spec src m a :
    announce_effects src m a =
    (if c_announce_cb cfg
     then [EAnnounceCb (a_info_hash a) (ip src) (chosen_port src a) (a_implied_port a || is_some (a_port a))]
     else []) ++
    [EPeerAdd (a_info_hash a) (ip src) (chosen_port src a);
     ESend src (reply_msg cfg src (m_t m) empty_return) SReply].
  Proof. exact eq_refl. Qed.

  Theorem E2E_chosen_port A' aa po :
    a_port aa = Some po ->
    chosen_port A' aa = if a_implied_port aa then Z.of_N (port A') else po.
  Proof. exact (chosen_port_spec A' aa po). Qed.

  (* the step that takes the announce EXISTS (some choice of the implementation is accepted) in every
     state satisfying the routing-table invariant — every reachable state (ServerInv.inv_reachable) *)
  Theorem E2E_announce_possible s src size m a :
    wf_cfg cfg -> Inv Store cfg s ->
    m_y m = s_q -> m_q m = s_announce_peer -> m_a m = Some a ->
    open_gate s src size m ->
    valid_token (a_token a) src (s_now s) = Some true ->
    exists ch s' out, step s (EPacket src size (Some m)) ch = SR s' out.
  Proof. exact (AnnounceEndToEnd.E2E_announce_possible Store w_put w_get sha1 id_secure cfg s src size m a). Qed.

  (* "a requester that wants A's family" gets the stored endpoint as it is: the raw IP of the announce's
     source and the chosen port — modulo 2^16 on the wire, i.e. unchanged for a real port *)
  Theorem E2E_same_family_endpoint A' aa ws rip :
    (should_return_nodes ws rip = true /\ length (ip A') = 4%nat) \/
    (should_return_nodes6 ws rip = true /\ length (ip A') = 16%nat) ->
    filter_peer (should_return_nodes ws rip) (should_return_nodes6 ws rip)
                (mkPeer (a_info_hash aa) (ip A') (chosen_port A' aa))
    = Some (mkNA (ip A') (chosen_port A' aa)) /\
    (0 <= chosen_port A' aa < 65536 -> wire_port (chosen_port A' aa) = chosen_port A' aa).
  Proof. exact (AnnounceEndToEnd.E2E_same_family_endpoint A' aa ws rip). Qed.

  (* an announce from the v4-mapped form is stored under the 16-byte form; an IPv4-only requester gets
     the 4-byte form of the same address *)
  Theorem E2E_mapped_source_served_as_v4 ih b po :
    length b = 4%nat -> filter_peer true false (mkPeer ih (v4_prefix ++ b) po) = Some (mkNA b po).
  Proof. exact (AnnounceEndToEnd.E2E_mapped_source_served_as_v4 ih b po). Qed.

  (* ================= Part 2: the announce owner of Lookups.v meets the server B ================= *)
  Section Link.
    Variable ed_verify : bytes -> bytes -> bytes -> bool.
    Variable node_ok : Lookups.addr -> N -> bool.
    Variable push : list elem -> elem -> list elem.
    Hypothesis push_incl : forall l e x, In x (push l e) -> x = e \/ In x l.
    Variable c : lcfg.

    Notation lreachable := (LookupsProofs.reachable sha1 ed_verify node_ok push c).

    (* Let sr be an announce_peer the owner issued (a reachable state of Lookups.v, lc_api = AAnnounce);
       by C16_tokens it goes to a member d = sr_dest sr of the final closest set with the token d
       returned in a get_peers reply of this traversal.  Let d be the node B of Server.v.  Glue:
         net_reply_token     every reply with "r" and a token that the owner LOGGED from address d is
                             a reply B SENT with these token bytes, to an address with To16 form x (the
                             owner's IP), at a time >= 0 less than 10 min before B is in state s2
         net_announce_ip     the announce_peer datagram reaches B from that IP (any port / form)
         net_announce_query, _token, _infohash, _port
                             B decodes an announce_peer query whose token, infohash, port and
                             implied_port are the send record's (fields transported unchanged)
       Then B, taking the datagram in s2 at open gates, accepts it: the token validates; one reply, to
       the source, echoing the transaction id; the endpoint (target, raw source IP, configured port, or
       the UDP source port when implied_port) is stored and served as in E2E_announce_end_to_end. *)
    Theorem E2E_owner_announce_accepted
        ls sr x s2 A' size' ma aa cha s3 outa :
      c_peer_store cfg = true ->
      lreachable ls -> is_announce c = true -> In sr (l_sends ls) ->
      forall
        (net_reply_token : forall q r tok, In (q, sr_dest sr, r) (l_log ls) -> gr_has_r r = true ->
                                           gr_token r = Some tok -> fresh_token x tok s2)
        (net_announce_ip : to16 (ip A') = Some x)
        (net_announce_query : m_y ma = s_q /\ m_q ma = s_announce_peer /\ m_a ma = Some aa)
        (net_announce_token : a_token aa = sr_token sr)
        (net_announce_infohash : a_info_hash aa = ofN 20 (sr_ih sr))
        (net_announce_port : a_port aa = Some (sr_port sr) /\ a_implied_port aa = sr_implied sr),
      open_gate s2 A' size' ma ->
      step s2 (EPacket A' size' (Some ma)) cha = SR s3 outa ->
      let port := if sr_implied sr then Z.of_N (Server.port A') else sr_port sr in
      let p := mkPeer (ofN 20 (lc_target c)) (ip A') port in
      lc_ann c = Some (sr_port sr, sr_implied sr) /\
      valid_token (sr_token sr) A' (s_now s2) = Some true /\
      (sends outa = [ESend A' (reply_msg cfg A' (m_t ma) empty_return) SReply] /\
       In (EPeerAdd (ofN 20 (lc_target c)) (ip A') port) outa) /\
      (announce_of s2 (EPacket A' size' (Some ma)) = Some p /\
       s_peers s3 = add_peer (s_peers s2) p /\ In p (get_peers_of s3 (ofN 20 (lc_target c)))) /\
      (forall later s4 outs' R sizeg mg' ag' chg' s5 outg' v,
         run s3 later = Some (s4, outs') ->
         (forall q, In q (announced s3 later) -> ~ same_key q p) ->
         m_y mg' = s_q -> m_q mg' = s_get_peers -> m_a mg' = Some ag' -> a_info_hash ag' = ofN 20 (lc_target c) ->
         step s4 (EPacket R sizeg (Some mg')) chg' = SR s5 outg' ->
         filter_peer (should_return_nodes (want_list ag') (ip R)) (should_return_nodes6 (want_list ag') (ip R)) p = Some v ->
         (forall d' rm' k', In (ESend d' rm' k') outg' ->
            d' = R /\ k' = SReply /\ m_t rm' = m_t mg' /\
            exists r' vs tok', m_r rm' = Some r' /\ r_values r' = Some vs /\
              In (mkNA (na_ip v) (wire_port (na_port v))) vs /\ r_token r' = Some tok') /\
         (open_gate s4 R sizeg mg' -> exists rm', sends outg' = [ESend R rm' SReply])).
    Proof.
      exact (AnnounceEndToEnd.E2E_owner_announce_accepted Store w_put w_get sha1 id_secure cfg
               ed_verify node_ok push push_incl c ls sr x s2 A' size' ma aa cha s3 outa).
    Qed.

    (* the announce_peer message Server.announcePeer builds for a send record (Server.v's query_msg, for
       any configuration cfgA of the OWNER's server and any transaction id) has exactly these fields *)
    Theorem E2E_owner_datagram_fields cfgA sr t :
      let m := query_msg cfgA s_announce_peer (announce_args_of sr) t in
      m_y m = s_q /\ m_q m = s_announce_peer /\ m_t m = t /\
      exists aa, m_a m = Some aa /\ a_token aa = sr_token sr /\ a_info_hash aa = ofN 20 (sr_ih sr) /\
                 a_port aa = Some (sr_port sr) /\ a_implied_port aa = sr_implied sr.
    Proof. exact (owner_datagram_fields cfgA sr t). Qed.

    (* ... so ONE transport premise for the announce suffices: B decodes the message the owner sent *)
    Theorem E2E_owner_announce_accepted_unchanged
        ls sr x s2 A' size' ma cha s3 outa cfgA t :
      c_peer_store cfg = true ->
      lreachable ls -> is_announce c = true -> In sr (l_sends ls) ->
      forall
        (net_reply_token : forall q r tok, In (q, sr_dest sr, r) (l_log ls) -> gr_has_r r = true ->
                                           gr_token r = Some tok -> fresh_token x tok s2)
        (net_announce_ip : to16 (ip A') = Some x)
        (net_announce_unchanged : ma = query_msg cfgA s_announce_peer (announce_args_of sr) t),
      open_gate s2 A' size' ma ->
      step s2 (EPacket A' size' (Some ma)) cha = SR s3 outa ->
      let port := if sr_implied sr then Z.of_N (Server.port A') else sr_port sr in
      let p := mkPeer (ofN 20 (lc_target c)) (ip A') port in
      valid_token (sr_token sr) A' (s_now s2) = Some true /\
      sends outa = [ESend A' (reply_msg cfg A' t empty_return) SReply] /\
      s_peers s3 = add_peer (s_peers s2) p /\ In p (get_peers_of s3 (ofN 20 (lc_target c))).
    Proof.
      exact (AnnounceEndToEnd.E2E_owner_announce_accepted_unchanged Store w_put w_get sha1 id_secure cfg
               ed_verify node_ok push push_incl c ls sr x s2 A' size' ma cha s3 outa cfgA t).
    Qed.
  End Link.
End E2E.

(* ================= non-vacuity: the parameters of proofs/ServerExamples.v, real SHA-1 ================= *)
(* B = cfg0 (root 2^159, secret "*", peer store and announce callback configured), store wrapper wp0 /
   wg0, NodeIdSecure sec0, started in the reachable state s0 of ServerExamples.v (ten AddNode calls, one
   full bucket, two queries in flight, clock 1000 ns); sha1 is model/Sha1.v *)
Definition e_step := step unit wp0 wg0 Sha1.sha1 sec0 cfg0.
Definition e_run := ServerDefs.run unit wp0 wg0 Sha1.sha1 sec0 cfg0.

Definition e_t0 : Z := 1700000000123456789.                 (* a time in 2023, off the rotation grid *)
Definition e_sec : Z := 1000000000.
Definition e_ipA : bytes := [x01; x02; x03; x04].
Definition e_A : addr := mkAddr e_ipA 6881.                 (* the get_peers comes from 1.2.3.4:6881 *)
Definition e_A' : addr := mkAddr e_ipA 51413.               (* the announce from 1.2.3.4:51413 *)
Definition e_A'm : addr := mkAddr (v4_prefix ++ e_ipA) 51413.   (* or from ::ffff:1.2.3.4 *)
Definition e_R4 : addr := mkAddr [x09; x09; x09; x09] 4000. (* a later IPv4 requester *)
Definition e_ih : bytes := repeat x11 20.

Definition e_query (q : bytes) (t : bytes) (a : msg_args) : msg := mkMsg q (Some a) t s_q None None empty_na false [].
Definition e_gp_args (id : N) : msg_args :=
  mkArgs (ofN 20 id) e_ih zero20 [] None false None 0 0 None None 0 zero32 [] zero64.
Definition e_ann_args (id : N) (tok : bytes) (p : option Z) (implied : bool) : msg_args :=
  mkArgs (ofN 20 id) e_ih zero20 tok p implied None 0 0 None None 0 zero32 [] zero64.

(* the token B issues to 1.2.3.4 at e_t0 (20 bytes of real SHA-1) *)
Definition e_tok : bytes :=
  Eval vm_compute in match create_token Sha1.sha1 cfg0 e_A e_t0 with Some t => t | None => [] end.

Definition e_mg : msg := e_query s_get_peers ["g"; "1"]%byte (e_gp_args (2 ^ 158 + 5)).
Definition e_ma : msg := e_query s_announce_peer ["a"; "1"]%byte (e_ann_args (2 ^ 158 + 5) e_tok (Some 7000) false).
Definition e_mg' : msg := e_query s_get_peers ["g"; "2"]%byte (e_gp_args (2 ^ 158 + 6)).

Definition e_get_peers (a : addr) (m : msg) (vals : list node_addr) : event * choice :=
  (EPacket a 100 (Some m), mkChoice None [] [] vals).
Definition e_announce (a : addr) (m : msg) : event * choice := (EPacket a 100 (Some m), no_choice).
Definition e_advance (d : Z) : event * choice := (EAdvance d, no_choice).

(* get_peers at t0; arbitrary other traffic and 9 min 59 s; announce from another port *)
Definition e_before : list (event * choice) := [e_advance (e_t0 - 1000)].
Definition e_mid : list (event * choice) :=
  [e_advance (300 * e_sec); (EPacket dstA 100 (Some ping0), no_choice); (EQueryEnd 1, no_choice);
   e_advance (299 * e_sec)].
Definition e_history (gap : list (event * choice)) (vals : list node_addr) : list (event * choice) :=
  e_before ++ [e_get_peers e_A e_mg []] ++ gap ++ [e_announce e_A' e_ma; e_get_peers e_R4 e_mg' vals].

(* what a reply shows: destination, transaction id, values, token *)
Definition e_obs (out : list effect) : list (addr * bytes * option (list node_addr) * option bytes) :=
  flat_map (fun e => match e with
                     | ESend d rm SReply =>
                         match m_r rm with Some r => [(d, m_t rm, r_values r, r_token r)] | None => [] end
                     | _ => []
                     end) out.

(* ACCEPTED: the token of the get_peers reply at t0, announced 9 min 59 s later from another source port:
   callback, peer-store call and ONE reply echoing "a1"; the next get_peers for the infohash (from
   9.9.9.9) returns 1.2.3.4:7000 *)
Example E2E_ex_accepted_and_served :
  match e_run s0 (e_history e_mid [mkNA e_ipA 7000]) with
  | Some (s', [_; outg; _; _; _; _; outa; outg']) =>
      e_obs outg = [(e_A, ["g"; "1"]%byte, None, Some e_tok)] /\
      outa = announce_effects cfg0 e_A' e_ma (e_ann_args (2 ^ 158 + 5) e_tok (Some 7000) false) /\
      outa = [EAnnounceCb e_ih e_ipA 7000 true; EPeerAdd e_ih e_ipA 7000;
              ESend e_A' (reply_msg cfg0 e_A' ["a"; "1"]%byte empty_return) SReply] /\
      e_obs outg' = [(e_R4, ["g"; "2"]%byte, Some [mkNA e_ipA 7000], Some
                        (match create_token Sha1.sha1 cfg0 e_R4 (e_t0 + 599 * e_sec) with Some t => t | None => [] end))] /\
      s_peers unit s' = [mkPeer e_ih e_ipA 7000] /\ s_now unit s' = e_t0 + 599 * e_sec
  | _ => False
  end.
Proof. vm_compute. repeat split. Qed.

(* DROPPED: the same announce 15 minutes after the get_peers: no output at all, nothing stored, the next
   get_peers has no values (and [1.2.3.4:7000] is not an accepted outcome for it) *)
Example E2E_ex_late_dropped :
  match e_run s0 (e_history [e_advance (900 * e_sec)] []) with
  | Some (s', [_; outg; _; outa; outg']) =>
      e_obs outg = [(e_A, ["g"; "1"]%byte, None, Some e_tok)] /\
      outa = [] /\
      map (fun o => snd (fst o)) (e_obs outg') = [None] /\
      s_peers unit s' = []
  | _ => False
  end /\
  e_run s0 (e_history [e_advance (900 * e_sec)] [mkNA e_ipA 7000]) = None.
Proof. vm_compute. repeat split. Qed.

(* the v4-mapped source form is accepted as well (same To16) and served to the IPv4 requester as 1.2.3.4;
   implied_port stores the UDP source port *)
Example E2E_ex_mapped_and_implied :
  match e_run s0 (e_before ++ [e_get_peers e_A e_mg []] ++ e_mid ++
                  [e_announce e_A'm (e_query s_announce_peer ["a"; "2"]%byte (e_ann_args 7 e_tok (Some 7000) true));
                   e_get_peers e_R4 e_mg' [mkNA e_ipA 51413]]) with
  | Some (s', [_; _; _; _; _; _; outa; outg']) =>
      sends outa = [ESend e_A'm (reply_msg cfg0 e_A'm ["a"; "2"]%byte empty_return) SReply] /\
      s_peers unit s' = [mkPeer e_ih (v4_prefix ++ e_ipA) 51413] /\
      map (fun o => snd (fst o)) (e_obs outg') = [Some [mkNA e_ipA 51413]]
  | _ => False
  end.
Proof. vm_compute. repeat split. Qed.

(* the literal reading "returns the announced port" needs a real port: the model (as server.go) stores the
   int as it came and the compact encoding truncates it to uint16 — port 70000 is served as 4464 *)
Example E2E_ex_port_is_mod_2_16 :
  match e_run s0 (e_before ++ [e_get_peers e_A e_mg []] ++ e_mid ++
                  [e_announce e_A' (e_query s_announce_peer ["a"; "3"]%byte (e_ann_args 7 e_tok (Some 70000) false));
                   e_get_peers e_R4 e_mg' [mkNA e_ipA 4464]]) with
  | Some (s', outs) => s_peers unit s' = [mkPeer e_ih e_ipA 70000] /\
                       map (fun o => snd (fst o)) (e_obs (last outs [])) = [Some [mkNA e_ipA 4464]]
  | None => False
  end.
Proof. vm_compute. repeat split. Qed.

(* ---- the hypotheses of E2E_announce_end_to_end hold on the first history: states and outputs of the
        concrete run, the theorem applied to them ---- *)
Definition e_state (evs : list (event * choice)) : sstate unit :=
  match e_run s0 evs with Some (s, _) => s | None => s0 end.
Definition e_out (s : sstate unit) (ec : event * choice) : list effect :=
  match e_step s (fst ec) (snd ec) with SR _ _ o => o | _ => [] end.

Definition e_s0 : sstate unit := Eval vm_compute in e_state e_before.
Definition e_s1 : sstate unit := Eval vm_compute in e_state (e_before ++ [e_get_peers e_A e_mg []]).
Definition e_s2 : sstate unit := Eval vm_compute in e_state (e_before ++ [e_get_peers e_A e_mg []] ++ e_mid).
Definition e_s3 : sstate unit :=
  Eval vm_compute in e_state (e_before ++ [e_get_peers e_A e_mg []] ++ e_mid ++ [e_announce e_A' e_ma]).
Definition e_outg : list effect := Eval vm_compute in e_out e_s0 (e_get_peers e_A e_mg []).
Definition e_outa : list effect := Eval vm_compute in e_out e_s2 (e_announce e_A' e_ma).
Definition e_rm : msg := Eval vm_compute in match e_outg with [ESend _ rm _] => rm | _ => empty_msg end.
Definition e_r : krpc_return := Eval vm_compute in match m_r e_rm with Some r => r | None => empty_return end.
Definition e_x : bytes := v4_prefix ++ e_ipA.

Definition e_mid_outs : list (list effect) :=
  [[]; [ESend dstA (reply_msg cfg0 dstA (m_t ping0) empty_return) SReply]; [EQueryCancelled 1]; []].

Example E2E_ex_hyps :
  c_peer_store cfg0 = true /\ 0 <= s_now unit e_s0 /\
  m_y e_mg = s_q /\ m_q e_mg = s_get_peers /\
  e_step e_s0 (EPacket e_A 100 (Some e_mg)) (mkChoice None [] [] []) = SR unit e_s1 e_outg /\
  In (ESend e_A e_rm SReply) e_outg /\ m_r e_rm = Some e_r /\ r_token e_r = Some e_tok /\
  e_run e_s1 e_mid = Some (e_s2, e_mid_outs) /\
  0 <= elapsed e_mid < token_window_ns /\ elapsed e_mid = 599 * e_sec /\
  to16 (ip e_A) = Some e_x /\ to16 (ip e_A') = Some e_x /\ to16 (ip e_A'm) = Some e_x /\
  m_y e_ma = s_q /\ m_q e_ma = s_announce_peer /\
  m_a e_ma = Some (e_ann_args (2 ^ 158 + 5) e_tok (Some 7000) false) /\
  open_gate unit cfg0 e_s2 e_A' 100 e_ma /\
  e_step e_s2 (EPacket e_A' 100 (Some e_ma)) no_choice = SR unit e_s3 e_outa /\
  reachable unit wp0 wg0 Sha1.sha1 sec0 cfg0 s0.
Proof.
  assert (Hreach : reachable unit wp0 wg0 Sha1.sha1 sec0 cfg0 s0).
  { apply (C01_run_reachable unit wp0 wg0 Sha1.sha1 sec0 cfg0 evs0 init0 s0 outs0).
    - apply reach_init.
    - exact evs0_wf.
    - vm_compute. reflexivity. }
  repeat split; try exact Hreach; try (vm_compute; first [reflexivity | discriminate | tauto]).
Qed.

(* the theorem applied to the concrete run: its conclusions 2, 3, 4 as Coq facts about these states *)
Example E2E_ex_theorem_applies :
  valid_token Sha1.sha1 cfg0 e_tok e_A' (s_now unit e_s2) = Some true /\
  sends e_outa = [ESend e_A' (reply_msg cfg0 e_A' ["a"; "1"]%byte empty_return) SReply] /\
  s_peers unit e_s3 = add_peer (s_peers unit e_s2) (mkPeer e_ih e_ipA 7000) /\
  In (mkPeer e_ih e_ipA 7000) (get_peers_of unit e_s3 e_ih).
Proof.
  destruct E2E_ex_hyps as (H1 & H2 & H3 & H4 & H5 & H6 & H7 & H8 & H9 & H10 & _ & H11 & H12 & _ & H13 & H14 & H15 & H16 & H17 & _).
  pose proof (E2E_announce_end_to_end unit wp0 wg0 Sha1.sha1 sec0 cfg0
                e_s0 e_A 100%N e_mg (mkChoice None [] [] []) e_s1 e_outg e_A e_rm SReply e_r e_tok e_mid e_s2 e_mid_outs
                e_A' 100%N e_ma (e_ann_args (2 ^ 158 + 5) e_tok (Some 7000) false) no_choice e_s3 e_outa e_x) as T.
  specialize (T H1 H2 H3 (or_introl H4) H5 H6 H7 H8 H9 H10 H11 H12 H13 H14 H15 eq_refl H16 H17).
  destruct T as (_ & (_ & C2) & (_ & C3 & _) & (_ & C4 & C5 & _) & _).
  repeat split; assumption.
Qed.

(* ---- Part 2 on a concrete owner: a Lookups.v announce (target = the infohash, port 7000, K = 8) that
        queried B (address number 77), got B's reply of the run above (token e_tok), and announces; B takes
        the datagram 9 min 59 s after its reply.  All net_* premises hold; the theorem gives acceptance. ---- *)
Definition e_ver (k m s : bytes) : bool := true.
Definition e_ok (a : Lookups.addr) (i : N) : bool := true.
Definition e_target : N := toN e_ih.
Definition e_push := lk_push e_target 8.
Definition e_lcfg : lcfg := mkLC AAnnounce Pinned false SNOk 5 e_target (Some (7000, false)) [] [].
Definition e_dB : Lookups.addr := 77%N.
Definition e_greply : greply := mkGR true (2 ^ 159)%N (Some e_tok) [x70] (mkReply [] (zero_bytes 32) (zero_bytes 64) None).
Definition e_sched : list label :=
  [OStartTrav; OGetNodes; TIssue e_dB; QReturn 0 (Some e_greply); QDeliver 0; QFinish 0;
   OStalled; OStopStep; TLoopExit; TStopWait; OStoppedStep; OSend true; OSendsDone; OCloseP].
Definition e_ls : lstate := Lookups.run Sha1.sha1 e_ver e_ok e_push e_lcfg e_sched.
Definition e_sr : sendrec := mkSR e_dB e_tok e_target 7000 false 0 true.

Example E2E_ex_owner :
  l_sends e_ls = [e_sr] /\ l_log e_ls = [(0%nat, e_dB, e_greply)] /\
  map e_addr (l_closest e_ls) = [e_dB] /\ all_done e_ls = true /\
  ofN 20 (lc_target e_lcfg) = e_ih /\
  (* the datagram of the owner's server (any configuration, here B's own type of node with another root) *)
  query_msg (mkCfg 5 false false true true (fun _ => true) false [x07]) s_announce_peer (announce_args_of e_sr) ["a"; "1"]%byte
  = mkMsg s_announce_peer
          (Some (mkArgs (ofN 20 5) e_ih zero20 e_tok (Some 7000) false None 0 0 None None 0 zero32 [] zero64))
          ["a"; "1"]%byte s_q None None empty_na false [].
Proof. vm_compute. repeat split. Qed.

Definition e_ma_owner : msg :=
  query_msg (mkCfg 5 false false true true (fun _ => true) false [x07]) s_announce_peer (announce_args_of e_sr) ["a"; "1"]%byte.
Definition e_s3o : sstate unit :=
  Eval vm_compute in match e_step e_s2 (EPacket e_A' 100 (Some e_ma_owner)) no_choice with SR _ s _ => s | _ => e_s2 end.
Definition e_outao : list effect :=
  Eval vm_compute in match e_step e_s2 (EPacket e_A' 100 (Some e_ma_owner)) no_choice with SR _ _ o => o | _ => [] end.

Example E2E_ex_link_applies :
  valid_token Sha1.sha1 cfg0 (sr_token e_sr) e_A' (s_now unit e_s2) = Some true /\
  sends e_outao = [ESend e_A' (reply_msg cfg0 e_A' ["a"; "1"]%byte empty_return) SReply] /\
  s_peers unit e_s3o = add_peer (s_peers unit e_s2) (mkPeer (ofN 20 (lc_target e_lcfg)) e_ipA 7000) /\
  In (mkPeer (ofN 20 (lc_target e_lcfg)) e_ipA 7000) (get_peers_of unit e_s3o (ofN 20 (lc_target e_lcfg))).
Proof.
  destruct E2E_ex_hyps as (H1 & H2 & H3 & H4 & H5 & H6 & H7 & H8 & H9 & H10 & _ & H11 & H12 & _).
  destruct E2E_ex_owner as (O1 & O2 & _).
  assert (P1 : LookupsProofs.reachable Sha1.sha1 e_ver e_ok e_push e_lcfg e_ls) by (exists e_sched; reflexivity).
  assert (P2 : is_announce e_lcfg = true) by reflexivity.
  assert (P3 : In e_sr (l_sends e_ls)) by (rewrite O1; left; reflexivity).
  assert (Hans : answers_with_token unit wp0 wg0 Sha1.sha1 sec0 cfg0 e_s0 e_A e_tok e_s1).
  { exists 100%N, e_mg, (mkChoice None [] [] []), e_outg, e_A, e_rm, SReply, e_r.
    exact (conj H3 (conj (or_introl H4) (conj H5 (conj H6 (conj H7 H8))))). }
  assert (net_reply_token : forall q r tok, In (q, sr_dest e_sr, r) (l_log e_ls) -> gr_has_r r = true ->
            gr_token r = Some tok -> fresh_token unit wp0 wg0 Sha1.sha1 sec0 cfg0 e_x tok e_s2).
  { intros q r tok Hin Hhas Htok. rewrite O2 in Hin. destruct Hin as [E|[]].
    pose proof (f_equal snd E) as Er. cbn [snd] in Er. subst r.
    change (Some e_tok = Some tok) in Htok. injection Htok as <-.
    exists e_s0, e_A, e_s1, e_mid, e_mid_outs.
    exact (conj H11 (conj H2 (conj Hans (conj H9 H10)))). }
  assert (P6 : open_gate unit cfg0 e_s2 e_A' 100%N e_ma_owner) by (vm_compute; repeat split; discriminate).
  assert (P7 : e_step e_s2 (EPacket e_A' 100%N (Some e_ma_owner)) no_choice = SR unit e_s3o e_outao)
    by (vm_compute; reflexivity).
  pose proof (E2E_owner_announce_accepted_unchanged unit wp0 wg0 Sha1.sha1 sec0 cfg0 e_ver e_ok e_push
                (lk_push_incl e_target 8) e_lcfg e_ls e_sr e_x e_s2 e_A' 100%N e_ma_owner no_choice e_s3o e_outao
                (mkCfg 5 false false true true (fun _ => true) false [x07]) ["a"; "1"]%byte
                H1 P1 P2 P3 net_reply_token H12 eq_refl P6 P7) as T.
  exact T.
Qed.

(* ================= pins: the constants the statement names ================= *)
Example E2E_pin_window :
  token_interval_ns = 300000000000 /\ token_interval_ns_ok = true /\
  token_max_delta = 2 /\ token_max_delta_ok = true /\
  token_window_ns = 600 * e_sec.
Proof. repeat split. Qed.

Print Assumptions E2E_run_now.
Print Assumptions E2E_run_closed.
Print Assumptions E2E_run_blocklist.
Print Assumptions E2E_run_gates_stay_open.
Print Assumptions E2E_fresh_token_valid.
Print Assumptions E2E_announce_end_to_end.
Print Assumptions E2E_announce_possible.
Print Assumptions E2E_same_family_endpoint.
Print Assumptions E2E_mapped_source_served_as_v4.
Print Assumptions E2E_owner_announce_accepted.
Print Assumptions E2E_owner_datagram_fields.
Print Assumptions E2E_owner_announce_accepted_unchanged.
Print Assumptions E2E_ex_accepted_and_served.
Print Assumptions E2E_ex_late_dropped.
Print Assumptions E2E_ex_mapped_and_implied.
Print Assumptions E2E_ex_port_is_mod_2_16.
Print Assumptions E2E_ex_hyps.
Print Assumptions E2E_ex_theorem_applies.
Print Assumptions E2E_ex_link_applies.
