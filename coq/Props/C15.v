(* C15 — KRPC wire codec round-trips and never panics.
   Statements only: every proof is `exact <lemma>` from proofs/ (CompactProofs, BencodeProofs,
   KrpcProofs, KrpcRecProofs, KrpcRtProofs, KrpcWfProofs, CodecProofs); `Example`s are non-vacuity
   witnesses and pins computed by the kernel.

   Model: model/Compact.v (binary codecs), model/Bencode.v (token layer, strict value parser, raw
   scanner of the third-party bencode library), model/Krpc.v (type-directed decoder and encoder,
   interpreting gen/KrpcSchema.v which tools/srcschema regenerates from the struct tags of
   /repo/krpc/msg.go).  `xmsg` = Msg.msg plus the three nil-vs-empty distinctions the codec observes
   and Msg.v does not carry (a.salt, r.v, ip).  `ni` ranges over the two NodeInfo decoders
   (pinned tree / repaired tree); they agree wherever the message decoder uses them. *)
From Coq Require Import String.
From Dht Require Import Base Msg Compact Bencode Krpc.
From Dht Require Import CompactProofs BencodeProofs KrpcProofs KrpcRtProofs KrpcWfProofs CodecProofs.
From DhtGen Require Import Params KrpcSchema.
Close Scope string_scope.
Local Open Scope nat_scope.

(* ================================================================ compact formats *)
(* decode succeeds exactly on the strings whose length is a multiple of the entry size ... *)
Theorem C15_compact_iff b :
  ((exists l, addrs4_dec b = COk l) <-> length b mod 6 = 0) /\
  ((exists l, addrs6_dec b = COk l) <-> length b mod 18 = 0) /\
  ((exists l, infos4_dec b = COk l) <-> length b mod 26 = 0) /\
  ((exists l, infos6_dec b = COk l) <-> length b mod 38 = 0) /\
  ((exists l, hashes_dec b = COk l) <-> length b mod 20 = 0).
Proof. exact (conj (addrs4_iff b) (conj (addrs6_iff b) (conj (infos4_iff b) (conj (infos6_iff b) (hashes_iff b))))). Qed.

(* ... any other length is an error (not a panic, not a partial success) ... *)
Theorem C15_compact_bad_length b :
  (length b mod 6 <> 0 -> addrs4_dec b = CErr) /\ (length b mod 18 <> 0 -> addrs6_dec b = CErr) /\
  (length b mod 26 <> 0 -> infos4_dec b = CErr) /\ (length b mod 38 <> 0 -> infos6_dec b = CErr) /\
  (length b mod 20 <> 0 -> hashes_dec b = CErr).
Proof. exact (conj (addrs4_bad_length b) (conj (addrs6_bad_length b) (conj (infos4_bad_length b) (conj (infos6_bad_length b) (hashes_bad_length b))))). Qed.

(* ... and what decodes re-encodes to the identical bytes *)
Theorem C15_compact_reencode b :
  (forall l, addrs4_dec b = COk l -> addrs4_enc l = COk b) /\ (forall l, addrs6_dec b = COk l -> addrs6_enc l = COk b) /\
  (forall l, infos4_dec b = COk l -> infos4_enc l = COk b) /\ (forall l, infos6_dec b = COk l -> infos6_enc l = COk b) /\
  (forall l, hashes_dec b = COk l -> hashes_enc l = COk b).
Proof. exact (conj (addrs4_reencode b) (conj (addrs6_reencode b) (conj (infos4_reencode b) (conj (infos6_reencode b) (hashes_reencode b))))). Qed.

(* the same two facts for the NodeInfo decoder of the pinned tree, when it is used inside a list *)
Theorem C15_compact_pinned b :
  ((exists l, infos4_dec_pinned b = COk l) <-> length b mod 26 = 0) /\
  ((exists l, infos6_dec_pinned b = COk l) <-> length b mod 38 = 0) /\
  (forall l, infos4_dec_pinned b = COk l -> infos4_enc l = COk b) /\
  (forall l, infos6_dec_pinned b = COk l -> infos6_enc l = COk b).
Proof. exact (conj (infos4_pinned_iff b) (conj (infos6_pinned_iff b) (conj (infos4_pinned_reencode b) (infos6_pinned_reencode b)))). Qed.

(* encode and decode are inverse on well-formed lists: contacts in the family of the list that holds
   them (4-byte / 16-byte IP), 20-byte ids, ports in uint16 *)
Theorem C15_compact_inverse :
  (forall l, Forall (wf_addr 4) l -> exists b, addrs4_enc l = COk b /\ addrs4_dec b = COk l) /\
  (forall l, Forall (wf_addr 16) l -> exists b, addrs6_enc l = COk b /\ addrs6_dec b = COk l) /\
  (forall l, Forall (wf_info 4) l -> exists b, infos4_enc l = COk b /\ infos4_dec b = COk l /\ infos4_dec_pinned b = COk l) /\
  (forall l, Forall (wf_info 16) l -> exists b, infos6_enc l = COk b /\ infos6_dec b = COk l /\ infos6_dec_pinned b = COk l) /\
  (forall l, Forall (fun h => length h = 20) l -> exists b, hashes_enc l = COk b /\ hashes_dec b = COk l).
Proof. exact (conj addrs4_inverse (conj addrs6_inverse (conj infos4_inverse (conj infos6_inverse hashes_inverse)))). Qed.

(* decoded lists are well-formed in that sense *)
Theorem C15_compact_decoded_wf b :
  (forall l, addrs4_dec b = COk l -> Forall (wf_addr 4) l) /\ (forall l, addrs6_dec b = COk l -> Forall (wf_addr 16) l) /\
  (forall l, infos4_dec b = COk l -> Forall (wf_info 4) l) /\ (forall l, infos6_dec b = COk l -> Forall (wf_info 16) l) /\
  (forall l, hashes_dec b = COk l -> Forall (fun h => length h = 20) l).
Proof. exact (conj (addrs4_dec_wf b) (conj (addrs6_dec_wf b) (conj (infos4_dec_wf b) (conj (infos6_dec_wf b) (hashes_dec_wf b))))). Qed.

(* NodeAddr / NodeInfo binary forms *)
Theorem C15_nodeaddr_roundtrip :
  (forall a, port_ok (na_port a) -> nodeaddr_unmarshal (nodeaddr_marshal a) = COk a) /\
  (forall b, length b < 2 -> nodeaddr_unmarshal b = CErr) /\
  (forall b, 2 <= length b -> exists a, nodeaddr_unmarshal b = COk a /\ nodeaddr_marshal a = b /\
                                        length (na_ip a) = length b - 2 /\ port_ok (na_port a)).
Proof. exact (conj nodeaddr_roundtrip (conj nodeaddr_unmarshal_short nodeaddr_unmarshal_ok)). Qed.

Theorem C15_nodeinfo_roundtrip :
  (forall n, length (ni_id n) = 20 -> port_ok (na_port (ni_addr n)) ->
             nodeinfo_unmarshal (nodeinfo_marshal n) = COk n /\ nodeinfo_unmarshal_pinned (nodeinfo_marshal n) = COk n) /\
  (forall b, length b < 22 -> nodeinfo_unmarshal b = CErr) /\
  (forall b, 22 <= length b -> exists n, nodeinfo_unmarshal b = COk n /\ nodeinfo_unmarshal_pinned b = COk n /\
                                         nodeinfo_marshal n = b /\ length (ni_id n) = 20 /\
                                         length (na_ip (ni_addr n)) = length b - 22 /\ port_ok (na_port (ni_addr n))).
Proof. exact (conj nodeinfo_roundtrip (conj nodeinfo_unmarshal_short nodeinfo_unmarshal_ok)). Qed.

(* the nodes file *)
Theorem C15_nodes_file :
  (forall l, Forall (wf_info 16) l -> exists b, nodes_file_write l = COk b /\ nodes_file_read b = COk l) /\
  (forall b, (exists l, nodes_file_read b = COk l) <-> length b mod 38 = 0).
Proof. exact (conj nodes_file_roundtrip nodes_file_read_iff). Qed.

(* ================================================================ bencode values *)
(* the strict parser (interface{} targets) reads back what the canonical encoder writes, for every
   value with strictly ascending dictionary keys and strings within the decoder's limit *)
Theorem C15_benc_parse v rest : canonb v = true -> parse_value (benc v ++ rest) = Some (v, rest).
Proof. exact (parse_value_benc_top v rest). Qed.

(* decimal round trip *)
Theorem C15_decimal_roundtrip : (forall n, parse_udec (dec_N n) = Some n) /\ (forall z, int_text_any (dec_Z z) = Some z).
Proof. exact (conj parse_udec_dec_N int_text_dec_Z). Qed.

(* fuel = length of the input suffices, for the strict parser and for the raw scanner *)
Theorem C15_fuel_enough f d b :
  length b <= f ->
  parse_value_fuel f d b = parse_value_fuel (length b) d b /\ scan_value_fuel f b = scan_value_fuel (length b) b.
Proof. intros H. exact (conj (parse_value_fuel_enough f d b H) (scan_value_fuel_enough f b H)). Qed.

(* what the strict parser returns is canonical; what the raw scanner cuts out is the consumed prefix
   and is again one complete raw value *)
Theorem C15_parse_scan_sound b :
  (forall v r, parse_value b = Some (v, r) -> canonb v = true) /\
  (forall raw r, scan_value b = Some (raw, r) -> b = raw ++ r /\ raw <> [] /\ one_raw_value raw).
Proof. exact (conj (parse_value_canon b) (scan_value_spec b)). Qed.

(* ================================================================ messages *)
(* well-formed messages: exact-width ids / k / sig / bloom filters; contacts in `nodes` with 4-byte
   and in `nodes6` with 16-byte addresses, ports in uint16, a plain compact list nil or non-empty;
   `values` ports in uint16; integers in int64; a.v canonical; a present r.v one complete raw value;
   every string within the decoder's string limit; nil-ness flags consistent.  Decidable: *)
Example C15_wf_is_decidable : forall x, wf_xmsg x <-> wf_xmsgb x = true.
Proof. intros x. split; exact (fun H => H). Qed.

Theorem C15_roundtrip_x ni x :
  ni_ok ni -> wf_xmsg x -> exists b, encode_xmsg x = COk b /\ decode_xmsg ni b = DOk x.
Proof. exact (x_roundtrip ni x). Qed.

Theorem C15_roundtrip ni m :
  ni_ok ni -> wf_msg m -> exists b, encode_msg m = Some b /\ decode_msg ni b = DOk m.
Proof. exact (msg_roundtrip ni m). Qed.

(* what decodes (with or without unused trailing bytes) is well-formed ... *)
Theorem C15_decode_wf ni b x :
  ni_ok ni -> (N.of_nat (length b) <= max_str_len)%N ->
  decode_xmsg ni b = DOk x \/ (exists n, decode_xmsg ni b = DOkTrailing x n) -> wf_xmsg x.
Proof. exact (fun H => decode_xmsg_wf ni H b x). Qed.

(* ... hence re-encodes, and the re-encoding is a fixpoint of decode-then-encode.
   The bound on the input (128 MiB - 1, the decoder's own string limit; a datagram has at most
   65535 bytes) is needed: a byte string given as a list of more than 2^27 integers decodes, but its
   re-encoding as a string does not. *)
Theorem C15_fixpoint_x ni b x :
  ni_ok ni -> (N.of_nat (length b) <= max_str_len)%N ->
  decode_xmsg ni b = DOk x \/ (exists n, decode_xmsg ni b = DOkTrailing x n) ->
  exists b', encode_xmsg x = COk b' /\ exists x', decode_xmsg ni b' = DOk x' /\ encode_xmsg x' = COk b'.
Proof. exact (x_fixpoint ni b x). Qed.

Theorem C15_fixpoint ni b m :
  ni_ok ni -> (N.of_nat (length b) <= max_str_len)%N ->
  decode_msg ni b = DOk m \/ (exists n, decode_msg ni b = DOkTrailing m n) ->
  exists b', encode_msg m = Some b' /\ exists m', decode_msg ni b' = DOk m' /\ encode_msg m' = Some b'.
Proof. exact (msg_fixpoint ni b m). Qed.

Example C15_ni_ok : ni_ok nodeinfo_unmarshal /\ ni_ok nodeinfo_unmarshal_pinned.
Proof. exact (conj ni_ok_fixed ni_ok_pinned). Qed.

(* ================================================================ no panic *)
(* every decoder of the model, in the repaired variant (and the message decoder of the pinned tree
   too: inside a message NodeInfo is only decoded from full-width list elements) *)
Theorem C15_no_panic :
  (forall b, decode_msg_fixed b <> DPanic) /\ (forall b, decode_msg_pinned b <> DPanic) /\
  (forall b, addrs4_dec b <> CPanic) /\ (forall b, addrs6_dec b <> CPanic) /\
  (forall b, infos4_dec b <> CPanic) /\ (forall b, infos6_dec b <> CPanic) /\
  (forall b, hashes_dec b <> CPanic) /\
  (forall b, nodeaddr_unmarshal b <> CPanic) /\ (forall b, nodeinfo_unmarshal b <> CPanic) /\
  (forall b, nodes_file_read b <> CPanic).
Proof. exact no_panic_all. Qed.

Theorem C15_no_panic_unmarshal_bencode raw :
  compact_unmarshal_benc addrs4_dec raw <> CPanic /\ compact_unmarshal_benc addrs6_dec raw <> CPanic /\
  compact_unmarshal_benc infos4_dec raw <> CPanic /\ compact_unmarshal_benc infos6_dec raw <> CPanic /\
  compact_unmarshal_benc hashes_dec raw <> CPanic /\ nodeaddr_unmarshal_benc raw <> CPanic.
Proof. exact (no_panic_unmarshal_bencode raw). Qed.

(* FINDING (defect D9): NodeInfo.UnmarshalBinary of the pinned tree panics on every input shorter
   than 20 bytes; witness: the empty input *)
Theorem C15_no_panic_refuted_pinned : exists b, nodeinfo_unmarshal_pinned b = CPanic.
Proof. exact nodeinfo_unmarshal_pinned_panics. Qed.

Theorem C15_pinned_panic_exactly_below_20 b : nodeinfo_unmarshal_pinned b = CPanic <-> length b < 20.
Proof. exact (nodeinfo_unmarshal_pinned_panic_iff b). Qed.

(* ================================================================ pins: the source as it is now *)
Example C15_pin_widths :
  elem_CompactIPv4NodeAddrs = 6%Z /\ elem_CompactIPv4NodeAddrs_ok = true /\
  elem_CompactIPv6NodeAddrs = 18%Z /\ elem_CompactIPv6NodeAddrs_ok = true /\
  elem_CompactIPv4NodeInfo = 26%Z /\ elem_CompactIPv4NodeInfo_ok = true /\
  elem_CompactIPv6NodeInfo = 38%Z /\ elem_CompactIPv6NodeInfo_ok = true /\
  elem_CompactInfohashes = 20%Z /\ elem_CompactInfohashes_ok = true.
Proof. repeat split. Qed.

Definition bs (s : string) : bytes := String.list_byte_of_string s.
Arguments bs s%string.
Definition fld (name key : string) (omit : bool) (k : kind) : field := mkField (bs name) (bs key) omit k.
Arguments fld (name key)%string omit k.

(* the struct tags of krpc.Msg / MsgArgs / Return (embedded Bep51Return and Bep44Return flattened),
   field by field: Go name, bencode key, omitempty, kind *)
Example C15_pin_schema_msg :
  msg_schema_ok = true /\
  msg_schema = [ fld "Q" "q" true KStr; fld "A" "a" true (KPtrStruct (bs "MsgArgs")); fld "T" "t" false KStr;
                 fld "Y" "y" false KStr; fld "R" "r" true (KPtrStruct (bs "Return")); fld "E" "e" true KPtrErr;
                 fld "IP" "ip" true KNodeAddr; fld "ReadOnly" "ro" true KBool; fld "ClientId" "v" true KStr ].
Proof. split; reflexivity. Qed.

Example C15_pin_schema_args :
  args_schema_ok = true /\
  args_schema = [ fld "ID" "id" false KId; fld "InfoHash" "info_hash" true KId; fld "Target" "target" true KId;
                  fld "Token" "token" true KStr; fld "Port" "port" true KPtrInt;
                  fld "ImpliedPort" "implied_port" true KBool; fld "Want" "want" true KWants;
                  fld "NoSeed" "noseed" true KInt; fld "Scrape" "scrape" true KInt; fld "V" "v" true KAny;
                  fld "Seq" "seq" true KPtrInt; fld "Cas" "cas" true KInt; fld "K" "k" true (KArr 32);
                  fld "Salt" "salt" true KBytes; fld "Sig" "sig" true (KArr 64) ].
Proof. split; reflexivity. Qed.

Example C15_pin_schema_return :
  return_schema_ok = true /\
  return_schema = [ fld "ID" "id" false KId; fld "Nodes" "nodes" true (KCompact (bs "CompactIPv4NodeInfo"));
                    fld "Nodes6" "nodes6" true (KCompact (bs "CompactIPv6NodeInfo")); fld "Token" "token" true KPtrStr;
                    fld "Values" "values" true KAddrList; fld "BFsd" "BFsd" true (KPtrArr 256);
                    fld "BFpe" "BFpe" true (KPtrArr 256); fld "Interval" "interval" true KPtrInt;
                    fld "Num" "num" true KPtrInt; fld "Samples" "samples" true (KPtrCompact (bs "CompactInfohashes"));
                    fld "V" "v" true KRaw; fld "K" "k" true (KArr 32); fld "Sig" "sig" true (KArr 64);
                    fld "Seq" "seq" true KPtrInt ].
Proof. split; reflexivity. Qed.

(* the encoder's key order, computed from the schema *)
Example C15_pin_key_order :
  map f_key (enc_fields_of SMsg) = map bs ["a"; "e"; "ip"; "q"; "r"; "ro"; "t"; "v"; "y"]%string /\
  map f_key (enc_fields_of SArgs) = map bs ["cas"; "id"; "implied_port"; "info_hash"; "k"; "noseed"; "port"; "salt";
                                            "scrape"; "seq"; "sig"; "target"; "token"; "v"; "want"]%string /\
  map f_key (enc_fields_of SRet) = map bs ["BFpe"; "BFsd"; "id"; "interval"; "k"; "nodes"; "nodes6"; "num"; "samples";
                                           "seq"; "sig"; "token"; "v"; "values"]%string.
Proof. repeat split; vm_compute; reflexivity. Qed.

(* ================================================================ non-vacuity: concrete messages *)
Definition rt_ok (wire : bytes) : bool :=
  match decode_xmsg_fixed wire, decode_xmsg_pinned wire with
  | DOk x, DOk x' =>
      wf_xmsgb x && match encode_xmsg x, encode_xmsg x' with
                    | COk b, COk b' => bytes_eqb b wire && bytes_eqb b' wire
                    | _, _ => false
                    end
  | _, _ => false
  end.

Definition z20 : bytes := zero_bytes 20.
Definition k32 : bytes := repeat "k"%byte 32.
Definition s64 : bytes := repeat "s"%byte 64.

(* the literal vectors of /repo/krpc/msg_test.go decode to well-formed messages that re-encode to
   the same bytes *)
Example C15_vectors_roundtrip :
  forallb rt_ok
    [ bs "d1:rd2:id20:hellohellohellohello8:intervali420e7:samples0:e1:t5:hello1:y1:re";
      bs "d1:t0:1:y0:e";
      bs "d1:q4:ping1:t2:hi1:y1:qe";
      bs "d1:eli200e4:fucke1:t2:421:y1:ee";
      bs "d1:rd2:id20:" ++ z20 ++ bs "e1:t2:" ++ [x8c; "%"%byte] ++ bs "1:y1:re";
      bs "d1:rd2:id20:" ++ z20 ++ bs "5:nodes26:" ++ z20 ++ [x01; x02; x03; x04; x12; "4"%byte] ++ bs "e1:t2:" ++ [x8c; "%"%byte] ++ bs "1:y1:re";
      bs "d1:rd2:id20:" ++ z20 ++ bs "6:valuesl6:" ++ [x01; x02; x03; x04; x56; x78] ++ bs "ee1:t2:" ++ [x8c; "%"%byte] ++ bs "1:y1:re";
      bs "d2:ip6:" ++ [x7c; xa8; xb4; x08; xf5; x7c] ++ bs "1:rd2:id20:" ++ repeat xeb 20 ++ bs "e1:t1:" ++ [x03] ++ bs "1:y1:re";
      bs "d1:ad2:id20:" ++ z20 ++ bs "1:k32:" ++ k32 ++ bs "3:seqi0e3:sig64:" ++ s64 ++ bs "e1:t0:1:y0:e";
      bs "d1:rd2:id20:" ++ z20 ++ bs "1:k32:" ++ k32 ++ bs "3:seqi0e3:sig64:" ++ s64 ++ bs "1:vl3:tee3:heeee1:t0:1:y0:e";
      bs "d2:roi1e1:t0:1:y0:e";
      bs "d1:rd2:id20:" ++ z20 ++ bs "7:samples0:e1:t0:1:y0:e" ] = true.
Proof. vm_compute. reflexivity. Qed.

(* a query, a reply and an error exercising every field of the three structs *)
Definition ex_args : msg_args :=
  mkArgs (repeat "i"%byte 20) (repeat "h"%byte 20) (repeat "t"%byte 20) (bs "tok") (Some 6881%Z) true
         (Some [s_n4; s_n6]) 1 1 (Some (BDict [(bs "a", BInt (-5)); (bs "b", BList [BStr (bs "x"); BDict []])]))
         (Some 3%Z) 2 k32 (bs "salt") s64.
Definition ex_ret : krpc_return :=
  mkRet (repeat "r"%byte 20)
        (Some [mkNI (repeat "n"%byte 20) (mkNA [x01; x02; x03; x04] 6881)])
        (Some [mkNI (repeat "m"%byte 20) (mkNA (repeat xfe 16) 65535)])
        (Some (bs "token")) (Some [mkNA [x09; x09; x09; x09] 9; mkNA (repeat xaa 16) 0; mkNA [] 7])
        (Some (repeat x55 256)) (Some (zero_bytes 256)) (Some 420%Z) (Some 0%Z) (Some [repeat "s"%byte 20])
        (bs "d1:b1:x1:a1:ye") k32 s64 (Some 12345678901%Z).
Definition ex_query : msg :=
  mkMsg (bs "put") (Some ex_args) (bs "aa") s_q None None (mkNA [x01; x02; x03; x04] 5) true (bs "UT").
Definition ex_reply : msg :=
  mkMsg [] None (bs "bb") s_r (Some ex_ret) None empty_na false [].
Definition ex_error : msg :=
  mkMsg [] None (bs "cc") s_e None (Some (mkErr 203 (bs "Protocol Error"))) empty_na false [].

Definition msg_rt_ok (m : msg) : bool :=
  wf_xmsgb (x_of_msg m) &&
  match encode_msg m with
  | Some b => match decode_msg_fixed b, decode_msg_pinned b with
              | DOk m1, DOk m2 => match encode_msg m1, encode_msg m2 with
                                  | Some b1, Some b2 => bytes_eqb b1 b && bytes_eqb b2 b
                                  | _, _ => false
                                  end
              | _, _ => false
              end
  | None => false
  end.

Example C15_nonvacuous_messages :
  wf_msg ex_query /\ wf_msg ex_reply /\ wf_msg ex_error /\ wf_msg empty_msg /\
  forallb msg_rt_ok [ex_query; ex_reply; ex_error; empty_msg] = true.
Proof. vm_compute. repeat split. Qed.

(* decoder quirks reproduced by the model (each also a directed case of the codec engine):
   trailing bytes, singleton-list coercion (also at top level), last duplicate wins, bool targets,
   ID longer than 20 truncated, empty-but-non-nil salt survives, unsorted keys rejected only inside
   interface{} values, the empty dictionary accepted as a zero value *)
Example C15_quirks :
  (exists x, decode_xmsg_fixed (bs "d1:t1:xe1:y") = DOkTrailing x 3) /\
  (exists x, decode_xmsg_fixed (bs "ld1:t1:a1:y1:qee") = DOk x) /\
  (exists x, decode_xmsg_fixed (bs "d1:t1:x1:t1:ze") = DOk x /\ m_t (x_msg x) = bs "z") /\
  (exists x, decode_xmsg_fixed (bs "d2:roiee") = DOk x /\ m_ro (x_msg x) = true) /\
  (exists x, decode_xmsg_fixed (bs "d1:rd2:id21:XXXXXXXXXXXXXXXXXXXXYee") = DOk x /\
             option_map r_id (m_r (x_msg x)) = Some (repeat "X"%byte 20)) /\
  (exists x, decode_xmsg_fixed (bs "d1:ad2:id20:XXXXXXXXXXXXXXXXXXXX4:salt0:ee") = DOk x /\ x_salt_nn x = true) /\
  decode_xmsg_fixed (bs "d1:ad2:id20:XXXXXXXXXXXXXXXXXXXX1:vd1:b1:x1:a1:yeee") = DReject /\
  (exists x, decode_xmsg_fixed (bs "d1:y1:q1:t2:aa1:q4:pinge") = DOk x) /\
  (exists x, decode_xmsg_fixed (bs "d1:tde1:y1:qe") = DOk x /\ m_t (x_msg x) = []) /\
  decode_xmsg_fixed (bs "d1:rd2:id20:XXXXXXXXXXXXXXXXXXXXdei5eee") = DReject.
Proof. vm_compute. repeat split; eexists; try split; reflexivity. Qed.

(* the encoder panics on a contact of the wrong family (excluded by well-formedness) and fails on a
   non-nil empty bencode.Bytes *)
Example C15_encoder_outcomes :
  infos4_enc [mkNI z20 (mkNA (repeat xfe 16) 1)] = CPanic /\
  infos6_enc [mkNI z20 (mkNA [x01; x02; x03] 1)] = CPanic /\
  addrs4_enc [mkNA [] 1] = CPanic /\
  encode_xmsg (mkX (mkMsg [] None [] [] (Some empty_return) None empty_na false []) false false true) = CErr.
Proof. vm_compute. repeat split. Qed.

Print Assumptions C15_compact_iff.
Print Assumptions C15_compact_bad_length.
Print Assumptions C15_compact_reencode.
Print Assumptions C15_compact_pinned.
Print Assumptions C15_compact_inverse.
Print Assumptions C15_compact_decoded_wf.
Print Assumptions C15_nodeaddr_roundtrip.
Print Assumptions C15_nodeinfo_roundtrip.
Print Assumptions C15_nodes_file.
Print Assumptions C15_benc_parse.
Print Assumptions C15_decimal_roundtrip.
Print Assumptions C15_fuel_enough.
Print Assumptions C15_parse_scan_sound.
Print Assumptions C15_roundtrip_x.
Print Assumptions C15_roundtrip.
Print Assumptions C15_decode_wf.
Print Assumptions C15_fixpoint_x.
Print Assumptions C15_fixpoint.
Print Assumptions C15_no_panic.
Print Assumptions C15_no_panic_unmarshal_bencode.
Print Assumptions C15_no_panic_refuted_pinned.
Print Assumptions C15_pinned_panic_exactly_below_20.
