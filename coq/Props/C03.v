(* C03 — lookups terminate, and only when nothing closer is left to ask.
   Statements only; proofs are `exact <lemma>` from proofs/TraversalC03.v / TraversalC03Live.v.
   Same LTS and conventions as Props/C04.v (repaired algorithm; `lookup sched` = state after any
   label list).  Residue that is NOT proved (DESIGN section 8, C03 partial): weak fairness of the Go
   scheduler and of `select`, and the internals of chansync (modelled from its source). *)
From Dht Require Import Base Int160 Order Traversal TraversalInv TraversalC03 TraversalC03Live TraversalDefaults TraversalExamples.
From DhtGen Require Import Params.
From Coq Require Import Wellfounded.

Section C03.
  Variable D : Type.
  Variable node_filter : ami -> bool.
  Variable data_filter : D -> bool.
  Variable tb : addrport -> addrport -> comparison.
  Hypothesis tb_refl : forall a, tb a a = Eq.
  Hypothesis tb_eq : forall a b, tb a b = Eq -> a = b.
  Hypothesis tb_antisym : forall a b, tb b a = CompOpp (tb a b).
  Hypothesis tb_trans : forall a b c, tb a b = Lt -> tb b c = Lt -> tb a c = Lt.
  Variable target : N.
  Variable K A : nat.

  Notation k := (eff_k K).
  Notation alpha := (eff_alpha A).
  Notation lookup := (run D node_filter data_filter tb true target k alpha).
  Notation stepl := (step D node_filter data_filter tb true target k alpha).

  (* the number of queries is bounded by the number of distinct addresses ever offered
     (seeds, AddNodes, nodes of replies): finitely many contacts -> finitely many queries *)
  Theorem C03_bounded sched :
    length (st_started (lookup sched)) <=
    length (nodup ap_eq_dec (map ami_addr (st_offered (lookup sched)))).
  Proof. exact (TraversalC03.C03_bounded D node_filter data_filter tb tb_refl tb_eq tb_antisym tb_trans target k alpha sched). Qed.

  (* no lost wake-up: a sleeping loop either can wake (its channel was closed by a broadcast made
     under the lock, or stopping is set), or everything it decided before sleeping still holds *)
  Theorem C03_no_lost_wakeup sched g o :
    st_loop (lookup sched) = Waiting g o ->
    enabled D (lookup sched) LWake = true \/
    (g = st_gen (lookup sched) /\
     (Nat.ltb (st_out (lookup sched)) alpha && have_query D true target k (lookup sched) = false) /\
     o = negb (have_query D true target k (lookup sched)) && Nat.eqb (st_out (lookup sched)) 0).
  Proof. exact (TraversalC03.C03_no_lost_wakeup D node_filter data_filter tb tb_refl tb_eq tb_antisym tb_trans target k alpha (eff_k_pos K) (eff_alpha_pos A) sched g o). Qed.

  (* some goroutine of the operation can move, unless it waits for the network, offers a current
     stall, or has stopped *)
  Theorem C03_progress sched :
    let s := lookup sched in
    (exists l, internal D l = true /\ enabled D s l = true) \/
    (exists q, In q (st_inflight s) /\ q_pc q = QWait) \/
    at_stalled_offer s = true \/
    (st_stopped s = true /\ st_loop s = Exited).
  Proof. exact (TraversalC03Live.C03_progress D node_filter data_filter tb tb_refl tb_eq tb_antisym tb_trans target k alpha (eff_k_pos K) (eff_alpha_pos A) sched). Qed.

  (* every internal step and every DoQuery return strictly decreases a lexicographic measure
     (unqueried addresses of a finite universe U, remaining sub-steps, loop awake) *)
  Theorem C03_measure U s l :
    TInv D node_filter data_filter tb target k alpha s ->
    incl (map ami_addr (st_offered s)) U ->
    progress_label D l = true -> enabled D s l = true ->
    lex3 (mu D U (stepl s l)) (mu D U s).
  Proof. exact (TraversalC03Live.C03_measure D node_filter data_filter tb target k alpha (eff_k_pos K) (eff_alpha_pos A) U s l). Qed.

  Theorem C03_measure_wf : well_founded lex3.
  Proof. exact lex3_wf. Qed.

  (* hence no infinite execution of internal steps / query returns over a finite universe *)
  Theorem C03_termination U :
    well_founded (istep D node_filter data_filter tb target k alpha U).
  Proof. exact (TraversalC03Live.C03_termination D node_filter data_filter tb target k alpha (eff_k_pos K) (eff_alpha_pos A) U). Qed.

  (* every reachable state satisfies the invariant the two theorems above assume *)
  Theorem C03_reachable_inv sched : TInv D node_filter data_filter tb target k alpha (lookup sched).
  Proof. exact (inv_run D node_filter data_filter tb tb_refl tb_eq tb_antisym tb_trans target k alpha sched). Qed.

  (* stopping always completes once the in-flight queries have returned *)
  Theorem C03_stop sched :
    st_stopping (lookup sched) = true -> st_inflight (lookup sched) = [] -> st_stopped (lookup sched) = false ->
    enabled D (lookup sched) LStopWait = true /\ st_stopped (stepl (lookup sched) LStopWait) = true.
  Proof. exact (TraversalC03.C03_stop D node_filter data_filter tb tb_refl tb_eq tb_antisym tb_trans target k alpha sched). Qed.

  (* the stall predicate *)
  Theorem C03_stall_predicate sched :
    at_stalled_offer (lookup sched) = true ->
    st_out (lookup sched) = 0 /\ st_inflight (lookup sched) = [] /\
    forall c, In c (st_offered (lookup sched)) -> node_filter c = true ->
      In (ami_addr c) (st_queried (lookup sched)) \/
      (kn_full k (st_closest (lookup sched)) = true /\
       (ami_id c = None \/
        exists i f, ami_id c = Some i /\ kn_farthest (st_closest (lookup sched)) = Some f /\
                    (dist (k_id f) target < dist i target)%N)).
  Proof. exact (TraversalC03.C03_stall_predicate D node_filter data_filter tb tb_refl tb_eq tb_antisym tb_trans target k alpha (eff_k_pos K) (eff_alpha_pos A) sched). Qed.

  (* an offered stall only goes stale through an external AddNodes call *)
  Theorem C03_offer_current s l :
    TInv D node_filter data_filter tb target k alpha s -> enabled D s l = true ->
    (forall ns, l <> LAddNodes ns) ->
    (forall g, st_loop s = Waiting g true -> g = st_gen s) ->
    forall g, st_loop (stepl s l) = Waiting g true -> g = st_gen (stepl s l).
  Proof. exact (TraversalC03.C03_offer_current D node_filter data_filter tb target k alpha s l). Qed.

  (* Farthest() is never called on an empty closest set (K >= 1 after defaults) *)
  Theorem C03_no_farthest_panic (cl : list (kelem D)) : kn_full k cl = true -> kn_farthest cl <> None.
  Proof. exact (TraversalC03.have_query_no_panic D k alpha (eff_k_pos K) (eff_alpha_pos A) cl). Qed.
End C03.

(* ---- non-vacuity ---- *)
Example C03_nonvacuous_stall :
  at_stalled_offer (ex_run ex_sched_stall) = true /\
  st_loop (ex_run ex_sched_stall) = Waiting 6 true /\ st_gen (ex_run ex_sched_stall) = 6 /\
  length (st_started (ex_run ex_sched_stall)) = 3 /\
  length (nodup ap_eq_dec (map ami_addr (st_offered (ex_run ex_sched_stall)))) = 3 /\
  map ami_addr (st_started (ex_run ex_sched_stall)) = [ex_a3; ex_a1; ex_a2] /\
  length (st_closest (ex_run ex_sched_stall)) = 2.
Proof. vm_compute. repeat split. Qed.

Example C03_nonvacuous_waiting :
  st_loop (ex_run ex_sched_mid) = Waiting 4 false /\ st_gen (ex_run ex_sched_mid) = 4 /\
  st_out (ex_run ex_sched_mid) = 2 /\
  enabled N (ex_run ex_sched_mid) LWake = false /\
  enabled N (ex_run (ex_sched_mid ++ ex_complete 2 ex_n2 20)) LWake = true.
Proof. vm_compute. repeat split. Qed.

Example C03_nonvacuous_measure :
  mu N [ex_a1; ex_a2; ex_a3] (ex_run [LAddNodes [ex_seed]]) = (3, 0, 1) /\
  mu N [ex_a1; ex_a2; ex_a3] (ex_run ex_sched_mid) = (0, 12, 0) /\
  mu N [ex_a1; ex_a2; ex_a3] (ex_run ex_sched_stall) = (0, 0, 0).
Proof. vm_compute. repeat split. Qed.

Example C03_nonvacuous_stop :
  st_stopping (ex_run ex_sched_stopped) = true /\ st_stopped (ex_run ex_sched_stopped) = true /\
  st_inflight (ex_run ex_sched_stopped) = [] /\ st_loop (ex_run ex_sched_stopped) = Exited.
Proof. vm_compute. repeat split. Qed.

Example C03_pin_defaults :
  traversal_default_alpha = 3%Z /\ traversal_default_alpha_ok = true /\
  traversal_default_k = 8%Z /\ traversal_default_k_ok = true /\ eff_alpha 0 = 3 /\ eff_k 0 = 8.
Proof. vm_compute. repeat split. Qed.

Print Assumptions C03_bounded.
Print Assumptions C03_no_lost_wakeup.
Print Assumptions C03_progress.
Print Assumptions C03_measure.
Print Assumptions C03_measure_wf.
Print Assumptions C03_termination.
Print Assumptions C03_stop.
Print Assumptions C03_stall_predicate.
Print Assumptions C03_offer_current.
