(* C04 — lookup query discipline: bounded fan-out, once per address, filter first, ctx cancelled
   on stop.  Statements only; every proof is `exact <lemma>` from proofs/Traversal*.v.
   The lookup is the LTS of model/Traversal.v (lock granularity, DESIGN Appendix C) running the
   REPAIRED algorithm (prune_front = true); `run sched` is the state after the schedule `sched`
   (any list of labels; a label that is not enabled is skipped). Responses of the network are
   arguments of the labels LDoQueryReturn, seeds and late contacts of LAddNodes: quantifying over
   all schedules quantifies over all response graphs, seed sets, completion orders, AddNodes and
   Stop placements. K and Alpha are the values passed to Start (0 = default). *)
From Dht Require Import Base Int160 Order Traversal TraversalInv TraversalC04 TraversalDefaults TraversalExamples.
From DhtGen Require Import Params.

Section C04.
  Variable D : Type.                                   (* ClosestData *)
  Variable node_filter : ami -> bool.                  (* fixed for the operation *)
  Variable data_filter : D -> bool.
  Variable tb : addrport -> addrport -> comparison.    (* tie-break of the K-nearest container *)
  Hypothesis tb_refl : forall a, tb a a = Eq.
  Hypothesis tb_eq : forall a b, tb a b = Eq -> a = b.
  Hypothesis tb_antisym : forall a b, tb b a = CompOpp (tb a b).
  Hypothesis tb_trans : forall a b c, tb a b = Lt -> tb b c = Lt -> tb a c = Lt.
  Variable target : N.
  Variable K A : nat.                                  (* OperationInput.K, .Alpha *)

  Notation lookup := (run D node_filter data_filter tb true target (eff_k K) (eff_alpha A)).
  Notation stepl := (step_en D node_filter data_filter tb true target (eff_k K) (eff_alpha A)).

  (* never more than Alpha queries in flight *)
  Theorem C04_alpha sched :
    st_out (lookup sched) <= eff_alpha A /\ st_out (lookup sched) = length (st_inflight (lookup sched)).
  Proof. exact (TraversalC04.C04_alpha D node_filter data_filter tb tb_refl tb_eq tb_antisym tb_trans target (eff_k K) (eff_alpha A) sched). Qed.

  (* st_started = the candidates handed to DoQuery, in start order: no address twice *)
  Theorem C04_once sched : NoDup (map ami_addr (st_started (lookup sched))).
  Proof. exact (TraversalC04.C04_once D node_filter data_filter tb tb_refl tb_eq tb_antisym tb_trans target (eff_k K) (eff_alpha A) sched). Qed.

  (* no candidate rejected by the node filter is ever queried (seeds and learned nodes alike) *)
  Theorem C04_filtered sched c : In c (st_started (lookup sched)) -> node_filter c = true.
  Proof. exact (TraversalC04.C04_filtered D node_filter data_filter tb tb_refl tb_eq tb_antisym tb_trans target (eff_k K) (eff_alpha A) sched c). Qed.

  (* once stopping, the ctx of every in-flight query can be (is being) cancelled ... *)
  Theorem C04_cancel sched q :
    forall s, s = lookup sched ->
    st_stopping s = true -> In q (st_inflight s) -> q_cancelled q = false ->
    enabled D s (LCancel (q_id q)) = true.
  Proof. exact (TraversalC04.C04_cancel_enabled D node_filter data_filter tb tb_refl tb_eq tb_antisym tb_trans target (eff_k K) (eff_alpha A) sched q). Qed.

  (* ... that step cancels it ... *)
  Theorem C04_cancel_effect sched q q' :
    forall s, s = lookup sched ->
    st_stopping s = true -> In q (st_inflight s) ->
    In q' (st_inflight (stepl s (LCancel (q_id q)))) -> q_id q' = q_id q -> q_cancelled q' = true.
  Proof. exact (TraversalC04.C04_cancel_effect D node_filter data_filter tb tb_refl tb_eq tb_antisym tb_trans target (eff_k K) (eff_alpha A) sched q q'). Qed.

  (* ... and no later step of anyone undoes a cancellation *)
  Theorem C04_cancel_stable sched l q q' :
    forall s, s = lookup sched ->
    In q (st_inflight s) -> q_cancelled q = true ->
    In q' (st_inflight (stepl s l)) -> q_id q' = q_id q -> q_cancelled q' = true.
  Proof. exact (TraversalC04.C04_cancel_stable D node_filter data_filter tb tb_refl tb_eq tb_antisym tb_trans target (eff_k K) (eff_alpha A) sched l q q'). Qed.

  (* Stop's goroutine finishes only with nothing in flight, then `stopped` *)
  Theorem C04_stopwait sched :
    forall s, s = lookup sched ->
    enabled D s LStopWait = true ->
    st_out s = 0 /\ st_inflight s = [] /\
    st_stopped (step D node_filter data_filter tb true target (eff_k K) (eff_alpha A) s LStopWait) = true.
  Proof. exact (TraversalC04.C04_stopwait D node_filter data_filter tb tb_refl tb_eq tb_antisym tb_trans target (eff_k K) (eff_alpha A) sched). Qed.
End C04.

(* ---- the pinned algorithm (insertion-time check only) violates C04_once: finding D3 ---- *)
Theorem C04_once_refuted_pinned :
  exists sched : list (label N),
    ~ NoDup (map ami_addr (st_started (run N (fun _ => true) (fun _ => true) ap_cmp false 0%N
                                           (eff_k 0) (eff_alpha 0) sched))).
Proof. exact pinned_not_once. Qed.

(* ---- non-vacuity: a concrete lookup reaches the states the theorems speak about ---- *)
Example C04_nonvacuous_fanout :
  st_out (ex_run ex_sched_mid) = 2 /\ eff_alpha 2 = 2 /\
  map ami_addr (st_started (ex_run ex_sched_mid)) = [ex_a3; ex_a1; ex_a2].
Proof. vm_compute. repeat split. Qed.

Example C04_nonvacuous_cancel :
  st_stopping (ex_run ex_sched_stop) = true /\
  map (fun q => (q_id q, q_cancelled q)) (st_inflight (ex_run ex_sched_stop)) = [(1, false); (2, false)] /\
  map (fun q => (q_id q, q_cancelled q)) (st_inflight (ex_run (ex_sched_stop ++ [LCancel 1]))) = [(1, true); (2, false)] /\
  st_stopped (ex_run ex_sched_stopped) = true /\ st_loop (ex_run ex_sched_stopped) = Exited.
Proof. vm_compute. repeat split. Qed.

Example C04_nonvacuous_d3 :
  map ami_addr (st_started (d3_run false)) = [mkAP 32 1 6881; d3_victim; d3_victim] /\
  map ami_addr (st_started (d3_run true)) = [mkAP 32 1 6881; d3_victim].
Proof. split; [exact d3_pinned_twice|exact (proj1 d3_repaired_once)]. Qed.

(* ---- pins: the defaults of traversal.Start as found in /repo now ---- *)
Example C04_pin_defaults :
  traversal_default_alpha = 3%Z /\ traversal_default_alpha_ok = true /\
  traversal_default_k = 8%Z /\ traversal_default_k_ok = true /\
  eff_alpha 0 = 3 /\ eff_k 0 = 8 /\ eff_alpha 2 = 2 /\ eff_k 5 = 5.
Proof. vm_compute. repeat split. Qed.

Print Assumptions C04_alpha.
Print Assumptions C04_once.
Print Assumptions C04_filtered.
Print Assumptions C04_cancel.
Print Assumptions C04_cancel_effect.
Print Assumptions C04_cancel_stable.
Print Assumptions C04_stopwait.
Print Assumptions C04_once_refuted_pinned.
