(* drv_lookups_limiter.ml — lookups engine, cases of harness/cmd/h/lookups_limiter.go (a SendLimiter that limits; nodes
   that do not acknowledge announce_peer / put).

     lksent <dest> <token> <infohash|target> <port> <implied> <seq> => ok
       printed when an announce_peer / put datagram LEAVES (the cases of lookups.go report them only at lkend).
       The first one of a case tells that the owner has left its wait.  For an announce: Stopped() was awaited, every
       traversal query has returned (the replies that were served are all in the trace, the harness being the only
       source of replies), so the model is finished there (RunLookups.rl_finish) and from now on an `lkissue` is a
       disagreement, not a query "in the middle of being started" (drv_lookups.ml).  The sends of the finished model
       state are the multiset still expected; each line takes its datagram out of it (RunLookupsSends.rls_take,
       proofs/RunLookupsSendsProofs.v: accepted sequences = sub-multisets, nothing is accepted twice): a second
       announce_peer to a node, one with a token that node did not give to this traversal's query, one to a node
       outside the final closest set is rejected at the line where it happens.  `lkend` still compares the whole. *)
open Model
open Driver

let () =
  reg "lksent" (fun a _ -> match a with
    | [dest; tok; ih; port; imp; seq] ->
      (match !Drv_lookups.lkst with
       | None -> "REJECT no-case"
       | Some s ->
         Drv_lookups.lkedmiss := false;
         let exp =
           (match !Drv_lookups.lkexp with
            | Some l -> l
            | None ->
              let s' = rl_finish Drv_lookups.lkedv !Drv_lookups.lkcfg s in
              Drv_lookups.lkst := Some s';
              rl_view_sends s') in
         let x = (((((Drv_lookups.addr_of_tok dest, bytes_of_hex tok), n_of_hex ih), z_of_dec port), bool_of_tok imp), z_of_dec seq) in
         (match rls_take x exp with
          | Some rest -> Drv_lookups.lkexp := Some rest; if !Drv_lookups.lkedmiss then "REJECT edtable-miss" else "ok"
          | None ->
            Drv_lookups.lkexp := Some exp;
            "REJECT datagram-the-model-does-not-expect still-expected=" ^
            String.concat "," (List.map Drv_lookups.show_send exp)))
    | _ -> "?")
