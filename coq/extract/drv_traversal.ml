(* drv_traversal.ml — handlers of the `traversal` engine: replays the explorer's actions on the
   extracted LTS (the rt_ functions of Model) and prints the same observables.  Between two quiescent points the
   real goroutines interleave freely, so the runner keeps the SET of model states that are
   consistent with everything observed so far; an observation is echoed when at least one
   candidate state produces exactly it (those candidates survive), otherwise `REJECT`. *)
open Model
open Driver

let pf = ref true   (* true: repaired algorithm (default); VERIF_TRAV_PINNED=1 replays the pinned one *)
let () = (match Sys.getenv_opt "VERIF_TRAV_PINNED" with Some "1" -> pf := false | _ -> ())

let cfg : tcfg ref = ref { c_target = N0; c_k = O; c_alpha = O; c_bad_addr = []; c_bad_id = []; c_bad_data = [] }
(* candidate states, each with the number of started queries already reported *)
let cands : (n state * int) list ref = ref []
let cur_case = ref ""

let ap_of_tok s : addrport =
  match split_on ':' s with
  | [ip; port] -> ap_of_ip (bytes_of_hex ip) (n_of_dec port)
  | _ -> failwith ("ap " ^ s)
let tok_of_ap (a : addrport) : string =
  Printf.sprintf "%s:%s" (hex_of_bytes (ip_of_ap a)) (dec_of_n a.ap_port)
let ninfo_of_tok s : n * addrport =
  match split_on ':' s with
  | [ip; port; id] -> (n_of_hex id, ap_of_ip (bytes_of_hex ip) (n_of_dec port))
  | _ -> failwith ("ninfo " ^ s)

(* take a counted list `n x1 .. xn` from the front of a token list *)
let counted (toks : string list) : string list * string list =
  match toks with
  | n :: rest -> let n = int_of_string n in (take n rest, drop n rest)
  | [] -> failwith "counted"

let render (s : n state) (nprev : int) : string list =
  let started = List.sort compare (List.map (fun a -> tok_of_ap a.ami_addr) (drop nprev s.st_started)) in
  let infl = List.filter (fun q -> q.q_pc = QWait) s.st_inflight in
  let ctx = List.sort compare
      (List.map (fun q -> Printf.sprintf "%s:%d" (tok_of_ap q.q_cand.ami_addr) (if q.q_cancelled then 1 else 0)) infl) in
  ["s"; string_of_int (List.length started)] @ started @
  ["o"; string_of_int (int_of_nat s.st_out); "u"; string_of_int (List.length s.st_unq);
   "st"; tok_of_bool (rt_stalled s); "sp"; tok_of_bool s.st_stopped;
   "c"; string_of_int (List.length ctx)] @ ctx

let dedup l = List.sort_uniq compare l

(* [outs]: candidate successor states with a token prefix each (e.g. the AddNodes return value) *)
let observe (outs : (string list * n state * int) list) (observed : string list) : string =
  let outs = dedup outs in
  let rendered = List.map (fun (pre, s, np) -> (pre @ render s np, s)) outs in
  let ok = List.filter (fun (r, _) -> r = observed) rendered in
  let after (s : n state) =
    (* the harness consumed the stalled offer it saw *)
    let s' = if rt_stalled s && not s.st_stopping then rt_take_stall !cfg !pf s else s in
    (s', List.length s'.st_started) in
  match ok with
  | [] ->
    cands := dedup (List.map (fun (_, s) -> after s) rendered);
    (match rendered with
     | [] -> "REJECT no-model-successor (no such query in flight in the model)"
     | (r, _) :: _ -> Printf.sprintf "REJECT none-of-%d-model-outcomes one-allowed= %s" (List.length rendered) (String.concat " " r))
  | _ ->
    cands := dedup (List.map (fun (_, s) -> after s) ok);
    String.concat " " observed

let () =
  reg "tbegin" (fun a _ -> match a with
    | case :: target :: k :: alpha :: rest ->
      let ba, rest = counted rest in
      let bi, rest = counted rest in
      let bd, _ = counted rest in
      cur_case := case;
      cfg := { c_target = n_of_hex target; c_k = nat_of_int (int_of_string k); c_alpha = nat_of_int (int_of_string alpha);
               c_bad_addr = List.map ap_of_tok ba; c_bad_id = List.map n_of_hex bi; c_bad_data = List.map n_of_dec bd };
      cands := [ (rt_init, 0) ];
      "ok"
    | _ -> "?");
  reg "tadd" (fun a o -> match a with
    | _case :: rest ->
      let ns, _ = counted rest in
      let ns = List.map ami_of_tok ns in
      let outs = List.map (fun (s, np) ->
          let (ret, s') = rt_add !cfg !pf s ns in
          ([string_of_int (int_of_nat ret)], s', np)) !cands in
      observe outs o
    | _ -> "?");
  reg "tstop" (fun _ o ->
      observe (List.map (fun (s, np) -> ([], rt_stop !cfg !pf s, np)) !cands) o);
  reg "tdone" (fun a o -> match a with
    | _case :: addr :: from :: rest ->
      let nodes, rest = counted rest in
      let nodes6, _ = counted rest in
      let from = if from = "-" then None else
          (match split_on ':' from with
           | [ip; port; id; d] -> Some ((n_of_hex id, ap_of_ip (bytes_of_hex ip) (n_of_dec port)), n_of_dec d)
           | _ -> failwith "from") in
      let r = { r_from = from; r_nodes = List.map ninfo_of_tok nodes; r_nodes6 = List.map ninfo_of_tok nodes6 } in
      let a = ap_of_tok addr in
      let outs = List.concat_map (fun (s, np) ->
          List.map (fun s' -> ([], s', np)) (rt_complete !cfg !pf s a r)) !cands in
      observe outs o
    | _ -> "?");
  reg "tend" (fun _ o -> match o with
    | _n :: contents ->
      let obs = List.map kel_of_tok contents in
      if List.exists (fun (s, _) -> rt_accept_closest !cfg s obs) !cands then String.concat " " o
      else (match !cands with
          | (s, _) :: _ -> "REJECT closest one-allowed= " ^ String.concat " " (List.map tok_of_kel s.st_closest)
          | [] -> "REJECT no-state")
    | _ -> "?")
