(* drv_traversal.ml — handlers of the `traversal` engine: replays the explorer's actions on the
   extracted LTS (the rt_ functions of Model) and prints the same observables.  Between two
   quiescent points the real goroutines interleave freely, so the runner keeps the SET of model
   states that are consistent with everything observed so far; an observation is echoed when at
   least one candidate state produces exactly it (those candidates survive), otherwise `REJECT`.
   Only rt_-prefixed functions of Model and the shared Order/Base types are used (CONVENTIONS:
   flat extraction naming rule). *)
open Model
open Driver

let pf = ref true   (* true: repaired algorithm (default); VERIF_TRAV_PINNED=1 replays the pinned one *)
let () = (match Sys.getenv_opt "VERIF_TRAV_PINNED" with Some "1" -> pf := false | _ -> ())

let cfg = ref (rt_mk_cfg N0 O O [] [] [])
(* candidate states, each with the number of started queries already reported *)
let cands = ref [ (rt_init, 0) ]

let ap_of_tok s : addrport =
  match split_on ':' s with
  | [ip; port] -> ap_of_ip (bytes_of_hex ip) (n_of_dec port)
  | _ -> failwith ("ap " ^ s)
let tok_of_ap (a : addrport) : string =
  Printf.sprintf "%s:%s" (hex_of_bytes (ip_of_ap a)) (dec_of_n a.ap_port)
let ninfo_of_tok s =
  match split_on ':' s with
  | [ip; port; id] -> (n_of_hex id, ap_of_ip (bytes_of_hex ip) (n_of_dec port))
  | _ -> failwith ("ninfo " ^ s)

(* take a counted list `n x1 .. xn` from the front of a token list *)
let counted (toks : string list) : string list * string list =
  match toks with
  | n :: rest -> let n = int_of_string n in (take n rest, drop n rest)
  | [] -> failwith "counted"

let render s (nprev : int) : string list =
  let started = List.sort compare (List.map tok_of_ap (drop nprev (rt_started s))) in
  let ctx = List.sort compare
      (List.map (fun (a, c) -> Printf.sprintf "%s:%d" (tok_of_ap a) (if c then 1 else 0)) (rt_ctx s)) in
  ["s"; string_of_int (List.length started)] @ started @
  ["o"; string_of_int (int_of_nat (rt_out s)); "u"; string_of_int (int_of_nat (rt_unq_len s));
   "st"; tok_of_bool (rt_stalled s); "sp"; tok_of_bool (rt_stopped s);
   "c"; string_of_int (List.length ctx)] @ ctx

let dedup l = List.sort_uniq compare l

(* [outs]: candidate successor states with a token prefix each (e.g. the AddNodes return value) *)
let observe outs (observed : string list) : string =
  let outs = dedup outs in
  let rendered = List.map (fun (pre, s, np) -> (pre @ render s np, s)) outs in
  let ok = List.filter (fun (r, _) -> r = observed) rendered in
  let after s =
    (* the harness consumed the stalled offer it saw *)
    let s' = if rt_stalled s && not (rt_stopping s) then rt_take_stall !cfg !pf s else s in
    (* forget the write-only histories: candidates that differ only there behave alike
       (TraversalConc.erase_exec) *)
    let s' = rt_erase s' in
    (s', List.length (rt_started s')) in
  match ok with
  | [] ->
    cands := dedup (List.map (fun (_, s) -> after s) rendered);
    (match rendered with
     | [] -> "REJECT no-model-successor (no such query in flight in the model)"
     | (r, _) :: _ -> Printf.sprintf "REJECT none-of-%d-model-outcomes one-allowed= %s" (List.length rendered) (String.concat " " r))
  | _ ->
    cands := dedup (List.map (fun (_, s) -> after s) ok);
    String.concat " " observed

let () =
  reg "tbegin" (fun a _ -> match a with
    | _case :: target :: k :: alpha :: rest ->
      let ba, rest = counted rest in
      let bi, rest = counted rest in
      let bd, _ = counted rest in
      cfg := rt_mk_cfg (n_of_hex target) (nat_of_int (int_of_string k)) (nat_of_int (int_of_string alpha))
          (List.map ap_of_tok ba) (List.map n_of_hex bi) (List.map n_of_dec bd);
      cands := [ (rt_init, 0) ];
      "ok"
    | _ -> "?");
  reg "tadd" (fun a o -> match a with
    | _case :: rest ->
      let ns, _ = counted rest in
      let ns = List.map ami_of_tok ns in
      let outs = List.map (fun (s, np) ->
          let (ret, s') = rt_add !cfg !pf s ns in
          ([string_of_int (int_of_nat ret)], s', np)) !cands in
      observe outs o
    | _ -> "?");
  reg "tstop" (fun _ o ->
      observe (List.map (fun (s, np) -> ([], rt_stop !cfg !pf s, np)) !cands) o);
  reg "tdone" (fun a o -> match a with
    | _case :: addr :: from :: rest ->
      let nodes, rest = counted rest in
      let nodes6, _ = counted rest in
      let from = if from = "-" then None else
          (match split_on ':' from with
           | [ip; port; id; d] -> Some ((n_of_hex id, ap_of_ip (bytes_of_hex ip) (n_of_dec port)), n_of_dec d)
           | _ -> failwith "from") in
      let r = rt_mk_resp from (List.map ninfo_of_tok nodes) (List.map ninfo_of_tok nodes6) in
      let a = ap_of_tok addr in
      let outs = List.concat_map (fun (s, np) ->
          List.map (fun s' -> ([], s', np)) (rt_complete !cfg !pf s a r)) !cands in
      observe outs o
    | _ -> "?");
  (* several completions released together: explore rt_conc_succ to a fixpoint (deduplicated),
     quiesce every state in which all of them are done *)
  reg "tdonem" (fun a o -> match a with
    | _case :: n :: rest ->
      let n = int_of_string n in
      let rec parse k toks acc =
        if k = 0 then List.rev acc else
          match toks with
          | addr :: from :: rest ->
            let nodes, rest = counted rest in
            let nodes6, rest = counted rest in
            let from = if from = "-" then None else
                (match split_on ':' from with
                 | [ip; port; id; d] -> Some ((n_of_hex id, ap_of_ip (bytes_of_hex ip) (n_of_dec port)), n_of_dec d)
                 | _ -> failwith "from") in
            let r = rt_mk_resp from (List.map ninfo_of_tok nodes) (List.map ninfo_of_tok nodes6) in
            parse (k - 1) rest ((ap_of_tok addr, r) :: acc)
          | _ -> failwith "tdonem" in
      let rs = parse n rest [] in
      let explore (s0, ids) =
        let fin = ref [] in
        let seen = Hashtbl.create 64 in
        let rec go frontier =
          match frontier with
          | [] -> ()
          | _ ->
            let next = List.concat_map (fun s ->
                if rt_conc_finished s ids then (fin := s :: !fin; [])
                else rt_conc_succ !cfg !pf s ids) frontier in
            let next = dedup (List.map rt_erase next) in
            let next = List.filter (fun s ->
                (* structural hashing of a bounded prefix; equality confirmed by compare *)
                let h = Hashtbl.hash s in
                let l = Hashtbl.find_all seen h in
                if List.exists (fun x -> compare x s = 0) l then false
                else (Hashtbl.add seen h s; true)) next in
            go next in
        go [s0];
        dedup (List.map (fun s -> rt_quiesce !cfg !pf s) !fin) in
      let outs = List.concat_map (fun (s, np) ->
          match rt_conc_begin !cfg !pf s rs with
          | None -> []
          | Some (ids, s1) -> List.map (fun s' -> ([], s', np)) (explore (s1, ids))) !cands in
      observe outs o
    | _ -> "?");
  reg "tend" (fun _ o -> match o with
    | _n :: contents ->
      let obs = List.map kel_of_tok contents in
      if List.exists (fun (s, _) -> rt_accept_closest !cfg s obs) !cands then String.concat " " o
      else (match !cands with
          | (s, _) :: _ -> "REJECT closest one-allowed= " ^ String.concat " " (List.map tok_of_kel (rt_closest s))
          | [] -> "REJECT no-state")
    | _ -> "?")
