(* drv_lookups_closest.ml — lookups engine, cases of harness/cmd/h/lookups_closest.go (C02 / C03 / C04 on the
   Server-backed lookups).

     lkexact <idx> <K> <target> <n> <id|ip:port>*n => <m> <ip:port>*m
       the case's network is HONEST (every node answers every query with the true L >= K closest nodes of the
       network, closest first) and the lookup ran to its end: <n> nodes of the network; observed: the lookup's result
       set, closest first (traversal.Operation.Closest() where the harness started the traversal itself; for
       Server.Bootstrap, whose result set cannot be read, the K closest of the nodes that ANSWERED this lookup).
       Model: RunLookupsClosest.rlc_exact = the K closest nodes of the network (RunLookupsClosestProofs.rlc_run_spec,
       rlc_nearest, rlc_all_covers), closest first.

     lkclosest <idx> => <m> <ip:port|id>*m
       observed: traversal.Operation.Closest() after the lookup ended (harness-started traversals with Bootstrap's
       K); model: the result set of the replayed trace once the run is finished (Lookups.l_closest: the responders
       that passed the filters, pushed in the order their queries completed), closest first. *)
open Model
open Driver

let () =
  reg "lkexact" (fun a _ -> match a with
    | _idx :: k :: target :: n :: rest ->
      let n = int_of_string n in
      let net = List.map (fun tok -> match split_on '|' tok with
          | [id; ad] -> (n_of_hex id, Drv_lookups.addr_of_tok ad)
          | _ -> failwith ("lkexact node " ^ tok)) (take n rest) in
      let r = rlc_exact (n_of_hex target) (nat_of_int (int_of_string k)) net in
      String.concat " " (string_of_int (List.length r) :: List.map Drv_lookups.tok_of_addr r)
    | _ -> "?");
  reg "lkclosest" (fun _ _ ->
    match !Drv_lookups.lkst with
    | None -> "REJECT no-case"
    | Some s ->
      Drv_lookups.lkedmiss := false;
      let s' = rl_finish Drv_lookups.lkedv !Drv_lookups.lkcfg s in
      let r = rlc_view_closest s' in
      String.concat " " (string_of_int (List.length r) ::
                         List.map (fun (a, i) -> Drv_lookups.tok_of_addr a ^ "|" ^ hex20_of_n i) r))
