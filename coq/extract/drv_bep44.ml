(* drv_bep44.ml — handlers of the `bep44` engine (C12 store side, C13).
   State between lines: the ed25519 verdict table printed by the harness, the sequential model
   state, the concurrent model state.  All decisions are taken by extracted functions of
   RunBep44.v; this file only parses and prints.
   Only the rb_* functions and the basic extracted types (list, option, pairs, bool, n, z, byte) are
   used: no record field, constructor or type name of Bep44.v appears here, so the flat extraction may
   rename those freely. *)
module BZ = Z   (* Zarith, before Model's extracted module Z shadows it *)
open Model
open Driver

(* ---------- ed25519 verdict table: (key, message, signature) -> verdict ---------- *)
let edtab : (string, bool) Hashtbl.t = Hashtbl.create 1024
let edmiss = ref false
let edv k m s =
  let key = hex_of_bytes k ^ ":" ^ hex_of_bytes m ^ ":" ^ hex_of_bytes s in
  match Hashtbl.find_opt edtab key with
  | Some b -> b
  | None -> edmiss := true; false
(* run [f]; a table miss means the model built another buffer than the reference encoder *)
let guarded (f : unit -> string) : string =
  edmiss := false;
  let r = f () in
  if !edmiss then "REJECT edtable-miss" else r

(* ---------- printing ---------- *)
let int_of_zz x = BZ.to_int (big_of_z x)
let str_of_code c = match int_of_zz c with 0 -> "ok" | -1 -> "other" | -2 -> "?" | n -> string_of_int n
let minute = BZ.of_string "60000000000"
let age_min clock created =
  BZ.to_string (BZ.fdiv (BZ.sub (big_of_z clock) (big_of_z created)) minute)
(* an item without its time stamp (a store that rebuilds items): age "z" *)
let age_str clock created =
  if BZ.equal (big_of_z created) (big_of_z rb_zero_time) then "z" else age_min clock created
let str_of_item clock i =
  Printf.sprintf "%s:%s:%s:%s:%s:%s:%s" (dec_of_z (rb_it_seq i)) (dec_of_z (rb_it_cas i)) (hex_of_bytes (rb_it_bv i))
    (hex_of_bytes (rb_it_k i)) (hex_of_bytes (rb_it_salt i)) (hex_of_bytes (rb_it_sig i)) (age_str clock (rb_it_created i))
let dump clock s =
  let l = List.map (fun (t, i) -> hex_of_bytes t ^ ":" ^ str_of_item clock i) s in
  let l = List.sort compare l in
  String.concat " " (string_of_int (List.length l) :: l)
let dump_seqs s =
  let l = List.map (fun (t, i) -> hex_of_bytes t ^ ":" ^ dec_of_z (rb_it_seq i)) s in
  let l = List.sort compare l in
  String.concat " " (string_of_int (List.length l) :: l)

let mk_item bv k salt sg cas seq =
  rb_mk_item (bytes_of_hex bv) (bytes_of_hex k) (bytes_of_hex salt) (bytes_of_hex sg) (z_of_dec cas) (z_of_dec seq) Z0

let opt_z s = if s = "-" then None else Some (z_of_dec s)
let str_opt_z = function None -> "-" | Some q -> dec_of_z q

(* ---------- state ---------- *)
let exp_ns = ref Z0
(* kind of the underlying store of the current case (b44kbegin): it loses the stamp on write / on read *)
let kfp = ref false
let kfg = ref false
let rebuilding () = !kfp || !kfg
let sst = ref rb_s0
let cths = ref []
let cst = ref (rb_cinit [] [])

let sdump () = dump (rb_sclock !sst) (rb_sstore !sst)

(* thread status as the harness can see it *)
let status c tid =
  let (k, p) = rb_cstatus c (nat_of_int tid) in
  match int_of_zz k with
  | 0 -> "N" | 1 -> "B" | 2 -> "yG" | 3 -> "yP" | 4 -> "yD" | 5 -> "U"
  | 6 -> "F:" ^ str_of_code p
  | 7 -> "F:notfound"
  | 8 -> "F:found:" ^ dec_of_z p
  | _ -> "?"
let statuses c ths = String.concat " " (List.mapi (fun i _ -> status c i) ths)

let () =
  reg "edtable" (fun a _ -> match a with
    | _n :: entries ->
      List.iter (fun e -> match split_on ':' e with
          | [k; m; s; v] -> Hashtbl.replace edtab (k ^ ":" ^ m ^ ":" ^ s) (v = "1")
          | _ -> failwith ("edtable entry " ^ e)) entries;
      "ok"
    | _ -> "?");
  (* ---- pure functions ---- *)
  reg "b44buf" (fun a _ -> match a with
    | [salt; seq; bv] -> hex_of_bytes (rb_buf (bytes_of_hex salt) (bytes_of_hex bv) (z_of_dec seq))
    | _ -> "?");
  reg "b44check" (fun a _ -> match a with
    | [bv; k; salt; sg; seq] -> guarded (fun () -> str_of_code (rb_check edv (mk_item bv k salt sg "0" seq)))
    | _ -> "?");
  reg "b44target" (fun a _ -> match a with
    | [bv; k; salt] ->
      let i = mk_item bv k salt "-" "0" "0" in
      let t = hex_of_bytes (rb_target i) in
      (* Item.Target, Put.Target, and MakeMutableTarget for mutable items *)
      if rb_is_mutable i then Printf.sprintf "%s %s %s" t t (hex_of_bytes (rb_mtarget (rb_it_k i) (rb_it_salt i)))
      else Printf.sprintf "%s %s -" t t
    | _ -> "?");
  reg "b44checkin" (fun a _ -> match a with
    | [sseq; scas; sbv; iseq; icas; ibv] ->
      str_of_code (rb_checkin (mk_item sbv "-" "-" "-" scas sseq) (mk_item ibv "-" "-" "-" icas iseq))
    | _ -> "?");
  (* ---- sequential histories ---- *)
  reg "b44begin" (fun a _ -> match a with
    | [_case; e] -> exp_ns := z_of_dec e; sst := rb_s0; kfp := false; kfg := false; "ok"
    | _ -> "?");
  (* a case over a store that copies / rebuilds items: fp fg as in Bep44Rebuild.skind *)
  reg "b44kbegin" (fun a _ -> match a with
    | [_case; e; _kind; fp; fg] -> exp_ns := z_of_dec e; sst := rb_s0; kfp := (fp = "1"); kfg := (fg = "1"); "ok"
    | _ -> "?");
  reg "b44end" (fun _ _ -> "ok");
  reg "b44age" (fun a _ -> match a with
    | [d] -> sst := rb_sadvance edv !exp_ns !sst (z_of_dec d); "ok"
    | _ -> "?");
  reg "b44put" (fun a _ -> match a with
    | [bv; k; salt; sg; cas; seq] -> guarded (fun () ->
        let (st', c) =
          if rebuilding () then rb_skput edv !exp_ns !kfp !kfg !sst (mk_item bv k salt sg cas seq)
          else rb_sput edv !exp_ns !sst (mk_item bv k salt sg cas seq) in
        sst := st';
        Printf.sprintf "%s | %s" (str_of_code c) (sdump ()))
    | _ -> "?");
  reg "b44get" (fun a _ -> match a with
    | [t] ->
      let (st', r) =
        if rebuilding () then rb_skget edv !exp_ns !kfp !kfg !sst (bytes_of_hex t)
        else rb_sget edv !exp_ns !sst (bytes_of_hex t) in
      sst := st';
      let f = (match r with None -> "notfound" | Some i -> "found " ^ str_of_item (rb_sclock st') i) in
      Printf.sprintf "%s | %s" f (sdump ())
    | _ -> "?");
  (* ---- server level: inbound put / get (token already valid), Server.Put ---- *)
  reg "b44wput" (fun a _ -> match a with
    | [bv; k; salt; sg; cas; seq] -> guarded (fun () ->
        let (st', c) =
          if rebuilding () then rb_skwput edv !exp_ns !kfp !kfg !sst (bytes_of_hex bv) (bytes_of_hex k) (bytes_of_hex salt)
              (bytes_of_hex sg) (z_of_dec cas) (opt_z seq)
          else rb_swput edv !exp_ns !sst (bytes_of_hex bv) (bytes_of_hex k) (bytes_of_hex salt)
              (bytes_of_hex sg) (z_of_dec cas) (opt_z seq) in
        sst := st';
        if int_of_zz c = 0 then Printf.sprintf "reply | %s" (sdump ())
        else Printf.sprintf "error %s | %s" (str_of_code c) (sdump ()))
    | _ -> "?");
  reg "b44wget" (fun a _ -> match a with
    | [t; sq] ->
      let (st', (rs, rv)) =
        if rebuilding () then rb_skwget edv !exp_ns !kfp !kfg !sst (bytes_of_hex t) (opt_z sq)
        else rb_swget edv !exp_ns !sst (bytes_of_hex t) (opt_z sq) in
      sst := st';
      let v = (match rv with
          | None -> "- - -"
          | Some ((bv, k), sg) -> Printf.sprintf "%s %s %s" (hex_of_bytes bv) (hex_of_bytes k) (hex_of_bytes sg)) in
      Printf.sprintf "seq=%s %s | %s" (str_opt_z rs) v (sdump ())
    | _ -> "?");
  reg "b44lput" (fun a _ -> match a with
    | [bv; k; salt; sg; cas; seq] -> guarded (fun () ->
        let ko = if k = "-" then None else Some (bytes_of_hex k) in
        let (st', (c, q)) =
          if rebuilding () then rb_sklput edv !exp_ns !kfp !kfg !sst (bytes_of_hex bv) ko (bytes_of_hex salt) (bytes_of_hex sg)
              (z_of_dec cas) (z_of_dec seq)
          else rb_slput edv !exp_ns !sst (bytes_of_hex bv) ko (bytes_of_hex salt) (bytes_of_hex sg)
              (z_of_dec cas) (z_of_dec seq) in
        sst := st';
        match q with
        | Some (((((qbv, qk), qsalt), qsig), qcas), qseq) ->
          Printf.sprintf "query %s %s %s %s %s %s | %s" (hex_of_bytes qbv) (hex_of_bytes qk) (hex_of_bytes qsalt)
            (hex_of_bytes qsig) (dec_of_z qcas) (str_opt_z qseq) (sdump ())
        | None -> Printf.sprintf "err %s | %s" (str_of_code c) (sdump ()))
    | _ -> "?");
  (* ---- the same operations while chosen calls of the underlying Store fail: the first two arguments
     say whether the s.Get and the s.Put (puts) / s.Del (gets) call of this operation returns an error ---- *)
  reg "b44fput" (fun a _ -> match a with
    | [fg; fp; bv; k; salt; sg; cas; seq] -> guarded (fun () ->
        let (st', c) = rb_sfput edv !exp_ns !sst (fg = "1") (fp = "1") (mk_item bv k salt sg cas seq) in
        sst := st';
        Printf.sprintf "%s | %s" (str_of_code c) (sdump ()))
    | _ -> "?");
  reg "b44fget" (fun a _ -> match a with
    | [fg; fd; t] ->
      let (st', (c, r)) = rb_sfget edv !exp_ns !sst (fg = "1") (fd = "1") (bytes_of_hex t) in
      sst := st';
      let f = (match int_of_zz c, r with
          | 0, Some i -> "found " ^ str_of_item (rb_sclock st') i
          | 1, _ -> "notfound"
          | 2, _ -> "error"
          | _ -> "?") in
      Printf.sprintf "%s | %s" f (sdump ())
    | _ -> "?");
  reg "b44fwput" (fun a _ -> match a with
    | [fg; fp; bv; k; salt; sg; cas; seq] -> guarded (fun () ->
        let (st', c) = rb_sfwput edv !exp_ns !sst (fg = "1") (fp = "1") (bytes_of_hex bv) (bytes_of_hex k)
            (bytes_of_hex salt) (bytes_of_hex sg) (z_of_dec cas) (opt_z seq) in
        sst := st';
        if int_of_zz c = 0 then Printf.sprintf "reply | %s" (sdump ())
        else Printf.sprintf "error %s | %s" (str_of_code c) (sdump ()))
    | _ -> "?");
  reg "b44fwget" (fun a _ -> match a with
    | [fg; fd; t; sq] ->
      let (st', (c, (rs, rv))) = rb_sfwget edv !exp_ns !sst (fg = "1") (fd = "1") (bytes_of_hex t) (opt_z sq) in
      sst := st';
      if int_of_zz c <> 0 then Printf.sprintf "error %s | %s" (str_of_code c) (sdump ())
      else
        let v = (match rv with
            | None -> "- - -"
            | Some ((bv, k), sg) -> Printf.sprintf "%s %s %s" (hex_of_bytes bv) (hex_of_bytes k) (hex_of_bytes sg)) in
        Printf.sprintf "seq=%s %s | %s" (str_opt_z rs) v (sdump ())
    | _ -> "?");
  reg "b44flput" (fun a _ -> match a with
    | [fg; fp; bv; k; salt; sg; cas; seq] -> guarded (fun () ->
        let ko = if k = "-" then None else Some (bytes_of_hex k) in
        let (st', (c, q)) = rb_sflput edv !exp_ns !sst (fg = "1") (fp = "1") (bytes_of_hex bv) ko (bytes_of_hex salt)
            (bytes_of_hex sg) (z_of_dec cas) (z_of_dec seq) in
        sst := st';
        match q with
        | Some (((((qbv, qk), qsalt), qsig), qcas), qseq) ->
          Printf.sprintf "query %s %s %s %s %s %s | %s" (hex_of_bytes qbv) (hex_of_bytes qk) (hex_of_bytes qsalt)
            (hex_of_bytes qsig) (dec_of_z qcas) (str_opt_z qseq) (sdump ())
        | None -> Printf.sprintf "err %s | %s" (str_of_code c) (sdump ()))
    | _ -> "?");
  (* ---- concurrent: threads over the store left by the sequential lines ---- *)
  reg "b44cthreads" (fun a _ -> match a with
    | _n :: specs ->
      let now = rb_sclock !sst in
      cths := List.map (fun s -> match split_on ':' s with
          | ["P"; bv; k; salt; sg; cas; seq] -> rb_thread_put (mk_item bv k salt sg cas seq) now
          | ["G"; t] -> rb_thread_get (bytes_of_hex t) now
          | _ -> failwith ("thread spec " ^ s)) specs;
      cst := rb_cinit !cths (rb_sstore !sst); "ok"
    | _ -> "?");
  reg "b44cstep" (fun a o -> match a with
    | [tid] -> guarded (fun () ->
        let tid = int_of_string tid in
        (* observed statuses up to "|": which waiting threads got going; finished ones first *)
        let rec upto = function [] -> [] | "|" :: _ -> [] | x :: r -> x :: upto r in
        let obs = upto o in
        let adv = List.concat (List.mapi (fun i s ->
            if rb_cwaiting !cst (nat_of_int i) && s <> "B" then [(i, s)] else []) obs) in
        let fin, run = List.partition (fun (_, s) -> String.length s > 0 && s.[0] = 'F') adv in
        let advanced = List.map (fun (i, _) -> nat_of_int i) (fin @ run) in
        cst := rb_caction edv !exp_ns !cths !cst (nat_of_int tid) advanced;
        if rb_cstuck !cst then "REJECT blocked-while-lock-free " ^ statuses !cst !cths
        else Printf.sprintf "%s | %s" (statuses !cst !cths) (dump_seqs (rb_cstore !cst)))
    | _ -> "?");
  reg "b44cend" (fun _ _ ->
    sst := rb_swith_store !sst (rb_cstore !cst);
    Printf.sprintf "%s | %s" (statuses !cst !cths) (sdump ()))
