(* drv_bep44.ml — handlers of the `bep44` engine (C12 store side, C13).
   State between lines: the ed25519 verdict table printed by the harness, the sequential model
   state, the concurrent model state.  All decisions are taken by extracted functions of
   RunBep44.v / Bep44.v; this file only parses and prints. *)
module BZ = Z   (* Zarith, before Model's extracted module Z shadows it *)
open Model
open Driver

(* ---------- ed25519 verdict table: (key, message, signature) -> verdict ---------- *)
let edtab : (string, bool) Hashtbl.t = Hashtbl.create 1024
let edmiss = ref false
let edv (k : byte list) (m : byte list) (s : byte list) : bool =
  let key = hex_of_bytes k ^ ":" ^ hex_of_bytes m ^ ":" ^ hex_of_bytes s in
  match Hashtbl.find_opt edtab key with
  | Some b -> b
  | None -> edmiss := true; false
(* run [f]; a table miss means the model built another buffer than the reference encoder *)
let guarded (f : unit -> string) : string =
  edmiss := false;
  let r = f () in
  if !edmiss then "REJECT edtable-miss" else r

(* ---------- printing ---------- *)
let str_of_code = function None -> "ok" | Some c -> dec_of_z c
let str_of_putres = function POk -> "ok" | PErr c -> dec_of_z c | POther -> "other"
let minute = BZ.of_string "60000000000"
let age_min (clock : z) (created : z) : string =
  BZ.to_string (BZ.fdiv (BZ.sub (big_of_z clock) (big_of_z created)) minute)
let str_of_item (clock : z) (i : item) : string =
  Printf.sprintf "%s:%s:%s:%s:%s:%s:%s" (dec_of_z i.it_seq) (dec_of_z i.it_cas) (hex_of_bytes i.it_bv)
    (hex_of_bytes i.it_k) (hex_of_bytes i.it_salt) (hex_of_bytes i.it_sig) (age_min clock i.it_created)
let dump (clock : z) (s : (byte list * item) list) : string =
  let l = List.map (fun (t, i) -> hex_of_bytes t ^ ":" ^ str_of_item clock i) s in
  let l = List.sort compare l in
  String.concat " " (string_of_int (List.length l) :: l)
let dump_seqs (s : (byte list * item) list) : string =
  let l = List.map (fun (t, i) -> hex_of_bytes t ^ ":" ^ dec_of_z i.it_seq) s in
  let l = List.sort compare l in
  String.concat " " (string_of_int (List.length l) :: l)

let mk_item bv k salt sg cas seq : item =
  { it_bv = bytes_of_hex bv; it_k = bytes_of_hex k; it_salt = bytes_of_hex salt; it_sig = bytes_of_hex sg;
    it_cas = z_of_dec cas; it_seq = z_of_dec seq; it_created = Z0 }

(* ---------- state ---------- *)
let exp_ns : z ref = ref Z0
let sst : sstate ref = ref { s_clock = Z0; s_store = [] }
let cths : thread list ref = ref []
let cst : cstate ref = ref { c_g = { g_store = []; g_lock = None; g_pcs = [] }; c_wait = [] }

let step (e : event) : obs =
  let (st', o) = rb_seq_step edv !exp_ns !sst e in
  sst := st'; o

let str_of_found clock = function
  | None -> "notfound"
  | Some i -> "found " ^ str_of_item clock i

let opt_z s = if s = "-" then None else Some (z_of_dec s)

(* thread status as the harness can see it *)
let status (c : cstate) (ths : thread list) (tid : int) : string =
  let n = nat_of_int tid in
  match nth_error c.c_g.g_pcs n with
  | None -> "?"
  | Some PcInit -> if mem_nat n c.c_wait then "B" else "N"
  | Some PcPutGet | Some PcGetGet -> "yG"
  | Some PcPutPut -> "yP"
  | Some PcGetDel -> "yD"
  | Some (PcUnlock _) -> "U"
  | Some (PcDone (RPut r)) -> "F:" ^ str_of_putres r
  | Some (PcDone (RGet None)) -> "F:notfound"
  | Some (PcDone (RGet (Some i))) -> "F:found:" ^ dec_of_z i.it_seq
let statuses (c : cstate) (ths : thread list) : string =
  String.concat " " (List.mapi (fun i _ -> status c ths i) ths)

let () =
  reg "edtable" (fun a _ -> match a with
    | _n :: entries ->
      List.iter (fun e -> match split_on ':' e with
          | [k; m; s; v] -> Hashtbl.replace edtab (k ^ ":" ^ m ^ ":" ^ s) (v = "1")
          | _ -> failwith ("edtable entry " ^ e)) entries;
      "ok"
    | _ -> "?");
  (* ---- pure functions ---- *)
  reg "b44buf" (fun a _ -> match a with
    | [salt; seq; bv] -> hex_of_bytes (rb_buf (bytes_of_hex salt) (bytes_of_hex bv) (z_of_dec seq))
    | _ -> "?");
  reg "b44check" (fun a _ -> match a with
    | [bv; k; salt; sg; seq] -> guarded (fun () -> str_of_code (rb_check edv (mk_item bv k salt sg "0" seq)))
    | _ -> "?");
  reg "b44target" (fun a _ -> match a with
    | [bv; k; salt] ->
      let i = mk_item bv k salt "-" "0" "0" in
      let t = hex_of_bytes (rb_target i) in
      (* Item.Target, Put.Target, and MakeMutableTarget for mutable items *)
      if is_mutable i then Printf.sprintf "%s %s %s" t t (hex_of_bytes (rb_mtarget i.it_k i.it_salt))
      else Printf.sprintf "%s %s -" t t
    | _ -> "?");
  reg "b44checkin" (fun a _ -> match a with
    | [sseq; scas; sbv; iseq; icas; ibv] ->
      str_of_code (rb_checkin (mk_item sbv "-" "-" "-" scas sseq) (mk_item ibv "-" "-" "-" icas iseq))
    | _ -> "?");
  (* ---- sequential histories ---- *)
  reg "b44begin" (fun a _ -> match a with
    | [_case; e] -> exp_ns := z_of_dec e; sst := { s_clock = Z0; s_store = [] }; "ok"
    | _ -> "?");
  reg "b44end" (fun _ _ -> "ok");
  reg "b44age" (fun a _ -> match a with
    | [d] -> ignore (step (EAdvance (z_of_dec d))); "ok"
    | _ -> "?");
  reg "b44put" (fun a _ -> match a with
    | [bv; k; salt; sg; cas; seq] -> guarded (fun () ->
        match step (EPut (mk_item bv k salt sg cas seq)) with
        | OPut r -> Printf.sprintf "%s | %s" (str_of_putres r) (dump !sst.s_clock !sst.s_store)
        | _ -> "?")
    | _ -> "?");
  reg "b44get" (fun a _ -> match a with
    | [t] -> (match step (EGet (bytes_of_hex t)) with
        | OGet r -> Printf.sprintf "%s | %s" (str_of_found !sst.s_clock r) (dump !sst.s_clock !sst.s_store)
        | _ -> "?")
    | _ -> "?");
  (* ---- server level: inbound put / get (token already valid), Server.Put ---- *)
  reg "b44wput" (fun a _ -> match a with
    | [bv; k; salt; sg; cas; seq] -> guarded (fun () ->
        let args = { pa_bv = bytes_of_hex bv; pa_k = bytes_of_hex k; pa_salt = bytes_of_hex salt;
                     pa_sig = bytes_of_hex sg; pa_cas = z_of_dec cas; pa_seq = opt_z seq } in
        match step (EWirePut args) with
        | OWirePut SReply -> Printf.sprintf "reply | %s" (dump !sst.s_clock !sst.s_store)
        | OWirePut (SError c) -> Printf.sprintf "error %s | %s" (dec_of_z c) (dump !sst.s_clock !sst.s_store)
        | _ -> "?")
    | _ -> "?");
  reg "b44wget" (fun a _ -> match a with
    | [t; sq] -> (match step (EWireGet (bytes_of_hex t, opt_z sq)) with
        | OWireGet g ->
          let sq = (match g.gr_seq with None -> "-" | Some q -> dec_of_z q) in
          let v = (match g.gr_val with
              | None -> "- - -"
              | Some ((bv, k), sg) -> Printf.sprintf "%s %s %s" (hex_of_bytes bv) (hex_of_bytes k) (hex_of_bytes sg)) in
          Printf.sprintf "seq=%s %s | %s" sq v (dump !sst.s_clock !sst.s_store)
        | _ -> "?")
    | _ -> "?");
  reg "b44lput" (fun a _ -> match a with
    | [bv; k; salt; sg; cas; seq] -> guarded (fun () ->
        let p = { pi_bv = bytes_of_hex bv; pi_k = (if k = "-" then None else Some (bytes_of_hex k));
                  pi_salt = bytes_of_hex salt; pi_sig = bytes_of_hex sg; pi_cas = z_of_dec cas; pi_seq = z_of_dec seq } in
        match step (ELocalPut p) with
        | OLocal (LErr r) -> Printf.sprintf "err %s | %s" (str_of_putres r) (dump !sst.s_clock !sst.s_store)
        | OLocal (LQuery q) ->
          Printf.sprintf "query %s %s %s %s %s %s | %s" (hex_of_bytes q.pa_bv) (hex_of_bytes q.pa_k)
            (hex_of_bytes q.pa_salt) (hex_of_bytes q.pa_sig) (dec_of_z q.pa_cas)
            (match q.pa_seq with None -> "-" | Some s -> dec_of_z s) (dump !sst.s_clock !sst.s_store)
        | _ -> "?")
    | _ -> "?");
  (* ---- concurrent: threads over the store left by the sequential lines ---- *)
  reg "b44cthreads" (fun a _ -> match a with
    | _n :: specs ->
      let now = !sst.s_clock in
      cths := List.map (fun s -> match split_on ':' s with
          | ["P"; bv; k; salt; sg; cas; seq] -> { th_op = TPut (mk_item bv k salt sg cas seq); th_now = now }
          | ["G"; t] -> { th_op = TGet (bytes_of_hex t); th_now = now }
          | _ -> failwith ("thread spec " ^ s)) specs;
      cst := rb_cinit !cths !sst.s_store; "ok"
    | _ -> "?");
  reg "b44cstep" (fun a o -> match a with
    | [tid] -> guarded (fun () ->
        let tid = int_of_string tid in
        (* observed statuses up to "|": which waiting threads got going; finished ones first *)
        let rec upto = function [] -> [] | "|" :: _ -> [] | x :: r -> x :: upto r in
        let obs = upto o in
        let adv = List.concat (List.mapi (fun i s ->
            if mem_nat (nat_of_int i) !cst.c_wait && s <> "B" then [(i, s)] else []) obs) in
        let fin, run = List.partition (fun (_, s) -> String.length s > 0 && s.[0] = 'F') adv in
        let advanced = List.map (fun (i, _) -> nat_of_int i) (fin @ run) in
        cst := rb_caction edv !exp_ns !cths !cst (nat_of_int tid) advanced;
        if rb_cstuck !cst then "REJECT blocked-while-lock-free " ^ statuses !cst !cths
        else Printf.sprintf "%s | %s" (statuses !cst !cths) (dump_seqs !cst.c_g.g_store))
    | _ -> "?");
  reg "b44cend" (fun _ _ ->
    sst := { s_clock = !sst.s_clock; s_store = !cst.c_g.g_store };
    Printf.sprintf "%s | %s" (statuses !cst !cths) (dump !sst.s_clock !sst.s_store))
