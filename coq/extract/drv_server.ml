(* drv_server.ml — runner handlers of the `server` engine: replays the harness's event history on
   the extracted server model (Server.v via RunServer.v) and prints the model's observables in the
   harness's canonical form.  Where Go leaves a choice open (eviction victim, members/order of
   node lists and values, transaction id) the observed choice is fed to the model, which accepts
   or rejects it. *)
module BZ = Z
open Model
open Driver

let split_on c s = String.split_on_char c s

(* ---------- bencode value parser for the a.v field (canonical dumps only) ---------- *)
let parse_bval (b : string) : bval =
  let n = String.length b in
  let pos = ref 0 in
  let rec value () : bval =
    if !pos >= n then failwith "bval eof";
    match b.[!pos] with
    | 'i' ->
      incr pos;
      let st = !pos in
      while b.[!pos] <> 'e' do incr pos done;
      let s = String.sub b st (!pos - st) in
      incr pos; BInt (z_of_dec s)
    | 'l' ->
      incr pos;
      let acc = ref [] in
      while b.[!pos] <> 'e' do acc := value () :: !acc done;
      incr pos; BList (List.rev !acc)
    | 'd' ->
      incr pos;
      let acc = ref [] in
      while b.[!pos] <> 'e' do
        let k = (match value () with BStr s -> s | _ -> failwith "bval key") in
        let v = value () in
        acc := (k, v) :: !acc
      done;
      incr pos; BDict (List.rev !acc)
    | '0'..'9' ->
      let st = !pos in
      while b.[!pos] <> ':' do incr pos done;
      let len = int_of_string (String.sub b st (!pos - st)) in
      incr pos;
      let s = String.sub b !pos len in
      pos := !pos + len;
      BStr (List.init len (fun i -> byte_tab.(Char.code s.[i])))
    | _ -> failwith "bval"
  in
  value ()

let string_of_bytes (l : byte list) : string =
  let b = Buffer.create 16 in
  List.iter (fun x -> Buffer.add_char b (Char.chr (int_of_byte x))) l; Buffer.contents b
let raw_of_hex (s : string) : string = string_of_bytes (bytes_of_hex s)

(* ---------- msg dump parser / printer ---------- *)
let zeros n = List.init n (fun _ -> byte_tab.(0))
let is_zero_bytes l = List.for_all (fun x -> int_of_byte x = 0) l

let split_kv (f : string) : string * string =
  match String.index_opt f '=' with
  | None -> (f, "")
  | Some i -> (String.sub f 0 i, String.sub f (i + 1) (String.length f - i - 1))

let parse_list (s : string) : string list = if s = "" then [] else split_on ',' s

let node_addr_of_tok (s : string) : node_addr =
  match split_on ':' s with
  | [ip; port] -> { na_ip = bytes_of_hex ip; na_port = z_of_dec port }
  | _ -> failwith ("node_addr " ^ s)

let node_info_of_tok (s : string) : node_info =
  match split_on '@' s with
  | [id; a] -> { ni_id = bytes_of_hex id; ni_addr = node_addr_of_tok a }
  | _ -> failwith ("node_info " ^ s)

let tok_of_node_addr (a : node_addr) = Printf.sprintf "%s:%s" (hex_of_bytes a.na_ip) (dec_of_z a.na_port)
let tok_of_node_info (n : node_info) = Printf.sprintf "%s@%s" (hex_of_bytes n.ni_id) (tok_of_node_addr n.ni_addr)

let msg_of_dump (d : string) : msg =
  let fs = split_on ';' d in
  let tbl = Hashtbl.create 16 in
  List.iter (fun f -> let (k, v) = split_kv f in Hashtbl.replace tbl k v) fs;
  let has k = Hashtbl.mem tbl k in
  let get k = Hashtbl.find tbl k in
  let hexd k = if has k then bytes_of_hex (get k) else [] in
  let fixed k n = if has k then bytes_of_hex (get k) else zeros n in
  let optz k = if has k then Some (z_of_dec (get k)) else None in
  let zd k = if has k then z_of_dec (get k) else Z0 in
  let a =
    if has "a" then
      Some { a_id = fixed "a.id" 20; a_info_hash = fixed "a.ih" 20; a_target = fixed "a.tg" 20;
             a_token = hexd "a.tok"; a_port = optz "a.port"; a_implied_port = has "a.imp";
             a_want = (if has "a.want" then Some (List.map bytes_of_hex (parse_list (get "a.want"))) else None);
             a_noseed = zd "a.noseed"; a_scrape = zd "a.scrape";
             a_v = (if has "a.v" then Some (parse_bval (raw_of_hex (get "a.v"))) else None);
             a_seq = optz "a.seq"; a_cas = zd "a.cas"; a_k = fixed "a.k" 32; a_salt = hexd "a.salt";
             a_sig = fixed "a.sig" 64 }
    else None in
  let r =
    if has "r" then
      Some { r_id = fixed "r.id" 20;
             r_nodes = (if has "r.nodes" then Some (List.map node_info_of_tok (parse_list (get "r.nodes"))) else None);
             r_nodes6 = (if has "r.nodes6" then Some (List.map node_info_of_tok (parse_list (get "r.nodes6"))) else None);
             r_token = (if has "r.tok" then Some (bytes_of_hex (get "r.tok")) else None);
             r_values = (if has "r.values" then Some (List.map node_addr_of_tok (parse_list (get "r.values"))) else None);
             r_bfsd = (if has "r.bfsd" then Some (bytes_of_hex (get "r.bfsd")) else None);
             r_bfpe = (if has "r.bfpe" then Some (bytes_of_hex (get "r.bfpe")) else None);
             r_interval = optz "r.interval"; r_num = optz "r.num";
             r_samples = (if has "r.samples" then Some (List.map bytes_of_hex (parse_list (get "r.samples"))) else None);
             r_v = hexd "r.v"; r_k = fixed "r.k" 32; r_sig = fixed "r.sig" 64; r_seq = optz "r.seq" }
    else None in
  let e =
    if has "e" then Some { e_code = zd "e.code"; e_msg = hexd "e.msg" } else None in
  { m_q = hexd "q"; m_a = a; m_t = hexd "t"; m_y = hexd "y"; m_r = r; m_e = e;
    m_ip = (if has "ip" then node_addr_of_tok (get "ip") else { na_ip = []; na_port = Z0 });
    m_ro = has "ro"; m_v = hexd "cv" }

let dump_of_msg (m : msg) : string =
  let f = ref [] in
  let add k v = f := (k ^ "=" ^ v) :: !f in
  let flag k = f := k :: !f in
  add "y" (hex_of_bytes m.m_y);
  if m.m_q <> [] then add "q" (hex_of_bytes m.m_q);
  add "t" (hex_of_bytes m.m_t);
  if m.m_ro then add "ro" "1";
  if m.m_v <> [] then add "cv" (hex_of_bytes m.m_v);
  if m.m_ip.na_ip <> [] || m.m_ip.na_port <> Z0 then add "ip" (tok_of_node_addr m.m_ip);
  (match m.m_a with
   | None -> ()
   | Some a ->
     flag "a";
     add "a.id" (hex_of_bytes a.a_id);
     if not (is_zero_bytes a.a_info_hash) then add "a.ih" (hex_of_bytes a.a_info_hash);
     if not (is_zero_bytes a.a_target) then add "a.tg" (hex_of_bytes a.a_target);
     if a.a_token <> [] then add "a.tok" (hex_of_bytes a.a_token);
     (match a.a_port with Some p -> add "a.port" (dec_of_z p) | None -> ());
     if a.a_implied_port then add "a.imp" "1";
     (match a.a_want with Some l -> add "a.want" (String.concat "," (List.map hex_of_bytes l)) | None -> ());
     if a.a_noseed <> Z0 then add "a.noseed" (dec_of_z a.a_noseed);
     if a.a_scrape <> Z0 then add "a.scrape" (dec_of_z a.a_scrape);
     (match a.a_v with Some v -> add "a.v" (hex_of_bytes (benc v)) | None -> ());
     (match a.a_seq with Some p -> add "a.seq" (dec_of_z p) | None -> ());
     if a.a_cas <> Z0 then add "a.cas" (dec_of_z a.a_cas);
     if not (is_zero_bytes a.a_k) then add "a.k" (hex_of_bytes a.a_k);
     if a.a_salt <> [] then add "a.salt" (hex_of_bytes a.a_salt);
     if not (is_zero_bytes a.a_sig) then add "a.sig" (hex_of_bytes a.a_sig));
  (match m.m_r with
   | None -> ()
   | Some r ->
     flag "r";
     add "r.id" (hex_of_bytes r.r_id);
     (match r.r_nodes with Some l -> add "r.nodes" (String.concat "," (List.map tok_of_node_info l)) | None -> ());
     (match r.r_nodes6 with Some l -> add "r.nodes6" (String.concat "," (List.map tok_of_node_info l)) | None -> ());
     (match r.r_token with Some t -> add "r.tok" (hex_of_bytes t) | None -> ());
     (match r.r_values with Some l -> add "r.values" (String.concat "," (List.map tok_of_node_addr l)) | None -> ());
     (match r.r_bfsd with Some t -> add "r.bfsd" (hex_of_bytes t) | None -> ());
     (match r.r_bfpe with Some t -> add "r.bfpe" (hex_of_bytes t) | None -> ());
     (match r.r_interval with Some p -> add "r.interval" (dec_of_z p) | None -> ());
     (match r.r_num with Some p -> add "r.num" (dec_of_z p) | None -> ());
     (match r.r_samples with Some l -> add "r.samples" (String.concat "," (List.map hex_of_bytes l)) | None -> ());
     if r.r_v <> [] then add "r.v" (hex_of_bytes r.r_v);
     if not (is_zero_bytes r.r_k) then add "r.k" (hex_of_bytes r.r_k);
     if not (is_zero_bytes r.r_sig) then add "r.sig" (hex_of_bytes r.r_sig);
     (match r.r_seq with Some p -> add "r.seq" (dec_of_z p) | None -> ()));
  (match m.m_e with
   | None -> ()
   | Some e -> flag "e"; add "e.code" (dec_of_z e.e_code); add "e.msg" (hex_of_bytes e.e_msg));
  String.concat ";" (List.rev !f)

(* ---------- per-case state ---------- *)
type case_state = {
  mutable cfg : config;
  mutable st : store sstate;
  mutable edtable : (string, bool) Hashtbl.t;
  mutable exp : z;
  mutable store_fail : bool;
  mutable active : bool;
}

let cs : case_state option ref = ref None

let edv_of (tbl : (string, bool) Hashtbl.t) (missed : bool ref) : byte list -> byte list -> byte list -> bool =
  fun k m s ->
    let key = hex_of_bytes k ^ ":" ^ hex_of_bytes m ^ ":" ^ hex_of_bytes s in
    match Hashtbl.find_opt tbl key with
    | Some b -> b
    | None -> missed := true; false

let kv_assoc (toks : string list) : (string * string) list = List.map split_kv toks

let parse_ranges (s : string) : (n * n) list =
  if s = "-" then [] else
    List.map (fun r -> match split_on '~' r with
        | [lo; hi] -> (n_of_dec lo, n_of_dec hi)
        | _ -> failwith "range") (split_on ',' s)

let addr_of ip port : addr = { ip = bytes_of_hex ip; port = n_of_dec port }

let () = reg "sbegin" (fun args _ ->
    match args with
    | _idx :: kvs when List.exists (fun s -> String.length s > 5 && String.sub s 0 5 = "root=") kvs ->
      let kv = kv_assoc kvs in
      let g k = List.assoc k kv in
      let veto = if g "veto" = "-" then [] else List.map bytes_of_hex (split_on ',' (g "veto")) in
      let hook (m : msg) : bool = not (List.exists (fun v -> bytes_eqb v m.m_q) veto) in
      let cfg = { c_root = n_of_hex (g "root"); c_passive = g "passive" = "1"; c_no_security = g "nosec" = "1";
                  c_peer_store = g "ps" = "1"; c_announce_cb = g "cb" = "1"; c_hook = hook;
                  c_wait_to_reply = g "wait" = "1"; c_secret = bytes_of_hex (g "secret") } in
      let budget = if g "budget" = "inf" then None else Some (n_of_dec (g "budget")) in
      let st = srv_init (z_of_dec (g "now")) (parse_ranges (g "bl")) budget in
      let exp = (try z_of_dec (g "exp") with Not_found -> z_of_dec "7200000000000") in
      let store_fail = (try g "storefail" = "1" with Not_found -> false) in
      cs := Some { cfg; st; edtable = Hashtbl.create 16; exp; store_fail; active = true };
      "ok"
    | _ -> "SKIP")

let () = reg "sfin" (fun _ _ -> cs := None; "ok")

let () = reg "sedtable" (fun args _ ->
    (match !cs with
     | Some c -> List.iter (fun t -> match split_on ':' t with
         | [k; m; s; v] -> Hashtbl.replace c.edtable (k ^ ":" ^ m ^ ":" ^ s) (v = "1")
         | _ -> ()) args
     | None -> ());
    "ok")

(* split observed rhs into sections: effects | tbl ... | api ... | pend ... *)
let split_sections (toks : string list) : string list * string list * string list * string list =
  let rec go cur acc = function
    | [] -> List.rev (List.rev cur :: acc)
    | "|" :: r -> go [] (List.rev cur :: acc) r
    | t :: r -> go (t :: cur) acc r in
  match go [] [] toks with
  | [e; t; a; p] ->
    let strip name l = (match l with x :: r when x = name -> r | _ -> l) in
    (List.filter (fun x -> x <> "-") e, List.filter (fun x -> x <> "-") (strip "tbl" t), strip "api" a,
     List.filter (fun x -> x <> "-") (strip "pend" p))
  | _ -> ([], [], [], [])

(* observed table token: n:<id>@<ip>:<port>/<slot>/<lq>/<lr>/<failed>/<cls> *)
type obs_node = { o_id : string; o_ip : string; o_port : string; o_slot : string; o_lq : string; o_lr : string }
let parse_obs_node (t : string) : obs_node option =
  match split_on '/' t with
  | [head; slot; lq; lr; _f; _c] ->
    let head = String.sub head 2 (String.length head - 2) in
    (match split_on '@' head with
     | [id; a] -> (match split_on ':' a with
         | [ip; port] -> Some { o_id = id; o_ip = ip; o_port = port; o_slot = slot; o_lq = lq; o_lr = lr }
         | _ -> None)
     | _ -> None)
  | _ -> None

let key_of_node (n : node) : string =
  let (kip, kport) = addr_key n.n_addr in
  hex20_of_n n.n_id ^ "@" ^ hex_of_bytes kip ^ ":" ^ dec_of_n kport
let key_of_obs (o : obs_node) : string =
  let (kip, kport) = addr_key (addr_of o.o_ip o.o_port) in
  o.o_id ^ "@" ^ hex_of_bytes kip ^ ":" ^ dec_of_n kport

let sort_join (l : string list) : string =
  match List.sort compare l with [] -> "-" | l -> String.concat " " l

let age_tok (now : z) (t : z option) (obs : string option) : string =
  match t with
  | None -> "-"
  | Some x ->
    let a = BZ.div (BZ.sub (big_of_z now) (big_of_z x)) (BZ.of_string "1000000000") in
    (match obs with
     | Some o when o <> "-" ->
       let ob = BZ.of_string o in
       if BZ.leq (BZ.abs (BZ.sub ob a)) (BZ.of_int 2) then o else BZ.to_string a
     | _ -> BZ.to_string a)

let print_state (c : case_state) (effs : string list) (obs_tbl : obs_node list) : string =
  let s = c.st in
  let omap = Hashtbl.create 16 in
  List.iter (fun o -> Hashtbl.replace omap (key_of_obs o) o) obs_tbl;
  let nodes = List.map (fun (n : node) ->
      let o = Hashtbl.find_opt omap (key_of_node n) in
      let cls = if srv_good c.cfg s n then "g" else if srv_bad c.cfg n then "b" else "q" in
      Printf.sprintf "n:%s@%s:%s/%d/%s/%s/%s/%s" (hex20_of_n n.n_id) (hex_of_bytes n.n_addr.ip) (dec_of_n n.n_addr.port)
        (int_of_nat n.n_slot)
        (age_tok s.s_now n.n_lq (Option.map (fun o -> o.o_lq) o))
        (age_tok s.s_now n.n_lr (Option.map (fun o -> o.o_lr) o))
        (tok_of_bool n.n_failed) cls) s.s_nodes in
  let pend = List.map (fun (x : txn) ->
      let (kip, kport) = x.tx_key in
      Printf.sprintf "%s:%s/%s" (hex_of_bytes kip) (dec_of_n kport) (hex_of_bytes x.tx_t)) s.s_pending in
  Printf.sprintf "%s | tbl %s | api %d %d %d %d | pend %s" (sort_join effs) (sort_join nodes)
    (List.length s.s_nodes) (int_of_nat (srv_num_good c.cfg s)) (List.length (srv_exported c.cfg s))
    (List.length s.s_pending) (sort_join pend)

let eff_toks (out : effect list) : string list =
  List.concat_map (fun e -> match e with
      | ESend (dst, m, _) -> [Printf.sprintf "send:%s:%s:%s" (hex_of_bytes dst.ip) (dec_of_n dst.port) (dump_of_msg m)]
      | EAnnounceCb (ih, sip, p, ok) -> [Printf.sprintf "cb:%s:%s:%s:%s" (hex_of_bytes ih) (hex_of_bytes sip) (dec_of_z p) (tok_of_bool ok)]
      | EPeerAdd (ih, sip, p) -> [Printf.sprintf "peer:%s:%s:%s" (hex_of_bytes ih) (hex_of_bytes sip) (dec_of_z p)]
      | ECompleted (qid, m) -> [Printf.sprintf "qret:%s:ok:%s" (dec_of_n qid) (dump_of_msg m)]
      | EDropped _ -> []
      | EQueryFailed qid -> [Printf.sprintf "qret:%s:err:senderr" (dec_of_n qid)]
      | EQueryCancelled qid -> [Printf.sprintf "qret:%s:err:ctx" (dec_of_n qid)]) out

(* the implementation's choices, read off the observation *)
let choice_of (c : case_state) (obs_eff : string list) (obs_tbl : obs_node list) : choice =
  let okeys = List.map key_of_obs obs_tbl in
  let missing = List.filter (fun (n : node) -> not (List.mem (key_of_node n) okeys)) c.st.s_nodes in
  let victim = match missing with
    | n :: _ -> Some (addr_key n.n_addr, n.n_id)
    | [] -> None in
  (* the reply datagram, if any *)
  let reply = List.find_map (fun t ->
      if String.length t > 5 && String.sub t 0 5 = "send:" then
        (match split_on ':' t with
         | _ :: _ip :: _port :: rest ->
           let d = String.concat ":" rest in
           (try let m = msg_of_dump d in if m.m_r <> None then Some m else None with _ -> None)
         | _ -> None)
      else None) obs_eff in
  match reply with
  | Some { m_r = Some r; _ } ->
    { ch_victim = victim;
      ch_nodes = (match r.r_nodes with Some l -> l | None -> []);
      ch_nodes6 = (match r.r_nodes6 with Some l -> l | None -> []);
      ch_values = (match r.r_values with Some l -> l | None -> []) }
  | _ -> { ch_victim = victim; ch_nodes = []; ch_nodes6 = []; ch_values = [] }

let run_event (ev : event) (obs : string list) : string =
  match !cs with
  | None -> "NO-CASE"
  | Some c ->
    let (oe, ot, _oa, _op) = split_sections obs in
    let obs_tbl = List.filter_map parse_obs_node ot in
    let ch = choice_of c oe obs_tbl in
    let missed = ref false in
    (match srv_step (edv_of c.edtable missed) c.exp c.store_fail c.cfg c.st ev ch with
     | SR (s', out) ->
       c.st <- s';
       if !missed then "REJECT edtable-miss" else print_state c (eff_toks out) obs_tbl
     | SRPanic -> "MODEL-PANIC"
     | SRBadChoice -> "REJECT observed choice (eviction victim / node list / values / transaction id) is not allowed by the model")

let () =
  reg "pkt" (fun args obs -> match args with
      | [ip; port; size; d; raw] ->
        let dec = if d = "undec" then None else Some (msg_of_dump d) in
        (* byte-level tie: the codec model (Krpc.v) must decode these bytes to the same message the
           library produced (processPacket: dict pre-check, trailing bytes tolerated) *)
        let rawb = bytes_of_hex (String.sub raw 4 (String.length raw - 4)) in
        let pre = (match rawb with b0 :: _ :: _ -> int_of_byte b0 = 100 | _ -> false) in
        let mdec = if not pre then None else
            (match decode_msg_fixed rawb with
             | DOk m -> Some m
             | DOkTrailing (m, _) -> Some m
             | _ -> None) in
        let same = (match dec, mdec with
            | None, None -> true
            | Some a, Some b -> dump_of_msg a = dump_of_msg b
            | _ -> false) in
        if not same then
          Printf.sprintf "REJECT byte-level decode differs: codec model gives %s"
            (match mdec with None -> "undec" | Some m -> dump_of_msg m)
        else
        run_event (EPacket (addr_of ip port, n_of_dec size, dec)) obs
      | _ -> "?");
  reg "adv" (fun args obs -> match args with [d] -> run_event (EAdvance (z_of_dec d)) obs | _ -> "?");
  reg "addnode" (fun args obs -> match args with
      | [ip; port; id] -> run_event (EAddNode (bytes_of_hex ip, n_of_dec port, n_of_hex id)) obs
      | _ -> "?");
  reg "qstart" (fun args obs -> match args with
      | [qid; ip; port; rated; d; t] ->
        let m = msg_of_dump d in
        let a = (match m.m_a with Some a -> a | None -> failwith "qstart args") in
        let t = bytes_of_hex (String.sub t 2 (String.length t - 2)) in
        run_event (EQueryStart (n_of_dec qid, addr_of ip port, m.m_q, a, rated = "1", t)) obs
      | _ -> "?");
  reg "qend" (fun args obs -> match args with [qid] -> run_event (EQueryEnd (n_of_dec qid)) obs | _ -> "?");
  reg "failping" (fun args obs -> match args with
      | [ip; port; id] -> run_event (EFailedPing (addr_of ip port, n_of_hex id)) obs
      | _ -> "?");
  reg "setbl" (fun args obs -> match args with [r] -> run_event (ESetBlocklist (parse_ranges r)) obs | _ -> "?");
  reg "close" (fun _ obs -> run_event EClose obs);
  (* the application's blocked OnAnnouncePeer calls return: the node itself does not move (the model's
     announce step has already delivered the callback and the store update) *)
  reg "hookrel" (fun _ obs -> run_event (EAdvance Z0) obs)
