let () = Driver.main ()
