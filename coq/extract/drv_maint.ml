(* drv_maint.ml — maint engine, `mpass` lines (harness/cmd/h/maint_pass.go): one pass of the real
   TableMaintainer over a prepared routing table, on a network that answers questionable-node pings for a
   chosen set of contacts and never answers find_node.

     mpass <idx> root=<hex20> nosec=<0|1> booted=<0|1> nodes=<node>,<node>... answers=<ans>,<ans>... oanswers=<ans>,... fanswers=<ans>,...
        => boot:<addrs> [ping:<i>:<addrs>] [refresh:<i>:<addrs>] ... after:<entry>;<entry>...
       <node>  = slot/idhex/iphex/port/query-age-ns/response-age-ns/failed/class   (age -1: never; class g|q|b as the
                 implementation classifies the entry: checked against the model's classification first)
       <ans>   = idhex/iphex/port          (answers: entries whose host answers a ping under the entry's id; oanswers: entries whose host
                 answers under ANOTHER id; fanswers: contacts - fewer than K - that
                 answer find_node with an empty node list)
       <addrs> = iphex:port;iphex:port...  sorted, `-` when empty     <entry> = idhex/iphex:port/class/failed
     Model: RunMaint.rm_boot (who the initial bootstrap asks) and RunMaint.rm_pass = Maint.pass with the silent
     refresh; empty ping rounds, refreshes without a seed and the end of the pass are not printed (they cost no datagram). *)
open Model
open Driver

let now_ns = z_of_dec "1000000000000000000"

let addr_tok (n : node) : string =
  let (k, p) = addr_key (rm_node_addr_view n) in hex_of_bytes k ^ ":" ^ dec_of_n p

let set_tok (l : node list) : string =
  (* a set of addresses: two entries at one address are one destination *)
  match List.sort_uniq compare (List.map addr_tok l) with [] -> "-" | s -> String.concat ";" s

let cls_tok c now n = match int_of_n (rm_class c now n) with 0 -> "g" | 1 -> "q" | _ -> "b"

let () =
  reg "mpass" (fun args _ ->
    match args with
    | _idx :: kvs ->
      let kv = List.map (fun f -> match String.index_opt f '=' with
          | Some i -> (String.sub f 0 i, String.sub f (i + 1) (String.length f - i - 1))
          | None -> (f, "")) kvs in
      let g k = try List.assoc k kv with Not_found -> "" in
      let c = rm_cfg (n_of_hex (g "root")) (g "nosec" = "1") in
      let age s = if s = "-1" then None else Some (z_of_big (BZ.sub (big_of_z now_ns) (BZ.of_string s))) in
      let lst s = if s = "" || s = "-" then [] else split_on ',' s in
      let bad_class = ref "" in
      let nodes = List.map (fun t -> match split_on '/' t with
          | [slot; id; ip; port; qa; ra; failed; cls] ->
            let n = rm_node (n_of_hex id) (bytes_of_hex ip) (n_of_dec port) (age qa) (age ra) (failed = "1")
                (nat_of_int (int_of_string slot)) in
            if cls_tok c now_ns n <> cls && !bad_class = "" then bad_class := id ^ ":model=" ^ cls_tok c now_ns n ^ ":impl=" ^ cls;
            n
          | _ -> failwith ("mpass node " ^ t)) (lst (g "nodes")) in
      let answering = List.map (fun t -> match split_on '/' t with
          | [id; ip; port] -> (n_of_hex id, addr_key { ip = bytes_of_hex ip; port = n_of_dec port })
          | _ -> failwith ("mpass answer " ^ t)) (lst (g "answers")) in
      let fans = List.map (fun t -> match split_on '/' t with
          | [id; ip; port] -> (n_of_hex id, addr_key { ip = bytes_of_hex ip; port = n_of_dec port })
          | _ -> failwith ("mpass fanswer " ^ t)) (lst (g "fanswers")) in
      let booted = g "booted" = "1" in
      let others = List.map (fun t -> match split_on '/' t with
          | [id; ip; port] -> (n_of_hex id, addr_key { ip = bytes_of_hex ip; port = n_of_dec port })
          | _ -> failwith ("mpass oanswer " ^ t)) (lst (g "oanswers")) in
      if !bad_class <> "" then "REJECT class-differs " ^ !bad_class
      else begin
        let (phases, final) = rm_pass c now_ns booted answering others fans nodes in
        let ptoks = List.filter_map (fun p ->
            let (tag, (i, l)) = rm_phase_view p in
            match int_of_n tag with
            | 0 -> if l = [] then None else Some (Printf.sprintf "ping:%d:%s" (int_of_nat i) (set_tok l))
            | 1 -> if l = [] then None else Some (Printf.sprintf "refresh:%d:%s" (int_of_nat i) (set_tok l))
            | _ -> None) phases in   (* a refresh without seeds, and where the pass ends, cannot be seen on the wire *)
        let after = List.sort compare (List.map (fun n ->
            Printf.sprintf "%s/%s/%s/%s" (hex20_of_n (rm_node_id n)) (addr_tok n) (cls_tok c now_ns n)
              (tok_of_bool (rm_node_failed n))) final) in
        String.concat " " (("boot:" ^ set_tok (rm_boot_asked c booted nodes)) :: ptoks @ ["after:" ^ (if after = [] then "-" else String.concat ";" after)])
      end
    | _ -> "?")
