(* Extraction of the executable models to OCaml. Only the directives of ExtrOcamlBasic are used. *)
From Dht Require Import Base Int160 Order RunMetric Msg Server RunServer.
Require Import ExtrOcamlBasic.
Extraction Language OCaml.
Extraction "model.ml"
  byte_of_N Byte.to_N toN ofN bytes_eqb
  xorl cmp160 bitlen is_zero get_bit set_bit bucket_index_bytes random_in_bucket_bytes distance
  bucket_index shared_prefix_len
  ap_of_ip cmp_int closer_than closer_cmp run_sset accept_knear run_knear kn_full kn_farthest
  benc addr_key srv_step srv_init srv_good srv_bad srv_num_good srv_exported srv_trav_filter.
