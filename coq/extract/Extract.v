(* Extraction of the executable models to OCaml. Only the directives of ExtrOcamlBasic are used. *)
From Dht Require Import Base Int160 Order RunMetric Msg Sha1 Server RunServer.
From Dht Require RunApi.
From Dht Require Bep44 RunBep44.
From Dht Require Import Crc32c Security RunSecurity.
From Dht Require Import Traversal RunTraversal.
From Dht Require Import Compact Bencode Krpc RunCodec.
From Dht Require Query Lookups RunLookups.
From Dht Require RunLookupsSends.
From Dht Require RunLookupsClosest.
From Dht Require Maint RunMaint.
Require Import ExtrOcamlBasic.
Extraction Language OCaml.
Extraction "model.ml"
  byte_of_N Byte.to_N toN ofN bytes_eqb
  xorl cmp160 bitlen is_zero get_bit set_bit bucket_index_bytes random_in_bucket_bytes distance
  bucket_index shared_prefix_len
  ap_of_ip cmp_int closer_than closer_cmp run_sset accept_knear run_knear kn_full kn_farthest
  benc addr_key srv_step srv_init srv_good srv_bad srv_num_good srv_exported srv_trav_filter
  sha1 crc32c crc_ip secure_node_id node_id_secure is_local_network mask_for_ip hash_tuple make_deterministic_node_id init_node_id accept_init_node_id run_secx8 mk_cfg init_panics
  RunBep44.rb_mk_item RunBep44.rb_it_bv RunBep44.rb_it_k RunBep44.rb_it_salt RunBep44.rb_it_sig RunBep44.rb_it_cas RunBep44.rb_it_seq RunBep44.rb_it_created RunBep44.rb_is_mutable RunBep44.rb_buf RunBep44.rb_target RunBep44.rb_mtarget RunBep44.rb_check RunBep44.rb_checkin RunBep44.rb_s0 RunBep44.rb_sclock RunBep44.rb_sstore RunBep44.rb_swith_store RunBep44.rb_sadvance RunBep44.rb_sput RunBep44.rb_sget RunBep44.rb_swput RunBep44.rb_swget RunBep44.rb_slput RunBep44.rb_sfput RunBep44.rb_sfget RunBep44.rb_sfwput RunBep44.rb_sfwget RunBep44.rb_sflput RunBep44.rb_zero_time RunBep44.rb_skput RunBep44.rb_skget RunBep44.rb_skwput RunBep44.rb_skwget RunBep44.rb_sklput RunBep44.rb_thread_put RunBep44.rb_thread_get RunBep44.rb_cinit RunBep44.rb_cstore RunBep44.rb_cwaiting RunBep44.rb_cstatus RunBep44.rb_caction RunBep44.rb_cstuck
  rt_init rt_mk_cfg rt_mk_resp rt_add rt_stop rt_complete rt_conc_begin rt_conc_succ rt_conc_finished rt_quiesce rt_erase rt_take_stall rt_stalled rt_accept_closest rt_started rt_out rt_unq_len rt_stopping rt_stopped rt_ctx rt_closest
  parse_value scan_value
  nodeaddr_marshal nodeaddr_unmarshal nodeinfo_marshal nodeinfo_unmarshal nodeinfo_unmarshal_pinned
  addrs4_enc addrs6_enc infos4_enc infos6_enc hashes_enc addrs4_dec addrs6_dec infos4_dec infos6_dec hashes_dec
  nodes_file_write nodes_file_read
  decode_xmsg decode_msg encode_xmsg encode_msg x_of_msg decode_msg_fixed decode_msg_pinned wf_xmsgb
  id_unmarshal id_marshal_benc nodeaddr_unmarshal_benc nodeaddr_marshal_benc error_unmarshal error_marshal_benc
  compact_marshal_benc
  rc_ni rc_infos4_dec rc_infos6_dec rc_gen rc_msg rc_addrs4_unb rc_addrs6_unb rc_infos4_unb rc_infos6_unb rc_hashes_unb rc_any_of_bytes
  RunLookups.rq_outcomes RunLookups.rq_accepts RunLookups.rq_mk_scn
  RunLookups.rl_init RunLookups.rl_event RunLookups.rl_finish RunLookups.rl_mk_cfg RunLookups.rl_mk_reply
  RunApi.ra_mk_ent RunApi.ra_counts RunApi.ra_accept RunApi.ra_why RunApi.ra_accept_s RunApi.ra_why_s RunApi.ra_run RunApi.ra_observe RunApi.ra_mk_peer RunApi.ra_store_get RunApi.ra_values RunApi.ra_na_ip RunApi.ra_na_port
  RunLookups.rl_view_sends RunLookups.rl_view_peers RunLookups.rl_view_result RunLookups.rl_view_flags RunLookups.rl_view_nq RunLookups.rl_view_stopping RunLookups.rl_cfg_api
  RunLookupsSends.rls_take
  RunLookupsClosest.rlc_exact RunLookupsClosest.rlc_view_closest
  RunMaint.rm_cfg RunMaint.rm_node RunMaint.rm_node_id RunMaint.rm_node_ip RunMaint.rm_node_port RunMaint.rm_node_failed RunMaint.rm_node_addr_view RunMaint.rm_class RunMaint.rm_boot_asked RunMaint.rm_pass RunMaint.rm_phase_view.
