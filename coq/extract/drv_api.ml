(* drv_api.ml — runner handlers of the `api` engine (RunApi.v).
     atable <case> <root> <nmust> must.. <nmay> may.. => <nobs> obs..      relational: ra_accept
     astore <case> <ih> <n> ih:ip:port ..            => <k> ip:port ..     store listing, sorted
     atables <case> <nosec 0|1> <root> <nmust> must.. <nmay> may.. => <nobs> obs..   relational: ra_accept_s
                                                                             (a node enforcing the security extension when nosec = 0)
     acount <case> <n> gb ..                         => NumNodes Stats.Nodes Stats.GoodNodes len(Nodes)
     apeers <case> <ih> <src ip> <wants|-> <n> ih:ip:port .. => <k> ip:port ..   get_peers values, sorted
   Entries are id@ip16:port, observed ones id@ip16:port/bucket. Only the uniquely prefixed glue of
   RunApi.v and shared Base/Msg types are used (flat extraction naming rule). *)
module BZ = Z
open Model
open Driver

let ent_of_tok (s : string) =
  match String.split_on_char '@' s with
  | [id; a] ->
    (match String.split_on_char ':' a with
     | [ip; port] -> ra_mk_ent (n_of_hex id) (bytes_of_hex ip) (n_of_dec port)
     | _ -> failwith ("ra_ent " ^ s))
  | _ -> failwith ("ra_ent " ^ s)

let obs_of_tok (s : string) =
  match String.split_on_char '/' s with
  | [e; b] -> (ent_of_tok e, nat_of_int (int_of_string b))
  | _ -> failwith ("ra_obs " ^ s)

let peer_of_tok (s : string) =
  match String.split_on_char ':' s with
  | [ih; ip; port] -> ra_mk_peer (bytes_of_hex ih) (bytes_of_hex ip) (z_of_dec port)
  | _ -> failwith ("ra_peer " ^ s)

let tok_of_na a = Printf.sprintf "%s:%s" (hex_of_bytes (ra_na_ip a)) (dec_of_z (ra_na_port a))

let listing (l : string list) : string =
  let l = List.sort compare l in
  String.concat " " (string_of_int (List.length l) :: l)

let why_text = function
  | 1 -> "two-entries-share-id-and-address"
  | 2 -> "own-or-zero-id-in-table"
  | 3 -> "entry-in-wrong-bucket"
  | 4 -> "entry-that-was-never-offered"
  | 5 -> "bucket-over-capacity"
  | 6 -> "offered-candidate-absent-though-its-bucket-has-room"
  | 7 -> "entry-whose-id-is-not-valid-for-its-address"
  | _ -> "?"

let () =
  reg "atable" (fun a o -> match a with
    | _case :: root :: rest ->
      let root = n_of_hex root in
      let nmust = int_of_string (List.hd rest) in
      let must = List.map ent_of_tok (take nmust (List.tl rest)) in
      let rest = drop nmust (List.tl rest) in
      let nmay = int_of_string (List.hd rest) in
      let may = List.map ent_of_tok (take nmay (List.tl rest)) in
      (match o with
       | n :: obs when int_of_string n = List.length obs ->
         let obs' = List.map obs_of_tok obs in
         if ra_accept root must may obs' then String.concat " " o
         else Printf.sprintf "REJECT %s" (why_text (int_of_nat (ra_why root must may obs')))
       | _ -> "REJECT malformed-observation")
    | _ -> "?");
  reg "atables" (fun a o -> match a with
    | _case :: nosec :: root :: rest ->
      let nosec = (nosec = "1") in
      let root = n_of_hex root in
      let nmust = int_of_string (List.hd rest) in
      let must = List.map ent_of_tok (take nmust (List.tl rest)) in
      let rest = drop nmust (List.tl rest) in
      let nmay = int_of_string (List.hd rest) in
      let may = List.map ent_of_tok (take nmay (List.tl rest)) in
      (match o with
       | n :: obs when int_of_string n = List.length obs ->
         let obs' = List.map obs_of_tok obs in
         if ra_accept_s nosec root must may obs' then String.concat " " o
         else Printf.sprintf "REJECT %s" (why_text (int_of_nat (ra_why_s nosec root must may obs')))
       | _ -> "REJECT malformed-observation")
    | _ -> "?");
  (* acount <case> <n> gb .. => NumNodes Stats.Nodes Stats.GoodNodes len(Nodes) *)
  reg "acount" (fun a _ -> match a with
    | _case :: n :: flags when int_of_string n = List.length flags ->
      let fl = List.map (fun f -> (f.[0] = '1', f.[1] = '1')) flags in
      let ((total, good), notbad) = ra_counts fl in
      Printf.sprintf "%d %d %d %d" (int_of_nat total) (int_of_nat total) (int_of_nat good) (int_of_nat notbad)
    | _ -> "?");
  reg "astore" (fun a _ -> match a with
    | _case :: ih :: n :: anns when int_of_string n = List.length anns ->
      let anns = List.map peer_of_tok anns in
      listing (List.map tok_of_na (ra_store_get (bytes_of_hex ih) anns))
    | _ -> "?");
  reg "apeers" (fun a _ -> match a with
    | _case :: ih :: src :: wants :: n :: anns when int_of_string n = List.length anns ->
      let anns = List.map peer_of_tok anns in
      let ws = if wants = "-" then []
        else List.map bytes_of_hex (List.filter (fun w -> w <> "") (String.split_on_char ',' (String.sub wants 1 (String.length wants - 1)))) in
      listing (List.map tok_of_na (ra_values (bytes_of_hex ih) (bytes_of_hex src) ws anns))
    | _ -> "?")
