(* drv_codec.ml — handlers of the `codec` engine (C15): the extracted codec model decodes / encodes
   the same bytes as the harness and prints the same class + canonical dump + bytes.
   Handlers that go through NodeInfo.UnmarshalBinary exist in two variants of the model (pinned tree:
   panics below 20 bytes, defect D9; repaired tree: error).  The repaired variant is printed unless
   the observed line is exactly what the pinned variant predicts. *)
open Model
open Driver

let split_on c s = String.split_on_char c s

(* ---------- dumps (same text as harness/cmd/h/codec.go) ---------- *)
let dump_addr (a : node_addr) = Printf.sprintf "%s/%s" (hex_of_bytes a.na_ip) (dec_of_z a.na_port)
let dump_info (n : node_info) =
  Printf.sprintf "%s/%s/%s" (hex_of_bytes n.ni_id) (hex_of_bytes n.ni_addr.na_ip) (dec_of_z n.ni_addr.na_port)
let list_tok items = "L" ^ String.concat "," items
let opt_tok f = function None -> "nil" | Some x -> f x
(* a Go slice that stays nil when nothing was appended *)
let nil_if_empty f l = if l = [] then "nil" else list_tok (List.map f l)
let dump_addrs_o = opt_tok (fun l -> list_tok (List.map dump_addr l))
let dump_infos_o = opt_tok (fun l -> list_tok (List.map dump_info l))
let dump_hashes l = list_tok (List.map hex_of_bytes l)
let tok_bool b = if b then "1" else "0"

let dump_any (v : bval) = hex_of_bytes (benc v)

let dump_args (o : msg_args option) (salt_nn : bool) =
  match o with
  | None -> "a=nil"
  | Some a ->
    Printf.sprintf "a=[ %s %s %s %s %s %s %s %s %s %s %s %s %s %s %s ]"
      (hex_of_bytes a.a_id) (hex_of_bytes a.a_info_hash) (hex_of_bytes a.a_target) (hex_of_bytes a.a_token)
      (opt_tok dec_of_z a.a_port) (tok_bool a.a_implied_port)
      (opt_tok (fun l -> list_tok (List.map hex_of_bytes l)) a.a_want)
      (dec_of_z a.a_noseed) (dec_of_z a.a_scrape) (opt_tok dump_any a.a_v) (opt_tok dec_of_z a.a_seq)
      (dec_of_z a.a_cas) (hex_of_bytes a.a_k) (if salt_nn then hex_of_bytes a.a_salt else "nil") (hex_of_bytes a.a_sig)

let dump_ret (o : krpc_return option) (v_nn : bool) =
  match o with
  | None -> "r=nil"
  | Some r ->
    Printf.sprintf "r=[ %s %s %s %s %s %s %s %s %s %s %s %s %s %s ]"
      (hex_of_bytes r.r_id) (dump_infos_o r.r_nodes) (dump_infos_o r.r_nodes6) (opt_tok hex_of_bytes r.r_token)
      (dump_addrs_o r.r_values) (opt_tok hex_of_bytes r.r_bfsd) (opt_tok hex_of_bytes r.r_bfpe)
      (opt_tok dec_of_z r.r_interval) (opt_tok dec_of_z r.r_num) (opt_tok dump_hashes r.r_samples)
      (if v_nn then hex_of_bytes r.r_v else "nil") (hex_of_bytes r.r_k) (hex_of_bytes r.r_sig) (opt_tok dec_of_z r.r_seq)

let dump_xmsg (x : xmsg) =
  let m = x.x_msg in
  Printf.sprintf "q=%s t=%s y=%s cv=%s ro=%s ip=%s/%s e=%s %s %s"
    (hex_of_bytes m.m_q) (hex_of_bytes m.m_t) (hex_of_bytes m.m_y) (hex_of_bytes m.m_v) (tok_bool m.m_ro)
    (if x.x_ip_nn then hex_of_bytes m.m_ip.na_ip else "nil") (dec_of_z m.m_ip.na_port)
    (opt_tok (fun e -> Printf.sprintf "%s:%s" (dec_of_z e.e_code) (hex_of_bytes e.e_msg)) m.m_e)
    (dump_args m.m_a x.x_salt_nn) (dump_ret m.m_r x.x_rv_nn)

let enc_class = function
  | COk b -> "ok " ^ hex_of_bytes b
  | CErr -> "err"
  | CPanic -> "panic"

(* ---------- parsing the dumps back (inputs of `enc`, `mb`, `mbc`, `nfw`) ---------- *)
let hexb s = if s = "-" then [] else bytes_of_hex s
let parse_addr s : node_addr =
  match split_on '/' s with
  | [ip; port] -> { na_ip = (if ip = "nil" then [] else hexb ip); na_port = z_of_dec port }
  | _ -> failwith ("addr " ^ s)
let parse_info s : node_info =
  match split_on '/' s with
  | [id; ip; port] -> { ni_id = hexb id; ni_addr = { na_ip = hexb ip; na_port = z_of_dec port } }
  | _ -> failwith ("info " ^ s)
let parse_list f s =
  if s = "nil" then None
  else if String.length s >= 1 && s.[0] = 'L' then begin
    let body = String.sub s 1 (String.length s - 1) in
    if body = "" then Some [] else Some (List.map f (split_on ',' body)) end
  else failwith ("list " ^ s)
let parse_opt f s = if s = "nil" then None else Some (f s)
let after_eq s = match String.index_opt s '=' with
  | Some i -> String.sub s (i + 1) (String.length s - i - 1)
  | None -> failwith ("kv " ^ s)

let parse_xmsg (toks : string list) : xmsg =
  match toks with
  | q :: t :: y :: cv :: ro :: ip :: e :: rest ->
    let ip = after_eq ip in
    let ip_nn, ipa = (match split_on '/' ip with
        | [i; p] -> (i <> "nil"), { na_ip = (if i = "nil" then [] else hexb i); na_port = z_of_dec p }
        | _ -> failwith "ip") in
    let e = (match after_eq e with
        | "nil" -> None
        | s -> (match split_on ':' s with
            | [c; m] -> Some { e_code = z_of_dec c; e_msg = hexb m }
            | _ -> failwith "e")) in
    let a, salt_nn, rest =
      (match rest with
       | "a=nil" :: rest -> None, false, rest
       | "a=[" :: id :: ih :: tg :: tok :: port :: imp :: want :: noseed :: scrape :: v :: seq :: cas :: k :: salt :: sg :: "]" :: rest ->
         Some { a_id = hexb id; a_info_hash = hexb ih; a_target = hexb tg; a_token = hexb tok;
                a_port = parse_opt z_of_dec port; a_implied_port = (imp = "1");
                a_want = parse_list hexb want; a_noseed = z_of_dec noseed; a_scrape = z_of_dec scrape;
                a_v = (if v = "nil" then None else
                         (match rc_any_of_bytes (hexb v) with Some bv -> Some bv | None -> failwith "a.v not canonical"));
                a_seq = parse_opt z_of_dec seq; a_cas = z_of_dec cas; a_k = hexb k;
                a_salt = (if salt = "nil" then [] else hexb salt); a_sig = hexb sg },
         (salt <> "nil"), rest
       | _ -> failwith "args") in
    let r, rv_nn =
      (match rest with
       | ["r=nil"] -> None, false
       | ["r=["; id; nodes; nodes6; tok; values; bfsd; bfpe; interval; num; samples; v; k; sg; seq; "]"] ->
         Some { r_id = hexb id; r_nodes = parse_list parse_info nodes; r_nodes6 = parse_list parse_info nodes6;
                r_token = parse_opt hexb tok; r_values = parse_list parse_addr values;
                r_bfsd = parse_opt hexb bfsd; r_bfpe = parse_opt hexb bfpe;
                r_interval = parse_opt z_of_dec interval; r_num = parse_opt z_of_dec num;
                r_samples = parse_list hexb samples; r_v = (if v = "nil" then [] else hexb v);
                r_k = hexb k; r_sig = hexb sg; r_seq = parse_opt z_of_dec seq },
         (v <> "nil")
       | _ -> failwith "ret") in
    { x_msg = { m_q = hexb (after_eq q); m_a = a; m_t = hexb (after_eq t); m_y = hexb (after_eq y); m_r = r; m_e = e;
                m_ip = ipa; m_ro = (after_eq ro = "1"); m_v = hexb (after_eq cv) };
      x_ip_nn = ip_nn; x_salt_nn = salt_nn; x_rv_nn = rv_nn }
  | _ -> failwith "msg dump"

(* ---------- choose the model variant the observation belongs to ---------- *)
let with_variant (f : bool -> string) (obs : string list) : string =
  let fixed = f false in
  if words fixed = obs then fixed
  else begin
    let pinned = f true in
    if words pinned = obs then pinned else fixed end

let class_of_decode = function
  | DOk _ -> "ok"
  | DOkTrailing (_, n) -> Printf.sprintf "trail %d" (int_of_nat n)
  | DReject -> "reject"
  | DPanic -> "panic"
let decoded = function DOk x -> Some x | DOkTrailing (x, _) -> Some x | _ -> None

let run_msg pinned b =
  let ((d, re), g2) = rc_msg pinned b in
  match decoded d with
  | None -> class_of_decode d
  | Some x ->
    let line = Printf.sprintf "%s %s re %s" (class_of_decode d) (dump_xmsg x) (enc_class re) in
    (match g2 with
     | None -> line
     | Some (d2, re2) ->
       let e2 = (match decoded d2 with Some _ -> enc_class re2 | None -> "ok -") in
       Printf.sprintf "%s gen2 %s %s" line (class_of_decode d2) e2)

(* result of a list decoder *)
let ub_list dump_elems (re : 'a list -> bytes cresult) (o : 'a list cresult) =
  match o with
  | COk l -> Printf.sprintf "ok %s re %s" (dump_elems l) (enc_class (re l))
  | CErr -> "err"
  | CPanic -> "panic"

let benc_wrap (o : bytes cresult) = compact_marshal_benc o

let () =
  reg "msg" (fun a obs -> match a with
    | [h] -> let b = hexb h in with_variant (fun pinned -> run_msg pinned b) obs
    | _ -> "?");
  reg "enc" (fun a _ -> enc_class (encode_xmsg (parse_xmsg a)));
  reg "ub" (fun a obs -> match a with
    | [ty; h] ->
      let b = hexb h in
      with_variant (fun pinned ->
        match ty with
        | "addrs4" -> ub_list (nil_if_empty dump_addr) addrs4_enc (addrs4_dec b)
        | "addrs6" -> ub_list (nil_if_empty dump_addr) addrs6_enc (addrs6_dec b)
        | "infos4" -> ub_list (nil_if_empty dump_info) infos4_enc (rc_infos4_dec pinned b)
        | "infos6" -> ub_list (nil_if_empty dump_info) infos6_enc (rc_infos6_dec pinned b)
        | "hashes" -> ub_list dump_hashes hashes_enc (hashes_dec b)
        | "nodeaddr" -> (match nodeaddr_unmarshal b with
            | COk x -> Printf.sprintf "ok %s re ok %s" (dump_addr x) (hex_of_bytes (nodeaddr_marshal x))
            | CErr -> "err" | CPanic -> "panic")
        | "nodeinfo" -> (match rc_ni pinned b with
            | COk x -> Printf.sprintf "ok %s re ok %s" (dump_info x) (hex_of_bytes (nodeinfo_marshal x))
            | CErr -> "err" | CPanic -> "panic")
        | _ -> "?") obs
    | _ -> "?");
  reg "ubc" (fun a obs -> match a with
    | [ty; h] ->
      let b = hexb h in
      with_variant (fun pinned ->
        match ty with
        | "addrs4" -> ub_list (nil_if_empty dump_addr) (fun l -> benc_wrap (addrs4_enc l)) (rc_addrs4_unb b)
        | "addrs6" -> ub_list (nil_if_empty dump_addr) (fun l -> benc_wrap (addrs6_enc l)) (rc_addrs6_unb b)
        | "infos4" -> ub_list (nil_if_empty dump_info) (fun l -> benc_wrap (infos4_enc l)) (rc_infos4_unb pinned b)
        | "infos6" -> ub_list (nil_if_empty dump_info) (fun l -> benc_wrap (infos6_enc l)) (rc_infos6_unb pinned b)
        | "hashes" -> ub_list dump_hashes (fun l -> benc_wrap (hashes_enc l)) (rc_hashes_unb b)
        | "nodeaddr" -> (match nodeaddr_unmarshal_benc b with
            | COk x -> Printf.sprintf "ok %s re ok %s" (dump_addr x) (hex_of_bytes (nodeaddr_marshal_benc x))
            | CErr -> "err" | CPanic -> "panic")
        | "id" -> (match id_unmarshal b with
            | Some x -> Printf.sprintf "ok %s re ok %s" (hex_of_bytes x) (hex_of_bytes (id_marshal_benc x))
            | None -> "err")
        | "error" -> (match error_unmarshal b with
            | Some e -> Printf.sprintf "ok %s:%s re ok %s" (dec_of_z e.e_code) (hex_of_bytes e.e_msg) (hex_of_bytes (error_marshal_benc e))
            | None -> "err")
        | _ -> "?") obs
    | _ -> "?");
  let marshal benc a = match a with
    | [ty; d] ->
      let wrap o = if benc then benc_wrap o else o in
      let lst f = (match parse_list f d with Some l -> l | None -> []) in
      (match ty with
       | "addrs4" -> enc_class (wrap (addrs4_enc (lst parse_addr)))
       | "addrs6" -> enc_class (wrap (addrs6_enc (lst parse_addr)))
       | "infos4" -> enc_class (wrap (infos4_enc (lst parse_info)))
       | "infos6" -> enc_class (wrap (infos6_enc (lst parse_info)))
       | "hashes" -> enc_class (wrap (hashes_enc (lst hexb)))
       | "nodeaddr" -> enc_class (COk (if benc then nodeaddr_marshal_benc (parse_addr d) else nodeaddr_marshal (parse_addr d)))
       | "nodeinfo" -> enc_class (COk (nodeinfo_marshal (parse_info d)))
       | "id" when benc -> enc_class (COk (id_marshal_benc (hexb d)))
       | "error" when benc ->
         (match split_on ':' d with
          | [c; m] -> enc_class (COk (error_marshal_benc { e_code = z_of_dec c; e_msg = hexb m }))
          | _ -> "?")
       | "bloom" when benc -> enc_class (wrap (COk (hexb d)))   (* a [256]byte: the bencode string of its bytes *)
       | _ -> "?")
    | _ -> "?" in
  reg "mb" (fun a _ -> marshal false a);
  reg "mbc" (fun a _ -> marshal true a);
  (* `mbf <form> <type> <dump>`: the value handed to bencode.Marshal inside a container (by value, by pointer, struct
     field, interface{}, map, list ...); the harness prints the piece found inside the container's wrapper, which is the
     value's own MarshalBencode result whatever the form *)
  reg "mbf" (fun a _ -> match a with _form :: rest -> marshal true rest | _ -> "?");
  reg "nfw" (fun a obs -> match a with
    | [d] ->
      let l = (match parse_list parse_info d with Some l -> l | None -> []) in
      with_variant (fun pinned ->
        match nodes_file_write l with
        | COk b ->
          (match rc_infos6_dec pinned b with
           | COk back -> Printf.sprintf "ok %s read ok %s" (hex_of_bytes b) (nil_if_empty dump_info back)
           | CErr -> Printf.sprintf "ok %s read err nil" (hex_of_bytes b)
           | CPanic -> Printf.sprintf "ok %s read panic nil" (hex_of_bytes b))
        | CErr -> "err"
        | CPanic -> "panic") obs
    | _ -> "?");
  reg "nfr" (fun a obs -> match a with
    | [h] ->
      with_variant (fun pinned ->
        match rc_infos6_dec pinned (hexb h) with
        | COk back -> "ok " ^ nil_if_empty dump_info back
        | CErr -> "err"
        | CPanic -> "panic") obs
    | _ -> "?")
