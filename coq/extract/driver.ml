(* driver.ml — line protocol between the Go harness and the extracted model.
   Reads harness lines `op args => observed`, recomputes the result with the model and prints
   `op args => model-result`.  For relational steps (marked below) the observed result is fed to
   the model's acceptance function and echoed when accepted, or `REJECT <why>` printed. *)
module BZ = Z
open Model

(* ---------- conversions ---------- *)
let rec pos_of_int (i : int) : positive =
  if i = 1 then XH else if i land 1 = 1 then XI (pos_of_int (i lsr 1)) else XO (pos_of_int (i lsr 1))
let n_of_int (i : int) : n = if i = 0 then N0 else Npos (pos_of_int i)
let rec int_of_pos = function XH -> 1 | XO p -> 2 * int_of_pos p | XI p -> 2 * int_of_pos p + 1
let int_of_n = function N0 -> 0 | Npos p -> int_of_pos p
let rec nat_of_int i = if i <= 0 then O else S (nat_of_int (i - 1))
let rec int_of_nat = function O -> 0 | S k -> 1 + int_of_nat k
let z_of_int i = if i = 0 then Z0 else if i > 0 then Zpos (pos_of_int i) else Zneg (pos_of_int (-i))
let int_of_z = function Z0 -> 0 | Zpos p -> int_of_pos p | Zneg p -> - (int_of_pos p)

(* arbitrary precision through Zarith *)
let rec pos_of_big (b : BZ.t) : positive =
  if BZ.equal b BZ.one then XH
  else if BZ.testbit b 0 then XI (pos_of_big (BZ.shift_right b 1)) else XO (pos_of_big (BZ.shift_right b 1))
let n_of_big b = if BZ.sign b = 0 then N0 else Npos (pos_of_big b)
let z_of_big b = if BZ.sign b = 0 then Z0 else if BZ.sign b > 0 then Zpos (pos_of_big b) else Zneg (pos_of_big (BZ.neg b))
let rec big_of_pos = function
  | XH -> BZ.one | XO p -> BZ.shift_left (big_of_pos p) 1 | XI p -> BZ.succ (BZ.shift_left (big_of_pos p) 1)
let big_of_n = function N0 -> BZ.zero | Npos p -> big_of_pos p
let big_of_z = function Z0 -> BZ.zero | Zpos p -> big_of_pos p | Zneg p -> BZ.neg (big_of_pos p)
let n_of_dec s = n_of_big (BZ.of_string s)
let z_of_dec s = z_of_big (BZ.of_string s)
let dec_of_n x = BZ.to_string (big_of_n x)
let dec_of_z x = BZ.to_string (big_of_z x)

let byte_tab : byte array = Array.init 256 (fun i -> byte_of_N (n_of_int i))
let int_of_byte (b : byte) : int = int_of_n (to_N b)
let hexval c = match c with
  | '0'..'9' -> Char.code c - 48 | 'a'..'f' -> Char.code c - 87 | 'A'..'F' -> Char.code c - 55
  | _ -> failwith "hex"
let bytes_of_hex (s : string) : byte list =
  if s = "-" then [] else begin
    let n = String.length s / 2 in
    let rec go i acc = if i < 0 then acc else go (i - 1) (byte_tab.(hexval s.[2*i] * 16 + hexval s.[2*i+1]) :: acc) in
    go (n - 1) [] end
let hex_of_bytes (l : byte list) : string =
  if l = [] then "-" else begin
    let b = Buffer.create 64 in
    List.iter (fun x -> Buffer.add_string b (Printf.sprintf "%02x" (int_of_byte x))) l;
    Buffer.contents b end
let n_of_hex s = toN (bytes_of_hex s)
let hex20_of_n x = hex_of_bytes (ofN (nat_of_int 20) x)
let bool_of_tok s = s <> "0"
let tok_of_bool b = if b then "1" else "0"

let split_on c s = String.split_on_char c s
let words s = List.filter (fun w -> w <> "") (split_on ' ' s)

(* ami token: hexip:port:hexid|- *)
let ami_of_tok s : ami =
  match split_on ':' s with
  | [ip; port; id] ->
    { ami_addr = ap_of_ip (bytes_of_hex ip) (n_of_dec port);
      ami_id = (if id = "-" then None else Some (n_of_hex id)) }
  | _ -> failwith ("ami " ^ s)
(* canonical print needs the ip bytes back: fam/val -> bytes *)
let ip_of_ap (a : addrport) : byte list =
  match int_of_n a.ap_fam with
  | 32 -> ofN (nat_of_int 4) a.ap_val
  | 128 -> ofN (nat_of_int 16) a.ap_val
  | _ -> []
let tok_of_ami (a : ami) : string =
  Printf.sprintf "%s:%s:%s" (hex_of_bytes (ip_of_ap a.ami_addr)) (dec_of_n a.ami_addr.ap_port)
    (match a.ami_id with None -> "-" | Some i -> hex20_of_n i)
(* kel token: hexip:port:hexid:data *)
let kel_of_tok s : kel =
  match split_on ':' s with
  | [ip; port; id; d] ->
    { k_id = n_of_hex id; k_addr = ap_of_ip (bytes_of_hex ip) (n_of_dec port); k_data = n_of_dec d }
  | _ -> failwith ("kel " ^ s)
let tok_of_kel (e : kel) : string =
  Printf.sprintf "%s:%s:%s:%s" (hex_of_bytes (ip_of_ap e.k_addr)) (dec_of_n e.k_addr.ap_port)
    (hex20_of_n e.k_id) (dec_of_n e.k_data)

let rec take n l = if n <= 0 then [] else match l with [] -> [] | x :: r -> x :: take (n - 1) r
let rec drop n l = if n <= 0 then l else match l with [] -> [] | _ :: r -> drop (n - 1) r

(* ---------- handlers: args (before =>) and observed tokens (after =>) -> result string ---------- *)
let handlers : (string, string list -> string list -> string) Hashtbl.t = Hashtbl.create 64
let reg name f = Hashtbl.replace handlers name f

let () =
  reg "xor" (fun a _ -> match a with [x; y] -> hex_of_bytes (xorl (bytes_of_hex x) (bytes_of_hex y)) | _ -> "?");
  reg "cmp" (fun a _ -> match a with [x; y] -> dec_of_z (cmp_int (cmp160 (bytes_of_hex x) (bytes_of_hex y))) | _ -> "?");
  reg "distcmp" (fun a _ -> match a with
    | [x; y; t] -> let t = bytes_of_hex t in
      dec_of_z (cmp_int (cmp160 (distance (bytes_of_hex x) t) (distance (bytes_of_hex y) t)))
    | _ -> "?");
  reg "bitlen" (fun a _ -> match a with [x] -> dec_of_n (bitlen (bytes_of_hex x)) | _ -> "?");
  reg "iszero" (fun a _ -> match a with [x] -> tok_of_bool (is_zero (bytes_of_hex x)) | _ -> "?");
  reg "getbit" (fun a _ -> match a with [x; i] -> tok_of_bool (get_bit (bytes_of_hex x) (nat_of_int (int_of_string i))) | _ -> "?");
  reg "setbit" (fun a _ -> match a with
    | [x; i; v] -> hex_of_bytes (set_bit (bytes_of_hex x) (nat_of_int (int_of_string i)) (bool_of_tok v))
    | _ -> "?");
  reg "bucketidx" (fun a _ -> match a with
    | [root; id] -> (match bucket_index_bytes (bytes_of_hex root) (bytes_of_hex id) with
        | None -> "panic"
        | Some i ->
          (* the byte-level and the spec-level index must agree *)
          let j = bucket_index (n_of_hex root) (n_of_hex id) in
          if int_of_nat i <> int_of_nat j then "MODEL-INCONSISTENT" else string_of_int (int_of_nat i))
    | _ -> "?");
  (* relational: the code draws 20 random bytes; the observed id must be a fixpoint of the model
     function applied to itself as the random base, i.e. be a possible output *)
  reg "randbucket" (fun a o -> match a, o with
    | [root; i], [id] ->
      let r = random_in_bucket_bytes (bytes_of_hex root) (bytes_of_hex id) (nat_of_int (int_of_string i)) in
      if hex_of_bytes r = id then id else "REJECT not-a-possible-output model(base=obs)=" ^ hex_of_bytes r
    | _ -> "?");
  reg "closer" (fun a _ -> match a with
    | [t; l; r] -> tok_of_bool (closer_than (n_of_hex t) (ami_of_tok l) (ami_of_tok r))
    | _ -> "?");
  reg "sset" (fun a _ -> match a with
    | t :: _n :: ops ->
      let ops = List.map (fun s ->
          let x = ami_of_tok (String.sub s 1 (String.length s - 1)) in
          if s.[0] = '+' then SsAdd x else SsDel x) ops in
      let l = run_sset (n_of_hex t) ops in
      String.concat " " (string_of_int (List.length l) :: List.map tok_of_ami l)
    | _ -> "?");
  (* relational in the tie order: accept the observed contents if they are an allowed outcome *)
  reg "knear" (fun a o -> match a with
    | t :: k :: _n :: pushes ->
      let t = n_of_hex t and k = int_of_string k in
      let pushes = List.map kel_of_tok pushes in
      (match o with
       | full :: len :: far :: contents ->
         let obs = List.map kel_of_tok contents in
         let okc = accept_knear t (nat_of_int k) pushes obs in
         let okfull = (bool_of_tok full) = kn_full (nat_of_int k) obs in
         let oklen = int_of_string len = List.length obs in
         let okfar = (match kn_farthest obs with None -> far = "-" | Some e -> far = tok_of_kel e) in
         if okc && okfull && oklen && okfar then String.concat " " o
         else begin
           let m = run_knear t (nat_of_int k) pushes in
           Printf.sprintf "REJECT contents=%b full=%b len=%b far=%b one-allowed=%s" okc okfull oklen okfar
             (String.concat " " (List.map tok_of_kel m)) end
       | _ -> "?")
    | _ -> "?")

let () =
  (* oracle-only engines: case brackets carry no model content *)
  reg "mbegin" (fun _ _ -> "ok");
  reg "mend" (fun _ _ -> "ok")

(* further engines register their handlers from other compilation units via [reg] *)
let process_line (line : string) : string option =
  if String.length line = 0 then None
  else if String.length line >= 6 && String.sub line 0 6 = "oracle" then None
  else if line.[0] = '#' then None
  else begin
    let lhs, rhs =
      match Str.bounded_split_delim (Str.regexp_string " => ") line 2 with
      | [l; r] -> l, r
      | [l] -> l, ""
      | _ -> line, "" in
    match words lhs with
    | [] -> None
    | op :: args ->
      let res =
        match Hashtbl.find_opt handlers op with
        | None -> "NO-HANDLER"
        | Some f -> (try f args (words rhs) with e -> "EXN " ^ Printexc.to_string e) in
      Some (lhs ^ " => " ^ res)
  end

let main () =
  let ic = if Array.length Sys.argv > 1 then open_in Sys.argv.(1) else stdin in
  let oc = if Array.length Sys.argv > 2 then open_out Sys.argv.(2) else stdout in
  (try
     while true do
       let line = input_line ic in
       match process_line line with
       | None -> ()
       | Some s -> output_string oc s; output_char oc '\n'
     done
   with End_of_file -> ());
  close_out oc
