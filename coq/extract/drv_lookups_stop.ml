(* drv_lookups_stop.ml — lookups engine, cases of harness/cmd/h/lookups_stop.go (a lookup stopped while a reply is
   still being processed).

     lkbegun <idx> => <n>
       printed (before lkend) by the cases in which the harness KNOWS that the traversal's scheduling loop was not
       inside its locked section when Stop() was called (the reply handler was parked in the NodeFilter, owning the
       operation lock, from before the stop until after it had returned).  <n> observed: the number of DoQuery calls
       the traversal made over its whole life (Announce.NumContacted / traversal.Stats.NumAddrsTried /
       ServerStats.OutboundQueriesAttempted).  Model: the number of TIssue steps of the replayed trace
       (rl_view_nq).  Lookups.enabled offers no TIssue once l_stopping holds (Props/C14.v C14_stop_no_new_query),
       and the driver's tolerance for a query "in the middle of being started" (lklate) never steps the model, so the
       two numbers agree exactly when no query began after the stop. *)
open Model
open Driver

let () =
  reg "lkbegun" (fun _ _ ->
    match !Drv_lookups.lkst with
    | None -> "REJECT no-case"
    | Some s -> string_of_int (int_of_nat (rl_view_nq s)))
