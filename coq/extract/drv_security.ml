(* drv_security.ml — handlers of the `security` engine (C17; sha1/crc32c also serve other slices). *)
open Model
open Driver

let opt_bytes = function None -> "panic" | Some b -> hex_of_bytes b
let opt_bool = function None -> "panic" | Some b -> tok_of_bool b
let opt_n = function None -> "panic" | Some x -> dec_of_n x

(* initid / serverid arguments: nodeid hasconn network addr pubip|nil nosec *)
let cfg_of_args nodeid hasconn nw addr pubip nosec =
  mk_cfg (bytes_of_hex nodeid)
    (if bool_of_tok hasconn then Some (bytes_of_hex nw, bytes_of_hex addr) else None)
    (if pubip = "nil" then None else Some (bytes_of_hex pubip))
    (bool_of_tok nosec)

(* relational: the observed id must be a possible result of InitNodeId (for some RandomNodeID()) *)
let init_handler a o =
  match a with
  | [nodeid; hasconn; nw; addr; pubip; nosec] ->
    let cfg = cfg_of_args nodeid hasconn nw addr pubip nosec in
    (match o with
     | ["panic"] -> if init_panics cfg then "panic" else "REJECT model does not panic"
     | [id; det] ->
       let obs = bytes_of_hex id in
       if accept_init_node_id cfg obs (bool_of_tok det) then id ^ " " ^ det
       else
         (match init_node_id cfg obs with
          | None -> "REJECT model panics"
          | Some (m, d) -> Printf.sprintf "REJECT not-a-possible-output model(rnd=obs)=%s %s" (hex_of_bytes m) (tok_of_bool d))
     | _ -> "?")
  | _ -> "?"

(* NewServer(cfg).ID(): same relation, the deterministic flag is not observable *)
let server_handler a o =
  match a with
  | [nodeid; hasconn; nw; addr; pubip; nosec] ->
    let cfg = cfg_of_args nodeid hasconn nw addr pubip nosec in
    (match o with
     | ["panic"] -> if init_panics cfg then "panic" else "REJECT model does not panic"
     | [id] ->
       let obs = bytes_of_hex id in
       if accept_init_node_id cfg obs true || accept_init_node_id cfg obs false then id
       else
         (match init_node_id cfg obs with
          | None -> "REJECT model panics"
          | Some (m, _) -> "REJECT not-a-possible-output model(rnd=obs)=" ^ hex_of_bytes m)
     | _ -> "?")
  | _ -> "?"

let () =
  reg "sha1" (fun a _ -> match a with [m] -> hex_of_bytes (sha1 (bytes_of_hex m)) | _ -> "?");
  reg "crc32c" (fun a _ -> match a with [m] -> dec_of_n (crc32c (bytes_of_hex m)) | _ -> "?");
  reg "hashtuple" (fun a _ -> match a with
    | _n :: bs -> hex_of_bytes (hash_tuple (List.map bytes_of_hex bs))
    | _ -> "?");
  reg "maskfor" (fun a _ -> match a with [ip] -> hex_of_bytes (mask_for_ip (bytes_of_hex ip)) | _ -> "?");
  reg "islocal" (fun a _ -> match a with [ip] -> tok_of_bool (is_local_network (bytes_of_hex ip)) | _ -> "?");
  reg "crcip" (fun a _ -> match a with
    | [ip; r] -> opt_n (crc_ip (bytes_of_hex ip) (byte_of_N (n_of_dec r)))
    | _ -> "?");
  reg "secure" (fun a _ -> match a with
    | [id; ip] -> opt_bytes (secure_node_id (bytes_of_hex id) (bytes_of_hex ip))
    | _ -> "?");
  reg "issecure" (fun a _ -> match a with
    | [id; ip] -> opt_bool (node_id_secure (bytes_of_hex id) (bytes_of_hex ip))
    | _ -> "?");
  reg "secx8" (fun a _ -> match a with
    | [id; ip] -> String.concat " " (List.map opt_bytes (run_secx8 (bytes_of_hex id) (bytes_of_hex ip)))
    | _ -> "?");
  reg "detid" (fun a _ -> match a with
    | [s; ip] -> opt_bytes (make_deterministic_node_id (bytes_of_hex s) (bytes_of_hex ip))
    | _ -> "?");
  reg "initid" init_handler;
  reg "serverid" server_handler
