(* drv_lookups.ml — runner handlers of the `query` and `lookups` engines (C14, C16, C12 client side, C20
   query policy).  All decisions are taken by extracted functions of RunLookups.v / Query.v / Lookups.v;
   this file only parses and prints.

   query engine, one line per case:
     qcase <idx> <tries> <rl> <budget|-> <blocked> <closed0> <fail> <script|-> => <n> <w/r/class>*n <pending> <leak>
       rl      z | nf | na | nfna | wr | nw          (QueryRateLimiting: zero, NotFirst, NotAny, both, WaitOnRetries, NoWaitFirst)
       script  comma separated point:action, point = pre | w<i> | g<i> | ret, action = reply | cancel | close | block | nop | stray (a datagram that is not the query's reply)
       outcome datagrams / budget units consumed (- when the limiter is unlimited) / result class
     The model explores every interleaving the script allows; an observed outcome is accepted iff it is in
     the set; the model's transaction and process leak counts are always 0.

   lookups engine, one case = lkbegin, events in the order the harness performed them, lkend:
     lkedtable <n> <key:msg:sig:0|1>*n
     lkbegin <idx> <api> <sn> <target> <port:imp|-> <tgt|-> <salt|-> => ok
     lkissue <q> <ip:port>                                            => ok
     lkreply <q> <hasr> <id|-> <tok|-|none> <payload|-> <v|-> <k|-> <sig|-> <seq|->   => ok
     lknoreply <q> | lkctx | lkclose | lkstoptrav | lkconsumerstop     => ok
     lkend => sends <n> <dest|tok|ih|port|imp|seq>*n peers <m> <addr|id|payload>*m closed <b> res <r> done <b> panic <b>
       (after Close() / a cancelled ctx the observed sends, after Close() the observed deliveries, may be any
        sub-multiset of the model's)
*)
module BZ = Z   (* Zarith, before Model's extracted module Z shadows it *)
open Model
open Driver

let split_on c s = String.split_on_char c s

(* ---------------------------------------------------------------- query engine *)
(* QueryRateLimiting as (NotFirst, NotAny, WaitOnRetries, NoWaitFirst) *)
let rl_of_tok = function
  | "z" -> (false, false, false, false)
  | "nf" -> (true, false, false, false)
  | "na" -> (false, true, false, false)
  | "nfna" -> (true, true, false, false)
  | "wr" -> (false, false, true, false)
  | "nw" -> (false, false, false, true)
  | s -> failwith ("rl " ^ s)

let point_of_tok s =
  if s = "pre" then QPPre else if s = "ret" then QPRet
  else begin
    let i = int_of_string (String.sub s 1 (String.length s - 1)) in
    match s.[0] with 'w' -> QPWrite (nat_of_int i) | 'g' -> QPGate (nat_of_int i) | _ -> failwith ("point " ^ s) end
let action_of_tok = function
  | "reply" -> QAReply | "cancel" -> QACancel | "close" -> QAClose | "block" -> QABlock | "nop" -> QANop | "stray" -> QAStray
  | s -> failwith ("action " ^ s)
let script_of_tok s =
  if s = "-" then [] else
    List.map (fun d -> match split_on ':' d with
        | [p; a] -> (point_of_tok p, action_of_tok a)
        | _ -> failwith ("directive " ^ d)) (split_on ',' s)

let class_names = [ (0, "reply"); (1, "ctx"); (2, "timeout"); (3, "err-closed"); (4, "err-blocked"); (5, "err-rate");
                    (6, "err-socket"); (7, "err-short"); (98, "fuel"); (99, "stuck") ]
let class_name c = try List.assoc c class_names with Not_found -> "?"
let class_code s = try fst (List.find (fun (_, n) -> n = s) class_names) with Not_found -> -1

let () =
  reg "qcase" (fun a o -> match a with
    | [_idx; tries; rl; budget; blocked; closed0; fail; script] ->
      let exact = budget <> "-" in
      let (nf, na, wr, nw) = rl_of_tok rl in
      let sc = rq_mk_scn (nat_of_int (int_of_string tries)) nf na wr nw
          (if exact then Some (nat_of_int (int_of_string budget)) else None)
          (bool_of_tok blocked) (bool_of_tok closed0) (nat_of_int (int_of_string fail)) (script_of_tok script) in
      let allowed = rq_outcomes sc in
      let show ((((w, r), k), reg), nd) =
        Printf.sprintf "%d/%s/%s%s" (int_of_nat w) (if exact then string_of_int (int_of_nat r) else "-")
          (class_name (int_of_nat k)) (if reg || nd then "!leak" else "") in
      (match o with
       | n :: rest ->
         let n = int_of_string n in
         let outs = take n rest in
         let ok_one tok =
           match split_on '/' tok with
           | [w; r; k] ->
             let w = int_of_string w and k = class_code k in
             List.exists (fun ((((w', r'), k'), reg), nd) ->
                 int_of_nat w' = w && int_of_nat k' = k && (not exact || string_of_int (int_of_nat r') = r)
                 && not reg && not nd) allowed
           | _ -> false in
         if n > 0 && List.for_all ok_one outs then
           String.concat " " (string_of_int n :: outs @ ["0"; "0"])
         else
           "REJECT allowed=" ^ String.concat "," (List.map show allowed)
       | _ -> "REJECT allowed=" ^ String.concat "," (List.map show allowed))
    | _ -> "?")

(* ---------------------------------------------------------------- lookups engine *)
let lkedtab : (string, bool) Hashtbl.t = Hashtbl.create 256
let lkedmiss = ref false
let lkedv (k : byte list) (m : byte list) (s : byte list) : bool =
  let key = hex_of_bytes k ^ ":" ^ hex_of_bytes m ^ ":" ^ hex_of_bytes s in
  match Hashtbl.find_opt lkedtab key with
  | Some b -> b
  | None -> lkedmiss := true; false

let zeros n = List.init n (fun _ -> byte_tab.(0))
let fixed_hex s n = if s = "-" then zeros n else bytes_of_hex s

(* (ip, port) <-> number: ip as a big-endian number * 65536 + port; the ip width is kept apart *)
let ipw : (string, int) Hashtbl.t = Hashtbl.create 64
let addr_of_tok s : n =
  match split_on ':' s with
  | [ip; port] ->
    let v = BZ.add (BZ.mul (big_of_n (n_of_hex ip)) (BZ.of_int 65536)) (BZ.of_string port) in
    Hashtbl.replace ipw (BZ.to_string v) (String.length ip / 2);
    n_of_big v
  | _ -> failwith ("addr " ^ s)
let tok_of_addr (a : n) : string =
  let v = big_of_n a in
  let w = try Hashtbl.find ipw (BZ.to_string v) with Not_found -> 4 in
  let ip = BZ.shift_right v 16 and port = BZ.logand v (BZ.of_int 65535) in
  Printf.sprintf "%s:%s" (hex_of_bytes (ofN (nat_of_int w) (n_of_big ip))) (BZ.to_string port)

let mk_cfg api sn target ann tgt salt = rl_mk_cfg (nat_of_int api) (nat_of_int sn) target ann tgt salt
let lkcfg = ref (mk_cfg 0 0 N0 None [] [])
let lkst = ref None
let lklate : int list ref = ref []   (* harness numbers of queries issued in the race window of a Stop() *)
(* drv_lookups_limiter.ml (`lksent` lines): Some l once the first announce_peer / put datagram of the case has left;
   l = the sends the model still expects *)
let lkexp : (((((n * byte list) * n) * z) * bool) * z) list option ref = ref None

let with_state f : string =
  match !lkst with
  | None -> "REJECT no-case"
  | Some s ->
    lkedmiss := false;
    let s' = f s in
    lkst := Some s';
    if !lkedmiss then "REJECT edtable-miss" else "ok"

let show_send (((((dest, tok), ih), port), imp), seq) : string =
  Printf.sprintf "%s|%s|%s|%s|%s|%s" (tok_of_addr dest) (hex_of_bytes tok) (hex20_of_n ih)
    (dec_of_z port) (tok_of_bool imp) (dec_of_z seq)
let show_peer ((a, i), p) : string =
  Printf.sprintf "%s|%s|%s" (tok_of_addr a) (hex20_of_n i) (hex_of_bytes p)

let show_result c s : string =
  let ((err, autoseq), cur) = rl_view_result s in
  let api = int_of_nat (rl_cfg_api c) in
  match int_of_nat err with
  | 1 -> "start"
  | 2 -> if api = 3 then "ctx:" ^ dec_of_z autoseq else "ctx"
  | 3 -> "notfound"
  | _ ->
    if api = 2 then
      (match cur with
       | Some ((seq, v), mut) -> Printf.sprintf "val:%s:%s:%s" (if mut then dec_of_z seq else "-") (hex_of_bytes v) (tok_of_bool mut)
       | None -> "val:none")
    else if api = 3 then "ok:" ^ dec_of_z autoseq
    else "ok"

let () =
  reg "lkedtable" (fun a _ -> match a with
    | _n :: entries ->
      List.iter (fun e -> match split_on ':' e with
          | [k; m; s; b] -> Hashtbl.replace lkedtab (k ^ ":" ^ m ^ ":" ^ s) (b <> "0")
          | _ -> ()) entries;
      "ok"
    | _ -> "?");
  reg "lkbegin" (fun a _ -> match a with
    | [_idx; api; sn; target; ann; tgt; salt] ->
      let api = (match api with "bootstrap" -> 0 | "announce" -> 1 | "get" -> 2 | "put" -> 3 | s -> failwith ("api " ^ s)) in
      let sn = (match sn with "ok" -> 0 | "err" -> 1 | "empty" -> 2 | s -> failwith ("sn " ^ s)) in
      let ann = if ann = "-" then None else
          (match split_on ':' ann with [p; i] -> Some (z_of_dec p, bool_of_tok i) | _ -> failwith "ann") in
      (* the reference model: owners stop their traversal on every path (D8 repaired), a reply with the
         key but no seq is ignored (D2 repaired), a delivery is given up only once the announce has been closed
         (D10 repaired: a.closed.Done()) *)
      let c = mk_cfg api sn (n_of_hex target) ann (bytes_of_hex tgt) (bytes_of_hex salt) in
      lkcfg := c; Hashtbl.reset ipw; lklate := []; lkexp := None;
      lkedmiss := false;
      lkst := Some (rl_init lkedv c);
      "ok"
    | _ -> "?");
  reg "lkissue" (fun a _ -> match a with
    | [q; ad] ->
      (match !lkst with
       | None -> "REJECT no-case"
       | Some s ->
         let q = int_of_string q in
         let nq = int_of_nat (rl_view_nq s) in
         if nq + List.length !lklate <> q then "REJECT query-number model=" ^ string_of_int (nq + List.length !lklate)
         else begin
           let r = with_state (fun s -> rl_event lkedv !lkcfg s (REvIssue (addr_of_tok ad))) in
           (match !lkst with
            | Some s' when int_of_nat (rl_view_nq s') = nq ->
              (* not a step of the model now.  The one legitimate cause: Stop() was called while the run loop
                 was in the middle of starting queries; such a query is cancelled at once and has no effect
                 (in the model it is a TIssue that precedes the Stop).  Anything else is a disagreement. *)
              (* ... and once an announce_peer has left the traversal has Stopped: the window is closed *)
              if (match !lkexp with Some _ -> true | None -> false) && int_of_nat (rl_cfg_api !lkcfg) = 1 then "REJECT query-issued-after-announce-peer-began"
              else if rl_view_stopping s' then (lklate := q :: !lklate; r) else "REJECT query-issued-while-model-cannot"
            | _ -> r)
         end)
    | _ -> "?");
  reg "lkreply" (fun a _ -> match a with
    | [q; hasr; id; tok; payload; v; k; sg; seq] ->
      let qh = int_of_string q in
      if List.mem qh !lklate then "ok" else begin
      let qm = qh - List.length (List.filter (fun l -> l < qh) !lklate) in
      let r = rl_mk_reply (bool_of_tok hasr) (if id = "-" then N0 else n_of_hex id)
          (if tok = "none" then None else Some (bytes_of_hex tok)) (bytes_of_hex payload)
          (bytes_of_hex v) (fixed_hex k 32) (fixed_hex sg 64) (if seq = "-" then None else Some (z_of_dec seq)) in
      with_state (fun s -> rl_event lkedv !lkcfg s (REvReply (nat_of_int qm, r))) end
    | _ -> "?");
  reg "lknoreply" (fun a _ -> match a with
    | [q] ->
      let qh = int_of_string q in
      if List.mem qh !lklate then "ok" else
        let qm = qh - List.length (List.filter (fun l -> l < qh) !lklate) in
        with_state (fun s -> rl_event lkedv !lkcfg s (REvNoReply (nat_of_int qm)))
    | _ -> "?");
  reg "lkctx" (fun _ _ -> with_state (fun s -> rl_event lkedv !lkcfg s REvCtx));
  reg "lkclose" (fun _ _ -> with_state (fun s -> rl_event lkedv !lkcfg s REvClose));
  reg "lkstoptrav" (fun _ _ -> with_state (fun s -> rl_event lkedv !lkcfg s REvStopTrav));
  reg "lkconsumerstop" (fun _ _ -> with_state (fun s -> rl_event lkedv !lkcfg s REvConsumerStop));
  reg "lkend" (fun _ o ->
    match !lkst with
    | None -> "REJECT no-case"
    | Some s0 ->
      lkedmiss := false;
      let s = rl_finish lkedv !lkcfg s0 in
      lkst := None;
      let c = !lkcfg in
      let sends = List.sort compare (List.map show_send (rl_view_sends s)) in
      let peers = List.sort compare (List.map show_peer (rl_view_peers s)) in
      let ((((pclosed, alldone), panic), aclosed), ctxc) = rl_view_flags s in
      (* observed sends: after Close() / with a cancelled context the datagram of an issued announce_peer /
         put may or may not leave: any sub-multiset is allowed then, otherwise all of them *)
      let obs_sends =
        (match o with
         | "sends" :: n :: rest -> Some (take (int_of_string n) rest)
         | _ -> None) in
      let cancelled = aclosed || ctxc in
      let rec sub_multiset xs ys = match xs with
        | [] -> true
        | x :: xr -> (match ys with
            | [] -> false
            | y :: yr -> if x = y then sub_multiset xr yr else if compare y x < 0 then sub_multiset xs yr else false) in
      let sends_out =
        (match obs_sends with
         | Some os when cancelled && sub_multiset (List.sort compare os) sends -> List.sort compare os
         | _ -> sends) in
      (* observed deliveries: once Close() was called a response still waiting for the consumer may be
         given up or delivered (both branches of getPeers' select are ready): any sub-multiset of what the
         model delivers to a reading consumer is allowed then, otherwise all of it *)
      let obs_peers =
        (match o with
         | "sends" :: n :: rest ->
           (match drop (int_of_string n) rest with
            | "peers" :: m :: rest' -> Some (take (int_of_string m) rest')
            | _ -> None)
         | _ -> None) in
      let peers =
        (match obs_peers with
         | Some op when aclosed && sub_multiset (List.sort compare op) peers -> List.sort compare op
         | _ -> peers) in
      let b2s b = if b then "1" else "0" in
      let line =
        String.concat " "
          ([ "sends"; string_of_int (List.length sends_out) ] @ sends_out @
           [ "peers"; string_of_int (List.length peers) ] @ peers @
           [ "closed"; b2s pclosed; "res"; show_result c s; "done"; b2s alldone; "panic"; b2s panic ]) in
      if !lkedmiss then "REJECT edtable-miss " ^ line else line)
