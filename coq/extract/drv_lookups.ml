(* drv_lookups.ml — runner handlers of the `query` and `lookups` engines (C14, C16, C12 client side, C20
   query policy).  All decisions are taken by extracted functions of RunLookups.v / Query.v / Lookups.v;
   this file only parses and prints.

   query engine, one line per case:
     qcase <idx> <tries> <rl> <budget|-> <blocked> <closed0> <fail> <script|-> => <n> <w/r/class>*n <pending> <leak>
       rl      z | nf | na | nfna | wr | nw          (QueryRateLimiting: zero, NotFirst, NotAny, both, WaitOnRetries, NoWaitFirst)
       script  comma separated point:action, point = pre | w<i> | g<i> | ret, action = reply | cancel | close | nop
       outcome datagrams / budget units consumed (- when the limiter is unlimited) / result class
     The model explores every interleaving the script allows; an observed outcome is accepted iff it is in
     the set; the model's transaction and process leak counts are always 0.

   lookups engine, one case = lkbegin, events in the order the harness performed them, lkend:
     lkedtable <n> <key:msg:sig:0|1>*n
     lkbegin <idx> <api> <sn> <target> <port:imp|-> <tgt|-> <salt|-> => ok
     lkissue <q> <ip:port>                                            => ok
     lkreply <q> <hasr> <id|-> <tok|-|none> <payload|-> <v|-> <k|-> <sig|-> <seq|->   => ok
     lknoreply <q> | lkctx | lkclose | lkstoptrav | lkconsumerstop     => ok
     lkend => sends <n> <dest|tok|ih|port|imp|seq>*n peers <m> <addr|id|payload>*m closed <b> res <r> done <b> panic <b>
*)
module BZ = Z   (* Zarith, before Model's extracted module Z shadows it *)
open Model
open Driver

let split_on c s = String.split_on_char c s

(* ---------------------------------------------------------------- query engine *)
let rl_of_tok = function
  | "z" -> { rl_not_first = false; rl_not_any = false; rl_wait_on_retries = false; rl_no_wait_first = false }
  | "nf" -> { rl_not_first = true; rl_not_any = false; rl_wait_on_retries = false; rl_no_wait_first = false }
  | "na" -> { rl_not_first = false; rl_not_any = true; rl_wait_on_retries = false; rl_no_wait_first = false }
  | "nfna" -> { rl_not_first = true; rl_not_any = true; rl_wait_on_retries = false; rl_no_wait_first = false }
  | "wr" -> { rl_not_first = false; rl_not_any = false; rl_wait_on_retries = true; rl_no_wait_first = false }
  | "nw" -> { rl_not_first = false; rl_not_any = false; rl_wait_on_retries = false; rl_no_wait_first = true }
  | s -> failwith ("rl " ^ s)

let point_of_tok s : qpoint =
  if s = "pre" then QPPre else if s = "ret" then QPRet
  else begin
    let i = int_of_string (String.sub s 1 (String.length s - 1)) in
    match s.[0] with 'w' -> QPWrite (nat_of_int i) | 'g' -> QPGate (nat_of_int i) | _ -> failwith ("point " ^ s) end
let action_of_tok = function
  | "reply" -> QAReply | "cancel" -> QACancel | "close" -> QAClose | "nop" -> QANop | s -> failwith ("action " ^ s)
let script_of_tok s : (qpoint * qaction) list =
  if s = "-" then [] else
    List.map (fun d -> match split_on ':' d with
        | [p; a] -> (point_of_tok p, action_of_tok a)
        | _ -> failwith ("directive " ^ d)) (split_on ',' s)

let class_names = [ (0, "reply"); (1, "ctx"); (2, "timeout"); (3, "err-closed"); (4, "err-blocked"); (5, "err-rate");
                    (6, "err-socket"); (7, "err-short"); (98, "fuel"); (99, "stuck") ]
let class_name c = try List.assoc c class_names with Not_found -> "?"
let class_code s = try fst (List.find (fun (_, n) -> n = s) class_names) with Not_found -> -1

let () =
  reg "qcase" (fun a o -> match a with
    | [_idx; tries; rl; budget; blocked; closed0; fail; script] ->
      let exact = budget <> "-" in
      let sc = { sc_tries = nat_of_int (int_of_string tries); sc_rl = rl_of_tok rl;
                 sc_budget = (if exact then Some (nat_of_int (int_of_string budget)) else None);
                 sc_blocked = bool_of_tok blocked; sc_closed0 = bool_of_tok closed0;
                 sc_fail = nat_of_int (int_of_string fail); sc_script = script_of_tok script } in
      let allowed = rq_outcomes sc in
      let show (((((w, r), k), reg), nd) : outcome) =
        Printf.sprintf "%d/%s/%s%s" (int_of_nat w) (if exact then string_of_int (int_of_nat r) else "-")
          (class_name (int_of_nat k)) (if reg || nd then "!leak" else "") in
      (match o with
       | n :: rest ->
         let n = int_of_string n in
         let outs = take n rest in
         let ok_one tok =
           match split_on '/' tok with
           | [w; r; k] ->
             let w = int_of_string w and k = class_code k in
             List.exists (fun (((((w', r'), k'), reg), nd) : outcome) ->
                 int_of_nat w' = w && int_of_nat k' = k && (not exact || string_of_int (int_of_nat r') = r)
                 && not reg && not nd) allowed
           | _ -> false in
         if n > 0 && List.for_all ok_one outs then
           String.concat " " (string_of_int n :: outs @ ["0"; "0"])
         else
           "REJECT allowed=" ^ String.concat "," (List.map show allowed)
       | _ -> "REJECT allowed=" ^ String.concat "," (List.map show allowed))
    | _ -> "?")

(* ---------------------------------------------------------------- lookups engine *)
let lkedtab : (string, bool) Hashtbl.t = Hashtbl.create 256
let lkedmiss = ref false
let lkedv (k : byte list) (m : byte list) (s : byte list) : bool =
  let key = hex_of_bytes k ^ ":" ^ hex_of_bytes m ^ ":" ^ hex_of_bytes s in
  match Hashtbl.find_opt lkedtab key with
  | Some b -> b
  | None -> lkedmiss := true; false

let zeros n = List.init n (fun _ -> byte_tab.(0))
let fixed_hex s n = if s = "-" then zeros n else bytes_of_hex s

(* (ip, port) <-> number: ip as a big-endian number * 65536 + port; the ip width is kept apart *)
let ipw : (string, int) Hashtbl.t = Hashtbl.create 64
let addr_of_tok s : n =
  match split_on ':' s with
  | [ip; port] ->
    let v = BZ.add (BZ.mul (big_of_n (n_of_hex ip)) (BZ.of_int 65536)) (BZ.of_string port) in
    Hashtbl.replace ipw (BZ.to_string v) (String.length ip / 2);
    n_of_big v
  | _ -> failwith ("addr " ^ s)
let tok_of_addr (a : n) : string =
  let v = big_of_n a in
  let w = try Hashtbl.find ipw (BZ.to_string v) with Not_found -> 4 in
  let ip = BZ.shift_right v 16 and port = BZ.logand v (BZ.of_int 65535) in
  Printf.sprintf "%s:%s" (hex_of_bytes (ofN (nat_of_int w) (n_of_big ip))) (BZ.to_string port)

let lkcfg : lcfg ref = ref { lc_api = ABootstrap; lc_variant = Repaired; lc_abandon_ctx = true; lc_sn = SNOk;
                             lc_budget = O; lc_target = N0; lc_ann = None; lc_tgt = []; lc_salt = [] }
let lkst : lstate option ref = ref None

let with_state (f : lstate -> lstate) : string =
  match !lkst with
  | None -> "REJECT no-case"
  | Some s ->
    lkedmiss := false;
    let s' = f s in
    lkst := Some s';
    if !lkedmiss then "REJECT edtable-miss" else "ok"

let show_send (r : sendrec) : string =
  Printf.sprintf "%s|%s|%s|%s|%s|%s" (tok_of_addr r.sr_dest) (hex_of_bytes r.sr_token) (hex20_of_n r.sr_ih)
    (dec_of_z r.sr_port) (tok_of_bool r.sr_implied) (dec_of_z r.sr_seq)
let show_peer ((((_, a), i), p) : ((nat * addr) * n) * byte list) : string =
  Printf.sprintf "%s|%s|%s" (tok_of_addr a) (hex20_of_n i) (hex_of_bytes p)

let show_result (c : lcfg) (s : lstate) : string =
  match c.lc_api, s.l_err with
  | _, Some ErrStart -> "start"
  | APut, Some ErrCtx -> "ctx:" ^ dec_of_z s.l_autoseq
  | _, Some ErrCtx -> "ctx"
  | _, Some ErrNotFound -> "notfound"
  | AGet, None ->
    (match s.l_cur with
     | Some g -> Printf.sprintf "val:%s:%s:%s" (if g.res_mutable then dec_of_z g.res_seq else "-") (hex_of_bytes g.res_v)
                   (tok_of_bool g.res_mutable)
     | None -> "val:none")
  | APut, None -> "ok:" ^ dec_of_z s.l_autoseq
  | _, None -> "ok"

let () =
  reg "lkedtable" (fun a _ -> match a with
    | _n :: entries ->
      List.iter (fun e -> match split_on ':' e with
          | [k; m; s; b] -> Hashtbl.replace lkedtab (k ^ ":" ^ m ^ ":" ^ s) (b <> "0")
          | _ -> ()) entries;
      "ok"
    | _ -> "?");
  reg "lkbegin" (fun a _ -> match a with
    | [_idx; api; sn; target; ann; tgt; salt] ->
      let api = (match api with "bootstrap" -> ABootstrap | "announce" -> AAnnounce | "get" -> AGet | "put" -> APut
                                | s -> failwith ("api " ^ s)) in
      let sn = (match sn with "ok" -> SNOk | "err" -> SNErr | "empty" -> SNEmpty | s -> failwith ("sn " ^ s)) in
      let ann = if ann = "-" then None else
          (match split_on ':' ann with [p; i] -> Some (z_of_dec p, bool_of_tok i) | _ -> failwith "ann") in
      (* the reference model: owners stop their traversal on every path (D8 repaired), a reply with the
         key but no seq is ignored (D2 repaired), a delivery is given up when the traversal is stopping
         (D10 repaired) *)
      let c = { lc_api = api; lc_variant = Repaired; lc_abandon_ctx = true; lc_sn = sn;
                lc_budget = nat_of_int 4000; lc_target = n_of_hex target; lc_ann = ann;
                lc_tgt = bytes_of_hex tgt; lc_salt = bytes_of_hex salt } in
      lkcfg := c; Hashtbl.reset ipw;
      lkedmiss := false;
      lkst := Some (rl_init lkedv c);
      "ok"
    | _ -> "?");
  reg "lkissue" (fun a _ -> match a with
    | [q; ad] ->
      (match !lkst with
       | Some s when int_of_nat s.l_nq <> int_of_string q -> "REJECT query-number model=" ^ string_of_int (int_of_nat s.l_nq)
       | _ -> with_state (fun s -> rl_event lkedv !lkcfg s (REvIssue (addr_of_tok ad))))
    | _ -> "?");
  reg "lkreply" (fun a _ -> match a with
    | [q; hasr; id; tok; payload; v; k; sg; seq] ->
      let item : reply = { r_v = bytes_of_hex v; r_k = fixed_hex k 32; r_sig = fixed_hex sg 64;
                           r_seq = (if seq = "-" then None else Some (z_of_dec seq)) } in
      let r : greply = { gr_has_r = bool_of_tok hasr; gr_id = (if id = "-" then N0 else n_of_hex id);
                         gr_token = (if tok = "none" then None else Some (bytes_of_hex tok));
                         gr_payload = bytes_of_hex payload; gr_item = item } in
      with_state (fun s -> rl_event lkedv !lkcfg s (REvReply (nat_of_int (int_of_string q), r)))
    | _ -> "?");
  reg "lknoreply" (fun a _ -> match a with
    | [q] -> with_state (fun s -> rl_event lkedv !lkcfg s (REvNoReply (nat_of_int (int_of_string q))))
    | _ -> "?");
  reg "lkctx" (fun _ _ -> with_state (fun s -> rl_event lkedv !lkcfg s REvCtx));
  reg "lkclose" (fun _ _ -> with_state (fun s -> rl_event lkedv !lkcfg s REvClose));
  reg "lkstoptrav" (fun _ _ -> with_state (fun s -> rl_event lkedv !lkcfg s REvStopTrav));
  reg "lkconsumerstop" (fun _ _ -> with_state (fun s -> rl_event lkedv !lkcfg s REvConsumerStop));
  reg "lkend" (fun _ o ->
    match !lkst with
    | None -> "REJECT no-case"
    | Some s0 ->
      lkedmiss := false;
      let s = rl_finish lkedv !lkcfg s0 in
      lkst := None;
      let c = !lkcfg in
      let sends = List.sort compare (List.map show_send s.l_sends) in
      let peers = List.sort compare (List.map show_peer s.l_delivered) in
      (* observed sends: after Close() / with a cancelled context the datagram of an issued announce_peer /
         put may or may not leave: any sub-multiset is allowed then, otherwise all of them *)
      let obs_sends =
        (match o with
         | "sends" :: n :: rest -> Some (take (int_of_string n) rest)
         | _ -> None) in
      let cancelled = s.l_aclosed || s.l_ctx in
      let rec sub_multiset xs ys = match xs with
        | [] -> true
        | x :: xr -> (match ys with
            | [] -> false
            | y :: yr -> if x = y then sub_multiset xr yr else if compare y x < 0 then sub_multiset xs yr else false) in
      let sends_out =
        (match obs_sends with
         | Some os when cancelled && sub_multiset (List.sort compare os) sends -> List.sort compare os
         | _ -> sends) in
      let b2s b = if b then "1" else "0" in
      let line =
        String.concat " "
          ([ "sends"; string_of_int (List.length sends_out) ] @ sends_out @
           [ "peers"; string_of_int (List.length peers) ] @ peers @
           [ "closed"; b2s s.l_peers_closed; "res"; show_result c s; "done"; b2s (rl_all_done s); "panic"; b2s s.l_panic ]) in
      if !lkedmiss then "REJECT edtable-miss " ^ line else line)
