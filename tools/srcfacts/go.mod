module srcfacts

go 1.23
