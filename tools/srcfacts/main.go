// srcfacts regenerates coq/gen/Params.v from /repo's current working tree.
//
// Every constant and table the properties name is located by a narrow go/ast pattern. A fact
// that can no longer be located is emitted with its `_ok` flag false (and value 0 / []), which
// makes the `pin_*` obligations of the Props files fail.
package main

import (
	"fmt"
	"go/ast"
	"go/parser"
	"go/token"
	"os"
	"path/filepath"
	"reflect"
	"sort"
	"strconv"
	"strings"
)

var fset = token.NewFileSet()

type pkgFiles map[string]*ast.File

func load(dir string) pkgFiles {
	out := pkgFiles{}
	ents, err := os.ReadDir(dir)
	if err != nil {
		return out
	}
	for _, e := range ents {
		n := e.Name()
		if e.IsDir() || !strings.HasSuffix(n, ".go") || strings.HasSuffix(n, "_test.go") || strings.HasPrefix(n, "verif_") {
			continue
		}
		f, err := parser.ParseFile(fset, filepath.Join(dir, n), nil, parser.ParseComments)
		if err != nil {
			continue
		}
		out[n] = f
	}
	return out
}

func recvName(fd *ast.FuncDecl) string {
	if fd.Recv == nil || len(fd.Recv.List) == 0 {
		return ""
	}
	t := fd.Recv.List[0].Type
	if s, ok := t.(*ast.StarExpr); ok {
		t = s.X
	}
	if ix, ok := t.(*ast.IndexExpr); ok {
		t = ix.X
	}
	if id, ok := t.(*ast.Ident); ok {
		return id.Name
	}
	return ""
}

func (p pkgFiles) fn(recv, name string) *ast.FuncDecl {
	for _, f := range p {
		for _, d := range f.Decls {
			if fd, ok := d.(*ast.FuncDecl); ok && fd.Name.Name == name && recvName(fd) == recv && fd.Body != nil {
				return fd
			}
		}
	}
	return nil
}

func intLit(e ast.Expr) (int64, bool) {
	switch v := e.(type) {
	case *ast.BasicLit:
		if v.Kind == token.INT {
			n, err := strconv.ParseInt(v.Value, 0, 64)
			return n, err == nil
		}
	case *ast.ParenExpr:
		return intLit(v.X)
	}
	return 0, false
}

// n * time.<Unit> -> (n, unit)
func durLit(e ast.Expr) (int64, string, bool) {
	be, ok := e.(*ast.BinaryExpr)
	if !ok || be.Op != token.MUL {
		return 0, "", false
	}
	n, ok := intLit(be.X)
	if !ok {
		return 0, "", false
	}
	se, ok := be.Y.(*ast.SelectorExpr)
	if !ok {
		return 0, "", false
	}
	if x, ok := se.X.(*ast.Ident); !ok || x.Name != "time" {
		return 0, "", false
	}
	return n, se.Sel.Name, true
}

func durNs(n int64, unit string) (int64, bool) {
	switch unit {
	case "Nanosecond":
		return n, true
	case "Microsecond":
		return n * 1e3, true
	case "Millisecond":
		return n * 1e6, true
	case "Second":
		return n * 1e9, true
	case "Minute":
		return n * 60e9, true
	case "Hour":
		return n * 3600e9, true
	}
	return 0, false
}

type out struct {
	lines []string
}

func (o *out) z(name string, v int64, ok bool) {
	if !ok {
		v = 0
	}
	o.lines = append(o.lines, fmt.Sprintf("Definition %s : Z := (%d)%%Z.", name, v))
	o.lines = append(o.lines, fmt.Sprintf("Definition %s_ok : bool := %v.", name, ok))
}

func (o *out) zlist(name string, vs []int64, ok bool) {
	var ss []string
	for _, v := range vs {
		ss = append(ss, fmt.Sprintf("(%d)%%Z", v))
	}
	o.lines = append(o.lines, fmt.Sprintf("Definition %s : list Z := [%s].", name, strings.Join(ss, "; ")))
	o.lines = append(o.lines, fmt.Sprintf("Definition %s_ok : bool := %v.", name, ok))
}

func (o *out) strlist(name string, vs []string, ok bool) {
	var ss []string
	for _, v := range vs {
		ss = append(ss, strconv.Quote(v))
	}
	o.lines = append(o.lines, fmt.Sprintf("Definition %s : list string := [%s].", name, strings.Join(ss, "; ")))
	o.lines = append(o.lines, fmt.Sprintf("Definition %s_ok : bool := %v.", name, ok))
}

func (o *out) b(name string, v bool, ok bool) {
	o.lines = append(o.lines, fmt.Sprintf("Definition %s : bool := %v.", name, v && ok))
	o.lines = append(o.lines, fmt.Sprintf("Definition %s_ok : bool := %v.", name, ok))
}

// key: value of a keyed composite literal whose type is the identifier typ (or pkg.typ)
func compositeField(root ast.Node, typ, key string) ast.Expr {
	var res ast.Expr
	if root == nil || reflect.ValueOf(root).IsNil() {
		return nil
	}
	ast.Inspect(root, func(n ast.Node) bool {
		cl, ok := n.(*ast.CompositeLit)
		if !ok {
			return true
		}
		tn := ""
		switch t := cl.Type.(type) {
		case *ast.Ident:
			tn = t.Name
		case *ast.SelectorExpr:
			tn = t.Sel.Name
		}
		if tn != typ {
			return true
		}
		for _, el := range cl.Elts {
			if kv, ok := el.(*ast.KeyValueExpr); ok {
				if k, ok := kv.Key.(*ast.Ident); ok && k.Name == key && res == nil {
					res = kv.Value
				}
			}
		}
		return true
	})
	return res
}

func exprStr(e ast.Expr) string {
	var sb strings.Builder
	var w func(ast.Expr)
	w = func(e ast.Expr) {
		switch v := e.(type) {
		case *ast.Ident:
			sb.WriteString(v.Name)
		case *ast.SelectorExpr:
			w(v.X)
			sb.WriteString(".")
			sb.WriteString(v.Sel.Name)
		case *ast.CallExpr:
			w(v.Fun)
			sb.WriteString("(")
			for i, a := range v.Args {
				if i > 0 {
					sb.WriteString(",")
				}
				w(a)
			}
			sb.WriteString(")")
		case *ast.StarExpr:
			sb.WriteString("*")
			w(v.X)
		case *ast.UnaryExpr:
			sb.WriteString(v.Op.String())
			w(v.X)
		case *ast.BasicLit:
			sb.WriteString(v.Value)
		case *ast.BinaryExpr:
			w(v.X)
			sb.WriteString(v.Op.String())
			w(v.Y)
		case *ast.ParenExpr:
			sb.WriteString("(")
			w(v.X)
			sb.WriteString(")")
		case *ast.IndexExpr:
			w(v.X)
			sb.WriteString("[")
			w(v.Index)
			sb.WriteString("]")
		default:
			sb.WriteString("?")
		}
	}
	w(e)
	return sb.String()
}

func containsCall(root ast.Node, name string) bool {
	found := false
	ast.Inspect(root, func(n ast.Node) bool {
		if ce, ok := n.(*ast.CallExpr); ok {
			s := exprStr(ce.Fun)
			if s == name || strings.HasSuffix(s, "."+name) {
				found = true
			}
		}
		return true
	})
	return found
}

func containsExpr(root ast.Node, s string) bool {
	found := false
	ast.Inspect(root, func(n ast.Node) bool {
		if e, ok := n.(ast.Expr); ok && exprStr(e) == s {
			found = true
		}
		return true
	})
	return found
}

func main() {
	repo := "/repo"
	dest := ""
	if len(os.Args) > 1 {
		repo = os.Args[1]
	}
	if len(os.Args) > 2 {
		dest = os.Args[2]
	}
	root := load(repo)
	krpc := load(filepath.Join(repo, "krpc"))
	b44 := load(filepath.Join(repo, "bep44"))
	trav := load(filepath.Join(repo, "traversal"))
	getput := load(filepath.Join(repo, "exts", "getput"))
	txn := load(filepath.Join(repo, "transactions"))
	_ = txn

	o := &out{}

	// ---- routing table ----
	newServer := root.fn("", "NewServer")
	{
		v, ok := int64(0), false
		if e := compositeField(newServer, "table", "k"); e != nil {
			v, ok = intLit(e)
		}
		o.z("table_k", v, ok)
	}
	{
		v, ok := int64(0), false
		if fd := root.fn("Server", "makeReturnNodes"); fd != nil {
			ast.Inspect(fd, func(n ast.Node) bool {
				if ce, ok2 := n.(*ast.CallExpr); ok2 && strings.HasSuffix(exprStr(ce.Fun), "closestGoodNodeInfos") && len(ce.Args) > 0 {
					v, ok = intLit(ce.Args[0])
				}
				return true
			})
		}
		o.z("reply_nodes_k", v, ok)
	}
	{
		var vs []int64
		ok := false
		if fd := root.fn("Server", "IsGood"); fd != nil {
			ok = true
			ast.Inspect(fd, func(n ast.Node) bool {
				if e, ok2 := n.(ast.Expr); ok2 {
					if k, u, ok3 := durLit(e); ok3 {
						ns, ok4 := durNs(k, u)
						if !ok4 {
							ok = false
						}
						vs = append(vs, ns)
					}
				}
				return true
			})
		}
		o.zlist("good_windows_ns", vs, ok && len(vs) > 0)
	}
	// ---- tokens ----
	{
		v, ok := int64(0), false
		if e := compositeField(newServer, "tokenServer", "maxIntervalDelta"); e != nil {
			v, ok = intLit(e)
		}
		o.z("token_max_delta", v, ok)
		v, ok = 0, false
		if e := compositeField(newServer, "tokenServer", "interval"); e != nil {
			if k, u, ok2 := durLit(e); ok2 {
				v, ok = durNs(k, u)
			}
		}
		o.z("token_interval_ns", v, ok)
	}
	// ---- BEP 44 limits: `len(bv) > N`, `len(i.Salt) > N` in Check ----
	{
		maxv, okv, maxs, oks := int64(0), false, int64(0), false
		if fd := b44.fn("", "Check"); fd != nil {
			ast.Inspect(fd, func(n ast.Node) bool {
				be, ok := n.(*ast.BinaryExpr)
				if !ok || be.Op != token.GTR {
					return true
				}
				l := exprStr(be.X)
				if v, ok2 := intLit(be.Y); ok2 {
					if l == "len(bv)" {
						maxv, okv = v, true
					}
					if l == "len(i.Salt)" {
						maxs, oks = v, true
					}
				}
				return true
			})
		}
		o.z("bep44_max_v", maxv, okv)
		o.z("bep44_max_salt", maxs, oks)
	}
	// ---- KRPC error codes ----
	{
		codes := map[string]int64{}
		for _, f := range krpc {
			for _, d := range f.Decls {
				gd, ok := d.(*ast.GenDecl)
				if !ok || gd.Tok != token.CONST {
					continue
				}
				for _, s := range gd.Specs {
					vs := s.(*ast.ValueSpec)
					for i, n := range vs.Names {
						if strings.HasPrefix(n.Name, "ErrorCode") && i < len(vs.Values) {
							if v, ok := intLit(vs.Values[i]); ok {
								codes[n.Name] = v
							}
						}
					}
				}
			}
		}
		for _, n := range []string{"GenericError", "ServerError", "ProtocolError", "MethodUnknown", "MessageValueFieldTooBig", "InvalidSignature", "SaltFieldTooBig", "CasHashMismatched", "SequenceNumberLessThanCurrent"} {
			v, ok := codes["ErrorCode"+n]
			o.z("err_"+n, v, ok)
		}
		// the error values of bep44
		b44codes := map[string]string{}
		for _, f := range b44 {
			ast.Inspect(f, func(n ast.Node) bool {
				vs, ok := n.(*ast.ValueSpec)
				if !ok {
					return true
				}
				for i, nm := range vs.Names {
					if i < len(vs.Values) {
						if e := compositeField(vs.Values[i], "Error", "Code"); e != nil {
							b44codes[nm.Name] = exprStr(e)
						}
					}
				}
				return true
			})
		}
		get := func(name string) (int64, bool) {
			s, ok := b44codes[name]
			if !ok {
				return 0, false
			}
			s = strings.TrimPrefix(s, "krpc.")
			v, ok := codes[s]
			return v, ok
		}
		for _, n := range []string{"ErrValueFieldTooBig", "ErrInvalidSignature", "ErrSaltFieldTooBig", "ErrCasHashMismatched", "ErrSequenceNumberLessThanCurrent"} {
			v, ok := get(n)
			o.z("bep44_"+n, v, ok)
		}
		// krpc.ErrorMethodUnknown / krpcErrMissingArguments
		unk, okUnk := int64(0), false
		for _, f := range krpc {
			ast.Inspect(f, func(n ast.Node) bool {
				vs, ok := n.(*ast.ValueSpec)
				if !ok {
					return true
				}
				for i, nm := range vs.Names {
					if nm.Name == "ErrorMethodUnknown" && i < len(vs.Values) {
						if e := compositeField(vs.Values[i], "Error", "Code"); e != nil {
							unk, okUnk = codes[exprStr(e)]
						}
					}
				}
				return true
			})
		}
		o.z("err_value_method_unknown", unk, okUnk)
		miss, okMiss := int64(0), false
		for _, f := range root {
			ast.Inspect(f, func(n ast.Node) bool {
				vs, ok := n.(*ast.ValueSpec)
				if !ok {
					return true
				}
				for i, nm := range vs.Names {
					if nm.Name == "krpcErrMissingArguments" && i < len(vs.Values) {
						if e := compositeField(vs.Values[i], "Error", "Code"); e != nil {
							miss, okMiss = codes[strings.TrimPrefix(exprStr(e), "krpc.")]
						}
					}
				}
				return true
			})
		}
		o.z("err_value_missing_arguments", miss, okMiss)
	}
	// ---- compact element sizes ----
	{
		for _, t := range []string{"CompactIPv4NodeAddrs", "CompactIPv6NodeAddrs", "CompactIPv4NodeInfo", "CompactIPv6NodeInfo", "CompactInfohashes"} {
			v, ok := int64(0), false
			if fd := krpc.fn(t, "ElemSize"); fd != nil {
				ast.Inspect(fd, func(n ast.Node) bool {
					if rs, ok2 := n.(*ast.ReturnStmt); ok2 && len(rs.Results) == 1 {
						v, ok = intLit(rs.Results[0])
					}
					return true
				})
			}
			o.z("elem_"+t, v, ok)
		}
	}
	// ---- BEP 42 masks ----
	{
		var lists [][]int64
		if fd := root.fn("", "maskForIP"); fd != nil {
			ast.Inspect(fd, func(n ast.Node) bool {
				if cl, ok := n.(*ast.CompositeLit); ok {
					var l []int64
					for _, e := range cl.Elts {
						if v, ok := intLit(e); ok {
							l = append(l, v)
						}
					}
					if len(l) == len(cl.Elts) && len(l) > 0 {
						lists = append(lists, l)
					}
				}
				return true
			})
		}
		ok := len(lists) == 2
		var m4, m6 []int64
		if ok {
			m4, m6 = lists[0], lists[1]
		}
		o.zlist("mask4", m4, ok)
		o.zlist("mask6", m6, ok)
	}
	// ---- traversal defaults ----
	{
		alpha, okA, k, okK := int64(0), false, int64(0), false
		if fd := trav.fn("", "Start"); fd != nil {
			ast.Inspect(fd, func(n ast.Node) bool {
				as, ok := n.(*ast.AssignStmt)
				if !ok || len(as.Lhs) != 1 || len(as.Rhs) != 1 {
					return true
				}
				l := exprStr(as.Lhs[0])
				if v, ok2 := intLit(as.Rhs[0]); ok2 {
					if strings.HasSuffix(l, ".Alpha") {
						alpha, okA = v, true
					}
					if strings.HasSuffix(l, ".K") {
						k, okK = v, true
					}
				}
				return true
			})
		}
		o.z("traversal_default_alpha", alpha, okA)
		o.z("traversal_default_k", k, okK)
		v, ok := int64(0), false
		if fd := root.fn("Server", "BootstrapContext"); fd != nil {
			if e := compositeField(fd, "OperationInput", "K"); e != nil {
				v, ok = intLit(e)
			}
		}
		o.z("bootstrap_k", v, ok)
		v, ok = 0, false
		if fd := getput.fn("", "startGetTraversal"); fd != nil {
			if e := compositeField(fd, "OperationInput", "Alpha"); e != nil {
				v, ok = intLit(e)
			}
		}
		o.z("getput_alpha", v, ok)
	}
	// ---- queries ----
	{
		v, ok := int64(0), false
		for _, f := range root {
			ast.Inspect(f, func(n ast.Node) bool {
				vs, ok2 := n.(*ast.ValueSpec)
				if !ok2 {
					return true
				}
				for i, nm := range vs.Names {
					if nm.Name == "defaultMaxQuerySends" && i < len(vs.Values) {
						v, ok = intLit(vs.Values[i])
					}
				}
				return true
			})
		}
		o.z("default_max_sends", v, ok)
		v, ok = 0, false
		if fd := root.fn("Server", "questionableNodePing"); fd != nil {
			if e := compositeField(fd, "QueryInput", "NumTries"); e != nil {
				v, ok = intLit(e)
			}
		}
		o.z("questionable_ping_tries", v, ok)
		v, ok = 0, false
		if fd := root.fn("", "defaultQueryResendDelay"); fd != nil {
			ast.Inspect(fd, func(n ast.Node) bool {
				if e, ok2 := n.(ast.Expr); ok2 {
					if k, u, ok3 := durLit(e); ok3 {
						v, ok = durNs(k, u)
					}
				}
				return true
			})
		}
		o.z("default_resend_delay_ns", v, ok)
	}
	// ---- limiter default, udp buffer ----
	{
		r, b, ok := int64(0), int64(0), false
		for _, f := range root {
			ast.Inspect(f, func(n ast.Node) bool {
				vs, ok2 := n.(*ast.ValueSpec)
				if !ok2 {
					return true
				}
				for i, nm := range vs.Names {
					if nm.Name == "DefaultSendLimiter" && i < len(vs.Values) {
						if ce, ok3 := vs.Values[i].(*ast.CallExpr); ok3 && len(ce.Args) == 2 {
							r1, ok4 := intLit(ce.Args[0])
							b1, ok5 := intLit(ce.Args[1])
							r, b, ok = r1, b1, ok4 && ok5
						}
					}
				}
				return true
			})
		}
		o.z("default_limiter_rate", r, ok)
		o.z("default_limiter_burst", b, ok)
		v, ok2 := int64(0), false
		if fd := root.fn("Server", "serve"); fd != nil {
			ast.Inspect(fd, func(n ast.Node) bool {
				if at, ok3 := n.(*ast.ArrayType); ok3 && at.Len != nil {
					v, ok2 = intLit(at.Len)
				}
				return true
			})
		}
		o.z("udp_buf", v, ok2)
	}
	// ---- query dispatch ----
	{
		var methods []string
		feat := map[string]map[string]bool{}
		ok := false
		if fd := root.fn("Server", "handleQuery"); fd != nil {
			ast.Inspect(fd, func(n ast.Node) bool {
				sw, ok2 := n.(*ast.SwitchStmt)
				if !ok2 || sw.Tag == nil || exprStr(sw.Tag) != "m.Q" {
					return true
				}
				ok = true
				for _, st := range sw.Body.List {
					cc := st.(*ast.CaseClause)
					for _, e := range cc.List {
						if bl, ok3 := e.(*ast.BasicLit); ok3 && bl.Kind == token.STRING {
							name, _ := strconv.Unquote(bl.Value)
							methods = append(methods, name)
							body := &ast.BlockStmt{List: cc.Body}
							feat[name] = map[string]bool{
								"token":   containsCall(body, "validToken"),
								"nilargs": containsExpr(body, "m.A==nil") || containsExpr(body, "args==nil") || containsCall(body, "setReturnNodes"),
								"nodes":   containsCall(body, "setReturnNodes"),
								"mktoken": containsCall(body, "createToken"),
							}
						}
					}
				}
				return false
			})
		}
		sort.Strings(methods)
		o.strlist("dispatch_methods", methods, ok)
		for _, f := range []string{"token", "nilargs", "nodes", "mktoken"} {
			var l []string
			for _, m := range methods {
				if feat[m][f] {
					l = append(l, m)
				}
			}
			o.strlist("methods_with_"+f, l, ok)
		}
	}

	// ---- structural facts: single outbound write routine, blocklist consulted on every path ----
	{
		callers := func(match func(string) bool) []string {
			set := map[string]bool{}
			for _, f := range root {
				for _, d := range f.Decls {
					fd, ok := d.(*ast.FuncDecl)
					if !ok || fd.Body == nil {
						continue
					}
					ast.Inspect(fd.Body, func(n ast.Node) bool {
						if ce, ok := n.(*ast.CallExpr); ok && match(exprStr(ce.Fun)) {
							set[fd.Name.Name] = true
						}
						return true
					})
				}
			}
			var l []string
			for k := range set {
				l = append(l, k)
			}
			sort.Strings(l)
			return l
		}
		o.strlist("socket_writeto_callers", callers(func(s string) bool { return strings.HasSuffix(s, "socket.WriteTo") || strings.HasSuffix(s, "Conn.WriteTo") }), true)
		o.strlist("write_to_node_callers", callers(func(s string) bool { return strings.HasSuffix(s, ".writeToNode") }), true)
		o.strlist("blocklist_lookup_callers", callers(func(s string) bool { return strings.HasSuffix(s, ".ipBlocked") || strings.HasSuffix(s, "ipBlockList.Lookup") || s == "list.Lookup" }), true)
		o.strlist("valid_token_callers", callers(func(s string) bool { return strings.HasSuffix(s, ".validToken") }), true)
		o.strlist("limiter_callers", callers(func(s string) bool { return strings.Contains(s, "SendLimiter.") }), true)
	}

	hdr := "(* GENERATED by /verif/tools/srcfacts from /repo's working tree. DO NOT EDIT. *)\nFrom Coq Require Import ZArith List String.\nImport ListNotations.\nOpen Scope string_scope.\n\n"
	content := hdr + strings.Join(o.lines, "\n") + "\n"
	if dest == "" {
		fmt.Print(content)
		return
	}
	old, _ := os.ReadFile(dest)
	if string(old) != content {
		if err := os.WriteFile(dest, []byte(content), 0o644); err != nil {
			fmt.Fprintln(os.Stderr, err)
			os.Exit(2)
		}
	}
}
