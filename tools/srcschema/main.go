// srcschema regenerates coq/gen/KrpcSchema.v from /repo/krpc's current working tree.
//
// For the structs Msg, MsgArgs and Return (embedded Bep51Return / Bep44Return flattened in
// declaration order) it emits the ordered list of
//
//	(Go field name, bencode key, omitempty flag, kind)
//
// with kind drawn from a closed language derived from the Go field type.  A type the translator
// does not know becomes `KUnknown "<type text>"`, a struct that cannot be found yields an empty
// table with its `_ok` flag false; either breaks the pins of Props/C15.v and the schema
// interpreter of model/Krpc.v.
//
// usage: srcschema <repo-root> <out.v>
package main

import (
	"bytes"
	"fmt"
	"go/ast"
	"go/parser"
	"go/token"
	"os"
	"path/filepath"
	"reflect"
	"strconv"
	"strings"
)

type field struct {
	name, key string
	omit      bool
	kind      string
}

var (
	fset  = token.NewFileSet()
	types = map[string]ast.Expr{} // named types of package krpc
)

func load(dir string) error {
	ents, err := os.ReadDir(dir)
	if err != nil {
		return err
	}
	for _, e := range ents {
		n := e.Name()
		if e.IsDir() || !strings.HasSuffix(n, ".go") || strings.HasSuffix(n, "_test.go") || strings.HasPrefix(n, "verif_") {
			continue
		}
		f, err := parser.ParseFile(fset, filepath.Join(dir, n), nil, 0)
		if err != nil {
			return err
		}
		for _, d := range f.Decls {
			gd, ok := d.(*ast.GenDecl)
			if !ok || gd.Tok != token.TYPE {
				continue
			}
			for _, s := range gd.Specs {
				ts := s.(*ast.TypeSpec)
				types[ts.Name.Name] = ts.Type
			}
		}
	}
	return nil
}

func exprText(e ast.Expr) string {
	switch v := e.(type) {
	case *ast.Ident:
		return v.Name
	case *ast.StarExpr:
		return "*" + exprText(v.X)
	case *ast.SelectorExpr:
		return exprText(v.X) + "." + v.Sel.Name
	case *ast.ArrayType:
		if v.Len == nil {
			return "[]" + exprText(v.Elt)
		}
		return "[" + exprText(v.Len) + "]" + exprText(v.Elt)
	case *ast.BasicLit:
		return v.Value
	case *ast.InterfaceType:
		if v.Methods == nil || len(v.Methods.List) == 0 {
			return "interface{}"
		}
		return "interface{...}"
	case *ast.MapType:
		return "map[" + exprText(v.Key) + "]" + exprText(v.Value)
	}
	return fmt.Sprintf("%T", e)
}

// byte array length of a type expression ([n]byte, or a named type defined as one), -1 otherwise
func byteArrayLen(e ast.Expr, depth int) int {
	if depth > 4 {
		return -1
	}
	switch v := e.(type) {
	case *ast.ArrayType:
		if v.Len == nil {
			return -1
		}
		if id, ok := v.Elt.(*ast.Ident); !ok || (id.Name != "byte" && id.Name != "uint8") {
			return -1
		}
		if bl, ok := v.Len.(*ast.BasicLit); ok && bl.Kind == token.INT {
			n, err := strconv.ParseInt(bl.Value, 0, 32)
			if err == nil {
				return int(n)
			}
		}
	case *ast.Ident:
		if t, ok := types[v.Name]; ok {
			return byteArrayLen(t, depth+1)
		}
	}
	return -1
}

func isCompact(name string) bool {
	switch name {
	case "CompactIPv4NodeAddrs", "CompactIPv6NodeAddrs", "CompactIPv4NodeInfo", "CompactIPv6NodeInfo", "CompactInfohashes":
		_, ok := types[name]
		return ok
	}
	return false
}

// a Go string as a Coq `list byte` literal (constructors x00..xff), with the text in a comment
func q(s string) string {
	var parts []string
	for i := 0; i < len(s); i++ {
		parts = append(parts, fmt.Sprintf("x%02x", s[i]))
	}
	c := strings.NewReplacer("*)", "* )", "(*", "( *", "\"", "'").Replace(s)
	return "[" + strings.Join(parts, ";") + "] (* " + c + " *)"
}

func kindOf(e ast.Expr) string {
	txt := exprText(e)
	switch txt {
	case "string":
		return "KStr"
	case "[]byte", "[]uint8":
		return "KBytes"
	case "int", "int64":
		return "KInt"
	case "bool":
		return "KBool"
	case "*int", "*int64":
		return "KPtrInt"
	case "*string":
		return "KPtrStr"
	case "ID":
		if byteArrayLen(e, 0) == 20 {
			return "KId"
		}
	case "NodeAddr":
		return "KNodeAddr"
	case "[]NodeAddr":
		return "KAddrList"
	case "[]Want":
		if t, ok := types["Want"]; ok && exprText(t) == "string" {
			return "KWants"
		}
	case "*Error":
		return "KPtrErr"
	case "bencode.Bytes":
		return "KRaw"
	case "interface{}", "any":
		return "KAny"
	case "*MsgArgs", "*Return":
		return "KPtrStruct (" + q(txt[1:]) + ")"
	}
	if isCompact(txt) {
		return "KCompact (" + q(txt) + ")"
	}
	if strings.HasPrefix(txt, "*") && isCompact(txt[1:]) {
		return "KPtrCompact (" + q(txt[1:]) + ")"
	}
	if st, ok := e.(*ast.StarExpr); ok {
		if n := byteArrayLen(st.X, 0); n >= 0 {
			return fmt.Sprintf("KPtrArr %d", n)
		}
	} else if n := byteArrayLen(e, 0); n >= 0 {
		return fmt.Sprintf("KArr %d", n)
	}
	return "KUnknown (" + q(txt) + ")"
}

func structFields(name string, depth int) ([]field, bool) {
	t, ok := types[name]
	if !ok || depth > 3 {
		return nil, false
	}
	st, ok := t.(*ast.StructType)
	if !ok {
		return nil, false
	}
	var out []field
	good := true
	for _, f := range st.Fields.List {
		if len(f.Names) == 0 { // embedded
			en := exprText(f.Type)
			en = strings.TrimPrefix(en, "*")
			sub, ok := structFields(en, depth+1)
			if !ok {
				good = false
				out = append(out, field{name: en, key: en, kind: "KUnknown (" + q("embedded "+exprText(f.Type)) + ")"})
				continue
			}
			out = append(out, sub...)
			continue
		}
		tag := ""
		if f.Tag != nil {
			if s, err := strconv.Unquote(f.Tag.Value); err == nil {
				tag = reflect.StructTag(s).Get("bencode")
			}
		}
		if tag == "-" {
			continue
		}
		parts := strings.Split(tag, ",")
		for _, n := range f.Names {
			if !n.IsExported() {
				continue
			}
			fd := field{name: n.Name, key: parts[0], kind: kindOf(f.Type)}
			if fd.key == "" {
				fd.key = n.Name
			}
			for _, o := range parts[1:] {
				switch o {
				case "omitempty":
					fd.omit = true
				case "":
				default:
					// an option the model does not know (e.g. ignore_unmarshal_type_error) changes decoding
					fd.kind = "KUnknown (" + q("tag option "+o) + ")"
				}
			}
			out = append(out, fd)
		}
	}
	return out, good
}

func main() {
	if len(os.Args) != 3 {
		fmt.Fprintln(os.Stderr, "usage: srcschema <repo-root> <out.v>")
		os.Exit(2)
	}
	var b bytes.Buffer
	b.WriteString("(* GENERATED by /verif/tools/srcschema from /repo/krpc's working tree. DO NOT EDIT. *)\n")
	b.WriteString("From Coq Require Import List.\nFrom Coq.Strings Require Import Byte.\nImport ListNotations.\n\n")
	b.WriteString(`(* closed language of field kinds (Go field type -> kind):
   string KStr; []byte KBytes; int/int64 KInt; bool KBool; *int/*int64 KPtrInt; *string KPtrStr;
   krpc.ID KId; [n]byte KArr n; *[n]byte (also through a named type) KPtrArr n; NodeAddr KNodeAddr;
   Compact* KCompact; *Compact* KPtrCompact; []NodeAddr KAddrList; []Want KWants; *Error KPtrErr;
   bencode.Bytes KRaw; interface{} KAny; *MsgArgs / *Return KPtrStruct; anything else KUnknown. *)
Inductive kind :=
| KStr | KBytes | KInt | KBool | KPtrInt | KPtrStr | KId
| KArr (n : nat) | KPtrArr (n : nat) | KNodeAddr
| KCompact (c : list byte) | KPtrCompact (c : list byte)
| KAddrList | KWants | KPtrErr | KRaw | KAny
| KPtrStruct (s : list byte)
| KUnknown (s : list byte).

Record field := mkField { f_name : list byte; f_key : list byte; f_omit : bool; f_kind : kind }.

`)
	err := load(filepath.Join(os.Args[1], "krpc"))
	emit := func(coqName, goName string) {
		var fs []field
		ok := false
		if err == nil {
			fs, ok = structFields(goName, 0)
		}
		fmt.Fprintf(&b, "(* struct %s *)\nDefinition %s : list field := [", goName, coqName)
		for i, f := range fs {
			if i > 0 {
				b.WriteString(";")
			}
			fmt.Fprintf(&b, "\n  mkField (%s) (%s) %v (%s)", q(f.name), q(f.key), f.omit, f.kind)
		}
		fmt.Fprintf(&b, "].\nDefinition %s_ok : bool := %v.\n\n", coqName, ok && len(fs) > 0)
	}
	emit("msg_schema", "Msg")
	emit("args_schema", "MsgArgs")
	emit("return_schema", "Return")
	old, _ := os.ReadFile(os.Args[2])
	if bytes.Equal(old, b.Bytes()) {
		return
	}
	if err := os.WriteFile(os.Args[2], b.Bytes(), 0o644); err != nil {
		fmt.Fprintln(os.Stderr, err)
		os.Exit(2)
	}
}
