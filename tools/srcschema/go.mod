module srcschema

go 1.23
