module verifharness

go 1.23

require (
	github.com/anacrolix/dht/v2 v2.19.2-0.20221121215055-066ad8494444
	github.com/anacrolix/generics v0.0.0-20230816105729-c755655aee45
	github.com/anacrolix/log v0.15.2
	github.com/anacrolix/torrent v1.48.1-0.20230103142631-c20f73d53e9f
	golang.org/x/time v0.0.0-20220609170525-579cf78fd858
)

require (
	github.com/anacrolix/chansync v0.3.0 // indirect
	github.com/anacrolix/missinggo v1.3.0 // indirect
	github.com/anacrolix/missinggo/perf v1.0.0 // indirect
	github.com/anacrolix/missinggo/v2 v2.7.1 // indirect
	github.com/anacrolix/multiless v0.3.1-0.20221221005021-2d12701f83f7 // indirect
	github.com/anacrolix/sync v0.4.0 // indirect
	github.com/benbjohnson/immutable v0.4.1-0.20221220213129-8932b999621d // indirect
	github.com/bradfitz/iter v0.0.0-20191230175014-e8f45d346db8 // indirect
	github.com/edsrzf/mmap-go v1.1.0 // indirect
	github.com/huandu/xstrings v1.3.2 // indirect
	github.com/rs/dnscache v0.0.0-20211102005908-e0241e321417 // indirect
	golang.org/x/exp v0.0.0-20221217163422-3c43f8badb15 // indirect
	golang.org/x/sync v0.0.0-20220722155255-886fb9371eb4 // indirect
	golang.org/x/sys v0.6.0 // indirect
)

replace github.com/anacrolix/dht/v2 => /repo
