package main

// Server-engine scenario "bep44": BEP 44 put / get over the wire with real ed25519 keys
// (C12 wire side, C13 through the server, C10 for put).

import (
	"crypto/ed25519"
	"crypto/sha1"
	"fmt"
	"strings"
	"time"

	"github.com/anacrolix/torrent/bencode"

	"github.com/anacrolix/dht/v2/bep44"
	"github.com/anacrolix/dht/v2/krpc"
)

// reference construction of the signed buffer (independent of bep44.bufferToSign)
func refBuffer(salt, bv []byte, seq int64) []byte {
	var b []byte
	if len(salt) > 0 {
		b = append(b, []byte(fmt.Sprintf("4:salt%d:", len(salt)))...)
		b = append(b, salt...)
	}
	b = append(b, []byte(fmt.Sprintf("3:seqi%de1:v", seq))...)
	return append(b, bv...)
}

func edLine(k [32]byte, salt, bv []byte, seq int64, sig [64]byte) string {
	buf := refBuffer(salt, bv, seq)
	ok := ed25519.Verify(k[:], buf, sig[:])
	return fmt.Sprintf("%s:%s:%s:%d", hx(k[:]), hx(buf), hx(sig[:]), b2i(ok))
}

func detKey(r *rng) ed25519.PrivateKey {
	return ed25519.NewKeyFromSeed(r.bytes(32))
}

func valueOfSize(r *rng, n int) interface{} {
	// a bencoded string "<len>:<bytes>" of total encoded size n (n >= 3)
	l := n - 2
	for len(fmt.Sprintf("%d:", l))+l > n {
		l--
	}
	return string(r.bytes(l))
}

func someValue(r *rng) interface{} {
	switch r.intn(6) {
	case 0:
		return int64(r.intn(1000)) - 500
	case 1:
		return string(r.bytes(r.intn(30)))
	case 2:
		return []interface{}{int64(1), "two", []interface{}{int64(3)}}
	case 3:
		return map[string]interface{}{"a": int64(1), "b": "x", "c": []interface{}{}}
	case 4:
		return valueOfSize(r, []int{998, 999, 1000, 1001, 1002, 1003}[r.intn(6)])
	default:
		return "hello"
	}
}

func genBep44(r *rng, idx int) srvCase {
	c := srvCase{idx: idx, cfg: baseCfg(r, "bep44")}
	c.cfg.storeFail = r.intn(3) == 0
	root := c.cfg.root
	src := randAddr(r, famOf(r))
	id := idInBucket(r, root, r.intn(160))
	priv := detKey(r)
	var pub [32]byte
	copy(pub[:], priv.Public().(ed25519.PublicKey))
	priv2 := detKey(r)
	salts := [][]byte{nil, []byte("s"), r.bytes(63), r.bytes(64), r.bytes(65), r.bytes(200)}
	salt := salts[r.intn(3)]
	curVal := someValue(r)
	seqs := []int64{1, 2, 2, 3, 1, 5, 4, -1, 0, 9223372036854775807, -9223372036854775808}
	if c.cfg.storeFail {
		// the underlying store rejects seq = 3 mod 7: make sure well-formed puts reach it
		seqs = []int64{3, 4, 10, 10, 11, 17, 24, 1, 31, 38}
	}
	// a token for src: via get
	tgt := sha1.Sum(append(pub[:], salt...))
	getTok := func() sev {
		return qpkt(src, "get", "gt", &krpc.MsgArgs{ID: id, Target: tgt})
	}
	c.evs = append(c.evs, getTok())
	for step := 0; step < 14; step++ {
		switch r.intn(10) {
		case 0:
			c.evs = append(c.evs, sev{kind: "adv", adv: []time.Duration{time.Minute, 9 * time.Minute, 61 * time.Minute, 121 * time.Minute}[r.intn(4)]})
			c.evs = append(c.evs, getTok())
		case 1, 2:
			// get with / without seq, for the mutable and for some immutable target
			a := &krpc.MsgArgs{ID: id, Target: tgt}
			if r.bool() {
				q := seqs[r.intn(6)]
				a.Seq = &q
			}
			c.evs = append(c.evs, qpkt(randAddr(r, famOf(r)), "get", "g", a))
		default:
			mut := r.intn(5) != 0
			v := curVal
			if r.intn(3) == 0 {
				v = someValue(r)
				curVal = v
			}
			seq := seqs[r.intn(len(seqs))]
			var cas int64
			if r.intn(3) == 0 {
				cas = seqs[r.intn(6)]
			}
			slt := salt
			if r.intn(6) == 0 {
				slt = salts[r.intn(len(salts))]
			}
			bv := bencode.MustMarshal(v)
			a := krpc.MsgArgs{ID: id, V: v, Seq: &seq, Cas: cas}
			var ed string
			if mut {
				a.K = pub
				a.Salt = slt
				signer := priv
				sseq, ssalt, sbv := seq, slt, bv
				variant := r.intn(8)
				if c.cfg.storeFail && r.intn(3) != 0 {
					variant = 7
				}
				switch variant {
				case 0:
					signer = priv2 // valid for another key
				case 1:
					sseq = seq + 1 // valid for another seq
				case 2:
					ssalt = append([]byte("x"), slt...) // another salt
				case 3:
					sbv = append([]byte(nil), bv...)
					sbv[len(sbv)-1] ^= 1 // another value
				}
				sig := bep44.Sign(signer, ssalt, sseq, sbv)
				copy(a.Sig[:], sig)
				if r.intn(10) == 0 {
					a.Sig[r.intn(64)] ^= 1 << uint(r.intn(8)) // bit flip
				}
				ed = edLine(a.K, a.Salt, bv, seq, a.Sig)
			}
			if r.intn(12) == 0 {
				a.Seq = nil
			}
			kind := r.intn(10)
			e := sev{kind: "pkt", src: src}
			args := a
			e.dyn = func(st *srvState, e *sev) {
				x := args
				x.Token = st.lastTok[ipKey(src.IP)]
				if kind == 0 {
					x.Token = "bad" + x.Token
				}
				e.msg = &krpc.Msg{Q: "put", Y: "q", T: "pu", A: &x}
			}
			if ed != "" {
				e.pre = "sedtable " + ed + " => ok"
			}
			c.evs = append(c.evs, e)
			// read it back
			if r.bool() {
				t := tgt
				if !mut {
					t = sha1.Sum(bv)
				} else if string(slt) != string(salt) {
					t = sha1.Sum(append(pub[:], slt...))
				}
				c.evs = append(c.evs, qpkt(randAddr(r, famOf(r)), "get", "rb", &krpc.MsgArgs{ID: id, Target: t}))
			}
		}
	}
	return c
}

var _ = strings.Join
