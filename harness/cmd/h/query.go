package main

// Engine "query" (C14 query half, C20 query policy, C07/C01 schedules around an abandoned query):
// the real Server.Query on a fake PacketConn, driven through an enumerated grid of fault placements.
//
// Determinism by construction.  The code under test is HELD at the points where the script acts:
//   pre    before Server.Query is called
//   w<i>   inside the i-th successful socket.WriteTo (the sender goroutine is held in the conn wrapper)
//   g<i>   inside the i-th call of ServerConfig.QueryResendDelay (the sender goroutine, after send i returned)
//   ret    after Server.Query returned
// (actions: reply, cancel, close = Server.Close, block = Server.SetIPBlockList covering the destination, nop,
// stray = a datagram that is not the query's reply: near-miss source address or transaction id, see query_more.go,
// which also holds the families "several copies of the reply", "destination address forms" and "id wrap-around")
// and the injected resend-delay function returns 1 ms as long as no reply / cancel action was performed
// and one hour afterwards, so no timer fires that the script did not let fire.  The few scripts that are
// racy in the code itself (cancel before the first send) have a set of allowed outcomes in the model.
//
// One line per case:
//   qcase <idx> <tries> <rl> <budget|-> <blocked> <closed0> <fail> <script|-> => <n> <writes/rated/class>*n <pending> <leak>
// (distinct outcomes over the repetitions, max Stats().OutstandingTransactions seen after a return,
// goroutines above the baseline once all servers of the case are closed).

import (
	"bytes"
	"context"
	"errors"
	"fmt"
	"net"
	"os"
	"os/exec"
	"regexp"
	"runtime"
	"sort"
	"strconv"
	"strings"
	"sync"
	"sync/atomic"
	"time"

	"github.com/anacrolix/log"
	"github.com/anacrolix/torrent/bencode"
	"golang.org/x/time/rate"

	dht "github.com/anacrolix/dht/v2"
	"github.com/anacrolix/dht/v2/krpc"
)

func init() { engines["query"] = queryEngine }

// holdConn lets a callback run (and block) inside WriteTo before the datagram is handed on.
type holdConn struct {
	*fakeConn
	before func(b []byte, addr *net.UDPAddr)
}

func (c *holdConn) WriteTo(b []byte, addr net.Addr) (int, error) {
	c.fakeConn.mu.Lock()
	willFail := c.fakeConn.failNth[c.fakeConn.nwrites+1]
	c.fakeConn.mu.Unlock()
	if c.before != nil && !willFail {
		ua, _ := addr.(*net.UDPAddr)
		c.before(append([]byte(nil), b...), ua)
	}
	return c.fakeConn.WriteTo(b, addr)
}

type qDir struct {
	point  string // pre w g ret
	i      int
	action string // reply cancel close nop probe stray
	k      int    // stray: index into qStrays(dest) (query_more.go)
}

func (d qDir) String() string {
	a := d.action
	if a == "probe" || a == "blockother" {
		a = "nop" // the probe is an oracle of the harness, not an event of the model; nor is a list not covering the destination
	}
	switch d.point {
	case "pre", "ret":
		return d.point + ":" + a
	}
	return fmt.Sprintf("%s%d:%s", d.point, d.i, a)
}

type qScn struct {
	tries   int
	rl      string
	budget  int // -1 unlimited
	blocked bool
	closed0 bool
	fail    int
	script  []qDir
	reps    int
	followB int // number of follow-up queries to another, silent address on the same server
	tag     string
	// query_more.go: destination address form ("" = the 16-byte 10.1.2.3 of the original grid), the form the genuine
	// reply comes from ("" = the destination as given; "alt" = the other spelling of the same IPv4 address), and the
	// kind of a case that is not a single scripted query ("wrap")
	dest, replyForm, special string
	wrapN                    int
	// blocklist configured at NewServer: "" = none (or, with blocked, the single range of the destination), "empty" = a
	// list without ranges, "other" = ranges around but not covering the destination, "multi" (with blocked) = the
	// destination's range among others.  Not part of the model line: a list that does not cover the destination is no list.
	blcfg string
	ov    *qOverlap // special "overlap" (query_more.go)
}

func (sc *qScn) lhs(idx int) string {
	b := "-"
	if sc.budget >= 0 {
		b = fmt.Sprint(sc.budget)
	}
	var ds []string
	for _, d := range sc.script {
		ds = append(ds, d.String())
	}
	scr := "-"
	if len(ds) > 0 {
		scr = strings.Join(ds, ",")
	}
	return fmt.Sprintf("qcase %d %d %s %s %d %d %d %s", idx, sc.tries, sc.rl, b, b2i(sc.blocked), b2i(sc.closed0), sc.fail, scr)
}

func rlOf(s string) dht.QueryRateLimiting {
	switch s {
	case "nf":
		return dht.QueryRateLimiting{NotFirst: true}
	case "na":
		return dht.QueryRateLimiting{NotAny: true}
	case "nfna":
		return dht.QueryRateLimiting{NotFirst: true, NotAny: true}
	case "wr":
		return dht.QueryRateLimiting{WaitOnRetries: true}
	case "nw":
		return dht.QueryRateLimiting{NoWaitFirst: true}
	}
	return dht.QueryRateLimiting{}
}

func classOf(res dht.QueryResult) string {
	err := res.Err
	switch {
	case err == nil:
		return "reply"
	case errors.Is(err, context.Canceled), errors.Is(err, context.DeadlineExceeded):
		return "ctx"
	case errors.Is(err, dht.TransactionTimeout):
		return "timeout"
	}
	m := err.Error()
	switch {
	case strings.Contains(m, "server is closed"):
		return "err-closed"
	case strings.Contains(m, "blocked by"):
		return "err-blocked"
	case strings.Contains(m, "rate limit"), strings.Contains(m, "rate-limit"), strings.Contains(m, "rate:"):
		return "err-rate"
	case strings.Contains(m, "short write"):
		return "err-short"
	case strings.Contains(m, "error writing"):
		return "err-socket"
	}
	return "err-other"
}

type qRun struct {
	sc         *qScn
	idx, rep   int
	conn       *holdConn
	s          *dht.Server
	lim        *rate.Limiter
	dest       *net.UDPAddr
	cancel     context.CancelFunc
	mu         sync.Mutex
	script     []qDir
	term       bool
	closed     bool
	tid        string
	okWrites   int   // successful writes of the query so far
	gates      int64 // calls of the resend-delay function
	afterClose int
	blocked    bool
	blockedAt  int
	afterBlock int
	wedged     bool // an API call or the serve loop did not come back: nothing that takes Server.mu is called any more
	strays     []qStray
	tidChanged string
}

var qProbePort int32 = 20000

func (r *qRun) detail() string {
	if r.sc.blcfg != "" {
		return fmt.Sprintf("%s rep=%d tag=%s blocklist=%s", r.sc.lhs(r.idx), r.rep, r.sc.tag, r.sc.blcfg)
	}
	return fmt.Sprintf("%s rep=%d tag=%s", r.sc.lhs(r.idx), r.rep, r.sc.tag)
}

// runPoint performs the directives at the head of the script that belong to this point.
func (r *qRun) runPoint(point string, i int) {
	for {
		r.mu.Lock()
		if len(r.script) == 0 || r.script[0].point != point || (point != "pre" && point != "ret" && r.script[0].i != i) {
			r.mu.Unlock()
			return
		}
		d := r.script[0]
		r.script = r.script[1:]
		r.mu.Unlock()
		switch d.action {
		case "reply":
			if r.tid == "" || r.wedged {
				continue
			}
			r.mu.Lock()
			if !r.blocked && !r.closed {
				r.term = true // a reply the server cannot take (closed, source blocked) ends nothing
			}
			r.mu.Unlock()
			b, err := bencode.Marshal(krpc.Msg{T: r.tid, Y: "r", R: &krpc.Return{ID: qGenuineID(r.dest)}})
			if err != nil {
				panic(err)
			}
			src := r.dest
			if r.sc.replyForm == "alt" {
				src = qAltForm(r.dest)
			}
			if !r.conn.inject(b, src, 5*time.Second) && !r.closed {
				oracle("C01", "serve-loop-stuck", "reply not taken: %s", r.detail())
				r.wedged = true
			}
		case "stray":
			r.stray(d.k)
		case "cancel":
			r.mu.Lock()
			r.term = true
			r.mu.Unlock()
			r.cancel()
		case "close":
			r.closed = true
			r.closeServer()
		case "block":
			// Server.SetIPBlockList while the query is under way: the destination is blocked from now on
			r.mu.Lock()
			r.blockedAt = r.okWrites
			r.blocked = true
			r.mu.Unlock()
			r.s.SetIPBlockList(blockOf(r.dest.IP))
		case "nop":
			time.Sleep(30 * time.Millisecond)
		case "blockother":
			// Server.SetIPBlockList with a list that does not cover the destination: no event for the query
			r.s.SetIPBlockList(qBlocklistOf("other", r.dest.IP))
		case "probe":
			if !r.wedged {
				r.probe()
			}
		}
	}
}

// probe: the serve loop still answers a fresh ping and Stats() returns.
func (r *qRun) probe() {
	port := int(atomic.AddInt32(&qProbePort, 1))
	src := &net.UDPAddr{IP: net.IPv4(9, 9, 9, 9), Port: port}
	var id krpc.ID
	id[0] = 0x55
	b, _ := bencode.Marshal(krpc.Msg{T: "pp", Y: "q", Q: "ping", A: &krpc.MsgArgs{ID: id}})
	if !r.conn.inject(b, src, 2*time.Second) {
		oracle("C01", "serve-loop-blocked-by-abandoned-query", "ping not taken by the serve loop: %s", r.detail())
		return
	}
	deadline := time.Now().Add(2 * time.Second)
	answered := false
	for !answered && time.Now().Before(deadline) {
		r.conn.fakeConn.mu.Lock()
		for _, w := range r.conn.fakeConn.writes {
			if w.addr != nil && w.addr.Port == port {
				answered = true
			}
		}
		r.conn.fakeConn.mu.Unlock()
		if !answered {
			time.Sleep(50 * time.Microsecond)
		}
	}
	if !answered {
		oracle("C01", "serve-loop-blocked-by-abandoned-query", "ping not answered: %s", r.detail())
	}
	done := make(chan struct{})
	go func() { r.s.Stats(); close(done) }()
	select {
	case <-done:
	case <-time.After(2 * time.Second):
		oracle("C01", "serve-loop-blocked-by-abandoned-query", "Stats() did not return: %s", r.detail())
	}
}

type qOutcome struct {
	writes, rated int
	class         string
	pending       int
	noReturn      bool
	res           dht.QueryResult
}

func (r *qRun) run() qOutcome {
	sc := r.sc
	r.script = append([]qDir(nil), sc.script...)
	r.conn = &holdConn{fakeConn: newFakeConn()}
	if sc.fail > 0 {
		r.conn.fakeConn.failNth = map[int]bool{sc.fail: true}
	}
	r.dest = qDest(sc.dest, r.rep)
	r.strays = qStrays(r.dest)
	r.conn.before = func(b []byte, addr *net.UDPAddr) {
		m, ok := decodeLikeServer(b)
		if !ok || m.Y != "q" {
			return // replies of the probe
		}
		r.mu.Lock()
		if r.tid == "" {
			r.tid = m.T
			qCheckTid(m.T, r.detail())
		} else if m.T != r.tid && r.tidChanged == "" && addr != nil && addr.Port == r.dest.Port && addr.IP.Equal(r.dest.IP) {
			r.tidChanged = m.T
		}
		r.okWrites++
		n := r.okWrites
		closed := r.closed
		if r.blocked {
			r.afterBlock++
		}
		r.mu.Unlock()
		if closed {
			r.afterClose++
		}
		r.runPoint("w", n)
	}
	if sc.budget >= 0 {
		r.lim = rate.NewLimiter(0, sc.budget)
	} else {
		r.lim = rate.NewLimiter(rate.Inf, 1)
	}
	effTries := sc.tries
	if effTries == 0 {
		effTries = 1
	}
	cfg := &dht.ServerConfig{
		Conn:          r.conn,
		NoSecurity:    true,
		StartingNodes: func() ([]dht.Addr, error) { return nil, nil },
		QueryResendDelay: func() time.Duration {
			n := int(atomic.AddInt64(&r.gates, 1))
			if n <= effTries {
				r.runPoint("g", n)
			}
			r.mu.Lock()
			defer r.mu.Unlock()
			if r.term {
				return time.Hour
			}
			return time.Millisecond
		},
		Logger:      log.NewLogger().FilterLevel(log.Critical),
		SendLimiter: r.lim,
	}
	cfg.NodeId[0] = 0x42
	if sc.blocked {
		cfg.IPBlocklist = blockOf(r.dest.IP)
		if sc.blcfg == "multi" {
			cfg.IPBlocklist = blockOf(append(qOtherIPs(r.dest.IP), r.dest.IP)...)
		}
	} else if bl := qBlocklistOf(sc.blcfg, r.dest.IP); bl != nil {
		cfg.IPBlocklist = bl
	}
	s, err := dht.NewServer(cfg)
	if err != nil {
		panic(err)
	}
	r.s = s
	for atomic.LoadInt64(&r.conn.fakeConn.reads) == 0 {
		time.Sleep(20 * time.Microsecond)
	}
	if sc.closed0 {
		r.closed = true
		s.Close()
	}
	ctx, cancel := context.WithCancel(context.Background())
	r.cancel = cancel
	defer cancel()
	r.runPoint("pre", 0)
	resCh := make(chan dht.QueryResult, 1)
	in := dht.QueryInput{NumTries: sc.tries, RateLimiting: rlOf(sc.rl)}
	go func() { resCh <- s.Query(ctx, dht.NewAddr(r.dest), "ping", in) }()
	var out qOutcome
	select {
	case out.res = <-resCh:
	case <-time.After(5 * time.Second):
		out.noReturn = true
		oracle("C14", "query-did-not-return", "%s", r.detail())
		cancel()
		r.closeServer() // Server.Close takes Server.mu: guarded, a wedged server must not take the engine with it
		select {
		case out.res = <-resCh:
		case <-time.After(2 * time.Second):
		}
	}
	out.class = classOf(out.res)
	if out.noReturn {
		out.class = "stuck"
	}
	r.runPoint("ret", 0)
	r.c07Oracles(&out)
	// datagrams carrying this transaction id
	r.conn.fakeConn.mu.Lock()
	for _, w := range r.conn.fakeConn.writes {
		if m, ok := decodeLikeServer(w.data); ok && m.Y == "q" && m.T == r.tid && r.tid != "" {
			out.writes++
		}
	}
	r.conn.fakeConn.mu.Unlock()
	if sc.budget >= 0 {
		out.rated = sc.budget - r.lim.Burst()
	}
	out.pending = r.outstanding()
	// ---- oracles from the implementation alone ----
	if out.writes > effTries {
		oracle("C14", "too-many-sends", "writes=%d tries=%d %s", out.writes, effTries, r.detail())
	}
	if out.pending > 0 { // -1: unknown, the server is wedged (reported where it was noticed)
		oracle("C14", "transaction-leak", "outstanding=%d after return %s", out.pending, r.detail())
	}
	if r.afterClose > 0 || ((sc.closed0) && out.writes > 0) {
		oracle("C14", "sent-after-close", "writes-after-close=%d writes=%d %s", r.afterClose, out.writes, r.detail())
	}
	if r.afterBlock > 0 {
		oracle("C19", "datagram-to-blocked-address:resend", "%d datagram(s) to %v after SetIPBlockList covered it (blocked after write %d) %s", r.afterBlock, r.dest, r.blockedAt, r.detail())
	}
	if r.blocked && out.res.Err == nil && r.blockedAt < effTries && !strings.Contains(sc.lhs(0), "reply") {
		oracle("C19", "query-to-blocked-address-succeeded", "%s", r.detail())
	}
	if sc.closed0 && out.res.Err == nil {
		oracle("C14", "query-on-closed-server-succeeded", "%s", r.detail())
	}
	if sc.budget >= 0 {
		if out.rated > sc.budget {
			oracle("C20", "query-sends-exceed-budget:"+sc.rl, "rated=%d budget=%d %s", out.rated, sc.budget, r.detail())
		}
		unratedOK := 0
		switch sc.rl {
		case "na", "nfna":
			unratedOK = out.writes
		case "nf":
			if out.writes > 0 {
				unratedOK = 1
			}
		}
		if out.rated > out.writes-unratedOK {
			oracle("C20", "unrated-send-consumed-budget", "rated=%d writes=%d policy=%s %s", out.rated, out.writes, sc.rl, r.detail())
		}
		if out.rated < out.writes-unratedOK {
			oracle("C20", "rated-send-did-not-consume-budget:"+sc.rl, "rated=%d writes=%d %s", out.rated, out.writes, r.detail())
		}
	}
	return out
}

// follow-up query B on the same (still open) server to another, silent address: must not complete with a reply.
func (r *qRun) followUp(k int) qOutcome {
	r.mu.Lock()
	r.term = false
	r.mu.Unlock()
	dest := &net.UDPAddr{IP: net.IPv4(10, 9, 9, byte(k+1)), Port: 7100 + k}
	r.conn.before = nil
	before := 0
	r.conn.fakeConn.mu.Lock()
	before = len(r.conn.fakeConn.writes)
	r.conn.fakeConn.mu.Unlock()
	atomic.StoreInt64(&r.gates, 1<<20) // no gates any more
	resCh := make(chan dht.QueryResult, 1)
	go func() {
		resCh <- r.s.Query(context.Background(), dht.NewAddr(dest), "ping", dht.QueryInput{NumTries: 1})
	}()
	var out qOutcome
	select {
	case out.res = <-resCh:
	case <-time.After(5 * time.Second):
		out.noReturn = true
		oracle("C14", "query-did-not-return", "follow-up %d of %s", k, r.detail())
	}
	out.class = classOf(out.res)
	if out.noReturn {
		out.class = "stuck"
	}
	if out.res.Err == nil {
		oracle("C07", "query-completed-by-stale-reply-of-other-query", "follow-up %d to %v returned reply t=%q from %x: %s", k, dest, out.res.Reply.T, out.res.Reply.SenderID(), r.detail())
	}
	r.conn.fakeConn.mu.Lock()
	out.writes = len(r.conn.fakeConn.writes) - before
	r.conn.fakeConn.mu.Unlock()
	out.pending = r.outstanding()
	if out.pending > 0 {
		oracle("C14", "transaction-leak", "outstanding=%d after follow-up %d of %s", out.pending, k, r.detail())
	}
	return out
}

func waitGoroutines(base int, d time.Duration) int {
	deadline := time.Now().Add(d)
	stable := 0
	for {
		n := runtime.NumGoroutine()
		if n <= base {
			stable++
			if stable >= 2 {
				return 0
			}
		} else {
			stable = 0
		}
		if time.Now().After(deadline) {
			return n - base
		}
		time.Sleep(100 * time.Microsecond)
	}
}

func queryScenarios(tier string) []qScn {
	var out []qScn
	reps := 20
	add := func(sc qScn) {
		if sc.reps == 0 {
			sc.reps = reps
		}
		if sc.rl == "" {
			sc.rl = "z"
		}
		if sc.budget == 0 && sc.tag != "rl" {
			sc.budget = -1
		}
		out = append(out, sc)
	}
	d := func(point string, i int, action string) qDir { return qDir{point: point, i: i, action: action} }
	for tries := 0; tries <= 4; tries++ {
		eff := tries
		if eff == 0 {
			eff = 1
		}
		add(qScn{tries: tries, tag: "timeout"})
		add(qScn{tries: tries, tag: "timeout-then-late-reply", script: []qDir{d("ret", 0, "reply")}})
		add(qScn{tries: tries, tag: "cancel-before", script: []qDir{d("pre", 0, "cancel")}})
		add(qScn{tries: tries, tag: "closed-before", closed0: true})
		add(qScn{tries: tries, tag: "closed-and-cancelled", closed0: true, script: []qDir{d("pre", 0, "cancel")}})
		add(qScn{tries: tries, tag: "blocked", blocked: true})
		for i := 1; i <= eff; i++ {
			add(qScn{tries: tries, tag: "reply-in-send", script: []qDir{d("w", i, "reply")}})
			add(qScn{tries: tries, tag: "reply-after-send", script: []qDir{d("g", i, "reply")}})
			add(qScn{tries: tries, tag: "reply-twice", script: []qDir{d("g", i, "reply"), d("g", i, "reply")}})
			add(qScn{tries: tries, tag: "cancel-in-send", script: []qDir{d("w", i, "cancel")}})
			add(qScn{tries: tries, tag: "cancel-after-send", script: []qDir{d("g", i, "cancel")}})
			add(qScn{tries: tries, tag: "close-in-send", script: []qDir{d("w", i, "close")}})
			add(qScn{tries: tries, tag: "close-after-send", script: []qDir{d("g", i, "close")}})
			add(qScn{tries: tries, tag: "blocklist-installed-in-send", script: []qDir{d("w", i, "block")}})
			add(qScn{tries: tries, tag: "blocklist-installed-after-send", script: []qDir{d("g", i, "block")}})
			add(qScn{tries: tries, tag: "blocklist-then-reply", script: []qDir{d("g", i, "block"), d("g", i, "reply")}})
			add(qScn{tries: tries, tag: "write-fails", fail: i})
			add(qScn{tries: tries, tag: "write-fails-late-reply", fail: i, script: []qDir{d("ret", 0, "reply")}})
			add(qScn{tries: tries, tag: "reply-then-cancel", script: []qDir{d("g", i, "reply"), d("g", i, "cancel")}})
			add(qScn{tries: tries, tag: "cancel-then-close", script: []qDir{d("g", i, "cancel"), d("g", i, "close")}})
			// the abandonment window: the sender is held inside WriteTo, the context is cancelled (Query is joining
			// the sender), the genuine reply arrives and is processed, the serve loop must stay alive, then the write returns
			add(qScn{tries: tries, tag: "abandonment-window", reps: 3, followB: 3,
				script: []qDir{d("w", i, "cancel"), d("w", i, "nop"), d("w", i, "reply"), d("w", i, "probe")}})
			add(qScn{tries: tries, tag: "abandonment-window-timeout", reps: 3, followB: 2,
				script: []qDir{d("w", i, "nop"), d("g", i, "nop"), d("ret", 0, "reply"), d("ret", 0, "probe")}})
		}
	}
	// rate policy x tries x budget x (reply never / after the k-th send)
	rlReps := 3
	if tier == "thorough" {
		rlReps = 10
	}
	for _, rl := range []string{"z", "nf", "na", "nfna", "wr", "nw"} {
		for tries := 1; tries <= 4; tries++ {
			for budget := 0; budget <= 3; budget++ {
				add(qScn{tries: tries, rl: rl, budget: budget, reps: rlReps, tag: "rl"})
				for k := 1; k <= tries; k++ {
					add(qScn{tries: tries, rl: rl, budget: budget, reps: rlReps, tag: "rl", script: []qDir{d("g", k, "reply")}})
				}
				add(qScn{tries: tries, rl: rl, budget: budget, reps: rlReps, tag: "rl", fail: 1})
				if budget == 3 || budget == 0 {
					// the blocklist and the closed flag are consulted whatever the rate policy
					add(qScn{tries: tries, rl: rl, budget: budget, tag: "rl-blocked", blocked: true})
					add(qScn{tries: tries, rl: rl, budget: budget, tag: "rl-closed", closed0: true})
					add(qScn{tries: tries, rl: rl, budget: budget, tag: "rl-blocklist-installed-after-send", script: []qDir{d("g", 1, "block")}})
				}
			}
		}
	}
	// ---- a blocklist is configured but does not cover the destination (no ranges at all / ranges around it), or covers it
	// among other ranges: x closed before / Close inside or after the i-th send / cancellations / write failures / rate policy.
	// The model line is that of the same case without a list (a list that does not cover the destination is no list).
	blReps := 4
	if tier == "thorough" {
		blReps = 20
	}
	for _, bl := range []string{"empty", "other"} {
		for tries := 0; tries <= 4; tries++ {
			eff := tries
			if eff == 0 {
				eff = 1
			}
			t := "bl-" + bl + "-"
			add(qScn{tries: tries, blcfg: bl, reps: blReps, tag: t + "timeout"})
			add(qScn{tries: tries, blcfg: bl, reps: blReps, tag: t + "closed-before", closed0: true})
			add(qScn{tries: tries, blcfg: bl, reps: blReps, tag: t + "closed-and-cancelled", closed0: true, script: []qDir{d("pre", 0, "cancel")}})
			add(qScn{tries: tries, blcfg: bl, reps: blReps, tag: t + "cancel-before", script: []qDir{d("pre", 0, "cancel")}})
			for i := 1; i <= eff; i++ {
				add(qScn{tries: tries, blcfg: bl, reps: blReps, tag: t + "reply-after-send", script: []qDir{d("g", i, "reply")}})
				add(qScn{tries: tries, blcfg: bl, reps: blReps, tag: t + "close-in-send", script: []qDir{d("w", i, "close")}})
				add(qScn{tries: tries, blcfg: bl, reps: blReps, tag: t + "close-after-send", script: []qDir{d("g", i, "close")}})
				add(qScn{tries: tries, blcfg: bl, reps: blReps, tag: t + "cancel-then-close", script: []qDir{d("g", i, "cancel"), d("g", i, "close")}})
				add(qScn{tries: tries, blcfg: bl, reps: blReps, tag: t + "covering-list-installed-after-send", script: []qDir{d("g", i, "block")}})
				add(qScn{tries: tries, blcfg: bl, reps: blReps, tag: t + "write-fails", fail: i})
			}
		}
	}
	for tries := 0; tries <= 4; tries++ {
		// the list is installed later (SetIPBlockList), on an open or a closed server; the covering range is one of several
		add(qScn{tries: tries, reps: blReps, tag: "bl-installed-on-closed-server", closed0: true, script: []qDir{d("pre", 0, "blockother")}})
		add(qScn{tries: tries, reps: blReps, tag: "bl-installed-before", script: []qDir{d("pre", 0, "blockother")}})
		add(qScn{tries: tries, reps: 2, tag: "bl-installed-then-close-after-send", script: []qDir{d("g", 1, "blockother"), d("g", 1, "close")}})
		add(qScn{tries: tries, reps: 2, tag: "bl-installed-then-close-in-send", script: []qDir{d("w", 1, "blockother"), d("w", 1, "close")}})
		add(qScn{tries: tries, blcfg: "multi", reps: blReps, tag: "bl-multi-blocked", blocked: true})
	}
	for _, rl := range []string{"z", "nf", "na", "nfna", "wr", "nw"} {
		for tries := 1; tries <= 4; tries += 3 {
			for _, budget := range []int{0, 3} {
				for _, bl := range []string{"empty", "other"} {
					add(qScn{tries: tries, rl: rl, budget: budget, blcfg: bl, reps: blReps, tag: "rl-bl-" + bl + "-closed", closed0: true})
					add(qScn{tries: tries, rl: rl, budget: budget, blcfg: bl, reps: 2, tag: "rl-bl-" + bl + "-close-after-send", script: []qDir{d("g", 1, "close")}})
				}
			}
		}
	}
	queryMoreScenarios(tier, add, d)
	return out
}

// queryEngine: the cases run in a child process (args -child -from <idx> [-only <idx>]); a crash or a deadlock of
// the code under test ("all goroutines are asleep", a panic in the serve loop ...) kills only the child and is
// reported against the case it happened in, with the qcase text as replay.
func queryEngine(seed uint64, tier string, args []string) {
	from, only, child := 0, -1, false
	for i := 0; i < len(args); i++ {
		switch args[i] {
		case "-child":
			child = true
		case "-from":
			from, _ = strconv.Atoi(args[i+1])
			i++
		case "-only":
			only, _ = strconv.Atoi(args[i+1])
			i++
		}
	}
	qSeed = seed
	scs := queryScenarios(tier)
	if only >= 0 && only < len(scs) {
		scs = scs[:only+1]
		if from < only {
			from = only
		}
	}
	if !child {
		qContained(seed, tier, scs, from, only)
		return
	}
	time.Sleep(2 * time.Millisecond)
	base0 := runtime.NumGoroutine()
	wedgedFam, leakFam := map[string]int{}, map[string]int{}
	for idx := from; idx < len(scs); idx++ {
		emit("#qstart %d", idx)
		out.Flush()
		sc := &scs[idx]
		if sc.special == "wrap" {
			qWrapCase(idx, sc, tier, &base0)
			out.Flush()
			continue
		}
		if sc.special == "overlap" {
			qOverlapCase(idx, sc, &base0)
			out.Flush()
			continue
		}
		if sc.special == "lockwin" {
			qLockWindowCase(idx, sc, &base0)
			out.Flush()
			continue
		}
		if fam := qFamily(sc.tag); fam != "" && (wedgedFam[fam] >= 2 || leakFam[fam] >= 4) {
			// every wedged server costs ~15 s of guards, every leak 3 s of waiting: a few cases of a family are evidence enough
			emit("# qskip %d tag=%s: %d cases of family %s already left the server wedged, %d left goroutines behind", idx, sc.tag, wedgedFam[fam], fam, leakFam[fam])
			continue
		}
		wedgedHere := false
		outs := map[string]bool{}
		maxPending := 0
		var follow []string
		for rep := 0; rep < sc.reps; rep++ {
			r := &qRun{sc: sc, idx: idx, rep: rep}
			o := r.run()
			rated := "-"
			if sc.budget >= 0 {
				rated = fmt.Sprint(o.rated)
			}
			outs[fmt.Sprintf("%d/%s/%s", o.writes, rated, o.class)] = true
			if o.noReturn || r.wedged {
				r.closeServer()
				wedgedHere = true
				break // one hang is a finding; do not wait for nineteen more
			}
			if o.pending > maxPending {
				maxPending = o.pending
			}
			if sc.followB > 0 && !r.closed && !r.wedged {
				for k := 0; k < sc.followB; k++ {
					f := r.followUp(k)
					follow = append(follow, fmt.Sprintf("%d/-/%s", f.writes, f.class))
					if f.pending > maxPending {
						maxPending = f.pending
					}
				}
			}
			r.closeServer()
		}
		if wedgedHere {
			wedgedFam[qFamily(sc.tag)]++
		}
		leak := waitGoroutines(base0, 3*time.Second)
		if leak > 0 {
			oracle("C14", "goroutine-leak:query", "+%d goroutines after %d repetitions of %s tag=%s", leak, sc.reps, sc.lhs(idx), sc.tag)
			base0 = runtime.NumGoroutine()
			leakFam[qFamily(sc.tag)]++
		}
		var os []string
		for o := range outs {
			os = append(os, o)
		}
		sort.Strings(os)
		emit("%s => %d %s %d %d", sc.lhs(idx), len(os), strings.Join(os, " "), maxPending, leak)
		if len(follow) > 0 {
			fs := map[string]bool{}
			for _, f := range follow {
				fs[f] = true
			}
			var fl []string
			for f := range fs {
				fl = append(fl, f)
			}
			sort.Strings(fl)
			// the follow-up queries are plain queries to a silent node: one line for the model
			emit("qcase %d.b 1 z - 0 0 0 - => %d %s %d %d", idx, len(fl), strings.Join(fl, " "), 0, 0)
		}
		out.Flush()
	}
}

func qContained(seed uint64, tier string, scs []qScn, from, only int) {
	tmp, err := os.CreateTemp("", "verif-q-*.txt")
	if err != nil {
		panic(err)
	}
	tmp.Close()
	defer os.Remove(tmp.Name())
	for from < len(scs) {
		cargs := []string{"-seed", strconv.FormatUint(seed, 10), "-tier", tier, "-out", tmp.Name(), "query", "-child", "-from", strconv.Itoa(from)}
		if only >= 0 {
			cargs = append(cargs, "-only", strconv.Itoa(only))
		}
		ctx, cancel := context.WithTimeout(context.Background(), 10*time.Minute)
		cmd := exec.CommandContext(ctx, os.Args[0], cargs...)
		var stderr bytes.Buffer
		cmd.Stderr = &stderr
		cmd.Stdout = &stderr
		runErr := cmd.Run()
		hung := ctx.Err() != nil
		cancel()
		data, _ := os.ReadFile(tmp.Name())
		crashed := from
		for _, l := range strings.Split(string(data), "\n") {
			switch {
			case l == "":
			case strings.HasPrefix(l, "#qstart "):
				if n, err := strconv.Atoi(strings.TrimPrefix(l, "#qstart ")); err == nil {
					crashed = n
				}
			default:
				emit("%s", l) // qcase lines of finished cases, oracle lines (also those of the case that was cut short)
			}
		}
		if runErr == nil {
			return
		}
		st := stderr.String()
		site := "unknown"
		if m := regexp.MustCompile(`(?m)^github\.com/anacrolix/dht/v2/?(\S+)`).FindStringSubmatch(st); m != nil {
			f := regexp.MustCompile(`\(\*([A-Za-z0-9_]+)\)`).ReplaceAllString(m[1], "$1")
			if i := strings.Index(f, "("); i >= 0 {
				f = f[:i]
			}
			if i := strings.LastIndex(f, "/"); i >= 0 {
				f = f[i+1:]
			}
			f = strings.TrimPrefix(f, ".")
			if f != "" {
				site = f
			}
		}
		first := ""
		for _, l := range strings.Split(st, "\n") {
			if strings.HasPrefix(l, "panic:") || strings.HasPrefix(l, "fatal error:") {
				first = l
				break
			}
		}
		deadlock := strings.Contains(st, "all goroutines are asleep")
		if hung {
			first, site = "child did not end within 10 minutes", "hung"
		} else if deadlock {
			site = "deadlock"
		}
		lhs, tag := "?", "?"
		if crashed < len(scs) {
			lhs, tag = scs[crashed].lhs(crashed), scs[crashed].tag
		}
		emit("oracle C01 process-died:%s %q in %s tag=%s replay: h -seed %d query -only %d", site, first, lhs, tag, seed, crashed)
		qDeathOracles(scs, crashed, site, first, seed)
		if deadlock || hung || strings.HasPrefix(tag, "abandonment-window") {
			emit("oracle C01 serve-loop-blocked-by-abandoned-query process %s (%q) in %s tag=%s replay: h -seed %d query -only %d", site, first, lhs, tag, seed, crashed)
		}
		from = crashed + 1
	}
}
