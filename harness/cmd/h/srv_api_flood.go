package main

// Engine "api", C11 part 2: FLOODS of accepted announces.
//
// srv_api_peers.go sends bursts of 3-14 announces. Here hundreds to thousands of hosts (distinct
// raw IPs, 4-byte / IPv6 / v4-mapped, tokens fetched beforehand) announce back to back: the
// datagrams are queued in a buffered fake socket before the serve loop sees the first of them, so
// the packet loop handles them without a pause while the store side is
//
//   plain      the bundled InMemory, all processors
//   plain1p    the bundled InMemory, runtime.GOMAXPROCS(1) from the burst until the store is at rest
//   contended  the bundled InMemory with a large other infohash, read by GetPeers / GetAll loops
//              (they hold the store's read lock for long stretches) while the burst is handled
//   slow       a wrapper whose AddPeer sleeps 100-400 us before delegating to the bundled InMemory
//   held       a wrapper whose AddPeer waits until the harness releases it: after every announce of
//              the burst has been acknowledged, sometimes 100-250 ms later still
//   held1p     held under GOMAXPROCS(1)
//   close      held or plain; the Server is CLOSED as soon as the burst is acknowledged (then the
//              store released); a second Server configured with the same store answers get_peers
//
// One to three fresh infohashes per round; in about half of the rounds, once the store is at rest, a
// second flood re-announces part of the hosts with new ports (a later announce replaces the
// endpoint); a few get_peers queries travel inside the flood (whatever they return was announced).
//
// "At rest" = the store lists every acknowledged endpoint, awaited for as long as the listing keeps
// growing (gives up after 4 s without progress / 40 s); then, and after 0.3 s and 1.5 s more when
// something is missing, get_peers from IPv4 / IPv6 requesters with want -, n4+n6, n6:
//   - model lines `apeers` / `astore`: values = fold of add_peer over the acknowledged announces
//     (first flood, then the re-announces; hosts are distinct within a flood, so the order inside
//     a flood is immaterial: ApiProofs.ra_two_bursts_perm, ra_two_floods_complete, ra_reannounce_replaces) + BEP 32 filter;
//   - oracles: every acknowledged announcer returned with its last port, nothing unannounced, one
//     listing per host, token present; after Close: the configured store holds every
//     acknowledged endpoint and a sibling Server on that store returns them.
// Nothing here depends on the interleaving: an acknowledged announce has had its AddPeer call issued
// (the correct server starts it before it replies), the wrappers only delay it, and the comparisons
// wait for the listing to stop growing.

import (
	"fmt"
	"net"
	"runtime"
	"strings"
	"sync"
	"sync/atomic"
	"time"

	"github.com/anacrolix/log"
	"github.com/anacrolix/torrent/bencode"
	"golang.org/x/time/rate"

	dht "github.com/anacrolix/dht/v2"
	"github.com/anacrolix/dht/v2/krpc"
	peer_store "github.com/anacrolix/dht/v2/peer-store"
)

// floodStore delays AddPeer (hold / sleep) and then delegates to the bundled store.
type floodStore struct {
	inner   *peer_store.InMemory
	mu      sync.Mutex
	hold    chan struct{}
	delay   time.Duration
	entered int64
	done    int64
}

func (f *floodStore) holdOn() {
	f.mu.Lock()
	if f.hold == nil {
		f.hold = make(chan struct{})
	}
	f.mu.Unlock()
}

func (f *floodStore) release() {
	f.mu.Lock()
	if f.hold != nil {
		close(f.hold)
		f.hold = nil
	}
	f.mu.Unlock()
}

func (f *floodStore) setDelay(d time.Duration) {
	f.mu.Lock()
	f.delay = d
	f.mu.Unlock()
}

func (f *floodStore) AddPeer(ih peer_store.InfoHash, na krpc.NodeAddr) {
	atomic.AddInt64(&f.entered, 1)
	f.mu.Lock()
	h, d := f.hold, f.delay
	f.mu.Unlock()
	if h != nil {
		<-h
	}
	if d > 0 {
		time.Sleep(d)
	}
	f.inner.AddPeer(ih, na)
	atomic.AddInt64(&f.done, 1)
}

func (f *floodStore) GetPeers(ih peer_store.InfoHash) []krpc.NodeAddr { return f.inner.GetPeers(ih) }

// floodSrv: a Server on a fake socket with a deep receive queue; replies are collected from the
// socket's write log by the harness goroutine (nothing runs inside the server's write path).
type floodSrv struct {
	conn    *fakeConn
	s       *dht.Server
	replies map[string]*krpc.Msg
	poll    time.Duration
}

func newFloodSrv(r *rng, store peer_store.Interface, depth int) *floodSrv {
	var root [20]byte
	copy(root[:], r.bytes(20))
	conn := &fakeConn{in: make(chan fpkt, depth), closed: make(chan struct{}), local: &net.UDPAddr{IP: net.IPv4(127, 0, 0, 1), Port: 4242}}
	cfg := &dht.ServerConfig{
		NodeId:        root,
		Conn:          conn,
		NoSecurity:    true,
		StartingNodes: func() ([]dht.Addr, error) { return nil, nil },
		Logger:        log.NewLogger().FilterLevel(log.Critical),
		SendLimiter:   rate.NewLimiter(rate.Inf, 1),
		PeerStore:     store,
	}
	s, err := dht.NewServer(cfg)
	if err != nil {
		panic(err)
	}
	f := &floodSrv{conn: conn, s: s, replies: map[string]*krpc.Msg{}, poll: 500 * time.Microsecond}
	for atomic.LoadInt64(&conn.reads) == 0 {
		time.Sleep(20 * time.Microsecond)
	}
	return f
}

func (f *floodSrv) close() { f.s.Close(); f.conn.Close() }

func floodKey(t string, a *net.UDPAddr) string { return t + "|" + a.String() }

func (f *floodSrv) drain() int {
	n := 0
	for _, w := range f.conn.takeWrites() {
		if m, ok := decodeLikeServer(w.data); ok && w.addr != nil {
			f.replies[floodKey(m.T, w.addr)] = m
			n++
		}
	}
	return n
}

func (f *floodSrv) push(b []byte, from *net.UDPAddr) bool {
	select {
	case f.conn.in <- fpkt{b, from}:
		return true
	default:
	}
	select {
	case f.conn.in <- fpkt{b, from}:
		return true
	case <-time.After(20 * time.Second):
		return false
	case <-f.conn.closed:
		return false
	}
}

// awaitAll waits until every key has a reply, for as long as replies keep arriving (gives up after
// `stall` without a new one, or 60 s); returns the number of keys answered.
func (f *floodSrv) awaitAll(keys []string, stall time.Duration) int {
	start := time.Now()
	last := start
	pending := append([]string(nil), keys...)
	for {
		got := f.drain()
		now := time.Now()
		if got > 0 {
			last = now
			w := 0
			for _, k := range pending {
				if f.replies[k] == nil {
					pending[w] = k
					w++
				}
			}
			pending = pending[:w]
		}
		if len(pending) == 0 || now.Sub(last) > stall || now.Sub(start) > 60*time.Second {
			return len(keys) - len(pending)
		}
		time.Sleep(f.poll)
	}
}

type floodHost struct {
	addr  *net.UDPAddr
	id    [20]byte
	token string
}

// every host fetches its token (pipelined); hosts without a token are dropped
func (f *floodSrv) fetchTokens(r *rng, hosts []floodHost, tag string) []floodHost {
	var ih [20]byte
	copy(ih[:], r.bytes(20))
	var keys []string
	for i := range hosts {
		t := fmt.Sprintf("%s%d", tag, i)
		f.push(bencode.MustMarshal(krpc.Msg{Q: "get_peers", Y: "q", T: t, A: &krpc.MsgArgs{ID: hosts[i].id, InfoHash: ih}}), hosts[i].addr)
		keys = append(keys, floodKey(t, hosts[i].addr))
	}
	f.awaitAll(keys, 10*time.Second)
	var ok []floodHost
	for i, h := range hosts {
		if m := f.replies[keys[i]]; m != nil && m.R != nil && m.R.Token != nil {
			h.token = *m.R.Token
			ok = append(ok, h)
		}
	}
	for _, k := range keys {
		delete(f.replies, k)
	}
	return ok
}

func floodHosts(r *rng, n int) []floodHost {
	var hs []floodHost
	for _, ip := range apiDistinctIPs(r, n) {
		h := floodHost{addr: udp(ip, 1+r.intn(65535))}
		copy(h.id[:], r.bytes(20))
		hs = append(hs, h)
	}
	return hs
}

type floodReq struct {
	addr  *net.UDPAddr
	wants []krpc.Want
}

func floodRequesters(r *rng) []floodReq {
	return []floodReq{
		{udp([]byte{203, 0, 113, 7}, 4007), nil},
		{udp(append([]byte{0x20, 0x01, 0x0d, 0xb8}, r.bytes(12)...), 4008), nil},
		{udp([]byte{203, 0, 113, 9}, 4009), []krpc.Want{krpc.WantNodes, krpc.WantNodes6}},
		{udp([]byte{203, 0, 113, 10}, 4010), []krpc.Want{krpc.WantNodes6}},
	}
}

func (q floodReq) families() (wants4, wants6 bool) {
	wants6 = q.addr.IP.To4() == nil
	wants4 = !wants6
	if q.wants != nil {
		wants4, wants6 = false, false
		for _, w := range q.wants {
			if w == krpc.WantNodes {
				wants4 = true
			}
			if w == krpc.WantNodes6 {
				wants6 = true
			}
		}
	}
	return
}

func (q floodReq) wtok() string {
	if q.wants == nil {
		return "-"
	}
	var ws []string
	for _, w := range q.wants {
		ws = append(ws, hx([]byte(w)))
	}
	return "w" + strings.Join(ws, ",")
}

func floodEp(ip net.IP, port int) string { return fmt.Sprintf("%s:%d", hx(ip.To16()), port) }

// the store lists every expected endpoint (raw ip bytes, port) of every infohash: awaited while the
// number of listed ones grows
func floodSettle(store *peer_store.InMemory, expect map[[20]byte]map[string]int) bool {
	start := time.Now()
	last := start
	best := -1
	total := 0
	for _, m := range expect {
		total += len(m)
	}
	for {
		have := 0
		for ih, m := range expect {
			for _, na := range store.GetPeers(peer_store.InfoHash(ih)) {
				if p, ok := m[string(na.IP)]; ok && p == na.Port {
					have++
				}
			}
		}
		now := time.Now()
		if have != best {
			best, last = have, now
		}
		if have >= total {
			return true
		}
		if now.Sub(last) > 4*time.Second || now.Sub(start) > 40*time.Second {
			return false
		}
		time.Sleep(time.Millisecond)
	}
}

type floodSent struct {
	h    floodHost
	key  string
	ann  apiAnn
	data []byte
}

// one flood: announces of the given hosts (each to one of the infohashes), pre-encoded
func floodBuild(r *rng, hosts []floodHost, ihs [][20]byte, fixed map[string][20]byte, tag string) []floodSent {
	var out []floodSent
	for i, h := range hosts {
		ih := ihs[r.intn(len(ihs))]
		if x, ok := fixed[string(h.addr.IP)]; ok {
			ih = x
		}
		port := 1 + r.intn(65535)
		args := &krpc.MsgArgs{ID: h.id, InfoHash: ih, Port: &port, Token: h.token}
		chosen := port
		switch r.intn(5) {
		case 0:
			args.ImpliedPort = true
			chosen = h.addr.Port
		case 1:
			args.ImpliedPort = true
			args.Port = nil
			chosen = h.addr.Port
		}
		t := fmt.Sprintf("%s.%d", tag, i)
		out = append(out, floodSent{h, floodKey(t, h.addr), apiAnn{ih, h.addr.IP, chosen},
			bencode.MustMarshal(krpc.Msg{Q: "announce_peer", Y: "q", T: t, A: args})})
	}
	return out
}

type floodMode struct {
	held, onep, contended, closing bool
	delay                          time.Duration
	extraHold                      time.Duration
}

// contention on the bundled store through its own exported API
func floodReaders(store *peer_store.InMemory, big [20]byte, n int) (stop func()) {
	var flag int32
	var wg sync.WaitGroup
	for i := 0; i < n; i++ {
		wg.Add(1)
		go func(i int) {
			defer wg.Done()
			for atomic.LoadInt32(&flag) == 0 {
				if i%2 == 0 {
					store.GetAll()
				} else {
					store.GetPeers(peer_store.InfoHash(big))
				}
			}
		}(i)
	}
	return func() { atomic.StoreInt32(&flag, 1); wg.Wait() }
}

// deliver delivers one flood back to back and returns the acknowledged announces. `mid` get_peers
// queries for the infohashes travel inside the flood.
func (f *floodSrv) deliver(r *rng, burst []floodSent, ihs [][20]byte, reqID [20]byte, tag string, ctxs string) (acked []apiAnn, midKeys []string, midIhs [][20]byte) {
	midAt := map[int]bool{}
	for j := 0; j < 3; j++ {
		midAt[r.intn(len(burst))] = true
	}
	midSrc := udp([]byte{203, 0, 113, 77}, 4077)
	var keys []string
	for i, b := range burst {
		if !f.push(b.data, b.h.addr) {
			emit("# api %s flood datagram %d not taken by the socket", ctxs, i)
			break
		}
		keys = append(keys, b.key)
		if midAt[i] {
			ih := ihs[r.intn(len(ihs))]
			t := fmt.Sprintf("%s.m%d", tag, i)
			f.push(bencode.MustMarshal(krpc.Msg{Q: "get_peers", Y: "q", T: t, A: &krpc.MsgArgs{ID: reqID, InfoHash: ih}}), midSrc)
			midKeys = append(midKeys, floodKey(t, midSrc))
			midIhs = append(midIhs, ih)
		}
	}
	f.awaitAll(append(append([]string(nil), keys...), midKeys...), 10*time.Second)
	for i := range keys {
		if m := f.replies[burst[i].key]; m != nil && m.Y == "r" {
			acked = append(acked, burst[i].ann)
		}
	}
	return
}

func runApiPeersFlood(seed uint64, idx int, c apiCase) {
	r := (&rng{s: seed ^ 0xa91c13}).sub(idx)
	mode := floodMode{}
	switch c.mix {
	case "plain1p":
		mode.onep = true
	case "contended":
		mode.contended = true
	case "slow":
		mode.delay = time.Duration(100+r.intn(300)) * time.Microsecond
	case "held":
		mode.held = true
	case "held1p":
		mode.held, mode.onep = true, true
	case "close":
		mode.closing = true
	}
	inner := &peer_store.InMemory{}
	var fs *floodStore
	var store peer_store.Interface = inner
	if mode.held || mode.delay > 0 || mode.closing {
		fs = &floodStore{inner: inner}
		store = fs
	}
	var big [20]byte
	if mode.contended {
		copy(big[:], r.bytes(20))
		for i := 0; i < 6000; i++ {
			inner.AddPeer(peer_store.InfoHash(big), krpc.NodeAddr{IP: net.IP{10, byte(i >> 16), byte(i >> 8), byte(i)}, Port: 1 + i})
		}
	}
	depth := 2*c.par + 256
	var f *floodSrv
	var hosts []floodHost
	if !mode.closing {
		f = newFloodSrv(r, store, depth)
		defer func() { f.close() }()
		hosts = f.fetchTokens(r, floodHosts(r, c.par), "tk")
		if len(hosts) < c.par {
			oracle("C11", "get_peers-reply-without-token:api-flood", "case=%d %s hosts=%d with-token=%d", idx, c, c.par, len(hosts))
			if len(hosts) < 2 {
				return
			}
		}
	}
	defer func() {
		if fs != nil {
			fs.release()
		}
	}()
	reqs := floodRequesters(r)
	var reqID [20]byte
	copy(reqID[:], r.bytes(20))
	lines, bigLines, lost, unsettled, floods, maxAcked := 0, 0, 0, 0, 0, 0
	var older []apiAnn // a few announces of earlier rounds: other infohashes in the model's history
	for round := 1; round <= c.rounds && lost < 2; round++ {
		ctxs := fmt.Sprintf("case=%d round=%d %s", idx, round, c)
		nih := 1
		if r.intn(3) == 0 {
			nih = 2 + r.intn(2)
		}
		var ihs [][20]byte
		for k := 0; k < nih; k++ {
			var ih [20]byte
			copy(ih[:], r.bytes(20))
			ihs = append(ihs, ih)
		}
		if mode.closing {
			// a server of its own for the round; its announcers fetch their tokens from it
			f = newFloodSrv(r, store, depth)
			n := 66 + r.intn(c.par-65)
			hosts = f.fetchTokens(r, floodHosts(r, n), "tk")
			if len(hosts) < n {
				oracle("C11", "get_peers-reply-without-token:api-flood", "%s hosts=%d with-token=%d", ctxs, n, len(hosts))
				f.close()
				return
			}
			mode.held = r.intn(3) != 0
		}
		// the flood: most rounds nearly all hosts, sometimes just over the small bursts of srv_api_peers.go
		k := len(hosts)
		switch r.intn(4) {
		case 0:
			k = 40 + r.intn(120)
		case 1:
			k = len(hosts)/2 + r.intn(len(hosts)/2+1)
		}
		if k > len(hosts) || mode.closing {
			k = len(hosts)
		}
		perm := make([]int, len(hosts))
		for i := range perm {
			perm[i] = i
		}
		for i := len(perm) - 1; i > 0; i-- {
			j := r.intn(i + 1)
			perm[i], perm[j] = perm[j], perm[i]
		}
		var chosen []floodHost
		for _, hi := range perm[:k] {
			chosen = append(chosen, hosts[hi])
		}
		expect := map[[20]byte]map[string]int{}
		attempted := map[[20]byte]map[string]bool{}
		var history []apiAnn
		allAcked := true
		nFloods := 1
		if !mode.closing && r.intn(2) == 0 {
			nFloods = 2
		}
		settled := true
		closedAt := ""
		for fl := 1; fl <= nFloods; fl++ {
			who := chosen
			if fl == 2 {
				// re-announces with new ports, once the first flood is at rest
				who = chosen[:len(chosen)/2+r.intn(len(chosen)/2+1)]
			}
			// a re-announce goes to the infohash of the host's first announce: the endpoint is replaced
			first := map[string][20]byte{}
			for _, a := range history {
				first[string(a.ip)] = a.ih
			}
			burst := floodBuild(r, who, ihs, first, fmt.Sprintf("a%d.%d", round, fl))
			for _, b := range burst {
				if attempted[b.ann.ih] == nil {
					attempted[b.ann.ih] = map[string]bool{}
				}
				attempted[b.ann.ih][floodEp(b.ann.ip, b.ann.port)] = true
			}
			// ---- the store side during the flood
			if fs != nil {
				fs.setDelay(mode.delay)
				if mode.held {
					fs.holdOn()
				}
			}
			prevProcs := 0
			f.poll = 500 * time.Microsecond
			if mode.onep {
				prevProcs = runtime.GOMAXPROCS(1)
				f.poll = 3 * time.Millisecond
			}
			var stopReaders func()
			if mode.contended {
				stopReaders = floodReaders(inner, big, 3)
			}
			enteredBefore := int64(0)
			if fs != nil {
				enteredBefore = atomic.LoadInt64(&fs.entered)
			}
			acked, midKeys, midIhs := f.deliver(r, burst, ihs, reqID, fmt.Sprintf("a%d.%d", round, fl), ctxs)
			floods++
			if len(acked) > maxAcked {
				maxAcked = len(acked)
			}
			if len(acked) < len(burst) {
				allAcked = false
				emit("# api %s flood %d: %d of %d announces answered with a response", ctxs, fl, len(acked), len(burst))
			}
			// whatever a get_peers inside the flood returned was announced for its infohash
			for i, mk := range midKeys {
				if m := f.replies[mk]; m != nil && m.R != nil {
					for _, v := range m.R.Values {
						if !attempted[midIhs[i]][floodEp(v.IP, v.Port)] {
							oracle("C11", "get_peers-returned-unannounced-endpoint:api-flood-inside", "%s ih=%x value=%s", ctxs, midIhs[i], floodEp(v.IP, v.Port))
						}
					}
				}
			}
			if stopReaders != nil {
				stopReaders()
			}
			heldEntered := int64(0)
			if fs != nil && mode.held {
				if mode.extraHold > 0 || r.intn(3) == 0 {
					time.Sleep(time.Duration(100+r.intn(150)) * time.Millisecond)
				}
				heldEntered = atomic.LoadInt64(&fs.entered) - enteredBefore
			}
			if mode.closing {
				f.s.Close()
				closedAt = "held"
				if !mode.held {
					closedAt = "plain"
				}
			}
			if fs != nil {
				fs.release()
			}
			// an announce that was not acknowledged may or may not have taken effect: nothing is demanded of its host
			for _, b := range burst {
				delete(expect[b.ann.ih], string(b.ann.ip))
			}
			for _, a := range acked {
				if expect[a.ih] == nil {
					expect[a.ih] = map[string]int{}
				}
				expect[a.ih][string(a.ip)] = a.port
			}
			history = append(history, acked...)
			ok := floodSettle(inner, expect)
			if prevProcs > 0 {
				runtime.GOMAXPROCS(prevProcs)
				f.poll = 500 * time.Microsecond
			}
			if mode.held {
				emit("# api %s flood %d: acknowledged=%d AddPeer-calls-begun-while-held=%d at-rest=%d", ctxs, fl, len(acked), heldEntered, b2i(ok))
			}
			if !ok {
				settled = false
				break // no re-announces on a store that is not at rest: their order would be open
			}
		}
		if !settled {
			unsettled++
		}
		// ---- the store itself, at the PeerStore boundary
		roundLost := false
		hist := append(append([]apiAnn(nil), older...), history...)
		for _, ih := range ihs {
			got := inner.GetPeers(peer_store.InfoHash(ih))
			seen := map[string]bool{}
			okc := 0
			for _, na := range got {
				if !attempted[ih][floodEp(na.IP, na.Port)] {
					oracle("C11", "store-returned-unannounced-endpoint:api-flood", "%s ih=%x endpoint=%s", ctxs, ih, floodEp(na.IP, na.Port))
				}
				if seen[string(na.IP)] {
					oracle("C11", "store-returned-one-host-twice:api-flood", "%s ih=%x ip=%s", ctxs, ih, hx(na.IP))
				}
				seen[string(na.IP)] = true
				if p, ok := expect[ih][string(na.IP)]; ok && p == na.Port {
					okc++
				}
			}
			if mode.closing && okc < len(expect[ih]) {
				// asked again below through a sibling server, after the waits
				emit("# api %s store lists %d of %d acknowledged endpoints after Close", ctxs, okc, len(expect[ih]))
			}
		}
		// ---- get_peers: on the flooded server, or (close) on a sibling server over the same store
		g := f
		if mode.closing {
			f.conn.Close()
			g = newFloodSrv(r, store, 64)
		}
		for attempt := 0; attempt < 3; attempt++ {
			final := attempt == 2
			type answer struct {
				qi, ii  int
				m       *krpc.Msg
				got     map[string]bool
				hostsN  int
				dupHost bool
				missing int
				want    int
			}
			var answers []answer
			totalMissing := 0
			for ii, ih := range ihs {
				for qi, q := range reqs {
					if len(ihs) > 1 && qi != (ii+round)%len(reqs) && qi != (ii+round+1)%len(reqs) {
						continue // several infohashes: two requesters each
					}
					t := fmt.Sprintf("g%d.%d.%d.%d", round, ii, qi, attempt)
					key := floodKey(t, q.addr)
					g.push(bencode.MustMarshal(krpc.Msg{Q: "get_peers", Y: "q", T: t, A: &krpc.MsgArgs{ID: reqID, InfoHash: ih, Want: q.wants}}), q.addr)
					g.awaitAll([]string{key}, 10*time.Second)
					m := g.replies[key]
					an := answer{qi: qi, ii: ii, m: m, got: map[string]bool{}}
					if m != nil && m.R != nil {
						hostSeen := map[string]bool{}
						for _, v := range m.R.Values {
							an.got[floodEp(v.IP, v.Port)] = true
							if hostSeen[string(v.IP.To16())] {
								an.dupHost = true
							}
							hostSeen[string(v.IP.To16())] = true
						}
						an.hostsN = len(hostSeen)
						wants4, wants6 := q.families()
						for ipk, port := range expect[ih] {
							ip := net.IP(ipk)
							if wants6 || (wants4 && ip.To4() != nil) {
								an.want++
								if !an.got[floodEp(ip, port)] {
									an.missing++
								}
							}
						}
					}
					totalMissing += an.missing
					answers = append(answers, an)
				}
			}
			if totalMissing > 0 && !final {
				time.Sleep([]time.Duration{300 * time.Millisecond, 1500 * time.Millisecond}[attempt])
				continue
			}
			for _, an := range answers {
				q := reqs[an.qi]
				ih := ihs[an.ii]
				m := an.m
				if m == nil || m.R == nil {
					oracle("C11", "get_peers-not-answered:api-flood", "%s requester=%s", ctxs, q.addr)
					continue
				}
				if m.R.Token == nil {
					oracle("C11", "get_peers-reply-without-token:api-flood", "%s requester=%s", ctxs, q.addr)
				}
				for v := range an.got {
					if !attempted[ih][v] {
						oracle("C11", "get_peers-returned-unannounced-endpoint:api-flood", "%s requester=%s ih=%x value=%s", ctxs, q.addr, ih, v)
					}
				}
				if an.dupHost {
					oracle("C11", "get_peers-lists-one-host-twice:api-flood", "%s requester=%s ih=%x", ctxs, q.addr, ih)
				}
				if an.missing > 0 {
					roundLost = true
					if mode.closing {
						oracle("C11", "acknowledged-announce-lost-when-server-closed:flood-"+closedAt, "%s requester=%s ih=%x acknowledged=%d listed=%d missing=%d (sibling server on the same store)", ctxs, q.addr, ih, an.want, len(an.got), an.missing)
					} else {
						oracle("C11", "accepted-announce-missing-from-get_peers:announce-flood-"+c.mix, "%s requester=%s ih=%x floods=%d acknowledged-hosts=%d returned=%d missing-or-stale=%d store-at-rest=%d", ctxs, q.addr, ih, nFloods, an.want, len(an.got), an.missing, b2i(settled))
					}
				}
				// model line: floods fully acknowledged (else which announces count is still stated by the oracle above)
				if allAcked && (len(ihs) > 1 || an.qi%2 == round%2) && (len(history) <= 300 || bigLines < 3) && lines < 40 {
					if len(history) > 300 {
						bigLines++
					}
					lines++
					emit("apeers %d.%d.%d.%d %s %s %s %s => %s", idx, round, an.ii, an.qi, hx(ih[:]), hx(q.addr.IP), q.wtok(), apiAnnToks(hist), apiAddrToks(m.R.Values))
				}
			}
			break
		}
		// the store's own listing at the end of the round (after the waits above)
		if allAcked && (len(history) <= 300 || bigLines < 5) && lines < 50 {
			for _, ih := range ihs {
				if len(history) > 300 {
					bigLines++
				}
				lines++
				emit("astore %d.%d %s %s => %s", idx, round, hx(ih[:]), apiAnnToks(hist), apiAddrToks(inner.GetPeers(peer_store.InfoHash(ih))))
			}
		}
		if mode.closing {
			g.close()
		}
		if roundLost {
			lost++
		}
		for k := range f.replies {
			delete(f.replies, k)
		}
		// a few announces of this round stay in the model's history of later rounds
		if len(history) > 0 {
			older = append(older, history[len(history)-1])
			if len(history) > 3 {
				older = append(older, history[0])
			}
			if len(older) > 12 {
				older = older[len(older)-12:]
			}
		}
		out.Flush()
	}
	emit("# api case=%d %s floods=%d largest-acknowledged=%d model-lines=%d rounds-with-loss=%d rounds-not-at-rest=%d", idx, c, floods, maxAcked, lines, lost, unsettled)
}
