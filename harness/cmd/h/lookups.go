package main

// Engine "lookups" (C16, C14 owners, C12 client side, C01 reply consumers): the real Server.Announce /
// AnnounceTraversal, Server.Bootstrap(Context), getput.Get and getput.Put against simulated networks that
// answer on the fake conn.
//
// Determinism by construction.
//   * The network is a single scheduler goroutine: every query datagram the server writes is queued (from the
//     conn's onWrite hook), queries are numbered in the order they left, and the scheduler answers ONE pending
//     query at a time (seeded choice), waiting for the effect of each reply before going on.  Everything the
//     scheduler does to the code is printed in that order (lkissue / lkreply / lkctx / lkclose / lkstoptrav /
//     lkconsumerstop) and replayed by the model.
//   * Timers: a query to a node that is going to answer has a resend delay of one hour, a query to a silent
//     node (or one whose reply cannot be decoded) of 2 ms.  The delay function cannot see which query calls it,
//     so the conn's write hook takes a lock that the second of the two QueryResendDelay calls every
//     single-try query makes right after its write releases again: write, call, call are one atomic group.
//   * Quiescence is counted, not slept for: outstanding transactions back to 0, goroutines back to the
//     baseline taken before the case's server was created (bounded waits = the liveness oracles).
//
// Cases run in child processes (a nil dereference in a query goroutine kills the process): a dead child is
// reported as `oracle C01 process-died:<site>` and `oracle C12 client-panic-on-reply`.

import (
	"bytes"
	"context"
	"crypto/ed25519"
	"crypto/sha1"
	"errors"
	"fmt"
	"math"
	"math/big"
	"net"
	"os"
	"os/exec"
	"regexp"
	"runtime"
	"sort"
	"strconv"
	"strings"
	"sync"
	"sync/atomic"
	"time"

	"github.com/anacrolix/log"
	"github.com/anacrolix/torrent/bencode"
	"golang.org/x/time/rate"

	dht "github.com/anacrolix/dht/v2"
	"github.com/anacrolix/dht/v2/bep44"
	"github.com/anacrolix/dht/v2/exts/getput"
	"github.com/anacrolix/dht/v2/krpc"
)

func init() { engines["lookups"] = lookupsEngine }

// ---------------------------------------------------------------- simulated network

type lkItem struct {
	v   []byte // bencoded value, nil = absent
	k   *[32]byte
	sig *[64]byte
	seq *int64
}

type lkNode struct {
	addr      *net.UDPAddr
	id        [20]byte
	kind      string  // r | err | silent | badtype | badlen
	token     *string // nil = no token
	values    []krpc.NodeAddr
	lists     []int // indices of the nodes it returns in "nodes"
	ghosts    int   // additional non-existent nodes it lists
	item      *lkItem
	annSilent bool            // does not answer announce_peer / put
	noID      bool            // the reply's r dict carries no id
	nodes6    bool            // also returns its list in nodes6 (as v4-mapped garbage is not possible: sends real v6-format entries)
	genuine   bool            // (getput) the item is a genuine one
	flavour   string          // description of the item
	form      string          // how the address is handed to the server: "" = 4-byte IPv4, "mapped" = 16-byte IPv4-mapped, "v6" = real IPv6
	extra     []krpc.NodeInfo // lookups_closest.go: further entries of its nodes (4-byte IP) / nodes6 lists, verbatim
	errCode   int             // lookups_r6.go: kind "err": the KRPC error code (0 with errForm "" = 201 "no")
	errForm   string          // lookups_r6.go: kind "err": shape of the e value (list, string, malformed ...)
}

type lkCase struct {
	idx      int
	api      string // bootstrap announce get put
	sn       string // ok err empty
	target   [20]byte
	annOpts  bool
	annPort  int
	annImp   bool
	scrape   bool
	viaTrav  bool // AnnounceTraversal instead of Announce
	salt     []byte
	pub      ed25519.PublicKey
	priv     ed25519.PrivateKey
	mutable  bool
	seqArg   *int64 // getput.Get's "only if newer than" argument
	putValue string
	nodes    []*lkNode
	start    []int
	stopAt   int    // number of replies after which the stop action happens; -1 = never
	stopAct  string // ctx close stoptrav
	consStop int    // consumer stops reading after this many deliveries; -1 = reads to the end
	slow     bool   // the consumer takes its time between two receives; the network does not wait for it
	gated    bool   // the consumer starts reading only after the stop action: the responses served before it are pending deliveries then
	reps     int
	desc     string
	sub      uint64
	d10      bool
	fault    *lkFault   // lookups_fault.go: write faults, busy Get consumer, reply order
	race     *lkRace    // lookups_stop.go: the stop lands inside the processing of a reply / while the consumer pauses
	block    *lkBlock   // lookups_block.go: the server has an IP blocklist and the network tells the lookup about blocked addresses
	lim      *lkLim     // lookups_limiter.go: a SendLimiter that limits; nodes that do not acknowledge announce_peer / put
	cl       *lkClosest // lookups_closest.go: result-set / exhaustiveness / cancellation cases (C02, C03, C04)
	r6       *lkR6      // lookups_r6.go: the socket reports inbound sources in the other byte form
}

func (c *lkCase) name() string { return fmt.Sprintf("%s/%s", c.api, c.desc) }

func refBufferToSign(salt, bv []byte, seq int64) []byte {
	var b []byte
	if len(salt) != 0 {
		b = append(b, []byte(fmt.Sprintf("4:salt%d:", len(salt)))...)
		b = append(b, salt...)
	}
	b = append(b, []byte(fmt.Sprintf("3:seqi%de1:v", seq))...)
	return append(b, bv...)
}

func lkXorDist(a, b [20]byte) *big.Int {
	var x [20]byte
	for i := range x {
		x[i] = a[i] ^ b[i]
	}
	return new(big.Int).SetBytes(x[:])
}

// ---------------------------------------------------------------- running state

type lkQuery struct {
	n    int // traversal query number, -1 for announce_peer / put
	t    string
	q    string
	dest *net.UDPAddr
	msg  *krpc.Msg
	node *lkNode
}

type lkSend struct {
	dest          string
	token         string
	ih            string
	port, implied int
	seq           int64
	destAddr      *net.UDPAddr
}

type lkState struct {
	c          *lkCase
	rep        int
	conn       *fakeConn
	s          *dht.Server
	queue      chan *lkQuery
	gateMu     chan struct{} // 1-slot lock
	gateCur    time.Duration
	gatePh     int
	byAddr     map[string]*lkNode
	nq         int
	sends      []lkSend
	mu         sync.Mutex
	peers      []string
	nDeliv     int64
	consDone   chan struct{}
	served     map[string]int // addr -> replies with R served
	gateBroken int32
	fx         *lkFaultState   // lookups_fault.go
	cx         *lkClosestState // lookups_closest.go
	r6Base     int             // lookups_r6.go: goroutines inside traversal / getput frames before the API call
}

func dumpReturn(r *krpc.Return) string {
	m := krpc.Msg{Y: "r", R: r}
	return hx([]byte(dumpMsg(&m)))
}

func (st *lkState) delayFor(q *lkQuery) time.Duration {
	n := q.node
	if n == nil {
		return 2 * time.Millisecond
	}
	if q.q == "announce_peer" || q.q == "put" {
		if n.annSilent {
			return 2 * time.Millisecond
		}
		return time.Hour
	}
	if st.replyFor(q) == nil {
		return 2 * time.Millisecond
	}
	return time.Hour
}

// replyFor builds the datagram the node sends back, nil when it stays silent or the datagram is one the
// server cannot decode (which is the same to the query).
func (st *lkState) replyFor(q *lkQuery) []byte {
	n := q.node
	if n == nil {
		return nil
	}
	switch n.kind {
	case "silent":
		return nil
	case "err":
		return st.r6ErrReply(q) // lookups_r6.go: 201 "no" unless the node has a code / form of its own
	case "badtype":
		// token is an integer: the whole message fails to decode
		return nil
	case "badlen":
		return nil
	}
	ret := &krpc.Return{}
	if !n.noID {
		ret.ID = n.id
	}
	if n.token != nil {
		t := *n.token
		ret.Token = &t
	}
	if q.q == "get_peers" && len(n.values) > 0 {
		ret.Values = n.values
	}
	var nis krpc.CompactIPv4NodeInfo
	var nis6 krpc.CompactIPv6NodeInfo
	for _, i := range n.lists {
		o := st.c.nodes[i]
		if o.form == "" {
			nis = append(nis, krpc.NodeInfo{ID: o.id, Addr: krpc.NodeAddr{IP: o.addr.IP.To4(), Port: o.addr.Port}})
		} else {
			// 16-byte forms travel in nodes6: real IPv6 nodes, and IPv4 nodes some remote lists v4-mapped
			nis6 = append(nis6, krpc.NodeInfo{ID: o.id, Addr: krpc.NodeAddr{IP: o.addr.IP.To16(), Port: o.addr.Port}})
		}
	}
	if nis6 != nil {
		ret.Nodes6 = nis6
	}
	for g := 0; g < n.ghosts; g++ {
		var gid [20]byte
		copy(gid[:], n.id[:])
		gid[0] ^= byte(0x80 >> uint(g%7))
		gid[19] = byte(g + 1)
		nis = append(nis, krpc.NodeInfo{ID: gid, Addr: krpc.NodeAddr{IP: net.IPv4(172, 16, byte(n.addr.Port), byte(g+1)).To4(), Port: 30000 + g}})
	}
	for _, e := range n.extra { // lookups_closest.go
		if len(e.Addr.IP) == 4 {
			nis = append(nis, e)
		} else {
			ret.Nodes6 = append(ret.Nodes6, e)
		}
	}
	if nis != nil {
		ret.Nodes = nis
	}
	if (q.q == "get") && n.item != nil {
		it := n.item
		if it.v != nil {
			ret.V = it.v
		}
		if it.k != nil {
			ret.K = *it.k
		}
		if it.sig != nil {
			ret.Sig = *it.sig
		}
		if it.seq != nil {
			s := *it.seq
			ret.Seq = &s
		}
	}
	b, err := bencode.Marshal(krpc.Msg{T: q.t, Y: "r", R: ret})
	if err != nil {
		panic(err)
	}
	if _, ok := decodeLikeServer(b); !ok {
		return nil
	}
	return b
}

// raw (undecodable) datagrams for the badtype / badlen kinds: they are sent as well (C01: must not hurt).
func (st *lkState) garbageFor(q *lkQuery) []byte {
	n := q.node
	if n == nil {
		return nil
	}
	switch n.kind {
	case "err":
		return st.r6ErrGarbage(q) // lookups_r6.go: malformed errors
	case "badtype":
		return []byte(fmt.Sprintf("d1:rd2:id20:%s5:tokeni7ee1:t%d:%s1:y1:re", string(n.id[:]), len(q.t), q.t))
	case "badlen":
		return []byte(fmt.Sprintf("d1:rd2:id20:%s1:k5:short3:seqi1e1:v1:xe1:t%d:%s1:y1:re", string(n.id[:]), len(q.t), q.t))
	}
	return nil
}

func (st *lkState) lockGate() bool {
	select {
	case st.gateMu <- struct{}{}:
		return true
	case <-time.After(3 * time.Second):
		if atomic.CompareAndSwapInt32(&st.gateBroken, 0, 1) {
			oracle("C14", "harness-gate-pairing-broken", "a query write was not followed by two QueryResendDelay calls: case=%d %s", st.c.idx, st.c.name())
		}
		return false
	}
}

func (st *lkState) onWrite(b []byte, addr *net.UDPAddr) {
	m, ok := decodeLikeServer(b)
	if !ok || m.Y != "q" {
		return
	}
	q := &lkQuery{n: -1, t: m.T, q: m.Q, dest: addr, msg: m, node: st.byAddr[addr.String()]}
	if st.lockGate() {
		st.gateCur = st.delayFor(q)
		st.gatePh = 0
	}
	st.queue <- q
}

func (st *lkState) resendDelay() time.Duration {
	// called twice in a row by the goroutine that has just written (NumTries = 1 everywhere here)
	d := st.gateCur
	if st.gatePh == 0 {
		st.gatePh = 1
		return d
	}
	st.gatePh = 0
	select {
	case <-st.gateMu:
	default:
	}
	return d
}

// lkStableGoroutines returns the goroutine count once it has not changed for a while (used only to take a
// baseline at a point where everything the code does is waiting for the harness).
func lkStableGoroutines() int {
	last, same := runtime.NumGoroutine(), 0
	for i := 0; i < 4000 && same < 20; i++ {
		time.Sleep(50 * time.Microsecond)
		n := runtime.NumGoroutine()
		if n == last {
			same++
		} else {
			last, same = n, 0
		}
	}
	return last
}

// ipHex: the canonical form of an address for the model (an IPv4 address is the same node whether the code holds
// it in 4 or in 16 bytes)
func ipHex(ip net.IP) string {
	if v4 := ip.To4(); v4 != nil {
		return hx(v4)
	}
	return hx(ip.To16())
}

func addrTok(a *net.UDPAddr) string { return fmt.Sprintf("%s:%d", ipHex(a.IP), a.Port) }

// ---------------------------------------------------------------- one case

type lkResult struct {
	res     string
	closed  bool
	done    bool
	err     error
	getRet  getput.GetResult
	autoSeq int64
	stuck   bool
}

func runLookupCase(c *lkCase, base0 int) (leak int) {
	// ed25519 verdict table for the model: every (k, buffer, sig) the client may check
	var ents []string
	seen := map[string]bool{}
	for _, n := range c.nodes {
		it := n.item
		if it == nil || it.k == nil || it.seq == nil {
			continue
		}
		var sig [64]byte
		if it.sig != nil {
			sig = *it.sig
		}
		buf := refBufferToSign(c.salt, it.v, *it.seq)
		ok := ed25519.Verify(ed25519.PublicKey(it.k[:]), buf, sig[:])
		e := fmt.Sprintf("%s:%s:%s:%d", hx(it.k[:]), hx(buf), hx(sig[:]), b2i(ok))
		if !seen[e] {
			seen[e] = true
			ents = append(ents, e)
		}
	}
	sort.Strings(ents)
	if len(ents) > 0 {
		emit("lkedtable %d %s => ok", len(ents), strings.Join(ents, " "))
	}
	ann := "-"
	if c.api == "announce" && c.annOpts {
		ann = fmt.Sprintf("%d:%d", c.annPort, b2i(c.annImp))
	}
	tgt, salt := "-", "-"
	if c.api == "get" || c.api == "put" {
		tgt = hx(c.target[:])
		salt = hx(c.salt)
	}
	emit("lkbegin %d %s %s %s %s %s %s => ok", c.idx, c.api, c.sn, hx(c.target[:]), ann, tgt, salt)
	out.Flush()

	var last *lkState
	var lastRes lkResult
	for rep := 0; rep < c.reps; rep++ {
		st, res := runLookupOnce(c, rep, rep == c.reps-1)
		last, lastRes = st, res
	}
	st := last
	// ---- final observables of the last repetition (the others are identical runs for leak accumulation) ----
	var ss []string
	for _, s := range st.sends {
		ss = append(ss, fmt.Sprintf("%s|%s|%s|%d|%d|%d", s.dest, s.token, s.ih, s.port, s.implied, s.seq))
	}
	sort.Strings(ss)
	st.mu.Lock()
	ps := append([]string(nil), st.peers...)
	st.mu.Unlock()
	sort.Strings(ps)
	leak = waitGoroutines(base0, 1500*time.Millisecond)
	doneFlag := 1
	if leak > 0 || lastRes.stuck {
		doneFlag = 0
	}
	emit("lkend %d => sends %d %s peers %d %s closed %d res %s done %d panic 0", c.idx, len(ss), strings.Join(ss, " "), len(ps), strings.Join(ps, " "),
		b2i(lastRes.closed), lastRes.res, doneFlag)
	if leak > 0 {
		key := "goroutine-leak:" + c.api
		if c.d10 {
			key = "goroutine-leak:announce-close-nonreading"
		}
		oracle("C14", key, "+%d goroutines after %d repetition(s) case=%d %s sn=%s seed-sub=%d", leak, c.reps, c.idx, c.name(), c.sn, c.sub)
	}
	out.Flush()
	return leak
}

func runLookupOnce(c *lkCase, rep int, report bool) (*lkState, lkResult) {
	if c.race != nil {
		return runLookupRaceOnce(c, rep, report) // lookups_stop.go
	}
	if c.block != nil {
		return runLookupBlockOnce(c, rep, report) // lookups_block.go
	}
	if c.lim != nil {
		return runLookupLimOnce(c, rep, report) // lookups_limiter.go
	}
	r := (&rng{s: c.sub}).sub(0)
	st := &lkState{c: c, rep: rep, conn: newFakeConn(), queue: make(chan *lkQuery, 8192), gateMu: make(chan struct{}, 1),
		byAddr: map[string]*lkNode{}, served: map[string]int{}, consDone: make(chan struct{})}
	for _, n := range c.nodes {
		st.byAddr[n.addr.String()] = n
	}
	st.conn.onWrite = st.onWrite
	say := func(format string, a ...interface{}) {
		if report {
			emit(format, a...)
			out.Flush()
		}
	}
	cfg := &dht.ServerConfig{
		Conn:             st.r6Conn(st.packetConn()), // lookups_r6.go
		NoSecurity:       true,
		QueryResendDelay: st.resendDelay,
		Logger:           log.NewLogger().FilterLevel(log.Critical),
		SendLimiter:      rate.NewLimiter(rate.Inf, 1),
		Store:            bep44.NewMemory(),
		Exp:              2 * time.Hour,
		StartingNodes: func() ([]dht.Addr, error) {
			switch c.sn {
			case "err":
				return nil, errors.New("resolver failed")
			case "empty":
				return nil, nil
			}
			var as []dht.Addr
			for _, i := range c.start {
				as = append(as, dht.NewAddr(c.nodes[i].addr))
			}
			return as, nil
		},
	}
	cfg.NodeId[0], cfg.NodeId[19] = 0x42, 0x24
	s, err := dht.NewServer(cfg)
	if err != nil {
		panic(err)
	}
	st.s = s
	for atomic.LoadInt64(&st.conn.reads) == 0 {
		time.Sleep(20 * time.Microsecond)
	}

	ctx, cancel := context.WithCancel(context.Background())
	defer cancel()
	var res lkResult
	apiDone := make(chan struct{})
	var a *dht.Announce
	annReady := make(chan struct{})
	consumerStopped := make(chan struct{})
	consumerGo := make(chan struct{})
	st.r6Before() // lookups_r6.go
	switch c.api {
	case "bootstrap":
		go func() {
			var err error
			if c.cl != nil && c.cl.k > 0 {
				err = st.closestTraversal(ctx, s) // lookups_closest.go: traversal.Start wired like Bootstrap, K of the case
			} else {
				_, err = s.BootstrapContext(ctx)
			}
			res.err = err
			close(apiDone)
		}()
	case "announce":
		go func() {
			var opts []dht.AnnounceOpt
			if c.scrape {
				opts = append(opts, dht.Scrape())
			}
			var err error
			if c.viaTrav {
				if c.annOpts {
					opts = append(opts, dht.AnnouncePeer(dht.AnnouncePeerOpts{Port: c.annPort, ImpliedPort: c.annImp}))
				}
				a, err = s.AnnounceTraversal(c.target, opts...)
			} else {
				port, imp := 0, false
				if c.annOpts {
					port, imp = c.annPort, c.annImp
				}
				a, err = s.Announce(c.target, port, imp, opts...)
			}
			res.err = err
			close(annReady)
			if err != nil {
				close(apiDone)
				close(st.consDone)
				return
			}
			// the consumer
			go func() {
				defer close(st.consDone)
				if c.gated {
					<-consumerGo
				}
				n := 0
				stopped := false
				for pv := range a.Peers {
					st.mu.Lock()
					st.peers = append(st.peers, fmt.Sprintf("%s:%d|%s|%s", ipHex(pv.NodeInfo.Addr.IP), pv.NodeInfo.Addr.Port, hx(pv.NodeInfo.ID[:]), dumpReturn(&pv.Return)))
					st.mu.Unlock()
					atomic.AddInt64(&st.nDeliv, 1)
					n++
					if c.slow {
						time.Sleep(2 * time.Millisecond)
					}
					if c.consStop >= 0 && n >= c.consStop && !stopped {
						stopped = true
						close(consumerStopped)
						return
					}
				}
			}()
			<-a.Finished()
			close(apiDone)
		}()
	case "get":
		go func() {
			var saltArg []byte
			if c.mutable {
				saltArg = c.salt
			}
			ret, _, err := getput.Get(st.apiCtx(ctx), c.target, s, c.seqArg, saltArg)
			res.getRet, res.err = ret, err
			close(apiDone)
		}()
	case "put":
		go func() {
			_, err := getput.Put(ctx, c.target, s, c.salt, func(seq int64) bep44.Put {
				atomic.StoreInt64(&res.autoSeq, seq)
				p := bep44.Put{V: c.putValue, Salt: c.salt, Seq: seq}
				if c.mutable {
					var k [32]byte
					copy(k[:], c.pub)
					p.K = &k
					p.Sign(c.priv)
				}
				return p
			})
			res.err = err
			close(apiDone)
		}()
	}
	if c.api == "announce" && c.consStop == 0 {
		// a consumer that never reads at all
	}

	// ---------------- the network scheduler ----------------
	var pending []*lkQuery
	replies := 0
	stopped := false
	consStopSaid := false
	deadline := time.Now().Add(8 * time.Second)
	drain := func() {
		for {
			select {
			case q := <-st.queue:
				switch q.q {
				case "announce_peer", "put":
					sd := lkSend{dest: addrTok(q.dest), token: hx([]byte(q.msg.A.Token)), destAddr: q.dest}
					if q.q == "announce_peer" {
						sd.ih = hx(q.msg.A.InfoHash[:])
						if q.msg.A.Port != nil {
							sd.port = *q.msg.A.Port
						}
						sd.implied = b2i(q.msg.A.ImpliedPort)
					} else {
						sd.ih = hx(c.target[:])
						if q.msg.A.Seq != nil {
							sd.seq = *q.msg.A.Seq
						}
					}
					st.sends = append(st.sends, sd)
					if q.node != nil && !q.node.annSilent {
						b, _ := bencode.Marshal(krpc.Msg{T: q.t, Y: "r", R: &krpc.Return{ID: q.node.id}})
						st.conn.inject(b, q.dest, 2*time.Second)
					}
				default:
					q.n = st.nq
					st.nq++
					say("lkissue %d %s => ok", q.n, addrTok(q.dest))
					st.closestIssued(q, report) // lookups_closest.go
					if g := st.garbageFor(q); g != nil {
						st.conn.inject(g, q.dest, 2*time.Second)
					}
					if st.replyFor(q) != nil && !st.closestWithheld(q) {
						pending = append(pending, q)
					}
				}
			default:
				return
			}
		}
	}
	isDone := func() bool {
		select {
		case <-apiDone:
			return true
		default:
			return false
		}
	}
	for {
		drain()
		if c.api == "announce" && !consStopSaid {
			select {
			case <-consumerStopped:
				consStopSaid = true
				say("lkconsumerstop => ok")
			default:
			}
		}
		// The stop action is performed only while a query to a responsive node is still unanswered: the traversal
		// cannot stall then (that query's timer is an hour), so "stop before the end" is not a race with the end.
		if !stopped && c.stopAt >= 0 && replies >= c.stopAt && len(pending) == 0 && isDone() {
			stopped = true // the lookup ended before the stop point came: nothing to stop
		}
		if !stopped && c.stopAt >= 0 && replies >= c.stopAt && len(pending) > 0 {
			if c.api == "announce" {
				<-annReady
			}
			if c.api == "announce" && c.consStop >= 0 && c.consStop <= replies && !consStopSaid && a != nil {
				// the stop action comes after the consumer has given up
				select {
				case <-consumerStopped:
					consStopSaid = true
					say("lkconsumerstop => ok")
				case <-time.After(2 * time.Second):
				}
			}
			stopped = true
			switch c.stopAct {
			case "ctx":
				cancel()
			case "close":
				if a != nil {
					a.Close()
				}
			case "stoptrav":
				if a != nil {
					a.StopTraversing()
				}
			}
			// Queries the run loop was in the middle of starting when the stop came still leave (and are cancelled at
			// once): wait until nothing moves any more, so that they are reported before the stop event.  Should one
			// be later still, the model accepts it as what it is (drv_lookups: a TIssue that precedes the Stop).
			time.Sleep(2 * time.Millisecond)
			lkStableGoroutines()
			drain()
			if c.gated {
				// give the announce goroutine the time to get as far as it can while nobody reads (it has to wait
				// for Stopped, i.e. for the pending deliveries); only then does the consumer start reading, slowly
				time.Sleep(3 * time.Millisecond)
				close(consumerGo)
			}
			if c.api == "put" {
				// Put's consumer takes the served values one by one; on a loaded machine it can lag behind the replies
				// already delivered although no goroutine count moves (seen once in a fresh sandbox and under 16 busy
				// loops: `res ctx:1` against the model's `ctx:3`). The stop belongs AFTER the replies of the history:
				// wait (bounded) until the consumer has seen the newest genuine version served so far.
				var max int64
				for _, n := range c.nodes {
					if n.genuine && n.item != nil && n.item.seq != nil && st.served[n.addr.String()] > 0 && *n.item.seq > max {
						max = *n.item.seq
					}
				}
				for dl := time.Now().Add(3 * time.Second); atomic.LoadInt64(&res.autoSeq) < max && time.Now().Before(dl); {
					time.Sleep(200 * time.Microsecond)
				}
			}
			switch c.stopAct {
			case "ctx":
				say("lkctx => ok")
			case "close":
				if a != nil {
					say("lkclose => ok")
				}
			case "stoptrav":
				if a != nil {
					say("lkstoptrav => ok")
				}
			}
			if c.api != "bootstrap" {
				pending = nil // the in-flight queries are cancelled with the traversal
			}
			continue
		}
		if stopped && c.api != "bootstrap" {
			pending = nil
		}
		if len(pending) > 0 && st.replyReady() {
			i := st.pickReply(pending, r)
			q := pending[i]
			pending = append(pending[:i], pending[i+1:]...)
			b := st.replyFor(q)
			m, _ := decodeLikeServer(b)
			hasR := m.R != nil
			id, tok, payload, v, k, sig, seq := "-", "none", "-", "-", "-", "-", "-"
			if hasR {
				id = hx(m.R.ID[:])
				if m.R.Token != nil {
					tok = hx([]byte(*m.R.Token))
				}
				payload = dumpReturn(m.R)
				if len(m.R.V) > 0 {
					v = hx(m.R.V)
				}
				if !isZero(m.R.K[:]) {
					k = hx(m.R.K[:])
				}
				if !isZero(m.R.Sig[:]) {
					sig = hx(m.R.Sig[:])
				}
				if m.R.Seq != nil {
					seq = fmt.Sprint(*m.R.Seq)
				}
			}
			say("lkreply %d %d %s %s %s %s %s %s %s => ok", q.n, b2i(hasR), id, tok, payload, v, k, sig, seq)
			st.closestServed(q, m) // lookups_closest.go
			before := atomic.LoadInt64(&st.nDeliv)
			gBefore := 0
			if c.gated && !stopped {
				gBefore = lkStableGoroutines()
			}
			if !st.conn.inject(b, q.dest, 3*time.Second) {
				oracle("C01", "serve-loop-stuck", "reply not taken case=%d %s", c.idx, c.name())
			}
			replies++
			if hasR {
				st.served[q.dest.String()]++
			}
			// the effect: for an announce whose consumer reads, the response shows up on Peers
			if c.api == "announce" && hasR && !c.slow && (c.consStop < 0 || int(before) < c.consStop) {
				dl := time.Now().Add(2 * time.Second)
				for atomic.LoadInt64(&st.nDeliv) == before && time.Now().Before(dl) {
					time.Sleep(20 * time.Microsecond)
				}
				if atomic.LoadInt64(&st.nDeliv) == before {
					oracle("C16", "response-not-delivered", "get_peers response of %v not on Peers within 2s case=%d %s sub=%d", q.dest, c.idx, c.name(), c.sub)
				}
			}
			if c.gated && !stopped && hasR {
				// nobody receives from Peers yet: the response is received when its Query has returned and getPeers is
				// blocked in the send -- the query's sender goroutine is gone then and nothing else has changed
				dl := time.Now().Add(2 * time.Second)
				ok := 0
				for ok < 3 && time.Now().Before(dl) {
					if runtime.NumGoroutine() == gBefore-1 {
						ok++
					} else {
						ok = 0
					}
					time.Sleep(50 * time.Microsecond)
				}
				if ok < 3 {
					oracle("C14", "harness-pending-delivery-not-reached", "goroutines %d, expected %d: case=%d %s", runtime.NumGoroutine(), gBefore-1, c.idx, c.name())
				}
			}
			for i := 0; i < 20; i++ {
				runtime.Gosched()
			}
			time.Sleep(150 * time.Microsecond)
			continue
		}
		if isDone() && len(st.queue) == 0 {
			break
		}
		if time.Now().After(deadline) {
			res.stuck = true
			key := "lookup-did-not-return:" + c.api
			prop := "C14"
			if c.api == "announce" {
				prop, key = "C16", "peers-not-closed"
				if c.d10 {
					key = "peers-not-closed:close-with-nonreading-consumer"
				}
			}
			oracle(prop, key, "no end within 8s case=%d %s sn=%s stop=%s@%d sub=%d", c.idx, c.name(), c.sn, c.stopAct, c.stopAt, c.sub)
			st.r6Stuck() // lookups_r6.go
			break
		}
		st.faultIdle()
		select {
		case q := <-st.queue:
			st.queue <- q // put back and let drain() number it (the queue is deep enough)
		case <-apiDone:
		case <-time.After(200 * time.Microsecond):
		}
	}
	drain()

	// ---------------- results ----------------
	switch c.api {
	case "bootstrap":
		res.res = lkErrClass(res.err, "ok")
	case "announce":
		if res.err != nil {
			res.res = "start"
		} else {
			res.res = "ok"
			if res.stuck {
				// unblock whatever is waiting for the consumer so that the case can be cleaned up
				go func() {
					for range a.Peers {
					}
				}()
				select {
				case <-a.Finished():
				case <-time.After(2 * time.Second):
				}
			}
			select {
			case <-st.consDone:
				res.closed = true
			case <-time.After(300 * time.Millisecond):
				// the consumer gave up reading: closed means the channel is closed now
				select {
				case _, ok := <-a.Peers:
					res.closed = !ok
				case <-time.After(300 * time.Millisecond):
				}
			}
			if res.stuck {
				res.closed = false
			}
			if !res.closed && !res.stuck {
				oracle("C16", "peers-not-closed", "Finished() but Peers still open case=%d %s sub=%d", c.idx, c.name(), c.sub)
			}
		}
	case "get":
		if res.err != nil {
			res.res = lkErrClass(res.err, "")
		} else {
			sq := "-"
			if res.getRet.Mutable {
				sq = fmt.Sprint(res.getRet.Seq)
			}
			res.res = fmt.Sprintf("val:%s:%s:%d", sq, hx(res.getRet.V), b2i(res.getRet.Mutable))
		}
	case "put":
		as := atomic.LoadInt64(&res.autoSeq)
		if res.err != nil {
			cl := lkErrClass(res.err, "")
			if cl == "ctx" {
				res.res = fmt.Sprintf("ctx:%d", as)
			} else {
				res.res = cl
			}
		} else {
			res.res = fmt.Sprintf("ok:%d", as)
		}
	}
	if report {
		st.oracles(&res)
		st.faultOracles(&res)
		st.closestOracles(&res) // lookups_closest.go
	}
	st.closestQuiescence(&res, report) // lookups_closest.go
	st.r6AfterReturn(&res)             // lookups_r6.go: goroutines of a returned Get / Put, caller context still alive
	// ---------------- quiescence ----------------
	dl := time.Now().Add(2 * time.Second)
	for s.Stats().OutstandingTransactions != 0 && time.Now().Before(dl) {
		time.Sleep(100 * time.Microsecond)
	}
	if n := s.Stats().OutstandingTransactions; n != 0 {
		oracle("C14", "transaction-leak", "outstanding=%d after %s ended case=%d %s sub=%d", n, c.api, c.idx, c.name(), c.sub)
	}
	cancel()
	s.Close()
	return st, res
}

func lkErrClass(err error, ok string) string {
	switch {
	case err == nil:
		return ok
	case errors.Is(err, context.Canceled):
		return "ctx"
	case strings.Contains(err.Error(), "value not found"):
		return "notfound"
	case strings.Contains(err.Error(), "starting nodes"), strings.Contains(err.Error(), "no initial nodes"):
		return "start"
	}
	return "err:" + strings.ReplaceAll(err.Error(), " ", "_")
}

// ---------------------------------------------------------------- oracles (implementation only)

func (st *lkState) oracles(res *lkResult) {
	c := st.c
	tag := fmt.Sprintf("case=%d %s sub=%d", c.idx, c.name(), c.sub)
	switch c.api {
	case "announce":
		if res.err != nil {
			return
		}
		// expected closest: the K = 8 responders with a token that are nearest to the infohash
		type cand struct {
			n *lkNode
			d *big.Int
		}
		var cs []cand
		for _, n := range c.nodes {
			if st.served[n.addr.String()] > 0 && n.token != nil && n.kind == "r" {
				cs = append(cs, cand{n, lkXorDist(n.id, c.target)})
			}
		}
		sort.Slice(cs, func(i, j int) bool { return cs[i].d.Cmp(cs[j].d) < 0 })
		if len(cs) > 8 {
			cs = cs[:8]
		}
		closest := map[string]*lkNode{}
		for _, x := range cs {
			closest[addrTok(x.n.addr)] = x.n
		}
		got := map[string]int{}
		for _, sd := range st.sends {
			got[sd.dest]++
			n, in := closest[sd.dest]
			if !in {
				oracle("C16", "announce-to-non-closest", "announce_peer to %s which is not among the %d closest responders with a token: %s", sd.dest, len(cs), tag)
				continue
			}
			if sd.token != hx([]byte(*n.token)) {
				oracle("C16", "wrong-token", "announce_peer to %s carries %s, that node issued %s: %s", sd.dest, sd.token, hx([]byte(*n.token)), tag)
			}
			if sd.ih != hx(c.target[:]) {
				oracle("C16", "wrong-infohash", "announce_peer to %s carries %s: %s", sd.dest, sd.ih, tag)
			}
			if sd.port != c.annPort || sd.implied != b2i(c.annImp) {
				oracle("C16", "wrong-port-args", "announce_peer to %s port=%d implied=%d, configured %d/%v: %s", sd.dest, sd.port, sd.implied, c.annPort, c.annImp, tag)
			}
			if got[sd.dest] > 1 {
				oracle("C16", "announced-twice", "announce_peer to %s sent %d times: %s", sd.dest, got[sd.dest], tag)
			}
		}
		announcing := c.annOpts && (c.annPort != 0 || c.annImp)
		if !announcing && len(st.sends) > 0 {
			oracle("C16", "announce-without-being-asked", "%d announce_peer although announcing is off: %s", len(st.sends), tag)
		}
		if announcing && c.stopAct != "close" && !res.stuck {
			for a := range closest {
				if got[a] == 0 {
					oracle("C16", "closest-member-not-announced", "no announce_peer to %s: %s", a, tag)
				}
			}
		}
		// delivery: consumer kept reading -> every response exactly once, with address and id
		if c.consStop < 0 && (c.stopAt < 0 || c.gated) && !res.stuck {
			ndKey := "response-not-delivered"
			if c.gated {
				ndKey = "response-not-delivered:stoptraversing-slow-consumer"
			}
			cnt := map[string]int{}
			st.mu.Lock()
			for _, p := range st.peers {
				f := strings.SplitN(p, "|", 3)
				cnt[f[0]+"|"+f[1]]++
			}
			st.mu.Unlock()
			for _, n := range c.nodes {
				want := st.served[n.addr.String()]
				id := n.id
				if n.noID {
					id = [20]byte{}
				}
				k := addrTok(n.addr) + "|" + hx(id[:])
				if cnt[k] < want && c.stopAct != "close" {
					oracle("C16", ndKey, "%d response(s) of %s, %d on Peers: %s", want, k, cnt[k], tag)
				}
				if cnt[k] > want {
					oracle("C16", "response-delivered-twice", "%d response(s) of %s, %d on Peers: %s", want, k, cnt[k], tag)
				}
				delete(cnt, k)
			}
			for k, v := range cnt {
				if v > 0 {
					oracle("C16", "delivered-response-of-unknown-responder", "%s x%d: %s", k, v, tag)
				}
			}
		}
	case "get":
		if res.err != nil {
			return
		}
		g := res.getRet
		// the result must BE one of the genuine items some node actually returned (never a fabricated one, e.g. one
		// carrying the caller's own seq argument and no value)
		isReturned := false
		for _, n := range c.nodes {
			if n.genuine && n.item != nil && st.served[n.addr.String()] > 0 && bytes.Equal(n.item.v, g.V) {
				if !g.Mutable && n.item.k == nil {
					isReturned = true
				}
				if g.Mutable && n.item.seq != nil && *n.item.seq == g.Seq && n.item.sig != nil && *n.item.sig == g.Sig {
					isReturned = true
				}
			}
		}
		if !isReturned {
			sa := "-"
			if c.seqArg != nil {
				sa = fmt.Sprint(*c.seqArg)
			}
			oracle("C12", "client-returned-unvouched-result", "Get(seq=%s) returned seq=%d mutable=%v v=%s, which no node returned as a genuine item: %s", sa, g.Seq, g.Mutable, hx(g.V), tag)
		}
		if g.Mutable {
			if !ed25519.Verify(c.pub, refBufferToSign(c.salt, g.V, g.Seq), g.Sig[:]) || !c.mutable {
				oracle("C12", "client-accepted-forged-value", "Get returned mutable seq=%d v=%s which does not verify under the requested key: %s", g.Seq, hx(g.V), tag)
			}
			// highest seq among the genuine items that were served before the end
			var max int64 = math.MinInt64 // (was -1 << 62: below the extreme seqs of lookups_r6.go)
			for _, n := range c.nodes {
				if n.genuine && n.item != nil && n.item.seq != nil && st.served[n.addr.String()] > 0 && *n.item.seq > max {
					max = *n.item.seq
				}
			}
			if g.Seq < max && c.stopAt < 0 {
				oracle("C12", "client-not-highest-seq", "Get returned seq=%d, a genuine reply with seq=%d was served: %s", g.Seq, max, tag)
			}
		} else {
			if sha1.Sum(g.V) != c.target {
				oracle("C12", "client-accepted-forged-value", "Get returned immutable v=%s which does not hash to the target: %s", hx(g.V), tag)
			}
		}
	case "put":
		// autoSeq must be 0 or the seq of a genuine served item
		as := atomic.LoadInt64(&res.autoSeq)
		okSeq := as == 0
		var max int64
		for _, n := range c.nodes {
			if n.genuine && n.item != nil && n.item.seq != nil && st.served[n.addr.String()] > 0 {
				if *n.item.seq == as {
					okSeq = true
				}
				if *n.item.seq > max {
					max = *n.item.seq
				}
			}
		}
		if !okSeq {
			oracle("C12", "client-accepted-forged-value", "Put's autoSeq=%d is the seq of no genuine served item: %s", as, tag)
		}
		if res.err == nil && as < max && c.stopAt < 0 {
			oracle("C12", "client-not-highest-seq", "Put's autoSeq=%d, a genuine reply with seq=%d was served: %s", as, max, tag)
		}
		for _, sd := range st.sends {
			n := st.byAddr[sd.destAddr.String()]
			want := ""
			if n != nil && n.token != nil {
				want = hx([]byte(*n.token))
			} else {
				want = "-"
			}
			if n == nil || st.served[sd.destAddr.String()] == 0 {
				oracle("C16", "put-to-non-responder", "put to %s: %s", sd.dest, tag)
			} else if sd.token != want {
				oracle("C16", "wrong-token", "put to %s carries %s, that node issued %s: %s", sd.dest, sd.token, want, tag)
			}
		}
	}
}

// ---------------------------------------------------------------- cases

func lkNodeAddr(i int) *net.UDPAddr {
	return &net.UDPAddr{IP: net.IPv4(10, 20, byte(i/200), byte(1+i%200)).To4(), Port: 2000 + i}
}

func genNet(r *rng, n int, target [20]byte) []*lkNode {
	var ns []*lkNode
	for i := 0; i < n; i++ {
		nd := &lkNode{addr: lkNodeAddr(i), kind: "r"}
		copy(nd.id[:], r.bytes(20))
		// spread the distances to the target: some nodes share a long prefix with it
		if r.intn(3) == 0 {
			p := 1 + r.intn(6)
			copy(nd.id[:p], target[:p])
		}
		tok := fmt.Sprintf("tok-%d-%x", i, r.bytes(2))
		nd.token = &tok
		ns = append(ns, nd)
	}
	// honest lists: every node knows a few others
	for i, nd := range ns {
		k := 1 + r.intn(4)
		for j := 0; j < k; j++ {
			o := r.intn(n)
			if o != i {
				nd.lists = append(nd.lists, o)
			}
		}
		// connectivity: a chain through all nodes
		if i+1 < n {
			nd.lists = append(nd.lists, i+1)
		}
	}
	return ns
}

func lookupCases(seed uint64, tier string) []lkCase {
	var cs []lkCase
	root := &rng{s: seed ^ 0x10c}
	add := func(c lkCase) {
		c.idx = len(cs)
		if c.reps == 0 {
			c.reps = 1
		}
		if c.sub == 0 {
			c.sub = root.sub(c.idx).next() | 1
		}
		cs = append(cs, c)
	}
	mkTarget := func(r *rng) (t [20]byte) { copy(t[:], r.bytes(20)); return }

	// ---- C14: failing / empty / erroring starting nodes, repeated so that leaks accumulate ----
	for _, api := range []string{"bootstrap", "announce", "get", "put"} {
		for _, sn := range []string{"err", "empty"} {
			r := root.sub(1000 + len(cs))
			c := lkCase{api: api, sn: sn, target: mkTarget(r), stopAt: -1, consStop: -1, reps: 20, desc: "start-fails", annOpts: true, annPort: 6881}
			if api == "put" || api == "get" {
				pub, priv, _ := ed25519.GenerateKey(bytes.NewReader(r.bytes(64)))
				c.pub, c.priv, c.mutable, c.putValue = pub, priv, true, "hello"
				c.salt = []byte("s")
				c.target = sha1.Sum(append(append([]byte(nil), pub...), c.salt...))
			}
			add(c)
		}
	}

	nets := 6
	if tier == "thorough" {
		nets = 40
	}
	// ---- announce: networks x options x stop points ----
	type annOpt struct {
		opts    bool
		port    int
		imp     bool
		scrape  bool
		viaTrav bool
		name    string
	}
	optsList := []annOpt{
		{true, 6881, false, false, false, "port"},
		{true, 0, true, false, false, "implied"},
		{true, 6881, true, true, false, "port+implied+scrape"},
		{false, 0, false, false, false, "no-announce"},
		{true, 6881, false, false, true, "traversal-api-port"},
		{true, 0, false, false, true, "traversal-api-port0"},
		{false, 0, false, true, true, "traversal-api-scrape-only"},
	}
	for ni := 0; ni < nets; ni++ {
		r := root.sub(2000 + ni)
		n := 3 + r.intn(12)
		target := mkTarget(r)
		for oi, o := range optsList {
			if ni >= 2 && oi != ni%len(optsList) {
				continue
			}
			nodes := genNet(r.sub(oi), n, target)
			// flavours
			for i, nd := range nodes {
				switch r.intn(10) {
				case 0:
					nd.token = nil // answers without a token
				case 1:
					nd.kind = "silent"
				case 2:
					nd.kind = "err"
				case 3:
					nd.kind = "badtype"
				case 4:
					empty := ""
					nd.token = &empty
				case 5:
					nd.values = []krpc.NodeAddr{{IP: net.IPv4(8, 8, byte(i), 1).To4(), Port: 7000 + i}, {IP: net.IPv4(8, 8, byte(i), 2).To4(), Port: 7100 + i}}
				case 6:
					nd.ghosts = 1 + r.intn(3) // lies about nodes that do not exist
				case 7:
					nd.annSilent = true
				}
			}
			nodes[0].kind = "r"
			c := lkCase{api: "announce", sn: "ok", target: target, annOpts: o.opts, annPort: o.port, annImp: o.imp, scrape: o.scrape, viaTrav: o.viaTrav,
				nodes: nodes, start: []int{0, n - 1}, stopAt: -1, consStop: -1, desc: fmt.Sprintf("net%d-%s", ni, o.name)}
			add(c)
			if oi == 0 {
				cs2 := c
				cs2.slow, cs2.sub = true, 0
				cs2.desc = fmt.Sprintf("net%d-%s-slow-consumer", ni, o.name)
				add(cs2)
				for _, at := range []int{0, 1, 2, n / 2} {
					for _, act := range []string{"close", "stoptrav"} {
						c2 := c
						c2.stopAt, c2.stopAct = at, act
						c2.desc = fmt.Sprintf("net%d-%s-%s@%d", ni, o.name, act, at)
						c2.sub = 0
						add(c2)
					}
				}
			}
		}
	}
	// ---- announce: Close() after the consumer stopped reading (finding D10) ----
	for ni := 0; ni < 2; ni++ {
		r := root.sub(2500 + ni)
		n := 4 + r.intn(4)
		target := mkTarget(r)
		nodes := genNet(r, n, target)
		c := lkCase{api: "announce", sn: "ok", target: target, annOpts: true, annPort: 6881, nodes: nodes, start: []int{0, 1, 2}, stopAt: 2, stopAct: "close",
			consStop: 1, desc: fmt.Sprintf("close-with-nonreading-consumer-%d", ni), d10: true}
		add(c)
	}

	// ---- announce: StopTraversing / Close with deliveries pending, then a slow but reading consumer.  After
	// StopTraversing every response that was received must still be delivered exactly once; after Close it may be
	// given up; either way the channel is closed only after Stopped (no send on a closed channel), Finished fires.
	// Run with announcing ON and OFF (get_peers-only traversal) through both entry points. ----
	pendOpts := []annOpt{
		{true, 6881, false, false, false, "port"},
		{false, 0, false, false, false, "announce-off"},
		{false, 0, false, false, true, "traversal-api-announce-off"},
		{false, 0, false, true, true, "traversal-api-scrape-only"},
		{true, 0, false, false, true, "traversal-api-port0"},
		{true, 0, true, false, true, "traversal-api-implied"},
	}
	for oi, o := range pendOpts {
		for _, act := range []string{"stoptrav", "close"} {
			for _, at := range []int{1, 2} {
				r := root.sub(2700 + 10*oi + at + 5*b2i(act == "close"))
				target := mkTarget(r)
				nodes := genNet(r, 3, target)
				for _, nd := range nodes {
					nd.lists = nil // nothing more to ask: all three starting nodes are in flight at once (alpha = 3)
				}
				name := "stoptraversing"
				if act == "close" {
					name = "close"
				}
				add(lkCase{api: "announce", sn: "ok", target: target, annOpts: o.opts, annPort: o.port, annImp: o.imp, scrape: o.scrape, viaTrav: o.viaTrav,
					nodes: nodes, start: []int{0, 1, 2}, stopAt: at, stopAct: act, consStop: -1, slow: true, gated: true,
					desc: fmt.Sprintf("%s-pending-deliveries-slow-consumer-%s@%d", name, o.name, at)})
			}
		}
	}

	// ---- announce: the same network handed over in mixed address representations: 4-byte IPv4, 16-byte
	// IPv4-mapped (what net.ResolveUDPAddr gives for an IPv4 host; also remotes that list IPv4 nodes in nodes6),
	// real IPv6.  Every node appears under ONE form only.  Each must get its OWN token back. ----
	for ni := 0; ni < 4; ni++ {
		r := root.sub(2900 + ni)
		n := 6 + r.intn(6)
		target := mkTarget(r)
		nodes := genNet(r, n, target)
		for i, nd := range nodes {
			switch (i + ni) % 3 {
			case 1:
				nd.form = "mapped"
				nd.addr = &net.UDPAddr{IP: nd.addr.IP.To16(), Port: nd.addr.Port}
			case 2:
				nd.form = "v6"
				nd.addr = &net.UDPAddr{IP: net.ParseIP(fmt.Sprintf("2001:db8:%x::%x", ni+1, i+1)), Port: nd.addr.Port}
			}
		}
		start := []int{0, 1, 2}
		opt := optsList[ni%3]
		add(lkCase{api: "announce", sn: "ok", target: target, annOpts: opt.opts, annPort: opt.port, annImp: opt.imp, scrape: opt.scrape,
			viaTrav: ni%2 == 1, nodes: nodes, start: start, stopAt: -1, consStop: -1, desc: fmt.Sprintf("mixed-address-forms-%d-%s", ni, opt.name)})
	}

	// ---- bootstrap ----
	for ni := 0; ni < nets; ni++ {
		r := root.sub(3000 + ni)
		n := 3 + r.intn(20)
		var target [20]byte
		target[0], target[19] = 0x42, 0x24 // the server's own id
		nodes := genNet(r, n, target)
		for _, nd := range nodes {
			switch r.intn(8) {
			case 0:
				nd.kind = "silent"
			case 1:
				nd.kind = "err"
			case 2:
				nd.ghosts = 2
			case 3:
				nd.noID = true
			}
		}
		nodes[0].kind = "r"
		c := lkCase{api: "bootstrap", sn: "ok", target: target, nodes: nodes, start: []int{0}, stopAt: -1, consStop: -1, desc: fmt.Sprintf("net%d", ni)}
		add(c)
		if ni < 3 {
			for _, at := range []int{0, 1, 3} {
				c2 := c
				c2.stopAt, c2.stopAct, c2.sub = at, "ctx", 0
				c2.desc = fmt.Sprintf("net%d-ctx@%d", ni, at)
				add(c2)
			}
		}
	}

	// ---- getput.Get / Put: genuine / forged / stale / field-missing replies, real ed25519 keys ----
	mkItem := func(pub ed25519.PublicKey, priv ed25519.PrivateKey, salt []byte, seq int64, val string) *lkItem {
		bv, _ := bencode.Marshal(val)
		var k [32]byte
		copy(k[:], pub)
		var sig [64]byte
		copy(sig[:], ed25519.Sign(priv, refBufferToSign(salt, bv, seq)))
		s := seq
		return &lkItem{v: bv, k: &k, sig: &sig, seq: &s}
	}
	for ni := 0; ni < nets; ni++ {
		r := root.sub(4000 + ni)
		pub, priv, _ := ed25519.GenerateKey(bytes.NewReader(r.bytes(64)))
		pub2, priv2, _ := ed25519.GenerateKey(bytes.NewReader(r.bytes(64)))
		salts := [][]byte{nil, []byte("s"), bytes.Repeat([]byte("x"), 64)}
		salt := salts[ni%len(salts)]
		target := sha1.Sum(append(append([]byte(nil), pub...), salt...))
		for _, api := range []string{"get", "put"} {
			n := 4 + r.intn(8)
			nodes := genNet(r.sub(b2i(api == "put")), n, target)
			maxGen := int64(0)
			for i, nd := range nodes {
				seq := int64(1 + r.intn(9))
				switch (i + ni) % 11 {
				case 0, 1, 2:
					nd.item, nd.genuine, nd.flavour = mkItem(pub, priv, salt, seq, fmt.Sprintf("v%d", seq)), true, "genuine"
					if seq > maxGen {
						maxGen = seq
					}
				case 3: // signature valid for another value
					it := mkItem(pub, priv, salt, seq, "other")
					it.v, _ = bencode.Marshal("forged")
					nd.item, nd.flavour = it, "forged-value"
				case 4: // signature valid for another seq: claims a very high one
					it := mkItem(pub, priv, salt, seq, "v")
					hi := int64(1000 + i)
					it.seq = &hi
					nd.item, nd.flavour = it, "forged-seq"
				case 5: // signed by another key, announced under the right one
					it := mkItem(pub2, priv2, salt, 99, "evil")
					var k [32]byte
					copy(k[:], pub)
					it.k = &k
					nd.item, nd.flavour = it, "wrong-signer"
				case 6: // the other key altogether
					nd.item, nd.flavour = mkItem(pub2, priv2, salt, 99, "evil"), "wrong-key"
				case 7: // valid for another salt
					nd.item, nd.flavour = mkItem(pub, priv, append([]byte("y"), salt...), 77, "saltier"), "other-salt"
				case 8: // no value at all, token only
					nd.flavour = "no-item"
				case 9: // bit-flipped signature
					it := mkItem(pub, priv, salt, seq+20, "flip")
					it.sig[3] ^= 0x10
					nd.item, nd.flavour = it, "bitflip"
				case 10: // no signature
					it := mkItem(pub, priv, salt, seq+30, "nosig")
					it.sig = nil
					nd.item, nd.flavour = it, "no-sig"
				}
				if r.intn(7) == 0 {
					nd.token = nil
				}
				if r.intn(9) == 0 {
					nd.kind = "silent"
				}
			}
			nodes[0].kind = "r"
			c := lkCase{api: api, sn: "ok", target: target, salt: salt, pub: pub, priv: priv, mutable: true, putValue: "mine", nodes: nodes, start: []int{0, n - 1},
				stopAt: -1, consStop: -1, desc: fmt.Sprintf("mutable-net%d", ni)}
			add(c)
			if ni < 2 {
				c2 := c
				c2.stopAt, c2.stopAct, c2.sub = 0, "ctx", 0
				c2.desc = fmt.Sprintf("mutable-net%d-ctx@0", ni)
				add(c2)
			}
		}
		// a forged reply that re-uses the signature of an earlier genuine one (same k, same sig, other value / seq)
		{
			n := 3
			nodes := genNet(r.sub(7), n, target)
			g := mkItem(pub, priv, salt, 5, "v5")
			nodes[0].item, nodes[0].genuine, nodes[0].flavour = g, true, "genuine"
			nodes[0].lists = []int{1}
			f := &lkItem{k: g.k, sig: g.sig}
			f.v, _ = bencode.Marshal("stolen-signature")
			hi := int64(5 + ni%3)
			f.seq = &hi
			nodes[1].item, nodes[1].flavour = f, "reused-signature"
			nodes[1].lists = []int{2}
			f2 := &lkItem{k: g.k, sig: g.sig, v: g.v}
			hi2 := int64(9)
			f2.seq = &hi2
			nodes[2].item, nodes[2].flavour = f2, "reused-signature-higher-seq"
			nodes[2].lists = nil
			for _, api := range []string{"get", "put"} {
				add(lkCase{api: api, sn: "ok", target: target, salt: salt, pub: pub, priv: priv, mutable: true, putValue: "mine", nodes: nodes, start: []int{0},
					stopAt: -1, consStop: -1, desc: fmt.Sprintf("reused-signature-%d", ni)})
			}
		}
		// immutable: target = sha1(bencoded value)
		{
			bv, _ := bencode.Marshal(fmt.Sprintf("immutable-%d", ni))
			it := sha1.Sum(bv)
			n := 3 + r.intn(5)
			nodes := genNet(r.sub(9), n, it)
			for i, nd := range nodes {
				switch i % 3 {
				case 0:
					wrong, _ := bencode.Marshal("not-the-value")
					nd.item, nd.flavour = &lkItem{v: wrong}, "wrong-value"
				case 1:
					nd.item, nd.genuine, nd.flavour = &lkItem{v: bv}, true, "genuine-immutable"
				}
			}
			add(lkCase{api: "get", sn: "ok", target: it, nodes: nodes, start: []int{0}, stopAt: -1, consStop: -1, desc: fmt.Sprintf("immutable-net%d", ni)})
		}
	}
	// ---- getput.Get with a non-nil "only if newer than seq" argument: nodes that ignore it and return a genuine
	// value with a LOWER seq, nodes that return a seq and nothing else, nodes that honour it (token only), a newer
	// genuine value or none: the caller gets the highest-seq verified value actually returned, or not-found ----
	for ni := 0; ni < 6; ni++ {
		r := root.sub(4500 + ni)
		pub, priv, _ := ed25519.GenerateKey(bytes.NewReader(r.bytes(64)))
		salt := [][]byte{nil, []byte("s")}[ni%2]
		target := sha1.Sum(append(append([]byte(nil), pub...), salt...))
		arg := int64(5)
		n := 5 + r.intn(4)
		nodes := genNet(r, n, target)
		for i, nd := range nodes {
			switch (i + ni) % 5 {
			case 0: // ignores the argument: genuine, lower seq
				sq := int64(1 + (i+ni)%4)
				nd.item, nd.genuine, nd.flavour = mkItem(pub, priv, salt, sq, fmt.Sprintf("old%d", sq)), true, "genuine-lower-seq"
			case 1: // seq only
				sq := int64(3 + i)
				nd.item, nd.flavour = &lkItem{seq: &sq}, "seq-only"
			case 2: // honours it: nothing newer, token only
				nd.flavour = "honours-seq"
			case 3: // newer genuine value (absent in half of the networks)
				if ni%2 == 0 {
					sq := int64(6 + i)
					nd.item, nd.genuine, nd.flavour = mkItem(pub, priv, salt, sq, fmt.Sprintf("new%d", sq)), true, "genuine-newer"
				}
			case 4: // forged: claims exactly the caller's seq with an empty value and no signature
				sq := arg
				var k [32]byte
				copy(k[:], pub)
				nd.item, nd.flavour = &lkItem{k: &k, seq: &sq}, "caller-seq-no-value"
			}
		}
		if ni == 5 {
			for _, nd := range nodes { // nobody returns a value at all
				if nd.genuine {
					nd.item, nd.genuine = nil, false
				}
			}
		}
		add(lkCase{api: "get", sn: "ok", target: target, salt: salt, pub: pub, priv: priv, mutable: true, seqArg: &arg, nodes: nodes, start: []int{0, n - 1},
			stopAt: -1, consStop: -1, desc: fmt.Sprintf("seq-arg-5-net%d", ni)})
	}
	// ---- D2: the right key, no seq ----
	{
		r := root.sub(5000)
		pub, priv, _ := ed25519.GenerateKey(bytes.NewReader(r.bytes(64)))
		salt := []byte("s")
		target := sha1.Sum(append(append([]byte(nil), pub...), salt...))
		for _, api := range []string{"get", "put"} {
			nodes := genNet(r.sub(b2i(api == "put")), 2, target)
			it := mkItem(pub, priv, salt, 3, "v3")
			it.seq = nil
			nodes[0].item, nodes[0].flavour = it, "key-without-seq"
			nodes[0].lists = []int{1}
			nodes[1].item, nodes[1].genuine, nodes[1].flavour = mkItem(pub, priv, salt, 4, "v4"), true, "genuine"
			nodes[1].lists = nil
			add(lkCase{api: api, sn: "ok", target: target, salt: salt, pub: pub, priv: priv, mutable: true, putValue: "mine", nodes: nodes, start: []int{0},
				stopAt: -1, consStop: -1, desc: "reply-with-key-but-no-seq"})
		}
	}
	lkFaultCases(root, tier, add) // lookups_fault.go
	return cs
}

// ---------------------------------------------------------------- engine entry, containment

func lookupsEngine(seed uint64, tier string, args []string) {
	// args: [-only <case>] replays one case (same seed => same case); -child / -from are used by the containment
	from := 0
	child := false
	only := -1
	for i := 0; i < len(args); i++ {
		switch args[i] {
		case "-child":
			child = true
		case "-from":
			from, _ = strconv.Atoi(args[i+1])
			i++
		case "-only":
			only, _ = strconv.Atoi(args[i+1])
			i++
		}
	}
	cases := lookupCases(seed, tier)
	cases = append(cases, lookupStopCases(seed, tier, len(cases))...)    // lookups_stop.go
	cases = append(cases, lookupBlockCases(seed, tier, len(cases))...)   // lookups_block.go
	cases = append(cases, lookupLimiterCases(seed, tier, len(cases))...) // lookups_limiter.go
	cases = append(cases, lookupClosestCases(seed, tier, len(cases))...) // lookups_closest.go
	cases = append(cases, lookupR6Cases(seed, tier, len(cases))...)      // lookups_r6.go
	if only >= 0 && only < len(cases) {
		cases = cases[:only+1]
		if from < only {
			from = only
		}
	}
	if !child {
		lkContained(seed, tier, cases, from, only)
		return
	}
	time.Sleep(2 * time.Millisecond)
	base0 := runtime.NumGoroutine()
	for i := from; i < len(cases); i++ {
		if os.Getenv("VERIF_PROP") == "C19" && cases[i].block == nil {
			continue // C19 is served by the blocklist cases only (same case numbers as in the other properties' runs)
		}
		if p := os.Getenv("VERIF_PROP"); (p == "C02" || p == "C03" || p == "C04") && cases[i].cl == nil {
			continue // C02 / C03 / C04 are served by the cases of lookups_closest.go (the lookup's result set, exhaustiveness, cancellation)
		}
		if leak := runLookupCase(&cases[i], base0); leak > 0 {
			base0 = runtime.NumGoroutine() // what leaked stays; later cases are measured against the new level
		}
	}
}

// lkContained is runContained (main.go) for this engine's line names: cases run in a child process; when the child
// dies the case it died in is reported and the run goes on with the next one.
func lkContained(seed uint64, tier string, cases []lkCase, from, only int) {
	tmp, err := os.CreateTemp("", "verif-lk-*.txt")
	if err != nil {
		panic(err)
	}
	tmp.Close()
	defer os.Remove(tmp.Name())
	for from < len(cases) {
		cargs := []string{"-seed", strconv.FormatUint(seed, 10), "-tier", tier, "-out", tmp.Name(), "lookups", "-child", "-from", strconv.Itoa(from)}
		if only >= 0 {
			cargs = append(cargs, "-only", strconv.Itoa(only))
		}
		cmd := exec.Command(os.Args[0], cargs...)
		var stderr bytes.Buffer
		cmd.Stderr = &stderr
		cmd.Stdout = &stderr
		runErr := cmd.Run()
		data, _ := os.ReadFile(tmp.Name())
		lines := strings.Split(string(data), "\n")
		lastEnd := -1
		for i, l := range lines {
			if strings.HasPrefix(l, "lkend ") {
				lastEnd = i
			}
		}
		if runErr == nil {
			for _, l := range lines {
				if l != "" {
					emit("%s", l)
				}
			}
			return
		}
		// oracle lines that follow the last complete case belong to the case that was cut short
		for i := 0; i <= lastEnd; i++ {
			if lines[i] != "" {
				emit("%s", lines[i])
			}
		}
		crashed := from
		var partial []string
		for i := lastEnd + 1; i < len(lines); i++ {
			l := lines[i]
			if strings.HasPrefix(l, "lkbegin ") {
				f := strings.Fields(l)
				if len(f) > 1 {
					if n, err := strconv.Atoi(f[1]); err == nil {
						crashed = n
					}
				}
			}
			if strings.HasPrefix(l, "oracle ") {
				emit("%s", l)
			} else if l != "" {
				partial = append(partial, l)
			}
		}
		// the case's lines up to the crash are kept for the model (it replays them; the case has no lkend)
		for _, l := range partial {
			emit("%s", l)
		}
		site := "unknown"
		st := stderr.String()
		if m := regexp.MustCompile(`(?m)^github\.com/anacrolix/dht/v2/?(\S+)`).FindStringSubmatch(st); m != nil {
			f := regexp.MustCompile(`\(\*([A-Za-z0-9_]+)\)`).ReplaceAllString(m[1], "$1")
			if i := strings.Index(f, "("); i >= 0 {
				f = f[:i]
			}
			if i := strings.LastIndex(f, "/"); i >= 0 {
				f = f[i+1:]
			}
			f = strings.TrimPrefix(f, ".")
			if f != "" {
				site = f
			}
		}
		first := ""
		for _, l := range strings.Split(st, "\n") {
			if strings.HasPrefix(l, "panic:") || strings.HasPrefix(l, "fatal error:") {
				first = l
				break
			}
		}
		name := "?"
		if crashed < len(cases) {
			name = cases[crashed].name()
		}
		last := ""
		if len(partial) > 0 {
			last = partial[len(partial)-1]
			if len(last) > 300 {
				last = last[:300]
			}
		}
		emit("oracle C01 process-died:%s case=%d scenario=%s %q last-line=%q", site, crashed, name, first, last)
		lkDeathOracleC14(cases, crashed, site, first, seed) // lookups_stop.go
		if strings.Contains(first, "send on closed channel") {
			emit("oracle C16 send-on-closed-peers-channel case=%d scenario=%s site=%s %q replay: h -seed %d lookups -only %d", crashed, name, site, first, seed, crashed)
		}
		if crashed < len(cases) && (cases[crashed].api == "get" || cases[crashed].api == "put") {
			emit("oracle C12 client-panic-on-reply case=%d scenario=%s site=%s %q replay: h -seed %d lookups -only %d", crashed, name, site, first, seed, crashed)
		}
		from = crashed + 1
	}
}
