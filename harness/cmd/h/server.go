package main

// Engine "server": a real dht.Server on a fake PacketConn driven through generated event
// histories; after every event the datagrams written, callbacks, peer-store calls, query
// completions, routing-table snapshot and API counters are printed, and the direct property
// oracles of C01 C05 C06 C07 C08 C09 C10 C11 C19 C20 are evaluated on the implementation alone.

import (
	"context"
	"fmt"
	"net"
	"net/netip"
	"os"
	"runtime"
	"sort"
	"strconv"
	"strings"
	"sync"
	"sync/atomic"
	"time"

	"github.com/anacrolix/log"
	"github.com/anacrolix/torrent/bencode"
	"github.com/anacrolix/torrent/metainfo"
	"golang.org/x/time/rate"

	dht "github.com/anacrolix/dht/v2"
	"github.com/anacrolix/dht/v2/bep44"
	"github.com/anacrolix/dht/v2/krpc"
	peer_store "github.com/anacrolix/dht/v2/peer-store"
)

func init() { engines["server"] = serverEngine }

// ---------------------------------------------------------------- cases

type srvCfg struct {
	root     [20]byte
	passive  bool
	nosec    bool
	ps       bool
	cb       bool
	veto     []string
	wait     bool
	bl       *blocklist
	budget   int // -1 = unlimited
	publicIP  net.IP
	storeFail bool // the underlying BEP 44 store fails Put for items with seq % 7 == 3
	cbBlock   bool // the OnAnnouncePeer hook does not return until the history releases it (event hookrel)
	psEmpty   bool // the peer store answers "no peers" with an empty non-nil slice instead of nil
	// autoID: ServerConfig.NodeId is left unset, the node draws its own id (InitNodeId). `root` is then only the
	// id the history was generated around; the running case takes Server.ID() as the root and moves every id of
	// the history by root XOR Server.ID(), which keeps each id's bucket (shared prefix with the root) as generated
	autoID   bool
	scenario string
}

type sev struct {
	kind  string // pkt adv addnode qstart qend failping setbl close
	src   *net.UDPAddr
	raw   []byte
	msg   *krpc.Msg // when set, raw = Marshal(msg)
	size  int       // 0 = len(raw)
	adv   time.Duration
	id    [20]byte
	qid   int
	q     string
	args  krpc.MsgArgs
	rated bool
	bl    *blocklist
	pre   string // a line printed before the event (oracle tables for the model)
	// dynamic: fill fields from earlier observations just before execution
	dyn func(st *srvState, e *sev)
}

type srvCase struct {
	idx int
	cfg srvCfg
	evs []sev
}

// ---------------------------------------------------------------- running state

type qres struct {
	qid   int
	reply string
	err   string
}

type srvState struct {
	c        *srvCase
	s        *dht.Server
	conn     *fakeConn
	ps       *recPeerStore
	mem      *bep44.Memory
	cbMu     sync.Mutex
	cbs      []string
	base     int
	lastComp time.Time // wall-clock instant up to which real elapsed time has been taken out of the table's time stamps
	started  int64
	returned int64
	resMu    sync.Mutex
	results  []qres
	cancels  map[int]context.CancelFunc
	doneQ    map[int]bool
	notQuiet int
	qdst     map[int]*net.UDPAddr
	qt       map[int]string
	vclock   time.Time
	vmu      sync.Mutex
	closed   bool
	bl       *blocklist
	// knowledge for the oracles
	tokens    map[string][]tokInfo // token -> issuances
	announced map[string]map[string]int
	lastTok   map[string]string // ip string -> last token seen
	prevSnap  []dht.VerifNode
	ratedSent int
	// blocking application hook (cfg.cbBlock): every OnAnnouncePeer call records itself and then waits
	// on the current gate; hookHeld = calls waiting right now (each is one goroutine of the library)
	hookGate chan struct{}
	hookHeld int64
	// autoID cases: generated root XOR the id the node chose (all-zero: nothing to move)
	xl   [20]byte
	xlOn bool
}

type tokInfo struct {
	ip16 string
	at   time.Time
}

func (st *srvState) now() time.Time {
	st.vmu.Lock()
	defer st.vmu.Unlock()
	return st.vclock
}

func (st *srvState) waitQuiet() bool {
	deadline := time.Now().Add(5 * time.Second)
	stable := 0
	var lowSince time.Time
	for {
		want := st.base + 2*int(atomic.LoadInt64(&st.started)-atomic.LoadInt64(&st.returned)) + int(atomic.LoadInt64(&st.hookHeld))
		// every started query is either still registered or has returned to the harness
		var npend int
		guard("VerifPending", fmt.Sprintf("case=%d scenario=%s", st.c.idx, st.c.cfg.scenario), func() { npend = len(st.s.VerifPending()) })
		settled := int64(npend)+atomic.LoadInt64(&st.returned) == atomic.LoadInt64(&st.started)
		n := runtime.NumGoroutine()
		if settled && n == want {
			stable++
			if stable >= 2 {
				return true
			}
		} else {
			stable = 0
		}
		// FEWER goroutines than accounted for, steadily: nothing of the node is running that should not be; the baseline
		// was read while a goroutine that does not belong to this case was still counted. Lower it (a goroutine that
		// keeps running shows as MORE than accounted for and is reported as before).
		if settled && n < want {
			if lowSince.IsZero() {
				lowSince = time.Now()
			} else if time.Since(lowSince) > 300*time.Millisecond {
				emit("# case %d: goroutine baseline lowered by %d (read while a goroutine outside the case was still counted)", st.c.idx, want-n)
				st.base -= want - n
				lowSince = time.Time{}
			}
		} else {
			lowSince = time.Time{}
		}
		if time.Now().After(deadline) {
			return false
		}
		time.Sleep(30 * time.Microsecond)
	}
}

func blString(b *blocklist) string { return b.String() }

// guard runs f (a call that takes the server lock) with a deadline. A call that does not return means
// the node is wedged: that is a C01 violation; the child process then exits so that the parent can go
// on with the next case.
func guard(what string, ctx string, f func()) {
	done := make(chan struct{})
	go func() { f(); close(done) }()
	select {
	case <-done:
	case <-time.After(8 * time.Second):
		oracle("C01", "api-does-not-return:"+what, "%s", ctx)
		out.Flush()
		os.Exit(3)
	}
}

// releaseHooks lets every OnAnnouncePeer call that is waiting return; with rearm the hook keeps blocking
// later calls (on a new gate), otherwise it returns at once from now on.
func (st *srvState) releaseHooks(rearm bool) {
	st.cbMu.Lock()
	gate := st.hookGate
	st.hookGate = nil
	if rearm && gate != nil {
		st.hookGate = make(chan struct{})
	}
	st.cbMu.Unlock()
	if gate != nil {
		close(gate)
	}
}

// a bep44.Store whose Put fails with an ordinary (non-KRPC) error for some items
type failingStore struct{ *bep44.Memory }

func (f failingStore) Put(i *bep44.Item) error {
	if ((i.Seq%7)+7)%7 == 3 {
		return fmt.Errorf("disk full")
	}
	return f.Memory.Put(i)
}

// a peer store that reports "no peers known" as an empty, non-nil slice (the interface does not say which)
type emptySlicePeerStore struct{ *recPeerStore }

func (p emptySlicePeerStore) GetPeers(ih peer_store.InfoHash) []krpc.NodeAddr {
	if l := p.recPeerStore.GetPeers(ih); len(l) > 0 {
		return l
	}
	return []krpc.NodeAddr{}
}

func startServer(c *srvCase) *srvState {
	st := &srvState{c: c, conn: newFakeConn(), cancels: map[int]context.CancelFunc{}, doneQ: map[int]bool{}, qdst: map[int]*net.UDPAddr{}, qt: map[int]string{},
		tokens: map[string][]tokInfo{}, announced: map[string]map[string]int{}, lastTok: map[string]string{}, bl: c.cfg.bl}
	st.vclock = time.Unix(1_700_000_000, 123456789)
	cfg := &dht.ServerConfig{
		Conn:             st.conn,
		Passive:          c.cfg.passive,
		NoSecurity:       c.cfg.nosec,
		WaitToReply:      c.cfg.wait,
		StartingNodes:    func() ([]dht.Addr, error) { return nil, nil },
		QueryResendDelay: func() time.Duration { return time.Hour },
		Logger:           log.Logger{}.FilterLevel(log.Critical),
		DefaultWant:      []krpc.Want{krpc.WantNodes, krpc.WantNodes6},
		Exp:              2 * time.Hour,
	}
	if !c.cfg.autoID {
		cfg.NodeId = c.cfg.root
	}
	st.mem = bep44.NewMemory()
	cfg.Store = st.mem
	if c.cfg.storeFail {
		cfg.Store = failingStore{st.mem}
	}
	cfg.Logger = log.NewLogger().FilterLevel(log.Critical)
	if c.cfg.bl != nil {
		cfg.IPBlocklist = c.cfg.bl
	}
	if c.cfg.publicIP != nil {
		cfg.PublicIP = c.cfg.publicIP
	}
	if c.cfg.ps {
		st.ps = &recPeerStore{}
		cfg.PeerStore = st.ps
		if c.cfg.psEmpty {
			cfg.PeerStore = emptySlicePeerStore{st.ps}
		}
	}
	if c.cfg.cb {
		cfg.OnAnnouncePeer = func(ih metainfo.Hash, ip net.IP, port int, portOk bool) {
			st.cbMu.Lock()
			st.cbs = append(st.cbs, fmt.Sprintf("cb:%s:%s:%d:%d", hx(ih[:]), hx(ip), port, b2i(portOk)))
			gate := st.hookGate
			st.cbMu.Unlock()
			if gate != nil {
				// a slow application: the call is seen (recorded above) but does not return yet
				atomic.AddInt64(&st.hookHeld, 1)
				<-gate
				atomic.AddInt64(&st.hookHeld, -1)
			}
		}
		if c.cfg.cbBlock {
			st.hookGate = make(chan struct{})
		}
	}
	if len(c.cfg.veto) > 0 {
		veto := map[string]bool{}
		for _, v := range c.cfg.veto {
			veto[v] = true
		}
		cfg.OnQuery = func(q *krpc.Msg, _ net.Addr) bool { return !veto[q.Q] }
	}
	if c.cfg.budget >= 0 {
		cfg.SendLimiter = rate.NewLimiter(0, c.cfg.budget)
	} else {
		cfg.SendLimiter = rate.NewLimiter(rate.Inf, 1)
	}
	s, err := dht.NewServer(cfg)
	if err != nil {
		panic(err)
	}
	st.s = s
	// the node's own id is what ID() reports; a configured NodeId must be kept
	if c.cfg.autoID {
		// no NodeId configured: the node's id is whatever ID() reports (random, or derived from the socket address
		// and the public IP); it is the root of its table and the id its replies carry. A caller's ServerConfig value
		// may or may not be filled in by NewServer, nothing is demanded of it.
		id := s.ID()
		if id == [20]byte{} {
			oracle("C05", "server-without-configured-node-id-has-zero-id", "case=%d scenario=%s", c.idx, c.cfg.scenario)
		}
		for i := range id {
			st.xl[i] = id[i] ^ c.cfg.root[i]
		}
		st.xlOn = st.xl != [20]byte{}
		c.cfg.root = id
	} else if s.ID() != c.cfg.root {
		oracle("C05", "server-id-differs-from-configured-node-id", "case=%d configured=%x id=%x", c.idx, c.cfg.root, s.ID())
		c.cfg.root = s.ID()
	}
	s.VerifSetTokenClock(st.now)
	// wait for the serve loop to block in ReadFrom, then take the goroutine baseline
	for atomic.LoadInt64(&st.conn.reads) == 0 {
		time.Sleep(20 * time.Microsecond)
	}
	time.Sleep(200 * time.Microsecond)
	// only the serve loop runs now; anything else that is still counted (a goroutine of the previous case on its way
	// out, the runtime's finalizer goroutine while it runs a finalizer) is transient: the baseline is the lowest reading
	st.base = runtime.NumGoroutine()
	for i := 0; i < 4; i++ {
		time.Sleep(100 * time.Microsecond)
		if n := runtime.NumGoroutine(); n < st.base {
			st.base = n
		}
	}
	st.lastComp = time.Now()
	return st
}

// The table's time stamps are wall-clock readings; the history's clock is virtual (`adv` events age
// them through a hook). The wall-clock time that passes while a history runs (milliseconds usually,
// seconds on a loaded machine) is taken out again before and after every event, so that the ages the
// code computes are those of the virtual clock and do not depend on how fast the machine is. Stamps
// written since the last call end up at "now" (the hook clamps), i.e. at the end of their event.
func (st *srvState) compensate() {
	t := time.Now()
	st.s.VerifAge(-t.Sub(st.lastComp))
	bep44.VerifAge(st.mem, -t.Sub(st.lastComp))
	st.lastComp = t
}

func (st *srvState) snapshot() ([]dht.VerifNode, string) {
	nodes, _ := st.s.VerifTableSnapshot()
	var ss []string
	for _, n := range nodes {
		cls := "q"
		if n.Good {
			cls = "g"
		} else if n.Bad {
			cls = "b"
		}
		age := func(a int64) string {
			if a < 0 {
				return "-"
			}
			return strconv.FormatInt(a/1e9, 10)
		}
		ss = append(ss, fmt.Sprintf("n:%s@%s:%d/%d/%s/%s/%d/%s", hx(n.Id[:]), hx(n.IP), n.Port, n.Bucket, age(n.QueryAgeNs), age(n.ResponseAgeNs), b2i(n.Failed), cls))
	}
	return nodes, sortedJoin(ss)
}

func oracle(prop, key, format string, a ...interface{}) {
	emit("oracle %s %s %s", prop, key, fmt.Sprintf(format, a...))
}

func ipKey(ip net.IP) string {
	if x := ip.To16(); x != nil {
		return string(x)
	}
	return string(ip)
}

func addrStr(a *net.UDPAddr) string { return a.String() }

// ---------------------------------------------------------------- executing one event

func (st *srvState) exec(ei int, e *sev) {
	c := st.c
	if e.dyn != nil {
		e.dyn(st, e)
	}
	if st.xlOn {
		st.translate(e)
	}
	if e.pre != "" {
		emit("%s", e.pre)
	}
	preSnap := st.prevSnap
	var prePending [][2]string
	guard("VerifPending", fmt.Sprintf("case=%d ev=%d scenario=%s", c.idx, ei, c.cfg.scenario), func() { st.compensate(); prePending = st.s.VerifPending() })
	var lhs string
	blockedSrc := false
	var inMsg *krpc.Msg
	decodes := false
	switch e.kind {
	case "pkt":
		if e.msg != nil {
			b, err := bencode.Marshal(*e.msg)
			if err != nil {
				panic(err)
			}
			e.raw = b
		}
		data := e.raw
		size := len(data)
		if e.size > 0 {
			size = e.size
			data = append(append([]byte(nil), data...), make([]byte, size-len(data))...)
		}
		inMsg, decodes = decodeLikeServer(e.raw)
		d := "undec"
		if decodes {
			d = dumpMsg(inMsg)
		}
		lhs = fmt.Sprintf("pkt %s %d %d %s raw=%s", hx(e.src.IP), e.src.Port, size, d, hx(e.raw))
		if st.bl != nil {
			_, blockedSrc = st.bl.Lookup(e.src.IP)
		}
		if !st.conn.inject(data, e.src, 5*time.Second) && !st.closed {
			oracle("C01", "serve-loop-stuck", "case=%d ev=%d %s", c.idx, ei, lhs)
			// C08: the datagram was taken off the socket 5 s ago, its handler has not come back and nothing was written:
			// a query that is owed a reply (every query but a write without a fresh token) has not got one
			if decodes && inMsg.Y == "q" && !c.cfg.passive && !blockedSrc && e.src.Port != 0 && e.size == 0 && !vetoed(c.cfg.veto, inMsg.Q) && c.cfg.budget < 0 &&
				st.conn.pendingWrites() == 0 && st.owedReply(e, inMsg) {
				oracle("C08", "query-not-answered:"+methodKey(inMsg.Q)+":node-stopped-serving", "case=%d ev=%d scenario=%s no datagram 5 s after the query was read and the serve loop has not returned [%s]", c.idx, ei, c.cfg.scenario, lhs)
			}
			if atomic.LoadInt64(&st.hookHeld) > 0 {
				// the serve loop may be waiting for the application hook: reported; let the history go on
				oracle("C01", "serve-loop-stuck-while-announce-hook-blocks", "case=%d ev=%d %s", c.idx, ei, lhs)
				st.releaseHooks(false)
			}
		}
	case "adv":
		st.vmu.Lock()
		st.vclock = st.vclock.Add(e.adv)
		st.vmu.Unlock()
		st.s.VerifAge(e.adv)
		bep44.VerifAge(st.mem, e.adv)
		lhs = fmt.Sprintf("adv %d", int64(e.adv))
	case "addnode":
		lhs = fmt.Sprintf("addnode %s %d %s", hx(e.src.IP), e.src.Port, hx(e.id[:]))
		st.s.AddNode(krpc.NodeInfo{ID: e.id, Addr: krpc.NodeAddr{IP: e.src.IP, Port: e.src.Port}})
	case "qstart":
		ctx, cancel := context.WithCancel(context.Background())
		st.conn.mu.Lock()
		wBefore := st.conn.nwrites
		st.conn.mu.Unlock()
		st.cancels[e.qid] = cancel
		st.qdst[e.qid] = e.src
		atomic.AddInt64(&st.started, 1)
		m := krpc.Msg{Q: e.q, A: &e.args, Y: "q"}
		lhs = fmt.Sprintf("qstart %d %s %d %d %s", e.qid, hx(e.src.IP), e.src.Port, b2i(e.rated), dumpMsg(&m))
		qid := e.qid
		dst := dht.NewAddr(e.src)
		q := e.q
		in := dht.QueryInput{MsgArgs: e.args, NumTries: 1}
		if !e.rated {
			in.RateLimiting.NotAny = true
		}
		go func() {
			res := st.s.Query(ctx, dst, q, in)
			r := qres{qid: qid}
			if res.Err != nil {
				switch {
				case res.Err == context.Canceled:
					r.err = "ctx"
				case strings.Contains(res.Err.Error(), "timed out"):
					r.err = "timeout"
				default:
					r.err = "senderr"
				}
			} else {
				r.reply = dumpMsg(&res.Reply)
			}
			st.resMu.Lock()
			st.results = append(st.results, r)
			st.doneQ[qid] = true
			st.resMu.Unlock()
			atomic.AddInt64(&st.returned, 1)
		}()
		// wait until the query's datagram was handed to the socket, or the query already returned
		retBefore := atomic.LoadInt64(&st.returned)
		deadline := time.Now().Add(5 * time.Second)
		for {
			st.conn.mu.Lock()
			nw := st.conn.nwrites
			st.conn.mu.Unlock()
			if nw > wBefore || atomic.LoadInt64(&st.returned) > retBefore {
				break
			}
			if time.Now().After(deadline) {
				break
			}
			time.Sleep(20 * time.Microsecond)
		}
	case "qend":
		lhs = fmt.Sprintf("qend %d", e.qid)
		if cancel := st.cancels[e.qid]; cancel != nil {
			cancel()
			// a cancelled query must return
			deadline := time.Now().Add(5 * time.Second)
			for {
				st.resMu.Lock()
				d := st.doneQ[e.qid]
				st.resMu.Unlock()
				if d {
					break
				}
				if time.Now().After(deadline) {
					oracle("C14", "cancelled-query-did-not-return", "case=%d ev=%d qid=%d", c.idx, ei, e.qid)
					break
				}
				time.Sleep(20 * time.Microsecond)
			}
		}
	case "failping":
		lhs = fmt.Sprintf("failping %s %d %s", hx(e.src.IP), e.src.Port, hx(e.id[:]))
		st.s.VerifFailQuestionablePing(dht.NewAddr(e.src), e.id)
	case "setbl":
		lhs = fmt.Sprintf("setbl %s", blString(e.bl))
		st.bl = e.bl
		if e.bl == nil {
			st.s.SetIPBlockList(nil)
		} else {
			st.s.SetIPBlockList(e.bl)
		}
	case "hookrel":
		// the application's announce hooks that were blocked return now (no effect on the node)
		lhs = "hookrel"
		st.releaseHooks(true)
	case "close":
		lhs = "close"
		st.s.Close()
		st.closed = true
		time.Sleep(300 * time.Microsecond)
		st.base-- // the serve loop goroutine ends
	}
	if !st.waitQuiet() {
		oracle("C01", "goroutines-not-quiescent", "case=%d ev=%d %s goroutines=%d", c.idx, ei, lhs, runtime.NumGoroutine())
		st.notQuiet++
	}
	// ---- observations
	writes := st.conn.takeWrites()
	var eff []string
	var sent []sentT
	for _, w := range writes {
		m, ok := decodeLikeServer(w.data)
		d := "undec:" + hx(w.data)
		if ok {
			d = dumpMsg(m)
		}
		eff = append(eff, fmt.Sprintf("send:%s:%d:%s", hx(w.addr.IP), w.addr.Port, d))
		sent = append(sent, sentT{w.addr, m, w.data})
	}
	st.cbMu.Lock()
	cbs := st.cbs
	st.cbs = nil
	st.cbMu.Unlock()
	eff = append(eff, cbs...)
	var padds []string
	if st.ps != nil {
		padds = st.ps.take()
		eff = append(eff, padds...)
	}
	st.resMu.Lock()
	results := st.results
	st.results = nil
	st.resMu.Unlock()
	for _, r := range results {
		if r.err != "" {
			eff = append(eff, fmt.Sprintf("qret:%d:err:%s", r.qid, r.err))
		} else {
			eff = append(eff, fmt.Sprintf("qret:%d:ok:%s", r.qid, r.reply))
		}
	}
	var snap []dht.VerifNode
	var snapStr string
	var pend [][2]string
	gctx := fmt.Sprintf("case=%d ev=%d scenario=%s [%s]", c.idx, ei, c.cfg.scenario, lhs)
	guard("table-snapshot", gctx, func() { st.compensate(); snap, snapStr = st.snapshot(); pend = st.s.VerifPending() })
	st.prevSnap = snap
	var pp []string
	for _, p := range pend {
		ip, port := "?", 0
		if ap, err := netip.ParseAddrPort(p[0]); err == nil {
			ip, port = hx(ap.Addr().Unmap().AsSlice()), int(ap.Port())
		}
		pp = append(pp, fmt.Sprintf("%s:%d/%s", ip, port, hx([]byte(p[1]))))
	}
	if e.kind == "qstart" {
		// learn the transaction id of this query: the pending entry that was not there before
		pre := map[[2]string]bool{}
		for _, p := range prePending {
			pre[p] = true
		}
		for _, p := range pend {
			if !pre[p] {
				st.qt[e.qid] = p[1]
			}
		}
		if _, ok := st.qt[e.qid]; !ok {
			for _, sd := range sent {
				if sd.m != nil && sd.m.Y == "q" {
					st.qt[e.qid] = sd.m.T
				}
			}
		}
		lhs += " t=" + hx([]byte(st.qt[e.qid]))
	}
	var stats dht.ServerStats
	var nn int
	var exported []krpc.NodeInfo
	guard("Stats/NumNodes/Nodes", gctx, func() { stats = st.s.Stats(); nn = st.s.NumNodes(); exported = st.s.Nodes() })
	emit("%s => %s | tbl %s | api %d %d %d %d | pend %s", lhs, sortedJoin(eff), snapStr, nn, stats.GoodNodes, len(exported), stats.OutstandingTransactions, sortedJoin(pp))

	// ---- oracles (implementation only)
	ctxs := fmt.Sprintf("case=%d ev=%d scenario=%s [%s]", c.idx, ei, c.cfg.scenario, lhs)
	// C19: nothing is ever written to a blocked address
	if st.bl != nil {
		for _, sd := range sent {
			if _, b := st.bl.Lookup(sd.to.IP); b {
				oracle("C19", "datagram-to-blocked-address", "%s to=%s", ctxs, sd.to)
			}
		}
	}
	for _, sd := range sent {
		if sd.m != nil && sd.m.Y == "q" && c.cfg.passive && !sd.m.ReadOnly {
			oracle("C19", "passive-query-without-ro", "%s", ctxs)
		}
	}
	// C05: table well-formed, API agrees
	st.oracleTable(snap, nn, stats.GoodNodes, len(exported), ctxs)
	if e.kind == "pkt" {
		isQuery := decodes && inMsg.Y == "q"
		nonEmptyEffect := len(sent) > 0 || len(cbs) > 0 || len(padds) > 0 || len(results) > 0
		tableChanged := !sameKeys(preSnap, snap)
		if blockedSrc && (nonEmptyEffect || tableChanged) {
			oracle("C19", "blocked-source-had-effect", "%s", ctxs)
		}
		if e.src.Port == 0 && (nonEmptyEffect || tableChanged) {
			oracle("C01", "port-zero-source-had-effect", "%s", ctxs)
		}
		// C08
		if len(sent) > 1 {
			oracle("C08", "more-than-one-datagram-for-a-query", "%s n=%d", ctxs, len(sent))
		}
		for _, sd := range sent {
			if !isQuery {
				oracle("C08", "datagram-in-reaction-to-non-query", "%s", ctxs)
				continue
			}
			if sd.to.String() != e.src.String() || !sd.to.IP.Equal(e.src.IP) || sd.to.Port != e.src.Port {
				oracle("C08", "reply-to-wrong-address", "%s to=%s", ctxs, sd.to)
			}
			if sd.m == nil {
				oracle("C08", "reply-not-decodable", "%s", ctxs)
				continue
			}
			if sd.m.T != inMsg.T {
				oracle("C08", "transaction-id-not-echoed", "%s got=%x", ctxs, sd.m.T)
			}
			if c.cfg.passive {
				oracle("C19", "passive-node-answered-"+sd.m.Y, "%s", ctxs)
			}
			if sd.m.Y == "r" {
				if sd.m.R == nil || sd.m.R.ID != c.cfg.root {
					oracle("C08", "response-without-own-id", "%s", ctxs)
				}
				if !sd.m.IP.IP.Equal(e.src.IP) || sd.m.IP.Port != e.src.Port || len(sd.m.IP.IP) != len(e.src.IP) {
					oracle("C08", "response-ip-not-requester-compact-address", "%s ip=%v", ctxs, sd.m.IP)
				}
			}
		}
		if isQuery && !c.cfg.passive && !st.closed && !blockedSrc && e.src.Port != 0 && e.size == 0 && !vetoed(c.cfg.veto, inMsg.Q) && c.cfg.budget < 0 {
			known := map[string]bool{"ping": true, "find_node": true, "get_peers": true, "get": true, "announce_peer": true, "put": true}
			needsArgs := inMsg.Q != "ping"
			switch {
			case !known[inMsg.Q]:
				if len(sent) != 1 || sent[0].m == nil || sent[0].m.Y != "e" || sent[0].m.E == nil || sent[0].m.E.Code != 204 {
					oracle("C08", "unknown-method-not-answered-204", "%s", ctxs)
				}
			case needsArgs && inMsg.A == nil:
				if len(sent) != 1 || sent[0].m == nil || sent[0].m.Y != "e" || sent[0].m.E == nil || sent[0].m.E.Code != 203 {
					oracle("C08", "missing-arguments-not-answered-203:"+inMsg.Q, "%s", ctxs)
				}
			case inMsg.Q == "ping" || inMsg.Q == "find_node" || inMsg.Q == "get_peers" || inMsg.Q == "get":
				if len(sent) != 1 {
					oracle("C08", "query-not-answered:"+inMsg.Q, "%s", ctxs)
				}
			}
		}
		if isQuery {
			st.oracleTokens(e, inMsg, sent1(sent), cbs, padds, ctxs)
			st.oracleNodes(e, inMsg, sent1(sent), preSnap, ctxs)
		}
		// C07: completions
		for _, r := range results {
			dst := st.qdst[r.qid]
			if r.err == "" {
				if dst == nil || dst.String() != e.src.String() || !decodes || st.qt[r.qid] != inMsg.T {
					oracle("C07", "query-completed-by-non-matching-datagram", "%s qid=%d", ctxs, r.qid)
				}
			}
		}
		if len(results) > 1 {
			oracle("C07", "one-datagram-completed-several-queries", "%s n=%d", ctxs, len(results))
		}
		// a peer's own query is never the reply to ours, whatever transaction id it carries
		if isQuery {
			for _, r := range results {
				if r.err == "" {
					oracle("C07", "query-completed-by-inbound-query", "%s qid=%d", ctxs, r.qid)
				}
			}
		}
		// C06: entries that appeared / disappeared
		st.oracleEntry(e, inMsg, decodes, blockedSrc, prePending, preSnap, snap, ctxs)
	} else {
		if e.kind != "addnode" && e.kind != "failping" && e.kind != "adv" {
			if !sameKeys(preSnap, snap) {
				oracle("C06", "table-changed-without-traffic", "%s", ctxs)
			}
		}
		if e.kind == "addnode" {
			for _, n := range snap {
				if !hasNode(preSnap, n) && !(n.Id == e.id && n.Addr == e.src.String()) {
					oracle("C06", "unrelated-entry-appeared-on-addnode", "%s", ctxs)
				}
			}
		}
	}
	if c.cfg.budget >= 0 {
		st.ratedSent += len(sent)
		if e.kind == "qstart" && !e.rated {
			st.ratedSent -= len(sent)
		}
		if st.ratedSent > c.cfg.budget {
			oracle("C20", "rated-datagrams-exceed-budget", "%s sent=%d budget=%d", ctxs, st.ratedSent, c.cfg.budget)
		}
	}
}

type sentT struct {
	to  *net.UDPAddr
	m   *krpc.Msg
	raw []byte
}

// first decodable datagram of the list
func sent1(v []sentT) *krpc.Msg {
	for _, x := range v {
		if x.m != nil {
			return x.m
		}
	}
	return nil
}

func vetoed(v []string, q string) bool {
	for _, x := range v {
		if x == q {
			return true
		}
	}
	return false
}

func hasNode(l []dht.VerifNode, n dht.VerifNode) bool {
	for _, x := range l {
		if x.Id == n.Id && x.Addr == n.Addr {
			return true
		}
	}
	return false
}

func sameKeys(a, b []dht.VerifNode) bool {
	if len(a) != len(b) {
		return false
	}
	for _, x := range a {
		if !hasNode(b, x) {
			return false
		}
	}
	return true
}

func (st *srvState) oracleTable(snap []dht.VerifNode, nn, good, exported int, ctxs string) {
	c := st.c
	perBucket := map[int]int{}
	g, nb := 0, 0
	seen := map[string]bool{}
	for _, n := range snap {
		perBucket[n.Bucket]++
		if n.Good {
			g++
		}
		if !n.Bad {
			nb++
		}
		k := string(n.Id[:]) + "|" + n.Addr
		if seen[k] {
			oracle("C05", "duplicate-id-and-address", "%s %x %s", ctxs, n.Id, n.Addr)
		}
		seen[k] = true
		if n.Id == c.cfg.root {
			oracle("C05", "own-id-in-table", "%s", ctxs)
			continue
		}
		if n.Id == [20]byte{} {
			oracle("C05", "zero-id-in-table", "%s", ctxs)
		}
		// C06: with the security extension in force every entry's id is BEP 42-secure for its address (or the address is
		// exempt), by the independent rule of the security engine
		if !c.cfg.nosec {
			if ok, defined := secRefSecure(n.Id, n.IP); defined && !ok {
				oracle("C06", "insecure-id-in-table", "%s id=%x addr=%s", ctxs, n.Id, n.Addr)
			}
		}
		idx, p := dht.VerifBucketIndex(c.cfg.root, n.Id)
		if p || idx != n.Bucket || idx != sharedPrefix(c.cfg.root, n.Id) {
			oracle("C05", "entry-in-wrong-bucket", "%s id=%x bucket=%d expected=%d", ctxs, n.Id, n.Bucket, sharedPrefix(c.cfg.root, n.Id))
		}
	}
	for b, k := range perBucket {
		if k > 8 {
			oracle("C05", "bucket-over-capacity", "%s bucket=%d n=%d", ctxs, b, k)
		}
	}
	if nn != len(snap) || good != g || exported != nb {
		oracle("C05", "api-counts-disagree-with-table", "%s NumNodes=%d GoodNodes=%d Nodes=%d table=%d/%d/%d", ctxs, nn, good, exported, len(snap), g, nb)
	}
}

func sharedPrefix(a, b [20]byte) int {
	for i := 0; i < 160; i++ {
		if (a[i/8]>>(7-i%8))&1 != (b[i/8]>>(7-i%8))&1 {
			return i
		}
	}
	return 160
}

// C06: classify appearing and disappearing entries
func (st *srvState) oracleEntry(e *sev, in *krpc.Msg, decodes, blockedSrc bool, prePending [][2]string, pre, post []dht.VerifNode, ctxs string) {
	c := st.c
	var sender *krpc.ID
	matched := false
	if decodes {
		sender = in.SenderID()
		for _, p := range prePending {
			if p[0] == e.src.String() && p[1] == in.T {
				matched = true
			}
		}
	}
	isQuery := decodes && in.Y == "q"
	var newcomer *dht.VerifNode
	for i := range post {
		n := post[i]
		if hasNode(pre, n) {
			continue
		}
		newcomer = &post[i]
		ok := decodes && sender != nil && *sender == krpc.ID(n.Id) && n.Addr == e.src.String() && !in.ReadOnly && !blockedSrc && (isQuery || matched) && e.size == 0 && e.src.Port != 0
		if !ok {
			why := "hearsay-or-unrelated"
			switch {
			case !decodes:
				why = "undecodable"
			case blockedSrc:
				why = "blocked-source"
			case in.ReadOnly:
				why = "read-only-sender"
			case !isQuery && !matched:
				why = "unsolicited-or-mismatched-response"
			}
			oracle("C06", "entry-admitted:"+why, "%s id=%x addr=%s", ctxs, n.Id, n.Addr)
		}
		if !c.cfg.nosec && !dht.NodeIdSecure(n.Id, net.ParseIP(hostOf(n.Addr))) {
			oracle("C06", "insecure-id-admitted-under-security", "%s id=%x addr=%s", ctxs, n.Id, n.Addr)
		}
	}
	// an entry's "answered us" time stamp moves only through a solicited response from that entry
	for _, n := range post {
		for _, o := range pre {
			if o.Id != n.Id || o.Addr != n.Addr {
				continue
			}
			refreshed := (o.ResponseAgeNs < 0 && n.ResponseAgeNs >= 0) || (o.ResponseAgeNs >= 0 && n.ResponseAgeNs >= 0 && n.ResponseAgeNs+int64(time.Second) < o.ResponseAgeNs)
			own := decodes && sender != nil && *sender == krpc.ID(n.Id) && n.Addr == e.src.String()
			if refreshed && !(own && matched && !isQuery) {
				oracle("C06", "response-time-refreshed-without-solicited-response", "%s id=%x addr=%s", ctxs, n.Id, n.Addr)
				oracle("C09", "contact-counted-as-having-answered-without-solicited-response", "%s id=%x addr=%s", ctxs, n.Id, n.Addr)
			}
		}
	}
	for _, n := range pre {
		if hasNode(post, n) {
			continue
		}
		if n.Good {
			oracle("C06", "good-entry-evicted", "%s id=%x addr=%s", ctxs, n.Id, n.Addr)
		} else if !n.Bad {
			justResponded := newcomer != nil && !isQuery && matched
			if !(n.ResponseAgeNs < 0 && justResponded) {
				oracle("C06", "questionable-entry-evicted-without-cause", "%s id=%x addr=%s", ctxs, n.Id, n.Addr)
			}
		}
	}
	// admission whenever there is room
	if decodes && sender != nil && !in.ReadOnly && !blockedSrc && (isQuery || matched) && e.size == 0 && e.src.Port != 0 && !st.closed {
		id := [20]byte(*sender)
		if id != c.cfg.root && id != [20]byte{} && (c.cfg.nosec || dht.NodeIdSecure(id, e.src.IP)) {
			b := sharedPrefix(c.cfg.root, id)
			inBucket := 0
			for _, n := range pre {
				if n.Bucket == b {
					inBucket++
				}
			}
			present := false
			for _, n := range post {
				if n.Id == id && n.Addr == e.src.String() {
					present = true
				}
			}
			if inBucket < 8 && !present {
				oracle("C06", "eligible-sender-not-admitted-with-room", "%s id=%x bucket=%d n=%d", ctxs, id, b, inBucket)
			}
		}
	}
}

func hostOf(addr string) string {
	h, _, err := net.SplitHostPort(addr)
	if err != nil {
		return addr
	}
	return h
}

// C10 / C11: tokens and peers
func (st *srvState) oracleTokens(e *sev, in *krpc.Msg, out *krpc.Msg, cbs, padds []string, ctxs string) {
	c := st.c
	now := st.now()
	ipk := ipKey(e.src.IP)
	if out != nil && out.R != nil && out.R.Token != nil {
		st.tokens[*out.R.Token] = append(st.tokens[*out.R.Token], tokInfo{ipk, now})
		st.lastTok[ipk] = *out.R.Token
	}
	if in.Q == "get_peers" && in.A != nil && c.cfg.ps && out != nil && out.Y == "r" && (out.R == nil || out.R.Token == nil) {
		oracle("C11", "get-peers-reply-without-token", "%s", ctxs)
	}
	if (in.Q == "announce_peer" || in.Q == "put") && in.A != nil {
		// youngest issuance of this token string to this IP
		age := st.tokenAge(in.A.Token, e.src.IP)
		effect := out != nil || len(cbs) > 0 || len(padds) > 0
		if (age < 0 || age > 15*time.Minute) && effect {
			why := "never-issued-to-this-ip"
			if age > 15*time.Minute {
				why = "expired"
			}
			oracle("C10", "write-accepted-with-bad-token:"+why+":"+in.Q, "%s", ctxs)
		}
		if age >= 0 && age < 10*time.Minute && !c.cfg.passive && !vetoed(c.cfg.veto, in.Q) && !st.closed && c.cfg.budget < 0 && e.size == 0 {
			if st.bl != nil {
				if _, b := st.bl.Lookup(e.src.IP); b {
					return
				}
			}
			if out == nil {
				oracle("C10", "fresh-token-not-honoured:"+in.Q, "%s age=%v", ctxs, age)
			}
		}
		if in.Q == "announce_peer" && age >= 0 && age <= 15*time.Minute && out != nil && out.Y == "r" && c.cfg.ps {
			port := 0
			if in.A.Port != nil {
				port = *in.A.Port
			}
			if in.A.ImpliedPort {
				port = e.src.Port
			}
			ih := string(in.A.InfoHash[:])
			if st.announced[ih] == nil {
				st.announced[ih] = map[string]int{}
			}
			st.announced[ih][string(e.src.IP)] = port
		}
	}
	if in.Q == "get_peers" && in.A != nil && c.cfg.ps && out != nil && out.R != nil {
		ann := st.announced[string(in.A.InfoHash[:])]
		w4 := wants(in.A.Want, "n4", e.src.IP.To4() != nil)
		w6 := wants(in.A.Want, "n6", e.src.IP.To4() == nil)
		for _, v := range out.R.Values {
			switch len(v.IP) {
			case 4:
				if !w4 {
					oracle("C11", "6-byte-value-to-requester-not-wanting-ipv4", "%s", ctxs)
				}
			case 16:
				if !w6 {
					oracle("C11", "18-byte-value-to-requester-not-wanting-ipv6", "%s", ctxs)
				}
			default:
				oracle("C11", "value-of-odd-length", "%s len=%d", ctxs, len(v.IP))
			}
			found := false
			for ip, port := range ann {
				if net.IP(ip).Equal(v.IP) && uint16(port) == uint16(v.Port) {
					found = true
				}
			}
			if !found {
				oracle("C11", "value-never-announced", "%s value=%v", ctxs, v)
			}
		}
		for ip, port := range ann {
			rep := (len(ip) == 4 && (w4 || w6)) || (len(ip) == 16 && (w6 || (w4 && net.IP(ip).To4() != nil)))
			if !rep {
				continue
			}
			found := false
			for _, v := range out.R.Values {
				if net.IP(ip).Equal(v.IP) && uint16(port) == uint16(v.Port) {
					found = true
				}
			}
			if !found {
				oracle("C11", "announced-peer-missing-from-values", "%s peer=%v:%d", ctxs, net.IP(ip), port)
			}
		}
	}
}

// age of the youngest issuance of this token string to this IP on the history's clock; -1: never issued to it
func (st *srvState) tokenAge(tok string, ip net.IP) time.Duration {
	now := st.now()
	ipk := ipKey(ip)
	var age time.Duration = -1
	for _, ti := range st.tokens[tok] {
		if ti.ip16 == ipk {
			a := now.Sub(ti.at)
			if age < 0 || a < age {
				age = a
			}
		}
	}
	return age
}

// owedReply: C08 promises a datagram for every query except a write (announce_peer / put with arguments) whose
// token is not a fresh one of this node for the sender's IP
func (st *srvState) owedReply(e *sev, in *krpc.Msg) bool {
	if (in.Q == "announce_peer" || in.Q == "put") && in.A != nil {
		age := st.tokenAge(in.A.Token, e.src.IP)
		return age >= 0 && age < 10*time.Minute
	}
	return true
}

// method name as part of an oracle key
func methodKey(q string) string {
	switch q {
	case "ping", "find_node", "get_peers", "get", "announce_peer", "put":
		return q
	}
	return "other-method"
}

// translate moves every node id / target / info-hash of the event by st.xl (autoID cases). All-zero values stay
// (an absent field, the zero id).
func (st *srvState) translate(e *sev) {
	x := func(id *[20]byte) {
		if *id == [20]byte{} {
			return
		}
		for i := range id {
			id[i] ^= st.xl[i]
		}
	}
	x(&e.id)
	x((*[20]byte)(&e.args.Target))
	x((*[20]byte)(&e.args.InfoHash))
	if e.msg == nil {
		return
	}
	m := *e.msg
	if m.A != nil {
		a := *m.A
		x((*[20]byte)(&a.ID))
		x((*[20]byte)(&a.Target))
		x((*[20]byte)(&a.InfoHash))
		m.A = &a
	}
	if m.R != nil {
		r := *m.R
		x((*[20]byte)(&r.ID))
		if r.Nodes != nil {
			l := append(krpc.CompactIPv4NodeInfo(nil), r.Nodes...)
			for i := range l {
				x((*[20]byte)(&l[i].ID))
			}
			r.Nodes = l
		}
		if r.Nodes6 != nil {
			l := append(krpc.CompactIPv6NodeInfo(nil), r.Nodes6...)
			for i := range l {
				x((*[20]byte)(&l[i].ID))
			}
			r.Nodes6 = l
		}
		m.R = &r
	}
	e.msg = &m
}

func wants(ws []krpc.Want, w string, dflt bool) bool {
	if len(ws) == 0 {
		return dflt
	}
	for _, x := range ws {
		if string(x) == w {
			return true
		}
	}
	return false
}

// C09: node lists of find_node / get_peers / get replies
// The oracle reads "bucket" as the table does (the bucket an entry is stored in); when some entry is stored in another
// bucket than its id's distance from the node's own id gives (C05's concern), the rules are evaluated a second time with
// the buckets the ids define: the property speaks of nearness to the target, whatever the table's layout.
func (st *srvState) oracleNodes(e *sev, in *krpc.Msg, out *krpc.Msg, pre []dht.VerifNode, ctxs string) {
	// The requester itself, when it is a table entry: this very query is the latest it was heard from, so by the time the
	// reply is put together an entry that answered one of our queries at any time before (and is not bad) is good again,
	// however long ago the snapshot taken before the event last heard from it.
	if in.A != nil && e.src != nil {
		adj := append([]dht.VerifNode(nil), pre...)
		for i := range adj {
			if adj[i].Id == [20]byte(in.A.ID) && net.IP(adj[i].IP).Equal(e.src.IP) && adj[i].Port == e.src.Port {
				adj[i].QueryAgeNs = 0
				if !adj[i].Bad && adj[i].ResponseAgeNs >= 0 {
					adj[i].Good = true
					adj[i].Questionable = false
				}
			}
		}
		pre = adj
	}
	st.oracleNodesBy(e, in, out, pre, ctxs, func(n dht.VerifNode) int { return n.Bucket })
	for _, n := range pre {
		if n.Id != st.c.cfg.root && n.Bucket != sharedPrefix(st.c.cfg.root, n.Id) {
			st.oracleNodesBy(e, in, out, pre, ctxs, func(n dht.VerifNode) int { return sharedPrefix(st.c.cfg.root, n.Id) })
			break
		}
	}
}

func (st *srvState) oracleNodesBy(e *sev, in *krpc.Msg, out *krpc.Msg, pre []dht.VerifNode, ctxs string, bk func(dht.VerifNode) int) {
	c := st.c
	if out == nil || out.R == nil || in.A == nil {
		return
	}
	if in.Q != "find_node" && in.Q != "get_peers" && in.Q != "get" {
		return
	}
	target := in.A.Target
	if in.Q == "get_peers" {
		target = in.A.InfoHash
	}
	w4 := wants(in.A.Want, "n4", e.src.IP.To4() != nil)
	w6 := wants(in.A.Want, "n6", e.src.IP.To4() == nil)
	check := func(list []krpc.NodeInfo, v6 bool, name string) {
		if len(list) == 0 {
			return
		}
		if (v6 && !w6) || (!v6 && !w4) {
			oracle("C09", name+"-sent-to-requester-not-wanting-it", "%s", ctxs)
		}
		if len(list) > 8 {
			oracle("C09", name+"-more-than-8", "%s n=%d", ctxs, len(list))
		}
		seen := map[string]bool{}
		minBucket := 1000
		inReply := map[string]bool{}
		for _, ni := range list {
			k := string(ni.ID[:]) + "|" + ni.Addr.String()
			if seen[k] {
				oracle("C09", name+"-duplicate-contact", "%s", ctxs)
			}
			seen[k] = true
			is4 := ni.Addr.IP.To4() != nil
			if v6 && (is4 || len(ni.Addr.IP) != 16) {
				oracle("C09", "nodes6-holds-non-ipv6-contact", "%s contact=%v", ctxs, ni.Addr)
			}
			if !v6 && (!is4 || len(ni.Addr.IP) != 4) {
				oracle("C09", "nodes-holds-non-ipv4-contact", "%s contact=%v", ctxs, ni.Addr)
			}
			if ni.ID == c.cfg.root {
				oracle("C09", "reply-lists-responder-itself", "%s", ctxs)
			}
			var tn *dht.VerifNode
			for i := range pre {
				if pre[i].Id == [20]byte(ni.ID) && net.IP(pre[i].IP).Equal(ni.Addr.IP) && pre[i].Port == ni.Addr.Port {
					tn = &pre[i]
				}
			}
			if tn == nil {
				oracle("C09", "reply-lists-contact-not-in-table", "%s contact=%x", ctxs, ni.ID)
				continue
			}
			inReply[string(tn.Id[:])+"|"+tn.Addr] = true
			if !tn.Good || tn.ResponseAgeNs < 0 {
				oracle("C09", "reply-lists-contact-that-is-not-good", "%s contact=%x good=%v", ctxs, ni.ID, tn.Good)
			}
			if bk(*tn) < minBucket {
				minBucket = bk(*tn)
			}
		}
		// order rule relative to the target the query names
		start := 159
		if target != c.cfg.root {
			start = sharedPrefix(c.cfg.root, target)
		}
		family := func(n dht.VerifNode) bool { return (net.IP(n.IP).To4() == nil) == v6 }
		for _, n := range pre {
			if !n.Good || !family(n) || bk(n) > start {
				continue
			}
			k := string(n.Id[:]) + "|" + n.Addr
			if inReply[k] {
				continue
			}
			// a good contact of a nearer-or-equal bucket (index >= minBucket... nearer = larger index) omitted
			if bk(n) > minBucket {
				oracle("C09", "nearer-bucket-contact-omitted", "%s method=%s omitted=%x bucket=%d farthest-included-bucket=%d start=%d", ctxs, in.Q, n.Id, bk(n), minBucket, start)
			} else if len(list) < 8 {
				oracle("C09", "fewer-than-8-while-buckets-not-exhausted", "%s method=%s omitted=%x bucket=%d", ctxs, in.Q, n.Id, bk(n))
			}
		}
		for _, ni := range list {
			for _, n := range pre {
				if n.Id == [20]byte(ni.ID) && bk(n) > start {
					oracle("C09", "contact-from-bucket-beyond-target", "%s method=%s contact=%x bucket=%d start=%d", ctxs, in.Q, n.Id, bk(n), start)
				}
			}
		}
	}
	check(out.R.Nodes, false, "nodes")
	check(out.R.Nodes6, true, "nodes6")
	if len(out.R.Values) == 0 && (len(out.R.Nodes) > 0) != (len(out.R.Nodes6) > 0) {
		// no values, one list present: the other family's list may be missing only if the requester does not want it
		// or no good contact of that family exists at or below the start bucket
		start := 159
		if target != c.cfg.root {
			start = sharedPrefix(c.cfg.root, target)
		}
		for _, n := range pre {
			v6 := net.IP(n.IP).To4() == nil
			if !n.Good || bk(n) > start {
				continue
			}
			if v6 && w6 && len(out.R.Nodes6) == 0 {
				oracle("C09", "nodes6-missing-while-good-ipv6-contacts-exist", "%s method=%s start=%d have=%x", ctxs, in.Q, start, n.Id)
				break
			}
			if !v6 && w4 && len(out.R.Nodes) == 0 {
				oracle("C09", "nodes-missing-while-good-ipv4-contacts-exist", "%s method=%s start=%d have=%x", ctxs, in.Q, start, n.Id)
				break
			}
		}
	}
	if len(out.R.Nodes) == 0 && len(out.R.Nodes6) == 0 && len(out.R.Values) == 0 {
		// nothing listed: then no good contact of the right family may exist at or below the start bucket
		start := 159
		if target != c.cfg.root {
			start = sharedPrefix(c.cfg.root, target)
		}
		for _, n := range pre {
			v6 := net.IP(n.IP).To4() == nil
			if n.Good && bk(n) <= start && ((v6 && w6) || (!v6 && w4)) {
				oracle("C09", "empty-node-list-while-good-contacts-exist", "%s method=%s start=%d have=%x", ctxs, in.Q, start, n.Id)
				break
			}
		}
	}
}

// ---------------------------------------------------------------- engine entry

func serverEngine(seed uint64, tier string, args []string) {
	from := 0
	child := false
	for i := 0; i < len(args); i++ {
		switch args[i] {
		case "-child":
			child = true
		case "-from":
			from, _ = strconv.Atoi(args[i+1])
			i++
		}
	}
	cases := genServerCases(seed, tier)
	if !child {
		runContained("server", seed, tier, len(cases), func(idx int) string {
			if idx < len(cases) {
				return cases[idx].cfg.scenario
			}
			return "?"
		})
		return
	}
	if from == 0 {
		for n := 0; n < 6; n++ {
			siblingServersCase(seed, n)
		}
		for n := 0; n < 8; n++ {
			growListCase(seed, n) // srv_growlist.go
		}
	}
	procBase = runtime.NumGoroutine()
	for i := from; i < len(cases); i++ {
		runServerCase(&cases[i])
	}
}

func runServerCase(c *srvCase) {
	st := startServer(c)
	cfg := c.cfg // after the start: an unset NodeId has been replaced by the id the node chose
	secret := st.s.VerifTokenSecret()
	// C10: a token "issued by another node" can only be refused if nodes do not share their secret
	if len(secret) != 20 || isZero(secret) || string(secret) == lastSecret {
		oracle("C10", "token-secret-not-unique-per-server", "case=%d len=%d secret=%x previous=%x", c.idx, len(secret), secret, lastSecret)
	}
	lastSecret = string(secret)
	var veto []string
	for _, v := range cfg.veto {
		veto = append(veto, hx([]byte(v)))
	}
	vs := "-"
	if len(veto) > 0 {
		vs = strings.Join(veto, ",")
	}
	budget := "inf"
	if cfg.budget >= 0 {
		budget = strconv.Itoa(cfg.budget)
	}
	emit("sbegin %d root=%s passive=%d nosec=%d ps=%d cb=%d veto=%s wait=%d secret=%s now=%d bl=%s budget=%s exp=%d storefail=%d cbblock=%d scenario=%s => ok",
		c.idx, hx(cfg.root[:]), b2i(cfg.passive), b2i(cfg.nosec), b2i(cfg.ps), b2i(cfg.cb), vs, b2i(cfg.wait), hx(secret), st.now().UnixNano(), blString(cfg.bl), budget, int64(2*time.Hour), b2i(cfg.storeFail), b2i(cfg.cbBlock), cfg.scenario)
	out.Flush()
	for i := range c.evs {
		st.exec(i, &c.evs[i])
		out.Flush()
		if st.notQuiet >= 3 {
			// something keeps running in the background (goroutines the history does not account for):
			// reported above; do not spend the whole time budget on this case
			break
		}
	}
	// C01 closing probe: a fresh address pings, the API returns
	if !st.closed && !cfg.passive && cfg.budget < 0 && !vetoed(cfg.veto, "ping") {
		probe := udp([]byte{203, 0, 113, 77}, 40000+c.idx%1000)
		if st.bl != nil {
			if _, b := st.bl.Lookup(probe.IP); b {
				probe = nil
			}
		}
		if probe != nil {
			m := krpc.Msg{Q: "ping", Y: "q", T: "pr", A: &krpc.MsgArgs{ID: krpc.ID{1, 2, 3}}}
			b := bencode.MustMarshal(m)
			ok := st.conn.inject(b, probe, 5*time.Second)
			st.waitQuiet()
			ws := st.conn.takeWrites()
			answered := false
			for _, w := range ws {
				if mm, ok2 := decodeLikeServer(w.data); ok2 && mm.Y == "r" && mm.T == "pr" && w.addr.String() == probe.String() {
					answered = true
				}
			}
			if !ok || !answered {
				oracle("C01", "probe-ping-not-answered", "case=%d scenario=%s", c.idx, cfg.scenario)
			}
		}
	}
	done := make(chan struct{})
	go func() { st.s.Stats(); st.s.NumNodes(); st.s.Nodes(); close(done) }()
	select {
	case <-done:
	case <-time.After(5 * time.Second):
		oracle("C01", "api-does-not-return", "case=%d scenario=%s", c.idx, cfg.scenario)
	}
	emit("sfin %d => ok", c.idx)
	st.releaseHooks(false)
	for _, cancel := range st.cancels {
		cancel()
	}
	if !st.closed {
		st.s.Close()
	}
	st.conn.Close()
	// let this case's goroutines drain before the next baseline is taken
	deadline := time.Now().Add(2 * time.Second)
	for atomic.LoadInt64(&st.returned) < atomic.LoadInt64(&st.started) && time.Now().Before(deadline) {
		time.Sleep(50 * time.Microsecond)
	}
	for runtime.NumGoroutine() > procBase && time.Now().Before(deadline) {
		time.Sleep(50 * time.Microsecond)
	}
}

var lastSecret string

// goroutines of the harness process itself, before any server exists
var procBase int

var _ = sort.Strings
var _ = os.Exit
