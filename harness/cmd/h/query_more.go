package main

// Engine "query", further case families (C07 / C14):
//
//   dup-replies*      3..6 copies of the genuine reply inside the window between the first delivery and the query's own
//                     clean-up.  The window is held open by construction: the copies are delivered while the sender
//                     goroutine is held inside socket.WriteTo (w<i>) or inside QueryResendDelay (g<i>), so Server.Query
//                     has taken the reply, cancelled the sender and is joining it, the transaction still being its own
//                     to remove.  Also with a pause between the copies and in the abandonment window (context cancelled
//                     first).  Duplicates must not affect the query (C07), nothing may be left behind (C14).
//   addr-*            destination address forms (4-byte / 16-byte IPv4, IPv6, link-local IPv6 with and without a zone)
//                     and datagrams echoing the transaction id from NEAR-MISS addresses (other port, other IP, other
//                     zone, no zone, IPv6 addresses embedding the IPv4 one, ...) or from the right address with a
//                     near-miss id: none of them may complete the query (script action `stray`, no event in the
//                     model); the genuine reply that follows must.  Every stray carries its own sender id, so the
//                     datagram a query was completed with is known.
//   id-wraparound     (special "wrap") one query left pending to X, then >= 65536+64 short-lived queries to X on the
//                     same server (pre-cancelled, some answered at once): all must return, nothing may be left.
//
//   overlap-*         (special "overlap", end of this file) 2..6 queries outstanding at once on one server, to different
//                     destinations, with resends interleaved by construction; every datagram written is checked:
//                     destination <-> transaction id <-> method / arguments of the query it belongs to.
//   bl-*              (scenarios in query.go) a configured IP blocklist that does not cover the destination (empty, ranges
//                     around it, installed later) x Close before / inside / after a send, cancellations, write failures.
//   strays            also: error / response messages from the exact destination whose "t" is absent, empty or not a string.
//
// Every query datagram the engine sees is also checked for its transaction id: the canonical uvarint of a counter value
// no earlier query of the process carried (what the server model demands of EQueryStart, C07), one id per query.

import (
	"context"
	"encoding/binary"
	"fmt"
	"math/big"
	"net"
	"runtime"
	"sort"
	"strings"
	"sync"
	"sync/atomic"
	"time"

	"github.com/anacrolix/log"
	"github.com/anacrolix/torrent/bencode"
	"golang.org/x/time/rate"

	dht "github.com/anacrolix/dht/v2"
	"github.com/anacrolix/dht/v2/krpc"
)

// ---------------------------------------------------------------- addresses

func qDest(form string, rep int) *net.UDPAddr {
	port := 7000 + rep
	switch form {
	case "v4": // 4-byte
		return &net.UDPAddr{IP: net.IPv4(10, 1, 2, 3).To4(), Port: port}
	case "v6":
		return &net.UDPAddr{IP: net.ParseIP("2001:db8::1:2"), Port: port}
	case "llz": // link-local with a zone: the same IP exists on every link
		return &net.UDPAddr{IP: net.ParseIP("fe80::1"), Port: port, Zone: "eth0"}
	case "llzn": // numeric zone
		return &net.UDPAddr{IP: net.ParseIP("fe80::1"), Port: port, Zone: "2"}
	case "ll":
		return &net.UDPAddr{IP: net.ParseIP("fe80::1"), Port: port}
	}
	return &net.UDPAddr{IP: net.IPv4(10, 1, 2, 3), Port: port} // 16-byte (v4-mapped), the grid's destination
}

// qAltForm: the other spelling of the same IPv4 address (same IP, same port: the same node).
func qAltForm(a *net.UDPAddr) *net.UDPAddr {
	ip4 := a.IP.To4()
	if ip4 == nil {
		return a
	}
	if len(a.IP) == 4 {
		return &net.UDPAddr{IP: ip4.To16(), Port: a.Port, Zone: a.Zone}
	}
	return &net.UDPAddr{IP: append(net.IP(nil), ip4...), Port: a.Port, Zone: a.Zone}
}

func qGenuineID(dest *net.UDPAddr) (id krpc.ID) {
	id[0], id[19] = 0x77, byte(dest.Port)
	return
}

type qStray struct {
	name string
	addr *net.UDPAddr
	t    func(string) string // nil: the query's own transaction id
	// raw, when set, builds the whole datagram (k: index of the stray): messages the krpc encoder would not produce
	raw func(t string, k int) []byte
}

// qStrayErrCode: KRPC error code naming stray k (the error datagrams have no sender id to carry it)
func qStrayErrCode(k int) int { return 700 + k }

// qRawMsg: a bencoded dictionary from already encoded (key, value) pairs given in key order; "" values are left out.
func qRawMsg(kv ...string) []byte {
	var b strings.Builder
	b.WriteString("d")
	for i := 0; i+1 < len(kv); i += 2 {
		if kv[i+1] == "" {
			continue
		}
		fmt.Fprintf(&b, "%d:%s%s", len(kv[i]), kv[i], kv[i+1])
	}
	b.WriteString("e")
	return []byte(b.String())
}

// qStrays: sources that are NOT the destination (another port, IP or zone), and the destination itself with an id that
// is not the query's.  Nothing here is the same (IP, port, zone) under another spelling.
func qStrays(d *net.UDPAddr) []qStray {
	var out []qStray
	cp := func() *net.UDPAddr {
		return &net.UDPAddr{IP: append(net.IP(nil), d.IP...), Port: d.Port, Zone: d.Zone}
	}
	add := func(name string, f func(a *net.UDPAddr)) {
		a := cp()
		f(a)
		out = append(out, qStray{name: name, addr: a})
	}
	add("other-port", func(a *net.UDPAddr) { a.Port++ })
	add("port-bytes-swapped", func(a *net.UDPAddr) { a.Port = (a.Port>>8 | a.Port<<8) & 0xffff })
	add("other-ip-last-byte", func(a *net.UDPAddr) { a.IP[len(a.IP)-1]++ })
	if ip4 := d.IP.To4(); ip4 != nil {
		add("other-ip-first-byte", func(a *net.UDPAddr) { a.IP[len(a.IP)-4]++ })
		add("ipv6-v4-compatible", func(a *net.UDPAddr) { // ::a.b.c.d is not ::ffff:a.b.c.d
			a.IP = append(make(net.IP, 12), ip4...)
		})
		add("ipv6-nat64", func(a *net.UDPAddr) { a.IP = append(net.ParseIP("64:ff9b::")[:12:12], ip4...) })
		add("ipv6-6to4", func(a *net.UDPAddr) {
			ip := make(net.IP, 16)
			ip[0], ip[1] = 0x20, 0x02
			copy(ip[2:], ip4)
			a.IP = ip
		})
	} else {
		add("other-ip-first-byte", func(a *net.UDPAddr) { a.IP[1] ^= 1 })
		add("other-prefix-same-interface-id", func(a *net.UDPAddr) { a.IP[7] ^= 0x40 })
		add("other-interface-id-same-prefix", func(a *net.UDPAddr) { a.IP[8] ^= 0x02 })
		add("ipv4-of-last-4-bytes", func(a *net.UDPAddr) { a.IP = append(net.IP(nil), d.IP[12:]...); a.Zone = "" })
		add("ipv4-mapped-of-last-4-bytes", func(a *net.UDPAddr) { a.IP = net.IP(append(net.IP(nil), d.IP[12:]...)).To16(); a.Zone = "" })
	}
	if d.Zone != "" {
		add("other-zone", func(a *net.UDPAddr) {
			if a.Zone == "eth1" {
				a.Zone = "eth0"
			} else {
				a.Zone = "eth1"
			}
		})
		add("no-zone", func(a *net.UDPAddr) { a.Zone = "" })
		add("zone-prefix", func(a *net.UDPAddr) { a.Zone = a.Zone + "0" })
		add("zone-other-case", func(a *net.UDPAddr) { a.Zone = strings.ToUpper(a.Zone) + "X" })
	} else if d.IP.IsLinkLocalUnicast() {
		add("added-zone", func(a *net.UDPAddr) { a.Zone = "eth0" })
	}
	tmod := func(name string, f func(string) string) {
		out = append(out, qStray{name: name, addr: cp(), t: f})
	}
	tmod("right-address-id-longer", func(t string) string { return t + "\x00" })
	tmod("right-address-id-prefix", func(t string) string { return t[:len(t)-1] })
	tmod("right-address-id-adjacent", func(t string) string { b := []byte(t); b[len(b)-1] ^= 1; return string(b) })
	// From the exact destination, which has exactly this one query outstanding: error and response messages whose "t" is
	// absent, empty or of another bencode type; messages without "y".  None echoes the id.
	bstr := func(x string) string { return fmt.Sprintf("%d:%s", len(x), x) }
	raw := func(name string, f func(t string, k int) []byte) {
		out = append(out, qStray{name: name, addr: cp(), raw: f})
	}
	eOf := func(k int) string { return fmt.Sprintf("li%de%se", qStrayErrCode(k), bstr("stray")) }
	rOf := func(k int) string { id := qStrayID(k); return "d" + bstr("id") + bstr(string(id[:])) + "e" }
	for _, y := range []string{"e", "r"} {
		y := y
		body := func(k int) (string, string) { // values of the keys "e" and "r"
			if y == "e" {
				return eOf(k), ""
			}
			return "", rOf(k)
		}
		tforms := []struct {
			name string
			t    func(t string) string
		}{
			{"t-absent", func(string) string { return "" }},
			{"t-empty", func(string) string { return "0:" }},
			{"t-integer", func(t string) string { v, _ := binary.Uvarint([]byte(t)); return fmt.Sprintf("i%de", v) }},
			{"t-empty-list", func(string) string { return "le" }},
			// not here: "t" = a list holding the id.  The bencode decoder of the pinned tree decodes that into the id itself, so
			// the datagram does echo the id as far as krpc.Msg is concerned (decoder quirk, outside this property's oracle)
		}
		for _, tf := range tforms {
			tf := tf
			raw("right-address-"+y+"-"+tf.name, func(t string, k int) []byte {
				e, r := body(k)
				return qRawMsg("e", e, "r", r, "t", tf.t(t), "y", bstr(y))
			})
		}
	}
	raw("right-address-both-e-and-r-t-absent", func(t string, k int) []byte {
		return qRawMsg("e", eOf(k), "r", rOf(k), "y", bstr("e"))
	})
	raw("right-address-no-y-t-absent", func(t string, k int) []byte { return qRawMsg("e", eOf(k), "r", rOf(k)) })
	raw("right-address-no-y-t-empty", func(t string, k int) []byte { return qRawMsg("e", eOf(k), "t", "0:") })
	raw("right-address-e-as-string-t-absent", func(t string, k int) []byte { return qRawMsg("e", bstr("stray"), "y", bstr("e")) })
	raw("right-address-e-only", func(t string, k int) []byte { return qRawMsg("y", bstr("e")) })
	return out
}

func qStrayID(k int) (id krpc.ID) {
	id[0], id[1] = 0x66, byte(k)
	return
}

// stray: one datagram that is not the reply of the query (it must change nothing)
func (r *qRun) stray(k int) {
	if r.tid == "" || r.wedged || k >= len(r.strays) {
		return
	}
	st := r.strays[k]
	t := r.tid
	if st.t != nil {
		t = st.t(t)
	}
	b, err := bencode.Marshal(krpc.Msg{T: t, Y: "r", R: &krpc.Return{ID: qStrayID(k)}})
	if err != nil {
		panic(err)
	}
	if st.raw != nil {
		b = st.raw(r.tid, k)
	}
	if !r.conn.inject(b, st.addr, 5*time.Second) && !r.closed {
		oracle("C01", "serve-loop-stuck", "stray datagram (%s from %v) not taken: %s", st.name, st.addr, r.detail())
		r.wedged = true
	}
}

// ---------------------------------------------------------------- guards around calls that take Server.mu

func (r *qRun) closeServer() {
	if r.wedged {
		return
	}
	done := make(chan struct{})
	go func() { r.s.Close(); close(done) }()
	select {
	case <-done:
	case <-time.After(5 * time.Second):
		r.wedged = true
		oracle("C01", "server-wedged:query", "Server.Close did not return within 5 s: %s", r.detail())
	}
}

func (r *qRun) outstanding() int {
	if r.wedged {
		return -1
	}
	ch := make(chan int, 1)
	go func() { ch <- r.s.Stats().OutstandingTransactions }()
	select {
	case n := <-ch:
		return n
	case <-time.After(5 * time.Second):
		r.wedged = true
		oracle("C01", "server-wedged:query", "Server.Stats did not return within 5 s: %s", r.detail())
		return -1
	}
}

func qFamily(tag string) string {
	switch {
	case strings.HasPrefix(tag, "dup-replies"):
		return "dup-replies"
	case strings.HasPrefix(tag, "addr-"):
		return "addr"
	}
	return ""
}

// ---------------------------------------------------------------- C07 oracles on one finished (or stuck) query

func (sc *qScn) onlyReplies() bool {
	n := 0
	for _, d := range sc.script {
		switch d.action {
		case "reply":
			if d.point == "pre" || d.point == "ret" {
				return false
			}
			n++
		case "nop", "probe", "stray":
		default:
			return false
		}
	}
	return n > 0 && sc.fail == 0 && !sc.blocked && !sc.closed0 && sc.budget < 0
}

func (r *qRun) c07Oracles(o *qOutcome) {
	sc := r.sc
	if r.tidChanged != "" {
		oracle("C07", "query-resend-carries-another-transaction-id", "first datagram t=%x, later t=%x: %s", r.tid, r.tidChanged, r.detail())
	}
	if o.res.Err == nil && !o.noReturn {
		// the harness hands the server ONE kind of datagram that matches the query: genuine id, from the destination
		got := o.res.Reply.SenderID()
		want := qGenuineID(r.dest)
		switch {
		case o.res.Reply.E != nil && o.res.Reply.E.Code >= qStrayErrCode(0) && o.res.Reply.E.Code < qStrayErrCode(len(r.strays)):
			st := r.strays[o.res.Reply.E.Code-qStrayErrCode(0)]
			oracle("C07", "query-completed-by-non-matching-datagram:"+st.name, "query to %v (t=%x) returned the error datagram sent from %v with t=%q y=%q: %s",
				r.dest, r.tid, st.addr, o.res.Reply.T, o.res.Reply.Y, r.detail())
		case got != nil && got[0] == 0x66 && int(got[1]) < len(r.strays):
			st := r.strays[got[1]]
			oracle("C07", "query-completed-by-non-matching-datagram:"+st.name, "query to %v (t=%x) returned the datagram sent from %v with t=%x: %s",
				r.dest, r.tid, st.addr, o.res.Reply.T, r.detail())
		case got == nil || *got != want || o.res.Reply.T != r.tid:
			oracle("C07", "query-completed-by-non-matching-datagram:unknown", "query to %v (t=%x) returned t=%x from id %v: %s", r.dest, r.tid, o.res.Reply.T, got, r.detail())
		}
	}
	// duplicates of the reply (and datagrams that are not the reply) do not affect the query: it returns, with the reply
	if sc.onlyReplies() && o.class != "reply" {
		key := "duplicate-reply-affected-query:"
		if qFamily(sc.tag) == "addr" {
			key = "genuine-reply-after-strays-did-not-complete-query:"
		}
		oracle("C07", key+o.class, "replies and strays only, yet the query ended as %s: %s", o.class, r.detail())
	}
}

// ---------------------------------------------------------------- transaction id of every query datagram seen

var qTid struct {
	sync.Mutex
	seen map[uint64]bool
	bad  int
}

func qCheckTid(t string, detail string) {
	qTid.Lock()
	defer qTid.Unlock()
	if qTid.seen == nil {
		qTid.seen = map[uint64]bool{}
	}
	v, n := binary.Uvarint([]byte(t))
	var buf [binary.MaxVarintLen64]byte
	canon := n > 0 && n == len(t) && string(buf[:binary.PutUvarint(buf[:], v)]) == t
	switch {
	case !canon:
		if qTid.bad++; qTid.bad <= 3 {
			oracle("C07", "transaction-id-not-canonical-uvarint", "t=%x (%d bytes) is not binary.PutUvarint of any counter value: %s", t, len(t), detail)
		}
	case qTid.seen[v]:
		if qTid.bad++; qTid.bad <= 3 {
			oracle("C07", "transaction-id-issued-twice", "t=%x (counter %d) was carried by an earlier query of this process: %s", t, v, detail)
		}
	}
	if canon {
		qTid.seen[v] = true
	}
}

// ---------------------------------------------------------------- scenarios

func queryMoreScenarios(tier string, add func(qScn), d func(string, int, string) qDir) {
	rep := func(n int, x qDir) []qDir {
		var out []qDir
		for i := 0; i < n; i++ {
			out = append(out, x)
		}
		return out
	}
	cat := func(parts ...[]qDir) []qDir {
		var out []qDir
		for _, p := range parts {
			out = append(out, p...)
		}
		return out
	}
	one := func(x qDir) []qDir { return []qDir{x} }
	maxTries, copies := 3, []int{3, 4, 6}
	if tier == "thorough" {
		maxTries, copies = 4, []int{3, 4, 5, 6, 8, 16}
	}
	// ---- several copies of the reply inside the window
	for tries := 1; tries <= maxTries; tries++ {
		for i := 1; i <= tries; i++ {
			for _, pt := range []string{"w", "g"} {
				for _, n := range copies {
					add(qScn{tries: tries, reps: 3, tag: fmt.Sprintf("dup-replies-%d-%s", n, pt), script: rep(n, d(pt, i, "reply"))})
				}
				// the query has certainly taken the first copy before the others arrive
				add(qScn{tries: tries, reps: 2, tag: "dup-replies-paused-" + pt, followB: 1,
					script: cat(one(d(pt, i, "reply")), one(d(pt, i, "nop")), rep(3, d(pt, i, "reply")), one(d(pt, i, "probe")))})
			}
			// copies straddling the return of the write, and the end of the query
			add(qScn{tries: tries, reps: 3, tag: "dup-replies-w-g", script: cat(rep(2, d("w", i, "reply")), rep(2, d("g", i, "reply")))})
			add(qScn{tries: tries, reps: 3, tag: "dup-replies-w-ret", followB: 1, script: cat(rep(3, d("w", i, "reply")), rep(2, d("ret", 0, "reply")), one(d("ret", 0, "probe")))})
			// the abandonment window with copies: nobody will ever read the reply
			add(qScn{tries: tries, reps: 2, tag: "dup-replies-abandonment-window", followB: 1,
				script: cat(one(d("w", i, "cancel")), one(d("w", i, "nop")), rep(4, d("w", i, "reply")), one(d("w", i, "probe")))})
			add(qScn{tries: tries, reps: 3, tag: "dup-replies-after-reply-then-cancel",
				script: cat(one(d("g", i, "reply")), one(d("g", i, "cancel")), rep(3, d("g", i, "reply")))})
		}
	}
	// ---- destination address forms and near-miss sources
	for _, form := range []string{"v4", "", "v6", "llz", "llzn", "ll"} {
		fname := form
		if fname == "" {
			fname = "v4m"
		}
		ns := len(qStrays(qDest(form, 0)))
		strays := func(pt string, i int) []qDir {
			var out []qDir
			for k := 0; k < ns; k++ {
				x := d(pt, i, "stray")
				x.k = k
				out = append(out, x)
			}
			return out
		}
		add(qScn{dest: form, tries: 1, reps: 3, tag: "addr-" + fname + "-plain-reply", script: one(d("g", 1, "reply"))})
		for tries := 1; tries <= 2; tries++ {
			for _, pt := range []string{"w", "g"} {
				add(qScn{dest: form, tries: tries, reps: 2, tag: "addr-" + fname + "-strays-then-reply-" + pt,
					script: cat(strays(pt, tries), one(d(pt, tries, "reply")))})
			}
			add(qScn{dest: form, tries: tries, reps: 2, tag: "addr-" + fname + "-strays-only", script: strays("g", 1)})
		}
		add(qScn{dest: form, tries: 2, reps: 2, tag: "addr-" + fname + "-strays-each-send-then-reply",
			script: cat(strays("w", 1), strays("g", 1), strays("w", 2), one(d("g", 2, "reply")))})
		add(qScn{dest: form, tries: 1, reps: 2, tag: "addr-" + fname + "-reply-then-strays", followB: 1,
			script: cat(one(d("w", 1, "reply")), strays("w", 1), one(d("w", 1, "probe")))})
		add(qScn{dest: form, tries: 1, reps: 2, tag: "addr-" + fname + "-cancel-then-strays",
			script: cat(one(d("w", 1, "cancel")), one(d("w", 1, "nop")), strays("w", 1))})
		if form == "v4" || form == "" {
			// the reply comes from the same IPv4 address in the other spelling (a dual-stack socket reports 16 bytes)
			add(qScn{dest: form, replyForm: "alt", tries: 1, reps: 3, tag: "addr-" + fname + "-reply-in-other-spelling", script: one(d("g", 1, "reply"))})
			add(qScn{dest: form, replyForm: "alt", tries: 2, reps: 2, tag: "addr-" + fname + "-strays-then-reply-in-other-spelling",
				script: cat(strays("g", 2), one(d("g", 2, "reply")))})
		}
	}
	// ---- the id space: more queries than 2^16 while one stays pending
	n := 1<<16 + 64
	if tier == "thorough" {
		n = 2<<16 + 64
	}
	add(qScn{tries: 1, reps: 1, tag: "id-wraparound", special: "wrap", wrapN: n})
	// the reply matched between the sender's time-out and the removal of the transaction (query_lockwin.go)
	add(qScn{tries: 1, reps: 6, tag: "reply-behind-lock-at-timeout-1", special: "lockwin"})
	add(qScn{tries: 3, reps: 4, tag: "reply-behind-lock-at-timeout-3", special: "lockwin"})
	queryOverlapScenarios(tier, add)
}

// ---------------------------------------------------------------- id wrap-around

// qWrapCase: a query to X stays pending (its sender is held inside QueryResendDelay after the first datagram) while
// wrapN short-lived queries to X run on the same server, one after the other: context cancelled beforehand (script
// pre:cancel), every 1024th answered inside its first write (script w1:reply).  Then the pending query is cancelled at
// its gate (script g1:cancel).  Every one of them must return, no transaction or goroutine may stay.
func qWrapCase(idx int, sc *qScn, tier string, base0 *int) {
	lhsOf := func(sub, script string) string {
		return fmt.Sprintf("qcase %d%s 1 z - 0 0 0 %s", idx, sub, script)
	}
	detail := fmt.Sprintf("%s tag=%s n=%d", lhsOf("", "pre:cancel"), sc.tag, sc.wrapN)
	conn := &holdConn{fakeConn: newFakeConn()}
	dest := &net.UDPAddr{IP: net.IPv4(10, 1, 2, 3), Port: 6881}
	var mu sync.Mutex
	pendingTid := "" // id of the pending query, "" before its datagram
	curWrites := 0   // its datagrams
	answer := false  // answer it inside its first write
	shared := 0      // short-lived queries that carried the pending query's id
	var id krpc.ID
	id[0], id[19] = 0x77, byte(dest.Port)
	conn.before = func(b []byte, addr *net.UDPAddr) {
		m, ok := decodeLikeServer(b)
		if !ok || m.Y != "q" {
			return
		}
		mu.Lock()
		if pendingTid == "" {
			pendingTid = m.T
			mu.Unlock()
			qCheckTid(m.T, detail)
			return
		}
		if curWrites == 0 && m.T == pendingTid {
			shared++
		}
		curWrites++
		first, ans := curWrites == 1, answer
		mu.Unlock()
		if first {
			qCheckTid(m.T, detail)
			if ans {
				rb, _ := bencode.Marshal(krpc.Msg{T: m.T, Y: "r", R: &krpc.Return{ID: id}})
				conn.inject(rb, dest, 5*time.Second)
			}
		}
	}
	var gates int64
	release := make(chan struct{})
	cfg := &dht.ServerConfig{
		Conn:          conn,
		NoSecurity:    true,
		StartingNodes: func() ([]dht.Addr, error) { return nil, nil },
		QueryResendDelay: func() time.Duration {
			if atomic.AddInt64(&gates, 1) == 1 {
				<-release // the pending query's sender, after its first (and only) send
			}
			return time.Hour
		},
		Logger:      log.NewLogger().FilterLevel(log.Critical),
		SendLimiter: rate.NewLimiter(rate.Inf, 1),
	}
	cfg.NodeId[0] = 0x42
	s, err := dht.NewServer(cfg)
	if err != nil {
		panic(err)
	}
	r := &qRun{sc: sc, idx: idx, s: s, conn: conn, dest: dest} // for the guards
	for atomic.LoadInt64(&conn.fakeConn.reads) == 0 {
		time.Sleep(20 * time.Microsecond)
	}
	// the pending query
	pctx, pcancel := context.WithCancel(context.Background())
	defer pcancel()
	pres := make(chan dht.QueryResult, 1)
	go func() { pres <- s.Query(pctx, dht.NewAddr(dest), "ping", dht.QueryInput{NumTries: 1}) }()
	deadline := time.Now().Add(5 * time.Second)
	for atomic.LoadInt64(&gates) == 0 && time.Now().Before(deadline) {
		time.Sleep(50 * time.Microsecond)
	}
	if atomic.LoadInt64(&gates) == 0 {
		oracle("C14", "query-did-not-send", "the pending query's sender never reached its resend delay: %s", detail)
	}
	// the short-lived ones, in one goroutine; the main goroutine watches the progress
	var done int64
	type wrapEnd struct {
		panicked interface{}
		at       int
	}
	endCh := make(chan wrapEnd, 1)
	outsPre, outsAns := map[string]bool{}, map[string]bool{}
	maxPending := 0
	cctx, ccancel := context.WithCancel(context.Background())
	ccancel()
	go func() {
		var e wrapEnd
		defer func() {
			if p := recover(); p != nil {
				e.panicked = p
			}
			endCh <- e
		}()
		for i := 0; i < sc.wrapN; i++ {
			e.at = i
			ans := i%1024 == 517
			mu.Lock()
			curWrites, answer = 0, ans
			mu.Unlock()
			var res dht.QueryResult
			if ans {
				actx, acancel := context.WithCancel(context.Background())
				res = s.Query(actx, dht.NewAddr(dest), "ping", dht.QueryInput{NumTries: 1})
				acancel()
			} else {
				res = s.Query(cctx, dht.NewAddr(dest), "ping", dht.QueryInput{NumTries: 1})
			}
			mu.Lock()
			w := curWrites
			mu.Unlock()
			o := fmt.Sprintf("%d/-/%s", w, classOf(res))
			if ans {
				outsAns[o] = true
				if res.Err == nil {
					if got := res.Reply.SenderID(); got == nil || *got != id {
						oracle("C07", "query-completed-by-non-matching-datagram:unknown", "short-lived query %d returned t=%x from id %v: %s", i, res.Reply.T, got, detail)
					}
				}
			} else {
				outsPre[o] = true
			}
			if i%8192 == 8191 {
				if p := r.outstanding() - 1; p > maxPending { // the pending query's own transaction is meant to be there
					maxPending = p
				}
			}
			atomic.StoreInt64(&done, int64(i+1))
		}
	}()
	var end wrapEnd
	stuck := false
	last, lastAt := int64(-1), time.Now()
wait:
	for {
		select {
		case end = <-endCh:
			break wait
		case <-time.After(200 * time.Millisecond):
			if n := atomic.LoadInt64(&done); n != last {
				last, lastAt = n, time.Now()
			} else if time.Since(lastAt) > 8*time.Second {
				stuck = true
				break wait
			}
		}
	}
	ndone := int(atomic.LoadInt64(&done))
	mu.Lock()
	nshared := shared
	ptid := pendingTid
	mu.Unlock()
	if nshared > 0 {
		oracle("C07", "transaction-id-shared-by-outstanding-queries", "%d short-lived queries to %v carried t=%x of the query still pending to it: %s", nshared, dest, ptid, detail)
	}
	switch {
	case end.panicked != nil:
		// a panic inside Server.Query: that query has not returned (and the server's lock may be held for good)
		oracle("C14", "query-panicked:id-wraparound", "short-lived query %d (of %d, one query to %v pending with t=%x) panicked instead of returning: %q ; %s",
			end.at, sc.wrapN, dest, ptid, fmt.Sprint(end.panicked), detail)
	case stuck:
		oracle("C14", "query-did-not-return:id-wraparound", "short-lived query %d of %d (one query to %v pending with t=%x) did not return within 8 s: %s", ndone, sc.wrapN, dest, ptid, detail)
	}
	failed := end.panicked != nil || stuck
	// the pending query ends by its context, at its gate
	pcancel()
	close(release)
	pclass := "stuck"
	pwrites := 0
	select {
	case res := <-pres:
		pclass = classOf(res)
		conn.fakeConn.mu.Lock()
		for _, w := range conn.fakeConn.writes {
			if m, ok := decodeLikeServer(w.data); ok && m.Y == "q" && m.T == ptid && ptid != "" {
				pwrites++
			}
		}
		conn.fakeConn.mu.Unlock()
		if !failed && nshared == 0 && pwrites != 1 {
			oracle("C14", "too-many-sends", "writes=%d tries=1 of the pending query: %s", pwrites, detail)
		}
	case <-time.After(5 * time.Second):
		oracle("C14", "query-did-not-return", "the pending query, cancelled after %d short-lived queries: %s", ndone, detail)
	}
	pend := r.outstanding()
	if pend > 0 {
		oracle("C14", "transaction-leak", "outstanding=%d after %d short-lived queries and the pending one: %s", pend, ndone, detail)
	}
	if pend > maxPending {
		maxPending = pend
	}
	r.closeServer()
	leak := waitGoroutines(*base0, 3*time.Second)
	if leak > 0 {
		oracle("C14", "goroutine-leak:query", "+%d goroutines after %d short-lived queries beside a pending one: %s", leak, ndone, detail)
		*base0 = runtime.NumGoroutine()
	}
	emit("# qwrap %d: %d short-lived queries to %v beside one pending (t=%x), answered at once: every 1024th", idx, ndone, dest, ptid)
	if stuck || end.panicked != nil {
		outsPre["0/-/stuck"] = true
	}
	show := func(m map[string]bool) string {
		var l []string
		for o := range m {
			l = append(l, o)
		}
		sort.Strings(l)
		return fmt.Sprintf("%d %s", len(l), strings.Join(l, " "))
	}
	emit("%s => %s %d %d", lhsOf("", "pre:cancel"), show(outsPre), maxPending, leak)
	if len(outsAns) > 0 {
		emit("%s => %s %d %d", lhsOf(".a", "w1:reply"), show(outsAns), 0, 0)
	}
	emit("%s => 1 %d/-/%s %d %d", lhsOf(".p", "g1:cancel"), pwrites, pclass, 0, 0)
}

// ---------------------------------------------------------------- a dead child

// qDeathOracles: the child process died inside query case `crashed`: whatever else it means (C01), the query under way
// has not returned (C14); in the families that feed a query datagrams which must not affect it, one of them did (C07).
func qDeathOracles(scs []qScn, crashed int, site, first string, seed uint64) {
	lhs, tag := "?", "?"
	if crashed >= 0 && crashed < len(scs) {
		lhs, tag = scs[crashed].lhs(crashed), scs[crashed].tag
	}
	emit("oracle C14 query-process-died:%s %q in %s tag=%s replay: h -seed %d query -only %d", site, first, lhs, tag, seed, crashed)
	if fam := qFamily(tag); fam != "" {
		emit("oracle C07 query-process-died:%s:%s %q in %s tag=%s replay: h -seed %d query -only %d", fam, site, first, lhs, tag, seed, crashed)
	}
}

// ---------------------------------------------------------------- blocklists that do not cover the destination

// qOtherIPs: addresses around ip (neighbours in the last and the first byte, the other address family's spelling of a
// neighbour), never ip itself.
func qOtherIPs(ip net.IP) []net.IP {
	var out []net.IP
	mod := func(i int, d byte) {
		c := append(net.IP(nil), ip.To16()...)
		c[i] += d
		out = append(out, c)
	}
	mod(15, 1)
	mod(15, 255)
	mod(12, 1)
	mod(0, 1)
	out = append(out, net.IPv4(192, 0, 2, 1), net.ParseIP("2001:db8:ffff::1"))
	return out
}

// qBlocklistOf: "" -> nil (no list), "empty" -> a list without ranges, "other" -> single-address ranges around ip and a
// wide range below it, none of them covering ip.
func qBlocklistOf(kind string, ip net.IP) *blocklist {
	switch kind {
	case "empty":
		return blockOf()
	case "other":
		b := blockOf(qOtherIPs(ip)...)
		if v := ip16int(ip); v != nil && v.Sign() > 0 {
			hi := new(big.Int).Sub(v, big.NewInt(3))
			if hi.Sign() > 0 {
				b.rs = append(b.rs, brange{big.NewInt(1), hi}) // everything well below the destination
			}
		}
		return b
	}
	return nil
}

// ---------------------------------------------------------------- overlapping queries on one server (C07 / C14)

// Case family "overlap" (special "overlap"): K = 2..6 queries to K different destinations are outstanding on ONE server at
// the same time, each with its own method, arguments (a target / info-hash naming the query), NumTries and script (never
// answered, answered or cancelled inside its i-th send or after it).  The sends are interleaved by construction: the
// resend-delay function is a barrier per round, so send i+1 of any query follows send i of every query that is still
// under way ("barrier"); in "held" the first query is besides held inside its first socket write until the others have
// done theirs; in "limiter" the queries start back to back behind a slow SendLimiter (every send waits there, policy
// WaitOnRetries), so a query is encoded while others wait for their first send.  The caller of the resend-delay function
// is recognised by its goroutine (the one that called WriteTo for that query); an unknown caller gets 1 ms and no barrier.
//
// Oracles, on every datagram the socket was handed (what was actually written, after a hold):
//   C07 overlap:datagram-carries-transaction-id-of-another-outstanding-query   every datagram to the destination of query j
//       carries the id of j's first datagram, and no other query's
//       overlap:outstanding-queries-share-transaction-id                        ids of the K queries pairwise different
//       overlap:datagram-carries-content-of-another-query                       method / target of the datagram are those of j
//       query-completed-by-non-matching-datagram:overlap                        j returns only j's reply (sender id names j)
//   C14 too-many-sends, query-did-not-return, transaction-leak, goroutine-leak:query   as for single queries
// Model: one qcase line per query (sub-index .<j>): a query beside others behaves as the query alone.
type qOvQuery struct {
	tries  int
	method string
	point  string // "" never acted on; "w" / "g"
	i      int
	action string // reply cancel
}

func (q qOvQuery) script(nstrays int) string {
	if q.point == "" && nstrays == 0 {
		return "-"
	}
	var ds []string
	if q.point == "w" && q.i == 1 { // the script is in the order of the points
		ds = append(ds, fmt.Sprintf("%s%d:%s", q.point, q.i, q.action))
	}
	for k := 0; k < nstrays; k++ {
		ds = append(ds, "g1:stray")
	}
	if q.point != "" && len(ds) != nstrays+1 {
		ds = append(ds, fmt.Sprintf("%s%d:%s", q.point, q.i, q.action))
	}
	return strings.Join(ds, ",")
}

type qOverlap struct {
	mode   string // barrier held limiter
	cross  bool   // at the first barrier every query's id is echoed from every other query's destination, and vice versa
	sameIP bool   // the destinations differ in the port only
	qs     []qOvQuery
}

func (ov *qOverlap) String() string {
	var ss []string
	for _, q := range ov.qs {
		ss = append(ss, fmt.Sprintf("%s/%d/%s", q.method, q.tries, q.script(0)))
	}
	return fmt.Sprintf("mode=%s cross=%v sameip=%v queries=%s", ov.mode, ov.cross, ov.sameIP, strings.Join(ss, ";"))
}

func qGoid() int64 {
	var buf [64]byte
	n := runtime.Stack(buf[:], false)
	f := strings.Fields(string(buf[:n]))
	if len(f) < 2 {
		return -1
	}
	var id int64
	for _, c := range f[1] {
		if c < '0' || c > '9' {
			return -1
		}
		id = id*10 + int64(c-'0')
	}
	return id
}

func qOvTarget(j int) (id krpc.ID) {
	for i := range id {
		id[i] = byte(0xa0 + j)
	}
	id[19] = byte(j)
	return
}

func qOvSender(j int) (id krpc.ID) {
	id[0], id[1], id[19] = 0x78, byte(j), byte(j)
	return
}

func qOverlapCase(idx int, sc *qScn, base0 *int) {
	ov := sc.ov
	K := len(ov.qs)
	outs := make([]map[string]bool, K)
	for j := range outs {
		outs[j] = map[string]bool{}
	}
	maxPending, wedged := 0, false
	for rep := 0; rep < sc.reps && !wedged; rep++ {
		wedged = qOverlapRun(idx, sc, rep, outs, &maxPending)
	}
	leak := waitGoroutines(*base0, 3*time.Second)
	if leak > 0 {
		oracle("C14", "goroutine-leak:query", "+%d goroutines after %d repetitions of overlap case %d (%s)", leak, sc.reps, idx, ov)
		*base0 = runtime.NumGoroutine()
	}
	emit("# qoverlap %d: %s", idx, ov)
	nstrays := 0
	if ov.cross {
		nstrays = 2 * (K - 1)
	}
	for j, q := range ov.qs {
		var l []string
		for o := range outs[j] {
			l = append(l, o)
		}
		sort.Strings(l)
		rl := "z"
		if ov.mode == "limiter" {
			rl = "wr"
		}
		emit("qcase %d.%d %d %s - 0 0 0 %s => %d %s %d %d", idx, j, q.tries, rl, q.script(nstrays), len(l), strings.Join(l, " "), maxPending, leak)
		maxPending, leak = 0, 0 // reported once
	}
}

// qOverlapRun: one repetition; returns whether the server was left wedged.
func qOverlapRun(idx int, sc *qScn, rep int, outs []map[string]bool, maxPending *int) bool {
	ov := sc.ov
	K := len(ov.qs)
	detail := fmt.Sprintf("overlap case %d rep=%d tag=%s %s replay: h query -only %d", idx, rep, sc.tag, ov, idx)
	conn := &holdConn{fakeConn: newFakeConn()}
	dests := make([]*net.UDPAddr, K)
	for j := range dests {
		if ov.sameIP {
			dests[j] = &net.UDPAddr{IP: net.IPv4(10, 2, 0, 9), Port: 7300 + 16*rep + j}
		} else if j%2 == 1 {
			dests[j] = &net.UDPAddr{IP: net.IPv4(10, 2, byte(j+1), byte(rep+1)).To4(), Port: 7300 + 16*rep + j}
		} else {
			dests[j] = &net.UDPAddr{IP: net.IPv4(10, 2, byte(j+1), byte(rep+1)), Port: 7300 + 16*rep + j}
		}
	}
	destOf := func(a *net.UDPAddr) int {
		for j, d := range dests {
			if a != nil && a.Port == d.Port && a.IP.Equal(d.IP) {
				return j
			}
		}
		return -1
	}
	var mu sync.Mutex
	cond := sync.NewCond(&mu)
	goOf := map[int64]int{}      // sender goroutine -> query
	tids := make([]string, K)    // id of the first datagram handed to WriteTo for the query's destination
	sends := make([]int, K)      // WriteTo calls seen per query
	gates := make([]int, K)      // resend-delay calls per query
	term := make([]bool, K)      // the script has ended the query
	arrived := map[int]int{}     // round -> queries whose send of that round has returned (or that will never do it)
	cancels := make([]context.CancelFunc, K)
	barrierTimeouts, unknownGates := 0, 0
	// queries expected to perform send i: tries >= i and not ended by the script in an earlier round
	expected := func(i int) int {
		n := 0
		for _, q := range ov.qs {
			if q.tries >= i && (q.point == "" || q.i >= i) {
				n++
			}
		}
		return n
	}
	waitFor := func(f func() bool, d time.Duration) bool { // mu held
		deadline := time.Now().Add(d)
		for !f() {
			if time.Now().After(deadline) {
				return false
			}
			mu.Unlock()
			time.Sleep(50 * time.Microsecond)
			mu.Lock()
		}
		return true
	}
	act := func(j int) {
		q := ov.qs[j]
		mu.Lock()
		term[j] = true
		t := tids[j]
		mu.Unlock()
		switch q.action {
		case "reply":
			b, err := bencode.Marshal(krpc.Msg{T: t, Y: "r", R: &krpc.Return{ID: qOvSender(j)}})
			if err != nil {
				panic(err)
			}
			conn.inject(b, dests[j], 5*time.Second)
		case "cancel":
			cancels[j]()
		}
	}
	crossDone := false
	crossStrays := func() {
		for j := 0; j < K; j++ {
			for k := 0; k < K; k++ {
				if k == j {
					continue
				}
				mu.Lock()
				t := tids[k]
				mu.Unlock()
				if t == "" {
					continue
				}
				// the id of query k echoed from the destination of query j
				b, _ := bencode.Marshal(krpc.Msg{T: t, Y: "r", R: &krpc.Return{ID: qStrayID(16*j + k)}})
				conn.inject(b, dests[j], 5*time.Second)
			}
		}
	}
	conn.before = func(b []byte, addr *net.UDPAddr) {
		m, ok := decodeLikeServer(b)
		j := destOf(addr)
		if j < 0 {
			return
		}
		mu.Lock()
		goOf[qGoid()] = j
		sends[j]++
		n := sends[j]
		first := tids[j] == "" && ok
		if first {
			tids[j] = m.T
		}
		cond.Broadcast()
		if ov.mode == "held" && j == 0 && n == 1 {
			// held inside the first write until every other query has done its first send
			waitFor(func() bool { return arrived[1] >= expected(1)-1 }, 3*time.Second)
		}
		mu.Unlock()
		if first {
			qCheckTid(m.T, detail)
		}
		if q := ov.qs[j]; q.point == "w" && q.i == n {
			act(j)
		}
	}
	var lim *rate.Limiter
	if ov.mode == "limiter" {
		lim = rate.NewLimiter(rate.Every(4*time.Millisecond), 1)
	} else {
		lim = rate.NewLimiter(rate.Inf, 1)
	}
	cfg := &dht.ServerConfig{
		Conn:          conn,
		NoSecurity:    true,
		StartingNodes: func() ([]dht.Addr, error) { return nil, nil },
		QueryResendDelay: func() time.Duration {
			mu.Lock()
			j, ok := goOf[qGoid()]
			if !ok {
				unknownGates++
				mu.Unlock()
				return time.Millisecond
			}
			gates[j]++
			i := gates[j]
			q := ov.qs[j]
			if i <= q.tries { // call tries+1 is the time-out interval after the last send
				arrived[i]++
			}
			if term[j] {
				mu.Unlock()
				return time.Hour
			}
			if i <= q.tries {
				if !waitFor(func() bool { return arrived[i] >= expected(i) }, 3*time.Second) {
					barrierTimeouts++
				}
				if ov.cross && i == 1 && !crossDone {
					crossDone = true
					mu.Unlock()
					crossStrays()
					mu.Lock()
				}
			}
			mu.Unlock()
			if q.point == "g" && q.i == i {
				act(j)
				return time.Hour
			}
			return time.Millisecond
		},
		Logger:      log.NewLogger().FilterLevel(log.Critical),
		SendLimiter: lim,
	}
	cfg.NodeId[0] = 0x42
	s, err := dht.NewServer(cfg)
	if err != nil {
		panic(err)
	}
	r := &qRun{sc: sc, idx: idx, rep: rep, s: s, conn: conn, dest: dests[0]} // for the guards
	for atomic.LoadInt64(&conn.fakeConn.reads) == 0 {
		time.Sleep(20 * time.Microsecond)
	}
	type qres struct {
		j   int
		res dht.QueryResult
	}
	resCh := make(chan qres, K)
	for j := 0; j < K; j++ {
		q := ov.qs[j]
		ctx, cancel := context.WithCancel(context.Background())
		cancels[j] = cancel
		defer cancel()
		in := dht.QueryInput{NumTries: q.tries}
		switch q.method {
		case "get_peers":
			in.MsgArgs.InfoHash = qOvTarget(j)
		default:
			in.MsgArgs.Target = qOvTarget(j)
		}
		if ov.mode == "limiter" {
			in.RateLimiting = dht.QueryRateLimiting{WaitOnRetries: true}
		}
		j := j
		go func() { resCh <- qres{j, s.Query(ctx, dht.NewAddr(dests[j]), q.method, in)} }()
		if ov.mode == "limiter" {
			time.Sleep(100 * time.Microsecond)
			continue
		}
		// the next query starts once this one's first datagram has reached the socket (is held there, for the first of "held")
		mu.Lock()
		waitFor(func() bool { return sends[j] >= 1 }, 2*time.Second)
		mu.Unlock()
	}
	results := make([]*dht.QueryResult, K)
	timeout := time.After(15 * time.Second)
	wedged := false
collect:
	for n := 0; n < K; n++ {
		select {
		case x := <-resCh:
			res := x.res
			results[x.j] = &res
		case <-timeout:
			break collect
		}
	}
	for j := range results {
		if results[j] == nil {
			oracle("C14", "query-did-not-return", "query %d of %s", j, detail)
			wedged = true
		}
	}
	if wedged {
		for _, c := range cancels {
			c()
		}
	}
	// ---- every datagram the socket was handed
	conn.fakeConn.mu.Lock()
	writes := append([]fwrite(nil), conn.fakeConn.writes...)
	conn.fakeConn.mu.Unlock()
	mu.Lock()
	tid := append([]string(nil), tids...)
	bt, ug := barrierTimeouts, unknownGates
	mu.Unlock()
	perDest := make([]int, K)
	reported := map[string]bool{}
	once := func(prop, key, f string, a ...interface{}) {
		if !reported[key] {
			reported[key] = true
			oracle(prop, key, f, a...)
		}
	}
	// the id of a query: what its FIRST written datagram carried
	wtid := make([]string, K)
	for _, w := range writes {
		j := destOf(w.addr)
		if j < 0 {
			continue
		}
		m, ok := decodeLikeServer(w.data)
		if ok && wtid[j] == "" {
			wtid[j] = m.T
		}
	}
	for j := 0; j < K; j++ {
		for k := j + 1; k < K; k++ {
			if wtid[j] != "" && wtid[j] == wtid[k] {
				once("C07", "overlap:outstanding-queries-share-transaction-id", "first datagrams of query %d (to %v) and query %d (to %v) both carry t=%x: %s", j, dests[j], k, dests[k], wtid[j], detail)
			}
		}
	}
	for n, w := range writes {
		j := destOf(w.addr)
		if j < 0 {
			continue
		}
		perDest[j]++
		m, ok := decodeLikeServer(w.data)
		if !ok || m.Y != "q" || m.A == nil {
			once("C07", "overlap:datagram-not-a-query", "datagram %d to %v (query %d) is not a KRPC query: %x ; %s", n, w.addr, j, w.data, detail)
			continue
		}
		owner := -1
		for k := range tid {
			if k != j && (m.T == wtid[k] || m.T == tid[k]) && m.T != "" {
				owner = k
			}
		}
		if m.T != wtid[j] || m.T != tid[j] || owner >= 0 {
			once("C07", "overlap:datagram-carries-transaction-id-of-another-outstanding-query", "datagram %d, send %d to %v of query %d (%s, first sent with t=%x), carries t=%x (query %d's): %s",
				n, perDest[j], w.addr, j, ov.qs[j].method, tid[j], m.T, owner, detail)
		}
		want := qOvTarget(j)
		got := m.A.Target
		if ov.qs[j].method == "get_peers" {
			got = m.A.InfoHash
		}
		if m.Q != ov.qs[j].method || got != want {
			once("C07", "overlap:datagram-carries-content-of-another-query", "datagram %d, send %d to %v of query %d (%s %x), is %s %x%x t=%x: %s",
				n, perDest[j], w.addr, j, ov.qs[j].method, want[:2], m.Q, m.A.Target[:2], m.A.InfoHash[:2], m.T, detail)
		}
	}
	for j, q := range ov.qs {
		eff := q.tries
		if eff == 0 {
			eff = 1
		}
		if perDest[j] > eff {
			oracle("C14", "too-many-sends", "writes=%d tries=%d of query %d: %s", perDest[j], eff, j, detail)
		}
		if results[j] == nil {
			outs[j][fmt.Sprintf("%d/-/stuck", perDest[j])] = true
			continue
		}
		res := *results[j]
		if res.Err == nil {
			got := res.Reply.SenderID()
			if want := qOvSender(j); got == nil || *got != want || res.Reply.T != tid[j] {
				oracle("C07", "query-completed-by-non-matching-datagram:overlap", "query %d to %v (t=%x) returned t=%x from id %v: %s", j, dests[j], tid[j], res.Reply.T, got, detail)
			}
		}
		outs[j][fmt.Sprintf("%d/-/%s", perDest[j], classOf(res))] = true
	}
	if bt > 0 || ug > 0 {
		emit("# qoverlap %d rep %d: %d barrier time-outs, %d resend-delay calls from unknown goroutines", idx, rep, bt, ug)
	}
	if wedged {
		r.closeServer()
		return true
	}
	if p := r.outstanding(); p > 0 {
		oracle("C14", "transaction-leak", "outstanding=%d after all queries returned: %s", p, detail)
		if p > *maxPending {
			*maxPending = p
		}
	}
	r.closeServer()
	return r.wedged
}

var qSeed uint64

func queryOverlapScenarios(tier string, add func(qScn)) {
	q := func(tries int, method, point string, i int, action string) qOvQuery {
		return qOvQuery{tries: tries, method: method, point: point, i: i, action: action}
	}
	never := func(tries int, method string) qOvQuery { return qOvQuery{tries: tries, method: method} }
	ad := func(tag string, ov qOverlap) {
		o := ov
		add(qScn{tries: 1, reps: 3, tag: "overlap-" + tag, special: "overlap", ov: &o})
	}
	for _, mode := range []string{"barrier", "held", "limiter"} {
		// one query resends after another was started (and encoded)
		ad(mode+"-pair", qOverlap{mode: mode, qs: []qOvQuery{never(2, "ping"), never(1, "ping")}})
		ad(mode+"-pair-long-short", qOverlap{mode: mode, qs: []qOvQuery{never(3, "get_peers"), never(2, "ping")}})
		ad(mode+"-pair-short-long", qOverlap{mode: mode, qs: []qOvQuery{never(3, "ping"), never(3, "find_node")}})
		ad(mode+"-triple", qOverlap{mode: mode, qs: []qOvQuery{never(3, "ping"), never(2, "find_node"), never(4, "get_peers")}})
		ad(mode+"-triple-answered", qOverlap{mode: mode, qs: []qOvQuery{q(3, "find_node", "g", 2, "reply"), q(2, "ping", "g", 1, "cancel"), never(3, "get_peers")}})
		ad(mode+"-triple-answered-in-send", qOverlap{mode: mode, qs: []qOvQuery{q(3, "get_peers", "w", 2, "reply"), never(2, "find_node"), q(2, "ping", "g", 2, "reply")}})
		ad(mode+"-triple-same-ip", qOverlap{mode: mode, sameIP: true, qs: []qOvQuery{never(2, "ping"), q(3, "find_node", "g", 3, "reply"), never(3, "ping")}})
	}
	ad("barrier-cross-echo", qOverlap{mode: "barrier", cross: true, qs: []qOvQuery{never(2, "ping"), q(3, "find_node", "g", 2, "reply"), q(2, "get_peers", "g", 2, "reply")}})
	ad("held-cross-echo-same-ip", qOverlap{mode: "held", cross: true, sameIP: true, qs: []qOvQuery{q(2, "ping", "g", 1, "reply"), never(2, "ping")}})
	// seeded: K queries, each with its own tries / method / script
	n, maxK := 8, 4
	if tier == "thorough" {
		n, maxK = 120, 6
	}
	rg := (&rng{s: qSeed}).sub(0x0717)
	methods := []string{"ping", "find_node", "get_peers"}
	for c := 0; c < n; c++ {
		ov := qOverlap{mode: []string{"barrier", "held", "limiter", "barrier"}[rg.intn(4)], sameIP: rg.intn(4) == 0}
		K := 2 + rg.intn(maxK-1)
		resend := false
		for j := 0; j < K; j++ {
			x := qOvQuery{tries: 1 + rg.intn(4), method: methods[rg.intn(3)]}
			switch rg.intn(5) {
			case 0:
				x.point, x.i, x.action = "g", 1+rg.intn(x.tries), "reply"
			case 1:
				x.point, x.i, x.action = "w", 1+rg.intn(x.tries), "reply"
			case 2:
				x.point, x.i, x.action = "g", 1+rg.intn(x.tries), "cancel"
			}
			if x.tries >= 2 && (x.point == "" || x.i >= 2) {
				resend = true
			}
			ov.qs = append(ov.qs, x)
		}
		if !resend {
			ov.qs[0] = qOvQuery{tries: 3, method: "ping"}
		}
		ov.cross = ov.mode != "limiter" && rg.intn(3) == 0
		ad(fmt.Sprintf("seeded-%d", c), ov)
	}
}
