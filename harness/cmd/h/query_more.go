package main

// Engine "query", further case families (C07 / C14):
//
//   dup-replies*      3..6 copies of the genuine reply inside the window between the first delivery and the query's own
//                     clean-up.  The window is held open by construction: the copies are delivered while the sender
//                     goroutine is held inside socket.WriteTo (w<i>) or inside QueryResendDelay (g<i>), so Server.Query
//                     has taken the reply, cancelled the sender and is joining it, the transaction still being its own
//                     to remove.  Also with a pause between the copies and in the abandonment window (context cancelled
//                     first).  Duplicates must not affect the query (C07), nothing may be left behind (C14).
//   addr-*            destination address forms (4-byte / 16-byte IPv4, IPv6, link-local IPv6 with and without a zone)
//                     and datagrams echoing the transaction id from NEAR-MISS addresses (other port, other IP, other
//                     zone, no zone, IPv6 addresses embedding the IPv4 one, ...) or from the right address with a
//                     near-miss id: none of them may complete the query (script action `stray`, no event in the
//                     model); the genuine reply that follows must.  Every stray carries its own sender id, so the
//                     datagram a query was completed with is known.
//   id-wraparound     (special "wrap") one query left pending to X, then >= 65536+64 short-lived queries to X on the
//                     same server (pre-cancelled, some answered at once): all must return, nothing may be left.
//
// Every query datagram the engine sees is also checked for its transaction id: the canonical uvarint of a counter value
// no earlier query of the process carried (what the server model demands of EQueryStart, C07), one id per query.

import (
	"context"
	"encoding/binary"
	"fmt"
	"net"
	"runtime"
	"sort"
	"strings"
	"sync"
	"sync/atomic"
	"time"

	"github.com/anacrolix/log"
	"github.com/anacrolix/torrent/bencode"
	"golang.org/x/time/rate"

	dht "github.com/anacrolix/dht/v2"
	"github.com/anacrolix/dht/v2/krpc"
)

// ---------------------------------------------------------------- addresses

func qDest(form string, rep int) *net.UDPAddr {
	port := 7000 + rep
	switch form {
	case "v4": // 4-byte
		return &net.UDPAddr{IP: net.IPv4(10, 1, 2, 3).To4(), Port: port}
	case "v6":
		return &net.UDPAddr{IP: net.ParseIP("2001:db8::1:2"), Port: port}
	case "llz": // link-local with a zone: the same IP exists on every link
		return &net.UDPAddr{IP: net.ParseIP("fe80::1"), Port: port, Zone: "eth0"}
	case "llzn": // numeric zone
		return &net.UDPAddr{IP: net.ParseIP("fe80::1"), Port: port, Zone: "2"}
	case "ll":
		return &net.UDPAddr{IP: net.ParseIP("fe80::1"), Port: port}
	}
	return &net.UDPAddr{IP: net.IPv4(10, 1, 2, 3), Port: port} // 16-byte (v4-mapped), the grid's destination
}

// qAltForm: the other spelling of the same IPv4 address (same IP, same port: the same node).
func qAltForm(a *net.UDPAddr) *net.UDPAddr {
	ip4 := a.IP.To4()
	if ip4 == nil {
		return a
	}
	if len(a.IP) == 4 {
		return &net.UDPAddr{IP: ip4.To16(), Port: a.Port, Zone: a.Zone}
	}
	return &net.UDPAddr{IP: append(net.IP(nil), ip4...), Port: a.Port, Zone: a.Zone}
}

func qGenuineID(dest *net.UDPAddr) (id krpc.ID) {
	id[0], id[19] = 0x77, byte(dest.Port)
	return
}

type qStray struct {
	name string
	addr *net.UDPAddr
	t    func(string) string // nil: the query's own transaction id
}

// qStrays: sources that are NOT the destination (another port, IP or zone), and the destination itself with an id that
// is not the query's.  Nothing here is the same (IP, port, zone) under another spelling.
func qStrays(d *net.UDPAddr) []qStray {
	var out []qStray
	cp := func() *net.UDPAddr {
		return &net.UDPAddr{IP: append(net.IP(nil), d.IP...), Port: d.Port, Zone: d.Zone}
	}
	add := func(name string, f func(a *net.UDPAddr)) {
		a := cp()
		f(a)
		out = append(out, qStray{name: name, addr: a})
	}
	add("other-port", func(a *net.UDPAddr) { a.Port++ })
	add("port-bytes-swapped", func(a *net.UDPAddr) { a.Port = (a.Port>>8 | a.Port<<8) & 0xffff })
	add("other-ip-last-byte", func(a *net.UDPAddr) { a.IP[len(a.IP)-1]++ })
	if ip4 := d.IP.To4(); ip4 != nil {
		add("other-ip-first-byte", func(a *net.UDPAddr) { a.IP[len(a.IP)-4]++ })
		add("ipv6-v4-compatible", func(a *net.UDPAddr) { // ::a.b.c.d is not ::ffff:a.b.c.d
			a.IP = append(make(net.IP, 12), ip4...)
		})
		add("ipv6-nat64", func(a *net.UDPAddr) { a.IP = append(net.ParseIP("64:ff9b::")[:12:12], ip4...) })
		add("ipv6-6to4", func(a *net.UDPAddr) {
			ip := make(net.IP, 16)
			ip[0], ip[1] = 0x20, 0x02
			copy(ip[2:], ip4)
			a.IP = ip
		})
	} else {
		add("other-ip-first-byte", func(a *net.UDPAddr) { a.IP[1] ^= 1 })
		add("other-prefix-same-interface-id", func(a *net.UDPAddr) { a.IP[7] ^= 0x40 })
		add("other-interface-id-same-prefix", func(a *net.UDPAddr) { a.IP[8] ^= 0x02 })
		add("ipv4-of-last-4-bytes", func(a *net.UDPAddr) { a.IP = append(net.IP(nil), d.IP[12:]...); a.Zone = "" })
		add("ipv4-mapped-of-last-4-bytes", func(a *net.UDPAddr) { a.IP = net.IP(append(net.IP(nil), d.IP[12:]...)).To16(); a.Zone = "" })
	}
	if d.Zone != "" {
		add("other-zone", func(a *net.UDPAddr) {
			if a.Zone == "eth1" {
				a.Zone = "eth0"
			} else {
				a.Zone = "eth1"
			}
		})
		add("no-zone", func(a *net.UDPAddr) { a.Zone = "" })
		add("zone-prefix", func(a *net.UDPAddr) { a.Zone = a.Zone + "0" })
		add("zone-other-case", func(a *net.UDPAddr) { a.Zone = strings.ToUpper(a.Zone) + "X" })
	} else if d.IP.IsLinkLocalUnicast() {
		add("added-zone", func(a *net.UDPAddr) { a.Zone = "eth0" })
	}
	tmod := func(name string, f func(string) string) {
		out = append(out, qStray{name: name, addr: cp(), t: f})
	}
	tmod("right-address-id-longer", func(t string) string { return t + "\x00" })
	tmod("right-address-id-prefix", func(t string) string { return t[:len(t)-1] })
	tmod("right-address-id-adjacent", func(t string) string { b := []byte(t); b[len(b)-1] ^= 1; return string(b) })
	return out
}

func qStrayID(k int) (id krpc.ID) {
	id[0], id[1] = 0x66, byte(k)
	return
}

// stray: one datagram that is not the reply of the query (it must change nothing)
func (r *qRun) stray(k int) {
	if r.tid == "" || r.wedged || k >= len(r.strays) {
		return
	}
	st := r.strays[k]
	t := r.tid
	if st.t != nil {
		t = st.t(t)
	}
	b, err := bencode.Marshal(krpc.Msg{T: t, Y: "r", R: &krpc.Return{ID: qStrayID(k)}})
	if err != nil {
		panic(err)
	}
	if !r.conn.inject(b, st.addr, 5*time.Second) && !r.closed {
		oracle("C01", "serve-loop-stuck", "stray datagram (%s from %v) not taken: %s", st.name, st.addr, r.detail())
		r.wedged = true
	}
}

// ---------------------------------------------------------------- guards around calls that take Server.mu

func (r *qRun) closeServer() {
	if r.wedged {
		return
	}
	done := make(chan struct{})
	go func() { r.s.Close(); close(done) }()
	select {
	case <-done:
	case <-time.After(5 * time.Second):
		r.wedged = true
		oracle("C01", "server-wedged:query", "Server.Close did not return within 5 s: %s", r.detail())
	}
}

func (r *qRun) outstanding() int {
	if r.wedged {
		return -1
	}
	ch := make(chan int, 1)
	go func() { ch <- r.s.Stats().OutstandingTransactions }()
	select {
	case n := <-ch:
		return n
	case <-time.After(5 * time.Second):
		r.wedged = true
		oracle("C01", "server-wedged:query", "Server.Stats did not return within 5 s: %s", r.detail())
		return -1
	}
}

func qFamily(tag string) string {
	switch {
	case strings.HasPrefix(tag, "dup-replies"):
		return "dup-replies"
	case strings.HasPrefix(tag, "addr-"):
		return "addr"
	}
	return ""
}

// ---------------------------------------------------------------- C07 oracles on one finished (or stuck) query

func (sc *qScn) onlyReplies() bool {
	n := 0
	for _, d := range sc.script {
		switch d.action {
		case "reply":
			if d.point == "pre" || d.point == "ret" {
				return false
			}
			n++
		case "nop", "probe", "stray":
		default:
			return false
		}
	}
	return n > 0 && sc.fail == 0 && !sc.blocked && !sc.closed0 && sc.budget < 0
}

func (r *qRun) c07Oracles(o *qOutcome) {
	sc := r.sc
	if r.tidChanged != "" {
		oracle("C07", "query-resend-carries-another-transaction-id", "first datagram t=%x, later t=%x: %s", r.tid, r.tidChanged, r.detail())
	}
	if o.res.Err == nil && !o.noReturn {
		// the harness hands the server ONE kind of datagram that matches the query: genuine id, from the destination
		got := o.res.Reply.SenderID()
		want := qGenuineID(r.dest)
		switch {
		case got != nil && got[0] == 0x66 && int(got[1]) < len(r.strays):
			st := r.strays[got[1]]
			oracle("C07", "query-completed-by-non-matching-datagram:"+st.name, "query to %v (t=%x) returned the datagram sent from %v with t=%x: %s",
				r.dest, r.tid, st.addr, o.res.Reply.T, r.detail())
		case got == nil || *got != want || o.res.Reply.T != r.tid:
			oracle("C07", "query-completed-by-non-matching-datagram:unknown", "query to %v (t=%x) returned t=%x from id %v: %s", r.dest, r.tid, o.res.Reply.T, got, r.detail())
		}
	}
	// duplicates of the reply (and datagrams that are not the reply) do not affect the query: it returns, with the reply
	if sc.onlyReplies() && o.class != "reply" {
		key := "duplicate-reply-affected-query:"
		if qFamily(sc.tag) == "addr" {
			key = "genuine-reply-after-strays-did-not-complete-query:"
		}
		oracle("C07", key+o.class, "replies and strays only, yet the query ended as %s: %s", o.class, r.detail())
	}
}

// ---------------------------------------------------------------- transaction id of every query datagram seen

var qTid struct {
	sync.Mutex
	seen map[uint64]bool
	bad  int
}

func qCheckTid(t string, detail string) {
	qTid.Lock()
	defer qTid.Unlock()
	if qTid.seen == nil {
		qTid.seen = map[uint64]bool{}
	}
	v, n := binary.Uvarint([]byte(t))
	var buf [binary.MaxVarintLen64]byte
	canon := n > 0 && n == len(t) && string(buf[:binary.PutUvarint(buf[:], v)]) == t
	switch {
	case !canon:
		if qTid.bad++; qTid.bad <= 3 {
			oracle("C07", "transaction-id-not-canonical-uvarint", "t=%x (%d bytes) is not binary.PutUvarint of any counter value: %s", t, len(t), detail)
		}
	case qTid.seen[v]:
		if qTid.bad++; qTid.bad <= 3 {
			oracle("C07", "transaction-id-issued-twice", "t=%x (counter %d) was carried by an earlier query of this process: %s", t, v, detail)
		}
	}
	if canon {
		qTid.seen[v] = true
	}
}

// ---------------------------------------------------------------- scenarios

func queryMoreScenarios(tier string, add func(qScn), d func(string, int, string) qDir) {
	rep := func(n int, x qDir) []qDir {
		var out []qDir
		for i := 0; i < n; i++ {
			out = append(out, x)
		}
		return out
	}
	cat := func(parts ...[]qDir) []qDir {
		var out []qDir
		for _, p := range parts {
			out = append(out, p...)
		}
		return out
	}
	one := func(x qDir) []qDir { return []qDir{x} }
	maxTries, copies := 3, []int{3, 4, 6}
	if tier == "thorough" {
		maxTries, copies = 4, []int{3, 4, 5, 6, 8, 16}
	}
	// ---- several copies of the reply inside the window
	for tries := 1; tries <= maxTries; tries++ {
		for i := 1; i <= tries; i++ {
			for _, pt := range []string{"w", "g"} {
				for _, n := range copies {
					add(qScn{tries: tries, reps: 3, tag: fmt.Sprintf("dup-replies-%d-%s", n, pt), script: rep(n, d(pt, i, "reply"))})
				}
				// the query has certainly taken the first copy before the others arrive
				add(qScn{tries: tries, reps: 2, tag: "dup-replies-paused-" + pt, followB: 1,
					script: cat(one(d(pt, i, "reply")), one(d(pt, i, "nop")), rep(3, d(pt, i, "reply")), one(d(pt, i, "probe")))})
			}
			// copies straddling the return of the write, and the end of the query
			add(qScn{tries: tries, reps: 3, tag: "dup-replies-w-g", script: cat(rep(2, d("w", i, "reply")), rep(2, d("g", i, "reply")))})
			add(qScn{tries: tries, reps: 3, tag: "dup-replies-w-ret", followB: 1, script: cat(rep(3, d("w", i, "reply")), rep(2, d("ret", 0, "reply")), one(d("ret", 0, "probe")))})
			// the abandonment window with copies: nobody will ever read the reply
			add(qScn{tries: tries, reps: 2, tag: "dup-replies-abandonment-window", followB: 1,
				script: cat(one(d("w", i, "cancel")), one(d("w", i, "nop")), rep(4, d("w", i, "reply")), one(d("w", i, "probe")))})
			add(qScn{tries: tries, reps: 3, tag: "dup-replies-after-reply-then-cancel",
				script: cat(one(d("g", i, "reply")), one(d("g", i, "cancel")), rep(3, d("g", i, "reply")))})
		}
	}
	// ---- destination address forms and near-miss sources
	for _, form := range []string{"v4", "", "v6", "llz", "llzn", "ll"} {
		fname := form
		if fname == "" {
			fname = "v4m"
		}
		ns := len(qStrays(qDest(form, 0)))
		strays := func(pt string, i int) []qDir {
			var out []qDir
			for k := 0; k < ns; k++ {
				x := d(pt, i, "stray")
				x.k = k
				out = append(out, x)
			}
			return out
		}
		add(qScn{dest: form, tries: 1, reps: 3, tag: "addr-" + fname + "-plain-reply", script: one(d("g", 1, "reply"))})
		for tries := 1; tries <= 2; tries++ {
			for _, pt := range []string{"w", "g"} {
				add(qScn{dest: form, tries: tries, reps: 2, tag: "addr-" + fname + "-strays-then-reply-" + pt,
					script: cat(strays(pt, tries), one(d(pt, tries, "reply")))})
			}
			add(qScn{dest: form, tries: tries, reps: 2, tag: "addr-" + fname + "-strays-only", script: strays("g", 1)})
		}
		add(qScn{dest: form, tries: 2, reps: 2, tag: "addr-" + fname + "-strays-each-send-then-reply",
			script: cat(strays("w", 1), strays("g", 1), strays("w", 2), one(d("g", 2, "reply")))})
		add(qScn{dest: form, tries: 1, reps: 2, tag: "addr-" + fname + "-reply-then-strays", followB: 1,
			script: cat(one(d("w", 1, "reply")), strays("w", 1), one(d("w", 1, "probe")))})
		add(qScn{dest: form, tries: 1, reps: 2, tag: "addr-" + fname + "-cancel-then-strays",
			script: cat(one(d("w", 1, "cancel")), one(d("w", 1, "nop")), strays("w", 1))})
		if form == "v4" || form == "" {
			// the reply comes from the same IPv4 address in the other spelling (a dual-stack socket reports 16 bytes)
			add(qScn{dest: form, replyForm: "alt", tries: 1, reps: 3, tag: "addr-" + fname + "-reply-in-other-spelling", script: one(d("g", 1, "reply"))})
			add(qScn{dest: form, replyForm: "alt", tries: 2, reps: 2, tag: "addr-" + fname + "-strays-then-reply-in-other-spelling",
				script: cat(strays("g", 2), one(d("g", 2, "reply")))})
		}
	}
	// ---- the id space: more queries than 2^16 while one stays pending
	n := 1<<16 + 64
	if tier == "thorough" {
		n = 2<<16 + 64
	}
	add(qScn{tries: 1, reps: 1, tag: "id-wraparound", special: "wrap", wrapN: n})
}

// ---------------------------------------------------------------- id wrap-around

// qWrapCase: a query to X stays pending (its sender is held inside QueryResendDelay after the first datagram) while
// wrapN short-lived queries to X run on the same server, one after the other: context cancelled beforehand (script
// pre:cancel), every 1024th answered inside its first write (script w1:reply).  Then the pending query is cancelled at
// its gate (script g1:cancel).  Every one of them must return, no transaction or goroutine may stay.
func qWrapCase(idx int, sc *qScn, tier string, base0 *int) {
	lhsOf := func(sub, script string) string {
		return fmt.Sprintf("qcase %d%s 1 z - 0 0 0 %s", idx, sub, script)
	}
	detail := fmt.Sprintf("%s tag=%s n=%d", lhsOf("", "pre:cancel"), sc.tag, sc.wrapN)
	conn := &holdConn{fakeConn: newFakeConn()}
	dest := &net.UDPAddr{IP: net.IPv4(10, 1, 2, 3), Port: 6881}
	var mu sync.Mutex
	pendingTid := "" // id of the pending query, "" before its datagram
	curWrites := 0   // its datagrams
	answer := false  // answer it inside its first write
	shared := 0      // short-lived queries that carried the pending query's id
	var id krpc.ID
	id[0], id[19] = 0x77, byte(dest.Port)
	conn.before = func(b []byte, addr *net.UDPAddr) {
		m, ok := decodeLikeServer(b)
		if !ok || m.Y != "q" {
			return
		}
		mu.Lock()
		if pendingTid == "" {
			pendingTid = m.T
			mu.Unlock()
			qCheckTid(m.T, detail)
			return
		}
		if curWrites == 0 && m.T == pendingTid {
			shared++
		}
		curWrites++
		first, ans := curWrites == 1, answer
		mu.Unlock()
		if first {
			qCheckTid(m.T, detail)
			if ans {
				rb, _ := bencode.Marshal(krpc.Msg{T: m.T, Y: "r", R: &krpc.Return{ID: id}})
				conn.inject(rb, dest, 5*time.Second)
			}
		}
	}
	var gates int64
	release := make(chan struct{})
	cfg := &dht.ServerConfig{
		Conn:          conn,
		NoSecurity:    true,
		StartingNodes: func() ([]dht.Addr, error) { return nil, nil },
		QueryResendDelay: func() time.Duration {
			if atomic.AddInt64(&gates, 1) == 1 {
				<-release // the pending query's sender, after its first (and only) send
			}
			return time.Hour
		},
		Logger:      log.NewLogger().FilterLevel(log.Critical),
		SendLimiter: rate.NewLimiter(rate.Inf, 1),
	}
	cfg.NodeId[0] = 0x42
	s, err := dht.NewServer(cfg)
	if err != nil {
		panic(err)
	}
	r := &qRun{sc: sc, idx: idx, s: s, conn: conn, dest: dest} // for the guards
	for atomic.LoadInt64(&conn.fakeConn.reads) == 0 {
		time.Sleep(20 * time.Microsecond)
	}
	// the pending query
	pctx, pcancel := context.WithCancel(context.Background())
	defer pcancel()
	pres := make(chan dht.QueryResult, 1)
	go func() { pres <- s.Query(pctx, dht.NewAddr(dest), "ping", dht.QueryInput{NumTries: 1}) }()
	deadline := time.Now().Add(5 * time.Second)
	for atomic.LoadInt64(&gates) == 0 && time.Now().Before(deadline) {
		time.Sleep(50 * time.Microsecond)
	}
	if atomic.LoadInt64(&gates) == 0 {
		oracle("C14", "query-did-not-send", "the pending query's sender never reached its resend delay: %s", detail)
	}
	// the short-lived ones, in one goroutine; the main goroutine watches the progress
	var done int64
	type wrapEnd struct {
		panicked interface{}
		at       int
	}
	endCh := make(chan wrapEnd, 1)
	outsPre, outsAns := map[string]bool{}, map[string]bool{}
	maxPending := 0
	cctx, ccancel := context.WithCancel(context.Background())
	ccancel()
	go func() {
		var e wrapEnd
		defer func() {
			if p := recover(); p != nil {
				e.panicked = p
			}
			endCh <- e
		}()
		for i := 0; i < sc.wrapN; i++ {
			e.at = i
			ans := i%1024 == 517
			mu.Lock()
			curWrites, answer = 0, ans
			mu.Unlock()
			var res dht.QueryResult
			if ans {
				actx, acancel := context.WithCancel(context.Background())
				res = s.Query(actx, dht.NewAddr(dest), "ping", dht.QueryInput{NumTries: 1})
				acancel()
			} else {
				res = s.Query(cctx, dht.NewAddr(dest), "ping", dht.QueryInput{NumTries: 1})
			}
			mu.Lock()
			w := curWrites
			mu.Unlock()
			o := fmt.Sprintf("%d/-/%s", w, classOf(res))
			if ans {
				outsAns[o] = true
				if res.Err == nil {
					if got := res.Reply.SenderID(); got == nil || *got != id {
						oracle("C07", "query-completed-by-non-matching-datagram:unknown", "short-lived query %d returned t=%x from id %v: %s", i, res.Reply.T, got, detail)
					}
				}
			} else {
				outsPre[o] = true
			}
			if i%8192 == 8191 {
				if p := r.outstanding() - 1; p > maxPending { // the pending query's own transaction is meant to be there
					maxPending = p
				}
			}
			atomic.StoreInt64(&done, int64(i+1))
		}
	}()
	var end wrapEnd
	stuck := false
	last, lastAt := int64(-1), time.Now()
wait:
	for {
		select {
		case end = <-endCh:
			break wait
		case <-time.After(200 * time.Millisecond):
			if n := atomic.LoadInt64(&done); n != last {
				last, lastAt = n, time.Now()
			} else if time.Since(lastAt) > 8*time.Second {
				stuck = true
				break wait
			}
		}
	}
	ndone := int(atomic.LoadInt64(&done))
	mu.Lock()
	nshared := shared
	ptid := pendingTid
	mu.Unlock()
	if nshared > 0 {
		oracle("C07", "transaction-id-shared-by-outstanding-queries", "%d short-lived queries to %v carried t=%x of the query still pending to it: %s", nshared, dest, ptid, detail)
	}
	switch {
	case end.panicked != nil:
		// a panic inside Server.Query: that query has not returned (and the server's lock may be held for good)
		oracle("C14", "query-panicked:id-wraparound", "short-lived query %d (of %d, one query to %v pending with t=%x) panicked instead of returning: %q ; %s",
			end.at, sc.wrapN, dest, ptid, fmt.Sprint(end.panicked), detail)
	case stuck:
		oracle("C14", "query-did-not-return:id-wraparound", "short-lived query %d of %d (one query to %v pending with t=%x) did not return within 8 s: %s", ndone, sc.wrapN, dest, ptid, detail)
	}
	failed := end.panicked != nil || stuck
	// the pending query ends by its context, at its gate
	pcancel()
	close(release)
	pclass := "stuck"
	pwrites := 0
	select {
	case res := <-pres:
		pclass = classOf(res)
		conn.fakeConn.mu.Lock()
		for _, w := range conn.fakeConn.writes {
			if m, ok := decodeLikeServer(w.data); ok && m.Y == "q" && m.T == ptid && ptid != "" {
				pwrites++
			}
		}
		conn.fakeConn.mu.Unlock()
		if !failed && nshared == 0 && pwrites != 1 {
			oracle("C14", "too-many-sends", "writes=%d tries=1 of the pending query: %s", pwrites, detail)
		}
	case <-time.After(5 * time.Second):
		oracle("C14", "query-did-not-return", "the pending query, cancelled after %d short-lived queries: %s", ndone, detail)
	}
	pend := r.outstanding()
	if pend > 0 {
		oracle("C14", "transaction-leak", "outstanding=%d after %d short-lived queries and the pending one: %s", pend, ndone, detail)
	}
	if pend > maxPending {
		maxPending = pend
	}
	r.closeServer()
	leak := waitGoroutines(*base0, 3*time.Second)
	if leak > 0 {
		oracle("C14", "goroutine-leak:query", "+%d goroutines after %d short-lived queries beside a pending one: %s", leak, ndone, detail)
		*base0 = runtime.NumGoroutine()
	}
	emit("# qwrap %d: %d short-lived queries to %v beside one pending (t=%x), answered at once: every 1024th", idx, ndone, dest, ptid)
	if stuck || end.panicked != nil {
		outsPre["0/-/stuck"] = true
	}
	show := func(m map[string]bool) string {
		var l []string
		for o := range m {
			l = append(l, o)
		}
		sort.Strings(l)
		return fmt.Sprintf("%d %s", len(l), strings.Join(l, " "))
	}
	emit("%s => %s %d %d", lhsOf("", "pre:cancel"), show(outsPre), maxPending, leak)
	if len(outsAns) > 0 {
		emit("%s => %s %d %d", lhsOf(".a", "w1:reply"), show(outsAns), 0, 0)
	}
	emit("%s => 1 %d/-/%s %d %d", lhsOf(".p", "g1:cancel"), pwrites, pclass, 0, 0)
}

// ---------------------------------------------------------------- a dead child

// qDeathOracles: the child process died inside query case `crashed`: whatever else it means (C01), the query under way
// has not returned (C14); in the families that feed a query datagrams which must not affect it, one of them did (C07).
func qDeathOracles(scs []qScn, crashed int, site, first string, seed uint64) {
	lhs, tag := "?", "?"
	if crashed >= 0 && crashed < len(scs) {
		lhs, tag = scs[crashed].lhs(crashed), scs[crashed].tag
	}
	emit("oracle C14 query-process-died:%s %q in %s tag=%s replay: h -seed %d query -only %d", site, first, lhs, tag, seed, crashed)
	if fam := qFamily(tag); fam != "" {
		emit("oracle C07 query-process-died:%s:%s %q in %s tag=%s replay: h -seed %d query -only %d", fam, site, first, lhs, tag, seed, crashed)
	}
}
