package main

// Engine "lookups", second case family (C14, also C16 / C01): a lookup that is STOPPED while replies are still
// being worked on.  The cases of lookups.go stop a lookup only at quiescent points (every reply that was served has
// had its whole effect).  Here the stop lands INSIDE the processing of a reply, or while responses wait for a
// consumer that has paused:
//
//   kind "hold"   The server is configured with an IP blocklist (ServerConfig.IPBlocklist, an iplist.Ranger that
//                 blocks nothing).  Server.TraversalNodeFilter consults it for every candidate a reply reveals and
//                 for the responder itself, and the traversal calls its NodeFilter under the operation's lock.  The
//                 ranger HOLDS the one call the case names (the k-th of n new candidates of the trigger reply, listed
//                 in nodes or in nodes6; or the responder's own check), i.e. the reply handler is parked in the middle
//                 of handing the new candidates to the traversal, owning the lock; candidates before the k-th have
//                 already woken the scheduling loop.  While it is parked the lookup is stopped
//                 (Announce.StopTraversing / Close, ctx of Bootstrap / getput.Get / getput.Put cancelled, getput.Get
//                 ending by itself because ANOTHER node's reply carried the immutable value), the harness waits for the
//                 stop to have returned, and only then lets the filter return.  For Bootstrap (whose queries ignore
//                 the ctx) the remaining starting nodes answer AFTER the stop and reveal still more candidates.
//                 Oracle (sound for every interleaving: the scheduling loop cannot have been inside its locked
//                 section at any time between "hold reached" and "filter released", so the next thing it does under
//                 the lock is to see the stop): the number of traversal queries begun (Announce.NumContacted /
//                 traversal.Stats.NumAddrsTried / ServerStats.OutboundQueriesAttempted) is the same at the end as it
//                 was at the hold, and no traversal datagram leaves after the stop returned.
//   kind "pause"  Announce / AnnounceTraversal on a larger network; the consumer of Peers reads the first j
//                 responses and then PAUSES; up to three more get_peers responses arrive and wait for it; the
//                 traversal is stopped (StopTraversing / Close); a moment later the consumer resumes, slowly.
//                 Oracles: the ones of lookups.go (every response served before a StopTraversing is delivered exactly
//                 once, Peers closed, Finished, announce_peer to the closest with their own tokens, no transaction,
//                 no goroutine left) and the containment: the child process must survive.
//
// All cases are ordinary lookups cases (lkbegin ... lkend) and are replayed by the model like the others; a query the
// code starts after a stop is reported to the model as what the driver calls a late issue, and to bin/check as
// `oracle C14 query-started-after-stop:*`.  A child that dies in any lookups case is now also a C14 line
// (`lookup-process-died:*`): a lookup that takes the process down has not "ended and cleaned up after itself".

import (
	"bytes"
	"context"
	"crypto/ed25519"
	"crypto/sha1"
	"fmt"
	"net"
	"runtime"
	"strings"
	"sync"
	"sync/atomic"
	"time"

	"github.com/anacrolix/log"
	"github.com/anacrolix/torrent/bencode"
	"github.com/anacrolix/torrent/iplist"
	"golang.org/x/time/rate"

	dht "github.com/anacrolix/dht/v2"
	"github.com/anacrolix/dht/v2/bep44"
	"github.com/anacrolix/dht/v2/exts/getput"
	"github.com/anacrolix/dht/v2/krpc"
	"github.com/anacrolix/dht/v2/traversal"
)

type lkRace struct {
	kind string // hold | pause
	act  string // stoptrav | close | ctx | value
	// hold
	site   string // cand: a new candidate's filter call is held; resp: the responder's own (addClosest)
	trig   int    // node whose reply is being processed when the stop comes
	batch  []int  // the new candidates that reply reveals, in wire order
	holdAt int    // position in batch of the held candidate
	pre    []int  // starting nodes answered (completely) before the trigger
	val    int    // act "value": the node whose reply carries the immutable value
	// pause
	readFirst int // the consumer reads this many responses, then pauses
	pendN     int // responses served while it is paused
}

func (rc *lkRace) String() string {
	if rc.kind == "pause" {
		return fmt.Sprintf("pause act=%s read-first=%d pending=%d", rc.act, rc.readFirst, rc.pendN)
	}
	return fmt.Sprintf("hold act=%s site=%s trigger=%d batch=%v hold-at=%d pre=%v", rc.act, rc.site, rc.trig, rc.batch, rc.holdAt, rc.pre)
}

// ---------------------------------------------------------------- the holding blocklist

// lkHoldRanger blocks no address.  Once armed it parks ONE Lookup: the first one for the armed IP that is made from
// inside the traversal package (the NodeFilter call; the serve loop and writeToNode consult the list too and must
// never be held).
type lkHoldRanger struct {
	mu      sync.Mutex
	ip      net.IP
	done    bool
	reached chan struct{}
	release chan struct{}
}

func newHoldRanger() *lkHoldRanger {
	return &lkHoldRanger{reached: make(chan struct{}), release: make(chan struct{})}
}

func (h *lkHoldRanger) arm(ip net.IP) {
	h.mu.Lock()
	h.ip = ip
	h.mu.Unlock()
}

func (h *lkHoldRanger) NumRanges() int { return 0 }

func calledFromTraversal() bool {
	var pcs [64]uintptr
	n := runtime.Callers(2, pcs[:])
	frames := runtime.CallersFrames(pcs[:n])
	for {
		f, more := frames.Next()
		if strings.Contains(f.Function, "/dht/v2/traversal.") {
			return true
		}
		if !more {
			return false
		}
	}
}

func (h *lkHoldRanger) Lookup(ip net.IP) (iplist.Range, bool) {
	h.mu.Lock()
	hit := !h.done && h.ip != nil && h.ip.Equal(ip)
	h.mu.Unlock()
	if hit && calledFromTraversal() {
		h.mu.Lock()
		first := !h.done
		h.done = true
		h.mu.Unlock()
		if first {
			close(h.reached)
			select {
			case <-h.release:
			case <-time.After(20 * time.Second): // never wedge the child for good
			}
		}
	}
	return iplist.Range{}, false
}

// ---------------------------------------------------------------- one run

type lkRaceRun struct {
	c       *lkCase
	st      *lkState
	report  bool
	pending []*lkQuery
	stopRet bool     // the stop action has returned
	late    []string // traversal datagrams that left after that
	nIssued int
}

func (x *lkRaceRun) say(format string, a ...interface{}) {
	if x.report {
		emit(format, a...)
		out.Flush()
	}
}

func (x *lkRaceRun) note(format string, a ...interface{}) {
	if x.report {
		emit("# lkstop case=%d %s: %s", x.c.idx, x.c.name(), fmt.Sprintf(format, a...))
	}
}

func (x *lkRaceRun) drain() {
	st, c := x.st, x.c
	for {
		select {
		case q := <-st.queue:
			switch q.q {
			case "announce_peer", "put":
				sd := lkSend{dest: addrTok(q.dest), token: hx([]byte(q.msg.A.Token)), destAddr: q.dest}
				if q.q == "announce_peer" {
					sd.ih = hx(q.msg.A.InfoHash[:])
					if q.msg.A.Port != nil {
						sd.port = *q.msg.A.Port
					}
					sd.implied = b2i(q.msg.A.ImpliedPort)
				} else {
					sd.ih = hx(c.target[:])
					if q.msg.A.Seq != nil {
						sd.seq = *q.msg.A.Seq
					}
				}
				st.sends = append(st.sends, sd)
				if q.node != nil && !q.node.annSilent {
					b, _ := bencode.Marshal(krpc.Msg{T: q.t, Y: "r", R: &krpc.Return{ID: q.node.id}})
					st.conn.inject(b, q.dest, 2*time.Second)
				}
			default:
				q.n = st.nq
				st.nq++
				x.nIssued++
				x.say("lkissue %d %s => ok", q.n, addrTok(q.dest))
				if x.stopRet {
					x.late = append(x.late, addrTok(q.dest))
				}
				if g := st.garbageFor(q); g != nil {
					st.conn.inject(g, q.dest, 2*time.Second)
				}
				if st.replyFor(q) != nil {
					x.pending = append(x.pending, q)
				}
			}
		default:
			return
		}
	}
}

func (x *lkRaceRun) waitIssues(n int, d time.Duration) bool {
	dl := time.Now().Add(d)
	for {
		x.drain()
		if x.nIssued >= n {
			return true
		}
		if time.Now().After(dl) {
			return false
		}
		time.Sleep(50 * time.Microsecond)
	}
}

func (x *lkRaceRun) takePending(node *lkNode) *lkQuery {
	for i, q := range x.pending {
		if q.node == node {
			x.pending = append(x.pending[:i], x.pending[i+1:]...)
			return q
		}
	}
	return nil
}

// reply prints the lkreply line of q and hands the datagram to the server; it returns whether it carries an r dict.
func (x *lkRaceRun) reply(q *lkQuery) bool {
	st := x.st
	b := st.replyFor(q)
	m, _ := decodeLikeServer(b)
	hasR := m.R != nil
	id, tok, payload, v, k, sig, seq := "-", "none", "-", "-", "-", "-", "-"
	if hasR {
		id = hx(m.R.ID[:])
		if m.R.Token != nil {
			tok = hx([]byte(*m.R.Token))
		}
		payload = dumpReturn(m.R)
		if len(m.R.V) > 0 {
			v = hx(m.R.V)
		}
		if !isZero(m.R.K[:]) {
			k = hx(m.R.K[:])
		}
		if !isZero(m.R.Sig[:]) {
			sig = hx(m.R.Sig[:])
		}
		if m.R.Seq != nil {
			seq = fmt.Sprint(*m.R.Seq)
		}
	}
	x.say("lkreply %d %d %s %s %s %s %s %s %s => ok", q.n, b2i(hasR), id, tok, payload, v, k, sig, seq)
	if !st.conn.inject(b, q.dest, 3*time.Second) {
		oracle("C01", "serve-loop-stuck", "reply not taken case=%d %s", x.c.idx, x.c.name())
	}
	if hasR {
		st.served[q.dest.String()]++
	}
	return hasR
}

// waitTx waits until the number of pending transactions is at most n.
func (x *lkRaceRun) waitTx(n int, d time.Duration) bool {
	dl := time.Now().Add(d)
	for x.st.s.Stats().OutstandingTransactions > n {
		if time.Now().After(dl) {
			return false
		}
		time.Sleep(50 * time.Microsecond)
	}
	return true
}

func runLookupRaceOnce(c *lkCase, rep int, report bool) (*lkState, lkResult) {
	rc := c.race
	r := (&rng{s: c.sub}).sub(0)
	st := &lkState{c: c, rep: rep, conn: newFakeConn(), queue: make(chan *lkQuery, 8192), gateMu: make(chan struct{}, 1),
		byAddr: map[string]*lkNode{}, served: map[string]int{}, consDone: make(chan struct{})}
	for _, n := range c.nodes {
		st.byAddr[n.addr.String()] = n
	}
	st.conn.onWrite = st.onWrite
	x := &lkRaceRun{c: c, st: st, report: report}
	hold := newHoldRanger()
	released := false
	releaseHold := func() {
		if !released {
			released = true
			close(hold.release)
		}
	}
	defer releaseHold()
	cfg := &dht.ServerConfig{
		Conn:             st.conn,
		NoSecurity:       true,
		QueryResendDelay: st.resendDelay,
		Logger:           log.NewLogger().FilterLevel(log.Critical),
		SendLimiter:      rate.NewLimiter(rate.Inf, 1),
		Store:            bep44.NewMemory(),
		Exp:              2 * time.Hour,
		StartingNodes: func() ([]dht.Addr, error) {
			var as []dht.Addr
			for _, i := range c.start {
				as = append(as, dht.NewAddr(c.nodes[i].addr))
			}
			return as, nil
		},
	}
	if rc.kind == "hold" {
		cfg.IPBlocklist = hold
	}
	cfg.NodeId[0], cfg.NodeId[19] = 0x42, 0x24
	s, err := dht.NewServer(cfg)
	if err != nil {
		panic(err)
	}
	st.s = s
	for atomic.LoadInt64(&st.conn.reads) == 0 {
		time.Sleep(20 * time.Microsecond)
	}

	ctx, cancel := context.WithCancel(context.Background())
	defer cancel()
	var res lkResult
	apiDone := make(chan struct{})
	var a *dht.Announce
	var gpStats *traversal.Stats
	annReady := make(chan struct{})
	resume := make(chan struct{})
	var resumeOnce sync.Once
	doResume := func() { resumeOnce.Do(func() { close(resume) }) }
	defer doResume()
	var resumed int32
	switch c.api {
	case "bootstrap":
		go func() {
			_, err := s.BootstrapContext(ctx)
			res.err = err
			close(apiDone)
		}()
	case "announce":
		go func() {
			var opts []dht.AnnounceOpt
			if c.scrape {
				opts = append(opts, dht.Scrape())
			}
			var err error
			if c.viaTrav {
				if c.annOpts {
					opts = append(opts, dht.AnnouncePeer(dht.AnnouncePeerOpts{Port: c.annPort, ImpliedPort: c.annImp}))
				}
				a, err = s.AnnounceTraversal(c.target, opts...)
			} else {
				port, imp := 0, false
				if c.annOpts {
					port, imp = c.annPort, c.annImp
				}
				a, err = s.Announce(c.target, port, imp, opts...)
			}
			res.err = err
			close(annReady)
			if err != nil {
				close(apiDone)
				close(st.consDone)
				return
			}
			go func() { // the consumer
				defer close(st.consDone)
				n := 0
				if rc.kind == "pause" && rc.readFirst == 0 {
					<-resume
				}
				for pv := range a.Peers {
					st.mu.Lock()
					st.peers = append(st.peers, fmt.Sprintf("%s:%d|%s|%s", ipHex(pv.NodeInfo.Addr.IP), pv.NodeInfo.Addr.Port, hx(pv.NodeInfo.ID[:]), dumpReturn(&pv.Return)))
					st.mu.Unlock()
					atomic.AddInt64(&st.nDeliv, 1)
					n++
					if rc.kind == "pause" && n == rc.readFirst {
						<-resume
					}
					if atomic.LoadInt32(&resumed) == 1 {
						time.Sleep(2 * time.Millisecond)
					}
				}
			}()
			<-a.Finished()
			close(apiDone)
		}()
	case "get":
		go func() {
			var saltArg []byte
			if c.mutable {
				saltArg = c.salt
			}
			ret, stats, err := getput.Get(ctx, c.target, s, c.seqArg, saltArg)
			res.getRet, res.err = ret, err
			gpStats = stats
			close(apiDone)
		}()
	case "put":
		go func() {
			stats, err := getput.Put(ctx, c.target, s, c.salt, func(seq int64) bep44.Put {
				atomic.StoreInt64(&res.autoSeq, seq)
				p := bep44.Put{V: c.putValue, Salt: c.salt, Seq: seq}
				if c.mutable {
					var k [32]byte
					copy(k[:], c.pub)
					p.K = &k
					p.Sign(c.priv)
				}
				return p
			})
			res.err = err
			gpStats = stats
			close(apiDone)
		}()
	}
	isDone := func() bool {
		select {
		case <-apiDone:
			return true
		default:
			return false
		}
	}
	waitDone := func(d time.Duration) bool {
		select {
		case <-apiDone:
			return true
		case <-time.After(d):
			return false
		}
	}
	if c.api == "announce" {
		<-annReady
	}
	// effect of a reply that was answered completely: its response on Peers (announce, reading consumer), its
	// transaction gone
	replyAndWait := func(q *lkQuery) {
		before := atomic.LoadInt64(&st.nDeliv)
		tx := s.Stats().OutstandingTransactions
		hasR := x.reply(q)
		if c.api == "announce" && hasR {
			dl := time.Now().Add(2 * time.Second)
			for atomic.LoadInt64(&st.nDeliv) == before && time.Now().Before(dl) {
				time.Sleep(20 * time.Microsecond)
			}
			if atomic.LoadInt64(&st.nDeliv) == before {
				oracle("C16", "response-not-delivered", "get_peers response of %v not on Peers within 2s case=%d %s sub=%d", q.dest, c.idx, c.name(), c.sub)
			}
		}
		// its transaction gone (while other queries start at the same time the count says nothing: a short wait then)
		if rc.kind == "hold" {
			x.waitTx(tx-1, 2*time.Second)
		} else {
			x.waitTx(tx-1, 2*time.Millisecond)
		}
		for i := 0; i < 20; i++ {
			runtime.Gosched()
		}
		time.Sleep(150 * time.Microsecond)
	}
	// traversal queries begun so far, by the most direct counter the API offers while the lookup runs
	begun := func() int64 {
		if a != nil {
			return int64(a.NumContacted())
		}
		return s.Stats().OutboundQueriesAttempted // no announce_peer / put query exists before the lookup's wait has ended
	}

	strict := false
	var tHold int64
	stopped := false
	sayStop := func() {
		switch rc.act {
		case "stoptrav":
			x.say("lkstoptrav => ok")
		case "close":
			x.say("lkclose => ok")
		case "ctx":
			x.say("lkctx => ok")
		}
	}
	doStop := func() {
		switch rc.act {
		case "stoptrav":
			a.StopTraversing()
		case "close":
			a.Close()
		case "ctx":
			cancel()
		}
	}

	if !x.waitIssues(len(c.start), 3*time.Second) {
		x.note("only %d of %d starting queries left within 3s", x.nIssued, len(c.start))
	}
	switch rc.kind {
	case "hold":
		ok := x.nIssued == len(c.start)
		for _, i := range rc.pre {
			if q := x.takePending(c.nodes[i]); q != nil {
				replyAndWait(q)
				x.drain()
			} else {
				ok = false
			}
		}
		tq := x.takePending(c.nodes[rc.trig])
		if tq == nil {
			x.note("the trigger node was not queried")
			break
		}
		if rc.site == "resp" {
			hold.arm(c.nodes[rc.trig].addr.IP)
		} else {
			hold.arm(c.nodes[rc.batch[rc.holdAt]].addr.IP)
		}
		x.reply(tq)
		select {
		case <-hold.reached:
		case <-time.After(3 * time.Second):
			ok = false
			x.note("the hold point was not reached")
		}
		x.drain()
		tHold = begun()
		if tHold != int64(x.nIssued) || s.Stats().OutboundQueriesAttempted != int64(x.nIssued) {
			x.note("counters at the hold: begun=%d attempted=%d datagrams=%d", tHold, s.Stats().OutboundQueriesAttempted, x.nIssued)
			ok = false
		}
		time.Sleep(time.Duration(200+r.intn(800)) * time.Microsecond)
		// ---- the stop, while the reply handler is parked under the operation's lock ----
		if rc.act == "value" {
			if vq := x.takePending(c.nodes[rc.val]); vq != nil {
				x.reply(vq)
			} else {
				ok = false
				x.note("the node holding the value was not queried")
			}
		} else {
			doStop()
		}
		if c.api != "announce" {
			// the owner has called Stop() once the API call has returned
			if !waitDone(3 * time.Second) {
				ok = false
				x.note("the call did not return while the reply handler was held")
			}
		}
		stopped = true
		x.drain()
		sayStop()
		x.stopRet = true
		strict = ok
		releaseHold()
	case "pause":
		// phase 1: the traversal proceeds normally until the consumer has taken readFirst responses
		idle := 0
		for int(atomic.LoadInt64(&st.nDeliv)) < rc.readFirst && !isDone() && idle < 200 {
			x.drain()
			if len(x.pending) == 0 {
				idle++
				time.Sleep(200 * time.Microsecond)
				continue
			}
			idle = 0
			i := r.intn(len(x.pending))
			q := x.pending[i]
			x.pending = append(x.pending[:i], x.pending[i+1:]...)
			replyAndWait(q)
		}
		// phase 2: the consumer is paused; responses arrive and wait for it
		served := 0
		if int(atomic.LoadInt64(&st.nDeliv)) == rc.readFirst && !isDone() {
			x.waitIssues(x.nIssued+1, 2*time.Millisecond)
			for served < rc.pendN {
				x.drain()
				var q *lkQuery
				for i, p := range x.pending {
					if m, ok := decodeLikeServer(st.replyFor(p)); ok && m.R != nil {
						q = p
						x.pending = append(x.pending[:i], x.pending[i+1:]...)
						break
					}
				}
				if q == nil {
					break
				}
				tx := s.Stats().OutstandingTransactions
				x.reply(q)
				x.waitTx(tx-1, 3*time.Millisecond) // Server.Query has returned: the handler is about to offer the response
				for i := 0; i < 20; i++ {
					runtime.Gosched()
				}
				time.Sleep(200 * time.Microsecond)
				served++
			}
		}
		if served == 0 {
			x.note("no response pending at the pause (delivered=%d)", atomic.LoadInt64(&st.nDeliv))
		}
		// as in lookups.go the stop comes only while something is still unanswered or undelivered: it is not a race
		// with the natural end then
		if !isDone() && (served > 0 || len(x.pending) > 0) {
			doStop()
			stopped = true
			// let everything get as far as it can while nobody reads; queries the run loop was in the middle of
			// starting when the stop came still leave (the model takes them as such)
			time.Sleep(3 * time.Millisecond)
			lkStableGoroutines()
			x.drain()
			sayStop()
			x.stopRet = true
		}
		atomic.StoreInt32(&resumed, 1)
		doResume()
	}
	releaseHold()

	// ---------------- the end ----------------
	deadline := time.Now().Add(8 * time.Second)
	for {
		x.drain()
		if c.api == "bootstrap" && len(x.pending) > 0 {
			// Bootstrap's queries do not follow the ctx: the nodes still asked answer now, revealing more candidates
			i := r.intn(len(x.pending))
			q := x.pending[i]
			x.pending = append(x.pending[:i], x.pending[i+1:]...)
			replyAndWait(q)
			continue
		}
		if stopped && c.api != "bootstrap" {
			x.pending = nil // cancelled with the traversal
		}
		if !stopped && len(x.pending) > 0 {
			// (a precondition failed and nothing was stopped: answer so that the lookup can end)
			q := x.pending[0]
			x.pending = x.pending[1:]
			replyAndWait(q)
			continue
		}
		if isDone() && len(st.queue) == 0 {
			break
		}
		if time.Now().After(deadline) {
			res.stuck = true
			prop, key := "C14", "lookup-did-not-return:"+c.api
			if c.api == "announce" {
				prop, key = "C16", "peers-not-closed"
			}
			oracle(prop, key, "no end within 8s case=%d %s (%v) sub=%d", c.idx, c.name(), rc, c.sub)
			if c.api == "announce" {
				oracle("C14", "lookup-did-not-return:announce", "no Finished() within 8s case=%d %s (%v) sub=%d", c.idx, c.name(), rc, c.sub)
			}
			break
		}
		select {
		case q := <-st.queue:
			st.queue <- q
		case <-apiDone:
		case <-time.After(200 * time.Microsecond):
		}
	}
	x.drain()

	// ---------------- results (as in runLookupOnce) ----------------
	switch c.api {
	case "bootstrap":
		res.res = lkErrClass(res.err, "ok")
	case "announce":
		if res.err != nil {
			res.res = "start"
		} else {
			res.res = "ok"
			if res.stuck {
				go func() {
					for range a.Peers {
					}
				}()
				select {
				case <-a.Finished():
				case <-time.After(2 * time.Second):
				}
			}
			select {
			case <-st.consDone:
				res.closed = true
			case <-time.After(2 * time.Second):
			}
			if res.stuck {
				res.closed = false
			}
			if !res.closed && !res.stuck {
				oracle("C16", "peers-not-closed", "Finished() but Peers still open case=%d %s sub=%d", c.idx, c.name(), c.sub)
			}
		}
	case "get":
		if res.err != nil {
			res.res = lkErrClass(res.err, "")
		} else {
			sq := "-"
			if res.getRet.Mutable {
				sq = fmt.Sprint(res.getRet.Seq)
			}
			res.res = fmt.Sprintf("val:%s:%s:%d", sq, hx(res.getRet.V), b2i(res.getRet.Mutable))
		}
	case "put":
		as := atomic.LoadInt64(&res.autoSeq)
		if res.err != nil {
			cl := lkErrClass(res.err, "")
			if cl == "ctx" {
				res.res = fmt.Sprintf("ctx:%d", as)
			} else {
				res.res = cl
			}
		} else {
			res.res = fmt.Sprintf("ok:%d", as)
		}
	}
	if report {
		st.oracles(&res)
	}
	// ---------------- quiescence ----------------
	dl := time.Now().Add(2 * time.Second)
	for s.Stats().OutstandingTransactions != 0 && time.Now().Before(dl) {
		time.Sleep(100 * time.Microsecond)
	}
	if n := s.Stats().OutstandingTransactions; n != 0 {
		oracle("C14", "transaction-leak", "outstanding=%d after %s ended case=%d %s (%v) sub=%d", n, c.api, c.idx, c.name(), rc, c.sub)
	}
	if rc.kind == "hold" && isDone() {
		// whatever was wrongly scheduled shows itself at once: the scheduling loop runs as soon as the lock is free
		final := func() int64 {
			switch {
			case a != nil:
				return int64(a.NumContacted())
			case gpStats != nil:
				return int64(atomic.LoadUint32(&gpStats.NumAddrsTried))
			case c.api == "bootstrap":
				return s.Stats().OutboundQueriesAttempted // find_node only
			}
			return tHold
		}
		tFinal, same := final(), 0
		for i := 0; i < 400 && same < 20; i++ {
			time.Sleep(250 * time.Microsecond)
			if t := final(); t == tFinal {
				same++
			} else {
				tFinal, same = t, 0
			}
		}
		x.drain()
		if report && strict && (tFinal != tHold || len(x.late) > 0) {
			oracle("C14", fmt.Sprintf("query-started-after-stop:%s:%s", c.api, rc.act),
				"%d traversal queries had begun when the stop returned (reply of node %d still being processed: NodeFilter held under the operation lock), %d at the end; datagrams after the stop to [%s]; case=%d %s (%v) sub=%d replay: h -seed %d lookups -only %d",
				tHold, rc.trig, tFinal, strings.Join(x.late, " "), c.idx, c.name(), rc, c.sub, lkStopSeed, c.idx)
		}
		if report && strict {
			emit("lkbegun %d => %d", c.idx, tFinal) // model: the TIssue steps of the trace (none is enabled once stopping)
		}
		if report {
			emit("# lkstop case=%d hold strict=%d begun-at-hold=%d begun-at-end=%d late-datagrams=%d", c.idx, b2i(strict), tHold, tFinal, len(x.late))
		}
	}
	cancel()
	s.Close()
	return st, res
}

// ---------------------------------------------------------------- cases

func lkV6Addr(ni, i int) *net.UDPAddr {
	return &net.UDPAddr{IP: net.ParseIP(fmt.Sprintf("2001:db8:%x::%x", 0x50+ni, i+1)), Port: 2000 + i}
}

var lkStopSeed uint64

func lookupStopCases(seed uint64, tier string, base int) []lkCase {
	lkStopSeed = seed
	var cs []lkCase
	root := &rng{s: seed ^ 0x5709}
	add := func(c lkCase) {
		c.idx = base + len(cs)
		c.reps = 1
		c.sn = "ok"
		c.sub = root.sub(c.idx).next() | 1
		cs = append(cs, c)
	}
	mkTarget := func(r *rng) (t [20]byte) { copy(t[:], r.bytes(20)); return }
	mul := 1
	if tier == "thorough" {
		mul = 8
	}
	type annOpt struct {
		opts    bool
		port    int
		imp     bool
		scrape  bool
		viaTrav bool
		name    string
	}
	annOpts := []annOpt{
		{true, 6881, false, false, false, "port"},
		{false, 0, false, false, true, "traversal-api-announce-off"},
		{true, 0, true, false, true, "traversal-api-implied"},
		{false, 0, false, false, false, "announce-off"},
		{true, 6881, true, true, false, "port+implied+scrape"},
		{false, 0, false, true, true, "traversal-api-scrape-only"},
	}
	mkItem := func(pub ed25519.PublicKey, priv ed25519.PrivateKey, salt []byte, seq int64, val string) *lkItem {
		bv, _ := bencode.Marshal(val)
		var k [32]byte
		copy(k[:], pub)
		var sig [64]byte
		copy(sig[:], ed25519.Sign(priv, refBufferToSign(salt, bv, seq)))
		s := seq
		return &lkItem{v: bv, k: &k, sig: &sig, seq: &s}
	}

	// ---- kind hold ----
	type spec struct {
		api, act string
		n        int
	}
	specs := []spec{{"announce", "stoptrav", 6}, {"announce", "close", 4}, {"bootstrap", "ctx", 3}, {"get", "ctx", 3}, {"get", "value", 3}, {"put", "ctx", 3}}
	for si, sp := range specs {
		for v := 0; v < sp.n*mul; v++ {
			r := root.sub(100*si + v + 7)
			// shape: ns starting nodes (trigger = node 0), nb new candidates, one extra node per other starting node
			ns := 1 + r.intn(3)
			nb := 2 + r.intn(4)
			holdAt := r.intn(nb)
			site := "cand"
			switch v % 4 {
			case 0: // the plainest schedule: one starting node, held at the last candidate
				ns, holdAt = 1, nb-1
			case 1:
				ns, holdAt = 2, 1
			case 3:
				site = "resp"
			}
			if sp.act == "value" && ns < 2 {
				ns = 2
			}
			list6 := r.intn(4) == 0
			var target [20]byte
			var pub ed25519.PublicKey
			var priv ed25519.PrivateKey
			var salt []byte
			var bv []byte
			switch {
			case sp.api == "bootstrap":
				target[0], target[19] = 0x42, 0x24
			case sp.act == "value":
				bv, _ = bencode.Marshal(fmt.Sprintf("immutable-stop-%d-%d", si, v))
				target = sha1.Sum(bv)
			case sp.api == "get" || sp.api == "put":
				pub, priv, _ = ed25519.GenerateKey(bytes.NewReader(r.bytes(64)))
				salt = [][]byte{nil, []byte("s")}[v%2]
				target = sha1.Sum(append(append([]byte(nil), pub...), salt...))
			default:
				target = mkTarget(r)
			}
			total := ns + nb + (ns - 1)
			nodes := genNet(r, total, target)
			for _, nd := range nodes {
				nd.lists = nil
			}
			rc := &lkRace{kind: "hold", act: sp.act, site: site, trig: 0, holdAt: holdAt, val: -1}
			for i := 0; i < nb; i++ {
				bi := ns + i
				rc.batch = append(rc.batch, bi)
				if list6 {
					nodes[bi].form = "v6"
					nodes[bi].addr = lkV6Addr(si, bi)
				}
			}
			nodes[0].lists = append([]int(nil), rc.batch...)
			var start []int
			for i := 0; i < ns; i++ {
				start = append(start, i)
				if i > 0 {
					nodes[i].lists = []int{0, ns + nb + i - 1} // a node already asked, and one more new node
				}
			}
			// which of the other starting nodes have answered before
			others := start[1:]
			if sp.act == "value" {
				rc.val = others[len(others)-1]
				nodes[rc.val].item, nodes[rc.val].genuine, nodes[rc.val].flavour = &lkItem{v: bv}, true, "genuine-immutable"
				others = others[:len(others)-1]
				wrong, _ := bencode.Marshal("not-the-value")
				nodes[0].item, nodes[0].flavour = &lkItem{v: wrong}, "wrong-value"
			}
			for _, o := range others {
				if r.intn(2) == 0 {
					rc.pre = append(rc.pre, o)
					nodes[o].lists = []int{0} // nothing new: the candidates at the hold are the trigger's alone
				}
			}
			if pub != nil {
				nodes[0].item, nodes[0].genuine, nodes[0].flavour = mkItem(pub, priv, salt, int64(2+v%5), "held"), true, "genuine"
				for _, o := range rc.pre {
					nodes[o].item, nodes[o].genuine, nodes[o].flavour = mkItem(pub, priv, salt, int64(1+r.intn(9)), fmt.Sprintf("pre%d", o)), true, "genuine"
				}
			}
			if sp.api == "announce" && r.intn(2) == 0 {
				nodes[0].values = []krpc.NodeAddr{{IP: net.IPv4(8, 9, byte(v), 1).To4(), Port: 7000 + v}}
			}
			c := lkCase{api: sp.api, target: target, nodes: nodes, start: start, stopAt: -1, consStop: -1, race: rc,
				salt: salt, pub: pub, priv: priv, mutable: pub != nil, putValue: "mine"}
			name := ""
			if sp.api == "announce" {
				o := annOpts[(v+si)%len(annOpts)]
				c.annOpts, c.annPort, c.annImp, c.scrape, c.viaTrav = o.opts, o.port, o.imp, o.scrape, o.viaTrav
				c.stopAct = sp.act
				name = "-" + o.name
			}
			l6 := ""
			if list6 {
				l6 = "-nodes6"
			}
			c.desc = fmt.Sprintf("%s-while-reply-in-node-filter-%s@%d/%d%s-start%d-pre%d%s", sp.act, site, holdAt, nb, l6, ns, len(rc.pre), name)
			add(c)
		}
	}

	// ---- kind pause ----
	np := 0
	for v := 0; v < 4*mul; v++ {
		for _, act := range []string{"stoptrav", "close"} {
			r := root.sub(5000 + np)
			np++
			n := 5 + r.intn(6)
			target := mkTarget(r)
			nodes := genNet(r, n, target)
			for i, nd := range nodes {
				switch r.intn(9) {
				case 0:
					nd.token = nil
				case 1:
					nd.kind = "silent"
				case 2:
					nd.kind = "err"
				case 3:
					nd.values = []krpc.NodeAddr{{IP: net.IPv4(8, 7, byte(i), 1).To4(), Port: 7200 + i}, {IP: net.IPv4(8, 7, byte(i), 2).To4(), Port: 7300 + i}}
				case 4:
					nd.ghosts = 1 + r.intn(2)
				}
			}
			for i := 0; i < 3; i++ {
				nodes[i].kind = "r"
			}
			o := annOpts[(v+b2i(act == "close"))%len(annOpts)]
			rc := &lkRace{kind: "pause", act: act, readFirst: v % 3, pendN: 1 + r.intn(3), val: -1}
			add(lkCase{api: "announce", target: target, annOpts: o.opts, annPort: o.port, annImp: o.imp, scrape: o.scrape, viaTrav: o.viaTrav,
				nodes: nodes, start: []int{0, 1, 2}, stopAt: rc.readFirst, stopAct: act, consStop: -1, slow: true, gated: true, race: rc,
				desc: fmt.Sprintf("%s-consumer-paused-after-%d-with-%d-pending-%s", act, rc.readFirst, rc.pendN, o.name)})
		}
	}
	return cs
}

// ---------------------------------------------------------------- containment (called from lkContained)

// lkDeathOracleC14: the child died inside lookups case `crashed`.  Whatever the lookup was doing, it has not ended.
func lkDeathOracleC14(cases []lkCase, crashed int, site, first string, seed uint64) {
	api, how, name := "unknown", "", "?"
	if crashed >= 0 && crashed < len(cases) {
		c := &cases[crashed]
		api, name = c.api, c.name()
		switch {
		case c.race != nil:
			how = ":" + c.race.act
		case c.stopAt >= 0 && c.stopAct != "":
			how = ":" + c.stopAct
		}
	}
	emit("oracle C14 lookup-process-died:%s%s case=%d scenario=%s site=%s %q replay: h -seed %d lookups -only %d", api, how, crashed, name, site, first, seed, crashed)
}
