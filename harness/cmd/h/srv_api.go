package main

// Engine "api" (serves C05, C11 and, with the maintshare cases of srv_api_maintshare.go, C09): the exported API of a real Server / of the bundled peer store
// driven from SEVERAL goroutines at once, which the event-by-event server engine never does.
//
//   C05  overlapping AddNode / AddNodesFromFile / inbound queries / responses to our own pings /
//        readers (Nodes, NumNodes, Stats, WriteStatus), either queued behind a packet handler that is
//        parked inside the OnQuery hook (it holds the server lock, so every caller starts from the
//        same instant when it is released) or released together from a spin barrier; entries turned
//        bad by the ping-time-out hook and by a real TableMaintainer with a short resend delay.
//        After each round, at a point where two consecutive snapshots agree:
//          - oracle: no two entries share (id, address), bucket = shared prefix, <= 8 per bucket, no
//            own / zero id, address index mirrors the buckets, NumNodes = Stats().Nodes = entries,
//            Stats().GoodNodes = good entries, Nodes() = the non-bad entries, WriteStatus agrees;
//          - model line `acount`: the four counters recomputed by RunApi.ra_counts from the entries;
//          - model line `atable`: the extracted acceptance relation RunApi.ra_accept decides whether the
//            table is a possible outcome for the set of candidates offered (relational in the
//            interleaving: every linearisation is accepted, theorem ra_seq_accept).
//        Readers running inside a round only check what one locked call guarantees.
//   C11  bursts of first announces for fresh infohashes: direct concurrent InMemory.AddPeer calls and
//        accepted announce_peer datagrams to a Server whose store is the bundled InMemory (plain, or
//        behind a wrapper that releases the per-announce goroutines together). After quiescence
//        GetPeers / get_peers must return every accepted announcer:
//          - model lines `astore` / `apeers`: fold of add_peer over the announces (+ BEP 32 filter),
//            order-independent for distinct keys (theorem ra_peers_perm);
//          - oracle lines stating the same directly.
//        Floods (srv_api_flood.go, kind ps-flood): hundreds to thousands of accepted announces back to
//        back while the store is plain / single-P / contended / slow / held / the server closed.
//
// Every case runs in a child process (apiContained): a crash of the code under test is an oracle
// line of the case's own property.

import (
	"bytes"
	"fmt"
	"net"
	"os"
	"os/exec"
	"path/filepath"
	"regexp"
	"runtime"
	"sort"
	"strconv"
	"strings"
	"sync"
	"sync/atomic"
	"time"

	"github.com/anacrolix/log"
	"github.com/anacrolix/torrent/bencode"
	"golang.org/x/time/rate"

	dht "github.com/anacrolix/dht/v2"
	"github.com/anacrolix/dht/v2/krpc"
)

func init() { engines["api"] = apiEngine }

type apiCase struct {
	prop   string // property the case serves
	kind   string
	mix    string // op mix of a table batch
	park   bool   // callers queue behind a parked packet handler
	par    int    // concurrent callers per round
	rounds int
}

func (c apiCase) String() string {
	return fmt.Sprintf("prop=%s kind=%s mix=%s park=%d par=%d rounds=%d", c.prop, c.kind, c.mix, b2i(c.park), c.par, c.rounds)
}

func apiCases(tier string) []apiCase {
	th := tier == "thorough"
	sc := func(q, t int) int {
		if th {
			return t
		}
		return q
	}
	var cs []apiCase
	// ---- C05
	for i := 0; i < sc(3, 12); i++ {
		cs = append(cs, apiCase{prop: "C05", kind: "counters", rounds: sc(10, 30)})
	}
	for i := 0; i < sc(2, 8); i++ {
		cs = append(cs, apiCase{prop: "C05", kind: "maint", rounds: 1})
	}
	for _, par := range []int{2, 4, 8} {
		cs = append(cs, apiCase{prop: "C05", kind: "batch", mix: "same", park: true, par: par, rounds: sc(4, 20)})
	}
	for _, mix := range []string{"add", "mixed", "file", "resp", "evict"} {
		cs = append(cs, apiCase{prop: "C05", kind: "batch", mix: mix, park: true, par: 6, rounds: sc(4, 20)})
		cs = append(cs, apiCase{prop: "C05", kind: "batch", mix: mix, park: false, par: 6, rounds: sc(40, 400)})
	}
	cs = append(cs, apiCase{prop: "C05", kind: "batch", mix: "same", park: false, par: 8, rounds: sc(120, 2000)})
	// hand-built nodes files (srv_api_nodesfile.go): unknown (zero) ids, own id, ids not valid for their address
	// under an enforcing node, duplicates, crowded buckets, blocked addresses, port 0, address spellings
	for _, mix := range []string{"open", "secure", "blocked"} {
		cs = append(cs, apiCase{prop: "C05", kind: "nodesfile", mix: mix, park: false, par: 3, rounds: sc(5, 40)})
		cs = append(cs, apiCase{prop: "C05", kind: "nodesfile", mix: mix, park: true, par: 3, rounds: sc(3, 20)})
	}
	cs = append(cs, apiCase{prop: "C05", kind: "nodesfile", mix: "serial", park: false, par: 1, rounds: sc(6, 60)})
	// ---- C11
	cs = append(cs, apiCase{prop: "C11", kind: "ps-direct", par: 8, rounds: sc(3000, 40000)})
	cs = append(cs, apiCase{prop: "C11", kind: "ps-direct", par: 3, rounds: sc(1500, 10000)})
	cs = append(cs, apiCase{prop: "C11", kind: "ps-direct", par: 14, rounds: sc(1000, 10000)})
	cs = append(cs, apiCase{prop: "C11", kind: "ps-wire", mix: "barrier", par: 4, rounds: sc(150, 1500)})
	cs = append(cs, apiCase{prop: "C11", kind: "ps-wire", mix: "plain", par: 6, rounds: sc(300, 4000)})
	cs = append(cs, apiCase{prop: "C11", kind: "ps-wire", mix: "barrier", par: 8, rounds: sc(150, 1500)})
	// floods of hundreds to thousands of accepted announces (srv_api_flood.go); par = hosts
	for _, mix := range []string{"held", "slow", "contended", "plain", "close"} {
		cs = append(cs, apiCase{prop: "C11", kind: "ps-flood", mix: mix, par: sc(400, 1200), rounds: sc(5, 30)})
	}
	cs = append(cs, apiCase{prop: "C11", kind: "ps-flood", mix: "plain1p", par: sc(1500, 3000), rounds: sc(4, 20)})
	cs = append(cs, apiCase{prop: "C11", kind: "ps-flood", mix: "held1p", par: sc(300, 3000), rounds: sc(3, 10)})
	if th {
		cs = append(cs, apiCase{prop: "C11", kind: "ps-flood", mix: "held", par: 3000, rounds: 10})
		cs = append(cs, apiCase{prop: "C11", kind: "ps-flood", mix: "contended", par: 3000, rounds: 10})
	}
	// ---- C09 (srv_api_maintshare.go; appended: the cases above keep their index and PRNG stream)
	for i := 0; i < sc(6, 40); i++ {
		cs = append(cs, apiCase{prop: "C09", kind: "maintshare", rounds: 1})
	}
	return cs
}

func apiEngine(seed uint64, tier string, args []string) {
	from := 0
	child := false
	for i := 0; i < len(args); i++ {
		switch args[i] {
		case "-child":
			child = true
		case "-from":
			from, _ = strconv.Atoi(args[i+1])
			i++
		}
	}
	cases := apiCases(tier)
	if !child {
		apiContained(seed, tier, cases)
		return
	}
	// a check of one of the two properties runs that property's cases only
	only := os.Getenv("VERIF_PROP")
	if only != "C05" && only != "C11" && only != "C09" {
		only = ""
	}
	for i := from; i < len(cases); i++ {
		c := cases[i]
		if only != "" && c.prop != only {
			continue
		}
		emit("mbegin %d api %s => ok", i, c)
		out.Flush()
		switch c.kind {
		case "counters":
			runApiCounters(seed, i, c)
		case "maint":
			runApiMaint(seed, i, c)
		case "maintshare":
			runApiMaintShared(seed, i, c)
		case "batch":
			runApiBatch(seed, i, c)
		case "nodesfile":
			runApiNodesFile(seed, i, c)
		case "ps-direct":
			runApiPeersDirect(seed, i, c)
		case "ps-wire":
			runApiPeersWire(seed, i, c)
		case "ps-flood":
			runApiPeersFlood(seed, i, c)
		}
		emit("mend %d => ok", i)
		out.Flush()
	}
}

// apiContained is runContained (main.go) with the crash reported under the property the crashing
// case serves: a table that panics on a duplicate insertion is a C05 matter, a dying peer store a
// C11 one.
func apiContained(seed uint64, tier string, cases []apiCase) {
	from := 0
	tmp, err := os.CreateTemp("", "verif-api-child-*.txt")
	if err != nil {
		panic(err)
	}
	tmp.Close()
	defer os.Remove(tmp.Name())
	for from < len(cases) {
		cmd := exec.Command(os.Args[0], "-seed", strconv.FormatUint(seed, 10), "-tier", tier, "-out", tmp.Name(), "api", "-child", "-from", strconv.Itoa(from))
		var stderr bytes.Buffer
		cmd.Stderr = &stderr
		cmd.Stdout = &stderr
		runErr := cmd.Run()
		data, _ := os.ReadFile(tmp.Name())
		lines := strings.Split(string(data), "\n")
		lastEnd := -1
		for i, l := range lines {
			if strings.HasPrefix(l, "mend ") {
				lastEnd = i
			}
		}
		if runErr == nil {
			for _, l := range lines {
				if l != "" {
					emit("%s", l)
				}
			}
			return
		}
		for i := 0; i <= lastEnd; i++ {
			if lines[i] != "" {
				emit("%s", lines[i])
			}
		}
		crashed := from
		var partial []string
		for i := lastEnd + 1; i < len(lines); i++ {
			l := lines[i]
			if strings.HasPrefix(l, "mbegin ") {
				if f := strings.Fields(l); len(f) > 1 {
					if n, err := strconv.Atoi(f[1]); err == nil {
						crashed = n
					}
				}
			}
			if strings.HasPrefix(l, "oracle ") {
				emit("%s", l)
			} else if l != "" && !strings.HasPrefix(l, "mbegin ") {
				if len(l) > 160 {
					l = l[:160] + "..."
				}
				partial = append(partial, l)
			}
		}
		// the case bracket stays balanced for the model runner: the child's mbegin line was dropped above
		// (it belongs to an unfinished case), the oracle line below stands for the case
		site := "unknown"
		st := stderr.String()
		if m := regexp.MustCompile(`github\.com/anacrolix/dht/v2[^\s(]*\.([A-Za-z0-9_*().]+)\(`).FindStringSubmatch(st); m != nil {
			site = strings.NewReplacer("(", "", ")", "", "*", "").Replace(m[1])
		}
		first := ""
		for _, l := range strings.Split(st, "\n") {
			if strings.HasPrefix(l, "panic:") || strings.HasPrefix(l, "fatal error:") {
				first = l
				break
			}
		}
		if len(partial) > 4 {
			partial = partial[len(partial)-4:]
		}
		exit3 := false
		if ee, ok := runErr.(*exec.ExitError); ok && ee.ExitCode() == 3 {
			exit3 = true // the child gave up on a wedged node after reporting it itself
		}
		if !exit3 {
			prop := "C01"
			if crashed < len(cases) {
				prop = cases[crashed].prop
			}
			emit("oracle %s process-died:%s case=%d api %s %q last-lines=%q", prop, site, crashed, cases[crashed%len(cases)], first, strings.Join(partial, " || "))
		}
		from = crashed + 1
	}
}

// ---------------------------------------------------------------- a server under concurrent use

type apiNode struct {
	id   [20]byte
	addr *net.UDPAddr
}

func (n apiNode) info() krpc.NodeInfo {
	return krpc.NodeInfo{ID: n.id, Addr: krpc.NodeAddr{IP: n.addr.IP, Port: n.addr.Port}}
}

// canonical identity of a table entry: id, 16-byte address form, port (the table compares the
// address STRINGS, under which the 4-byte and the v4-mapped form of one address are the same)
func apiKey(id [20]byte, ip net.IP, port int) string {
	return fmt.Sprintf("%s@%s:%d", hx(id[:]), hx(ip.To16()), port)
}
func (n apiNode) key() string { return apiKey(n.id, n.addr.IP, n.addr.Port) }

type apiSrv struct {
	idx  int
	c    apiCase
	root [20]byte
	conn *fakeConn
	s    *dht.Server
	base int

	parkArmed        int32
	entered, release chan struct{}

	mu         sync.Mutex
	responders map[string]apiNode // address -> simulated node answering our queries with its id
	noPing     map[string]bool    // addresses of simulated nodes that answer every query except ping
	replies    apiCounter
	must       map[string]bool // candidates certainly offered for insertion since the last model line
	may        map[string]int  // candidates possibly offered: unresolved asynchronous offers (kept for good)
	prev       map[string]bool // the table at the last model line
	nround     int
	ncheck     int

	// nodes-file cases (srv_api_nodesfile.go): a node that may enforce the security extension and
	// may have a blocklist; their table lines are `atables` (RunApi.ra_accept_s)
	sline bool
	nosec bool
	bl    *blocklist
}

// apiCounter counts goroutines in flight (a WaitGroup must not be waited on while new work is added)
type apiCounter struct{ n int64 }

func (c *apiCounter) Add(d int) { atomic.AddInt64(&c.n, int64(d)) }
func (c *apiCounter) Done()     { atomic.AddInt64(&c.n, -1) }
func (c *apiCounter) Wait()     { c.WaitFor(10 * time.Second) }
func (c *apiCounter) WaitFor(limit time.Duration) bool {
	dl := time.Now().Add(limit)
	for atomic.LoadInt64(&c.n) > 0 {
		if time.Now().After(dl) {
			return false
		}
		time.Sleep(100 * time.Microsecond)
	}
	return true
}

// oracle lines written from concurrently running callers
var apiEmitMu sync.Mutex

func apiOracle(prop, key, format string, a ...interface{}) {
	apiEmitMu.Lock()
	defer apiEmitMu.Unlock()
	oracle(prop, key, format, a...)
}

func newApiSrv(idx int, c apiCase, r *rng, resend time.Duration) *apiSrv {
	return newApiSrvOpt(idx, c, r, resend, true, nil)
}

func newApiSrvOpt(idx int, c apiCase, r *rng, resend time.Duration, nosec bool, bl *blocklist) *apiSrv {
	a := &apiSrv{idx: idx, c: c, conn: newFakeConn(), responders: map[string]apiNode{}, must: map[string]bool{}, may: map[string]int{}, prev: map[string]bool{}, nosec: nosec, bl: bl}
	copy(a.root[:], r.bytes(20))
	cfg := &dht.ServerConfig{
		NodeId:           a.root,
		Conn:             a.conn,
		NoSecurity:       nosec,
		StartingNodes:    func() ([]dht.Addr, error) { return nil, nil },
		QueryResendDelay: func() time.Duration { return resend },
		Logger:           log.NewLogger().FilterLevel(log.Critical),
		SendLimiter:      rate.NewLimiter(rate.Inf, 1),
		OnQuery: func(q *krpc.Msg, _ net.Addr) bool {
			// runs inside the packet handler, which holds the server lock
			if q.T == "zzpark" && atomic.CompareAndSwapInt32(&a.parkArmed, 1, 0) {
				close(a.entered)
				<-a.release
			}
			return true
		},
	}
	if bl != nil {
		cfg.IPBlocklist = bl
	}
	a.conn.onWrite = func(b []byte, to *net.UDPAddr) {
		m, ok := decodeLikeServer(b)
		if !ok || m.Y != "q" {
			return
		}
		a.mu.Lock()
		p, known := a.responders[to.String()]
		if known && m.Q == "ping" && a.noPing[to.String()] {
			known = false
		}
		a.mu.Unlock()
		if !known {
			return
		}
		reply := bencode.MustMarshal(krpc.Msg{Y: "r", T: m.T, R: &krpc.Return{ID: p.id}})
		a.replies.Add(1)
		go func() { defer a.replies.Done(); a.conn.inject(reply, to, 3*time.Second) }()
	}
	a.base = runtime.NumGoroutine()
	s, err := dht.NewServer(cfg)
	if err != nil {
		panic(err)
	}
	a.s = s
	if s.ID() != a.root {
		oracle("C05", "server-id-differs-from-configured-node-id:api", "case=%d configured=%x id=%x", idx, a.root, s.ID())
		a.root = s.ID()
	}
	for atomic.LoadInt64(&a.conn.reads) == 0 {
		time.Sleep(20 * time.Microsecond)
	}
	time.Sleep(200 * time.Microsecond)
	a.base = runtime.NumGoroutine()
	return a
}

func (a *apiSrv) ctx() string { return fmt.Sprintf("case=%d round=%d %s", a.idx, a.nround, a.c) }

// offer(true): the call that offers n for insertion has completed (or cannot fail to reach the
// insertion path); offer(false): it may or may not reach it (asynchronous ping, delivery not
// confirmed yet); resolve: an offer(false) whose insertion attempt is now known to have happened.
func (a *apiSrv) offer(must bool, n apiNode) {
	a.mu.Lock()
	if must {
		a.must[n.key()] = true
	} else {
		a.may[n.key()]++
	}
	a.mu.Unlock()
}

func (a *apiSrv) resolve(n apiNode) {
	a.mu.Lock()
	a.must[n.key()] = true
	if a.may[n.key()]--; a.may[n.key()] <= 0 {
		delete(a.may, n.key())
	}
	a.mu.Unlock()
}

func (a *apiSrv) close() {
	guard("Close", a.ctx(), func() { a.s.Close() })
	a.conn.Close()
	a.replies.Wait()
	dl := time.Now().Add(3 * time.Second)
	for runtime.NumGoroutine() > a.base-1 && time.Now().Before(dl) {
		time.Sleep(time.Millisecond)
	}
}

// waits until everything the round started has ended (bounded; the checks below do not rely on it)
func (a *apiSrv) settle(limit time.Duration) bool {
	a.replies.WaitFor(limit)
	dl := time.Now().Add(limit)
	for runtime.NumGoroutine() > a.base {
		if time.Now().After(dl) {
			return false
		}
		time.Sleep(200 * time.Microsecond)
	}
	return true
}

type apiSnap struct {
	nodes []dht.VerifNode
	index map[string][]string
	str   string
}

func (a *apiSrv) snap() apiSnap {
	var sn apiSnap
	guard("VerifTableSnapshot", a.ctx(), func() { sn.nodes, sn.index = a.s.VerifTableSnapshot() })
	var ss []string
	for _, n := range sn.nodes {
		ss = append(ss, fmt.Sprintf("%s/%d/%d%d%d", apiKey(n.Id, net.IP(n.IP), n.Port), n.Bucket, b2i(n.Good), b2i(n.Bad), b2i(n.Failed)))
	}
	sort.Strings(ss)
	sn.str = strings.Join(ss, " ")
	return sn
}

var apiStatusRe = regexp.MustCompile(`Nodes in table: (\d+) good, (\d+) total`)

// checkTable: find a point where the table does not move (two equal snapshots around the API
// calls), then state C05 on it. line: also emit the model line for the candidates collected.
func (a *apiSrv) checkTable(line bool) {
	ctxs := a.ctx()
	var s1, s2 apiSnap
	var nn, nn2 int
	var st dht.ServerStats
	var exported []krpc.NodeInfo
	var status bytes.Buffer
	stable := false
	for try := 0; try < 60 && !stable; try++ {
		if try > 0 {
			time.Sleep(10 * time.Millisecond)
		}
		s1 = a.snap()
		status.Reset()
		guard("NumNodes/Stats/Nodes/WriteStatus", ctxs, func() {
			nn = a.s.NumNodes()
			st = a.s.Stats()
			exported = a.s.Nodes()
			a.s.WriteStatus(&status)
			nn2 = a.s.NumNodes()
		})
		s2 = a.snap()
		stable = s1.str == s2.str
	}
	if !stable {
		emit("# api %s table kept changing, no comparison", ctxs)
		return
	}
	snap := s1.nodes
	// ---- well-formedness of the entries
	perBucket := map[int]int{}
	seen := map[string]bool{}
	seenAddr := map[string]map[string]bool{}
	g, nb := 0, 0
	for _, n := range snap {
		perBucket[n.Bucket]++
		if n.Good {
			g++
		}
		if !n.Bad {
			nb++
		}
		k := string(n.Id[:]) + "|" + n.Addr
		if seen[k] {
			oracle("C05", "duplicate-id-and-address:api", "%s %x %s", ctxs, n.Id, n.Addr)
		}
		seen[k] = true
		if seenAddr[n.Addr] == nil {
			seenAddr[n.Addr] = map[string]bool{}
		}
		seenAddr[n.Addr][string(n.Id[:])] = true
		if n.Id == a.root {
			oracle("C05", "own-id-in-table:api", "%s", ctxs)
			continue
		}
		if n.Id == [20]byte{} {
			oracle("C05", "zero-id-in-table:api", "%s", ctxs)
		}
		if idx, p := dht.VerifBucketIndex(a.root, n.Id); p || idx != n.Bucket || idx != sharedPrefix(a.root, n.Id) {
			oracle("C05", "entry-in-wrong-bucket:api", "%s id=%x bucket=%d expected=%d", ctxs, n.Id, n.Bucket, sharedPrefix(a.root, n.Id))
		}
	}
	for b, k := range perBucket {
		if k > 8 {
			oracle("C05", "bucket-over-capacity:api", "%s bucket=%d n=%d", ctxs, b, k)
		}
	}
	// ---- the address index mirrors the buckets
	mirror := len(seenAddr) == len(s1.index)
	for addr, ids := range s1.index {
		if len(ids) != len(seenAddr[addr]) {
			mirror = false
		}
		for _, id := range ids {
			if !seenAddr[addr][id] {
				mirror = false
			}
		}
	}
	if !mirror {
		oracle("C05", "address-index-disagrees-with-buckets:api", "%s entries=%d distinct-addresses=%d index-addresses=%d", ctxs, len(snap), len(seenAddr), len(s1.index))
	}
	// ---- the counters and the exported list agree with the entries
	if nn != len(snap) || nn2 != len(snap) || st.Nodes != len(snap) {
		oracle("C05", "node-count-disagrees-with-table:api", "%s NumNodes=%d Stats.Nodes=%d entries=%d (bad entries=%d)", ctxs, nn, st.Nodes, len(snap), len(snap)-nb)
	}
	if st.GoodNodes != g || st.GoodNodes > st.Nodes {
		oracle("C05", "good-node-count-disagrees-with-table:api", "%s Stats.GoodNodes=%d Stats.Nodes=%d good entries=%d", ctxs, st.GoodNodes, st.Nodes, g)
	}
	expKeys := map[string]int{}
	for _, ni := range exported {
		expKeys[apiKey(ni.ID, ni.Addr.IP, ni.Addr.Port)]++
	}
	okExp := len(exported) == nb
	for _, n := range snap {
		k := apiKey(n.Id, net.IP(n.IP), n.Port)
		if !n.Bad && expKeys[k] != 1 {
			okExp = false
		}
		if n.Bad && expKeys[k] != 0 {
			okExp = false
		}
	}
	if !okExp {
		oracle("C05", "exported-nodes-disagree-with-table:api", "%s len(Nodes())=%d non-bad entries=%d entries=%d", ctxs, len(exported), nb, len(snap))
	}
	if m := apiStatusRe.FindStringSubmatch(status.String()); m == nil {
		oracle("C05", "write-status-without-node-counts:api", "%s", ctxs)
	} else if m[1] != strconv.Itoa(g) || m[2] != strconv.Itoa(len(snap)) {
		oracle("C05", "write-status-counts-disagree-with-table:api", "%s status=%q good entries=%d entries=%d", ctxs, m[0], g, len(snap))
	}
	// ---- model line: the counters recomputed from the entries' classification (RunApi.ra_counts)
	var flags []string
	for _, n := range snap {
		flags = append(flags, fmt.Sprintf("%d%d", b2i(n.Good), b2i(n.Bad)))
	}
	a.ncheck++
	emit("acount %d.%d.%d %d %s => %d %d %d %d", a.idx, a.nround, a.ncheck, len(flags), strings.Join(flags, " "), nn, st.Nodes, st.GoodNodes, len(exported))
	if !line {
		return
	}
	// ---- model line: is this table a possible outcome for the candidates offered?
	a.mu.Lock()
	var must, may []string
	for k := range a.must {
		must = append(must, k)
	}
	for k := range a.may {
		if !a.must[k] {
			may = append(may, k)
		}
	}
	for k := range a.prev {
		if !a.must[k] && a.may[k] == 0 {
			may = append(may, k)
		}
	}
	a.must = map[string]bool{}
	a.prev = map[string]bool{}
	var obs []string
	for _, n := range snap {
		k := apiKey(n.Id, net.IP(n.IP), n.Port)
		obs = append(obs, fmt.Sprintf("%s/%d", k, n.Bucket))
		a.prev[k] = true // what is in the table now may still be there at the next line
	}
	a.mu.Unlock()
	sort.Strings(must)
	sort.Strings(may)
	sort.Strings(obs)
	if a.sline {
		emit("atables %d.%d %d %s %d %s %d %s => %d %s", a.idx, a.nround, b2i(a.nosec), hx(a.root[:]), len(must), strings.Join(must, " "), len(may), strings.Join(may, " "), len(obs), strings.Join(obs, " "))
	} else {
		emit("atable %d.%d %s %d %s %d %s => %d %s", a.idx, a.nround, hx(a.root[:]), len(must), strings.Join(must, " "), len(may), strings.Join(may, " "), len(obs), strings.Join(obs, " "))
	}
	out.Flush()
}

// what ONE locked call guarantees, whatever else is going on
func (a *apiSrv) readerChecks(which int) {
	ctxs := a.ctx()
	switch which % 4 {
	case 0:
		st := a.s.Stats()
		if st.GoodNodes > st.Nodes || st.Nodes > 160*8 || st.GoodNodes < 0 {
			apiOracle("C05", "stats-good-exceeds-nodes:api", "%s GoodNodes=%d Nodes=%d", ctxs, st.GoodNodes, st.Nodes)
		}
	case 1:
		nis := a.s.Nodes()
		seen := map[string]bool{}
		per := map[int]int{}
		for _, ni := range nis {
			k := apiKey(ni.ID, ni.Addr.IP, ni.Addr.Port)
			if seen[k] {
				apiOracle("C05", "duplicate-id-and-address:api-nodes-list", "%s %s", ctxs, k)
			}
			seen[k] = true
			if ni.ID == a.root || ni.ID == [20]byte{} {
				apiOracle("C05", "own-or-zero-id-exported:api", "%s %x", ctxs, ni.ID)
				continue
			}
			per[sharedPrefix(a.root, ni.ID)]++
		}
		for b, k := range per {
			if k > 8 {
				apiOracle("C05", "bucket-over-capacity:api-nodes-list", "%s bucket=%d n=%d", ctxs, b, k)
			}
		}
	case 2:
		if n := a.s.NumNodes(); n < 0 || n > 160*8 {
			apiOracle("C05", "node-count-out-of-range:api", "%s NumNodes=%d", ctxs, n)
		}
	case 3:
		var b bytes.Buffer
		a.s.WriteStatus(&b)
		if m := apiStatusRe.FindStringSubmatch(b.String()); m != nil {
			gd, _ := strconv.Atoi(m[1])
			tot, _ := strconv.Atoi(m[2])
			if gd > tot {
				apiOracle("C05", "stats-good-exceeds-nodes:api-write-status", "%s %q", ctxs, m[0])
			}
		}
	}
}

func (a *apiSrv) query(n apiNode, t string, ro bool) bool {
	m := krpc.Msg{Q: "ping", Y: "q", T: t, A: &krpc.MsgArgs{ID: n.id}, ReadOnly: ro}
	return a.conn.inject(bencode.MustMarshal(m), n.addr, 5*time.Second)
}

// ---------------------------------------------------------------- C05: counters with bad entries (sequential)

func apiPoolNode(r *rng, root [20]byte, bucket int) apiNode {
	return apiNode{id: idInBucket(r, root, bucket), addr: randAddr(r, famOf(r))}
}

func runApiCounters(seed uint64, idx int, c apiCase) {
	r := (&rng{s: seed ^ 0xa91c05}).sub(idx)
	a := newApiSrv(idx, c, r, 40*time.Millisecond)
	defer a.close()
	var in []apiNode
	add := func(n apiNode) {
		guard("AddNode", a.ctx(), func() { a.s.AddNode(n.info()) })
		a.offer(true, n)
		in = append(in, n)
	}
	// a full bucket 0, a few deeper entries, entries sharing an address / an id
	for i := 0; i < 9; i++ {
		add(apiPoolNode(r, a.root, 0))
	}
	for i := 0; i < 6; i++ {
		add(apiPoolNode(r, a.root, 1+r.intn(12)))
	}
	tw := in[9]
	add(apiNode{id: idInBucket(r, a.root, 2), addr: tw.addr})
	add(apiNode{id: tw.id, addr: randAddr(r, 0)})
	a.checkTable(true)
	for a.nround = 1; a.nround <= c.rounds; a.nround++ {
		switch r.intn(6) {
		case 0, 1: // a questionable-node ping of an entry (or of a stranger) times out
			n := in[r.intn(len(in))]
			if r.intn(5) == 0 {
				n = apiPoolNode(r, a.root, r.intn(4))
			}
			guard("VerifFailQuestionablePing", a.ctx(), func() { a.s.VerifFailQuestionablePing(dht.NewAddr(n.addr), n.id) })
		case 2: // an entry answers our ping: good
			n := in[r.intn(len(in))]
			a.mu.Lock()
			a.responders[n.addr.String()] = n
			a.mu.Unlock()
			var res dht.QueryResult
			a.offer(false, n)
			guard("Ping", a.ctx(), func() { res = a.s.Ping(n.addr) })
			if res.Err == nil {
				a.resolve(n)
			}
			a.settle(2 * time.Second)
		case 3: // time passes: good entries turn questionable
			guard("VerifAge", a.ctx(), func() { a.s.VerifAge(time.Duration(5+r.intn(20)) * time.Minute) })
		case 4: // a newcomer for a bucket that may hold a bad entry
			add(apiPoolNode(r, a.root, r.intn(3)))
		case 5: // a query from an entry or a stranger
			n := in[r.intn(len(in))]
			if r.bool() {
				n = apiPoolNode(r, a.root, r.intn(6))
				in = append(in, n)
			}
			a.offer(false, n)
			if a.query(n, fmt.Sprintf("q%d", a.nround), false) {
				a.resolve(n)
			}
			a.settle(2 * time.Second)
		}
		a.checkTable(true)
	}
	a.nround = 0
}

// ---------------------------------------------------------------- C05: entries turned bad by a real TableMaintainer

func runApiMaint(seed uint64, idx int, c apiCase) {
	r := (&rng{s: seed ^ 0xa91c06}).sub(idx)
	a := newApiSrv(idx, c, r, 8*time.Millisecond)
	var nodes []apiNode
	for i := 0; i < 10; i++ {
		n := apiPoolNode(r, a.root, []int{0, 0, 0, 1, 1, 2, 3}[r.intn(7)])
		nodes = append(nodes, n)
		if i%2 == 0 { // every other node answers, the rest stay silent
			a.responders[n.addr.String()] = n
		}
		guard("AddNode", a.ctx(), func() { a.s.AddNode(n.info()) })
	}
	a.checkTable(false)
	go a.s.TableMaintainer()
	// readers while the maintainer works
	stop := make(chan struct{})
	var wg sync.WaitGroup
	for k := 0; k < 2; k++ {
		wg.Add(1)
		go func(k int) {
			defer wg.Done()
			for i := 0; ; i++ {
				select {
				case <-stop:
					return
				default:
				}
				a.readerChecks(k*2 + i)
				time.Sleep(time.Millisecond)
			}
		}(k)
	}
	sawBad := false
	dl := time.Now().Add(4 * time.Second)
	for !sawBad && time.Now().Before(dl) {
		time.Sleep(5 * time.Millisecond)
		for _, n := range a.snap().nodes {
			if n.Failed {
				sawBad = true
			}
		}
	}
	close(stop)
	wg.Wait()
	// stop the maintainer's traffic, then compare at rest (the API keeps working on a closed server)
	guard("Close", a.ctx(), func() { a.s.Close() })
	a.replies.Wait()
	dl = time.Now().Add(4 * time.Second)
	for runtime.NumGoroutine() > a.base && time.Now().Before(dl) {
		time.Sleep(time.Millisecond)
	}
	a.nround = 1
	a.checkTable(false)
	emit("# api %s maintainer-made-an-entry-bad=%v", a.ctx(), sawBad)
	a.conn.Close()
}

// ---------------------------------------------------------------- C05: overlapping callers

type apiOp struct {
	kind  string // add | addzero | file | query | roquery | resp | read | failping
	node  apiNode
	nodes []apiNode
	alt   bool
}

func runApiBatch(seed uint64, idx int, c apiCase) {
	r := (&rng{s: seed ^ 0xa91c07}).sub(idx)
	// a fresh server every 60 rounds: the table (and with it the model lines) stays small and the
	// buckets the rounds aim at keep having room
	for first := 1; first <= c.rounds; first += 60 {
		last := first + 59
		if last > c.rounds {
			last = c.rounds
		}
		runApiBatchChunk(idx, c, r, first, last)
	}
}

func runApiBatchChunk(idx int, c apiCase, r *rng, first, last int) {
	a := newApiSrv(idx, c, r, 120*time.Millisecond)
	defer a.close()
	dir, err := os.MkdirTemp("", "verif-api-nodes-")
	if err != nil {
		panic(err)
	}
	defer os.RemoveAll(dir)
	lineEvery := 1
	if !c.park {
		lineEvery = 8
	}
	var known []apiNode // nodes offered in earlier rounds
	for round := first; round <= last; round++ {
		a.nround = round
		// ---- this round's pool: fresh nodes in buckets that still have room, plus twins
		var pool []apiNode
		npool := 1
		if c.mix != "same" {
			npool = 2 + r.intn(4)
		}
		for i := 0; i < npool; i++ {
			b := (round*5 + i*3 + r.intn(3)) % 150
			if c.mix == "evict" {
				b = r.intn(3) // few buckets: they fill up, newcomers meet bad and untested entries
			}
			pool = append(pool, apiPoolNode(r, a.root, b))
		}
		if c.mix != "same" && r.intn(2) == 0 { // one address under a second id
			pool = append(pool, apiNode{id: idInBucket(r, a.root, r.intn(150)), addr: pool[0].addr})
		}
		if c.mix != "same" && r.intn(2) == 0 { // one id at a second address
			pool = append(pool, apiNode{id: pool[0].id, addr: randAddr(r, famOf(r))})
		}
		if r.intn(3) == 0 { // the v4-mapped spelling of a 4-byte address: the same table key
			if ip4 := pool[0].addr.IP.To4(); ip4 != nil && len(pool[0].addr.IP) == 4 {
				pool = append(pool, apiNode{id: pool[0].id, addr: udp(mapped(ip4), pool[0].addr.Port)})
			}
		}
		if c.mix == "mixed" && r.intn(3) == 0 {
			pool = append(pool, apiNode{id: a.root, addr: randAddr(r, 0)}) // our own id: never stored
		}
		pick := func() apiNode {
			if c.mix == "same" {
				return pool[r.intn(len(pool))]
			}
			if len(known) > 0 && r.intn(6) == 0 {
				return known[r.intn(len(known))]
			}
			return pool[r.intn(len(pool))]
		}
		// ---- the callers
		var ops []apiOp
		for i := 0; i < c.par; i++ {
			op := apiOp{kind: "add", node: pick()}
			x := r.intn(12)
			switch c.mix {
			case "same", "add":
			case "file":
				if x < 6 {
					op.kind = "file"
					for j := 0; j < 1+r.intn(len(pool)); j++ {
						op.nodes = append(op.nodes, pick())
					}
					if r.intn(3) == 0 {
						op.nodes = append(op.nodes, op.nodes[0]) // listed twice in one file
					}
				}
			case "resp":
				if x < 5 {
					op.kind = "resp"
				} else if x < 7 {
					op.kind = "addzero"
				} else if x < 9 {
					op.kind = "query"
				}
			case "mixed":
				op.kind = []string{"add", "add", "add", "query", "query", "resp", "file", "read", "read", "roquery", "addzero", "add"}[x]
				if op.kind == "file" {
					op.nodes = []apiNode{pick(), pick()}
				}
			case "evict":
				op.kind = []string{"add", "add", "add", "query", "resp", "resp", "failping", "failping", "read", "add", "query", "resp"}[x]
			}
			if op.kind == "roquery" { // a read-only sender nobody else offers: must not enter
				op.node = apiPoolNode(r, a.root, (round*5+140)%150)
			}
			if op.kind == "failping" && len(known) > 0 && r.bool() {
				op.node = known[r.intn(len(known))]
			}
			op.alt = r.bool()
			ops = append(ops, op)
		}
		// nodes that answer our pings
		a.mu.Lock()
		for _, op := range ops {
			if op.kind == "resp" || op.kind == "addzero" {
				if op.kind == "addzero" && r.intn(4) == 0 {
					continue // a silent address
				}
				if _, ok := a.responders[op.node.addr.String()]; !ok {
					a.responders[op.node.addr.String()] = op.node
				}
			}
		}
		a.mu.Unlock()
		files := map[int]string{}
		for i, op := range ops {
			if op.kind == "file" {
				var nis []krpc.NodeInfo
				for _, n := range op.nodes {
					nis = append(nis, n.info())
				}
				p := filepath.Join(dir, fmt.Sprintf("n%d-%d.dat", round, i))
				if err := dht.WriteNodesToFile(nis, p); err != nil {
					panic(err)
				}
				files[i] = p
			}
		}
		// ---- park the packet handler (it holds the server lock) or prepare the barrier
		parked := false
		if c.park {
			a.entered = make(chan struct{})
			a.release = make(chan struct{})
			atomic.StoreInt32(&a.parkArmed, 1)
			parker := apiPoolNode(r, a.root, (round*5+147)%150)
			a.offer(false, parker)
			a.replies.Add(1)
			go func() {
				defer a.replies.Done()
				m := krpc.Msg{Q: "ping", Y: "q", T: "zzpark", A: &krpc.MsgArgs{ID: parker.id}}
				if a.conn.inject(bencode.MustMarshal(m), parker.addr, 10*time.Second) {
					a.resolve(parker) // its handler has run to the end
				}
			}()
			select {
			case <-a.entered:
				parked = true
			case <-time.After(5 * time.Second):
				atomic.StoreInt32(&a.parkArmed, 0)
				emit("# api %s handler did not park", a.ctx())
			}
		}
		var arrived int32
		var wg sync.WaitGroup
		for i, op := range ops {
			wg.Add(1)
			go func(i int, op apiOp) {
				defer wg.Done()
				if !parked { // spin barrier: all callers leave within a few hundred nanoseconds
					apiSpinBarrier(&arrived, int32(len(ops)))
				}
				a.runOp(round, i, op, files[i])
			}(i, op)
		}
		if parked {
			time.Sleep(15 * time.Millisecond) // the callers reach the server lock
			close(a.release)
		}
		done := make(chan struct{})
		go func() { wg.Wait(); close(done) }()
		select {
		case <-done:
		case <-time.After(20 * time.Second):
			oracle("C01", "api-does-not-return:concurrent-callers", "%s", a.ctx())
			out.Flush()
			os.Exit(3)
		}
		a.settle(2 * time.Second)
		for _, n := range pool {
			if n.id != a.root {
				known = append(known, n)
			}
		}
		if len(known) > 64 {
			known = known[len(known)-64:]
		}
		a.checkTable(round%lineEvery == 0 || round == last)
	}
}

func (a *apiSrv) runOp(round, i int, op apiOp, file string) {
	switch op.kind {
	case "add":
		a.offer(true, op.node) // offered before the call: whatever happens, AddNode goes through the insertion path
		a.s.AddNode(op.node.info())
	case "addzero":
		// AddNode with an unknown (zero) id pings the address; the node enters when its reply arrives in time
		a.mu.Lock()
		p, ok := a.responders[op.node.addr.String()]
		a.mu.Unlock()
		if ok {
			a.offer(false, apiNode{id: p.id, addr: op.node.addr})
		}
		a.s.AddNode(krpc.NodeInfo{Addr: krpc.NodeAddr{IP: op.node.addr.IP, Port: op.node.addr.Port}})
	case "file":
		for _, n := range op.nodes {
			a.offer(true, n)
		}
		if _, err := a.s.AddNodesFromFile(file); err != nil {
			apiOracle("C05", "nodes-file-not-read:api", "%s %v", a.ctx(), err)
		}
	case "query":
		a.offer(false, op.node)
		if a.query(op.node, fmt.Sprintf("q%d.%d", round, i), false) {
			a.resolve(op.node)
		}
	case "roquery":
		a.query(op.node, fmt.Sprintf("o%d.%d", round, i), true)
	case "resp":
		a.mu.Lock()
		p := a.responders[op.node.addr.String()]
		a.mu.Unlock()
		n := apiNode{id: p.id, addr: op.node.addr}
		a.offer(false, n)
		if res := a.s.Ping(op.node.addr); res.Err == nil {
			a.resolve(n)
		}
	case "read":
		a.readerChecks(i + b2i(op.alt))
		a.readerChecks(i + 2 + b2i(op.alt))
	case "failping":
		a.s.VerifFailQuestionablePing(dht.NewAddr(op.node.addr), op.node.id)
	}
}
