package main

// Engine "flood", case kinds "recover", "recover-faults", "recover-outbound" and "exact": the LOWER
// bound of the send budget. The other flood cases only check that the node never sends more than
// burst + rate x window (C20); C08 also says that a query "always gets one [reply] when send budget
// allows". A node that books budget for datagrams it never sends (a refused reply, a refused or
// blocked outbound query, a wait that was cancelled, a socket write that failed) respects every upper
// bound and is silent long after the configured budget allows replies again.
//
// Shape of a case:
//   1. burst: n inbound queries delivered back to back against a small limiter (n well over the
//      burst), so that most replies are refused; depending on the kind some socket writes fail, and
//      outbound queries are interleaved whose sends are refused (NoWaitFirst), blocked by the IP
//      blocklist, or whose context is already cancelled; after the burst a few outbound queries wait
//      for budget and are cancelled while waiting;
//   2. quiescence: every burst query is resolved (its datagram was handed to the socket, the write
//      failed, or the server logged that it could not reply), all outbound calls have returned;
//   3. probes: single queries from fresh addresses, each injected only when the budget PROVABLY holds
//      at least one token, each resolved before the next one.
//
// The guarantee used in step 3 is computed from observations only, with the real clock:
//   * every token the node takes legitimately ends in a call of WriteTo, whose time stamp (taken inside
//     WriteTo, hence after the limiter call) is recorded, failed writes included; once the node is
//     quiescent no such call is pending, so at the latest recorded call F the bucket held >= 0 tokens
//     and at any later time t it holds >= min(burst, rate x (t - F));
//   * k waits cancelled in flight may legitimately keep up to k tokens booked (x/time/rate restores
//     only what was not re-booked behind a reservation): F is moved to (return of the last call) + (k+1)/rate;
//   * a probe is injected only when rate x (now - F) >= 2, i.e. two tokens' worth of measured quiet
//     time for the one token it needs; the limiter is consulted after that instant, which only adds
//     tokens. No assumption is made on how long goroutines take to be scheduled;
//   * with a limiter of rate 0 (no refill, e.g. a fixed allowance) there is no clock at all: the
//     bucket holds burst - (datagrams handed to the socket successfully) tokens; here a failed write
//     must not cost budget (the code hands the token back), and the probes use the allowance up exactly.
// A probe is a violation when the server says it refused the reply (log record "error replying to
// <addr>"), or when all goroutines of the query are gone without a datagram, or when nothing happened
// for 3 s (and 500 polls of this goroutine).

import (
	"context"
	"fmt"
	"net"
	"os"
	"runtime"
	"sync"
	"syscall"
	"time"

	"github.com/anacrolix/log"
	"github.com/anacrolix/torrent/bencode"
	"golang.org/x/time/rate"

	dht "github.com/anacrolix/dht/v2"
	"github.com/anacrolix/dht/v2/krpc"
)

func floodRecoverCases(tier string) []floodCfg {
	cs := []floodCfg{
		{kind: "recover", wait: false, rate: 50, burst: 2, n: 30, method: "ping"},
		{kind: "recover", wait: false, rate: 100, burst: 5, n: 40, method: "mix"},
		{kind: "recover", wait: true, rate: 40, burst: 1, n: 40, method: "errors"},
		{kind: "recover-faults", wait: false, rate: 50, burst: 3, n: 30, method: "mix"},
		{kind: "recover-outbound", wait: false, rate: 50, burst: 2, n: 24, method: "mix"},
		{kind: "exact", wait: false, rate: 0, burst: 6, n: 16, method: "mix"},
		{kind: "exact", wait: true, rate: 0, burst: 4, n: 12, method: "ping"},
		{kind: "exact", wait: false, rate: 0, burst: 12, n: 8, method: "mix"}, // allowance left over after the burst
	}
	if tier == "thorough" {
		for _, k := range []string{"recover", "recover-faults", "recover-outbound"} {
			for _, w := range []bool{false, true} {
				for _, lim := range [][2]float64{{20, 1}, {50, 3}, {200, 10}, {500, 4}, {250, 25}} {
					for _, m := range []string{"ping", "mix", "errors"} {
						if w && m != "errors" && lim[0] < 50 {
							continue // a waiting burst drains at the limiter's pace
						}
						cs = append(cs, floodCfg{kind: k, wait: w, rate: lim[0], burst: int(lim[1]), n: int(lim[1]) + 40, method: m})
					}
				}
			}
		}
		for _, w := range []bool{false, true} {
			for _, b := range []int{1, 2, 9, 25} {
				for _, m := range []string{"ping", "mix", "errors"} {
					cs = append(cs, floodCfg{kind: "exact", wait: w, rate: 0, burst: b, n: b + 12, method: m})
				}
			}
		}
	}
	return cs
}

type frEvent struct {
	at     time.Time
	to     string
	data   []byte
	failed bool
}

// frConn records every call of WriteTo (time, destination, outcome) and fails the calls listed in failAt
type frConn struct {
	*fakeConn
	fmu    sync.Mutex
	calls  int
	failAt map[int]bool
	events []frEvent
}

func (c *frConn) WriteTo(b []byte, addr net.Addr) (int, error) {
	to := ""
	if addr != nil {
		to = addr.String()
	}
	c.fmu.Lock()
	c.calls++
	k := c.calls
	fail := c.failAt[k]
	c.events = append(c.events, frEvent{time.Now(), to, append([]byte(nil), b...), fail})
	c.fmu.Unlock()
	if fail {
		switch k % 3 {
		case 0:
			return 0, &net.OpError{Op: "write", Net: "udp", Err: os.NewSyscallError("sendto", syscall.ENOBUFS)}
		case 1:
			return 0, &net.OpError{Op: "write", Net: "udp", Err: os.NewSyscallError("sendto", syscall.EPERM)}
		}
		return 0, fmt.Errorf("injected write failure")
	}
	return c.fakeConn.WriteTo(b, addr)
}

func (c *frConn) snapshot() []frEvent {
	c.fmu.Lock()
	defer c.fmu.Unlock()
	return append([]frEvent(nil), c.events...)
}

// frLog collects the destinations of the server's "error replying to <addr>: ..." records: the reply
// goroutine of that query has returned from the send routine with an error
type frLog struct {
	mu      sync.Mutex
	refused map[string]string
}

func (h *frLog) Handle(r log.Record) {
	s := r.Msg.String()
	const p = "error replying to "
	i := indexStr(s, p)
	if i < 0 {
		return
	}
	rest := s[i+len(p):]
	var a, why string
	if len(rest) > 0 && rest[0] == '"' {
		j := indexStr(rest[1:], "\"")
		if j < 0 {
			return
		}
		a, why = rest[1:1+j], rest[1+j+1:]
	} else {
		j := indexStr(rest, ": ")
		if j < 0 {
			return
		}
		a, why = rest[:j], rest[j:]
	}
	if len(why) > 100 {
		why = why[:100]
	}
	h.mu.Lock()
	h.refused[a] = why
	h.mu.Unlock()
}

func (h *frLog) get(a string) (string, bool) {
	h.mu.Lock()
	defer h.mu.Unlock()
	w, ok := h.refused[a]
	return w, ok
}

// waits until the number of goroutines has not changed for 50 ms (at most 1 s)
func frSettleGoroutines() int {
	last, since := runtime.NumGoroutine(), time.Now()
	dl := time.Now().Add(time.Second)
	for time.Now().Before(dl) {
		time.Sleep(2 * time.Millisecond)
		n := runtime.NumGoroutine()
		if n != last {
			last, since = n, time.Now()
		} else if time.Since(since) > 50*time.Millisecond {
			break
		}
	}
	return last
}

type frQuery struct {
	src *net.UDPAddr
	t   string
	q   string
}

func frMsg(r *rng, root [20]byte, q, t string) []byte {
	a := &krpc.MsgArgs{ID: idInBucket(r, root, r.intn(160))}
	copy(a.Target[:], r.bytes(20))
	copy(a.InfoHash[:], r.bytes(20))
	if q == "announce_peer" {
		return bencode.MustMarshal(krpc.Msg{Q: q, Y: "q", T: t}) // no arguments: 203
	}
	return bencode.MustMarshal(krpc.Msg{Q: q, Y: "q", T: t, A: a})
}

func runFloodRecover(seed uint64, idx int, fc floodCfg) {
	r := (&rng{s: seed ^ 0x2ec0fe2}).sub(idx)
	emit("mbegin %d flood %+v => ok", idx, fc)
	out.Flush()
	ctxs := fmt.Sprintf("case=%d %+v", idx, fc)
	frSettleGoroutines() // leftovers of the previous case must not count into this case's baseline
	var root [20]byte
	copy(root[:], r.bytes(20))
	conn := &frConn{fakeConn: newFakeConn(), failAt: map[int]bool{}}
	if fc.kind == "recover-faults" || fc.kind == "exact" {
		for k := 2 + r.intn(3); k > 0; k-- {
			conn.failAt[1+r.intn(fc.burst+1)] = true // among the first calls: certainly reached during the burst
		}
	}
	h := &frLog{refused: map[string]string{}}
	var logger log.Logger
	logger.SetHandlers(h)
	logger = logger.WithFilterLevel(log.Debug)
	lim := rate.NewLimiter(rate.Limit(fc.rate), fc.burst)
	blockedIP := net.IP{198, 18, 7, 7}
	freshAddr := func() *net.UDPAddr {
		for {
			a := randAddr(r, famOf(r))
			if !a.IP.Equal(blockedIP) {
				return a
			}
		}
	}
	s, err := dht.NewServer(&dht.ServerConfig{
		NodeId:        root,
		Conn:          conn,
		NoSecurity:    true,
		WaitToReply:   fc.wait,
		StartingNodes: func() ([]dht.Addr, error) { return nil, nil },
		Logger:        logger,
		SendLimiter:   lim,
		IPBlocklist:   blockOf(blockedIP),
	})
	if err != nil {
		panic(err)
	}
	// goroutine baseline of the idle server (its read loop): the minimum seen over 30 ms
	base := runtime.NumGoroutine()
	for dl := time.Now().Add(30 * time.Millisecond); time.Now().Before(dl); time.Sleep(time.Millisecond) {
		if n := runtime.NumGoroutine(); n < base {
			base = n
		}
	}
	var methods []string
	switch fc.method {
	case "ping":
		methods = []string{"ping"}
	case "errors":
		methods = []string{"zzz", "announce_peer"}
	default:
		methods = []string{"ping", "find_node", "get_peers", "get", "zzz", "announce_peer"}
	}
	outbound := fc.kind == "recover-outbound" || fc.kind == "exact"
	nOut := map[string]int{}
	nOps := r.intn(3)
	outboundOp := func() {
		ctx, cancel := context.WithTimeout(context.Background(), 2*time.Second)
		defer cancel()
		nOps++
		switch nOps % 3 {
		case 0: // a send that does not wait for budget: sent (nobody answers: the call ends with its context) or refused
			sctx, scancel := context.WithTimeout(ctx, 20*time.Millisecond)
			res := s.Query(sctx, dht.NewAddr(freshAddr()), "ping", dht.QueryInput{NumTries: 1, RateLimiting: dht.QueryRateLimiting{NoWaitFirst: true}})
			scancel()
			if res.Writes == 0 {
				nOut["refused"]++
			} else {
				nOut["sent"]++
			}
		case 1: // a destination on the blocklist: never reaches the limiter
			s.Query(ctx, dht.NewAddr(&net.UDPAddr{IP: blockedIP, Port: 1 + r.intn(65535)}), "find_node", dht.QueryInput{NumTries: 1})
			nOut["blocked"]++
		case 2: // a waiting send whose context is over before it starts
			cctx, ccancel := context.WithCancel(ctx)
			ccancel()
			s.Query(cctx, dht.NewAddr(freshAddr()), "ping", dht.QueryInput{NumTries: 1})
			nOut["precancelled"]++
		}
	}
	// ---- 1. the burst
	var qs []frQuery
	injected := true
	for i := 0; i < fc.n && injected; i++ {
		q := frQuery{src: freshAddr(), t: fmt.Sprintf("%c%c%d", 'a'+i%26, 'A'+(i/26)%26, i), q: methods[r.intn(len(methods))]}
		// with WaitToReply every response queues for budget (legitimately): keep most of a waiting
		// burst on the error path, which never waits
		if fc.wait && fc.rate > 0 && fc.method != "ping" && q.q != "zzz" && q.q != "announce_peer" && i%8 != 0 {
			q.q = "zzz"
		}
		injected = conn.inject(frMsg(r, root, q.q, q.t), q.src, 3*time.Second)
		qs = append(qs, q)
		if outbound && r.intn(2) == 0 {
			outboundOp()
		}
	}
	// ---- 2. quiescence
	resolvedAll := func() bool {
		ev := conn.snapshot()
		seen := map[string]bool{}
		for _, e := range ev {
			seen[e.to] = true
		}
		for _, q := range qs {
			if seen[q.src.String()] {
				continue
			}
			if _, ok := h.get(q.src.String()); !ok {
				return false
			}
		}
		return true
	}
	quiet := false
	{
		limit := 5 * time.Second
		if fc.rate > 0 {
			limit += time.Duration(float64(fc.n) / fc.rate * float64(time.Second))
		}
		t0 := time.Now()
		var idleSince time.Time
		for injected && time.Since(t0) < limit {
			if resolvedAll() {
				quiet = true
				break
			}
			if runtime.NumGoroutine() <= base {
				if idleSince.IsZero() {
					idleSince = time.Now()
				} else if time.Since(idleSince) > 200*time.Millisecond && time.Since(t0) > 300*time.Millisecond {
					quiet = true
					break
				}
			} else {
				idleSince = time.Time{}
			}
			time.Sleep(time.Millisecond)
		}
	}
	// waits for budget cancelled in flight (timed limiters): k calls, joined
	var floor time.Time
	cancelled := 0
	if quiet && fc.kind == "recover-outbound" && fc.rate > 0 {
		cancelled = 3
		ctx, cancel := context.WithCancel(context.Background())
		var wg sync.WaitGroup
		for j := 0; j < cancelled; j++ {
			dst := dht.NewAddr(freshAddr())
			wg.Add(1)
			go func() {
				defer wg.Done()
				s.Query(ctx, dst, "ping", dht.QueryInput{NumTries: 1})
			}()
		}
		time.Sleep(time.Duration(3+r.intn(8)) * time.Millisecond)
		cancel()
		wg.Wait()
		floor = time.Now().Add(time.Duration(float64(cancelled+1) / fc.rate * float64(time.Second)))
	}
	burstEv := conn.snapshot()
	bw, bf := 0, 0
	for _, e := range burstEv {
		if e.failed {
			bf++
		} else {
			bw++
		}
	}
	brefused := 0
	for _, q := range qs {
		if _, ok := h.get(q.src.String()); ok {
			brefused++
		}
	}
	// ---- 3. probes
	probes, answered := 0, 0
	verdict := "-"
	if !quiet {
		verdict = "inconclusive:burst-not-quiescent"
	} else {
		nprobe := 4
		if fc.rate == 0 {
			nprobe = fc.burst + 1
		}
		pm := []string{"ping", "find_node", "get_peers", "get", "zzz", "announce_peer"}
		off := r.intn(len(pm))
		over := false
		for i := 0; i < nprobe && !over; i++ {
			ev := conn.snapshot()
			succ := 0
			for _, e := range ev {
				if !e.failed {
					succ++
				}
				if e.at.After(floor) {
					floor = e.at
				}
			}
			var have float64
			if fc.rate == 0 {
				have = float64(fc.burst - succ)
				over = have < 1 // the allowance is used up: one more query, which must NOT be answered (C20)
			} else {
				// two tokens' worth of measured quiet time for the one token the probe needs
				for {
					have = fc.rate * time.Since(floor).Seconds()
					if have >= 2 {
						break
					}
					time.Sleep(time.Duration((2.05-have)/fc.rate*float64(time.Second)) + 100*time.Microsecond)
				}
				if have > float64(fc.burst) {
					have = float64(fc.burst)
				}
			}
			q := frQuery{src: freshAddr(), t: fmt.Sprintf("p%d", i), q: pm[(off+i)%len(pm)]}
			if fc.wait && i == 0 {
				q.q = "zzz" // errors never wait: a booked-out bucket shows at once, not as a late reply
			}
			if _, dup := h.get(q.src.String()); dup {
				continue
			}
			probes++
			t0 := time.Now()
			if !conn.inject(frMsg(r, root, q.q, q.t), q.src, 3*time.Second) {
				verdict = "inconclusive:probe-not-read"
				break
			}
			outcome, why := "", ""
			var idleSince time.Time
			for iters := 0; outcome == ""; iters++ {
				for _, e := range conn.snapshot()[len(ev):] {
					if e.to != q.src.String() {
						continue
					}
					if e.failed {
						outcome = "write-failed"
					} else if m, ok := decodeLikeServer(e.data); !ok || m.T != q.t {
						outcome = "answered"
						oracle("C08", "reply-does-not-echo-transaction-id:flood-recover", "%s probe=%d method=%s to=%s", ctxs, i, q.q, e.to)
					} else {
						outcome = "answered"
					}
					break
				}
				if outcome != "" {
					break
				}
				if w, ok := h.get(q.src.String()); ok {
					outcome, why = "refused", w
					break
				}
				if runtime.NumGoroutine() <= base {
					if idleSince.IsZero() {
						idleSince = time.Now()
					} else if time.Since(idleSince) > 200*time.Millisecond && time.Since(t0) > 300*time.Millisecond {
						outcome = "vanished"
						break
					}
				} else {
					idleSince = time.Time{}
				}
				if time.Since(t0) > 3*time.Second && iters > 500 {
					outcome = "silent-for-3s"
					break
				}
				time.Sleep(time.Millisecond)
			}
			if over {
				probes--
				if outcome == "answered" {
					oracle("C20", "datagram-beyond-the-allowance-of-a-zero-rate-limiter", "%s method=%s written=%d allowance=%d", ctxs, q.q, succ+1, fc.burst)
				}
				break
			}
			switch outcome {
			case "answered":
				answered++
			case "write-failed":
				// the socket refused the datagram: nothing can be demanded of this probe
			default:
				verdict = outcome
				oracle("C08", "query-not-answered-although-send-budget-allows:"+fc.kind+":"+outcome,
					"%s probe=%d method=%s guaranteed-tokens>=%d burst-phase: queries=%d written=%d write-errors=%d refused=%d outbound=%v cancelled-waits=%d; log=%q",
					ctxs, i, q.q, int(have), len(qs), bw, bf, brefused, fmt.Sprint(nOut), cancelled, why)
			}
			if outcome != "answered" && outcome != "write-failed" {
				break
			}
		}
	}
	// no query, burst or probe, was answered twice
	time.Sleep(20 * time.Millisecond)
	per := map[string]int{}
	for _, e := range conn.snapshot() {
		if m, ok := decodeLikeServer(e.data); ok && !e.failed && m.Y != "q" {
			per[e.to+" "+m.T]++
		}
	}
	for k, n := range per {
		if n > 1 {
			oracle("C08", "more-than-one-datagram-for-a-query:flood-recover", "%s %s n=%d", ctxs, k, n)
			break
		}
	}
	s.Close()
	conn.Close()
	for dl := time.Now().Add(3 * time.Second); runtime.NumGoroutine() >= base && time.Now().Before(dl); {
		time.Sleep(2 * time.Millisecond)
	}
	emit("# flood-recover %d %+v burst: written=%d write-errors=%d refused=%d outbound=%v cancelled-waits=%d probes=%d answered=%d verdict=%s",
		idx, fc, bw, bf, brefused, fmt.Sprint(nOut), cancelled, probes, answered, verdict)
	emit("mend %d => ok", idx)
}
