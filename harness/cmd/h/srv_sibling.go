package main

// Oracle-only part of the server engine (C10): sibling nodes. An application that runs several nodes
// builds them from one ServerConfig value, changing the socket (and perhaps the id) between the
// NewServer calls. Each node must still have its own token secret: a token handed out by one node
// is "a token issued by another node" for its sibling and opens nothing there.

import (
	"fmt"
	"net"
	"time"

	"github.com/anacrolix/log"
	"github.com/anacrolix/torrent/bencode"
	"golang.org/x/time/rate"

	dht "github.com/anacrolix/dht/v2"
	"github.com/anacrolix/dht/v2/krpc"
)

func siblingAwait(c *fakeConn, t string, d time.Duration) *krpc.Msg {
	deadline := time.Now().Add(d)
	for time.Now().Before(deadline) {
		for _, w := range c.takeWrites() {
			if m, ok := decodeLikeServer(w.data); ok && m.T == t {
				return m
			}
		}
		time.Sleep(200 * time.Microsecond)
	}
	return nil
}

func siblingServersCase(seed uint64, n int) {
	siblingTokenCase(seed, n)
	// the caller's ServerConfig value changed after NewServer returned, with and without a sibling built
	// from it (srv_cfgreuse.go)
	configReuseCases(seed, n)
}

func siblingTokenCase(seed uint64, n int) {
	r := (&rng{s: seed ^ 0x51b1}).sub(n)
	ps := &recPeerStore{}
	cfg := &dht.ServerConfig{
		NoSecurity:    true,
		PeerStore:     ps,
		StartingNodes: func() ([]dht.Addr, error) { return nil, nil },
		Logger:        log.NewLogger().FilterLevel(log.Critical),
		SendLimiter:   rate.NewLimiter(rate.Inf, 1),
	}
	if n%2 == 1 {
		cfg = dht.NewDefaultServerConfig()
		cfg.PeerStore = ps
		cfg.StartingNodes = func() ([]dht.Addr, error) { return nil, nil }
		cfg.Logger = log.NewLogger().FilterLevel(log.Critical)
		cfg.SendLimiter = rate.NewLimiter(rate.Inf, 1)
	}
	var conns []*fakeConn
	var srvs []*dht.Server
	for i := 0; i < 2+n%2; i++ {
		fc := newFakeConn()
		fc.local = &net.UDPAddr{IP: net.IPv4(127, 0, 0, 1), Port: 4300 + i}
		cfg.Conn = fc
		if n%3 != 0 {
			cfg.NodeId = krpc.ID{} // let every sibling pick its own id
		}
		s, err := dht.NewServer(cfg)
		if err != nil {
			emit("# sibling servers: NewServer: %v", err)
			return
		}
		conns = append(conns, fc)
		srvs = append(srvs, s)
	}
	defer func() {
		for i := range srvs {
			srvs[i].Close()
			conns[i].Close()
		}
	}()
	for i := range srvs {
		for j := 0; j < i; j++ {
			if a, b := srvs[i].VerifTokenSecret(), srvs[j].VerifTokenSecret(); string(a) == string(b) {
				oracle("C10", "token-secret-not-unique-per-server:one-config-value", "siblings %d and %d built from one *ServerConfig share the secret %x", j, i, a)
			}
		}
	}
	// behaviour: a token of sibling 0 used at sibling 1 from the same address
	src := randAddr(r, n%2)
	var id, ih [20]byte
	copy(id[:], r.bytes(20))
	copy(ih[:], r.bytes(20))
	gp := bencode.MustMarshal(krpc.Msg{Q: "get_peers", Y: "q", T: "sg", A: &krpc.MsgArgs{ID: id, InfoHash: ih}})
	if !conns[0].inject(gp, src, 3*time.Second) {
		return
	}
	m := siblingAwait(conns[0], "sg", 3*time.Second)
	if m == nil || m.R == nil || m.R.Token == nil {
		return
	}
	port := 7000 + n
	an := bencode.MustMarshal(krpc.Msg{Q: "announce_peer", Y: "q", T: "sa", A: &krpc.MsgArgs{ID: id, InfoHash: ih, Token: *m.R.Token, Port: &port}})
	conns[1].takeWrites()
	if !conns[1].inject(an, src, 3*time.Second) {
		return
	}
	// a fence: a ping processed after the announce; everything the announce caused has been written by then
	pg := bencode.MustMarshal(krpc.Msg{Q: "ping", Y: "q", T: "sp", A: &krpc.MsgArgs{ID: id}})
	conns[1].inject(pg, randAddr(r, 0), 3*time.Second)
	answered := false
	deadline := time.Now().Add(300 * time.Millisecond)
	for time.Now().Before(deadline) && !answered {
		for _, w := range conns[1].takeWrites() {
			if mm, ok := decodeLikeServer(w.data); ok && mm.T == "sa" && mm.Y == "r" {
				answered = true
			}
		}
		time.Sleep(time.Millisecond)
	}
	ps.mu.Lock()
	stored := len(ps.adds)
	ps.mu.Unlock()
	if answered || stored > 0 {
		oracle("C10", "write-accepted-with-bad-token:issued-by-a-sibling-node", "announce_peer from %s with the token node 0 gave that address was accepted by node 1 (reply=%v stored=%d); both nodes were built from one *ServerConfig", src, answered, stored)
	}
	emit("# sibling servers case %d: %d nodes, token of node 0 at node 1: reply=%v stored=%d", n, len(srvs), answered, stored)
	_ = fmt.Sprint
}
