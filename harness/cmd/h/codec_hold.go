package main

// Engine "codec", second part (C15): the exported encoders as a caller other than bencode.Marshal(krpc.Msg) uses them.
//
//  (d) forms: every compact list type, NodeAddr, ID, Error and the BEP 33 bloom filter handed to the bencode encoder in
//      every way Go allows: by value, by pointer, pointer to pointer, as a struct field by value / by pointer / typed
//      interface{}, inside []interface{}, map[string]interface{}, map[string]T, map[string]*T and []T.  Whatever
//      the way, the value must come out as the one piece its own MarshalBencode gives (`mbf <form> <type> <dump>` lines:
//      the piece found inside the container, recomputed by the model), the container must decode back to the value and
//      re-encode to the identical bytes, and krpc.Msg must carry the same piece under the field that holds the value.
//      A decoded value must not change when the caller reuses the buffer it was decoded from.
//  (e) held results: the result of every exported MarshalBinary / MarshalBencode is KEPT (not copied) while further values
//      are encoded: by the same goroutine, and by several goroutines that all hold their results across a barrier.  Only
//      then are the kept results printed (`mb` / `mbc` lines, recomputed by the model), compared with the copy taken when
//      the call returned, decoded back, and concatenated into a hand-assembled response that must equal what
//      bencode.Marshal gives for the krpc.Msg holding the same lists.

import (
	"bytes"
	"fmt"
	"runtime"
	"strings"
	"sync"

	"github.com/anacrolix/torrent/bencode"

	"github.com/anacrolix/dht/v2/krpc"
)

type cxSV[T any] struct {
	F T `bencode:"f"`
}
type cxSP[T any] struct {
	F *T `bencode:"f"`
}
type cxSI struct {
	F interface{} `bencode:"f"`
}

// one way of handing a value to the encoder
type cxForm struct {
	name     string
	pre, suf string // what the container adds around the piece(s)
	reps     int    // how many times the piece appears
	enc      func() ([]byte, error)
	// decodes b into a fresh container of the same shape; dumps of the values found in it (nil when the container
	// holds them as plain bencode values), the container encoded again, and the dumps read again after b was overwritten
	dec func(b []byte) (class string, dumps []string, re []byte, reErr error, after []string)
}

// one generated value of one of the krpc types with their own wire form
type cxVal struct {
	name, goName string
	dump         string // as the model reads it (a nil list is "L")
	wf           bool   // decoding the encoding must give the value back
	bin, benc    func() ([]byte, error)
	forms        []cxForm
}

func cxSafeUnmarshalInto(b []byte, p interface{}) (class string) {
	defer func() {
		if r := recover(); r != nil {
			class = "panic"
		}
	}()
	if err := bencode.Unmarshal(b, p); err != nil {
		return "err"
	}
	return "ok"
}

func cxScribble(b []byte) {
	for i := range b {
		b[i] ^= 0x5a
	}
}

func cxFormsOf[T any](v T, dump func(T) string) []cxForm {
	pv := &v
	m := func(x interface{}) func() ([]byte, error) {
		return func() ([]byte, error) { return cxSafeMarshal(x) }
	}
	type decT = func(b []byte) (string, []string, []byte, error, []string)
	// decode into a container built by mk; get reads the values out of it
	decInto := func(mk func() interface{}, get func(c interface{}) []string, reenc func(c interface{}) interface{}) decT {
		return func(b []byte) (string, []string, []byte, error, []string) {
			in := append([]byte{}, b...)
			c := mk()
			class := cxSafeUnmarshalInto(in, c)
			if class != "ok" {
				return class, nil, nil, nil, nil
			}
			dumps := get(c)
			re, err := cxSafeMarshal(reenc(c))
			cxScribble(in)
			return class, dumps, re, err, get(c)
		}
	}
	same := func(c interface{}) interface{} { return c }
	decAny := decInto(func() interface{} { return new(interface{}) }, func(interface{}) []string { return nil },
		func(c interface{}) interface{} { return *(c.(*interface{})) })
	deref := func(p *T) string {
		if p == nil {
			return "nil-pointer"
		}
		return dump(*p)
	}
	return []cxForm{
		{"value", "", "", 1, m(v),
			decInto(func() interface{} { return new(T) }, func(c interface{}) []string { return []string{dump(*(c.(*T)))} },
				func(c interface{}) interface{} { return *(c.(*T)) })},
		{"pointer", "", "", 1, m(pv),
			decInto(func() interface{} { return new(T) }, func(c interface{}) []string { return []string{dump(*(c.(*T)))} }, same)},
		{"pointer-to-pointer", "", "", 1, m(&pv),
			decInto(func() interface{} { return new(*T) }, func(c interface{}) []string { return []string{deref(*(c.(**T)))} }, same)},
		{"field", "d1:f", "e", 1, m(cxSV[T]{v}),
			decInto(func() interface{} { return new(cxSV[T]) }, func(c interface{}) []string { return []string{dump(c.(*cxSV[T]).F)} },
				func(c interface{}) interface{} { return *(c.(*cxSV[T])) })},
		{"field-of-pointed-struct", "d1:f", "e", 1, m(&cxSV[T]{v}),
			decInto(func() interface{} { return new(cxSV[T]) }, func(c interface{}) []string { return []string{dump(c.(*cxSV[T]).F)} }, same)},
		{"pointer-field", "d1:f", "e", 1, m(cxSP[T]{pv}),
			decInto(func() interface{} { return new(cxSP[T]) }, func(c interface{}) []string { return []string{deref(c.(*cxSP[T]).F)} },
				func(c interface{}) interface{} { return *(c.(*cxSP[T])) })},
		{"interface-field", "d1:f", "e", 1, m(cxSI{v}), decAny},
		{"interface-field-pointer", "d1:f", "e", 1, m(cxSI{pv}), decAny},
		{"interface-list", "l", "e", 1, m([]interface{}{v}), decAny},
		{"interface-map", "d1:f", "e", 1, m(map[string]interface{}{"f": v}), decAny},
		{"map", "d1:f", "e", 1, m(map[string]T{"f": v}),
			decInto(func() interface{} { return new(map[string]T) }, func(c interface{}) []string {
				mm := *(c.(*map[string]T))
				x, ok := mm["f"]
				if !ok || len(mm) != 1 {
					return []string{fmt.Sprintf("map-of-%d", len(mm))}
				}
				return []string{dump(x)}
			}, func(c interface{}) interface{} { return *(c.(*map[string]T)) })},
		{"pointer-map", "d1:f", "e", 1, m(map[string]*T{"f": pv}),
			decInto(func() interface{} { return new(map[string]*T) }, func(c interface{}) []string {
				mm := *(c.(*map[string]*T))
				if len(mm) != 1 {
					return []string{fmt.Sprintf("map-of-%d", len(mm))}
				}
				return []string{deref(mm["f"])}
			}, func(c interface{}) interface{} { return *(c.(*map[string]*T)) })},
		{"list", "l", "e", 2, m([]T{v, v}),
			decInto(func() interface{} { return new([]T) }, func(c interface{}) []string {
				d := []string{}
				for _, x := range *(c.(*[]T)) {
					d = append(d, dump(x))
				}
				return d
			}, func(c interface{}) interface{} { return *(c.(*[]T)) })},
		// no [1]T: the bencode encoder itself refuses every Go array whose elements are not bytes (reflect IsNil on an array)
	}
}

func cxMkVal[T any](name string, v T, dump func(T) string, wf bool, bin, benc func() ([]byte, error)) cxVal {
	return cxVal{name: name, goName: cxGoFuncName[name], dump: dump(v), wf: wf, bin: bin, benc: benc, forms: cxFormsOf(v, dump)}
}

func cxDumpAddrsL(l []krpc.NodeAddr) string {
	if len(l) == 0 {
		return "L"
	}
	return cxDumpAddrs(l)
}

func cxDumpInfosL(l []krpc.NodeInfo) string {
	if len(l) == 0 {
		return "L"
	}
	return cxDumpInfos(l)
}

func cxDumpErr(e krpc.Error) string { return fmt.Sprintf("%d:%s", e.Code, hx([]byte(e.Msg))) }

// a batch of values, one or more of every type.  fam: 4 / 6 (every contact of the family its list wants: well-formed)
// or 0 (anything: the encoders may refuse or panic, which every form must then do alike)
type cxBatch struct {
	vals                   []cxVal
	addrs4, addrs6, values []krpc.NodeAddr
	infos4, infos6         []krpc.NodeInfo
	hashes                 krpc.CompactInfohashes
	addr                   krpc.NodeAddr
	id                     krpc.ID
	e                      krpc.Error
	bf                     krpc.ScrapeBloomFilter
}

func cxGenBatch(r *rng, wf bool, maxLen int) *cxBatch {
	b := &cxBatch{}
	n := r.intn(maxLen + 1)
	genAddr := func(fam int) krpc.NodeAddr {
		if !wf {
			return cxGenAddrFam(r, 0)
		}
		return cxGenAddrFam(r, fam)
	}
	if r.intn(5) != 0 {
		b.addrs4, b.addrs6, b.infos4, b.infos6, b.hashes = []krpc.NodeAddr{}, []krpc.NodeAddr{}, []krpc.NodeInfo{}, []krpc.NodeInfo{}, krpc.CompactInfohashes{}
	}
	for j := 0; j < n; j++ {
		a4, a6 := genAddr(4), genAddr(6)
		b.addrs4 = append(b.addrs4, a4)
		b.addrs6 = append(b.addrs6, a6)
		b.infos4 = append(b.infos4, krpc.NodeInfo{ID: cxGenID(r), Addr: genAddr(4)})
		b.infos6 = append(b.infos6, krpc.NodeInfo{ID: cxGenID(r), Addr: genAddr(6)})
		b.hashes = append(b.hashes, cxGenID(r))
	}
	for j, k := 0, 1+r.intn(3); j < k; j++ {
		b.values = append(b.values, genAddr([]int{4, 6}[r.intn(2)]))
	}
	b.addr = b.values[0]
	b.id = cxGenID(r)
	b.e = krpc.Error{Code: []int{0, 201, 203, -1, 1<<63 - 1, -1 << 63, r.intn(1000)}[r.intn(7)], Msg: string(r.bytes(r.intn(12)))}
	if r.bool() {
		copy(b.bf[:], r.bytes(256))
	}
	a4, a6 := krpc.CompactIPv4NodeAddrs(b.addrs4), krpc.CompactIPv6NodeAddrs(b.addrs6)
	i4, i6 := krpc.CompactIPv4NodeInfo(b.infos4), krpc.CompactIPv6NodeInfo(b.infos6)
	b.vals = []cxVal{
		cxMkVal("addrs4", a4, func(l krpc.CompactIPv4NodeAddrs) string { return cxDumpAddrsL(l) }, wf, a4.MarshalBinary, a4.MarshalBencode),
		cxMkVal("addrs6", a6, func(l krpc.CompactIPv6NodeAddrs) string { return cxDumpAddrsL(l) }, wf, a6.MarshalBinary, a6.MarshalBencode),
		cxMkVal("infos4", i4, func(l krpc.CompactIPv4NodeInfo) string { return cxDumpInfosL(l) }, wf, i4.MarshalBinary, i4.MarshalBencode),
		cxMkVal("infos6", i6, func(l krpc.CompactIPv6NodeInfo) string { return cxDumpInfosL(l) }, wf, i6.MarshalBinary, i6.MarshalBencode),
		cxMkVal("hashes", b.hashes, func(l krpc.CompactInfohashes) string { return cxDumpHashes(l) }, true, b.hashes.MarshalBinary, b.hashes.MarshalBencode),
		cxMkVal("id", b.id, func(x krpc.ID) string { return hx(x[:]) }, true, nil, b.id.MarshalBencode),
		cxMkVal("error", b.e, cxDumpErr, true, nil, b.e.MarshalBencode),
		cxMkVal("bloom", b.bf, func(x krpc.ScrapeBloomFilter) string { return hx(x[:]) }, true, nil, nil),
	}
	for _, a := range b.values {
		b.vals = append(b.vals, cxMkVal("nodeaddr", a, cxDumpAddr, wf, a.MarshalBinary, a.MarshalBencode))
	}
	if len(b.infos4) > 0 {
		ni := b.infos4[0]
		v := cxVal{name: "nodeinfo", goName: "NodeInfo", dump: cxDumpInfo(ni), wf: wf, bin: ni.MarshalBinary}
		b.vals = append(b.vals, v)
	}
	return b
}

func init() { cxGoFuncName["bloom"] = "ScrapeBloomFilter" }

// ---------------------------------------------------------------- (d) forms
// the piece(s) inside a container's encoding: "ok <hex of the piece>" when the wrapper is what the form adds and every
// repetition is the same piece; otherwise the whole encoding, which no model line will agree with
func cxFormPiece(f cxForm, out []byte, err error) (class string, piece []byte) {
	if err != nil {
		return cxEncClass(out, err), nil
	}
	s := string(out)
	if !strings.HasPrefix(s, f.pre) || !strings.HasSuffix(s, f.suf) || len(s) < len(f.pre)+len(f.suf) {
		return "ok whole:" + hx(out), nil
	}
	body := s[len(f.pre) : len(s)-len(f.suf)]
	if len(body)%f.reps != 0 {
		return "ok whole:" + hx(out), nil
	}
	p := body[:len(body)/f.reps]
	if strings.Repeat(p, f.reps) != body {
		return "ok whole:" + hx(out), nil
	}
	return "ok " + hx([]byte(p)), []byte(p)
}

func cxRunForms(v cxVal) {
	if v.forms == nil {
		return
	}
	// the reference: the type's own MarshalBencode, called directly (the bloom filter has none: a string of its bytes)
	var ref string
	if v.benc != nil {
		b, err := cxContainBytes(v.benc)
		ref = cxEncClass(b, err)
	}
	for _, f := range v.forms {
		out, err := f.enc()
		class, piece := cxFormPiece(f, out, err)
		emit("mbf %s %s %s => %s", f.name, v.name, v.dump, class)
		if v.benc != nil && class != ref {
			cxOracle("form-differs "+v.goName+" "+f.name, fmt.Sprintf("value=%s %s.MarshalBencode()=%s bencode.Marshal(%s)=%s", v.dump, v.goName, ref, f.name, cxEncClass(out, err)))
		}
		if piece == nil {
			continue
		}
		// back through a container of the same shape
		dclass, dumps, re, reErr, after := f.dec(out)
		if dclass == "panic" {
			cxOracle("decoder-panic "+v.goName+" "+f.name, fmt.Sprintf("input=%s", hx(out)))
			continue
		}
		if dclass != "ok" {
			cxOracle("form-not-decodable "+v.goName+" "+f.name, fmt.Sprintf("value=%s encoded=%s", v.dump, hx(out)))
			continue
		}
		if reErr != nil || !bytes.Equal(re, out) {
			cxOracle("form-reencode-differs "+v.goName+" "+f.name, fmt.Sprintf("value=%s encoded=%s reencoded=%s", v.dump, hx(out), cxEncClass(re, reErr)))
		}
		if dumps != nil {
			if v.wf {
				bad := len(dumps) != f.reps
				for _, d := range dumps {
					bad = bad || d != v.dump
				}
				if bad {
					cxOracle("form-roundtrip-mismatch "+v.goName+" "+f.name, fmt.Sprintf("value=%s encoded=%s decoded=%s", v.dump, hx(out), strings.Join(dumps, " ")))
				}
			}
			if strings.Join(dumps, " ") != strings.Join(after, " ") {
				cxOracle("decoded-value-aliases-input "+v.goName+" "+f.name, fmt.Sprintf("input=%s decoded=%s after-overwriting-the-input=%s", hx(out), strings.Join(dumps, " "), strings.Join(after, " ")))
			}
		}
	}
}

const cxZeroId = "20:\x00\x00\x00\x00\x00\x00\x00\x00\x00\x00\x00\x00\x00\x00\x00\x00\x00\x00\x00\x00"

// the messages that hold the batch's values, with the encoding assembled by hand from the pieces the values' own encoders give
func cxBatchMsgs(b *cxBatch, piece func(name string, i int) ([]byte, bool)) (msgs []krpc.Msg, keys []string, want [][]byte) {
	add := func(key string, m krpc.Msg, parts ...interface{}) {
		var w []byte
		for _, p := range parts {
			switch x := p.(type) {
			case string:
				w = append(w, x...)
			case []byte:
				w = append(w, x...)
			}
		}
		msgs, keys, want = append(msgs, m), append(keys, key), append(want, w)
	}
	if p, ok := piece("infos4", 0); ok && len(b.infos4) > 0 {
		add("r.nodes", krpc.Msg{T: "aa", Y: "r", R: &krpc.Return{Nodes: b.infos4}}, "d1:rd2:id"+cxZeroId+"5:nodes", p, "e1:t2:aa1:y1:re")
	}
	if p, ok := piece("infos6", 0); ok && len(b.infos6) > 0 {
		add("r.nodes6", krpc.Msg{T: "aa", Y: "r", R: &krpc.Return{Nodes6: b.infos6}}, "d1:rd2:id"+cxZeroId+"6:nodes6", p, "e1:t2:aa1:y1:re")
	}
	if p, ok := piece("hashes", 0); ok {
		h := b.hashes
		add("r.samples", krpc.Msg{T: "aa", Y: "r", R: &krpc.Return{Bep51Return: krpc.Bep51Return{Samples: &h}}}, "d1:rd2:id"+cxZeroId+"7:samples", p, "e1:t2:aa1:y1:re")
	}
	if p, ok := piece("id", 0); ok {
		add("r.id", krpc.Msg{T: "aa", Y: "r", R: &krpc.Return{ID: b.id}}, "d1:rd2:id", p, "e1:t2:aa1:y1:re")
	}
	if p, ok := piece("error", 0); ok {
		e := b.e
		add("e", krpc.Msg{T: "aa", Y: "e", E: &e}, "d1:e", p, "1:t2:aa1:y1:ee")
	}
	if p, ok := piece("bloom", 0); ok {
		bf := b.bf
		add("r.BFsd", krpc.Msg{T: "aa", Y: "r", R: &krpc.Return{BFsd: &bf}}, "d1:rd4:BFsd", p, "2:id"+cxZeroId+"e1:t2:aa1:y1:re")
	}
	var vals []byte
	all := true
	for i := range b.values {
		p, ok := piece("nodeaddr", i)
		all = all && ok
		vals = append(vals, p...)
	}
	if all {
		add("r.values", krpc.Msg{T: "aa", Y: "r", R: &krpc.Return{Values: b.values}}, "d1:rd2:id"+cxZeroId+"6:valuesl", vals, "ee1:t2:aa1:y1:re")
		if p, _ := piece("nodeaddr", 0); len(b.addr.IP) > 0 {
			add("ip", krpc.Msg{T: "aa", Y: "r", IP: b.addr}, "d2:ip", p, "1:t2:aa1:y1:re")
		}
	}
	// everything at once
	p4, ok4 := piece("infos4", 0)
	p6, ok6 := piece("infos6", 0)
	ph, okh := piece("hashes", 0)
	pid, okid := piece("id", 0)
	if ok4 && ok6 && okh && okid && all && len(b.infos4) > 0 {
		h := b.hashes
		add("r.all", krpc.Msg{T: "aa", Y: "r", R: &krpc.Return{ID: b.id, Nodes: b.infos4, Nodes6: b.infos6, Values: b.values, Bep51Return: krpc.Bep51Return{Samples: &h}}},
			"d1:rd2:id", pid, "5:nodes", p4, "6:nodes6", p6, "7:samples", ph, "6:valuesl", vals, "ee1:t2:aa1:y1:re")
	}
	return
}

func codecForms(r *rng, rounds int) {
	for i := 0; i < rounds; i++ {
		wf := i%4 != 3
		b := cxGenBatch(r.sub(i), wf, 3)
		pieces := map[string][]byte{}
		for j, v := range b.vals {
			cxRunForms(v)
			if v.name == "nodeaddr" {
				j -= 8
			} else {
				j = 0
			}
			if v.benc != nil {
				if p, err := cxContainBytes(v.benc); err == nil {
					pieces[fmt.Sprintf("%s/%d", v.name, j)] = append([]byte{}, p...)
				}
			} else if v.name == "bloom" {
				pieces["bloom/0"] = cxBenStr(b.bf[:])
			}
		}
		if !wf {
			continue
		}
		msgs, keys, want := cxBatchMsgs(b, func(name string, i int) ([]byte, bool) {
			p, ok := pieces[fmt.Sprintf("%s/%d", name, i)]
			return p, ok
		})
		for k := range msgs {
			got, err := cxSafeMarshal(msgs[k])
			if err != nil || !bytes.Equal(got, want[k]) {
				cxOracle("msg-path-differs "+keys[k], fmt.Sprintf("message=%s bencode.Marshal=%s assembled-from-MarshalBencode-pieces=%s", cxDumpMsg(&msgs[k]), cxEncClass(got, err), hx(want[k])))
			}
			cxRunEnc(&msgs[k], true, "forms:"+keys[k])
		}
	}
}

// ---------------------------------------------------------------- (e) held results
type cxHeld struct {
	v            *cxVal
	op           string // "mb" / "mbc"
	meth         string
	res          []byte // the slice the encoder returned, kept
	err          error
	snap         []byte // copy taken when the call returned
	batch, index int
}

func cxHoldAll(b *cxBatch, batch int, yield func()) []*cxHeld {
	var hs []*cxHeld
	for i := range b.vals {
		v := &b.vals[i]
		for _, c := range []struct {
			op, meth string
			f        func() ([]byte, error)
		}{{"mb", "MarshalBinary", v.bin}, {"mbc", "MarshalBencode", v.benc}} {
			if c.f == nil {
				continue
			}
			res, err := cxContainBytes(c.f)
			hs = append(hs, &cxHeld{v: v, op: c.op, meth: c.meth, res: res, err: err, snap: append([]byte{}, res...), batch: batch, index: i})
			if yield != nil {
				yield()
			}
		}
	}
	return hs
}

// after everything else was encoded: print what is held, compare it with the copy, decode it
func cxReportHeld(hs []*cxHeld, how string) {
	for _, h := range hs {
		emit("%s %s %s => %s", h.op, h.v.name, h.v.dump, cxEncClass(h.res, h.err))
		if h.err != nil {
			continue
		}
		if !bytes.Equal(h.res, h.snap) {
			cxOracle("held-result-changed "+h.v.goName+"."+h.meth+" "+how, fmt.Sprintf("value=%s returned=%s after-further-encodes=%s", h.v.dump, hx(h.snap), hx(h.res)))
		}
	}
}

func cxPieceOf(hs []*cxHeld, b *cxBatch) func(name string, i int) ([]byte, bool) {
	return func(name string, i int) ([]byte, bool) {
		if name == "bloom" {
			return cxBenStr(b.bf[:]), true
		}
		n := 0
		for _, h := range hs {
			if h.v.name == name && h.op == "mbc" {
				if n == i {
					return h.res, h.err == nil
				}
				n++
			}
		}
		return nil, false
	}
}

func cxCheckAssembled(hs []*cxHeld, b *cxBatch, how string) {
	msgs, keys, assembled := cxBatchMsgs(b, cxPieceOf(hs, b))
	for k := range msgs {
		got, err := cxSafeMarshal(msgs[k])
		if err != nil || !bytes.Equal(got, assembled[k]) {
			cxOracle("hand-assembled-differs "+keys[k]+" "+how, fmt.Sprintf("message=%s bencode.Marshal=%s assembled-from-held-MarshalBencode-results=%s", cxDumpMsg(&msgs[k]), cxEncClass(got, err), hx(assembled[k])))
			continue
		}
		m2, class := cxSafeUnmarshalMsg(assembled[k])
		if class != "ok" || cxDumpMsg(&m2) != cxDumpMsg(&msgs[k]) {
			cxOracle("hand-assembled-roundtrip "+keys[k]+" "+how, fmt.Sprintf("message=%s assembled=%s decoded-class=%s decoded=%s", cxDumpMsg(&msgs[k]), hx(assembled[k]), class, cxDumpMsg(&m2)))
		}
	}
}

func codecHeldSequential(r *rng, rounds int) {
	for i := 0; i < rounds; i++ {
		wf := i%4 != 3
		// two batches: everything of the first is held while the second, and whole messages, are encoded
		b1, b2 := cxGenBatch(r.sub(2*i), wf, 3), cxGenBatch(r.sub(2*i+1), true, 3)
		h1 := cxHoldAll(b1, 0, nil)
		h2 := cxHoldAll(b2, 1, nil)
		ms, _, _ := cxBatchMsgs(b2, func(string, int) ([]byte, bool) { return nil, true })
		for k := range ms {
			cxSafeMarshal(ms[k])
		}
		cxReportHeld(h1, "sequential")
		cxReportHeld(h2, "sequential")
		if wf {
			cxCheckAssembled(h1, b1, "sequential")
		}
		cxCheckAssembled(h2, b2, "sequential")
	}
}

// G goroutines encode their own batches at once; every one keeps all its results until all have finished encoding
func codecHeldConcurrent(r *rng, rounds, G int) {
	for i := 0; i < rounds; i++ {
		batches := make([]*cxBatch, G)
		msgs := make([][]krpc.Msg, G)
		wantMsg := make([][][]byte, G)
		for g := range batches {
			batches[g] = cxGenBatch(r.sub(i*64+g), true, 3)
			// whole messages, encoded beforehand by this goroutine alone
			msgs[g], _, _ = cxBatchMsgs(batches[g], func(string, int) ([]byte, bool) { return nil, true })
			for k := range msgs[g] {
				w, _ := cxSafeMarshal(msgs[g][k])
				wantMsg[g] = append(wantMsg[g], append([]byte{}, w...))
			}
		}
		held := make([][]*cxHeld, G)
		gotMsg := make([][][]byte, G)
		var start, encoded, done sync.WaitGroup
		start.Add(1)
		encoded.Add(G)
		done.Add(G)
		for g := 0; g < G; g++ {
			go func(g int) {
				defer done.Done()
				start.Wait()
				held[g] = cxHoldAll(batches[g], g, runtime.Gosched)
				for k := range msgs[g] {
					w, err := cxSafeMarshal(msgs[g][k])
					if err != nil {
						w = []byte("error: " + err.Error())
					}
					gotMsg[g] = append(gotMsg[g], w)
					runtime.Gosched()
				}
				encoded.Done()
				encoded.Wait() // every goroutine holds all its results now
			}(g)
		}
		start.Done()
		done.Wait()
		for g := 0; g < G; g++ {
			cxReportHeld(held[g], "concurrent")
			cxCheckAssembled(held[g], batches[g], "concurrent")
			for k := range msgs[g] {
				if !bytes.Equal(gotMsg[g][k], wantMsg[g][k]) {
					cxOracle("concurrent-encode-differs bencode.Marshal(krpc.Msg)", fmt.Sprintf("message=%s alone=%s among-%d-goroutines=%s", cxDumpMsg(&msgs[g][k]), hx(wantMsg[g][k]), G, hx(gotMsg[g][k])))
				}
			}
		}
	}
}

func codecHold(r *rng, scale int) {
	codecForms(r.sub(1), 24*scale)
	codecHeldSequential(r.sub(2), 30*scale)
	codecHeldConcurrent(r.sub(3), 6*scale, 6)
}
