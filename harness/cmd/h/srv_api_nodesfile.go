package main

// Engine "api", kind nodesfile (C05): nodes files that no Server ever wrote.
//
// Server.Nodes() -> WriteNodesToFile only produces records the table held, so a file made that way
// never carries what the admission path of Server.AddNode exists to turn away. An application may
// write the file from any node list (a hand-made list of bootstrap routers whose ids are not known,
// a list merged from several nodes, a list saved by another node with another id or another
// security setting). The cases here build such lists, write them with WriteNodesToFile and load them
// with AddNodesFromFile, from one caller or from several callers at once (queued behind a parked
// packet handler / released from a spin barrier), next to plain AddNode calls of the same records:
//
//   zero      the all-zero id (unknown id): AddNode pings the address instead; the address is silent,
//             or answers with an id (then that id is a possible later entry), also at a blocked address
//   own       the node's own id
//   insecure  under an enforcing node (NoSecurity = false): ids that are not valid for their public
//             address, next to ids that are (SecureNodeId), local-network addresses (always valid)
//   dup       one (id, address) record several times in a file and across the files of a round
//   spelling  one (id, address) as 4-byte and as IPv4-mapped 16-byte address (the file holds 16 bytes
//             either way), genuine IPv6
//   twins     one address under two ids, one id at two addresses
//   crowd     10-12 records for one bucket (capacity 8)
//   blocked   addresses the node's blocklist covers (accepted either way: the add API is not traffic)
//   port0     port 0
//   known     records of earlier rounds (already stored, or turned away for a full bucket)
//   torn      a file cut inside its last record (accepted either way), an empty file
//
// After every round the table at rest is judged as for AddNode calls: the oracles of checkTable (no
// zero / own id, bucket = shared prefix, capacity, duplicates, address index, counters) and the line
// `atables`, decided by RunApi.ra_accept_s: the relation of the `atable` lines, plus, for an
// enforcing node, no entry whose id is not valid for its address (Security.node_id_secure) and no
// entry owed to such a candidate.

import (
	"fmt"
	"net"
	"os"
	"path/filepath"
	"sync"
	"sync/atomic"
	"time"

	"github.com/anacrolix/torrent/bencode"

	dht "github.com/anacrolix/dht/v2"
	"github.com/anacrolix/dht/v2/krpc"
)

type nfRec struct {
	node  apiNode
	class string
}

// public unicast addresses outside every range the security extension treats as local, outside the
// blocked range of the `blocked` mix; fam 0: 4 bytes, 1: IPv6, 2: IPv4-mapped
func nfAddr(r *rng, fam int) *net.UDPAddr {
	port := 1 + r.intn(65535)
	v4 := func() []byte {
		first := []byte{11, 23, 37, 45, 62, 77, 81, 93, 104, 118, 133, 146, 151, 185, 194, 199, 205, 212}[r.intn(18)]
		return []byte{first, byte(r.intn(256)), byte(r.intn(256)), byte(1 + r.intn(254))}
	}
	switch fam {
	case 1:
		ip := r.bytes(16)
		ip[0], ip[1] = 0x20, 0x01
		return udp(ip, port)
	case 2:
		return udp(mapped(v4()), port)
	}
	return udp(v4(), port)
}

var nfBlockedNet = []byte{203, 0, 113}

func nfBlockedAddr(r *rng) *net.UDPAddr {
	ip := []byte{nfBlockedNet[0], nfBlockedNet[1], nfBlockedNet[2], byte(1 + r.intn(254))}
	if r.intn(3) == 0 {
		ip = mapped(ip)
	}
	return udp(ip, 1+r.intn(65535))
}

func nfBlocklist() *blocklist {
	lo := ip16int(net.IP{nfBlockedNet[0], nfBlockedNet[1], nfBlockedNet[2], 0})
	hi := ip16int(net.IP{nfBlockedNet[0], nfBlockedNet[1], nfBlockedNet[2], 255})
	return &blocklist{rs: []brange{{lo, hi}}}
}

// an id for the address: valid for it (secure) or, with overwhelming probability made certain by the
// loop, not valid; in bucket b of root when the id is free to choose (b >= 0 and not secure)
func nfID(r *rng, root [20]byte, addr *net.UDPAddr, secure bool, b int) [20]byte {
	for try := 0; ; try++ {
		var id [20]byte
		if b >= 0 {
			id = idInBucket(r, root, b)
		} else {
			copy(id[:], r.bytes(20))
		}
		if secure {
			kid := krpc.ID(id)
			ip := addr.IP
			if ip4 := ip.To4(); ip4 != nil {
				ip = ip4
			}
			dht.SecureNodeId(&kid, ip)
			id = kid
		}
		if id == root || id == [20]byte{} {
			continue
		}
		// (on a local-network address every id is valid: nothing to choose there)
		if dht.NodeIdSecure(id, addr.IP) == secure || dht.VerifIsLocalNetwork(addr.IP) || try > 200 {
			return id
		}
	}
}

func (a *apiSrv) nfBlocked(ip net.IP) bool {
	if a.bl == nil {
		return false
	}
	_, b := a.bl.Lookup(ip)
	return b
}

// the offers one record of a nodes file (or one AddNode call with it) makes; certain = the call
// goes through the insertion path for sure (a complete file, an address the blocklist does not cover)
func (a *apiSrv) nfOffer(n apiNode, certain bool) {
	if n.id == [20]byte{} {
		// AddNode pings the address; what answers may enter with the id it answers with
		a.mu.Lock()
		p, ok := a.responders[n.addr.String()]
		a.mu.Unlock()
		if ok {
			a.offer(false, apiNode{id: p.id, addr: n.addr})
		}
		a.offer(certain, n) // the zero id itself: never admissible
		return
	}
	if a.nfBlocked(n.addr.IP) {
		a.offer(false, n)
		return
	}
	a.offer(certain, n)
}

func runApiNodesFile(seed uint64, idx int, c apiCase) {
	r := (&rng{s: seed ^ 0xa91c08}).sub(idx)
	nosec := c.mix != "secure"
	var bl *blocklist
	if c.mix == "blocked" || c.mix == "serial" {
		bl = nfBlocklist()
	}
	if c.mix == "serial" {
		nosec = r.bool()
	}
	a := newApiSrvOpt(idx, c, r, 30*time.Millisecond, nosec, bl)
	a.sline = true
	defer a.close()
	dir, err := os.MkdirTemp("", "verif-api-nodesfile-")
	if err != nil {
		panic(err)
	}
	defer os.RemoveAll(dir)
	fam := func() int { return []int{0, 0, 0, 1, 2}[r.intn(5)] }
	// a fresh record: under an enforcing node about half of them carry an id that is valid for the address
	fresh := func(b int) apiNode {
		addr := nfAddr(r, fam())
		if nosec {
			return apiNode{id: nfID(r, a.root, addr, false, b), addr: addr}
		}
		if r.intn(5) < 3 {
			return apiNode{id: nfID(r, a.root, addr, true, -1), addr: addr}
		}
		if r.intn(6) == 0 { // a local-network address: every id is valid there
			addr = udp([]byte{192, 168, byte(r.intn(256)), byte(1 + r.intn(254))}, 1+r.intn(65535))
			return apiNode{id: idInBucket(r, a.root, r.intn(20)), addr: addr}
		}
		return apiNode{id: nfID(r, a.root, addr, false, b), addr: addr}
	}
	var known []apiNode
	for round := 1; round <= c.rounds; round++ {
		a.nround = round
		// ---- the records of this round, by class
		var recs []nfRec
		add := func(class string, n apiNode) { recs = append(recs, nfRec{n, class}) }
		for i := 0; i < 2+r.intn(3); i++ {
			add("fresh", fresh((round*7+i*3+r.intn(3))%150))
		}
		// unknown ids: a silent address, an address that answers with an id
		add("zero", apiNode{addr: nfAddr(r, fam())})
		{
			addr := nfAddr(r, fam())
			resp := apiNode{id: nfID(r, a.root, addr, !nosec && r.bool(), -1), addr: addr}
			a.mu.Lock()
			a.responders[addr.String()] = resp
			a.mu.Unlock()
			add("zero", apiNode{addr: addr})
			if r.intn(3) == 0 { // the same address also under a real id
				add("fresh", apiNode{id: nfID(r, a.root, addr, !nosec, (round*3)%150), addr: addr})
			}
		}
		add("own", apiNode{id: a.root, addr: nfAddr(r, fam())})
		// spellings of one address: 4-byte and IPv4-mapped
		{
			n := fresh((round*11 + 5) % 150)
			for n.addr.IP.To4() == nil {
				n = fresh((round*11 + 5) % 150)
			}
			ip4 := n.addr.IP.To4()
			add("spelling", apiNode{id: n.id, addr: udp(ip4, n.addr.Port)})
			add("spelling", apiNode{id: n.id, addr: udp(mapped(ip4), n.addr.Port)})
		}
		// twins
		{
			n := fresh(r.intn(150))
			add("twins", n)
			add("twins", apiNode{id: nfID(r, a.root, n.addr, !nosec && r.bool(), r.intn(150)), addr: n.addr})
			m := fresh(r.intn(150))
			add("twins", m)
			add("twins", apiNode{id: m.id, addr: nfAddr(r, fam())})
		}
		// more records for one bucket than it holds
		if round%2 == 1 || c.mix == "serial" {
			b := r.intn(3)
			want := 10 + r.intn(3)
			for got, tries := 0, 0; got < want && tries < 400; tries++ {
				var n apiNode
				if nosec {
					addr := nfAddr(r, fam())
					n = apiNode{id: nfID(r, a.root, addr, false, b), addr: addr}
				} else {
					// the leading bits of a valid id follow from the address: take those that fall into the bucket
					addr := nfAddr(r, fam())
					n = apiNode{id: nfID(r, a.root, addr, true, -1), addr: addr}
					if sharedPrefix(a.root, n.id) != b {
						continue
					}
				}
				add("crowd", n)
				got++
			}
		}
		if bl != nil {
			addr := nfBlockedAddr(r)
			add("blocked", apiNode{id: nfID(r, a.root, addr, !nosec, (round*13)%150), addr: addr})
			add("zero", apiNode{addr: nfBlockedAddr(r)})
		}
		{
			addr := nfAddr(r, fam())
			addr.Port = 0
			add("port0", apiNode{id: nfID(r, a.root, addr, !nosec, (round*17)%150), addr: addr})
		}
		if len(known) > 0 {
			for i := 0; i < 1+r.intn(3); i++ {
				add("known", known[r.intn(len(known))])
			}
		}
		// ---- the callers: each loads a file holding a selection of the records (some of them twice);
		// one in three rounds one caller hands its records to AddNode directly
		type caller struct {
			recs   []nfRec
			file   string
			torn   bool
			direct bool
		}
		callers := make([]caller, c.par)
		for i := range callers {
			cl := &callers[i]
			for _, rec := range recs {
				if c.par == 1 || r.intn(3) != 0 {
					cl.recs = append(cl.recs, rec)
				}
			}
			for j := 0; j < 2 && len(cl.recs) > 0; j++ { // records listed twice in one file
				cl.recs = append(cl.recs, cl.recs[r.intn(len(cl.recs))])
			}
			for j := len(cl.recs) - 1; j > 0; j-- { // shuffled
				k := r.intn(j + 1)
				cl.recs[j], cl.recs[k] = cl.recs[k], cl.recs[j]
			}
			cl.direct = round%3 == 0 && i == 0
			cl.torn = !cl.direct && r.intn(7) == 0
			if r.intn(15) == 0 {
				cl.recs = nil // an empty file
			}
			if cl.direct {
				continue
			}
			var nis []krpc.NodeInfo
			for _, rec := range cl.recs {
				nis = append(nis, rec.node.info())
			}
			cl.file = filepath.Join(dir, fmt.Sprintf("h%d-%d.dat", round, i))
			if err := dht.WriteNodesToFile(nis, cl.file); err != nil {
				panic(err)
			}
			if cl.torn {
				if data, err := os.ReadFile(cl.file); err == nil && len(data) > 0 {
					if err := os.WriteFile(cl.file, data[:len(data)-1-r.intn(37)], 0o640); err != nil {
						panic(err)
					}
				}
			}
		}
		// ---- park the packet handler (it holds the server lock) or use the spin barrier
		parked := false
		if c.park {
			a.entered = make(chan struct{})
			a.release = make(chan struct{})
			atomic.StoreInt32(&a.parkArmed, 1)
			paddr := nfAddr(r, 0)
			parker := apiNode{id: nfID(r, a.root, paddr, !nosec && r.bool(), (round*5+147)%150), addr: paddr}
			a.offer(false, parker)
			a.replies.Add(1)
			go func() {
				defer a.replies.Done()
				m := krpc.Msg{Q: "ping", Y: "q", T: "zzpark", A: &krpc.MsgArgs{ID: parker.id}}
				if a.conn.inject(bencode.MustMarshal(m), parker.addr, 10*time.Second) {
					a.resolve(parker)
				}
			}()
			select {
			case <-a.entered:
				parked = true
			case <-time.After(5 * time.Second):
				atomic.StoreInt32(&a.parkArmed, 0)
				emit("# api %s handler did not park", a.ctx())
			}
		}
		var arrived int32
		var wg sync.WaitGroup
		for i := range callers {
			wg.Add(1)
			go func(i int) {
				defer wg.Done()
				cl := callers[i]
				if !parked && len(callers) > 1 {
					apiSpinBarrier(&arrived, int32(len(callers)))
				}
				for _, rec := range cl.recs {
					a.nfOffer(rec.node, !cl.torn)
				}
				if cl.direct {
					for _, rec := range cl.recs {
						a.s.AddNode(rec.node.info())
					}
					return
				}
				_, err := a.s.AddNodesFromFile(cl.file)
				if err != nil && !cl.torn {
					apiOracle("C05", "nodes-file-not-read:api", "%s %v", a.ctx(), err)
				}
			}(i)
		}
		if parked {
			time.Sleep(15 * time.Millisecond)
			close(a.release)
		}
		done := make(chan struct{})
		go func() { wg.Wait(); close(done) }()
		select {
		case <-done:
		case <-time.After(20 * time.Second):
			oracle("C01", "api-does-not-return:concurrent-callers", "%s", a.ctx())
			out.Flush()
			os.Exit(3)
		}
		a.settle(2 * time.Second)
		nclass := map[string]int{}
		for _, rec := range recs {
			nclass[rec.class]++
			if rec.node.id != a.root && rec.node.id != [20]byte{} {
				known = append(known, rec.node)
			}
		}
		if len(known) > 64 {
			known = known[len(known)-64:]
		}
		emit("# api %s nosec=%d blocklist=%d records=%d zero=%d crowd=%d callers=%d", a.ctx(), b2i(nosec), b2i(bl != nil), len(recs), nclass["zero"], nclass["crowd"], len(callers))
		a.checkTable(true)
	}
	// ---- what this node exports, written as a Server would, goes into a second node with another id
	// (and, half of the time, the other security setting): every record is an ordinary candidate there
	exported := a.s.Nodes()
	if len(exported) == 0 {
		return
	}
	nosec2 := nosec
	if r.bool() {
		nosec2 = !nosec
	}
	b := newApiSrvOpt(idx, c, r, 30*time.Millisecond, nosec2, nil)
	b.sline = true
	b.nround = c.rounds + 1
	defer b.close()
	file := filepath.Join(dir, "exported.dat")
	if err := dht.WriteNodesToFile(exported, file); err != nil {
		panic(err)
	}
	for _, ni := range exported {
		b.offer(true, apiNode{id: ni.ID, addr: udp(ni.Addr.IP, ni.Addr.Port)})
	}
	guard("AddNodesFromFile", b.ctx(), func() {
		if _, err := b.s.AddNodesFromFile(file); err != nil {
			apiOracle("C05", "nodes-file-not-read:api", "%s %v", b.ctx(), err)
		}
	})
	b.settle(2 * time.Second)
	b.checkTable(true)
}
