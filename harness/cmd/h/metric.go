package main

// Engine "metric": int160 operations, bucket index, random id in bucket, CloserThan, the sorted
// set of unqueried candidates and the K-nearest container (C18; supports C02/C05).

import (
	"fmt"
	"net/netip"
	"strings"
	"sync"

	"github.com/anacrolix/generics"

	dht "github.com/anacrolix/dht/v2"
	"github.com/anacrolix/dht/v2/containers"
	"github.com/anacrolix/dht/v2/int160"
	k_nearest_nodes "github.com/anacrolix/dht/v2/k-nearest-nodes"
	"github.com/anacrolix/dht/v2/krpc"
	"github.com/anacrolix/dht/v2/types"
)

func init() { engines["metric"] = metricEngine }

func arr20(b []byte) (a [20]byte) { copy(a[:], b); return }

// structured 160-bit ids: extremes, single bits, shared prefixes with a base, random
func structuredIDs(r *rng, base []byte) [][]byte {
	var ids [][]byte
	zero := make([]byte, 20)
	max := make([]byte, 20)
	for i := range max {
		max[i] = 0xff
	}
	ids = append(ids, zero, max, append([]byte(nil), base...))
	for i := 0; i < 160; i++ {
		// differs from base exactly at bit i, then random tail
		x := append([]byte(nil), base...)
		x[i/8] ^= 1 << (7 - i%8)
		ids = append(ids, x)
		y := r.bytes(20)
		for j := 0; j < i; j++ {
			m := byte(1 << (7 - j%8))
			y[j/8] = y[j/8]&^m | base[j/8]&m
		}
		m := byte(1 << (7 - i%8))
		y[i/8] = y[i/8]&^m | (^base[i/8])&m
		ids = append(ids, y)
	}
	for i := 0; i < 40; i++ {
		ids = append(ids, r.bytes(20))
	}
	return ids
}

type amiT = types.AddrMaybeId

func amiStr(a amiT) string {
	ap := a.Addr.AddrPort
	id := "-"
	if a.Id.Ok {
		b := a.Id.Value.AsByteArray()
		id = hx(b[:])
	}
	return fmt.Sprintf("%s:%d:%s", hx(ap.Addr().AsSlice()), ap.Port(), id)
}

func mkAmi(ip []byte, port int, id []byte) amiT {
	var a amiT
	addr, _ := netip.AddrFromSlice(ip)
	a.Addr = krpc.NodeAddrPort{AddrPort: netip.AddrPortFrom(addr, uint16(port))}
	if id != nil {
		a.Id = generics.Some(int160.FromByteArray(arr20(id)))
	}
	return a
}

func knStr(kn k_nearest_nodes.Type) string {
	var contents []string
	kn.Range(func(e k_nearest_nodes.Elem) {
		contents = append(contents, fmt.Sprintf("%s:%d:%s:%v", hx(e.Addr.Addr().AsSlice()), e.Addr.Port(), hx(e.ID[:]), e.Data))
	})
	return strings.Join(contents, " ")
}

func metricEngine(seed uint64, tier string, _ []string) {
	r := &rng{s: seed}
	scale := 1
	if tier == "thorough" {
		scale = 8
	}
	base := r.bytes(20)
	ids := structuredIDs(r, base)
	pick := func() []byte { return ids[r.intn(len(ids))] }

	// --- int160 primitives ---
	for n := 0; n < 600*scale; n++ {
		a, b := pick(), pick()
		if n < len(ids) {
			a = ids[n]
			b = base
		}
		ia, ib := int160.FromByteArray(arr20(a)), int160.FromByteArray(arr20(b))
		var x int160.T
		x.Xor(&ia, &ib)
		emit("xor %s %s => %s", hx(a), hx(b), hx(x.Bytes()))
		// the receiver may be one of the operands (or both): same result as with a fresh receiver
		ra, rb, rab := ia, ib, ia
		ra.Xor(&ra, &ib)
		rb.Xor(&ia, &rb)
		rab.Xor(&rab, &rab)
		if ra != x {
			emit("oracle C18 xor-aliased-receiver:first-operand a=%s b=%s got=%s want=%s", hx(a), hx(b), hx(ra.Bytes()), hx(x.Bytes()))
		}
		if rb != x {
			emit("oracle C18 xor-aliased-receiver:second-operand a=%s b=%s got=%s want=%s", hx(a), hx(b), hx(rb.Bytes()), hx(x.Bytes()))
		}
		if !rab.IsZero() {
			emit("oracle C18 xor-aliased-receiver:both-operands a=%s got=%s", hx(a), hx(rab.Bytes()))
		}
		emit("cmp %s %s => %d", hx(a), hx(b), ia.Cmp(ib))
		d1, d2 := ia.Distance(ib), ib.Distance(ia)
		emit("distcmp %s %s %s => %d", hx(a), hx(b), hx(base), ia.Distance(int160.FromByteArray(arr20(base))).Cmp(ib.Distance(int160.FromByteArray(arr20(base)))))
		if d1 != d2 {
			emit("oracle C18 distance-not-symmetric %s %s", hx(a), hx(b))
		}
		if d1.IsZero() != (arr20(a) == arr20(b)) {
			emit("oracle C18 distance-zero-iff-equal %s %s", hx(a), hx(b))
		}
		emit("bitlen %s => %d", hx(a), ia.BitLen())
		emit("iszero %s => %d", hx(a), b2i(ia.IsZero()))
		i := r.intn(160)
		emit("getbit %s %d => %d", hx(a), i, b2i(ia.GetBit(i)))
		v := r.bool()
		y := ia
		y.SetBit(i, v)
		emit("setbit %s %d %d => %s", hx(a), i, b2i(v), hx(y.Bytes()))
		idx, p := dht.VerifBucketIndex(arr20(b), arr20(a))
		if p {
			emit("bucketidx %s %s => panic", hx(b), hx(a))
		} else {
			emit("bucketidx %s %s => %d", hx(b), hx(a), idx)
		}
	}
	// --- random id in bucket: all 160 buckets for several roots ---
	for n := 0; n < 3*scale; n++ {
		root := r.bytes(20)
		if n == 0 {
			root = make([]byte, 20)
		}
		for i := 0; i < 160; i++ {
			id := dht.VerifRandomIdInBucket(arr20(root), i)
			emit("randbucket %s %d => %s", hx(root), i, hx(id[:]))
			idx, p := dht.VerifBucketIndex(arr20(root), id)
			if p || idx != i {
				emit("oracle C18 random-id-wrong-bucket root=%s i=%d id=%s idx=%d", hx(root), i, hx(id[:]), idx)
			}
		}
	}
	// --- the same functions from several goroutines at once (several tables / servers live in one process) ---
	{
		type bi struct {
			root, id [20]byte
			idx      int
			bitlen   int
		}
		var work []bi
		for n := 0; n < 400; n++ {
			root, id := arr20(pick()), arr20(pick())
			if root == id {
				continue
			}
			idx, p := dht.VerifBucketIndex(root, id)
			if p {
				continue
			}
			d := int160.FromByteArray(root).Distance(int160.FromByteArray(id))
			work = append(work, bi{root, id, idx, d.BitLen()})
		}
		var mu sync.Mutex
		bad := ""
		var wg sync.WaitGroup
		for w := 0; w < 8; w++ {
			wg.Add(1)
			go func(w int) {
				defer wg.Done()
				defer func() {
					if p := recover(); p != nil {
						mu.Lock()
						bad = fmt.Sprint("panic: ", p)
						mu.Unlock()
					}
				}()
				for rep := 0; rep < 600*scale; rep++ {
					for i := w; i < len(work); i += 3 {
						x := work[i]
						d := int160.FromByteArray(x.root).Distance(int160.FromByteArray(x.id))
						if rep%8 != 0 {
							// mostly the cheap calls alone, back to back, so that they overlap
							idx, p := dht.VerifBucketIndex(x.root, x.id)
							if d.BitLen() != x.bitlen || p || idx != x.idx {
								mu.Lock()
								if bad == "" {
									bad = fmt.Sprintf("root=%s id=%s alone: bitlen=%d bucket=%d; among 8 goroutines: bitlen=%d bucket=%d panic=%v", hx(x.root[:]), hx(x.id[:]), x.bitlen, x.idx, d.BitLen(), idx, p)
								}
								mu.Unlock()
								return
							}
							continue
						}
						idx, p := dht.VerifBucketIndex(x.root, x.id)
						rid := dht.VerifRandomIdInBucket(x.root, x.idx)
						ridx, p2 := dht.VerifBucketIndex(x.root, rid)
						if d.BitLen() != x.bitlen || p || idx != x.idx || p2 || ridx != x.idx {
							mu.Lock()
							if bad == "" {
								bad = fmt.Sprintf("root=%s id=%s alone: bitlen=%d bucket=%d; among 8 goroutines: bitlen=%d bucket=%d panic=%v random-id-bucket=%d", hx(x.root[:]), hx(x.id[:]), x.bitlen, x.idx, d.BitLen(), idx, p || p2, ridx)
							}
							mu.Unlock()
							return
						}
					}
				}
			}(w)
		}
		wg.Wait()
		if bad != "" {
			emit("oracle C18 concurrent-call-differs:bitlen-bucket-index %s", bad)
		}
	}
	// --- CloserThan over all triples of a pool (incl. id-less and equal-distance ties) ---
	target := r.bytes(20)
	var pool []amiT
	ips := [][]byte{{1, 2, 3, 4}, {1, 2, 3, 5}, {0, 0, 0, 0, 0, 0, 0, 0, 0, 0, 0xff, 0xff, 1, 2, 3, 4}, r.bytes(16), {9, 9, 9, 9}, nil}
	// extremes relative to the target: the target itself (distance 0) and its bitwise complement
	// (distance 2^160-1), next to id-less candidates
	far := make([]byte, 20)
	for i := range far {
		far[i] = ^target[i]
	}
	poolIDs := [][]byte{nil, target, far, ids[3], ids[4], ids[9], pick(), pick()}
	pool = append(pool, mkAmi(ips[0], 1, far), mkAmi(ips[0], 1, nil), mkAmi(ips[1], 6881, far), mkAmi(ips[0], 0, nil))
	for len(pool) < 24 {
		ip := ips[r.intn(len(ips))]
		id := poolIDs[r.intn(len(poolIDs))]
		port := []int{0, 1, 6881, 65535}[r.intn(4)]
		pool = append(pool, mkAmi(ip, port, id))
	}
	// ties on distance AND address, decided by the port alone: the whole 16-bit range, near and far apart
	tieID := poolIDs[2+r.intn(len(poolIDs)-2)]
	for _, port := range []int{0, 1, 2, 30000, 32767, 32768, 32769, 60000, 65534, 65535} {
		pool = append(pool, mkAmi(ips[0], port, tieID))
		if port%2 == 0 {
			pool = append(pool, mkAmi(ips[2], port, nil))
		}
	}
	t160 := int160.FromByteArray(arr20(target))
	for _, a := range pool {
		for _, b := range pool {
			ab := a.CloserThan(b, t160)
			emit("closer %s %s %s => %d", hx(target), amiStr(a), amiStr(b), b2i(ab))
			ba := b.CloserThan(a, t160)
			if a == b && ab {
				emit("oracle C18 closer-than-reflexive %s", amiStr(a))
			}
			if a != b && ab == ba {
				emit("oracle C18 closer-than-not-total-antisymmetric %s %s", amiStr(a), amiStr(b))
			}
			if a.Id.Ok && !b.Id.Ok && !ab {
				emit("oracle C18 known-id-not-before-unknown %s %s", amiStr(a), amiStr(b))
			}
			for _, c := range pool {
				if ab && b.CloserThan(c, t160) && !a.CloserThan(c, t160) {
					emit("oracle C18 closer-than-not-transitive %s %s %s", amiStr(a), amiStr(b), amiStr(c))
				}
			}
		}
	}
	// --- sorted set: op sequences ---
	for n := 0; n < 60*scale; n++ {
		tg := pick()
		set := containers.NewImmutableAddrMaybeIdsByDistance(int160.FromByteArray(arr20(tg)))
		var ops []string
		ssVersions := []containers.AddrMaybeIdsByDistance{set}
		ssLens := []int{0}
		shadow := map[string]amiT{}
		t160s := int160.FromByteArray(arr20(tg))
		m := 1 + r.intn(14)
		for j := 0; j < m; j++ {
			e := pool[r.intn(len(pool))]
			if r.intn(5) == 0 {
				e = mkAmi(ips[r.intn(len(ips))], 1+r.intn(3), pick())
			}
			switch k := r.intn(9); {
			case k < 2:
				set = set.Delete(e)
				delete(shadow, amiStr(e))
				ops = append(ops, "-"+amiStr(e))
			case k < 4 && set.Len() > 0:
				// pop: delete what Next() hands out (drains the set now and then; it is refilled afterwards)
				x := set.Next()
				if _, in := shadow[amiStr(x)]; !in {
					emit("oracle C18 sorted-set-next-returns-element-not-in-the-set target=%s ops=%s next=%s", hx(tg), strings.Join(ops, " "), amiStr(x))
				}
				set = set.Delete(x)
				delete(shadow, amiStr(x))
				ops = append(ops, "-"+amiStr(x))
				if n%3 == 0 {
					for set.Len() > 0 && len(ops) < 60 {
						y := set.Next()
						set = set.Delete(y)
						delete(shadow, amiStr(y))
						ops = append(ops, "-"+amiStr(y))
					}
				}
			default:
				set = set.Add(e)
				shadow[amiStr(e)] = e
				ops = append(ops, "+"+amiStr(e))
			}
			ssVersions = append(ssVersions, set)
			ssLens = append(ssLens, set.Len())
			// Len and Next after every operation: Next is in the set and nothing in the set is closer
			if set.Len() != len(shadow) {
				emit("oracle C18 sorted-set-len-wrong target=%s ops=%s len=%d distinct-elements=%d", hx(tg), strings.Join(ops, " "), set.Len(), len(shadow))
			} else if set.Len() > 0 {
				x := set.Next()
				if _, in := shadow[amiStr(x)]; !in {
					emit("oracle C18 sorted-set-next-returns-element-not-in-the-set target=%s ops=%s next=%s", hx(tg), strings.Join(ops, " "), amiStr(x))
				} else {
					for _, y := range shadow {
						if y != x && y.CloserThan(x, t160s) {
							emit("oracle C18 sorted-set-next-is-not-the-closest target=%s ops=%s next=%s closer=%s", hx(tg), strings.Join(ops, " "), amiStr(x), amiStr(y))
							break
						}
					}
				}
			}
		}
		for vi := range ssVersions {
			if ssVersions[vi].Len() != ssLens[vi] {
				emit("oracle C18 sorted-set-value-changed-by-later-operation target=%s after-op=%d was-len=%d now-len=%d", hx(tg), vi+1, ssLens[vi], ssVersions[vi].Len())
				break
			}
		}
		var contents []string
		s2 := set
		for guard := set.Len() + 1; s2.Len() > 0; guard-- {
			if guard == 0 {
				// with an inconsistent order the set does not find its own minimum any more: do not spin on it
				emit("oracle C18 sorted-set-cannot-delete-its-own-minimum target=%s ops=%s stuck-at=%s len=%d", hx(tg), strings.Join(ops, " "), amiStr(s2.Next()), s2.Len())
				break
			}
			x := s2.Next()
			contents = append(contents, amiStr(x))
			s2 = s2.Delete(x)
		}
		emit("sset %s %d %s => %d %s", hx(tg), len(ops), strings.Join(ops, " "), set.Len(), strings.Join(contents, " "))
	}
	// --- K nearest: push sequences ---
	for n := 0; n < 80*scale; n++ {
		tg := pick()
		k := 1 + r.intn(9)
		kn := k_nearest_nodes.New(int160.FromByteArray(arr20(tg)), k)
		m := r.intn(24)
		var pushes []string
		versions := []k_nearest_nodes.Type{kn}
		versionStr := []string{knStr(kn)}
		type pk struct {
			id   [20]byte
			addr string
		}
		for j := 0; j < m; j++ {
			id := pick()
			if r.intn(3) == 0 {
				// close ids and exact ties
				id = append([]byte(nil), tg...)
				id[19] ^= byte(r.intn(4))
			}
			ip := ips[r.intn(4)]
			port := 1 + r.intn(3)
			addr, _ := netip.AddrFromSlice(ip)
			key := krpc.NodeInfoAddrPort{ID: arr20(id), Addr: krpc.NodeAddrPort{AddrPort: netip.AddrPortFrom(addr, uint16(port))}}
			kn = kn.Push(k_nearest_nodes.Elem{Key: key, Data: j})
			pushes = append(pushes, fmt.Sprintf("%s:%d:%s:%d", hx(ip), port, hx(id), j))
			versions = append(versions, kn)
			versionStr = append(versionStr, knStr(kn))
			if r.intn(4) == 0 {
				// a branch off an older version: Push returns a new value, the one it was called on is unchanged
				b := versions[r.intn(len(versions))]
				bid := pick()
				b = b.Push(k_nearest_nodes.Elem{Key: krpc.NodeInfoAddrPort{ID: arr20(bid), Addr: key.Addr}, Data: 1000 + j})
				_ = b.Len()
			}
		}
		// every value ever returned still holds what it held when it was returned
		for vi := range versions {
			if got := knStr(versions[vi]); got != versionStr[vi] {
				emit("oracle C18 knear-value-changed-by-later-push target=%s k=%d after-push=%d of %d was=[%s] now=[%s]", hx(tg), k, vi+1, len(versions), versionStr[vi], got)
				break
			}
		}
		var contents []string
		kn.Range(func(e k_nearest_nodes.Elem) {
			contents = append(contents, fmt.Sprintf("%s:%d:%s:%d", hx(e.Addr.Addr().AsSlice()), e.Addr.Port(), hx(e.ID[:]), e.Data.(int)))
		})
		far := "-"
		if kn.Len() > 0 {
			f := kn.Farthest()
			far = fmt.Sprintf("%s:%d:%s:%d", hx(f.Addr.Addr().AsSlice()), f.Addr.Port(), hx(f.ID[:]), f.Data.(int))
		}
		emit("knear %s %d %d %s => %d %d %s %s", hx(tg), k, len(pushes), strings.Join(pushes, " "), b2i(kn.Full()), kn.Len(), far, strings.Join(contents, " "))
	}
	// --- K nearest: copies of one value extended by several goroutines at once ---
	// A Type is a value: goroutines that each push onto their own copy of a common base (which a lookup's snapshot of
	// Closest() and the lookup itself do) must end up with what the same pushes give one after the other.
	for n := 0; n < 6*scale; n++ {
		tg := pick()
		k := 8 + r.intn(57)
		base := k_nearest_nodes.New(int160.FromByteArray(arr20(tg)), k)
		mkElem := func(rr *rng, j int) k_nearest_nodes.Elem {
			id := pick()
			if rr.intn(2) == 0 {
				// equal distances: one id at many addresses, so that the tie-break decides
				id = append([]byte(nil), tg...)
				id[19] ^= byte(rr.intn(3))
			}
			addr, _ := netip.AddrFromSlice(ips[rr.intn(len(ips))])
			return k_nearest_nodes.Elem{Key: krpc.NodeInfoAddrPort{ID: arr20(id), Addr: krpc.NodeAddrPort{AddrPort: netip.AddrPortFrom(addr, uint16(1+rr.intn(400)))}}, Data: j}
		}
		for j := 0; j < k/2; j++ {
			base = base.Push(mkElem(r, j))
		}
		const workers = 8
		plans := make([][]k_nearest_nodes.Elem, workers)
		for w := range plans {
			for j := 0; j < 60; j++ {
				plans[w] = append(plans[w], mkElem(r, 1000*w+j))
			}
		}
		got := make([]string, workers)
		var wg sync.WaitGroup
		for w := 0; w < workers; w++ {
			wg.Add(1)
			go func(w int) {
				defer wg.Done()
				defer func() {
					if p := recover(); p != nil {
						got[w] = fmt.Sprint("panic: ", p)
					}
				}()
				v := base
				for _, e := range plans[w] {
					v = v.Push(e)
				}
				got[w] = knStr(v)
			}(w)
		}
		wg.Wait()
		for w := 0; w < workers; w++ {
			v := base
			for _, e := range plans[w] {
				v = v.Push(e)
			}
			if want := knStr(v); got[w] != want {
				emit("oracle C18 knear-copies-pushed-concurrently-differ target=%s k=%d worker=%d alone=[%s] concurrent=[%s]", hx(tg), k, w, want, got[w])
				break
			}
		}
	}
}
