package main

// Engine "flood" (oracle only; serves C08, C20, C01, C12, C10, C11): bursts of inbound queries delivered back to
// back — replies overlap in time, unlike in the event-by-event server engine — under timed send
// limiters with WaitToReply on and off. Checked directly on the implementation:
//   C08  every reply goes to the source of the query whose transaction id it echoes, carries that
//        source's compact address, and no query is answered twice;
//   C20  the datagrams written in any window never exceed burst + rate * window (one-sided, real time),
//        with WaitToReply off excess replies are dropped, with it on they are delayed, never sent early;
//   C01  the node survives and still serves.
// Case kinds "tokens" (C10) and "peers" (C11) (flood_writes.go): the CONTENT of overlapping replies - every host
// can write with the token its reply carried and nobody else can; values are those of the queried infohash.
// Case kinds "recover", "recover-faults", "recover-outbound", "exact" (flood_recover.go) add the lower
// bound of C08: after an over-budget burst (with refused, failed, blocked and cancelled sends) and
// a measured quiet time, queries sent while the budget provably holds a token are each answered.

import (
	"crypto/ed25519"
	"crypto/sha1"
	"fmt"
	"net"
	"runtime"
	"sort"
	"strconv"
	"sync"
	"time"

	"github.com/anacrolix/log"
	"github.com/anacrolix/torrent/bencode"
	"golang.org/x/time/rate"

	dht "github.com/anacrolix/dht/v2"
	"github.com/anacrolix/dht/v2/bep44"
	"github.com/anacrolix/dht/v2/krpc"
)

func init() { engines["flood"] = floodEngine }

type floodCfg struct {
	kind   string // "" (burst), "shared" (two servers, one limiter), "delayed" (one reply held in the logger), "torn" (BEP 44 get racing put), "recover*" / "exact" (flood_recover.go)
	wait   bool
	rate   float64 // per second; <0 = unlimited
	burst  int
	n      int
	method string
	// kinds "tokens" / "peers" (flood_writes.go)
	sched  string // how the burst is made to overlap: inject | queue | oneproc | multi
	store  string // ps | ps+hook | hook | none
	rounds int
}

func floodCases(tier string) []floodCfg {
	// what replies carry when they are put together at the same time (flood_writes.go): a C10 / C11 run
	// executes these cases only, the other runs get a small one of each after their own cases
	writes, only := floodWriteCases(tier)
	if only {
		return writes
	}
	var cs []floodCfg
	for _, w := range []bool{false, true} {
		for _, lim := range [][2]float64{{-1, 1}, {200, 1}, {400, 3}, {1000, 8}, {100, 20}} {
			for _, m := range []string{"ping", "mix"} {
				n := 24
				if tier == "thorough" {
					n = 60
				}
				cs = append(cs, floodCfg{wait: w, rate: lim[0], burst: int(lim[1]), n: n, method: m})
			}
		}
	}
	cs = append(cs, floodCfg{kind: "shared", rate: 0, burst: 4, n: 12, method: "ping"})
	cs = append(cs, floodCfg{kind: "shared", rate: 0, burst: 9, n: 12, method: "mix"})
	cs = append(cs, floodCfg{kind: "delayed", rate: 4, burst: 10, n: 16, method: "ping"})
	cs = append(cs, floodCfg{kind: "torn", rate: -1, burst: 1, n: 40, method: "get-put"})
	// the lower bound of the send budget: replies resume once the budget allows them (flood_recover.go)
	cs = append(cs, floodRecoverCases(tier)...)
	cs = append(cs, writes...)
	return cs
}

func floodEngine(seed uint64, tier string, args []string) {
	from := 0
	child := false
	for i := 0; i < len(args); i++ {
		switch args[i] {
		case "-child":
			child = true
		case "-from":
			from, _ = strconv.Atoi(args[i+1])
			i++
		}
	}
	cases := floodCases(tier)
	if !child {
		runContained("flood", seed, tier, len(cases), func(idx int) string { return fmt.Sprintf("%+v", cases[idx%len(cases)]) })
		return
	}
	for i := from; i < len(cases); i++ {
		runFloodCase(seed, i, cases[i])
	}
}

type floodWrite struct {
	at   time.Time
	to   string
	data []byte
}

func runFloodCase(seed uint64, idx int, fc floodCfg) {
	switch fc.kind {
	case "shared":
		runFloodShared(seed, idx, fc)
		return
	case "delayed":
		runFloodDelayed(seed, idx, fc)
		return
	case "torn":
		runFloodTorn(seed, idx, fc)
		return
	case "recover", "recover-faults", "recover-outbound", "exact":
		runFloodRecover(seed, idx, fc)
		return
	case "tokens":
		runFloodTokens(seed, idx, fc)
		return
	case "peers":
		runFloodPeers(seed, idx, fc)
		return
	}
	r := (&rng{s: seed ^ 0xf100d}).sub(idx)
	emit("mbegin %d flood %+v => ok", idx, fc)
	out.Flush()
	var root [20]byte
	copy(root[:], r.bytes(20))
	conn := newFakeConn()
	var mu sync.Mutex
	var writes []floodWrite
	conn.onWrite = func(b []byte, to *net.UDPAddr) {
		mu.Lock()
		writes = append(writes, floodWrite{time.Now(), to.String(), b})
		mu.Unlock()
	}
	lim := rate.NewLimiter(rate.Inf, 1)
	if fc.rate >= 0 {
		lim = rate.NewLimiter(rate.Limit(fc.rate), fc.burst)
	}
	cfg := &dht.ServerConfig{
		NodeId:        root,
		Conn:          conn,
		NoSecurity:    true,
		WaitToReply:   fc.wait,
		StartingNodes: func() ([]dht.Addr, error) { return nil, nil },
		Logger:        log.NewLogger().FilterLevel(log.Critical),
		SendLimiter:   lim,
	}
	base := runtime.NumGoroutine()
	s, err := dht.NewServer(cfg)
	if err != nil {
		panic(err)
	}
	type sentQ struct {
		src *net.UDPAddr
		t   string
		q   string
	}
	var qs []sentQ
	methods := []string{"ping", "find_node", "get_peers", "get", "zzz", "announce_peer"}
	start := time.Now()
	for i := 0; i < fc.n; i++ {
		src := randAddr(r, famOf(r))
		t := fmt.Sprintf("%c%c%d", 'a'+i%26, 'A'+(i/26)%26, i)
		q := "ping"
		if fc.method == "mix" {
			q = methods[r.intn(len(methods))]
		}
		a := &krpc.MsgArgs{ID: idInBucket(r, root, r.intn(160))}
		copy(a.Target[:], r.bytes(20))
		copy(a.InfoHash[:], r.bytes(20))
		var m krpc.Msg
		if q == "announce_peer" {
			m = krpc.Msg{Q: q, Y: "q", T: t} // no arguments: must be answered with 203
		} else {
			m = krpc.Msg{Q: q, Y: "q", T: t, A: a}
		}
		conn.inject(bencode.MustMarshal(m), src, 3*time.Second)
		qs = append(qs, sentQ{src, t, q})
	}
	// wait for the replies: unlimited / dropping configurations settle at once; waiting ones need
	// (n - burst) / rate seconds
	settle := 300 * time.Millisecond
	if fc.wait && fc.rate > 0 {
		settle += time.Duration(float64(fc.n)/fc.rate*float64(time.Second)) + 300*time.Millisecond
	}
	deadline := time.Now().Add(settle)
	for time.Now().Before(deadline) {
		mu.Lock()
		n := len(writes)
		mu.Unlock()
		if n >= fc.n {
			break
		}
		time.Sleep(2 * time.Millisecond)
	}
	time.Sleep(30 * time.Millisecond)
	mu.Lock()
	ws := append([]floodWrite(nil), writes...)
	mu.Unlock()
	ctxs := fmt.Sprintf("case=%d %+v", idx, fc)
	// ---- C08: attribution by transaction id
	byT := map[string]sentQ{}
	for _, q := range qs {
		byT[q.t] = q
	}
	answered := map[string]int{}
	for _, w := range ws {
		m, ok := decodeLikeServer(w.data)
		if !ok {
			oracle("C08", "reply-not-decodable:flood", "%s to=%s", ctxs, w.to)
			continue
		}
		q, known := byT[m.T]
		if !known {
			oracle("C08", "reply-with-unknown-transaction-id:flood", "%s t=%q to=%s", ctxs, m.T, w.to)
			continue
		}
		answered[m.T]++
		if w.to != q.src.String() {
			oracle("C08", "reply-to-wrong-address:flood", "%s t=%q to=%s want=%s", ctxs, m.T, w.to, q.src)
		}
		if m.Y == "r" && (!m.IP.IP.Equal(q.src.IP) || m.IP.Port != q.src.Port) {
			oracle("C08", "response-ip-not-requester-compact-address:flood", "%s t=%q ip=%v want=%s", ctxs, m.T, m.IP, q.src)
		}
		if m.Y == "r" && (m.R == nil || m.R.ID != root) {
			oracle("C08", "response-without-own-id:flood", "%s t=%q", ctxs, m.T)
		}
		if q.q == "zzz" && (m.Y != "e" || m.E == nil || m.E.Code != 204) {
			oracle("C08", "unknown-method-not-answered-204:flood", "%s t=%q", ctxs, m.T)
		}
		if q.q == "announce_peer" && (m.Y != "e" || m.E == nil || m.E.Code != 203) {
			oracle("C08", "missing-arguments-not-answered-203:flood", "%s t=%q", ctxs, m.T)
		}
	}
	for t, k := range answered {
		if k > 1 {
			oracle("C08", "more-than-one-datagram-for-a-query:flood", "%s t=%q n=%d", ctxs, t, k)
		}
	}
	if fc.rate < 0 && len(answered) != fc.n {
		oracle("C08", "query-not-answered:flood", "%s answered=%d of %d", ctxs, len(answered), fc.n)
	}
	// responses wait for budget when WaitToReply is set; errors never wait (sendError passes wait=false)
	if fc.wait && fc.rate > 0 {
		for _, q := range qs {
			if q.q != "zzz" && q.q != "announce_peer" && answered[q.t] == 0 {
				oracle("C20", "waiting-reply-never-sent", "%s t=%q method=%s answered=%d of %d", ctxs, q.t, q.q, len(answered), fc.n)
				break
			}
		}
	}
	// ---- C20: prefix windows [start, t_j] over the write times. The limiter is full when the flood
	// starts and a delayed write only moves to the right, so the count of writes up to t_j can never
	// exceed burst + rate * (t_j - start); one datagram of slack for the two clocks.
	if fc.rate >= 0 {
		sort.Slice(ws, func(i, j int) bool { return ws[i].at.Before(ws[j].at) })
		for j := range ws {
			win := ws[j].at.Sub(start).Seconds()
			allowed := float64(fc.burst) + fc.rate*win + 1
			if float64(j+1) > allowed {
				oracle("C20", "datagrams-exceed-burst-plus-rate-times-window", "%s window=%.4fs sent=%d allowed=%.2f", ctxs, win, j+1, allowed)
				break
			}
		}
	}
	// ---- C01: still serves
	probe := udp([]byte{203, 0, 113, 9}, 40000+idx)
	pm := bencode.MustMarshal(krpc.Msg{Q: "ping", Y: "q", T: "probe", A: &krpc.MsgArgs{ID: krpc.ID{9}}})
	time.Sleep(time.Duration(float64(time.Second) * 3 / maxf(fc.rate, 50)))
	okInj := conn.inject(pm, probe, 3*time.Second)
	got := false
	dl := time.Now().Add(2 * time.Second)
	for !got && time.Now().Before(dl) {
		mu.Lock()
		for _, w := range writes {
			if m, ok := decodeLikeServer(w.data); ok && m.T == "probe" && w.to == probe.String() {
				got = true
			}
		}
		mu.Unlock()
		time.Sleep(time.Millisecond)
	}
	if !okInj || (!got && (fc.rate < 0 || fc.wait)) {
		oracle("C01", "probe-ping-not-answered:flood", "%s", ctxs)
	}
	s.Close()
	conn.Close()
	dl = time.Now().Add(3 * time.Second)
	for runtime.NumGoroutine() > base && time.Now().Before(dl) {
		time.Sleep(2 * time.Millisecond)
	}
	emit("# flood %d %+v written=%d answered=%d", idx, fc, len(ws), len(answered))
	emit("mend %d => ok", idx)
}

func maxf(a, b float64) float64 {
	if a > b {
		return a
	}
	return b
}

// two servers configured with ONE limiter object share its budget
func runFloodShared(seed uint64, idx int, fc floodCfg) {
	r := (&rng{s: seed ^ 0x5a4ed}).sub(idx)
	emit("mbegin %d flood %+v => ok", idx, fc)
	out.Flush()
	lim := rate.NewLimiter(0, fc.burst)
	total := 0
	var mu sync.Mutex
	var servers []*dht.Server
	var conns []*fakeConn
	for k := 0; k < 2; k++ {
		var root [20]byte
		copy(root[:], r.bytes(20))
		conn := newFakeConn()
		conn.local = &net.UDPAddr{IP: net.IPv4(127, 0, 0, 1), Port: 4242 + k}
		conn.onWrite = func(b []byte, to *net.UDPAddr) { mu.Lock(); total++; mu.Unlock() }
		s, err := dht.NewServer(&dht.ServerConfig{NodeId: root, Conn: conn, NoSecurity: true, SendLimiter: lim,
			StartingNodes: func() ([]dht.Addr, error) { return nil, nil }, Logger: log.NewLogger().FilterLevel(log.Critical)})
		if err != nil {
			panic(err)
		}
		servers = append(servers, s)
		conns = append(conns, conn)
	}
	for i := 0; i < fc.n; i++ {
		q := "ping"
		if fc.method == "mix" && i%3 == 0 {
			q = "zzz"
		}
		m := krpc.Msg{Q: q, Y: "q", T: fmt.Sprint(i), A: &krpc.MsgArgs{ID: krpc.ID{byte(i + 1)}}}
		conns[i%2].inject(bencode.MustMarshal(m), randAddr(r, 0), 3*time.Second)
	}
	time.Sleep(150 * time.Millisecond)
	mu.Lock()
	n := total
	mu.Unlock()
	if n > fc.burst {
		oracle("C20", "servers-sharing-one-limiter-exceed-its-budget", "case=%d %+v written=%d budget=%d", idx, fc, n, fc.burst)
	}
	for k := range servers {
		servers[k].Close()
		conns[k].Close()
	}
	emit("# flood %d %+v written=%d", idx, fc, n)
	emit("mend %d => ok", idx)
}

type delayHandler struct {
	needle string
	hold   chan struct{}
	once   sync.Once
	hit    chan struct{}
}

func (h *delayHandler) Handle(r log.Record) {
	if h.needle != "" && containsStr(r.Msg.String(), h.needle) {
		first := false
		h.once.Do(func() { first = true; close(h.hit) })
		if first {
			<-h.hold
		}
	}
}

func containsStr(s, sub string) bool {
	return len(sub) > 0 && len(s) >= len(sub) && (indexStr(s, sub) >= 0)
}
func indexStr(s, sub string) int {
	for i := 0; i+len(sub) <= len(s); i++ {
		if s[i:i+len(sub)] == sub {
			return i
		}
	}
	return -1
}

// one reply is held between being queued and reaching the limiter while other traffic drains the bucket;
// afterwards the budget must still hold over the whole run
func runFloodDelayed(seed uint64, idx int, fc floodCfg) {
	r := (&rng{s: seed ^ 0xde1a}).sub(idx)
	emit("mbegin %d flood %+v => ok", idx, fc)
	out.Flush()
	var root [20]byte
	copy(root[:], r.bytes(20))
	conn := newFakeConn()
	var mu sync.Mutex
	var times []time.Time
	conn.onWrite = func(b []byte, to *net.UDPAddr) { mu.Lock(); times = append(times, time.Now()); mu.Unlock() }
	victim := udp([]byte{10, 0, 0, 1}, 1111)
	h := &delayHandler{needle: "replying to \"10.0.0.1:1111\"", hold: make(chan struct{}), hit: make(chan struct{})}
	var logger log.Logger
	logger.SetHandlers(h)
	logger = logger.WithFilterLevel(log.Debug)
	lim := rate.NewLimiter(rate.Limit(fc.rate), fc.burst)
	s, err := dht.NewServer(&dht.ServerConfig{NodeId: root, Conn: conn, NoSecurity: true, SendLimiter: lim,
		StartingNodes: func() ([]dht.Addr, error) { return nil, nil }, Logger: logger})
	if err != nil {
		panic(err)
	}
	start := time.Now()
	ping := func(src *net.UDPAddr, t string) {
		m := krpc.Msg{Q: "ping", Y: "q", T: t, A: &krpc.MsgArgs{ID: krpc.ID{7}}}
		conn.inject(bencode.MustMarshal(m), src, 3*time.Second)
	}
	ping(victim, "v")
	select {
	case <-h.hit:
	case <-time.After(2 * time.Second):
	}
	// the held reply idles for two seconds (the bucket is full anyway), then a flood drains the bucket,
	// then the held reply reaches the limiter, then a second flood arrives
	time.Sleep(2 * time.Second)
	held := false
	select {
	case <-h.hit:
		held = true
	default:
	}
	for i := 0; i < fc.n; i++ {
		ping(randAddr(r, 0), fmt.Sprint("a", i))
	}
	time.Sleep(20 * time.Millisecond)
	close(h.hold)
	time.Sleep(30 * time.Millisecond)
	for i := 0; i < fc.n; i++ {
		ping(randAddr(r, 0), fmt.Sprint("b", i))
	}
	time.Sleep(100 * time.Millisecond)
	mu.Lock()
	ts := append([]time.Time(nil), times...)
	mu.Unlock()
	sort.Slice(ts, func(i, j int) bool { return ts[i].Before(ts[j]) })
	// without WaitToReply a write follows its Allow() at once: every window [t_i, t_j] is bounded
	// (50 ms of scheduling tolerance, one datagram of slack)
	func() {
		for i := range ts {
			for j := i; j < len(ts); j++ {
				win := ts[j].Sub(ts[i]).Seconds()
				allowed := float64(fc.burst) + fc.rate*(win+0.05) + 1
				if float64(j-i+1) > allowed {
					oracle("C20", "datagrams-exceed-burst-plus-rate-times-window:delayed-reply", "case=%d %+v window=%.3fs sent=%d allowed=%.2f", idx, fc, win, j-i+1, allowed)
					return
				}
			}
		}
	}()
	_ = start
	s.Close()
	conn.Close()
	emit("# flood %d %+v written=%d reply-was-held=%v", idx, fc, len(ts), held)
	emit("mend %d => ok", idx)
}

// BEP 44: a get handled just before a put of the next version; every get reply must verify (C12)
func runFloodTorn(seed uint64, idx int, fc floodCfg) {
	r := (&rng{s: seed ^ 0x7041}).sub(idx)
	emit("mbegin %d flood %+v => ok", idx, fc)
	out.Flush()
	var root [20]byte
	copy(root[:], r.bytes(20))
	conn := newFakeConn()
	var mu sync.Mutex
	var got []*krpc.Msg
	conn.onWrite = func(b []byte, to *net.UDPAddr) {
		if m, ok := decodeLikeServer(b); ok {
			mu.Lock()
			got = append(got, m)
			mu.Unlock()
		}
	}
	s, err := dht.NewServer(&dht.ServerConfig{NodeId: root, Conn: conn, NoSecurity: true, SendLimiter: rate.NewLimiter(rate.Inf, 1), Exp: 2 * time.Hour,
		StartingNodes: func() ([]dht.Addr, error) { return nil, nil }, Logger: log.NewLogger().FilterLevel(log.Critical)})
	if err != nil {
		panic(err)
	}
	src := randAddr(r, 0)
	priv := detKey(r)
	var pub [32]byte
	copy(pub[:], priv.Public().(ed25519.PublicKey))
	tgt := sha1.Sum(pub[:])
	id := krpc.ID{3}
	// token
	conn.inject(bencode.MustMarshal(krpc.Msg{Q: "get", Y: "q", T: "tk", A: &krpc.MsgArgs{ID: id, Target: tgt}}), src, 3*time.Second)
	time.Sleep(20 * time.Millisecond)
	tok := ""
	mu.Lock()
	for _, m := range got {
		if m.T == "tk" && m.R != nil && m.R.Token != nil {
			tok = *m.R.Token
		}
	}
	mu.Unlock()
	put := func(seq int64) []byte {
		v := fmt.Sprintf("value-%d", seq)
		bv := bencode.MustMarshal(v)
		a := krpc.MsgArgs{ID: id, V: v, K: pub, Seq: &seq, Token: tok}
		copy(a.Sig[:], bep44.Sign(priv, nil, seq, bv))
		return bencode.MustMarshal(krpc.Msg{Q: "put", Y: "q", T: fmt.Sprint("p", seq), A: &a})
	}
	conn.inject(put(1), src, 3*time.Second)
	for i := 0; i < fc.n; i++ {
		g := bencode.MustMarshal(krpc.Msg{Q: "get", Y: "q", T: fmt.Sprint("g", i), A: &krpc.MsgArgs{ID: id, Target: tgt}})
		conn.inject(g, randAddr(r, 0), 3*time.Second)
		conn.inject(put(int64(i+2)), src, 3*time.Second)
	}
	time.Sleep(100 * time.Millisecond)
	mu.Lock()
	bad, seen := 0, 0
	for _, m := range got {
		if m.R == nil || len(m.R.V) == 0 || m.R.Seq == nil {
			continue
		}
		seen++
		if !bep44.Verify(m.R.K[:], nil, *m.R.Seq, m.R.V, m.R.Sig[:]) {
			bad++
		}
	}
	mu.Unlock()
	if bad > 0 {
		oracle("C12", "served-item-does-not-verify:get-racing-put", "case=%d %d of %d get replies carry (v, sig, seq) that do not verify under k", idx, bad, seen)
	}
	s.Close()
	conn.Close()
	errs := map[int]int{}
	mu.Lock()
	for _, m := range got {
		if m.E != nil {
			errs[m.E.Code]++
		}
	}
	mu.Unlock()
	sample := ""
	mu.Lock()
	for _, m := range got {
		if len(m.T) > 0 && m.T[0] == 'g' {
			sample = dumpMsg(m)
		}
	}
	mu.Unlock()
	if len(sample) > 300 {
		sample = sample[:300]
	}
	emit("# flood %d %+v get-replies-with-value=%d bad=%d replies=%d errors=%v token=%d sample=%s", idx, fc, seen, bad, len(got), errs, len(tok), sample)
	emit("mend %d => ok", idx)
}
