package main

// Engine "codec" (C15; supports C01): the KRPC wire codec.
//  (a) every exported UnmarshalBinary / UnmarshalBencode / MarshalBinary / MarshalBencode of the
//      compact list types, NodeAddr and NodeInfo, on byte strings of every length 0..80;
//  (b) bencode.Unmarshal / Marshal of krpc.Msg on the fuzz seed corpus, the literal vectors of the
//      krpc tests, one directed case per decoder quirk, messages generated over the full field
//      set, and a malformed stream;
//  (c) WriteNodesToFile / ReadNodesFromFile through temp files.
// Every case prints the observed class, a canonical dump and the re-encodings; the model runner
// recomputes them.  The direct oracles (`oracle C15 ...`) look at the implementation alone.

import (
	"fmt"
	"math/big"
	"os"
	"path/filepath"
	"runtime/debug"
	"sort"
	"strconv"
	"strings"

	"github.com/anacrolix/torrent/bencode"

	dht "github.com/anacrolix/dht/v2"
	"github.com/anacrolix/dht/v2/krpc"
)

func init() { engines["codec"] = codecEngine }

// ---------------------------------------------------------------- canonical dumps
func cxDumpAddr(a krpc.NodeAddr) string { return fmt.Sprintf("%s/%d", hx(a.IP), a.Port) }
func cxDumpInfo(n krpc.NodeInfo) string {
	return fmt.Sprintf("%s/%s/%d", hx(n.ID[:]), hx(n.Addr.IP), n.Addr.Port)
}

func cxListTok(items []string) string { return "L" + strings.Join(items, ",") }

func cxDumpAddrs(l []krpc.NodeAddr) string {
	if l == nil {
		return "nil"
	}
	var it []string
	for _, a := range l {
		it = append(it, cxDumpAddr(a))
	}
	return cxListTok(it)
}

func cxDumpInfos(l []krpc.NodeInfo) string {
	if l == nil {
		return "nil"
	}
	var it []string
	for _, a := range l {
		it = append(it, cxDumpInfo(a))
	}
	return cxListTok(it)
}

func cxDumpHashes(l [][20]byte) string {
	var it []string
	for _, a := range l {
		it = append(it, hx(a[:]))
	}
	return cxListTok(it)
}

func cxOptInt(p *int) string {
	if p == nil {
		return "nil"
	}
	return strconv.Itoa(*p)
}

func cxOptInt64(p *int64) string {
	if p == nil {
		return "nil"
	}
	return strconv.FormatInt(*p, 10)
}

func cxNilOrHex(isNil bool, b []byte) string {
	if isNil {
		return "nil"
	}
	return hx(b)
}

func cxDumpArgs(a *krpc.MsgArgs) string {
	if a == nil {
		return "a=nil"
	}
	want := "nil"
	if a.Want != nil {
		var it []string
		for _, w := range a.Want {
			it = append(it, hx([]byte(w)))
		}
		want = cxListTok(it)
	}
	v := "nil"
	if a.V != nil {
		b, err := cxSafeMarshal(a.V)
		if err != nil {
			v = "unencodable"
		} else {
			v = hx(b)
		}
	}
	return fmt.Sprintf("a=[ %s %s %s %s %s %d %s %d %d %s %s %d %s %s %s ]",
		hx(a.ID[:]), hx(a.InfoHash[:]), hx(a.Target[:]), hx([]byte(a.Token)), cxOptInt(a.Port), b2i(a.ImpliedPort),
		want, a.NoSeed, a.Scrape, v, cxOptInt64(a.Seq), a.Cas, hx(a.K[:]), cxNilOrHex(a.Salt == nil, a.Salt), hx(a.Sig[:]))
}

func cxDumpRet(r *krpc.Return) string {
	if r == nil {
		return "r=nil"
	}
	tok := "nil"
	if r.Token != nil {
		tok = hx([]byte(*r.Token))
	}
	bf := func(p *krpc.ScrapeBloomFilter) string {
		if p == nil {
			return "nil"
		}
		return hx(p[:])
	}
	samples := "nil"
	if r.Samples != nil {
		samples = cxDumpHashes(*r.Samples)
	}
	return fmt.Sprintf("r=[ %s %s %s %s %s %s %s %s %s %s %s %s %s %s ]",
		hx(r.ID[:]), cxDumpInfos(r.Nodes), cxDumpInfos(r.Nodes6), tok, cxDumpAddrs(r.Values), bf(r.BFsd), bf(r.BFpe),
		cxOptInt64(r.Interval), cxOptInt64(r.Num), samples, cxNilOrHex(r.V == nil, r.V), hx(r.K[:]), hx(r.Sig[:]), cxOptInt64(r.Seq))
}

func cxDumpMsg(m *krpc.Msg) string {
	e := "nil"
	if m.E != nil {
		e = fmt.Sprintf("%d:%s", m.E.Code, hx([]byte(m.E.Msg)))
	}
	return fmt.Sprintf("q=%s t=%s y=%s cv=%s ro=%d ip=%s/%d e=%s %s %s",
		hx([]byte(m.Q)), hx([]byte(m.T)), hx([]byte(m.Y)), hx([]byte(m.ClientId)), b2i(m.ReadOnly),
		cxNilOrHex(m.IP.IP == nil, m.IP.IP), m.IP.Port, e, cxDumpArgs(m.A), cxDumpRet(m.R))
}

// ---------------------------------------------------------------- contained calls
func cxSafeMarshal(v interface{}) (b []byte, err error) {
	defer func() {
		if r := recover(); r != nil {
			err = fmt.Errorf("PANIC: %v", r)
			b = nil
		}
	}()
	return bencode.Marshal(v)
}

func cxIsPanicErr(err error) bool { return err != nil && strings.HasPrefix(err.Error(), "PANIC: ") }

// class of an encoding attempt: "ok <hex>" | "err" | "panic"
func cxEncClass(b []byte, err error) string {
	if cxIsPanicErr(err) {
		return "panic"
	}
	if err != nil {
		return "err"
	}
	return "ok " + hx(b)
}

func cxSafeUnmarshalMsg(b []byte) (m krpc.Msg, class string) {
	defer func() {
		if r := recover(); r != nil {
			class = "panic"
		}
	}()
	err := bencode.Unmarshal(b, &m)
	if err == nil {
		return m, "ok"
	}
	if t, ok := err.(bencode.ErrUnusedTrailingBytes); ok {
		return m, fmt.Sprintf("trail %d", t.NumUnusedBytes)
	}
	return m, "reject"
}

var cxOracleSeen = map[string]bool{}

// one cxOracle line per stable key
func cxOracle(key, details string) {
	if cxOracleSeen[key] {
		return
	}
	cxOracleSeen[key] = true
	emit("oracle C15 %s %s", key, details)
}

// ---------------------------------------------------------------- (a) binary codecs
type cxBinType struct {
	name  string
	width int // 0: not a list
	// returns class ("ok"/"err"/"panic"), dump of the value, re-marshalled bytes class
	unmBin  func(b []byte) (string, string, func() ([]byte, error))
	unmBenc func(b []byte) (string, string, func() ([]byte, error))
}

func cxContain(f func() error) (class string) {
	defer func() {
		if r := recover(); r != nil {
			class = "panic"
		}
	}()
	if err := f(); err != nil {
		return "err"
	}
	return "ok"
}

func cxContainBytes(f func() ([]byte, error)) (b []byte, err error) {
	defer func() {
		if r := recover(); r != nil {
			err = fmt.Errorf("PANIC: %v", r)
			b = nil
		}
	}()
	return f()
}

var cxBinTypes = []cxBinType{
	{"addrs4", 6,
		func(b []byte) (string, string, func() ([]byte, error)) {
			var v krpc.CompactIPv4NodeAddrs
			c := cxContain(func() error { return v.UnmarshalBinary(b) })
			return c, cxDumpAddrs(v), v.MarshalBinary
		},
		func(b []byte) (string, string, func() ([]byte, error)) {
			var v krpc.CompactIPv4NodeAddrs
			c := cxContain(func() error { return v.UnmarshalBencode(b) })
			return c, cxDumpAddrs(v), v.MarshalBencode
		}},
	{"addrs6", 18,
		func(b []byte) (string, string, func() ([]byte, error)) {
			var v krpc.CompactIPv6NodeAddrs
			c := cxContain(func() error { return v.UnmarshalBinary(b) })
			return c, cxDumpAddrs(v), v.MarshalBinary
		},
		func(b []byte) (string, string, func() ([]byte, error)) {
			var v krpc.CompactIPv6NodeAddrs
			c := cxContain(func() error { return v.UnmarshalBencode(b) })
			return c, cxDumpAddrs(v), v.MarshalBencode
		}},
	{"infos4", 26,
		func(b []byte) (string, string, func() ([]byte, error)) {
			var v krpc.CompactIPv4NodeInfo
			c := cxContain(func() error { return v.UnmarshalBinary(b) })
			return c, cxDumpInfos(v), v.MarshalBinary
		},
		func(b []byte) (string, string, func() ([]byte, error)) {
			var v krpc.CompactIPv4NodeInfo
			c := cxContain(func() error { return v.UnmarshalBencode(b) })
			return c, cxDumpInfos(v), v.MarshalBencode
		}},
	{"infos6", 38,
		func(b []byte) (string, string, func() ([]byte, error)) {
			var v krpc.CompactIPv6NodeInfo
			c := cxContain(func() error { return v.UnmarshalBinary(b) })
			return c, cxDumpInfos(v), v.MarshalBinary
		},
		func(b []byte) (string, string, func() ([]byte, error)) {
			var v krpc.CompactIPv6NodeInfo
			c := cxContain(func() error { return v.UnmarshalBencode(b) })
			return c, cxDumpInfos(v), v.MarshalBencode
		}},
	{"hashes", 20,
		func(b []byte) (string, string, func() ([]byte, error)) {
			var v krpc.CompactInfohashes
			c := cxContain(func() error { return v.UnmarshalBinary(b) })
			return c, cxDumpHashes(v), v.MarshalBinary
		},
		func(b []byte) (string, string, func() ([]byte, error)) {
			var v krpc.CompactInfohashes
			c := cxContain(func() error { return v.UnmarshalBencode(b) })
			return c, cxDumpHashes(v), v.MarshalBencode
		}},
	{"nodeaddr", 0,
		func(b []byte) (string, string, func() ([]byte, error)) {
			var v krpc.NodeAddr
			c := cxContain(func() error { return v.UnmarshalBinary(b) })
			return c, cxDumpAddr(v), v.MarshalBinary
		},
		func(b []byte) (string, string, func() ([]byte, error)) {
			var v krpc.NodeAddr
			c := cxContain(func() error { return v.UnmarshalBencode(b) })
			return c, cxDumpAddr(v), v.MarshalBencode
		}},
	{"nodeinfo", 0,
		func(b []byte) (string, string, func() ([]byte, error)) {
			var v krpc.NodeInfo
			c := cxContain(func() error { return v.UnmarshalBinary(b) })
			return c, cxDumpInfo(v), v.MarshalBinary
		},
		nil},
	{"id", 0, nil,
		func(b []byte) (string, string, func() ([]byte, error)) {
			var v krpc.ID
			c := cxContain(func() error { return v.UnmarshalBencode(b) })
			return c, hx(v[:]), v.MarshalBencode
		}},
	{"error", 0, nil,
		func(b []byte) (string, string, func() ([]byte, error)) {
			var v krpc.Error
			c := cxContain(func() error { return v.UnmarshalBencode(b) })
			return c, fmt.Sprintf("%d:%s", v.Code, hx([]byte(v.Msg))), v.MarshalBencode
		}},
}

var cxGoFuncName = map[string]string{
	"addrs4": "CompactIPv4NodeAddrs", "addrs6": "CompactIPv6NodeAddrs", "infos4": "CompactIPv4NodeInfo",
	"infos6": "CompactIPv6NodeInfo", "hashes": "CompactInfohashes", "nodeaddr": "NodeAddr", "nodeinfo": "NodeInfo",
	"id": "ID", "error": "Error",
}

// op: "ub" (UnmarshalBinary) or "ubc" (UnmarshalBencode)
func cxRunUnmarshal(op string, t cxBinType, b []byte) {
	f := t.unmBin
	meth := "UnmarshalBinary"
	if op == "ubc" {
		f = t.unmBenc
		meth = "UnmarshalBencode"
	}
	if f == nil {
		return
	}
	class, dump, re := f(b)
	switch class {
	case "panic":
		cxOracle("decoder-panic "+cxGoFuncName[t.name]+"."+meth, fmt.Sprintf("len=%d input=%s", len(b), hx(b)))
		emit("%s %s %s => panic", op, t.name, hx(b))
	case "err":
		if op == "ub" && t.width > 0 && len(b)%t.width == 0 {
			cxOracle("compact-good-length-rejected "+cxGoFuncName[t.name], fmt.Sprintf("len=%d input=%s", len(b), hx(b)))
		}
		emit("%s %s %s => err", op, t.name, hx(b))
	default:
		if op == "ub" && t.width > 0 && len(b)%t.width != 0 {
			cxOracle("compact-bad-length-accepted "+cxGoFuncName[t.name], fmt.Sprintf("len=%d input=%s", len(b), hx(b)))
		}
		rb, rerr := cxContainBytes(re)
		if op == "ub" && t.width > 0 && (rerr != nil || string(rb) != string(b)) {
			cxOracle("compact-reencode-differs "+cxGoFuncName[t.name], fmt.Sprintf("len=%d input=%s reencoded=%s", len(b), hx(b), cxEncClass(rb, rerr)))
		}
		emit("%s %s %s => ok %s re %s", op, t.name, hx(b), dump, cxEncClass(rb, rerr))
	}
}

var cxV4mapped = []byte{0, 0, 0, 0, 0, 0, 0, 0, 0, 0, 0xff, 0xff}

// structured cxContents of a given length
func cxContents(r *rng, n int, variant int) []byte {
	b := make([]byte, n)
	switch variant {
	case 0:
		copy(b, r.bytes(n))
	case 1: // zeros
	case 2:
		for i := range b {
			b[i] = 0xff
		}
	default: // v4-mapped prefixes sprinkled at every element boundary candidate
		copy(b, r.bytes(n))
		for _, off := range []int{0, 20, 18, 38, 58, 36} {
			if off+12 <= n && r.bool() {
				copy(b[off:], cxV4mapped)
			}
		}
	}
	return b
}

func cxBenStr(b []byte) []byte { return append([]byte(strconv.Itoa(len(b))+":"), b...) }

func cxGenIP(r *rng) []byte {
	switch r.intn(8) {
	case 0:
		return nil
	case 1:
		return []byte{}
	case 2, 3:
		return r.bytes(4)
	case 4:
		return r.bytes(16)
	case 5:
		return append(append([]byte{}, cxV4mapped...), r.bytes(4)...)
	case 6:
		return r.bytes(r.intn(20))
	default:
		return r.bytes(4)
	}
}

func cxGenPort(r *rng) int {
	return []int{0, 1, 80, 6881, 255, 256, 65535, 65536, -1, 70000, 1 << 40}[r.intn(11)]
}

func cxGenID(r *rng) (id krpc.ID) {
	switch r.intn(4) {
	case 0:
	case 1:
		for i := range id {
			id[i] = 0xff
		}
	default:
		copy(id[:], r.bytes(20))
	}
	return
}

// family: 4, 6 (contacts of that family only) or 0 (anything)
func cxGenAddrFam(r *rng, fam int) krpc.NodeAddr {
	switch fam {
	case 4:
		return krpc.NodeAddr{IP: r.bytes(4), Port: r.intn(65536)}
	case 6:
		return krpc.NodeAddr{IP: r.bytes(16), Port: r.intn(65536)}
	}
	return krpc.NodeAddr{IP: cxGenIP(r), Port: cxGenPort(r)}
}

func cxRunMarshalLists(r *rng, rounds int) {
	for i := 0; i < rounds; i++ {
		n := r.intn(4)
		fam := []int{4, 6, 0, 0}[r.intn(4)]
		var addrs []krpc.NodeAddr
		var infos []krpc.NodeInfo
		var hashes [][20]byte
		if r.intn(6) != 0 {
			addrs = []krpc.NodeAddr{}
			infos = []krpc.NodeInfo{}
			hashes = [][20]byte{}
		}
		for j := 0; j < n; j++ {
			a := cxGenAddrFam(r, fam)
			addrs = append(addrs, a)
			infos = append(infos, krpc.NodeInfo{ID: cxGenID(r), Addr: a})
			hashes = append(hashes, cxGenID(r))
		}
		one := func(name, dump string, bin, benc func() ([]byte, error)) {
			b, err := cxContainBytes(bin)
			emit("mb %s %s => %s", name, dump, cxEncClass(b, err))
			b, err = cxContainBytes(benc)
			emit("mbc %s %s => %s", name, dump, cxEncClass(b, err))
		}
		da, di := cxDumpAddrs(addrs), cxDumpInfos(infos)
		if addrs == nil {
			da, di = "L", "L" // a nil list and an empty one marshal alike
		}
		// through variables: the harness must still build when a method moves to the pointer receiver
		a4, a6 := krpc.CompactIPv4NodeAddrs(addrs), krpc.CompactIPv6NodeAddrs(addrs)
		i4, i6, hs := krpc.CompactIPv4NodeInfo(infos), krpc.CompactIPv6NodeInfo(infos), krpc.CompactInfohashes(hashes)
		one("addrs4", da, a4.MarshalBinary, a4.MarshalBencode)
		one("addrs6", da, a6.MarshalBinary, a6.MarshalBencode)
		one("infos4", di, i4.MarshalBinary, i4.MarshalBencode)
		one("infos6", di, i6.MarshalBinary, i6.MarshalBencode)
		one("hashes", cxDumpHashes(hashes), hs.MarshalBinary, hs.MarshalBencode)
		if len(addrs) > 0 {
			one("nodeaddr", cxDumpAddr(addrs[0]), addrs[0].MarshalBinary, addrs[0].MarshalBencode)
			b, err := cxContainBytes(infos[0].MarshalBinary)
			emit("mb nodeinfo %s => %s", cxDumpInfo(infos[0]), cxEncClass(b, err))
		}
	}
}

func codecBinary(r *rng, scale int) {
	for _, t := range cxBinTypes {
		for n := 0; n <= 80; n++ {
			for variant := 0; variant < 3+scale; variant++ {
				v := variant
				if v > 3 {
					v = 0
				}
				b := cxContents(r, n, v)
				cxRunUnmarshal("ub", t, b)
				cxRunUnmarshal("ubc", t, cxBenStr(b))
			}
		}
		if t.unmBenc != nil {
			// bencode forms other than a plain string, and malformed ones
			pay := r.bytes(26)
			if t.width > 0 {
				pay = r.bytes(t.width)
			}
			ints := "l"
			for _, x := range pay {
				ints += fmt.Sprintf("i%de", x)
			}
			ints += "e"
			for _, s := range []string{
				"", "e", "de", "le", "0:", "i0e", "i5e", "l" + string(cxBenStr(pay)) + "e", "ll" + string(cxBenStr(pay)) + "ee",
				"l" + string(cxBenStr(pay)) + string(cxBenStr(pay)) + "e", ints, "lde" + "e", "d1:ai1ee", string(cxBenStr(pay)) + "x",
				string(cxBenStr(pay))[:5], "0" + string(cxBenStr(pay)), "99:abc", "l" + string(cxBenStr(pay)), "li1e", "-1:", "1x:a",
				"li200e4:fucke", "li200e4:fuckl1:xee", "li200ee", "l4:fucki200ee", "4:fuck", "li99999999999999999999e1:xe", "lli200ee4:fucke",
				"20:" + string(r.bytes(20)), "l20:" + string(r.bytes(20)) + "e", "19:" + string(r.bytes(19)), "25:" + string(r.bytes(25)),
				"li1ei2ei3ei4ei0ei5ee", "li1ei2ei3ei4ei0ei256ee", "li1ei-2ee", "li1ee", "lli1eei2ee", "ldei2ee",
			} {
				cxRunUnmarshal("ubc", t, []byte(s))
			}
		}
	}
	cxRunMarshalLists(r, 150*scale)
}

// ---------------------------------------------------------------- (c) nodes file
func codecNodesFile(r *rng, scale int) {
	dir := filepath.Join("/verif/.work", "codec-nodesfile")
	if err := os.MkdirAll(dir, 0o755); err != nil {
		emit("# nodes file: cannot create %s: %v", dir, err)
		return
	}
	defer os.RemoveAll(dir)
	fn := filepath.Join(dir, fmt.Sprintf("nodes-%d", os.Getpid()))
	for i := 0; i < 40*scale; i++ {
		n := r.intn(5)
		fam := []int{4, 6, 0}[r.intn(3)]
		ns := []krpc.NodeInfo{}
		for j := 0; j < n; j++ {
			ns = append(ns, krpc.NodeInfo{ID: cxGenID(r), Addr: cxGenAddrFam(r, fam)})
		}
		var werr error
		wclass := cxContain(func() error { werr = dht.WriteNodesToFile(ns, fn); return werr })
		if wclass != "ok" {
			emit("nfw %s => %s", cxDumpInfos(ns), wclass)
			continue
		}
		raw, _ := os.ReadFile(fn)
		var back []krpc.NodeInfo
		rclass := cxContain(func() error { var e error; back, e = dht.ReadNodesFromFile(fn); return e })
		if rclass == "panic" {
			cxOracle("decoder-panic ReadNodesFromFile", fmt.Sprintf("len=%d input=%s", len(raw), hx(raw)))
		}
		if rclass != "ok" {
			back = nil
		}
		emit("nfw %s => ok %s read %s %s", cxDumpInfos(ns), hx(raw), rclass, cxDumpInfos(back))
	}
	for n := 0; n <= 80; n++ {
		b := cxContents(r, n, n%4)
		os.WriteFile(fn, b, 0o640)
		var back []krpc.NodeInfo
		rclass := cxContain(func() error { var e error; back, e = dht.ReadNodesFromFile(fn); return e })
		if rclass == "panic" {
			cxOracle("decoder-panic ReadNodesFromFile", fmt.Sprintf("len=%d input=%s", len(b), hx(b)))
		}
		if rclass == "ok" && n%38 != 0 {
			cxOracle("compact-bad-length-accepted ReadNodesFromFile", fmt.Sprintf("len=%d input=%s", n, hx(b)))
		}
		if rclass != "ok" {
			emit("nfr %s => %s", hx(b), rclass)
		} else {
			emit("nfr %s => ok %s", hx(b), cxDumpInfos(back))
		}
	}
	os.Remove(fn)
}

// ---------------------------------------------------------------- (b) messages
// decode b, dump, re-encode, and the second generation
func cxRunMsg(b []byte, tag string) {
	m, class := cxSafeUnmarshalMsg(b)
	if class == "panic" {
		cxOracle("decoder-panic bencode.Unmarshal(krpc.Msg)", fmt.Sprintf("len=%d input=%s", len(b), hx(b)))
		emit("msg %s => panic", hx(b))
		return
	}
	if class == "reject" {
		emit("msg %s => reject", hx(b))
		return
	}
	b1, err := cxSafeMarshal(m)
	line := fmt.Sprintf("msg %s => %s %s re %s", hx(b), class, cxDumpMsg(&m), cxEncClass(b1, err))
	if err != nil {
		cxOracle("reencode-failed "+tag, fmt.Sprintf("input=%s error=%v", hx(b), err))
		emit("%s", line)
		return
	}
	m2, class2 := cxSafeUnmarshalMsg(b1)
	if class2 == "panic" {
		cxOracle("decoder-panic bencode.Unmarshal(krpc.Msg)", fmt.Sprintf("len=%d input=%s", len(b1), hx(b1)))
	}
	var b2 []byte
	var err2 error
	if class2 == "ok" || strings.HasPrefix(class2, "trail") {
		b2, err2 = cxSafeMarshal(m2)
	}
	if class2 != "ok" || err2 != nil || string(b2) != string(b1) {
		cxOracle("not-a-fixpoint "+tag, fmt.Sprintf("input=%s reencoded=%s second-decode=%s second-encode=%s", hx(b), hx(b1), class2, cxEncClass(b2, err2)))
	}
	emit("%s gen2 %s %s", line, class2, cxEncClass(b2, err2))
}

// encode a generated message; when it is well-formed, decoding must give it back
func cxRunEnc(m *krpc.Msg, wf bool, key string) {
	d := cxDumpMsg(m)
	if strings.Contains(d, "unencodable") {
		return
	}
	b, err := cxSafeMarshal(*m)
	emit("enc %s => %s", d, cxEncClass(b, err))
	if err != nil {
		if wf {
			cxOracle("roundtrip-mismatch "+key, fmt.Sprintf("well-formed message does not encode: %s error=%v", d, err))
		}
		return
	}
	if wf {
		m2, class := cxSafeUnmarshalMsg(b)
		if class != "ok" || cxDumpMsg(&m2) != d {
			cxOracle("roundtrip-mismatch "+key, fmt.Sprintf("message=%s encoded=%s decoded-class=%s decoded=%s", d, hx(b), class, cxDumpMsg(&m2)))
		}
	}
	cxRunMsg(b, "generated:"+key)
}

func cxP64(v int64) *int64    { return &v }
func cxPint(v int) *int       { return &v }
func cxPstr(s string) *string { return &s }

func cxGenAny(r *rng, depth int) interface{} {
	switch c := r.intn(9); {
	case c == 0:
		return int64(r.intn(1000)) - 500
	case c == 1:
		return []int64{0, 1, -1, 1<<63 - 1, -1 << 63, 1 << 32}[r.intn(6)]
	case c == 2:
		x := new(big.Int).Lsh(big.NewInt(int64(1+r.intn(9))), uint(63+r.intn(80)))
		if r.bool() {
			x.Neg(x)
		}
		return x
	case c == 3:
		return string(r.bytes(r.intn(12)))
	case c == 4:
		return "spam"
	case c <= 6 && depth < 3:
		l := []interface{}{}
		for i, n := 0, r.intn(4); i < n; i++ {
			l = append(l, cxGenAny(r, depth+1))
		}
		return l
	case depth < 3:
		d := map[string]interface{}{}
		for i, n := 0, r.intn(4); i < n; i++ {
			d[string(r.bytes(r.intn(4)))] = cxGenAny(r, depth+1)
		}
		return d
	}
	return ""
}

type cxChoice struct {
	n     int
	apply func(m *krpc.Msg, c int, r *rng) bool // returns false when the choice leaves the well-formed set
}

func cxArr32(b []byte) (a [32]byte) { copy(a[:], b); return }
func cxArr64(b []byte) (a [64]byte) { copy(a[:], b); return }

func cxInfosOf(r *rng, iplens ...int) []krpc.NodeInfo {
	l := []krpc.NodeInfo{}
	for _, n := range iplens {
		l = append(l, krpc.NodeInfo{ID: cxGenID(r), Addr: krpc.NodeAddr{IP: r.bytes(n), Port: r.intn(65536)}})
	}
	return l
}

var cxMsgChoices = []struct {
	name string
	cxChoice
}{
	{"Q", cxChoice{4, func(m *krpc.Msg, c int, r *rng) bool {
		m.Q = []string{"", "ping", "get_peers", string(r.bytes(5))}[c]
		return true
	}}},
	{"T", cxChoice{4, func(m *krpc.Msg, c int, r *rng) bool {
		m.T = []string{"", "aa", string(r.bytes(4)), string(r.bytes(40))}[c]
		return true
	}}},
	{"Y", cxChoice{5, func(m *krpc.Msg, c int, r *rng) bool { m.Y = []string{"", "q", "r", "e", "xyz"}[c]; return true }}},
	{"ClientId", cxChoice{3, func(m *krpc.Msg, c int, r *rng) bool {
		m.ClientId = []string{"", "UT\x01\x02", string(r.bytes(3))}[c]
		return true
	}}},
	{"ReadOnly", cxChoice{2, func(m *krpc.Msg, c int, r *rng) bool { m.ReadOnly = c == 1; return true }}},
	{"IP", cxChoice{8, func(m *krpc.Msg, c int, r *rng) bool {
		switch c {
		case 1:
			m.IP = krpc.NodeAddr{IP: nil, Port: 7}
			return false // re-read with an empty, non-nil IP
		case 2:
			m.IP = krpc.NodeAddr{IP: []byte{}, Port: 0}
		case 3:
			m.IP = krpc.NodeAddr{IP: r.bytes(4), Port: r.intn(65536)}
		case 4:
			m.IP = krpc.NodeAddr{IP: r.bytes(16), Port: 65535}
		case 5:
			m.IP = krpc.NodeAddr{IP: r.bytes(7), Port: 1}
		case 6:
			m.IP = krpc.NodeAddr{IP: r.bytes(4), Port: 65536 + 5}
			return false
		case 7:
			m.IP = krpc.NodeAddr{IP: r.bytes(4), Port: -1}
			return false
		}
		return true
	}}},
	{"E", cxChoice{6, func(m *krpc.Msg, c int, r *rng) bool {
		switch c {
		case 1:
			m.E = &krpc.Error{}
		case 2:
			m.E = &krpc.Error{Code: 201, Msg: "A Generic Error Ocurred"}
		case 3:
			m.E = &krpc.Error{Code: -1, Msg: string(r.bytes(6))}
		case 4:
			m.E = &krpc.Error{Code: 1<<63 - 1, Msg: ""}
		case 5:
			m.E = &krpc.Error{Code: -1 << 63, Msg: "x"}
		}
		return true
	}}},
	{"A", cxChoice{2, func(m *krpc.Msg, c int, r *rng) bool {
		if c == 1 {
			m.A = &krpc.MsgArgs{}
		}
		return true
	}}},
	{"R", cxChoice{2, func(m *krpc.Msg, c int, r *rng) bool {
		if c == 1 {
			m.R = &krpc.Return{}
		}
		return true
	}}},
}

var cxArgChoices = []struct {
	name string
	cxChoice
}{
	{"a.ID", cxChoice{3, func(m *krpc.Msg, c int, r *rng) bool {
		if c > 0 {
			m.A.ID = cxGenID(r)
		}
		if c == 2 {
			copy(m.A.ID[:], r.bytes(20))
		}
		return true
	}}},
	{"a.InfoHash", cxChoice{3, func(m *krpc.Msg, c int, r *rng) bool {
		if c == 1 {
			copy(m.A.InfoHash[:], r.bytes(20))
		}
		if c == 2 {
			m.A.InfoHash[19] = 1
		}
		return true
	}}},
	{"a.Target", cxChoice{3, func(m *krpc.Msg, c int, r *rng) bool {
		if c == 1 {
			copy(m.A.Target[:], r.bytes(20))
		}
		if c == 2 {
			m.A.Target[0] = 0x80
		}
		return true
	}}},
	{"a.Token", cxChoice{3, func(m *krpc.Msg, c int, r *rng) bool {
		m.A.Token = []string{"", "tok", string(r.bytes(8))}[c]
		return true
	}}},
	{"a.Port", cxChoice{6, func(m *krpc.Msg, c int, r *rng) bool {
		if c > 0 {
			m.A.Port = cxPint([]int{0, 0, 6881, 65535, -1, 1 << 40}[c])
		}
		return true
	}}},
	{"a.ImpliedPort", cxChoice{2, func(m *krpc.Msg, c int, r *rng) bool { m.A.ImpliedPort = c == 1; return true }}},
	{"a.Want", cxChoice{5, func(m *krpc.Msg, c int, r *rng) bool {
		switch c {
		case 1:
			m.A.Want = []krpc.Want{}
		case 2:
			m.A.Want = []krpc.Want{krpc.WantNodes}
		case 3:
			m.A.Want = []krpc.Want{"n4", "n6", ""}
		case 4:
			m.A.Want = []krpc.Want{krpc.Want(r.bytes(3)), "n6"}
		}
		return true
	}}},
	{"a.NoSeed", cxChoice{3, func(m *krpc.Msg, c int, r *rng) bool { m.A.NoSeed = []int{0, 1, -5}[c]; return true }}},
	{"a.Scrape", cxChoice{3, func(m *krpc.Msg, c int, r *rng) bool { m.A.Scrape = []int{0, 1, 1 << 50}[c]; return true }}},
	{"a.V", cxChoice{8, func(m *krpc.Msg, c int, r *rng) bool {
		switch c {
		case 1:
			m.A.V = int64(0)
		case 2:
			m.A.V = ""
		case 3:
			m.A.V = []interface{}{}
		case 4:
			m.A.V = map[string]interface{}{}
		default:
			if c > 0 {
				m.A.V = cxGenAny(r, 0)
			}
		}
		return true
	}}},
	{"a.Seq", cxChoice{6, func(m *krpc.Msg, c int, r *rng) bool {
		if c > 0 {
			m.A.Seq = cxP64([]int64{0, 0, 5, -1, 1<<63 - 1, -1 << 63}[c])
		}
		return true
	}}},
	{"a.Cas", cxChoice{3, func(m *krpc.Msg, c int, r *rng) bool { m.A.Cas = []int64{0, 7, -7}[c]; return true }}},
	{"a.K", cxChoice{3, func(m *krpc.Msg, c int, r *rng) bool {
		if c == 1 {
			m.A.K = cxArr32(r.bytes(32))
		}
		if c == 2 {
			m.A.K[31] = 1
		}
		return true
	}}},
	{"a.Salt", cxChoice{4, func(m *krpc.Msg, c int, r *rng) bool {
		switch c {
		case 1:
			m.A.Salt = []byte{}
		case 2:
			m.A.Salt = []byte("salt")
		case 3:
			m.A.Salt = r.bytes(64)
		}
		return true
	}}},
	{"a.Sig", cxChoice{2, func(m *krpc.Msg, c int, r *rng) bool {
		if c == 1 {
			m.A.Sig = cxArr64(r.bytes(64))
		}
		return true
	}}},
}

var cxRetChoices = []struct {
	name string
	cxChoice
}{
	{"r.ID", cxChoice{2, func(m *krpc.Msg, c int, r *rng) bool {
		if c == 1 {
			copy(m.R.ID[:], r.bytes(20))
		}
		return true
	}}},
	{"r.Nodes", cxChoice{7, func(m *krpc.Msg, c int, r *rng) bool {
		switch c {
		case 1:
			m.R.Nodes = krpc.CompactIPv4NodeInfo{}
			return false // comes back nil
		case 2:
			m.R.Nodes = cxInfosOf(r, 4)
		case 3:
			m.R.Nodes = cxInfosOf(r, 4, 4, 4)
		case 4:
			m.R.Nodes = cxInfosOf(r, 4, 16) // wrong family: encoder panics
			return false
		case 5:
			l := cxInfosOf(r, 16)
			copy(l[0].Addr.IP, cxV4mapped)
			m.R.Nodes = l // v4-mapped: written as 4 bytes
			return false
		case 6:
			m.R.Nodes = cxInfosOf(r, 0)
			return false
		}
		return true
	}}},
	{"r.Nodes6", cxChoice{6, func(m *krpc.Msg, c int, r *rng) bool {
		switch c {
		case 1:
			m.R.Nodes6 = krpc.CompactIPv6NodeInfo{}
			return false
		case 2:
			m.R.Nodes6 = cxInfosOf(r, 16)
		case 3:
			m.R.Nodes6 = cxInfosOf(r, 16, 16)
		case 4:
			m.R.Nodes6 = cxInfosOf(r, 4) // written v4-mapped
			return false
		case 5:
			m.R.Nodes6 = cxInfosOf(r, 16, 5)
			return false
		}
		return true
	}}},
	{"r.Token", cxChoice{3, func(m *krpc.Msg, c int, r *rng) bool {
		if c > 0 {
			m.R.Token = cxPstr([]string{"", "", string(r.bytes(8))}[c])
		}
		return true
	}}},
	{"r.Values", cxChoice{6, func(m *krpc.Msg, c int, r *rng) bool {
		switch c {
		case 1:
			m.R.Values = []krpc.NodeAddr{}
		case 2:
			m.R.Values = []krpc.NodeAddr{{IP: r.bytes(4), Port: 6881}}
		case 3:
			m.R.Values = []krpc.NodeAddr{{IP: r.bytes(4), Port: 1}, {IP: r.bytes(16), Port: 65535}, {IP: r.bytes(3), Port: 0}, {IP: nil, Port: 9}}
		case 4:
			m.R.Values = []krpc.NodeAddr{{IP: r.bytes(4), Port: 65536}}
			return false
		case 5:
			m.R.Values = []krpc.NodeAddr{{IP: r.bytes(4), Port: -2}}
			return false
		}
		return true
	}}},
	{"r.BFsd", cxChoice{3, func(m *krpc.Msg, c int, r *rng) bool {
		if c > 0 {
			m.R.BFsd = new(krpc.ScrapeBloomFilter)
		}
		if c == 2 {
			copy(m.R.BFsd[:], r.bytes(256))
		}
		return true
	}}},
	{"r.BFpe", cxChoice{2, func(m *krpc.Msg, c int, r *rng) bool {
		if c > 0 {
			m.R.BFpe = new(krpc.ScrapeBloomFilter)
			copy(m.R.BFpe[:], r.bytes(256))
		}
		return true
	}}},
	{"r.Interval", cxChoice{3, func(m *krpc.Msg, c int, r *rng) bool {
		if c > 0 {
			m.R.Interval = cxP64([]int64{0, 0, 420}[c])
		}
		return true
	}}},
	{"r.Num", cxChoice{3, func(m *krpc.Msg, c int, r *rng) bool {
		if c > 0 {
			m.R.Num = cxP64([]int64{0, 69, -1}[c])
		}
		return true
	}}},
	{"r.Samples", cxChoice{4, func(m *krpc.Msg, c int, r *rng) bool {
		switch c {
		case 1:
			m.R.Samples = new(krpc.CompactInfohashes)
		case 2:
			m.R.Samples = &krpc.CompactInfohashes{}
		case 3:
			m.R.Samples = &krpc.CompactInfohashes{cxGenID(r), cxGenID(r)}
		}
		return true
	}}},
	{"r.V", cxChoice{8, func(m *krpc.Msg, c int, r *rng) bool {
		switch c {
		case 1:
			m.R.V = bencode.Bytes{} // non-nil, empty: Marshal returns an error
			return false
		case 2:
			m.R.V = bencode.Bytes("i5e")
		case 3:
			m.R.V = bencode.Bytes("l3:tee3:heee")
		case 4:
			m.R.V = bencode.Bytes("d1:b1:x1:a1:ye") // unsorted keys: kept verbatim
		case 5:
			m.R.V = bencode.Bytes("i--5e")
		case 6:
			m.R.V = bencode.Bytes("5:ab") // not one complete value
			return false
		case 7:
			m.R.V = bencode.Bytes("i5ei6e") // more than one value
			return false
		}
		return true
	}}},
	{"r.K", cxChoice{2, func(m *krpc.Msg, c int, r *rng) bool {
		if c == 1 {
			m.R.K = cxArr32(r.bytes(32))
		}
		return true
	}}},
	{"r.Sig", cxChoice{2, func(m *krpc.Msg, c int, r *rng) bool {
		if c == 1 {
			m.R.Sig = cxArr64(r.bytes(64))
		}
		return true
	}}},
	{"r.Seq", cxChoice{3, func(m *krpc.Msg, c int, r *rng) bool {
		if c > 0 {
			m.R.Seq = cxP64([]int64{0, 0, 12345678901}[c])
		}
		return true
	}}},
}

func codecGenerated(r *rng, scale int) {
	// one field at a time through all its choices, the others at their first cxChoice
	for i, f := range cxMsgChoices {
		for c := 0; c < f.n; c++ {
			m := krpc.Msg{T: "aa", Y: "q"}
			wf := f.apply(&m, c, r.sub(i*100+c))
			cxRunEnc(&m, wf, fmt.Sprintf("%s=%d", f.name, c))
		}
	}
	for i, f := range cxArgChoices {
		for c := 0; c < f.n; c++ {
			m := krpc.Msg{T: "aa", Y: "q", Q: "x", A: &krpc.MsgArgs{}}
			wf := f.apply(&m, c, r.sub(5000+i*100+c))
			cxRunEnc(&m, wf, fmt.Sprintf("%s=%d", f.name, c))
		}
	}
	for i, f := range cxRetChoices {
		for c := 0; c < f.n; c++ {
			m := krpc.Msg{T: "aa", Y: "r", R: &krpc.Return{}}
			wf := f.apply(&m, c, r.sub(9000+i*100+c))
			cxRunEnc(&m, wf, fmt.Sprintf("%s=%d", f.name, c))
		}
	}
	// random points of the full product
	for n := 0; n < 400*scale; n++ {
		rr := r.sub(20000 + n)
		var m krpc.Msg
		wf := true
		var key []string
		for _, f := range cxMsgChoices {
			c := rr.intn(f.n)
			if rr.intn(3) == 0 {
				c = 0
			}
			wf = f.apply(&m, c, rr) && wf
			key = append(key, strconv.Itoa(c))
		}
		if m.A != nil {
			for _, f := range cxArgChoices {
				c := rr.intn(f.n)
				if rr.intn(3) == 0 {
					c = 0
				}
				wf = f.apply(&m, c, rr) && wf
				key = append(key, strconv.Itoa(c))
			}
		}
		if m.R != nil {
			for _, f := range cxRetChoices {
				c := rr.intn(f.n)
				if rr.intn(2) == 0 {
					c = 0
				}
				wf = f.apply(&m, c, rr) && wf
				key = append(key, strconv.Itoa(c))
			}
		}
		cxRunEnc(&m, wf, "fields="+strings.Join(key, "."))
	}
}

func cxReadFuzzCorpus() [][]byte {
	var out [][]byte
	dir := filepath.Join(os.Getenv("VERIF_REPO"), "krpc", "testdata", "fuzz", "Fuzz")
	if os.Getenv("VERIF_REPO") == "" {
		dir = "/repo/krpc/testdata/fuzz/Fuzz"
	}
	ents, err := os.ReadDir(dir)
	if err != nil {
		return nil
	}
	var names []string
	for _, e := range ents {
		names = append(names, e.Name())
	}
	sort.Strings(names)
	for _, n := range names {
		raw, err := os.ReadFile(filepath.Join(dir, n))
		if err != nil {
			continue
		}
		for _, line := range strings.Split(string(raw), "\n") {
			line = strings.TrimSpace(line)
			if strings.HasPrefix(line, "[]byte(") && strings.HasSuffix(line, ")") {
				if s, err := strconv.Unquote(line[7 : len(line)-1]); err == nil {
					out = append(out, []byte(s))
				}
			}
		}
	}
	return out
}

const cxId20 = "20:XXXXXXXXXXXXXXXXXXXX"

// one directed case per decoder quirk of DESIGN.md Appendix A (and those met while building the model)
func cxDirectedCases() []string {
	z20 := strings.Repeat("\x00", 20)
	k := strings.Repeat("k", 32)
	sig := strings.Repeat("s", 64)
	a := func(s string) string { return "d1:ad2:id" + cxId20 + s + "e1:q1:x1:t2:aa1:y1:qe" }
	rr := func(s string) string { return "d1:rd2:id" + cxId20 + s + "e1:t2:aa1:y1:re" }
	cases := []string{
		// literal vectors of krpc/msg_test.go
		"d1:rd2:cxId20:hellohellohellohello8:intervali420e7:samples0:e1:t5:hello1:y1:re",
		"d1:t0:1:y0:e", "d1:q4:ping1:t2:hi1:y1:qe", "d1:eli200e4:fucke1:t2:421:y1:ee",
		"d1:rd2:cxId20:" + z20 + "e1:t2:\x8c%1:y1:re",
		"d1:rd2:cxId20:" + z20 + "5:nodes26:" + z20 + "\x01\x02\x03\x04\x124e1:t2:\x8c%1:y1:re",
		"d1:rd2:cxId20:" + z20 + "6:valuesl6:\x01\x02\x03\x04\x56\x78ee1:t2:\x8c%1:y1:re",
		"d2:ip6:|\xa8\xb4\b\xf5|1:rd2:cxId20:\xeb\xff6isQ\xffJ\xec)\xcd\xba\xab\xf2\xfb\xe3F|\xc2ge1:t1:\x031:y1:re",
		"d1:ad2:cxId20:" + z20 + "1:k32:" + k + "3:seqi0e3:sig64:" + sig + "e1:t0:1:y0:e",
		"d1:rd2:cxId20:" + z20 + "1:k32:" + k + "3:seqi0e3:sig64:" + sig + "1:vl3:tee3:heeee1:t0:1:y0:e",
		"d2:roi1e1:t0:1:y0:e", "de", "d2:roi1ee", "d2:roi0ee",
		"d1:rd6:valuesl6:\x01\x02\x03\x04\x05\x066:\x07\x08\x09\x0a\x0b\x0ce5:nodes52:" + strings.Repeat("\x02\x03\x04\x05\x06\x07\x08\x09\x0a\x0b\x0c\x0d\x02\x03\x04\x05\x06\x07\x08\x09\x02\x03\x04\x05\x06\x07", 2) + "ee",
		"d1:rd2:cxId20:" + z20 + "7:samples0:e1:t0:1:y0:e",
		"d1:rd2:cxId20:" + z20 + "e1:t1:t1:y1:re",
		"d1:q13:announce_peer1:t2:aa1:y1:qe",
		// 1. top level, trailing bytes
		"", "d", "e", "i5e", "4:spam", "le", "l", "ld1:t1:a1:y1:qee", "lld1:t1:a1:y1:qeee", "ld1:t1:aed1:t1:bee", "lde", "ldee",
		"d1:t1:xe1:y", "dee", "de\x00", "d1:t1:xe" + strings.Repeat("z", 70),
		// 2. struct targets: unsorted / duplicate keys, wholesale replacement, unknown keys
		"d1:y1:q1:t2:aa1:q4:pinge", "d1:t1:x1:t1:ze", a("") + "", "d1:ad2:id" + cxId20 + "5:token1:xe1:ad2:id" + cxId20 + "ee",
		"d1:rd2:id" + cxId20 + "5:token1:xe1:rdee", "d3:zzzi5e1:t1:xe", "d3:zzzd1:b1:x1:a1:ye1:t1:xe", "d3:zzzd1:a1:x1:a1:ye1:t1:xe",
		"d3:zzzli05eee", "d3:zzz03:abce", "d3:zzzi-0ee", "d3:zzzi99999999999999999999999e1:t1:xe", "d3:zzzle1:t1:xe", "d3:zzze", "d3:zzz",
		"d3:zzzd1:xe1:t1:xe", "d3:zzzdi1e1:xee", "d3:zzzdl1:ae1:xee", "d0:i1e1:t1:xe",
		// 3. singleton-list coercion, also for keys, also nested
		rr("") + "", "d1:rd2:idl" + cxId20 + "eee", "d1:rd2:idll" + cxId20 + "eeee", "d1:rd2:idl" + cxId20 + cxId20 + "eee", "d1:rd2:idleee",
		"d1:ald2:id" + cxId20 + "eee", "d1:alld2:id" + cxId20 + "eeee", "d1:ald2:id" + cxId20 + "ed2:id" + cxId20 + "eee", "d1:alee",
		a("4:portli5ee"), a("4:portlli5eee"), a("4:portli5ei6ee"), a("4:portle"), "dl1:tel1:xee", "dll1:teel1:xee", "dl1:t1:ue1:xe", "dle1:xe",
		a("4:wantll2:n4eee"), a("4:wantl2:n4l2:n6eee"), a("4:saltlli1eeee"), "d2:roli1eee", "d2:roleee",
		// the empty dictionary is accepted by every non-struct target and leaves the zero value
		"d1:tde1:y1:qe", "dde1:xe", "dde1:t1:xe", a("4:portde"), a("4:saltde"), a("4:wantde"), a("1:kde"), a("5:tokende"), a("12:implied_portde"),
		a("3:seqde"), a("1:vde"), a("2:idde"), rr("5:tokende"), rr("6:valuesde"), rr("5:nodesde"), rr("7:samplesde"), rr("4:BFsdde"), rr("1:vde"),
		"d2:ipdee", "d1:edee", "d1:tldeee", a("4:wantl2:n4dee"), a("4:saltli1edeee"), "d1:td1:xi1eee", "d1:tdi1eee",
		// scratch buffer of the decoder still holds the last raw value when a key is the empty dictionary
		rr("dei5e"), rr("de1:x"), rr("dele"), rr("delleleee"), rr("dede"), rr("ded1:a1:be"), rr("ldeei5e"), rr("deli5ee"), "d1:t1:xdei5ee",
		"d1:eli200e4:fuckedei5e1:t1:xe", "d2:ip6:abcdefdei5ee", rr("5:nodes0:dei5e"), rr("6:valuesl6:abcdefedei5e"), rr("1:vi7edei5e"),
		rr("1:vi7ede1:x"), rr("1:v1:ydei5e"), rr("1:v1:ydele"),
		// 4. integers: leading character only; overflow; bool targets
		a("4:porti0e"), a("4:porti-0e"), a("4:porti00e"), a("4:porti05e"), a("4:porti-5e"), a("4:porti--5e"), a("4:porti+5e"), a("4:portie"), a("4:porti-e"),
		a("4:porti5xe"), a("4:porti9223372036854775807e"), a("4:porti9223372036854775808e"), a("4:porti-9223372036854775808e"),
		a("4:porti-9223372036854775809e"), a("4:porti1_0e"), a("4:porti 5e"), a("4:porti5"), a("4:port1:5"), a("3:seqi99999999999999999999e"),
		"d2:roiee", "d2:roi-ee", "d2:roixee", "d2:roi00ee", "d2:roi-0ee", "d2:roi1xyzee", "d2:roi99999999999999999999999ee", "d2:ro1:1e", "d2:roi0e2:roi5ee",
		a("12:implied_portie"), a("12:implied_porti0e"), a("6:noseedi1e6:scrapei-1e"), a("3:casi5e"),
		// 5. strings: leading zero; exact / truncated / padded; lists of integers; wrong container
		"d1:t01:xe", "d1:t00:e", "d01:t1:xe", "d1:t0:e", "d1:t-1:e", "d1:t1x:ae", "d1:t2:ae", a("1:k3:abc"), a("1:k40:" + strings.Repeat("K", 40)), a("1:k0:"),
		a("3:sig3:abc"), rr("4:BFsd3:abc"), rr("4:BFpe300:" + strings.Repeat("B", 300)), a("1:kli1ei2ee"), a("1:kl" + strings.Repeat("i7e", 40) + "e"),
		a("1:kl" + strings.Repeat("i7e", 32) + "3:abce"), a("1:kl" + strings.Repeat("i7e", 32) + "i05ee"), a("1:kli256ee"), a("1:kli-1ee"), a("1:kl1:aee"), a("1:kle"),
		a("4:saltli1ei2ei255ee"), a("4:saltle"), a("4:salt0:"), a("4:salti5e"), a("4:saltl1:aee"), "d2:ipli1ei2ei3ei4ei0ei5eee", "d2:ipli1eee", "d2:iplee",
		a("4:want2:n4"), a("4:wantle"), a("4:wantl2:n42:n6e"), a("4:wantli4ee"), rr("6:values6:abcdef"), rr("6:valuesle"), rr("6:valuesl6:abcdef2:xye"),
		rr("6:valuesl1:xe"), rr("6:valuesli5ee"), rr("6:valuesll6:abcdefee"), rr("6:valuesl0:e"), rr("6:valueslli1ei2ei3ei4ei0ei5eeee"),
		// 6. interface{} targets: a.v
		a("1:vi5e"), a("1:v4:spam"), a("1:vle"), a("1:vde"), a("1:vd1:a1:x1:b1:ye"), a("1:vd1:b1:x1:a1:ye"), a("1:vd1:a1:x1:a1:ye"), a("1:vdi1e1:xe"),
		a("1:vi99999999999999999999e"), a("1:vi-99999999999999999999e"), a("1:vli1eli2eed0:lee4:spame"), a("1:vi05e"), a("1:vi-0e"), a("1:ve"), a("1:v"),
		a("1:vl1:ae"), a("1:vll4:spamee"), a("1:vd1:ad1:bd1:cleeee"), a("1:v03:abc"),
		// 7. types with their own UnmarshalBencode
		"d1:rd2:id19:XXXXXXXXXXXXXXXXXXXee", "d1:rd2:id21:XXXXXXXXXXXXXXXXXXXXYee", "d1:rd2:id0:ee", "d1:rd2:idi5eee", "d1:rd2:id020:XXXXXXXXXXXXXXXXXXXXee",
		"d1:rd2:id" + cxId20 + "e", "d1:rd2:ide", "d1:rd2:id", "d1:rd2:cxId20:XXXX", "d1:rd2:idl20:XXXXXXXXXXXXXXXXXXXXee",
		"d2:ip0:e", "d2:ip1:xe", "d2:ip2:\x00\x00e", "d2:ip6:abcdefe", "d2:ip18:" + strings.Repeat("i", 18) + "e", "d2:ip7:abcdefge", "d2:ipi5ee", "d2:ipl6:abcdefee",
		rr("5:nodes0:"), rr("5:nodes26:" + strings.Repeat("n", 26)), rr("5:nodes25:" + strings.Repeat("n", 25)), rr("5:nodes27:" + strings.Repeat("n", 27)),
		rr("5:nodes52:" + strings.Repeat("n", 52)), rr("5:nodesl26:" + strings.Repeat("n", 26) + "e"), rr("5:nodesle"), rr("5:nodesi5e"), rr("5:nodes026:" + strings.Repeat("n", 26)),
		rr("6:nodes638:" + strings.Repeat("m", 38)), rr("6:nodes637:" + strings.Repeat("m", 37)), rr("6:nodes60:"), rr("6:nodes626:" + strings.Repeat("m", 26)),
		rr("7:samples20:" + strings.Repeat("h", 20)), rr("7:samples19:" + strings.Repeat("h", 19)), rr("7:samples40:" + strings.Repeat("h", 40)), rr("7:samplesle"),
		"d1:eli200e4:fucke1:t2:421:y1:ee", "d1:eli5eee", "d1:eli5e1:xi7eee", "d1:eli5e1:xl1:ye1:zee", "d1:e3:abce", "d1:e0:e", "d1:edee", "d1:ei5ee", "d1:elee",
		"d1:eli99999999999999999999e1:xee", "d1:el1:xi5eee", "d1:eli5ei6eee", "d1:eli-9223372036854775808e0:ee", "d1:eli05e1:xee", "d1:eld1:b1:x1:a1:yeee", "d1:eli5e1:x",
		"d1:ell4:spamee", "d1:eli5el1:xeee",
		rr("1:vi--5e"), rr("1:v03:abc"), rr("1:vd1:b1:x1:a1:ye"), rr("1:vdi1ei2ee"), rr("1:vli1e"), rr("1:vlllleeee"), rr("1:vi"), rr("1:v5:ab"), rr("1:vx"),
		rr("1:v1:x"), rr("1:vle"), rr("1:v99999999999999999999:x"), rr("1:v9223372036854775807:x"), rr("1:v9223372036854775808:x"), rr("1:v1x:a"), rr("1:vie"),
		// 8. a wrongly typed known field is fatal
		"d1:ti5ee", "d1:tlee", "d1:qi1ee", "d1:ai5ee", "d1:a1:xe", "d1:r1:xe", "d1:rlee", "d1:yd1:a1:bee", a("5:tokeni5e"), a("5:tokenle"), rr("5:tokeni5e"),
		a("4:port1:x"), rr("8:intervali5e3:numi-6e3:seqi7e"), rr("8:interval1:5"), rr("3:num" + "le"),
	}
	// wrong value form for every known key of every struct
	forms := []string{"i5e", "1:x", "le", "de", "li5ee", "l1:xe", "d1:a1:be", "26:" + strings.Repeat("q", 26), "lli5eee", "i-1e", "0:", "e"}
	for _, key := range []string{"q", "t", "y", "ip", "ro", "v", "e", "a", "r"} {
		for _, f := range forms {
			cases = append(cases, "d"+string(cxBenStr([]byte(key)))+f+"e")
		}
	}
	for _, key := range []string{"id", "info_hash", "target", "token", "port", "implied_port", "want", "noseed", "scrape", "v", "seq", "cas", "k", "salt", "sig"} {
		for _, f := range forms {
			cases = append(cases, "d1:ad"+string(cxBenStr([]byte(key)))+f+"ee")
		}
	}
	for _, key := range []string{"id", "nodes", "nodes6", "token", "values", "BFsd", "BFpe", "interval", "num", "samples", "v", "k", "sig", "seq"} {
		for _, f := range forms {
			cases = append(cases, "d1:rd"+string(cxBenStr([]byte(key)))+f+"ee")
		}
	}
	return cases
}

func codecMalformed(r *rng, scale int, bases [][]byte) {
	// truncation at every offset; one extra / one missing terminator
	for _, b := range bases {
		for i := 0; i < len(b); i++ {
			cxRunMsg(b[:i], "truncated")
		}
		cxRunMsg(append(append([]byte{}, b...), 'e'), "trailing")
		cxRunMsg(append(append([]byte{}, b...), b...), "trailing")
	}
	// single-byte mutations
	interesting := []byte{'d', 'l', 'i', 'e', ':', '0', '1', '9', '-', 0, 0xff}
	for n := 0; n < 1500*scale; n++ {
		b := append([]byte{}, bases[r.intn(len(bases))]...)
		if len(b) == 0 {
			continue
		}
		pos := r.intn(len(b))
		switch r.intn(4) {
		case 0:
			b[pos] = interesting[r.intn(len(interesting))]
		case 1:
			b[pos] = byte(r.next())
		case 2: // delete a byte
			b = append(b[:pos], b[pos+1:]...)
		default: // insert a byte
			b = append(b[:pos], append([]byte{interesting[r.intn(len(interesting))]}, b[pos:]...)...)
		}
		cxRunMsg(b, "mutated")
	}
	// deep nesting, in an ignored key, in a.v, in r.v, and of the message itself
	for _, n := range []int{1, 2, 50, 1000, 5000} { // the model's encoder is quadratic in the nesting depth: not scaled
		l, e := strings.Repeat("l", n), strings.Repeat("e", n)
		cxRunMsg([]byte("d1:t2:aa1:xl"+l+e+"e1:y1:qe"), "nesting")
		cxRunMsg([]byte("d1:t2:aa1:x"+strings.Repeat("d1:a", n)+"de"+e+"1:y1:qe"), "nesting")
		cxRunMsg([]byte("d1:ad2:id"+cxId20+"1:v"+l+e+"e1:t2:aa1:y1:qe"), "nesting")
		cxRunMsg([]byte("d1:rd2:id"+cxId20+"1:v"+l+e+"e1:t2:aa1:y1:re"), "nesting")
		cxRunMsg([]byte(l+"d1:t2:aa1:y1:qe"+e), "nesting")
		cxRunMsg([]byte("d1:rd2:id"+l+cxId20+e+"e1:t2:aa1:y1:re"), "nesting")
		cxRunMsg([]byte("d1:t2:aa1:xl"+l+e), "nesting")
	}
	// huge declared lengths (the decoder allocates up to 128 MiB for one string: one case at a time)
	for _, ln := range []string{"134217727", "134217728", "99999999", "2147483648", "9223372036854775807", "9223372036854775808", "18446744073709551616", "1000000000000000000000000000000"} {
		for _, pre := range []string{"d", "d1:t", "d1:x", "d1:ad2:id", "d1:ad1:v", "d1:rd1:v", "d1:ad4:salt", "d1:ad1:k", "d1:e", "d2:ip", "d1:rd5:nodes"} {
			cxRunMsg([]byte(pre+ln+":abc"), "huge-length")
			debug.FreeOSMemory()
		}
	}
}

func codecEngine(seed uint64, tier string, _ []string) {
	r := &rng{s: seed}
	scale := 1
	if tier == "thorough" {
		scale = 8
	}
	debug.SetGCPercent(50)
	// (b) first: seed corpus, literal vectors and directed quirk cases
	for _, b := range cxReadFuzzCorpus() {
		cxRunMsg(b, "corpus")
	}
	dc := cxDirectedCases()
	for _, s := range dc {
		cxRunMsg([]byte(s), "directed")
	}
	codecGenerated(r.sub(1), scale)
	var bases [][]byte
	for _, i := range []int{0, 3, 5, 6, 7, 8, 9, 14} {
		bases = append(bases, []byte(dc[i]))
	}
	full := krpc.Msg{Q: "get", T: "tt", Y: "q", ClientId: "UT", ReadOnly: true, IP: krpc.NodeAddr{IP: []byte{1, 2, 3, 4}, Port: 5},
		A: &krpc.MsgArgs{Token: "tk", Port: cxPint(6881), ImpliedPort: true, Want: []krpc.Want{"n4", "n6"}, NoSeed: 1, Scrape: 1,
			V: map[string]interface{}{"a": int64(1), "b": []interface{}{"x"}}, Seq: cxP64(3), Cas: 2, Salt: []byte("s")},
		R: &krpc.Return{Nodes: cxInfosOf(r, 4), Nodes6: cxInfosOf(r, 16), Token: cxPstr("tok"), Values: []krpc.NodeAddr{{IP: []byte{9, 9, 9, 9}, Port: 9}},
			Bep51Return: krpc.Bep51Return{Interval: cxP64(1), Num: cxP64(2), Samples: &krpc.CompactInfohashes{cxGenID(r)}},
			Bep44Return: krpc.Bep44Return{V: bencode.Bytes("i5e"), Seq: cxP64(4)}},
		E: &krpc.Error{Code: 203, Msg: "bad"}}
	full.A.ID[0], full.A.InfoHash[0], full.A.Target[0], full.A.K[0], full.A.Sig[0] = 1, 2, 3, 4, 5
	full.R.K[0], full.R.Sig[0] = 6, 7
	if b, err := cxSafeMarshal(full); err == nil {
		bases = append(bases, b)
	}
	codecMalformed(r.sub(2), scale, bases)
	// (a) binary codecs of every length 0..80
	codecBinary(r.sub(3), scale)
	// (c) nodes file
	codecNodesFile(r.sub(4), scale)
	// (d), (e) the encoders under other callers than bencode.Marshal(krpc.Msg): codec_hold.go
	codecHold(r.sub(5), scale)
}
