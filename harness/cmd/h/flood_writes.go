package main

// Engine "flood", case kinds "tokens" (C10) and "peers" (C11): what a reply CARRIES when many replies
// are put together at the same time.
//
// The server engine lets every event settle before the next one; the api engine's floods await the
// acknowledgements only. Here the content of every reply of a burst is attributed (by transaction id
// and destination) to the query it answers and checked against what that query is entitled to:
//
//   tokens  (C10) hosts with pairwise distinct IPs (4-byte, IPv6, v4-mapped; some IPs twice, from two
//           ports) ask for a token at the same time (get_peers when the node has a peer store, BEP 44
//           get otherwise or as well), other queries in between. Then every host writes (announce_peer
//           with port / implied_port, or an immutable put) from ITS OWN IP - same or another source
//           port, a v4-mapped host also in its 4-byte spelling - with the token found in the reply IT
//           received: the token is seconds old, the write must take effect (peer store call,
//           OnAnnouncePeer callback, item served by a later get) and be acknowledged. In the same
//           burst the token delivered to host A is presented from the IP of host B (its neighbours in
//           the delivery order and a random one), and, with several nodes in the process, to another
//           node from A's own IP: nothing may be stored, no callback, no reply. Two hosts with
//           different IPs must not be handed the same token (one of the two clauses would fail).
//   peers   (C11) a population of infohashes whose peers announce over the wire (tokens, port or
//           implied_port); every endpoint says which infohash it belongs to (it is derived from the
//           infohash's index). At rest, batches of get_peers from IPv4 / IPv6 / v4-mapped requesters
//           with want absent / n4 / n6 / n4+n6 for all infohashes (and unknown ones) are answered at
//           once: each reply's values are endpoints announced for THAT infohash, every acknowledged
//           peer of a wanted family is there once, 6-byte entries only for IPv4 wanters and 18-byte
//           ones only for IPv6 wanters, a token is present; `ip` is the requester (C08).
//
// How the replies are made to overlap (field sched):
//   inject   one datagram is handed over as soon as the serve loop asks for the next (as in the other flood cases)
//   queue    the whole burst sits in a buffered fake socket before the serve loop sees the first datagram
//   oneproc  queue under runtime.GOMAXPROCS(1): the serve loop handles a long run of queries before any of
//            the reply goroutines it started is scheduled
//   multi    several nodes in one process (package-level state is shared between them), each with its own
//            queue, all flooded at the same instant from as many goroutines: replies are encoded on all
//            processors at once by construction, not by luck
// The verdicts do not depend on the interleaving: a reply is attributed by (t, destination), a write is
// "ignored" only when neither its acknowledgement nor its effect has shown up although every later
// write of the same node was answered and nothing new has arrived for 5 s; "accepted" needs a
// datagram or an effect that is really there.

import (
	"crypto/sha1"
	"fmt"
	"net"
	"os"
	"runtime"
	"sort"
	"strings"
	"sync"
	"sync/atomic"
	"time"

	"github.com/anacrolix/log"
	"github.com/anacrolix/torrent/bencode"
	"github.com/anacrolix/torrent/metainfo"
	"golang.org/x/time/rate"

	dht "github.com/anacrolix/dht/v2"
	"github.com/anacrolix/dht/v2/krpc"
	peer_store "github.com/anacrolix/dht/v2/peer-store"
)

// which of the engine's case families a run executes: a C10 / C11 check runs only its own family
// (the rest of the engine does not print lines of that property), the other checks keep their cases
// and get one small case of each new family (C01: the node survives; C08: ip / one reply per query)
func floodWriteCases(tier string) (own []floodCfg, only bool) {
	prop := os.Getenv("VERIF_PROP")
	thorough := tier == "thorough"
	var tok, peers []floodCfg
	// ---- tokens
	type tc struct {
		store, sched string
		wait         bool
	}
	quickTok := []tc{
		{"ps", "queue", false}, {"ps+hook", "oneproc", true}, {"hook", "queue", true}, {"none", "queue", false},
		{"ps", "multi", false}, {"ps+hook", "inject", false}, {"none", "oneproc", true}, {"hook", "multi", true},
		{"ps", "oneproc", false}, {"ps+hook", "multi", true},
	}
	if thorough {
		quickTok = nil
		for _, st := range []string{"ps", "ps+hook", "hook", "none"} {
			for _, sc := range []string{"inject", "queue", "oneproc", "multi"} {
				for _, w := range []bool{false, true} {
					quickTok = append(quickTok, tc{st, sc, w})
				}
			}
		}
	}
	for _, c := range quickTok {
		f := floodCfg{kind: "tokens", store: c.store, sched: c.sched, wait: c.wait, rate: -1, burst: 1, n: 48, rounds: 4, method: "token-then-write"}
		if thorough {
			f.n, f.rounds = 160, 12
		}
		tok = append(tok, f)
	}
	// ---- peers
	peers = []floodCfg{
		{kind: "peers", store: "ps", sched: "multi", rate: -1, burst: 1, n: 1024, rounds: 4, method: "get_peers"},
		{kind: "peers", store: "ps", sched: "queue", rate: -1, burst: 1, n: 768, rounds: 3, method: "get_peers"},
		{kind: "peers", store: "ps", sched: "multi", wait: true, rate: -1, burst: 1, n: 1024, rounds: 4, method: "get_peers+find_node"},
		{kind: "peers", store: "ps", sched: "oneproc", rate: -1, burst: 1, n: 384, rounds: 2, method: "get_peers"},
		{kind: "peers", store: "ps", sched: "inject", rate: -1, burst: 1, n: 256, rounds: 2, method: "get_peers+find_node"},
	}
	if thorough {
		var more []floodCfg
		for _, p := range peers {
			p.n, p.rounds = p.n*2, p.rounds*6
			more = append(more, p)
		}
		peers = append(peers, more...)
	}
	switch prop {
	case "C10":
		return tok, true
	case "C11":
		return peers, true
	case "C20", "C12":
		return nil, false
	case "":
		return append(tok, peers...), false
	}
	small := []floodCfg{
		{kind: "tokens", store: "ps+hook", sched: "queue", rate: -1, burst: 1, n: 32, rounds: 2, method: "token-then-write"},
		{kind: "peers", store: "ps", sched: "multi", rate: -1, burst: 1, n: 512, rounds: 2, method: "get_peers+find_node"},
	}
	return small, false
}

// ---------------------------------------------------------------- nodes

type fwEffects struct {
	mu    sync.Mutex
	adds  map[string]int // peer store calls
	hooks map[string]int // OnAnnouncePeer callbacks
}

func fwKey(ih [20]byte, ip net.IP, port int) string {
	return fmt.Sprintf("%x|%x|%d", ih[:], []byte(ip.To16()), port)
}

type fwStore struct {
	inner *peer_store.InMemory
	eff   *fwEffects
}

func (s *fwStore) AddPeer(ih peer_store.InfoHash, na krpc.NodeAddr) {
	s.inner.AddPeer(ih, na)
	s.eff.mu.Lock()
	s.eff.adds[fwKey(ih, na.IP, na.Port)]++
	s.eff.mu.Unlock()
}

func (s *fwStore) GetPeers(ih peer_store.InfoHash) []krpc.NodeAddr { return s.inner.GetPeers(ih) }

type fwNode struct {
	*floodSrv
	k    int
	root [20]byte
	eff  *fwEffects
}

// a Server on a fake socket with a receive queue of the given depth (0: unbuffered)
func newFwNode(r *rng, k, depth int, wait bool, store peer_store.Interface, hook bool) *fwNode {
	n := &fwNode{k: k, eff: &fwEffects{adds: map[string]int{}, hooks: map[string]int{}}}
	copy(n.root[:], r.bytes(20))
	conn := &fakeConn{in: make(chan fpkt, depth), closed: make(chan struct{}), local: &net.UDPAddr{IP: net.IPv4(127, 0, 0, 1), Port: 4300 + k}}
	cfg := &dht.ServerConfig{
		NodeId:        n.root,
		Conn:          conn,
		NoSecurity:    true,
		WaitToReply:   wait,
		StartingNodes: func() ([]dht.Addr, error) { return nil, nil },
		Logger:        log.NewLogger().FilterLevel(log.Critical),
		SendLimiter:   rate.NewLimiter(rate.Inf, 1),
		Exp:           2 * time.Hour,
	}
	if fs, ok := store.(*fwStore); ok && fs != nil {
		fs.eff = n.eff
		cfg.PeerStore = fs
	} else if store != nil {
		cfg.PeerStore = store
	}
	if hook {
		cfg.OnAnnouncePeer = func(ih metainfo.Hash, ip net.IP, port int, portOk bool) {
			n.eff.mu.Lock()
			n.eff.hooks[fwKey(ih, ip, port)]++
			n.eff.mu.Unlock()
		}
	}
	s, err := dht.NewServer(cfg)
	if err != nil {
		panic(err)
	}
	n.floodSrv = &floodSrv{conn: conn, s: s, replies: map[string]*krpc.Msg{}, poll: 500 * time.Microsecond}
	for dl := time.Now().Add(5 * time.Second); atomic.LoadInt64(&conn.reads) == 0 && time.Now().Before(dl); {
		time.Sleep(20 * time.Microsecond)
	}
	return n
}

func (n *fwNode) effect(key string) (added, hooked bool) {
	n.eff.mu.Lock()
	defer n.eff.mu.Unlock()
	return n.eff.adds[key] > 0, n.eff.hooks[key] > 0
}

type fwDgram struct {
	b    []byte
	from *net.UDPAddr
	key  string // reply key (t|from); "" when no reply is awaited
}

// deliver hands each node its datagrams: one goroutine per node, started together ("multi"); through
// inject when the socket is unbuffered. Returns false when a socket stopped taking datagrams.
func fwDeliver(nodes []*fwNode, per [][]fwDgram, sched string) bool {
	ok := int32(1)
	one := func(k int) {
		for _, d := range per[k] {
			var done bool
			if sched == "inject" {
				done = nodes[k].conn.inject(d.b, d.from, 5*time.Second)
			} else {
				done = nodes[k].push(d.b, d.from)
			}
			if !done {
				atomic.StoreInt32(&ok, 0)
				return
			}
		}
	}
	if len(nodes) == 1 {
		one(0)
		return ok == 1
	}
	var wg sync.WaitGroup
	start := make(chan struct{})
	for k := range nodes {
		wg.Add(1)
		go func(k int) {
			defer wg.Done()
			<-start
			one(k)
		}(k)
	}
	close(start)
	wg.Wait()
	return ok == 1
}

// awaits the replies of every node's keyed datagrams, all nodes together, for as long as replies keep
// arriving (gives up after `stall` without a new one anywhere, or 60 s); returns the number of keys
// still unanswered
func fwAwait(nodes []*fwNode, per [][]fwDgram, stall time.Duration) int {
	pending := make([][]string, len(nodes))
	left := 0
	for k := range nodes {
		for _, d := range per[k] {
			if d.key != "" {
				pending[k] = append(pending[k], d.key)
				left++
			}
		}
	}
	start := time.Now()
	last := start
	for {
		got := 0
		for k, n := range nodes {
			if n.drain() == 0 && len(pending[k]) == 0 {
				continue
			}
			w := 0
			for _, key := range pending[k] {
				if n.replies[key] == nil {
					pending[k][w] = key
					w++
				}
			}
			got += len(pending[k]) - w
			pending[k] = pending[k][:w]
		}
		left -= got
		now := time.Now()
		if got > 0 {
			last = now
		}
		if left == 0 || now.Sub(last) > stall || now.Sub(start) > 60*time.Second {
			return left
		}
		time.Sleep(500 * time.Microsecond)
	}
}

func fwServers() int {
	k := runtime.NumCPU() / 2
	if k < 2 {
		k = 2
	}
	if k > 6 {
		k = 6
	}
	return k
}

type onceKeys struct{ seen map[string]int }

// reports an oracle key once per case (the first instance is the replay), counting the rest
func (o *onceKeys) hit(prop, key, format string, a ...interface{}) {
	if o.seen == nil {
		o.seen = map[string]int{}
	}
	o.seen[prop+" "+key]++
	if o.seen[prop+" "+key] == 1 {
		oracle(prop, key, format, a...)
	}
}

func (o *onceKeys) summary() string {
	var ks []string
	for k, n := range o.seen {
		ks = append(ks, fmt.Sprintf("%s x%d", k, n))
	}
	sort.Strings(ks)
	if len(ks) == 0 {
		return "-"
	}
	return strings.Join(ks, ", ")
}

func fwProbe(nodes []*fwNode, idx int, ctxs, kind string) {
	for k, n := range nodes {
		probe := udp([]byte{203, 0, 113, 9}, 40000+idx)
		pm := bencode.MustMarshal(krpc.Msg{Q: "ping", Y: "q", T: "probe", A: &krpc.MsgArgs{ID: krpc.ID{9}}})
		key := floodKey("probe", probe)
		if !n.push(pm, probe) || n.awaitAll([]string{key}, 5*time.Second) != 1 {
			oracle("C01", "probe-ping-not-answered:flood-"+kind, "%s node=%d", ctxs, k)
		}
	}
}

// ---------------------------------------------------------------- kind "tokens"

type fwHost struct {
	addr  *net.UDPAddr // the token query's source
	node  int
	id    [20]byte
	tokq  string // get_peers | get
	tkey  string
	token string
	// the host's own write
	write   string // announce_peer | put
	wsrc    *net.UDPAddr
	wt      string
	ih      [20]byte
	port    int // the endpoint's port (announce_peer)
	implied bool
	val     string
}

type fwWrite struct {
	fwDgram
	node   int
	method string
	ekey   string // effect key (announce_peer)
	val    string // stored value (put)
	owner  int    // host whose token is presented
	user   int    // host from whose IP it is sent
	cross  string // "" own use, "ip" another host's IP, "node" another node
}

func fwPutTarget(val string) (t [20]byte) {
	return sha1.Sum(bencode.MustMarshal(val))
}

func fwWriteMsg(method, t string, id [20]byte, token string, ih [20]byte, port int, implied bool, val string) []byte {
	a := &krpc.MsgArgs{ID: id, Token: token}
	if method == "announce_peer" {
		a.InfoHash = ih
		p := port
		if implied {
			p = 1 + (port+4711)%65535 // the port argument is to be ignored
			a.ImpliedPort = true
		}
		a.Port = &p
	} else {
		var seq int64
		a.V = val
		a.Seq = &seq
	}
	return bencode.MustMarshal(krpc.Msg{Q: method, Y: "q", T: t, A: a})
}

func sameIP(a, b net.IP) bool { return a.To16().Equal(b.To16()) }

func runFloodTokens(seed uint64, idx int, fc floodCfg) {
	r := (&rng{s: seed ^ 0x70cc10}).sub(idx)
	emit("mbegin %d flood %+v => ok", idx, fc)
	out.Flush()
	ctxs := fmt.Sprintf("case=%d %+v", idx, fc)
	if fc.sched == "oneproc" {
		prev := runtime.GOMAXPROCS(1)
		defer runtime.GOMAXPROCS(prev)
	}
	K := 1
	if fc.sched == "multi" {
		K = fwServers()
	}
	depth := 4 * (fc.n + 64)
	if fc.sched == "inject" {
		depth = 0
	}
	hasPS := fc.store == "ps" || fc.store == "ps+hook"
	hasHook := fc.store == "hook" || fc.store == "ps+hook"
	var nodes []*fwNode
	for k := 0; k < K; k++ {
		var st peer_store.Interface
		if hasPS {
			st = &fwStore{inner: &peer_store.InMemory{}}
		}
		nodes = append(nodes, newFwNode(r, k, depth, fc.wait, st, hasHook))
	}
	var ok onceKeys
	stats := map[string]int{}
	delivered := true
	for round := 0; round < fc.rounds && delivered; round++ {
		rc := fmt.Sprintf("%s round=%d", ctxs, round)
		// ---- hosts: distinct IPs; every eighth IP a second time from another port
		var hosts []*fwHost
		for i, ip := range apiDistinctIPs(r, fc.n) {
			h := &fwHost{addr: udp(ip, 1+r.intn(65535))}
			hosts = append(hosts, h)
			if i%8 == 3 {
				hosts = append(hosts, &fwHost{addr: udp(ip, 1+(h.addr.Port+1+r.intn(60000))%65535)})
			}
		}
		per := make([][]fwDgram, K)
		for i, h := range hosts {
			h.node = r.intn(K)
			copy(h.id[:], r.bytes(20))
			h.tokq = "get"
			if hasPS && r.intn(4) != 0 {
				h.tokq = "get_peers"
			}
			t := fmt.Sprintf("k%d.%d", round, i)
			a := &krpc.MsgArgs{ID: h.id}
			copy(a.InfoHash[:], r.bytes(20))
			copy(a.Target[:], r.bytes(20))
			h.tkey = floodKey(t, h.addr)
			per[h.node] = append(per[h.node], fwDgram{bencode.MustMarshal(krpc.Msg{Q: h.tokq, Y: "q", T: t, A: a}), h.addr, h.tkey})
			// other traffic in between: replies of other shapes, no token
			if r.intn(3) == 0 {
				oa := &krpc.MsgArgs{ID: idInBucket(r, nodes[h.node].root, r.intn(160))}
				copy(oa.Target[:], r.bytes(20))
				q := []string{"ping", "find_node", "zzz"}[r.intn(3)]
				per[h.node] = append(per[h.node], fwDgram{bencode.MustMarshal(krpc.Msg{Q: q, Y: "q", T: fmt.Sprintf("o%d.%d", round, i), A: oa}), randAddr(r, famOf(r)), ""})
			}
		}
		// ---- phase A: everybody asks at once
		if !fwDeliver(nodes, per, fc.sched) {
			delivered = false
			ok.hit("C01", "socket-not-read:flood-tokens", "%s", rc)
			break
		}
		if miss := fwAwait(nodes, per, 10*time.Second); miss > 0 {
			ok.hit("C08", "query-not-answered:flood-tokens", "%s %d of %d token queries unanswered (unlimited send budget)", rc, miss, len(hosts))
		}
		byToken := map[string]*fwHost{}
		var holders []*fwHost
		for _, h := range hosts {
			m := nodes[h.node].replies[h.tkey]
			if m == nil || m.R == nil {
				stats["no-reply"]++
				continue
			}
			if m.R.Token == nil {
				stats["no-token"]++
				if h.tokq == "get_peers" {
					ok.hit("C11", "get_peers-reply-without-token:flood-tokens", "%s requester=%s", rc, h.addr)
				}
				continue
			}
			h.token = *m.R.Token
			if o := byToken[h.token]; o != nil && !sameIP(o.addr.IP, h.addr.IP) {
				// whichever IP it is good for, the other host cannot both use it and be kept from using it
				ok.hit("C10", "same-token-delivered-to-two-ips:"+fc.sched, "%s token=%x sent to %s (%s) and to %s (%s)", rc, h.token, o.addr, o.tokq, h.addr, h.tokq)
			} else if o == nil {
				byToken[h.token] = h
			}
			holders = append(holders, h)
		}
		stats["tokens"] += len(holders)
		if len(holders) < 2 {
			continue
		}
		// ---- phase B: every holder writes with the token it was sent; tokens also travel to other IPs / nodes
		var writes []*fwWrite
		mk := func(owner, user int, cross string, seq int) *fwWrite {
			o, u := holders[owner], holders[user]
			w := &fwWrite{owner: owner, user: user, cross: cross, node: o.node}
			w.method = "put"
			if r.intn(3) != 0 {
				w.method = "announce_peer"
			}
			src := udp(u.addr.IP, u.addr.Port)
			switch r.intn(3) {
			case 0: // another source port of that IP
				src.Port = 1 + (src.Port+7+r.intn(50000))%65535
			case 1: // the other spelling of an IPv4 address
				if v4 := src.IP.To4(); v4 != nil {
					if len(src.IP) == 4 {
						src.IP = mapped(v4)
					} else {
						src.IP = append(net.IP(nil), v4...)
					}
				}
			}
			if cross == "node" {
				w.node = (o.node + 1 + r.intn(len(nodes)-1)) % len(nodes)
			}
			t := fmt.Sprintf("w%d.%d.%s%d", round, seq, cross, owner)
			var ih [20]byte
			copy(ih[:], r.bytes(20))
			implied := r.intn(3) == 0
			port := 1 + r.intn(65535)
			if implied {
				port = src.Port
			}
			val := fmt.Sprintf("fw-%d-%d-%d-%x", idx, round, seq, r.bytes(6))
			w.fwDgram = fwDgram{fwWriteMsg(w.method, t, u.id, o.token, ih, port, implied, val), src, floodKey(t, src)}
			if w.method == "announce_peer" {
				w.ekey = fwKey(ih, src.IP, port)
			} else {
				w.val = val
			}
			return w
		}
		seq := 0
		var own, cross []*fwWrite
		for i := range holders {
			own = append(own, mk(i, i, "", seq))
			seq++
			// the neighbours in the delivery order and somebody else present this host's token
			for _, j := range []int{i + 1, i - 1, r.intn(len(holders))} {
				if j < 0 || j >= len(holders) || sameIP(holders[j].addr.IP, holders[i].addr.IP) || holders[j].token == holders[i].token || r.intn(3) == 0 {
					continue
				}
				cross = append(cross, mk(i, j, "ip", seq))
				seq++
			}
			if K > 1 && r.intn(2) == 0 {
				cross = append(cross, mk(i, i, "node", seq))
				seq++
			}
		}
		// per node: the foreign uses somewhere among the own writes, an own write last (its reply
		// says that everything before it has been through the packet handler)
		wper := make([][]fwDgram, K)
		last := make([]*fwWrite, K)
		var mixed []*fwWrite
		for _, w := range own {
			if last[w.node] == nil {
				last[w.node] = w
			} else {
				mixed = append(mixed, w)
			}
		}
		mixed = append(mixed, cross...)
		for i := len(mixed) - 1; i > 0; i-- {
			j := r.intn(i + 1)
			mixed[i], mixed[j] = mixed[j], mixed[i]
		}
		for _, w := range mixed {
			d := w.fwDgram
			if w.cross != "" {
				d.key = "" // not awaited: silence is the expected answer
			}
			wper[w.node] = append(wper[w.node], d)
		}
		for k, w := range last {
			if w != nil {
				wper[k] = append(wper[k], w.fwDgram)
			}
		}
		writes = append(append(writes, own...), cross...)
		if !fwDeliver(nodes, wper, fc.sched) {
			delivered = false
			ok.hit("C01", "socket-not-read:flood-tokens", "%s", rc)
			break
		}
		unanswered := fwAwait(nodes, wper, 5*time.Second)
		// a node that got no own write last still has to be through its queue: a ping behind everything
		for k, n := range nodes {
			if last[k] == nil && len(wper[k]) > 0 {
				p := udp([]byte{203, 0, 113, 77}, 30000+round)
				t := fmt.Sprintf("b%d", round)
				if n.push(bencode.MustMarshal(krpc.Msg{Q: "ping", Y: "q", T: t, A: &krpc.MsgArgs{ID: krpc.ID{5}}}), p) {
					n.awaitAll([]string{floodKey(t, p)}, 5*time.Second)
				}
			}
		}
		// effects of acknowledged / awaited writes arrive from goroutines of their own: wait for the
		// missing ones as long as something still changes (3 s without any progress at most)
		missingEffects := func() int {
			c := 0
			for _, w := range own {
				if w.method != "announce_peer" {
					continue
				}
				a, h := nodes[w.node].effect(w.ekey)
				if (hasPS && !a) || (hasHook && !h) {
					c++
				}
			}
			return c
		}
		for lastN, since := missingEffects(), time.Now(); lastN > 0 && time.Since(since) < 3*time.Second; {
			time.Sleep(time.Millisecond)
			if n := missingEffects(); n != lastN {
				lastN, since = n, time.Now()
			}
		}
		time.Sleep(20 * time.Millisecond)
		for _, n := range nodes {
			n.drain()
		}
		// ---- phase C: read the puts back
		gper := make([][]fwDgram, K)
		gkey := map[*fwWrite]string{}
		chk := udp([]byte{198, 51, 100, byte(1 + round%200)}, 5000+round)
		for i, w := range writes {
			if w.method != "put" {
				continue
			}
			t := fmt.Sprintf("c%d.%d", round, i)
			gkey[w] = floodKey(t, chk)
			gper[w.node] = append(gper[w.node], fwDgram{bencode.MustMarshal(krpc.Msg{Q: "get", Y: "q", T: t, A: &krpc.MsgArgs{ID: krpc.ID{6}, Target: fwPutTarget(w.val)}}), chk, gkey[w]})
		}
		if !fwDeliver(nodes, gper, fc.sched) {
			delivered = false
			break
		}
		fwAwait(nodes, gper, 5*time.Second)
		// ---- verdicts
		for _, w := range writes {
			n := nodes[w.node]
			acked := false
			if m := n.replies[w.fwDgram.key]; m != nil && m.Y == "r" {
				acked = true
			}
			effect, observable := false, true
			why := ""
			if w.method == "announce_peer" {
				a, h := n.effect(w.ekey)
				effect = a || h
				observable = hasPS || hasHook
				if hasPS && !a {
					why += " no-peer-store-call"
				}
				if hasHook && !h {
					why += " no-announce-callback"
				}
			} else {
				g := n.replies[gkey[w]]
				if g == nil || g.R == nil {
					observable = false // the read-back was not answered: nothing can be said about the store
				} else if string(g.R.V) == string(bencode.MustMarshal(w.val)) {
					effect = true
				} else {
					why += " item-not-served-by-get"
				}
			}
			o, u := holders[w.owner], holders[w.user]
			det := fmt.Sprintf("%s node=%d token=%x obtained-by=%s via=%s presented-from=%s method=%s acknowledged=%v effect=%v%s",
				rc, w.node, o.token, o.addr, o.tokq, w.fwDgram.from, w.method, acked, effect, why)
			switch w.cross {
			case "":
				stats["own"]++
				switch {
				case acked && (effect || !observable) && why == "":
					stats["own-ok"]++
				case !acked && !effect:
					also := ""
					for _, x := range holders {
						if x != o && x.token == o.token {
							also = " (the same token went to " + x.addr.String() + ")"
							break
						}
					}
					ok.hit("C10", fmt.Sprintf("fresh-token-from-reply-not-honoured:%s:%s", w.method, fc.sched), "%s%s", det, also)
				case acked && observable && (!effect || why != ""):
					ok.hit("C10", fmt.Sprintf("write-with-fresh-token-acknowledged-without-effect:%s:%s", w.method, fc.sched), "%s", det)
				case !acked && effect:
					ok.hit("C08", "accepted-write-not-acknowledged:flood-tokens:"+w.method, "%s", det)
				}
			case "ip":
				stats["cross-ip"]++
				if acked || effect {
					ok.hit("C10", fmt.Sprintf("token-sent-to-one-ip-accepted-from-another:%s:%s", w.method, fc.sched), "%s token-holder-ip=%s user-ip=%s", det, o.addr.IP, u.addr.IP)
				}
			case "node":
				stats["cross-node"]++
				if acked || effect {
					ok.hit("C10", fmt.Sprintf("token-of-another-node-accepted:%s:%s", w.method, fc.sched), "%s issuing-node=%d", det, o.node)
				}
			}
		}
		stats["unanswered-writes"] += unanswered
		for _, n := range nodes {
			n.replies = map[string]*krpc.Msg{}
		}
		if len(ok.seen) > 0 {
			break // one round of findings is enough; the rest would only wait for more silence
		}
	}
	if delivered {
		fwProbe(nodes, idx, ctxs, "tokens")
	}
	for _, n := range nodes {
		n.close()
	}
	var sk []string
	for k, v := range stats {
		sk = append(sk, fmt.Sprintf("%s=%d", k, v))
	}
	sort.Strings(sk)
	emit("# flood-tokens %d %+v nodes=%d %s findings: %s", idx, fc, K, strings.Join(sk, " "), ok.summary())
	emit("mend %d => ok", idx)
}

// ---------------------------------------------------------------- kind "peers"

// the j-th peer of infohash i: the endpoint says which infohash it belongs to
func fwPeer(i, j int) (ip net.IP, port int) {
	port = 1024 + (i*131+j*7)%60000
	if (i+j)%3 == 2 {
		ip = net.IP{0x20, 0x01, 0x0d, 0xb8, 0, 0x11, byte(i >> 8), byte(i), 0, 0, 0, 0, 0, 0, byte(j >> 8), byte(j)}
		return
	}
	return net.IP{10 + byte(i>>8), byte(i), byte(j), 77}, port
}

func fwInfohash(r0 uint64, i int) (ih [20]byte) {
	copy(ih[:], (&rng{s: r0}).sub(i).bytes(20))
	return
}

type fwReq struct {
	addr  *net.UDPAddr
	wants []krpc.Want
}

func runFloodPeers(seed uint64, idx int, fc floodCfg) {
	r := (&rng{s: seed ^ 0x9ee75}).sub(idx)
	emit("mbegin %d flood %+v => ok", idx, fc)
	out.Flush()
	ctxs := fmt.Sprintf("case=%d %+v", idx, fc)
	if fc.sched == "oneproc" {
		prev := runtime.GOMAXPROCS(1)
		defer runtime.GOMAXPROCS(prev)
	}
	K := 1
	if fc.sched == "multi" {
		K = fwServers()
	}
	nIH := 32
	depth := fc.n + 2048
	if fc.sched == "inject" {
		depth = 0
	}
	// one bundled store behind all nodes of the process (the population is announced once, to node 0)
	store := &peer_store.InMemory{}
	var nodes []*fwNode
	for k := 0; k < K; k++ {
		nodes = append(nodes, newFwNode(r, k, depth, fc.wait, store, false))
	}
	var ok onceKeys
	ihSeed := r.next()
	// ---- population: peers fetch a token and announce over the wire
	type peer struct {
		ip      net.IP
		port    int
		acked   bool
		implied bool
	}
	pop := make([][]*peer, nIH)
	sent := make([]map[string]int, nIH) // endpoint key -> peer index, every announce sent
	owner := map[string]int{}           // endpoint key -> infohash index
	{
		var tq, aq [][]fwDgram
		tq, aq = make([][]fwDgram, K), make([][]fwDgram, K)
		type ann struct {
			i, j int
			src  *net.UDPAddr
			tkey string
			akey string
			id   [20]byte
		}
		var anns []*ann
		for i := 0; i < nIH; i++ {
			np := []int{1, 3, 8, 17, 26, 34, 40, 40}[i%8]
			sent[i] = map[string]int{}
			for j := 0; j < np; j++ {
				ip, port := fwPeer(i, j)
				p := &peer{ip: ip, port: port, implied: (i+j)%4 == 1}
				pop[i] = append(pop[i], p)
				sent[i][floodEp(ip, port)] = j
				owner[floodEp(ip, port)] = i
				src := udp(ip, 1+(port+999)%65535)
				if p.implied {
					src.Port = port
				}
				a := &ann{i: i, j: j, src: src}
				copy(a.id[:], r.bytes(20))
				t := fmt.Sprintf("t%d.%d", i, j)
				a.tkey = floodKey(t, src)
				tq[0] = append(tq[0], fwDgram{bencode.MustMarshal(krpc.Msg{Q: "get_peers", Y: "q", T: t, A: &krpc.MsgArgs{ID: a.id, InfoHash: fwInfohash(ihSeed, i)}}), src, a.tkey})
				anns = append(anns, a)
			}
		}
		// the announcers come one after the other (pipelined in small groups) so that a node which mixes up
		// concurrent replies still gets a clean population
		group := 1
		if fc.sched != "inject" {
			group = 4
		}
		for g := 0; g < len(tq[0]); g += group {
			e := g + group
			if e > len(tq[0]) {
				e = len(tq[0])
			}
			part := [][]fwDgram{tq[0][g:e]}
			if !fwDeliver(nodes[:1], part, fc.sched) {
				break
			}
			fwAwait(nodes[:1], part, 5*time.Second)
		}
		for _, a := range anns {
			m := nodes[0].replies[a.tkey]
			if m == nil || m.R == nil || m.R.Token == nil {
				continue
			}
			p := pop[a.i][a.j]
			t := fmt.Sprintf("a%d.%d", a.i, a.j)
			a.akey = floodKey(t, a.src)
			aq[0] = append(aq[0], fwDgram{fwWriteMsg("announce_peer", t, a.id, *m.R.Token, fwInfohash(ihSeed, a.i), p.port, p.implied, ""), a.src, a.akey})
		}
		for g := 0; g < len(aq[0]); g += group {
			e := g + group
			if e > len(aq[0]) {
				e = len(aq[0])
			}
			part := [][]fwDgram{aq[0][g:e]}
			if !fwDeliver(nodes[:1], part, fc.sched) {
				break
			}
			fwAwait(nodes[:1], part, 5*time.Second)
		}
		for _, a := range anns {
			if m := nodes[0].replies[a.akey]; a.akey != "" && m != nil && m.Y == "r" {
				pop[a.i][a.j].acked = true
			}
		}
		nodes[0].replies = map[string]*krpc.Msg{}
	}
	// at rest: the store lists every acknowledged endpoint (the AddPeer calls run in goroutines of their own)
	nAcked := 0
	settled := func() (int, int) {
		have, want := 0, 0
		for i := range pop {
			listed := map[string]bool{}
			for _, na := range store.GetPeers(fwInfohash(ihSeed, i)) {
				listed[floodEp(na.IP, na.Port)] = true
			}
			for _, p := range pop[i] {
				if p.acked {
					want++
					if listed[floodEp(p.ip, p.port)] {
						have++
					}
				}
			}
		}
		return have, want
	}
	atRest := false
	for lastH, since, t0 := -1, time.Now(), time.Now(); time.Since(since) < 4*time.Second && time.Since(t0) < 40*time.Second; time.Sleep(time.Millisecond) {
		h, w := settled()
		nAcked = w
		if h == w {
			atRest = true
			break
		}
		if h != lastH {
			lastH, since = h, time.Now()
		}
	}
	if !atRest {
		h, w := settled()
		ok.hit("C11", "acknowledged-announce-not-in-store:flood-peers", "%s the store lists %d of %d acknowledged endpoints, no progress for 4 s", ctxs, h, w)
	}
	// ---- requesters
	var reqs []fwReq
	wantSets := [][]krpc.Want{nil, nil, nil, {krpc.WantNodes}, {krpc.WantNodes6}, {krpc.WantNodes, krpc.WantNodes6}, {krpc.WantNodes6, krpc.WantNodes}}
	for q := 0; q < 40; q++ {
		var a *net.UDPAddr
		switch q % 5 {
		case 0, 1, 2:
			a = udp([]byte{192, 0, 2, byte(1 + q)}, 20000+q)
		case 3:
			a = udp(append([]byte{0x20, 0x01, 0x0d, 0xb8, 0xff, 0xff}, append(r.bytes(9), byte(q))...), 20000+q)
		default:
			a = udp(mapped([]byte{198, 51, 100, byte(1 + q)}), 20000+q)
		}
		reqs = append(reqs, fwReq{a, wantSets[r.intn(len(wantSets))]})
	}
	reqAddr := map[string]int{}
	for q, rq := range reqs {
		reqAddr[floodEp(rq.addr.IP, rq.addr.Port)] = q
	}
	type asked struct {
		q, ih int // ih < 0: an infohash nobody announced to
		key   string
	}
	replies, withValues, values := 0, 0, 0
	delivered := true
	for round := 0; round < fc.rounds && delivered && atRest; round++ {
		rc := fmt.Sprintf("%s round=%d", ctxs, round)
		per := make([][]fwDgram, K)
		byKey := make([]map[string]asked, K)
		for k := range byKey {
			byKey[k] = map[string]asked{}
		}
		for x := 0; x < fc.n; x++ {
			k := x % K
			q := r.intn(len(reqs))
			i := r.intn(nIH)
			// weight the big infohashes: more addresses to encode per reply
			if len(pop[i]) < 17 && r.intn(3) != 0 {
				i = (i | 4) % nIH
			}
			ih := fwInfohash(ihSeed, i)
			if r.intn(12) == 0 {
				i = -1
				copy(ih[:], r.bytes(20))
			}
			t := fmt.Sprintf("g%d.%d", round, x)
			var id [20]byte
			copy(id[:], r.bytes(20))
			key := floodKey(t, reqs[q].addr)
			per[k] = append(per[k], fwDgram{bencode.MustMarshal(krpc.Msg{Q: "get_peers", Y: "q", T: t, A: &krpc.MsgArgs{ID: id, InfoHash: ih, Want: reqs[q].wants}}), reqs[q].addr, key})
			byKey[k][key] = asked{q, i, key}
			if fc.method == "get_peers+find_node" && r.intn(4) == 0 {
				fa := &krpc.MsgArgs{ID: id}
				copy(fa.Target[:], r.bytes(20))
				per[k] = append(per[k], fwDgram{bencode.MustMarshal(krpc.Msg{Q: "find_node", Y: "q", T: fmt.Sprintf("f%d.%d", round, x), A: fa}), reqs[r.intn(len(reqs))].addr, ""})
			}
		}
		if !fwDeliver(nodes, per, fc.sched) {
			delivered = false
			ok.hit("C01", "socket-not-read:flood-peers", "%s", rc)
			break
		}
		if miss := fwAwait(nodes, per, 10*time.Second); miss > 0 {
			ok.hit("C08", "query-not-answered:flood-peers", "%s %d of %d get_peers unanswered (unlimited send budget)", rc, miss, fc.n)
		}
		for k, n := range nodes {
			for key, a := range byKey[k] {
				m := n.replies[key]
				if m == nil || m.Y != "r" || m.R == nil {
					continue
				}
				replies++
				rq := reqs[a.q]
				w4 := rq.addr.IP.To4() != nil
				w6 := !w4
				if len(rq.wants) != 0 {
					w4, w6 = false, false
					for _, w := range rq.wants {
						w4 = w4 || w == krpc.WantNodes
						w6 = w6 || w == krpc.WantNodes6
					}
				}
				what := fmt.Sprintf("%s node=%d requester=%s want=%v infohash#=%d t=%s", rc, k, rq.addr, rq.wants, a.ih, m.T)
				if !m.IP.IP.Equal(rq.addr.IP) || m.IP.Port != rq.addr.Port {
					whose := "nobody's"
					if o, isPeer := owner[floodEp(m.IP.IP, m.IP.Port)]; isPeer {
						whose = fmt.Sprintf("a peer of infohash #%d", o)
					} else if o, isReq := reqAddr[floodEp(m.IP.IP, m.IP.Port)]; isReq {
						whose = fmt.Sprintf("requester #%d", o)
					}
					ok.hit("C08", "response-ip-not-requester-compact-address:flood-peers", "%s ip=%v (%s)", what, m.IP, whose)
				}
				if m.R.Token == nil {
					ok.hit("C11", "get_peers-reply-without-token:flood-peers", "%s", what)
				}
				if len(m.R.Values) > 0 {
					withValues++
				}
				listed := map[string]int{}
				for _, v := range m.R.Values {
					values++
					ep := floodEp(v.IP, v.Port)
					if len(v.IP) != 4 && len(v.IP) != 16 {
						ok.hit("C11", "values-entry-of-illegal-length:flood-peers:"+fc.sched, "%s entry=%x:%d", what, []byte(v.IP), v.Port)
						continue
					}
					listed[ep]++
					if a.ih < 0 || func() bool { _, in := sent[a.ih][ep]; return !in }() {
						whose := "nobody's"
						if o, isPeer := owner[ep]; isPeer {
							whose = fmt.Sprintf("announced for infohash #%d only", o)
						} else if o, isReq := reqAddr[ep]; isReq {
							whose = fmt.Sprintf("the address of requester #%d", o)
						}
						ok.hit("C11", "value-never-announced-for-this-infohash:flood-peers:"+fc.sched, "%s value=%v (%s) of %d values", what, v, whose, len(m.R.Values))
					}
					if len(v.IP) == 4 && !w4 {
						ok.hit("C11", "ipv4-value-for-requester-not-wanting-ipv4:flood-peers", "%s value=%v", what, v)
					}
					if len(v.IP) == 16 && !w6 {
						ok.hit("C11", "ipv6-value-for-requester-not-wanting-ipv6:flood-peers", "%s value=%v", what, v)
					}
				}
				for ep, c := range listed {
					if c > 1 {
						ok.hit("C11", "endpoint-listed-twice:flood-peers", "%s endpoint=%s x%d", what, ep, c)
					}
				}
				if a.ih >= 0 {
					for _, p := range pop[a.ih] {
						native4 := len(p.ip) == 4
						if !p.acked || (native4 && !w4) || (!native4 && !w6) {
							continue
						}
						if listed[floodEp(p.ip, p.port)] == 0 {
							ok.hit("C11", "announced-peer-missing-from-values:flood-peers:"+fc.sched, "%s peer=%s:%d implied_port=%v (store at rest, %d values)", what, p.ip, p.port, p.implied, len(m.R.Values))
							break
						}
					}
				}
			}
			n.replies = map[string]*krpc.Msg{}
		}
		if len(ok.seen) > 0 && round >= 1 {
			break
		}
	}
	if delivered {
		fwProbe(nodes, idx, ctxs, "peers")
	}
	for _, n := range nodes {
		n.close()
	}
	emit("# flood-peers %d %+v nodes=%d infohashes=%d acknowledged-announces=%d at-rest=%v replies=%d with-values=%d values=%d findings: %s",
		idx, fc, K, nIH, nAcked, atRest, replies, withValues, values, ok.summary())
	emit("mend %d => ok", idx)
}
