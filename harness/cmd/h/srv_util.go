package main

// Shared pieces of the server-level engines: fake PacketConn, canonical dump of krpc.Msg,
// recording peer store, blocklist ranger.

import (
	"bytes"
	"fmt"
	"math/big"
	"net"
	"os"
	"sort"
	"strings"
	"sync"
	"sync/atomic"
	"syscall"
	"time"

	"github.com/anacrolix/torrent/bencode"
	"github.com/anacrolix/torrent/iplist"

	"github.com/anacrolix/dht/v2/krpc"
	peer_store "github.com/anacrolix/dht/v2/peer-store"
)

type fpkt struct {
	data []byte
	addr net.Addr
}

type fwrite struct {
	data []byte
	addr *net.UDPAddr
}

type fakeConn struct {
	in      chan fpkt
	reads   int64
	mu      sync.Mutex
	writes  []fwrite
	closed  chan struct{}
	once    sync.Once
	local   net.Addr
	failNth map[int]bool // 1-based indices of WriteTo calls that fail
	nwrites int
	// onWrite, when set, is called (outside the lock, in the writer's goroutine) for every datagram
	// successfully handed to the socket: simulated networks answer from here with inject (in a new
	// goroutine).
	onWrite func(b []byte, addr *net.UDPAddr)
}

func newFakeConn() *fakeConn {
	return &fakeConn{in: make(chan fpkt), closed: make(chan struct{}), local: &net.UDPAddr{IP: net.IPv4(127, 0, 0, 1), Port: 4242}}
}

func (c *fakeConn) ReadFrom(b []byte) (int, net.Addr, error) {
	atomic.AddInt64(&c.reads, 1)
	select {
	case p := <-c.in:
		n := copy(b, p.data)
		return n, p.addr, nil
	case <-c.closed:
		return 0, nil, net.ErrClosed
	}
}

func (c *fakeConn) WriteTo(b []byte, addr net.Addr) (int, error) {
	c.mu.Lock()
	c.nwrites++
	if c.failNth[c.nwrites] {
		c.mu.Unlock()
		// the kind of failure varies: an opaque error, and socket errors that look transient
		// (a failed write is a failed send whatever the errno)
		switch c.nwrites % 4 {
		case 1:
			return 0, &net.OpError{Op: "write", Net: "udp", Err: os.NewSyscallError("sendto", syscall.ENOBUFS)}
		case 2:
			return 0, &net.OpError{Op: "write", Net: "udp", Err: os.NewSyscallError("sendto", syscall.EAGAIN)}
		case 3:
			return 0, &net.OpError{Op: "write", Net: "udp", Err: os.ErrDeadlineExceeded}
		}
		return 0, fmt.Errorf("injected write failure")
	}
	ua, _ := addr.(*net.UDPAddr)
	cp := append([]byte(nil), b...)
	c.writes = append(c.writes, fwrite{cp, ua})
	cb := c.onWrite
	c.mu.Unlock()
	if cb != nil {
		cb(cp, ua)
	}
	return len(b), nil
}

func (c *fakeConn) takeWrites() []fwrite {
	c.mu.Lock()
	defer c.mu.Unlock()
	w := c.writes
	c.writes = nil
	return w
}

// number of datagrams written and not yet taken
func (c *fakeConn) pendingWrites() int {
	c.mu.Lock()
	defer c.mu.Unlock()
	return len(c.writes)
}

func (c *fakeConn) Close() error                       { c.once.Do(func() { close(c.closed) }); return nil }
func (c *fakeConn) LocalAddr() net.Addr                { return c.local }
func (c *fakeConn) SetDeadline(t time.Time) error      { return nil }
func (c *fakeConn) SetReadDeadline(t time.Time) error  { return nil }
func (c *fakeConn) SetWriteDeadline(t time.Time) error { return nil }

// inject delivers one datagram and waits until the serve loop asks for the next one.
func (c *fakeConn) inject(data []byte, addr net.Addr, timeout time.Duration) bool {
	before := atomic.LoadInt64(&c.reads)
	select {
	case c.in <- fpkt{data, addr}:
	case <-time.After(timeout):
		return false
	case <-c.closed:
		return false
	}
	deadline := time.Now().Add(timeout)
	for atomic.LoadInt64(&c.reads) <= before {
		select {
		case <-c.closed:
			return true
		default:
		}
		if time.Now().After(deadline) {
			return false
		}
		time.Sleep(20 * time.Microsecond)
	}
	return true
}

// ---- recording peer store ----
type recPeerStore struct {
	inner peer_store.InMemory
	mu    sync.Mutex
	adds  []string
}

func (r *recPeerStore) AddPeer(ih peer_store.InfoHash, na krpc.NodeAddr) {
	r.inner.AddPeer(ih, na)
	r.mu.Lock()
	r.adds = append(r.adds, fmt.Sprintf("peer:%s:%s:%d", hx(ih[:]), hx(na.IP), na.Port))
	r.mu.Unlock()
}
func (r *recPeerStore) GetPeers(ih peer_store.InfoHash) []krpc.NodeAddr { return r.inner.GetPeers(ih) }
func (r *recPeerStore) take() []string {
	r.mu.Lock()
	defer r.mu.Unlock()
	a := r.adds
	r.adds = nil
	return a
}

// ---- blocklist over the 16-byte form ----
type brange struct{ lo, hi *big.Int }
type blocklist struct{ rs []brange }

func ip16int(ip net.IP) *big.Int {
	x := ip.To16()
	if x == nil {
		return nil
	}
	return new(big.Int).SetBytes(x)
}

func (b *blocklist) Lookup(ip net.IP) (iplist.Range, bool) {
	v := ip16int(ip)
	if v == nil {
		return iplist.Range{}, false
	}
	for _, r := range b.rs {
		if r.lo.Cmp(v) <= 0 && v.Cmp(r.hi) <= 0 {
			return iplist.Range{Description: "verif"}, true
		}
	}
	return iplist.Range{}, false
}
func (b *blocklist) NumRanges() int { return len(b.rs) }

func (b *blocklist) String() string {
	if b == nil || len(b.rs) == 0 {
		return "-"
	}
	var ss []string
	for _, r := range b.rs {
		ss = append(ss, r.lo.String()+"~"+r.hi.String())
	}
	return strings.Join(ss, ",")
}

func blockOf(ips ...net.IP) *blocklist {
	b := &blocklist{}
	for _, ip := range ips {
		v := ip16int(ip)
		b.rs = append(b.rs, brange{v, v})
	}
	return b
}

// ---- canonical dump of a krpc.Msg ----
func isZero(b []byte) bool {
	for _, x := range b {
		if x != 0 {
			return false
		}
	}
	return true
}

func dumpNodeInfos(nis []krpc.NodeInfo) string {
	var ss []string
	for _, ni := range nis {
		ss = append(ss, fmt.Sprintf("%s@%s:%d", hx(ni.ID[:]), hx(ni.Addr.IP), ni.Addr.Port))
	}
	return strings.Join(ss, ",")
}

func dumpMsg(m *krpc.Msg) string {
	var f []string
	add := func(k, v string) { f = append(f, k+"="+v) }
	add("y", hx([]byte(m.Y)))
	if m.Q != "" {
		add("q", hx([]byte(m.Q)))
	}
	add("t", hx([]byte(m.T)))
	if m.ReadOnly {
		add("ro", "1")
	}
	if m.ClientId != "" {
		add("cv", hx([]byte(m.ClientId)))
	}
	if len(m.IP.IP) != 0 || m.IP.Port != 0 {
		add("ip", fmt.Sprintf("%s:%d", hx(m.IP.IP), m.IP.Port))
	}
	if a := m.A; a != nil {
		f = append(f, "a")
		add("a.id", hx(a.ID[:]))
		if !isZero(a.InfoHash[:]) {
			add("a.ih", hx(a.InfoHash[:]))
		}
		if !isZero(a.Target[:]) {
			add("a.tg", hx(a.Target[:]))
		}
		if a.Token != "" {
			add("a.tok", hx([]byte(a.Token)))
		}
		if a.Port != nil {
			add("a.port", fmt.Sprint(*a.Port))
		}
		if a.ImpliedPort {
			add("a.imp", "1")
		}
		if a.Want != nil {
			var ws []string
			for _, w := range a.Want {
				ws = append(ws, hx([]byte(w)))
			}
			add("a.want", strings.Join(ws, ","))
		}
		if a.NoSeed != 0 {
			add("a.noseed", fmt.Sprint(a.NoSeed))
		}
		if a.Scrape != 0 {
			add("a.scrape", fmt.Sprint(a.Scrape))
		}
		if a.V != nil {
			bv, err := bencode.Marshal(a.V)
			if err != nil {
				add("a.v", "ERR")
			} else {
				add("a.v", hx(bv))
			}
		}
		if a.Seq != nil {
			add("a.seq", fmt.Sprint(*a.Seq))
		}
		if a.Cas != 0 {
			add("a.cas", fmt.Sprint(a.Cas))
		}
		if !isZero(a.K[:]) {
			add("a.k", hx(a.K[:]))
		}
		if len(a.Salt) != 0 {
			add("a.salt", hx(a.Salt))
		}
		if !isZero(a.Sig[:]) {
			add("a.sig", hx(a.Sig[:]))
		}
	}
	if r := m.R; r != nil {
		f = append(f, "r")
		add("r.id", hx(r.ID[:]))
		if r.Nodes != nil {
			add("r.nodes", dumpNodeInfos(r.Nodes))
		}
		if r.Nodes6 != nil {
			add("r.nodes6", dumpNodeInfos(r.Nodes6))
		}
		if r.Token != nil {
			add("r.tok", hx([]byte(*r.Token)))
		}
		if r.Values != nil {
			var vs []string
			for _, v := range r.Values {
				vs = append(vs, fmt.Sprintf("%s:%d", hx(v.IP), v.Port))
			}
			add("r.values", strings.Join(vs, ","))
		}
		if r.BFsd != nil {
			add("r.bfsd", hx(r.BFsd[:]))
		}
		if r.BFpe != nil {
			add("r.bfpe", hx(r.BFpe[:]))
		}
		if r.Interval != nil {
			add("r.interval", fmt.Sprint(*r.Interval))
		}
		if r.Num != nil {
			add("r.num", fmt.Sprint(*r.Num))
		}
		if r.Samples != nil {
			var vs []string
			for _, v := range *r.Samples {
				vs = append(vs, hx(v[:]))
			}
			add("r.samples", strings.Join(vs, ","))
		}
		if len(r.V) != 0 {
			add("r.v", hx(r.V))
		}
		if !isZero(r.K[:]) {
			add("r.k", hx(r.K[:]))
		}
		if !isZero(r.Sig[:]) {
			add("r.sig", hx(r.Sig[:]))
		}
		if r.Seq != nil {
			add("r.seq", fmt.Sprint(*r.Seq))
		}
	}
	if e := m.E; e != nil {
		f = append(f, "e")
		add("e.code", fmt.Sprint(e.Code))
		add("e.msg", hx([]byte(e.Msg)))
	}
	return strings.Join(f, ";")
}

// decodeLikeServer mirrors processPacket's acceptance: dict prefix, Unmarshal, trailing bytes ok.
func decodeLikeServer(b []byte) (*krpc.Msg, bool) {
	if len(b) < 2 || b[0] != 'd' {
		return nil, false
	}
	var m krpc.Msg
	err := bencode.Unmarshal(b, &m)
	if _, ok := err.(bencode.ErrUnusedTrailingBytes); ok {
		return &m, true
	}
	if err != nil {
		return nil, false
	}
	return &m, true
}

func sortedJoin(ss []string) string {
	sort.Strings(ss)
	if len(ss) == 0 {
		return "-"
	}
	return strings.Join(ss, " ")
}

func udp(ip []byte, port int) *net.UDPAddr {
	return &net.UDPAddr{IP: append(net.IP(nil), ip...), Port: port}
}

func mapped(ip4 []byte) []byte {
	return append(append(bytes.Repeat([]byte{0}, 10), 0xff, 0xff), ip4...)
}
