package main

// Engine "bep44", part (f): underlying stores that COPY or REBUILD items.
//
// bep44.Store is an exported interface (ServerConfig.Store, bep44.NewWrapper): an implementation
// outside the package need not keep the *Item pointer it is handed, and it can only carry the
// exported fields of an Item.  The time stamp Wrapper.Put writes into the unexported field `created`
// survives a copy of the struct, and nothing else: an Item rebuilt from a bep44.Put record, from a
// bencoded blob or from a database row has the zero time there.
//
// The stores below are written against the exported API only (Item, Put, ToPut, ToItem, bencode):
//
//   value    private copies by value (`c := *i`), a fresh copy for every Get      stamp kept
//   record   bep44.Put records (Item.ToPut / Put.ToItem)                          stamp lost when written
//   bencode  one bencoded dictionary of the exported fields per item              stamp lost when written
//   reread   keeps the item it was given, hands out Put.ToItem() of it on Get     stamp lost when read
//
// What the property demands of them ("items older than the configured expiry are no longer served",
// "an accepted put is what later gets return"): over `value` everything demanded over bep44.Memory.
// Over the other three the pinned tree compares the zero time with the clock, finds every item expired
// and serves none (model Bep44Rebuild.v, theorem C13_rebuilding_store_never_serves): the compared lines
// pin exactly that, and the oracle `expired-item-served:by-true-age:<kind>` states the expiry clause on
// the true age of the item (time since the accepted put returned), which no store may defeat.  Ageing:
// VerifAge where the representation has a stamp (value, reread), real time under a short expiry for all
// kinds (the cases of the four kinds run in lockstep, their lines are held back until a case is
// complete).

import (
	"bytes"
	"fmt"
	"math"
	"sort"
	"sync"
	"time"

	"github.com/anacrolix/torrent/bencode"

	"github.com/anacrolix/dht/v2/bep44"
)

type b44xstore interface {
	bep44.Store
	kind() string
	forgets() (onPut, onGet bool) // where the time stamp is lost (Bep44Rebuild.skind)
	dump() []bep44.VerifEntry     // sorted by target; Created is the zero time where there is no stamp
	age(d time.Duration) bool     // make every item d older; false: the representation has no stamp
}

var b44Kinds = []string{"value", "record", "bencode", "reread"}

func b44newStore(kind string) b44xstore {
	switch kind {
	case "value":
		return &b44valueStore{m: map[bep44.Target]*bep44.Item{}}
	case "record":
		return &b44recordStore{m: map[bep44.Target]bep44.Put{}}
	case "bencode":
		return &b44bencStore{m: map[bep44.Target][]byte{}}
	case "reread":
		return &b44rereadStore{mem: bep44.NewMemory()}
	}
	panic("b44newStore " + kind)
}

func b44sortEntries(es []bep44.VerifEntry) []bep44.VerifEntry {
	sort.Slice(es, func(a, b int) bool { return bytes.Compare(es[a].Target[:], es[b].Target[:]) < 0 })
	return es
}

// ---- value: copies in, copies out

type b44valueStore struct {
	mu sync.Mutex
	m  map[bep44.Target]*bep44.Item // private copies, never handed out
}

func (s *b44valueStore) kind() string          { return "value" }
func (s *b44valueStore) forgets() (bool, bool) { return false, false }
func (s *b44valueStore) Put(i *bep44.Item) error {
	s.mu.Lock()
	defer s.mu.Unlock()
	c := *i
	c.Salt = append([]byte(nil), i.Salt...)
	s.m[i.Target()] = &c
	return nil
}
func (s *b44valueStore) Get(t bep44.Target) (*bep44.Item, error) {
	s.mu.Lock()
	defer s.mu.Unlock()
	i, ok := s.m[t]
	if !ok {
		return nil, bep44.ErrItemNotFound
	}
	c := *i
	c.Salt = append([]byte(nil), i.Salt...)
	return &c, nil
}
func (s *b44valueStore) Del(t bep44.Target) error {
	s.mu.Lock()
	defer s.mu.Unlock()
	delete(s.m, t)
	return nil
}
func (s *b44valueStore) dump() []bep44.VerifEntry {
	s.mu.Lock()
	defer s.mu.Unlock()
	var es []bep44.VerifEntry
	for t, i := range s.m {
		es = append(es, bep44.VerifEntry{Target: t, Item: *i, Created: bep44.VerifCreated(i)})
	}
	return b44sortEntries(es)
}

// the stamp of the private copies is moved with the hook for bep44.Memory
func (s *b44valueStore) age(d time.Duration) bool {
	s.mu.Lock()
	defer s.mu.Unlock()
	tmp := bep44.NewMemory()
	for _, i := range s.m {
		tmp.Put(i)
	}
	bep44.VerifAge(tmp, d)
	return true
}

// ---- record: bep44.Put records

type b44recordStore struct {
	mu sync.Mutex
	m  map[bep44.Target]bep44.Put
}

func (s *b44recordStore) kind() string          { return "record" }
func (s *b44recordStore) forgets() (bool, bool) { return true, false }
func (s *b44recordStore) Put(i *bep44.Item) error {
	s.mu.Lock()
	defer s.mu.Unlock()
	p := i.ToPut()
	if p.K != nil { // ToPut points into the caller's item
		k := *p.K
		p.K = &k
	}
	p.Salt = append([]byte(nil), p.Salt...)
	s.m[i.Target()] = p
	return nil
}
func (s *b44recordStore) Get(t bep44.Target) (*bep44.Item, error) {
	s.mu.Lock()
	defer s.mu.Unlock()
	p, ok := s.m[t]
	if !ok {
		return nil, bep44.ErrItemNotFound
	}
	return p.ToItem(), nil
}
func (s *b44recordStore) Del(t bep44.Target) error {
	s.mu.Lock()
	defer s.mu.Unlock()
	delete(s.m, t)
	return nil
}
func (s *b44recordStore) dump() []bep44.VerifEntry {
	s.mu.Lock()
	defer s.mu.Unlock()
	var es []bep44.VerifEntry
	for t, p := range s.m {
		es = append(es, bep44.VerifEntry{Target: t, Item: *p.ToItem()})
	}
	return b44sortEntries(es)
}
func (s *b44recordStore) age(time.Duration) bool { return false }

// ---- bencode: one blob per item

type b44blob struct {
	V    bencode.Bytes `bencode:"v"`
	K    []byte        `bencode:"k"`
	Salt []byte        `bencode:"salt"`
	Sig  []byte        `bencode:"sig"`
	Cas  int64         `bencode:"cas"`
	Seq  int64         `bencode:"seq"`
}

type b44bencStore struct {
	mu sync.Mutex
	m  map[bep44.Target][]byte
}

func (s *b44bencStore) kind() string          { return "bencode" }
func (s *b44bencStore) forgets() (bool, bool) { return true, false }
func (s *b44bencStore) Put(i *bep44.Item) error {
	s.mu.Lock()
	defer s.mu.Unlock()
	bv, err := bencode.Marshal(i.V)
	if err != nil {
		return err
	}
	b, err := bencode.Marshal(b44blob{V: bv, K: i.K[:], Salt: i.Salt, Sig: i.Sig[:], Cas: i.Cas, Seq: i.Seq})
	if err != nil {
		return err
	}
	s.m[i.Target()] = b
	return nil
}
func b44unblob(b []byte) (*bep44.Item, error) {
	var bl b44blob
	if err := bencode.Unmarshal(b, &bl); err != nil {
		return nil, err
	}
	i := &bep44.Item{Salt: bl.Salt, Cas: bl.Cas, Seq: bl.Seq}
	if err := bencode.Unmarshal(bl.V, &i.V); err != nil {
		return nil, err
	}
	copy(i.K[:], bl.K)
	copy(i.Sig[:], bl.Sig)
	return i, nil
}
func (s *b44bencStore) Get(t bep44.Target) (*bep44.Item, error) {
	s.mu.Lock()
	defer s.mu.Unlock()
	b, ok := s.m[t]
	if !ok {
		return nil, bep44.ErrItemNotFound
	}
	return b44unblob(b)
}
func (s *b44bencStore) Del(t bep44.Target) error {
	s.mu.Lock()
	defer s.mu.Unlock()
	delete(s.m, t)
	return nil
}
func (s *b44bencStore) dump() []bep44.VerifEntry {
	s.mu.Lock()
	defer s.mu.Unlock()
	var es []bep44.VerifEntry
	for t, b := range s.m {
		i, err := b44unblob(b)
		if err != nil {
			panic(err)
		}
		es = append(es, bep44.VerifEntry{Target: t, Item: *i})
	}
	return b44sortEntries(es)
}
func (s *b44bencStore) age(time.Duration) bool { return false }

// ---- reread: keeps what it was given, rebuilds on every read

type b44rereadStore struct{ mem *bep44.Memory }

func (s *b44rereadStore) kind() string            { return "reread" }
func (s *b44rereadStore) forgets() (bool, bool)   { return false, true }
func (s *b44rereadStore) Put(i *bep44.Item) error { return s.mem.Put(i) }
func (s *b44rereadStore) Get(t bep44.Target) (*bep44.Item, error) {
	i, err := s.mem.Get(t)
	if err != nil {
		return nil, err
	}
	p := i.ToPut()
	return p.ToItem(), nil
}
func (s *b44rereadStore) Del(t bep44.Target) error { return s.mem.Del(t) }
func (s *b44rereadStore) dump() []bep44.VerifEntry { return bep44.VerifDump(s.mem) }
func (s *b44rereadStore) age(d time.Duration) bool { bep44.VerifAge(s.mem, d); return true }

// ---------------------------------------------------------------- sequential histories, virtual time

func (e *b44env) rebuilding() {
	salt := []byte("k")
	v0, v1 := "v", "w"
	for ki, kind := range b44Kinds {
		// put; put; get; put; get over the seq grid: the decision of a put over a rebuilt stored item,
		// the get right after an accepted put, the put after the get
		cas2s := []int64{0, 2}
		if e.thorough() {
			cas2s = b44Grid
		}
		n := 0
		for _, seq1 := range b44Grid {
			for _, seq2 := range b44Grid {
				for _, cas2 := range cas2s {
					for _, sameV := range []bool{true, false} {
						a := e.mk(v0, 0, salt, seq1, 0)
						v := v0
						if !sameV {
							v = v1
						}
						b := e.mk(v, 0, salt, seq2, cas2)
						c := e.beginK(fmt.Sprintf("kgrid-%s-%d", kind, n), []*b44it{a, b}, b44newStore(kind), b44Exp, false)
						n++
						c.put(a)
						c.put(b)
						c.get(a.refTarget())
						c.put(b)
						c.get(a.refTarget())
						c.end()
					}
				}
			}
		}
		// expiry boundary and refresh, as over bep44.Memory
		for i, d := range []time.Duration{0, 60 * time.Minute, 119 * time.Minute, 120 * time.Minute, 121 * time.Minute, 500 * time.Minute} {
			a := e.mk(v0, 0, salt, 1, 0)
			c := e.beginK(fmt.Sprintf("kexpiry-%s-%d", kind, i), []*b44it{a}, b44newStore(kind), b44Exp, false)
			c.put(a)
			c.age(d)
			c.get(a.refTarget())
			c.get(a.refTarget())
			c.end()
			c = e.beginK(fmt.Sprintf("krefresh-%s-%d", kind, i), []*b44it{a}, b44newStore(kind), b44Exp, false)
			c.put(a)
			c.age(100 * time.Minute)
			c.put(a)
			c.age(d)
			c.get(a.refTarget())
			c.put(a)
			c.get(a.refTarget())
			c.end()
		}
		// random histories over several targets (mutable with and without salt, immutable, values of every
		// shape: the bencode store hands back the decoded form of the value)
		cnt := 40
		if e.thorough() {
			cnt = 1000
		}
		shapes := e.shapes()
		for h := 0; h < cnt; h++ {
			r := e.r.sub(9000 + 1000*ki + h)
			type slot struct {
				key  int
				salt []byte
			}
			slots := []slot{{0, nil}, {0, []byte("k")}, {1, []byte("k")}, {-1, nil}, {0, []byte{}}}
			var ops []func(c *b44case)
			var items []*b44it
			var targets [][20]byte
			ln := 3 + r.intn(8)
			for j := 0; j < ln; j++ {
				switch k := r.intn(10); {
				case k < 6:
					sl := slots[r.intn(len(slots))]
					var v interface{} = []interface{}{"v", int64(r.intn(3))}
					switch r.intn(12) {
					case 0:
						v = b44sized(1001+r.intn(3), r.intn(4))
					case 1, 2, 3:
						v = shapes[r.intn(len(shapes))]
					}
					seq := []int64{0, 1, 2, 3, 4, -1, math.MaxInt64, math.MinInt64}[r.intn(8)]
					cas := []int64{0, 0, 0, 1, 2, 3, -1, math.MaxInt64}[r.intn(8)]
					x := e.mk(v, sl.key, sl.salt, seq, cas)
					if sl.key >= 0 && r.intn(8) == 0 {
						vs := e.variants(v, sl.salt, seq)
						x = vs[1+r.intn(6)]
						x.cas = cas
					}
					items = append(items, x)
					targets = append(targets, x.refTarget())
					ops = append(ops, func(c *b44case) { c.put(x) })
				case k < 9:
					if len(targets) == 0 {
						continue
					}
					t := targets[r.intn(len(targets))]
					ops = append(ops, func(c *b44case) { c.get(t) })
				default:
					d := []time.Duration{1, 30, 60, 90, 119, 120, 121}[r.intn(7)] * time.Minute
					ops = append(ops, func(c *b44case) { c.age(d) })
				}
			}
			c := e.beginK(fmt.Sprintf("khist-%s-%d", kind, h), items, b44newStore(kind), b44Exp, false)
			for _, op := range ops {
				op(c)
			}
			c.end()
		}
	}
	e.realTimeWrapper()
}

// ---------------------------------------------------------------- real time, short expiry

// The expiry used with real time, and the pauses: an item is read while it is certainly young (if the
// machine was too slow for that the case is dropped, see rtGet) and when it is certainly too old.
const (
	b44ShortExp  = 400 * time.Millisecond
	b44RtYoung   = 50 * time.Millisecond
	b44RtPastExp = 400 * time.Millisecond // after the young read: 450 ms in all
)

// one step of every running case, then one pause for all of them
type b44rt struct {
	cases []*b44case
	srvs  []*b44srv
}

func (rt *b44rt) each(f func(i int, c *b44case)) {
	for i, c := range rt.cases {
		if !c.aborted {
			f(i, c)
		}
	}
}

// the pause is told to the model of every case as elapsed time
func (rt *b44rt) pause(d time.Duration) {
	time.Sleep(d)
	rt.each(func(_ int, c *b44case) { c.emit("b44age %d => ok", int64(d)) })
}

// A read whose result depends on real time (a store that keeps the stamp): the model is told the nominal
// pauses, so the observation is compared only if the clock readings around the call put the item on the
// same side of the expiry as the nominal age does; otherwise the machine was too slow (or too fast) for
// this case and the case ends here, uncompared from this read on.
func (c *b44case) rtTimingOK(t [20]byte, nominalFresh bool, t0, t1 time.Time, before []bep44.VerifEntry) bool {
	if c.xs != nil {
		if fp, fg := c.xs.forgets(); fp || fg {
			return true // the outcome over these stores does not depend on time
		}
	}
	st := b44find(before, t)
	if st == nil {
		return true
	}
	if nominalFresh {
		return t1.Sub(st.Created) < c.exp
	}
	return t0.Sub(st.Created) > c.exp
}

func (c *b44case) abort(why string) {
	c.aborted = true
	emit("# bep44 real-time case %s dropped: %s", c.name, why)
}

func (c *b44case) rtPut(x *b44it) {
	if !c.aborted {
		c.put(x)
	}
}

// Wrapper.Get under real time
func (c *b44case) rtGet(t [20]byte, nominalFresh bool) {
	if c.aborted {
		return
	}
	c.nop++
	before := c.dump()
	t0 := time.Now()
	it, err := c.w.Get(t)
	t1 := time.Now()
	after := c.dump()
	where := fmt.Sprintf("case=%s op#%d Wrapper.Get target=%s", c.name, c.nop, hx(t[:]))
	if it != nil {
		c.trueAgeOracle(t, t0, where) // holds whatever the timing
	}
	if !c.rtTimingOK(t, nominalFresh, t0, t1, before) {
		c.abort("timing of " + where)
		return
	}
	res := "notfound"
	if err == nil && it != nil {
		res = "found " + b44itemStr(it, bep44.VerifCreated(it))
	} else if err != bep44.ErrItemNotFound {
		res = "error"
	}
	c.emit("b44get %s => %s | %s", hx(t[:]), res, b44dumpStr(after))
	c.getOraclesAt(t, it, before, after, where, t0, t1)
}

func (e *b44env) realTimeWrapper() {
	salt := []byte("rt")
	rounds := 1
	if e.thorough() {
		rounds = 4
	}
	for round := 0; round < rounds; round++ {
		a := e.mk("a", 0, salt, 1+int64(round), 0)
		b := e.mk("b", 0, salt, 2+int64(round), 0)
		low := e.mk("l", 0, salt, int64(round), 0)
		tgt := a.refTarget()
		rt := &b44rt{}
		for _, kind := range append([]string{"memory"}, b44Kinds...) {
			var xs b44xstore
			if kind != "memory" {
				xs = b44newStore(kind)
			}
			rt.cases = append(rt.cases, e.beginK(fmt.Sprintf("krt-%s-%d", kind, round), []*b44it{a, b, low}, xs, b44ShortExp, true))
		}
		rt.each(func(_ int, c *b44case) { c.rtPut(a); c.rtGet(tgt, true) })
		rt.pause(b44RtYoung)
		rt.each(func(_ int, c *b44case) { c.rtGet(tgt, true); c.rtPut(low) })
		rt.pause(b44RtPastExp)
		// older than the expiry: read again and again, as peers do
		rt.each(func(_ int, c *b44case) { c.rtGet(tgt, false); c.rtGet(tgt, false) })
		rt.pause(b44RtYoung)
		rt.each(func(_ int, c *b44case) { c.rtGet(tgt, false); c.rtPut(b); c.rtGet(tgt, true) })
		rt.pause(b44ShortExp / 2)
		rt.each(func(_ int, c *b44case) { c.rtPut(b) }) // the refresh gives a new lease
		rt.pause(b44ShortExp * 5 / 8)
		rt.each(func(_ int, c *b44case) { c.rtGet(tgt, true) }) // 9/8 of the expiry after the put, 5/8 after the refresh
		rt.pause(b44RtPastExp)
		rt.each(func(_ int, c *b44case) { c.rtGet(tgt, false) })
		for _, c := range rt.cases {
			c.end()
		}
	}
}

// ---------------------------------------------------------------- behind a real Server (child process)

func (v *b44srv) rtWget(t [20]byte, seq *int64, nominalFresh bool) {
	c := v.c
	if c.aborted {
		return
	}
	// the clock readings that decide whether the observation can be compared are those of wgetF; the
	// verdict is needed before its lines are kept: run it on held lines and cut them off when it fails
	mark := len(c.lines)
	before := c.dump()
	t0 := time.Now()
	v.wgetF(t, seq, b44fault{})
	t1 := time.Now()
	if !c.rtTimingOK(t, nominalFresh, t0, t1, before) {
		c.lines = c.lines[:mark]
		c.abort(fmt.Sprintf("timing of op#%d inbound get", c.nop))
	}
}

func (e *b44env) serverRebuilding() {
	i64 := func(x int64) *int64 { return &x }
	salt := []byte("ks")
	for ki, kind := range b44Kinds {
		// fixed script
		{
			a1 := e.mk("v", 0, salt, 1, 0)
			a2 := e.mk("w", 0, salt, 2, 1)
			a3bad := e.mk("x", 0, salt, 3, 1)
			low := e.mk("y", 0, salt, 1, 0)
			forged := e.variants("z", salt, 9)[2]
			imm := e.mk("immutable value", -1, nil, 0, 0)
			l1 := e.mk("l", 0, salt, 5, 2)
			l2 := e.mk("m", 0, salt, 4, 0)
			v := e.beginServerK("srv-k-"+kind, []*b44it{a1, a2, a3bad, low, forged, l1, l2}, b44newStore(kind), b44Exp, false)
			tgt := a1.refTarget()
			v.wget(tgt, nil)
			v.wput(a1, true)
			v.wget(tgt, nil)
			v.wput(a1, true)
			v.wput(a2, true)
			v.wput(a3bad, true) // 301
			v.wput(low, true)   // 302
			v.wput(forged, true)
			v.wget(tgt, i64(1))
			v.wput(a2, true)
			v.wget(tgt, i64(2))
			v.wput(imm, true)
			v.wget(imm.refTarget(), nil)
			v.lput(l1)
			v.lput(l2) // refused locally: no query
			v.wget(tgt, nil)
			v.lput(l2) // over a store that has just dropped the item: accepted
			v.lput(imm)
			v.c.age(119 * time.Minute)
			v.wget(tgt, nil)
			v.wput(l2, true)
			v.c.age(121 * time.Minute)
			v.wget(tgt, nil)
			v.wget(tgt, nil)
			v.close()
		}
		cnt := 6
		if e.thorough() {
			cnt = 100
		}
		for h := 0; h < cnt; h++ {
			r := e.r.sub(15000 + 1000*ki + h)
			var ops []func(v *b44srv)
			var items []*b44it
			salts := [][]byte{salt, []byte("kt")}
			for j := 0; j < 4+r.intn(6); j++ {
				sa := salts[r.intn(len(salts))]
				switch k := r.intn(10); {
				case k < 5:
					seq := []int64{0, 1, 2, 3, 4, math.MaxInt64, math.MinInt64}[r.intn(7)]
					cas := []int64{0, 0, 1, 2, 3}[r.intn(5)]
					x := e.mk(fmt.Sprintf("v%d", r.intn(2)), 0, sa, seq, cas)
					if r.intn(7) == 0 {
						x = e.variants("f", sa, seq)[1+r.intn(6)]
					}
					items = append(items, x)
					local, noseq := r.intn(3) == 0, r.intn(9) == 0
					ops = append(ops, func(v *b44srv) {
						if local {
							v.lput(x)
						} else {
							v.wput(x, !noseq)
						}
					})
				case k < 9:
					var sq *int64
					if r.bool() {
						sq = i64([]int64{-1, 0, 1, 2, 3, math.MinInt64}[r.intn(6)])
					}
					tgt := e.mk("v", 0, sa, 0, 0).refTarget()
					ops = append(ops, func(v *b44srv) { v.wget(tgt, sq) })
				default:
					d := []time.Duration{30, 119, 120, 121}[r.intn(4)] * time.Minute
					ops = append(ops, func(v *b44srv) { v.c.age(d) })
				}
			}
			v := e.beginServerK(fmt.Sprintf("srv-k-%s-%d", kind, h), items, b44newStore(kind), b44Exp, false)
			for _, op := range ops {
				op(v)
			}
			v.close()
		}
	}
	// real time: ServerConfig.Store + ServerConfig.Exp, the item stored by an inbound put / by Server.Put
	// and then queried over the wire until well past the expiry
	rounds := 1
	if e.thorough() {
		rounds = 3
	}
	for round := 0; round < rounds; round++ {
		a := e.mk("a", 0, []byte("krt"), 1+int64(round), 0)
		b := e.mk("b", 0, []byte("krt"), 2+int64(round), 0)
		tgt := a.refTarget()
		rt := &b44rt{}
		for _, kind := range append([]string{"memory"}, b44Kinds...) {
			for _, local := range []bool{false, true} {
				var xs b44xstore
				if kind != "memory" {
					xs = b44newStore(kind)
				}
				v := e.beginServerK(fmt.Sprintf("srv-krt-%s-%s-%d", kind, map[bool]string{false: "wire", true: "local"}[local], round),
					[]*b44it{a, b}, xs, b44ShortExp, true)
				rt.cases = append(rt.cases, v.c)
				rt.srvs = append(rt.srvs, v)
			}
		}
		put := func(i int, x *b44it) {
			if rt.cases[i].aborted {
				return
			}
			if i%2 == 1 {
				rt.srvs[i].lput(x)
			} else {
				rt.srvs[i].wput(x, true)
			}
		}
		rt.each(func(i int, c *b44case) { put(i, a); rt.srvs[i].rtWget(tgt, nil, true) })
		rt.pause(b44RtYoung)
		rt.each(func(i int, c *b44case) { rt.srvs[i].rtWget(tgt, nil, true) })
		rt.pause(b44RtPastExp)
		rt.each(func(i int, c *b44case) {
			rt.srvs[i].rtWget(tgt, nil, false)
			rt.srvs[i].rtWget(tgt, i64(math.MinInt64), false)
		})
		rt.pause(b44RtYoung)
		rt.each(func(i int, c *b44case) {
			rt.srvs[i].rtWget(tgt, nil, false)
			put(i, b)
			rt.srvs[i].rtWget(tgt, i64(0), true)
		})
		rt.pause(b44RtPastExp + b44RtYoung)
		rt.each(func(i int, c *b44case) { rt.srvs[i].rtWget(tgt, nil, false) })
		for _, v := range rt.srvs {
			v.close()
		}
	}
}
