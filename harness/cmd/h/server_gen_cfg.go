package main

// More case families of the "server" engine:
//
//   - autoid:    whole scenarios on a node whose ServerConfig.NodeId is left unset (the id is drawn by the
//                library: random, or derived from socket address + PublicIP), x PublicIP set / unset x
//                security extension on / off. The running case takes Server.ID() as the model's root.
//   - roresp:    whole scenarios with the BEP 43 read-only flag on responses and errors (solicited and not),
//                plus a directed history (genRoDirected).
//   - intargs:   out-of-range / extreme integers in every integer argument a handler reads (port,
//                implied_port, seq, cas) and in the integer fields of replies to the node's own queries, each
//                followed by the queries that read the stored data back.
//   - putreject: every return path of the BEP 44 put / get handlers (accepted, 203, 204, 205, 206, 207, 301,
//                302, failing store, expired item) followed by get / put / ping / find_node on the same node.

import (
	"bytes"
	"crypto/ed25519"
	"crypto/sha1"
	"fmt"
	"net"
	"sort"
	"time"

	"github.com/anacrolix/torrent/bencode"

	dht "github.com/anacrolix/dht/v2"
	"github.com/anacrolix/dht/v2/bep44"
	"github.com/anacrolix/dht/v2/krpc"
)

// ---------------------------------------------------------------- a small bencode writer (any integer text)

type braw string // already encoded

func bnc(v interface{}) []byte {
	var b bytes.Buffer
	var w func(v interface{})
	w = func(v interface{}) {
		switch x := v.(type) {
		case braw:
			b.WriteString(string(x))
		case string:
			fmt.Fprintf(&b, "%d:%s", len(x), x)
		case []byte:
			fmt.Fprintf(&b, "%d:", len(x))
			b.Write(x)
		case int:
			fmt.Fprintf(&b, "i%de", x)
		case int64:
			fmt.Fprintf(&b, "i%de", x)
		case []interface{}:
			b.WriteByte('l')
			for _, y := range x {
				w(y)
			}
			b.WriteByte('e')
		case map[string]interface{}:
			var ks []string
			for k := range x {
				ks = append(ks, k)
			}
			sort.Strings(ks)
			b.WriteByte('d')
			for _, k := range ks {
				w(k)
				w(x[k])
			}
			b.WriteByte('e')
		default:
			panic(fmt.Sprintf("bnc: %T", v))
		}
	}
	w(v)
	return b.Bytes()
}

func rawQuery(q, t string, a map[string]interface{}) []byte {
	return bnc(map[string]interface{}{"a": a, "q": q, "t": t, "y": "q"})
}

// ---------------------------------------------------------------- NodeId left unset

// autoIDCase runs a scenario generator for a node without configured NodeId. variant bit 0: PublicIP set (the id is
// then a function of socket address and PublicIP, predicted here with the library's own InitNodeId so that the
// history's buckets are meant for it), bit 1: security extension enforced. exempt: contacts come from the
// networks BEP 42 exempts.
func autoIDCase(r *rng, idx, variant int, exempt bool, gen func(*rng, int) srvCase) srvCase {
	pub, sec := variant&1 != 0, variant&2 != 0
	var pubIP net.IP
	var root [20]byte
	if pub {
		if r.intn(4) == 0 {
			pubIP = randAddr(r, 1).IP
		} else {
			pubIP = randAddr(r, 0).IP
		}
		pc := &dht.ServerConfig{Conn: newFakeConn(), PublicIP: pubIP, NoSecurity: !sec}
		pc.InitNodeId()
		root = pc.NodeId
	} else {
		copy(root[:], r.bytes(20))
	}
	cfgOverride = func(c *srvCfg) {
		c.autoID = true
		c.nosec = !sec
		c.publicIP = pubIP
		c.root = root
	}
	addrExempt = exempt
	c := gen(r, idx)
	cfgOverride = nil
	addrExempt = false
	c.cfg.scenario += fmt.Sprintf("-autoid-pub%d-sec%d", b2i(pub), b2i(sec))
	return c
}

func genAutoIDTable(r *rng, idx int) srvCase {
	variant := idx % 4
	return autoIDCase(r, idx, variant, variant == 2, func(r *rng, i int) srvCase { return genTable(r, i, 50+r.intn(50)) })
}

func genAutoIDPeerFam(r *rng, idx int) srvCase {
	variant := r.intn(4)
	return autoIDCase(r, idx, variant, variant&2 != 0, genPeerFam)
}

func genAutoIDMethods(r *rng, idx int) srvCase {
	return autoIDCase(r, idx, r.intn(2), false, genMethodsBare)
}

// ---------------------------------------------------------------- read-only flag on non-queries

// roVariant: the scenario with "ro":1 on about 40 % of the responses and errors it delivers (answers to the node's
// own queries, stale, mismatched and unsolicited ones alike). BEP 43: a read-only sender is never admitted to the
// table, whatever kind of message carries the flag.
func roVariant(gen func(*rng, int) srvCase) func(*rng, int) srvCase {
	return func(r *rng, idx int) srvCase {
		c := gen(r, idx)
		c.cfg.scenario += "-roresp"
		r2 := r.sub(0x726f)
		for i := range c.evs {
			e := &c.evs[i]
			if e.kind != "pkt" || (e.msg == nil && e.dyn == nil) {
				continue
			}
			if r2.intn(5) >= 2 {
				continue
			}
			old := e.dyn
			e.dyn = func(st *srvState, e *sev) {
				if old != nil {
					old(st, e)
				}
				if e.msg != nil && e.msg.Y != "q" {
					m := *e.msg
					m.ReadOnly = true
					e.msg = &m
				}
			}
		}
		return c
	}
}

// genRoDirected: fresh contacts of every address form answer the node's ping / find_node / get_peers with the flag set
// (as "ro":1, as another non-zero integer, as "ro":0 = not read-only), before and after they are in the table, into
// empty and into full buckets of never-answered entries; flagged errors; flagged unsolicited responses.
func genRoDirected(r *rng, idx int) srvCase {
	c := srvCase{idx: idx, cfg: baseCfg(r, "rodirected")}
	root := c.cfg.root
	qid := 0
	// answer to our query number id from p, flag variant: 0 none, 1 ro:1, 2 ro:<other integer>, 3 ro:0, 4 ro:1 on an error
	answer := func(id int, p speer, flag int) sev {
		e := sev{kind: "pkt", src: p.addr}
		alt := []string{"i2e", "i-1e", "i65536e", "i9e"}[r.intn(4)]
		e.dyn = func(st *srvState, e *sev) {
			m := krpc.Msg{Y: "r", T: st.qt[id], R: &krpc.Return{ID: p.id}, ReadOnly: flag != 0}
			if flag == 4 {
				m = krpc.Msg{Y: "e", T: st.qt[id], E: &krpc.Error{Code: 202, Msg: "ro"}, ReadOnly: true}
			}
			if flag == 2 || flag == 3 {
				b := bencode.MustMarshal(m)
				if flag == 3 {
					alt = "i0e"
				}
				k := bytes.LastIndex(b, []byte("2:roi1e1:t"))
				if k >= 0 {
					e.msg = nil
					e.raw = append(append(append([]byte(nil), b[:k+4]...), alt...), b[k+7:]...)
					return
				}
			}
			e.msg = &m
		}
		return e
	}
	ask := func(p speer) int {
		qid++
		q := []string{"ping", "find_node", "get_peers"}[r.intn(3)]
		c.evs = append(c.evs, sev{kind: "qstart", qid: qid, src: p.addr, q: q, rated: r.bool(), args: krpc.MsgArgs{Target: root, InfoHash: root}})
		return qid
	}
	buckets := []int{0, 1, 2, 5, 159}
	for fam := 0; fam < 3; fam++ {
		p := speer{addr: randAddr(r, fam), id: idInBucket(r, root, buckets[r.intn(len(buckets))])}
		// flagged answer from a stranger: not admitted
		c.evs = append(c.evs, answer(ask(p), p, 1+r.intn(2)))
		// flagged error from a stranger
		c.evs = append(c.evs, answer(ask(p), p, 4))
		// the contact queries us (admitted, never answered), then answers with the flag: an entry that exists is updated
		c.evs = append(c.evs, qpkt(p.addr, "ping", "rq", argsID(p.id)))
		c.evs = append(c.evs, answer(ask(p), p, 1))
		// another stranger with "ro":0 is an ordinary responder
		p2 := speer{addr: randAddr(r, fam), id: idInBucket(r, root, buckets[r.intn(len(buckets))])}
		c.evs = append(c.evs, answer(ask(p2), p2, 3))
		// flagged and unsolicited
		p3 := speer{addr: randAddr(r, fam), id: idInBucket(r, root, buckets[r.intn(len(buckets))])}
		c.evs = append(c.evs, sev{kind: "pkt", src: p3.addr, msg: &krpc.Msg{Y: "r", T: "un", R: &krpc.Return{ID: p3.id}, ReadOnly: true}})
		// flagged answer under a transaction id that is not the outstanding one, then the genuine flagged one
		id := ask(p3)
		e := answer(id, p3, 1)
		inner := e.dyn
		e.dyn = func(st *srvState, e *sev) {
			inner(st, e)
			m := *e.msg
			m.T += "x"
			e.msg = &m
		}
		c.evs = append(c.evs, e, answer(id, p3, 1))
	}
	// a full bucket of entries that never answered: a responder would displace one of them, a read-only one must not
	fb := []int{0, 1, 3}[r.intn(3)]
	for i := 0; i < 8; i++ {
		p := speer{addr: randAddr(r, famOf(r)), id: idInBucket(r, root, fb)}
		c.evs = append(c.evs, qpkt(p.addr, "ping", "fb", argsID(p.id)))
	}
	for i := 0; i < 3; i++ {
		p := speer{addr: randAddr(r, famOf(r)), id: idInBucket(r, root, fb)}
		c.evs = append(c.evs, answer(ask(p), p, []int{1, 2, 1}[i]))
	}
	p := speer{addr: randAddr(r, 0), id: idInBucket(r, root, fb)}
	c.evs = append(c.evs, answer(ask(p), p, 0)) // the ordinary responder does displace one
	c.evs = append(c.evs, qpkt(randAddr(r, 0), "find_node", "fz", &krpc.MsgArgs{ID: idInBucket(r, root, 9), Target: idInBucket(r, root, fb), Want: []krpc.Want{"n4", "n6"}}))
	return c
}

// ---------------------------------------------------------------- BEP 44 history helper

type b44gen struct {
	r    *rng
	c    *srvCase
	src  *net.UDPAddr
	id   [20]byte
	priv ed25519.PrivateKey
	pub  [32]byte
}

func newB44gen(r *rng, c *srvCase) *b44gen {
	g := &b44gen{r: r, c: c, src: randAddr(r, famOf(r)), id: idInBucket(r, c.cfg.root, r.intn(160)), priv: detKey(r)}
	copy(g.pub[:], g.priv.Public().(ed25519.PublicKey))
	return g
}

func (g *b44gen) add(e ...sev) { g.c.evs = append(g.c.evs, e...) }

func (g *b44gen) target(salt []byte) [20]byte {
	return sha1.Sum(append(append([]byte(nil), g.pub[:]...), salt...))
}

// a token for src
func (g *b44gen) token() {
	g.add(qpkt(g.src, "get", "gt", &krpc.MsgArgs{ID: g.id, Target: g.target(nil)}))
}

// put sends a put from src with the last token it was given. mutable: signed under g's key; sig: 0 valid, 1 signed for
// seq+1, 2 one bit flipped. v == nil: no v at all.
func (g *b44gen) put(v interface{}, seq *int64, cas int64, salt []byte, mutable bool, sig int, tokenOK bool) {
	a := krpc.MsgArgs{ID: g.id, V: v, Seq: seq, Cas: cas}
	e := sev{kind: "pkt", src: g.src}
	if mutable {
		a.K = g.pub
		a.Salt = salt
		var s int64
		if seq != nil {
			s = *seq
		}
		var bv []byte
		if v != nil {
			bv = bencode.MustMarshal(v)
		}
		ss := s
		if sig == 1 {
			ss = s + 1
		}
		copy(a.Sig[:], bep44.Sign(g.priv, salt, ss, bv))
		if sig == 2 {
			a.Sig[g.r.intn(64)] ^= 1 << uint(g.r.intn(8))
		}
		// (a put without v is checked and signed over the empty byte string: bencode.Marshal(nil) = "")
		e.pre = "sedtable " + edLine(a.K, a.Salt, bv, s, a.Sig) + " => ok"
	}
	src := g.src
	e.dyn = func(st *srvState, e *sev) {
		x := a
		x.Token = st.lastTok[ipKey(src.IP)]
		if !tokenOK {
			x.Token = "no" + x.Token
		}
		e.msg = &krpc.Msg{Q: "put", Y: "q", T: "pu", A: &x}
	}
	g.add(e)
}

func (g *b44gen) get(tgt [20]byte, seq *int64, from *net.UDPAddr) {
	g.add(qpkt(from, "get", "rb", &krpc.MsgArgs{ID: g.id, Target: tgt, Seq: seq}))
}

func i64p(x int64) *int64 { return &x }

const maxI64, minI64 = int64(9223372036854775807), int64(-9223372036854775808)

// ---------------------------------------------------------------- every return path of put / get, then more queries

func genPutReject(r *rng, idx int) srvCase {
	c := srvCase{idx: idx, cfg: baseCfg(r, "putreject")}
	c.cfg.storeFail = idx%3 == 2
	c.cfg.wait = r.intn(4) == 0
	root := c.cfg.root
	g := newB44gen(r, &c)
	salt := [][]byte{nil, []byte("s"), r.bytes(64)}[r.intn(3)]
	tgt := g.target(salt)
	other := randAddr(r, famOf(r))
	v1, v2 := interface{}("first"), interface{}([]interface{}{int64(2), "second"})
	seq := int64(10)
	if c.cfg.storeFail {
		seq = 11 // 10 % 7 = 3 is the sequence number the failing store refuses
	}
	// what follows every put / get: queries of every kind to the same node, from the putter and from others
	follow := func() {
		n := 1 + r.intn(2)
		for i := 0; i < n; i++ {
			switch r.intn(7) {
			case 0, 1:
				g.get(tgt, nil, []*net.UDPAddr{g.src, other}[r.intn(2)])
			case 2:
				g.get(tgt, i64p([]int64{seq, seq - 1, maxI64, minI64}[r.intn(4)]), other)
			case 3:
				g.add(qpkt(other, "ping", "fp", argsID(g.id)))
			case 4:
				g.add(qpkt(randAddr(r, famOf(r)), "find_node", "ff", &krpc.MsgArgs{ID: idInBucket(r, root, r.intn(160)), Target: root}))
			case 5:
				var ih [20]byte
				copy(ih[:], r.bytes(20))
				g.add(qpkt(g.src, "get_peers", "fg", &krpc.MsgArgs{ID: g.id, InfoHash: ih}))
			default:
				// an immutable put (its own target) with the same token
				g.put(string(r.bytes(1+r.intn(20))), i64p(0), 0, nil, false, 0, true)
			}
		}
	}
	g.token()
	g.put(v1, i64p(seq), 0, salt, true, 0, true) // stored
	follow()
	paths := []int{0, 1, 2, 3, 4, 5, 6, 7, 8, 9, 10, 11, 12, 13}
	for i := range paths {
		j := i + r.intn(len(paths)-i)
		paths[i], paths[j] = paths[j], paths[i]
	}
	sinceToken := 0
	for _, p := range paths {
		if sinceToken >= 3 {
			g.token()
			sinceToken = 0
		}
		sinceToken++
		switch p {
		case 0: // lower sequence number: 302
			g.put(v2, i64p(seq-1-int64(r.intn(3))), 0, salt, true, 0, true)
		case 1: // same sequence number, another value: 302
			g.put(v2, i64p(seq), 0, salt, true, 0, true)
		case 2: // cas names another sequence number than the stored one: 301
			g.put(v2, i64p(seq+1), []int64{seq + 1, seq - 1, maxI64, minI64, -1}[r.intn(5)], salt, true, 0, true)
		case 3: // invalid signature: 206
			g.put(v2, i64p(seq+1), 0, salt, true, 1+r.intn(2), true)
		case 4: // value too big: 205
			g.put(valueOfSize(r, 1001+r.intn(3)), i64p(seq+1), 0, salt, true, 0, true)
		case 5: // salt too big: 207
			g.put(v2, i64p(seq+1), 0, r.bytes(65+r.intn(100)), true, 0, true)
		case 6: // no seq: 203
			g.put(v2, nil, 0, salt, true, 0, true)
		case 7: // an immutable item at the size limit, and one byte beyond
			g.put(valueOfSize(r, 1000), i64p(0), 0, nil, false, 0, true)
			g.put(valueOfSize(r, 1001), i64p(0), 0, nil, false, 0, true)
		case 8: // bad token: silence
			g.put(v2, i64p(seq+1), 0, salt, true, 0, false)
		case 9: // the same version again: accepted (refresh)
			g.put(v1, i64p(seq), 0, salt, true, 0, true)
		case 10: // cas equal to the stored sequence number, higher seq: accepted
			if c.cfg.storeFail && (seq+1)%7 == 3 {
				seq++
			}
			g.put(v1, i64p(seq+1), seq, salt, true, 0, true)
			seq++
		case 12: // no v at all, immutable: the value is the empty byte string, the item lives under sha1("")
			g.put(nil, i64p(0), 0, nil, false, 0, true)
			g.get(sha1.Sum(nil), nil, []*net.UDPAddr{g.src, other}[r.intn(2)])
			g.get(sha1.Sum(nil), i64p([]int64{0, -1, maxI64, minI64}[r.intn(4)]), other)
		case 13: // no v at all, mutable, under another salt: signed over "3:seqi<n>e1:v" + nothing; then a newer
			// version with a value, then the value-less one again (lower seq: 302)
			s2 := append([]byte("nov"), r.bytes(r.intn(8))...)
			t2 := g.target(s2)
			q := int64(1 + r.intn(6)) // never the sequence number the failing store refuses
			if c.cfg.storeFail && q%7 == 3 {
				q++
			}
			g.put(nil, i64p(q), 0, s2, true, 0, true)
			g.get(t2, nil, other)
			g.put(nil, i64p(q), 0, s2, true, 1+r.intn(2), true) // bad signature over the empty value: 206
			if r.intn(2) == 0 {
				g.put(v2, i64p(q), 0, s2, true, 0, true) // same seq, another value: 302
			}
			g.get(t2, i64p(q-1), g.src)
		case 11: // the item expires; a get finds (and deletes) it, the next ones find nothing
			g.add(sev{kind: "adv", adv: []time.Duration{119 * time.Minute, 121 * time.Minute, 5 * time.Hour}[r.intn(3)]})
			g.get(tgt, nil, other)
			g.token()
			sinceToken = 0
			follow()
			g.put(v1, i64p(seq), 0, salt, true, 0, true)
		}
		follow()
	}
	if c.cfg.storeFail {
		// the underlying store refuses: 204, nothing stored
		g.token()
		s3 := seq + 1
		for s3%7 != 3 {
			s3++
		}
		g.put(v2, i64p(s3), 0, salt, true, 0, true)
		follow()
	}
	g.get(tgt, nil, other)
	g.add(qpkt(randAddr(r, 0), "ping", "lp", argsID(idInBucket(r, root, 7))))
	return c
}

// ---------------------------------------------------------------- integer arguments out of range

var portExtremes = []interface{}{0, -1, 1, 65535, 65536, 65537, 70000, 131071, 1 << 31, -(1 << 31), 1 << 32, 1 << 40, -(1 << 40),
	maxI64, minI64, braw("i9223372036854775808e"), braw("i-9223372036854775809e")}

var impliedExtremes = []interface{}{nil, nil, nil, nil, nil, nil, nil, 0, 0, 1, 2, -1, 1 << 40, minI64}

func genIntArgs(r *rng, idx int) srvCase {
	c := srvCase{idx: idx, cfg: baseCfg(r, "intargs")}
	switch idx % 4 {
	case 1:
		c.cfg.cb = false
	case 2:
		c.cfg.psEmpty = true
	case 3:
		c.cfg.wait = true
	}
	root := c.cfg.root
	var ihs [2][20]byte
	for i := range ihs {
		copy(ihs[i][:], r.bytes(20))
	}
	ann := []*net.UDPAddr{randAddr(r, 0), randAddr(r, 1), randAddr(r, 2), randAddr(r, 0)}
	ann = append(ann, udp(ann[0].IP, 1+r.intn(65535)))
	ask4 := speer{addr: randAddr(r, 0), id: idInBucket(r, root, r.intn(160))}
	ask6 := speer{addr: randAddr(r, 1), id: idInBucket(r, root, r.intn(160))}
	bep33 := []int{0, 0, 0, 1, -1, 2, 1 << 40, int(minI64), int(maxI64)} // noseed / scrape: integers the handlers only count
	readBack := func(ih [20]byte) {
		// both families are asked for: every stored endpoint is encoded into one of the two replies
		c.evs = append(c.evs, qpkt(ask4.addr, "get_peers", "r4", &krpc.MsgArgs{ID: ask4.id, InfoHash: ih, Want: [][]krpc.Want{nil, {"n4"}, {"n4", "n6"}}[r.intn(3)],
			NoSeed: bep33[r.intn(len(bep33))], Scrape: bep33[r.intn(len(bep33))]}))
		c.evs = append(c.evs, qpkt(ask6.addr, "get_peers", "r6", &krpc.MsgArgs{ID: ask6.id, InfoHash: ih, Want: [][]krpc.Want{nil, {"n6"}, {"n6", "n4"}}[r.intn(3)],
			Scrape: bep33[r.intn(len(bep33))]}))
	}
	// consecutive cases walk the list: three cases of 8 announces cover all of it
	ports := append(append([]interface{}(nil), portExtremes...), nil) // nil: neither port nor implied_port
	n := 8
	for k := 0; k < n; k++ {
		src := ann[r.intn(len(ann))]
		ih := ihs[r.intn(len(ihs))]
		id := idInBucket(r, root, r.intn(160))
		port := ports[(k+idx*n)%len(ports)]
		implied := impliedExtremes[r.intn(len(impliedExtremes))]
		noseed := bep33[r.intn(len(bep33))]
		c.evs = append(c.evs, qpkt(src, "get_peers", "tk", &krpc.MsgArgs{ID: id, InfoHash: ih}))
		e := sev{kind: "pkt", src: src}
		e.dyn = func(st *srvState, e *sev) {
			a := map[string]interface{}{"id": id[:], "info_hash": ih[:], "token": st.lastTok[ipKey(src.IP)]}
			if port != nil {
				a["port"] = port
			}
			if implied != nil {
				a["implied_port"] = implied
			}
			if noseed != 0 {
				a["noseed"] = noseed
			}
			e.raw = rawQuery("announce_peer", "ap", a)
		}
		c.evs = append(c.evs, e)
		readBack(ih)
	}
	for _, ih := range ihs {
		readBack(ih)
	}
	// BEP 44: seq and cas at the ends of int64 and beyond, on an immutable and on a mutable item, and read back
	g := newB44gen(r, &c)
	g.token()
	ext := []int64{maxI64, minI64, -1, 0, 1, maxI64 - 1, minI64 + 1}
	imm := string(r.bytes(1 + r.intn(30)))
	g.put(imm, i64p(ext[r.intn(len(ext))]), ext[r.intn(len(ext))], nil, false, 0, true)
	g.get(sha1.Sum(bencode.MustMarshal(imm)), nil, ask4.addr)
	s0 := ext[r.intn(len(ext))]
	g.put("m0", i64p(s0), 0, nil, true, 0, true)
	g.get(g.target(nil), i64p(ext[r.intn(len(ext))]), ask6.addr)
	g.put("m1", i64p(ext[r.intn(len(ext))]), ext[r.intn(len(ext))], nil, true, 0, true)
	g.get(g.target(nil), nil, ask4.addr)
	g.put("m2", i64p(maxI64), s0, nil, true, 0, true)
	g.get(g.target(nil), i64p(maxI64), ask4.addr)
	g.get(g.target(nil), i64p(maxI64-1), ask6.addr)
	// seq / cas that do not fit int64 (raw): the datagram does not decode, or the handler sees what the decoder made of it
	for _, txt := range []string{"i9223372036854775808e", "i-9223372036854775809e"} {
		txt := txt
		field := []string{"seq", "cas"}[r.intn(2)]
		e := sev{kind: "pkt", src: g.src}
		gid, src := g.id, g.src
		e.dyn = func(st *srvState, e *sev) {
			a := map[string]interface{}{"id": gid[:], "token": st.lastTok[ipKey(src.IP)], "v": "big", "seq": 1}
			a[field] = braw(txt)
			e.raw = rawQuery("put", "pb", a)
		}
		c.evs = append(c.evs, e)
	}
	g.add(qpkt(g.src, "ping", "ip", argsID(g.id)))
	// integer fields of replies to the node's own queries
	qid := 0
	for k := 0; k < 4; k++ {
		d := speer{addr: randAddr(r, famOf(r)), id: idInBucket(r, root, r.intn(160))}
		qid++
		my := qid
		q := []string{"get_peers", "get", "find_node", "ping"}[k]
		c.evs = append(c.evs, sev{kind: "qstart", qid: my, src: d.addr, q: q, rated: true, args: krpc.MsgArgs{Target: root, InfoHash: root}})
		big := []interface{}{maxI64, minI64, -1, 1 << 40, 0}
		e := sev{kind: "pkt", src: d.addr}
		kind := r.intn(3)
		x, y, z := big[r.intn(len(big))], big[r.intn(len(big))], big[r.intn(len(big))]
		e.dyn = func(st *srvState, e *sev) {
			m := map[string]interface{}{"t": st.qt[my], "y": "r"}
			switch kind {
			case 0, 1:
				m["r"] = map[string]interface{}{"id": d.id[:], "interval": x, "num": y, "seq": z, "token": "tk"}
			default:
				m["y"] = "e"
				m["e"] = []interface{}{x, "code"}
			}
			e.raw = bnc(m)
		}
		c.evs = append(c.evs, e)
	}
	return c
}
