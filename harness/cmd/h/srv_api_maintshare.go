package main

// Engine "api", kind maintshare (C09, oracle only): what replies list while a REAL TableMaintainer works on a table in
// which entries share an address or an id.
//
// A host that restarts under a new id, a nodes file with an outdated id, two nodes behind one NAT address: the table
// then holds several entries (different ids) for ONE address, or one id at several addresses. The maintainer pings the
// questionable ones (3 tries, short resend delay here); a ping nobody answers turns THAT entry - the (address, id)
// pair that was pinged - bad. Contacts that answered one of our queries moments ago are good, are not pinged, and
// must go on being listed whatever happens to the entries they share an address or an id with.
//
// Per case: 3-5 hosts. Each answers our first query as Y (Y is then a responded, good contact) and then goes silent,
// keeps answering, or answers everything but pings; around it 0-2 stale entries X (AddNode, never answered) at the
// same address in the same or another bucket, sometimes a twin (Y's id at another, silent address), added before or
// after Y answered. Plus lone stale entries at silent addresses and lone good contacts. Fewer than K good contacts per
// family, so a reply for the node's own id (and for any target in the deepest populated bucket or beyond) has to list
// all of them.
//
// Oracles (find_node / get_peers probes with want n4 n6 from fresh addresses, before the maintainer starts, while it
// runs, and after every silent stale entry has failed its ping):
//   good-contact-omitted:answered-moments-ago            a contact that answered our query seconds ago and was never
//                                                        itself the (address, id) of an unanswered ping is missing
//   listed-contact-dropped-during-maintenance            a contact listed before is no longer listed (nothing ages in
//                                                        these seconds; the only entries whose state may change for
//                                                        the worse are the pinged, questionable ones, never listed)
// Both hold under every interleaving of the maintainer, the probes and the hosts' answers.

import (
	"fmt"
	"net"
	"runtime"
	"sort"
	"strings"
	"time"

	"github.com/anacrolix/torrent/bencode"

	"github.com/anacrolix/dht/v2/krpc"
)

// probeNodes sends one lookup query from `from` and returns the contacts its reply lists (nil, false: no reply seen)
func (a *apiSrv) probeNodes(from apiNode, q string, target [20]byte, t string, ro bool) (map[string]bool, bool) {
	args := &krpc.MsgArgs{ID: from.id, Want: []krpc.Want{"n4", "n6"}}
	if q == "get_peers" {
		args.InfoHash = target
	} else {
		args.Target = target
	}
	m := krpc.Msg{Q: q, Y: "q", T: t, A: args, ReadOnly: ro}
	a.conn.takeWrites()
	if !a.conn.inject(bencode.MustMarshal(m), from.addr, 5*time.Second) {
		return nil, false
	}
	dl := time.Now().Add(5 * time.Second)
	for time.Now().Before(dl) {
		for _, w := range a.conn.takeWrites() {
			if w.addr == nil || w.addr.String() != from.addr.String() {
				continue
			}
			rm, ok := decodeLikeServer(w.data)
			if !ok || rm.Y != "r" || rm.T != t || rm.R == nil {
				continue
			}
			got := map[string]bool{}
			for _, ni := range rm.R.Nodes {
				got[apiKey(ni.ID, ni.Addr.IP, ni.Addr.Port)] = true
			}
			for _, ni := range rm.R.Nodes6 {
				got[apiKey(ni.ID, ni.Addr.IP, ni.Addr.Port)] = true
			}
			return got, true
		}
		time.Sleep(200 * time.Microsecond)
	}
	return nil, false
}

func runApiMaintShared(seed uint64, idx int, c apiCase) {
	r := (&rng{s: seed ^ 0xa91c09}).sub(idx)
	a := newApiSrv(idx, c, r, 8*time.Millisecond)
	a.noPing = map[string]bool{}
	deep := 4 + r.intn(3) // the deepest populated bucket
	bucket := func() int { return r.intn(deep + 1) }
	var goodOnes []apiNode  // answered our query
	var staleSilent []apiNode // questionable entries whose ping nobody answers: they have to fail
	var descr []string
	inB0 := 0
	addStale := func(n apiNode, silent bool) {
		if sharedPrefix(a.root, n.id) == 0 {
			if inB0 >= 7 {
				return
			}
			inB0++
		}
		guard("AddNode", a.ctx(), func() { a.s.AddNode(n.info()) })
		if silent {
			staleSilent = append(staleSilent, n)
		}
	}
	answer := func(n apiNode) bool {
		a.mu.Lock()
		a.responders[n.addr.String()] = n
		a.mu.Unlock()
		var err error
		guard("Ping", a.ctx(), func() { err = a.s.Ping(n.addr).Err })
		a.replies.WaitFor(2 * time.Second)
		return err == nil
	}
	nhosts := 3 + r.intn(3)
	n4, n6 := 0, 0
	for h := 0; h < nhosts; h++ {
		fam := famOf(r)
		if fam == 1 {
			if n6++; n6 > 6 {
				fam = 0
			}
		}
		if fam != 1 {
			if n4++; n4 > 6 {
				continue
			}
		}
		y := apiNode{id: idInBucket(r, a.root, bucket()), addr: randAddr(r, fam)}
		if h == 0 {
			y.id = idInBucket(r, a.root, deep)
		} else if r.bool() && inB0 < 7 {
			y.id = idInBucket(r, a.root, 0)
		}
		if sharedPrefix(a.root, y.id) == 0 {
			inB0++
		}
		behaviour := r.intn(3) // 0: silent after its first answer, 1: keeps answering, 2: answers everything but pings
		nstale := r.intn(3)
		if h == 0 && nstale == 0 {
			nstale = 1
		}
		var stale []apiNode
		for i := 0; i < nstale; i++ {
			// bucket 0: the maintainer's first pass stops at the first bucket it cannot fill, and only the buckets up to
			// there have their questionable entries pinged before its one-minute pause
			stale = append(stale, apiNode{id: idInBucket(r, a.root, 0), addr: y.addr})
		}
		before := r.bool()
		if before {
			for _, x := range stale {
				addStale(x, behaviour != 1)
			}
		}
		if answer(y) {
			goodOnes = append(goodOnes, y)
		}
		if !before {
			for _, x := range stale {
				addStale(x, behaviour != 1)
			}
		}
		if sharedPrefix(a.root, y.id) == 0 && r.bool() {
			// the same id at another address that answers nothing
			addStale(apiNode{id: y.id, addr: randAddr(r, fam)}, true)
		}
		a.mu.Lock()
		switch behaviour {
		case 0:
			delete(a.responders, y.addr.String())
		case 2:
			a.noPing[y.addr.String()] = true
		}
		a.mu.Unlock()
		descr = append(descr, fmt.Sprintf("host%d:fam=%d,behaviour=%d,stale=%d,stale-first=%d", h, fam, behaviour, nstale, b2i(before)))
	}
	for i := 0; i < 2; i++ {
		addStale(apiPoolNode(r, a.root, 0), true)
	}
	// wait until every contact that answered shows as good (the table update follows the delivery of the answer)
	isGood := func(n apiNode) (good, failed, present bool) {
		for _, e := range a.snap().nodes {
			if apiKey(e.Id, net.IP(e.IP), e.Port) == n.key() {
				return e.Good, e.Failed, true
			}
		}
		return false, false, false
	}
	dl := time.Now().Add(3 * time.Second)
	for _, y := range goodOnes {
		for time.Now().Before(dl) {
			if g, _, _ := isGood(y); g {
				break
			}
			time.Sleep(time.Millisecond)
		}
	}
	// only contacts the table shows as good are expected in replies (one that found its bucket full is none of C09's concern)
	{
		var kept []apiNode
		for _, y := range goodOnes {
			if g, _, _ := isGood(y); g {
				kept = append(kept, y)
			} else {
				emit("# api %s maintshare contact %s answered but is not a good entry (dropped from the expectations)", a.ctx(), y.key())
			}
		}
		goodOnes = kept
	}
	nprobe := 0
	probe := func(stage string) map[string]bool {
		nprobe++
		from := apiNode{id: idInBucket(r, a.root, 30+r.intn(100)), addr: randAddr(r, r.intn(3))}
		target := a.root
		switch r.intn(3) {
		case 1:
			target = idInBucket(r, a.root, deep)
		case 2:
			target = idInBucket(r, a.root, deep+1+r.intn(100))
		}
		q := []string{"find_node", "get_peers", "find_node"}[r.intn(3)]
		got, ok := a.probeNodes(from, q, target, fmt.Sprintf("mp%d", nprobe), r.bool())
		if !ok {
			emit("# api %s maintshare probe %s: no reply seen (dropped)", a.ctx(), stage)
			return nil
		}
		for _, y := range goodOnes {
			if !got[y.key()] {
				g, f, p := isGood(y)
				apiOracle("C09", "good-contact-omitted:answered-moments-ago:"+stage,
					"%s method=%s contact=%s answered our ping seconds ago and was never the target of an unanswered ping; table entry present=%v good=%v failed-ping-flag=%v; listed=%d [%s]",
					a.ctx(), q, y.key(), p, g, f, len(got), strings.Join(descr, " "))
			}
		}
		return got
	}
	first := probe("before-maintenance")
	go a.s.TableMaintainer()
	during := probe("during-maintenance")
	// until every stale entry at a silent address has failed its ping
	dl = time.Now().Add(6 * time.Second)
	allFailed := false
	for !allFailed && time.Now().Before(dl) {
		time.Sleep(5 * time.Millisecond)
		allFailed = true
		for _, x := range staleSilent {
			if _, f, p := isGood(x); p && !f {
				allFailed = false
			}
		}
	}
	var last map[string]bool
	for i := 0; i < 3; i++ {
		got := probe("after-maintenance")
		if got != nil {
			last = got
		}
	}
	dropped := func(was, is map[string]bool, stage string) {
		if was == nil || is == nil {
			return
		}
		var ks []string
		for k := range was {
			if !is[k] {
				ks = append(ks, k)
			}
		}
		sort.Strings(ks)
		for _, k := range ks {
			apiOracle("C09", "listed-contact-dropped-during-maintenance:"+stage, "%s contact=%s was listed before the maintainer ran [%s]", a.ctx(), k, strings.Join(descr, " "))
		}
	}
	dropped(first, during, "while-running")
	dropped(first, last, "after-pings")
	emit("# api %s maintshare hosts=%d good=%d stale-silent=%d all-failed=%v", a.ctx(), nhosts, len(goodOnes), len(staleSilent), allFailed)
	guard("Close", a.ctx(), func() { a.s.Close() })
	a.replies.Wait()
	dl = time.Now().Add(4 * time.Second)
	for runtime.NumGoroutine() > a.base && time.Now().Before(dl) {
		time.Sleep(time.Millisecond)
	}
	a.conn.Close()
}
