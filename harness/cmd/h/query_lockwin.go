package main

// Engine "query", special case "lockwin" (oracle only; C14): the genuine reply is matched in the window between the
// moment the query's sender gives up (its last resend interval has run out) and the removal of the transaction, while
// the caller's context stays alive (context.Background, as every query of the library's own lookups, pings and
// maintenance has).
//
// The window is made wide with the server's own lock: a second query (to another address) is parked inside the
// configured IP blocklist's Lookup, which Server.writeToNode calls with the server's READ lock held; the reply to the
// first query is handed to the serve loop (its own read-locked blocklist check passes), whose packet handler queues for
// the write lock; the first query's sender times out, Query queues for the write lock behind the packet handler; the
// parked Lookup is released. The packet handler wins, finds the transaction still registered and hands the reply over -
// to a query that no longer listens. Nothing may be left behind: Query returns (time-out error or the reply),
// no transaction stays pending, every goroutine ends.

import (
	"context"
	"fmt"
	"net"
	"runtime"
	"sync"
	"sync/atomic"
	"time"

	"github.com/anacrolix/log"
	"github.com/anacrolix/torrent/iplist"
	"github.com/anacrolix/torrent/bencode"
	"golang.org/x/time/rate"

	dht "github.com/anacrolix/dht/v2"
	"github.com/anacrolix/dht/v2/krpc"
)

// parkRanger blocks nothing; a Lookup of parkIP waits (with whatever locks the caller holds) until released
type parkRanger struct {
	parkIP  net.IP
	entered chan struct{}
	release chan struct{}
	once    sync.Once
}

func (p *parkRanger) Lookup(ip net.IP) (iplist.Range, bool) {
	if ip.Equal(p.parkIP) {
		p.once.Do(func() { close(p.entered) })
		<-p.release
	}
	return iplist.Range{}, false
}
func (p *parkRanger) NumRanges() int { return 0 }

func qLockWindowCase(idx int, sc *qScn, base0 *int) {
	detail := fmt.Sprintf("qcase %d lockwin tag=%s tries=%d", idx, sc.tag, sc.tries)
	leaks, stuck := 0, 0
	for rep := 0; rep < sc.reps && stuck == 0; rep++ {
		conn := newFakeConn()
		dest := &net.UDPAddr{IP: net.IPv4(10, 1, 2, byte(9+rep)), Port: 6881}
		tidc := make(chan string, 8)
		conn.onWrite = func(b []byte, to *net.UDPAddr) {
			if m, ok := decodeLikeServer(b); ok && m.Y == "q" {
				select {
				case tidc <- m.T:
				default:
				}
			}
		}
		const delay = 30 * time.Millisecond
		pr := &parkRanger{parkIP: net.IPv4(10, 9, 9, byte(1+rep)), entered: make(chan struct{}), release: make(chan struct{})}
		cfg := &dht.ServerConfig{
			IPBlocklist:      pr,
			Conn:             conn,
			NoSecurity:       true,
			StartingNodes:    func() ([]dht.Addr, error) { return nil, nil },
			QueryResendDelay: func() time.Duration { return delay },
			Logger:           log.NewLogger().FilterLevel(log.Critical),
			SendLimiter:      rate.NewLimiter(rate.Inf, 1),
		}
		cfg.NodeId[0] = 0x42
		s, err := dht.NewServer(cfg)
		if err != nil {
			panic(err)
		}
		for atomic.LoadInt64(&conn.reads) == 0 {
			time.Sleep(100 * time.Microsecond)
		}
		done := make(chan dht.QueryResult, 1)
		go func() {
			done <- s.Query(context.Background(), dht.NewAddr(dest), "ping", dht.QueryInput{NumTries: sc.tries})
		}()
		var tid string
		select {
		case tid = <-tidc:
		case <-time.After(5 * time.Second):
			oracle("C14", "query-did-not-return:lockwin-no-datagram", "%s rep=%d", detail, rep)
			stuck++
			continue
		}
		hctx, hcancel := context.WithCancel(context.Background())
		wsDone := make(chan struct{})
		go func() {
			s.Query(hctx, dht.NewAddr(&net.UDPAddr{IP: pr.parkIP, Port: 7000}), "ping", dht.QueryInput{})
			close(wsDone)
		}()
		select {
		case <-pr.entered:
		case <-time.After(5 * time.Second):
		}
		// the reply: taken by the serve loop, its handler waits for the lock
		var id krpc.ID
		id[0], id[19] = 0x66, byte(rep)
		rb := bencode.MustMarshal(krpc.Msg{T: tid, Y: "r", R: &krpc.Return{ID: id}})
		select {
		case conn.in <- fpkt{rb, dest}:
		case <-time.After(5 * time.Second):
		}
		// every send and the last resend interval are over: the sender has given up, Query waits for the lock
		time.Sleep(time.Duration(sc.tries+1)*delay + 60*time.Millisecond)
		close(pr.release)
		select {
		case <-done:
		case <-time.After(8 * time.Second):
			oracle("C14", "query-did-not-return:reply-matched-after-the-sender-gave-up", "%s rep=%d", detail, rep)
			stuck++
		}
		hcancel()
		select {
		case <-wsDone:
		case <-time.After(5 * time.Second):
		}
		if stuck == 0 {
			for dl := time.Now().Add(3 * time.Second); len(s.VerifPending()) > 0 && time.Now().Before(dl); {
				time.Sleep(time.Millisecond)
			}
			if n := len(s.VerifPending()); n > 0 {
				oracle("C14", "transaction-leak", "%s rep=%d: %d transactions pending after the query returned", detail, rep, n)
			}
		}
		s.Close()
		conn.Close()
	}
	if stuck == 0 {
		if leak := waitGoroutines(*base0, 3*time.Second); leak > 0 {
			leaks = leak
			oracle("C14", "goroutine-leak:query", "+%d goroutines after %d queries whose reply was matched after the sender had given up, caller context alive (%s)", leak, sc.reps, detail)
			*base0 = runtime.NumGoroutine()
		}
	}
	emit("# qlockwin %d tag=%s reps=%d leaked=%d stuck=%d", idx, sc.tag, sc.reps, leaks, stuck)
}
