package main

// Engine "defaults" (oracle only, C20): the send budget an application configures through the package's
// documented defaults is the one its servers use. dht.DefaultSendLimiter is an exported variable; an
// application that assigns its own limiter to it before building servers with NewDefaultServerConfig(),
// NewServer(nil) or a config without a limiter has configured that budget, and so has one that adjusts
// the existing default limiter in place (SetLimit / SetBurst).

import (
	"net"
	"time"

	"github.com/anacrolix/log"
	"github.com/anacrolix/torrent/bencode"
	"golang.org/x/time/rate"

	dht "github.com/anacrolix/dht/v2"
	"github.com/anacrolix/dht/v2/krpc"
)

func init() { engines["defaults"] = defaultsEngine }

func defaultsFlood(s *dht.Server, conn *fakeConn, r *rng, n int) int {
	for i := 0; i < n; i++ {
		var id [20]byte
		copy(id[:], r.bytes(20))
		b := bencode.MustMarshal(krpc.Msg{Q: "ping", Y: "q", T: string(rune('a' + i%26)), A: &krpc.MsgArgs{ID: id}})
		conn.inject(b, randAddr(r, i%2), 2*time.Second)
	}
	// a fence: the reads above have been taken; replies are written by goroutines of their own, give them time
	deadline := time.Now().Add(400 * time.Millisecond)
	sent := 0
	for time.Now().Before(deadline) {
		sent += len(conn.takeWrites())
		time.Sleep(2 * time.Millisecond)
	}
	return sent
}

func defaultsEngine(seed uint64, tier string, _ []string) {
	r := &rng{s: seed ^ 0xdefa}
	saved := dht.DefaultSendLimiter
	defer func() { dht.DefaultSendLimiter = saved }()
	type mk struct {
		name string
		f    func(conn *fakeConn) (*dht.Server, error)
	}
	quiet := func(c *dht.ServerConfig, conn *fakeConn) *dht.ServerConfig {
		c.Conn = conn
		c.NoSecurity = true
		c.StartingNodes = func() ([]dht.Addr, error) { return nil, nil }
		c.Logger = log.NewLogger().FilterLevel(log.Critical)
		return c
	}
	ways := []mk{
		{"NewDefaultServerConfig", func(conn *fakeConn) (*dht.Server, error) {
			return dht.NewServer(quiet(dht.NewDefaultServerConfig(), conn))
		}},
		{"config-without-limiter", func(conn *fakeConn) (*dht.Server, error) {
			return dht.NewServer(quiet(&dht.ServerConfig{}, conn))
		}},
	}
	budget := 3
	for round := 0; round < 2; round++ {
		for _, how := range []string{"reassigned", "adjusted-in-place"} {
			if how == "reassigned" {
				dht.DefaultSendLimiter = rate.NewLimiter(rate.Every(time.Hour), budget)
			} else {
				dht.DefaultSendLimiter = saved
				saved.SetLimit(rate.Every(time.Hour))
				saved.SetBurst(budget)
			}
			for _, w := range ways {
				conn := newFakeConn()
				conn.local = &net.UDPAddr{IP: net.IPv4(127, 0, 0, 1), Port: 4500}
				s, err := w.f(conn)
				if err != nil {
					emit("# defaults: %s: %v", w.name, err)
					continue
				}
				sent := defaultsFlood(s, conn, r.sub(round*10+len(how)), 20)
				s.Close()
				conn.Close()
				emit("# defaults: limiter %s, server by %s: 20 pings, %d datagrams (budget %d)", how, w.name, sent, budget)
				if sent > budget {
					oracle("C20", "datagrams-exceed-the-configured-default-budget:"+how+":"+w.name, "DefaultSendLimiter %s to %d per hour-long window; a server built by %s answered %d of 20 pings", how, budget, w.name, sent)
				}
			}
			if how != "reassigned" {
				// restore the library's default so that other engines of this process see it unchanged
				saved.SetLimit(250)
				saved.SetBurst(25)
			}
		}
		budget = 1
	}
}
