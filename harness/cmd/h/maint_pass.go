package main

// Engine "maint", case kind `pass` (model-compared: line `mpass`, model coq/model/Maint.v + RunMaint.v, lemmas
// coq/proofs/MaintProofs.v): ONE pass of the real Server.TableMaintainer over a prepared routing table.
//
// The table is prepared through the exported API and the hooks: AddNode (never heard from: questionable), a Ping that
// is answered (good), an answered Ping followed by 20 virtual minutes (questionable with a history), the effect of
// an unanswered questionable-node ping (bad).  Buckets 0..d-1 are full; some of their questionable entries answer the
// maintainer's ping, in bucket d something is wrong (an entry that will not answer, a bad entry, a free slot), further
// buckets hold a few more entries.  The simulated network answers `ping` for a chosen set of contacts and never
// answers find_node, so the bootstrap and refresh traversals ask every seed once and change nothing.
//
// Observed: every datagram the node writes from the moment TableMaintainer starts until its goroutine sits in the
// one-minute pause between passes, grouped into the phases bootstrap (find_node for the own id), ping round of bucket
// i, refresh of bucket i (find_node for an id in bucket i); then the table.  The model computes the same from the table
// snapshot taken before the maintainer started (RunMaint.rm_boot, rm_pass).

import (
	"fmt"
	"net"
	"runtime"
	"sort"
	"strings"
	"sync"
	"time"

	"github.com/anacrolix/log"
	"github.com/anacrolix/torrent/bencode"
	"golang.org/x/time/rate"

	dht "github.com/anacrolix/dht/v2"
	"github.com/anacrolix/dht/v2/krpc"
)

func maintPassCount(tier string) int {
	// (the last four of them are the nobody-to-ask cases, runMaintEmptyCase)
	if tier == "thorough" {
		return 64
	}
	return 16
}

type mpNode struct {
	speer
	class    byte // 'g' good, 'a' aged (answered 20 minutes ago), 'n' never heard from, 'b' bad (failed flag), 'B' aged + failed flag
	answers  bool // answers the maintainer's ping
	fanswers bool // answers find_node (bootstrap, bucket refresh) with an empty node list
	twin     bool // a stale second entry (another id, never heard from) at the address of a good contact
}

// maintainerSleeping: the TableMaintainer goroutine is in the select of TableMaintainer itself (its pause between
// passes), not inside Bootstrap / the ping round / refreshBucket
func maintainerSleeping() bool {
	buf := make([]byte, 1<<20)
	n := runtime.Stack(buf, true)
	for _, g := range strings.Split(string(buf[:n]), "\n\n") {
		ls := strings.Split(g, "\n")
		if len(ls) >= 2 && strings.Contains(ls[0], "[select") && strings.HasPrefix(ls[1], "github.com/anacrolix/dht/v2.(*Server).TableMaintainer(") {
			return true
		}
	}
	return false
}

// gidAnswered: goroutine id of a query sender -> the datagram it wrote last will be answered
var gidAnswered *sync.Map

func curGid() string {
	var buf [64]byte
	n := runtime.Stack(buf[:], false)
	f := strings.Fields(string(buf[:n]))
	if len(f) >= 2 {
		return f[1]
	}
	return ""
}

func hasTwin(nodes []*mpNode, y *mpNode) bool {
	for _, n := range nodes {
		if n.twin && n.addr.String() == y.addr.String() {
			return true
		}
	}
	return false
}

// goroutinesInside counts the goroutines with a frame of the given package / function prefix
func goroutinesInside(prefix string) int {
	buf := make([]byte, 1<<20)
	n := runtime.Stack(buf, true)
	c := 0
	for _, g := range strings.Split(string(buf[:n]), "\n\n") {
		if strings.Contains(g, "\n"+prefix) {
			c++
		}
	}
	return c
}

func mpNormIPHex(ip net.IP) string {
	if v4 := ip.To4(); v4 != nil {
		return hx(v4)
	}
	return hx(ip)
}

func mpAddrTok(a *net.UDPAddr) string { return fmt.Sprintf("%s:%d", mpNormIPHex(a.IP), a.Port) }

func mpSetTok(m map[string]bool) string {
	if len(m) == 0 {
		return "-"
	}
	var l []string
	for k := range m {
		l = append(l, k)
	}
	sort.Strings(l)
	return strings.Join(l, ";")
}

func runMaintPassCase(seed uint64, k, idx int) {
	r := (&rng{s: seed ^ 0x9a55}).sub(k)
	emit("mbegin %d maint strategy=pass => ok", idx)
	out.Flush()
	var root [20]byte
	copy(root[:], r.bytes(20))
	conn := newFakeConn()
	depth := r.intn(4) // buckets 0..depth-1 are full and come out clean; bucket `depth` is where the pass ends
	if k%6 == 5 {
		depth = 0
	}
	var nodes []*mpNode
	used := map[string]bool{}
	mk := func(b int, class byte, answers bool) *mpNode {
		for {
			p := speer{addr: randAddr(r, famOf(r)), id: idInBucket(r, root, b)}
			if used[mpAddrTok(p.addr)] {
				continue
			}
			used[mpAddrTok(p.addr)] = true
			n := &mpNode{speer: p, class: class, answers: answers}
			nodes = append(nodes, n)
			return n
		}
	}
	for b := 0; b < depth; b++ {
		// full, and clean once the pings are through: good entries and questionable ones that answer
		for i := 0; i < 8; i++ {
			switch r.intn(4) {
			case 0:
				mk(b, 'a', true)
			case 1:
				mk(b, 'n', true)
			default:
				mk(b, 'g', r.bool())
			}
		}
	}
	// the bucket the pass ends at.  Two cases out of three carry a stale twin entry (below): their last bucket keeps
	// room for it and holds a good contact for it to sit beside, so that the twin is certainly pinged in this pass
	forceTwin := k%3 != 0
	needy := r.intn(5)
	if forceTwin {
		needy = []int{0, 4}[r.intn(2)]
		mk(depth, 'g', false)
	}
	switch needy {
	case 0: // a free slot (possibly an empty bucket)
		for i, n := 0, r.intn(map[bool]int{true: 6, false: 8}[forceTwin]); i < n; i++ {
			mk(depth, []byte{'g', 'a', 'n'}[r.intn(3)], r.bool())
		}
	case 1: // full, one questionable entry will not answer
		silent := r.intn(8)
		for i := 0; i < 8; i++ {
			if i == silent {
				mk(depth, []byte{'a', 'n'}[r.intn(2)], false)
			} else {
				mk(depth, []byte{'g', 'a', 'n'}[r.intn(3)], true)
			}
		}
	case 2: // full, holds a bad entry
		badAt := r.intn(8)
		for i := 0; i < 8; i++ {
			if i == badAt {
				mk(depth, []byte{'b', 'B'}[r.intn(2)], r.bool())
			} else {
				mk(depth, 'g', true)
			}
		}
	case 3: // full, everything mixed
		for i := 0; i < 8; i++ {
			mk(depth, []byte{'g', 'a', 'n', 'b', 'B'}[r.intn(5)], r.bool())
		}
	default: // a few entries of every kind
		for i, n := 0, 1+r.intn(map[bool]int{true: 5, false: 6}[forceTwin]); i < n; i++ {
			mk(depth, []byte{'g', 'a', 'n', 'b', 'B'}[r.intn(5)], r.bool())
		}
	}
	// deeper buckets: never visited by this pass, but seeds of its traversals
	for i, n := 0, r.intn(7); i < n; i++ {
		mk(depth+1+r.intn(6), []byte{'g', 'a', 'n', 'b', 'B'}[r.intn(5)], r.bool())
	}
	// a host that came back under a new id: its old entry (never heard from under that id) sits in the same bucket, at
	// the same address, as the entry that answered a moment ago. The host is silent during the pass, so the stale entry
	// fails its ping - THAT entry, not the good one beside it.
	if k%3 != 0 {
		perBucket := map[int]int{}
		for _, n := range nodes {
			perBucket[sharedPrefix(root, n.id)]++
		}
		for tries := 0; tries < 2; tries++ {
			// preferably in a bucket this pass visits
			var cands []*mpNode
			for _, n := range nodes {
				if b := sharedPrefix(root, n.id); n.class == 'g' && !n.twin && perBucket[b] < 8 && b <= depth && !hasTwin(nodes, n) {
					cands = append(cands, n)
				}
			}
			y := nodes[r.intn(len(nodes))]
			if len(cands) > 0 {
				y = cands[r.intn(len(cands))]
			}
			b := sharedPrefix(root, y.id)
			if y.class != 'g' || y.twin || perBucket[b] >= 8 || hasTwin(nodes, y) {
				continue
			}
			perBucket[b]++
			// the host is silent during the pass, or it answers pings - under its NEW id: the ping of the stale entry
			// "succeeds" (no failed flag) without the stale entry having answered (it stays questionable)
			y.answers, y.fanswers = k%3 == 1, false // k%3 == 1: the host answers under its new id; k%3 == 2: it is silent
			nodes = append(nodes, &mpNode{speer: speer{addr: y.addr, id: idInBucket(r, root, b)}, class: 'n', twin: true, answers: y.answers})
		}
	}
	// every other case: up to 7 contacts (fewer than K, so that no traversal's result set fills and every seed is asked)
	// also answer find_node, with an empty node list: they have just responded when the pass begins - a bad one is bad
	// no longer - and the not-bad ones among them respond again in every refresh
	if k%2 == 1 {
		for i, n := 0, 1+r.intn(7); i < n; i++ {
			if n := nodes[r.intn(len(nodes))]; !n.twin && !hasTwin(nodes, n) {
				n.fanswers = true
			}
		}
	}
	cfg := &dht.ServerConfig{
		NodeId:           root,
		Conn:             conn,
		NoSecurity:       true,
		StartingNodes:    func() ([]dht.Addr, error) { return nil, nil },
		// A query that WILL be answered never waits its resend delay out (the reply cancels the sender), so it gets a long
		// one: whether "answers" means "answered in time" then does not depend on the machine's load. The sender calls
		// this right after its WriteTo, in the same goroutine: the write callback below leaves the verdict under the
		// goroutine's id.
		QueryResendDelay: func() time.Duration {
			if v, ok := gidAnswered.Load(curGid()); ok && v.(bool) {
				return 8 * time.Second
			}
			return 12 * time.Millisecond
		},
		Logger:      log.NewLogger().FilterLevel(log.Critical),
		SendLimiter: rate.NewLimiter(rate.Inf, 1),
	}
	var gidAnsweredMap sync.Map
	gidAnswered = &gidAnsweredMap
	s, err := dht.NewServer(cfg)
	if err != nil {
		panic(err)
	}
	byAddr := map[string]*mpNode{}
	for _, n := range nodes {
		if !n.twin {
			byAddr[n.addr.String()] = n
		}
	}
	var mu sync.Mutex
	setup := true
	// every sixth case: the application closes the node while a bucket refresh has a query in flight; the maintainer
	// must return, everything it started must end, the API must go on returning (no mpass line for these)
	closeMid, closeSent, closeAt := k%6 == 4, false, (k/6)%3
	type wr struct {
		to     *net.UDPAddr
		q      string
		target [20]byte
	}
	var wlog []wr
	conn.onWrite = func(b []byte, to *net.UDPAddr) {
		m, ok := decodeLikeServer(b)
		if !ok || m.Y != "q" {
			return
		}
		mu.Lock()
		inSetup := setup
		if !inSetup && closeMid && !closeSent {
			// the first query of a bucket refresh / of the maintainer's bootstrap / of a ping round is on the wire: Close now
			hit := false
			switch closeAt {
			case 0:
				hit = m.Q == "find_node" && m.A != nil && m.A.Target != root
			case 1:
				hit = m.Q == "find_node" && m.A != nil && m.A.Target == root
			default:
				hit = m.Q == "ping"
			}
			if hit {
				closeSent = true
				go s.Close()
			}
		}
		if !inSetup {
			w := wr{to: to, q: m.Q}
			if m.A != nil {
				w.target = m.A.Target
			}
			wlog = append(wlog, w)
		}
		mu.Unlock()
		n := byAddr[to.String()]
		will := n != nil && (m.Q == "ping" && (inSetup || n.answers) || m.Q == "find_node" && !inSetup && n.fanswers)
		gidAnswered.Store(curGid(), will)
		if !will {
			return
		}
		reply := bencode.MustMarshal(krpc.Msg{Y: "r", T: m.T, R: &krpc.Return{ID: n.id}})
		go conn.inject(reply, to, 5*time.Second)
	}
	for _, n := range nodes {
		s.AddNode(krpc.NodeInfo{ID: n.id, Addr: krpc.NodeAddr{IP: n.addr.IP, Port: n.addr.Port}})
	}
	ping := func(n *mpNode) {
		if res := s.Ping(n.addr); res.Err != nil {
			emit("# mpass %d setup ping failed: %v", idx, res.Err)
		}
	}
	for _, n := range nodes {
		if n.class == 'a' || n.class == 'B' {
			ping(n)
		}
	}
	s.VerifAge(20 * time.Minute)
	for _, n := range nodes {
		if n.class == 'g' {
			ping(n)
		}
	}
	for _, n := range nodes {
		if n.class == 'b' || n.class == 'B' {
			s.VerifFailQuestionablePing(dht.NewAddr(n.addr), n.id)
		}
	}
	// every fourth case: the application bootstrapped a moment ago (nobody answers find_node during the set-up), so the
	// maintainer must go straight to its pass
	booted := k%4 == 3
	if booted {
		s.Bootstrap()
	}
	// let the reply handlers of the setup pings finish
	for dl := time.Now().Add(3 * time.Second); len(s.VerifPending()) > 0 && time.Now().Before(dl); {
		time.Sleep(time.Millisecond)
	}
	time.Sleep(20 * time.Millisecond)
	clsOf := func(v dht.VerifNode) string {
		switch {
		case v.Bad:
			return "b"
		case v.Good:
			return "g"
		default:
			return "q"
		}
	}
	snap0, _ := s.VerifTableSnapshot()
	slotOf := map[string]int{}
	var ntoks, atoks, otoks, ftoks []string
	for _, v := range snap0 {
		slotOf[mpAddrTok(udp(v.IP, v.Port))] = v.Bucket
		ntoks = append(ntoks, fmt.Sprintf("%d/%s/%s/%d/%d/%d/%d/%s", v.Bucket, hx(v.Id[:]), hx(v.IP), v.Port, v.QueryAgeNs, v.ResponseAgeNs, b2i(v.Failed), clsOf(v)))
	}
	for _, n := range nodes {
		if n.answers && !n.twin {
			atoks = append(atoks, fmt.Sprintf("%s/%s/%d", hx(n.id[:]), hx(n.addr.IP), n.addr.Port))
		}
		if n.answers && n.twin {
			otoks = append(otoks, fmt.Sprintf("%s/%s/%d", hx(n.id[:]), hx(n.addr.IP), n.addr.Port))
		}
		if n.fanswers {
			ftoks = append(ftoks, fmt.Sprintf("%s/%s/%d", hx(n.id[:]), hx(n.addr.IP), n.addr.Port))
		}
	}
	mu.Lock()
	setup = false
	mu.Unlock()
	conn.takeWrites()
	if closeMid {
		mdone := make(chan struct{})
		go func() { s.TableMaintainer(); close(mdone) }()
		// the trigger may never come (no questionable entry to ping, no bootstrap): then the node is closed while the
		// maintainer pauses between passes - it must return just the same
		for dl := time.Now().Add(40 * time.Second); time.Now().Before(dl); {
			mu.Lock()
			sent := closeSent
			mu.Unlock()
			if sent {
				break
			}
			if maintainerSleeping() {
				mu.Lock()
				if !closeSent {
					closeSent = true
					go s.Close()
				}
				mu.Unlock()
				break
			}
			time.Sleep(5 * time.Millisecond)
		}
		select {
		case <-mdone:
		case <-time.After(15 * time.Second):
			oracle("C14", "maintainer-does-not-return-after-close:during-bucket-refresh", "case=%d pass k=%d close-at=%d close-sent=%v", idx, k, closeAt, closeSent)
		}
		api := make(chan struct{})
		go func() { s.Stats(); s.NumNodes(); s.Nodes(); close(api) }()
		select {
		case <-api:
			for dl := time.Now().Add(4 * time.Second); len(s.VerifPending()) > 0 && time.Now().Before(dl); {
				time.Sleep(time.Millisecond)
			}
			if n := len(s.VerifPending()); n > 0 {
				oracle("C14", "transaction-leak", "case=%d pass k=%d: %d transactions pending 4 s after Close during a bucket refresh", idx, k, n)
			}
		case <-time.After(5 * time.Second):
			oracle("C01", "api-does-not-return:maint-close-during-refresh", "case=%d pass k=%d", idx, k)
		}
		left := 0
		for dl := time.Now().Add(4 * time.Second); ; {
			left = goroutinesInside("github.com/anacrolix/dht/v2/traversal.")
			if left == 0 || time.Now().After(dl) {
				break
			}
			time.Sleep(5 * time.Millisecond)
		}
		if left > 0 {
			oracle("C14", "maintainer-left-traversal-running", "case=%d pass k=%d: %d goroutines inside the traversal package 4 s after Close during a bucket refresh", idx, k, left)
		}
		emit("# mpass %d close-during-%s close-sent=%v", idx, []string{"refresh", "bootstrap", "ping-round"}[closeAt], closeSent)
		s.Close()
		conn.Close()
		emit("mend %d => ok", idx)
		return
	}
	go s.TableMaintainer()
	ended := false
	for dl := time.Now().Add(40 * time.Second); time.Now().Before(dl); {
		time.Sleep(5 * time.Millisecond)
		if maintainerSleeping() && len(s.VerifPending()) == 0 {
			ended = true
			break
		}
	}
	if !ended {
		oracle("C14", "maintainer-pass-does-not-end", "case=%d pass k=%d: 40 s after TableMaintainer started its goroutine is not in the pause between passes (pending transactions %d)", idx, k, len(s.VerifPending()))
	}
	time.Sleep(10 * time.Millisecond)
	if ended {
		// the pass is over: the bootstrap and refresh traversals it owned are stopped, nothing of them is left (C14)
		left := 0
		for dl := time.Now().Add(3 * time.Second); ; {
			left = goroutinesInside("github.com/anacrolix/dht/v2/traversal.")
			if left == 0 || time.Now().After(dl) {
				break
			}
			time.Sleep(5 * time.Millisecond)
		}
		if left > 0 {
			oracle("C14", "maintainer-left-traversal-running", "case=%d pass k=%d: %d goroutines inside the traversal package while the maintainer pauses between passes", idx, k, left)
		}
	}
	mu.Lock()
	log2 := append([]wr(nil), wlog...)
	mu.Unlock()
	// phases
	var toks []string
	boot := map[string]bool{}
	curKind, curIdx := "", -1
	cur := map[string]bool{}
	flush := func() {
		if curKind != "" {
			toks = append(toks, fmt.Sprintf("%s:%d:%s", curKind, curIdx, mpSetTok(cur)))
		}
		cur = map[string]bool{}
	}
	for _, w := range log2 {
		kind, bi := "", -1
		switch w.q {
		case "ping":
			kind = "ping"
			if b, ok := slotOf[mpAddrTok(w.to)]; ok {
				bi = b
			}
		case "find_node":
			if w.target == root {
				if curKind != "" {
					oracle("C14", "maintainer-bootstrap-query-after-the-pass-began", "case=%d pass k=%d to=%s", idx, k, w.to)
				}
				boot[mpAddrTok(w.to)] = true
				continue
			}
			kind = "refresh"
			bi, _ = dht.VerifBucketIndex(root, w.target)
		default:
			kind = "other-" + w.q
		}
		if kind != curKind || bi != curIdx {
			flush()
			curKind, curIdx = kind, bi
		}
		cur[mpAddrTok(w.to)] = true
	}
	flush()
	// (where the pass ended is not observable by itself: a refresh without a single seed writes nothing; what is
	// observable - further ping rounds and refreshes, or their absence - is in the list)
	snap1, _ := s.VerifTableSnapshot()
	var after []string
	for _, v := range snap1 {
		after = append(after, fmt.Sprintf("%s/%s/%s/%d", hx(v.Id[:]), mpAddrTok(udp(v.IP, v.Port)), clsOf(v), b2i(v.Failed)))
		// the property, stated directly (C06): an entry that was good when the pass began and is in the table is not bad now
	}
	sort.Strings(after)
	good0 := map[string]bool{}
	for _, v := range snap0 {
		if v.Good {
			good0[hx(v.Id[:])+"/"+mpAddrTok(udp(v.IP, v.Port))] = true
		}
	}
	left := map[string]dht.VerifNode{}
	for _, v := range snap1 {
		left[hx(v.Id[:])+"/"+mpAddrTok(udp(v.IP, v.Port))] = v
	}
	// C05: the maintainer writes liveness state only (no reply lists a node in these cases, nothing can be added)
	shape0, shape1 := map[string]bool{}, map[string]bool{}
	for _, v := range snap0 {
		shape0[fmt.Sprintf("%d/%s/%s", v.Bucket, hx(v.Id[:]), mpAddrTok(udp(v.IP, v.Port)))] = true
	}
	for _, v := range snap1 {
		shape1[fmt.Sprintf("%d/%s/%s", v.Bucket, hx(v.Id[:]), mpAddrTok(udp(v.IP, v.Port)))] = true
	}
	for e := range shape0 {
		if !shape1[e] {
			oracle("C05", "entry-moved-or-removed-by-table-maintenance", "case=%d pass k=%d entry(bucket/id/addr)=%s", idx, k, e)
		}
	}
	for e := range shape1 {
		if !shape0[e] {
			oracle("C05", "entry-added-by-table-maintenance-on-a-network-listing-no-nodes", "case=%d pass k=%d entry(bucket/id/addr)=%s", idx, k, e)
		}
	}
	if ended && (len(snap1) != s.NumNodes() || len(snap1) != s.Stats().Nodes) {
		oracle("C05", "node-count-disagrees-with-table:after-maintenance", "case=%d pass k=%d table=%d NumNodes=%d Stats.Nodes=%d", idx, k, len(snap1), s.NumNodes(), s.Stats().Nodes)
	}
	for key := range good0 {
		v, ok := left[key]
		if !ok {
			oracle("C06", "good-entry-dropped-by-table-maintenance", "case=%d pass k=%d entry=%s", idx, k, key)
		} else if v.Bad || v.Failed {
			oracle("C06", "good-entry-marked-bad-by-table-maintenance", "case=%d pass k=%d entry=%s", idx, k, key)
		}
	}
	// an address is pinged as questionable only if some entry stored at it is questionable
	questAt := map[string]bool{}
	for _, v := range snap0 {
		if v.Questionable {
			questAt[mpAddrTok(udp(v.IP, v.Port))] = true
		}
	}
	for _, w := range log2 {
		if _, inTable := slotOf[mpAddrTok(w.to)]; w.q == "ping" && inTable && !questAt[mpAddrTok(w.to)] {
			// (entries that turned questionable or were un-flagged by the bootstrap's replies are not in these cases:
			// a reply only ever makes an entry good)
			oracle("C06", "entry-that-is-not-questionable-pinged-by-table-maintenance", "case=%d pass k=%d to=%s", idx, k, w.to)
		}
	}
	// C09, stated on the wire: a stale entry whose host only ever answered under ANOTHER id has not answered any of the
	// node's queries; whatever the maintainer did, a find_node for that very id must not list it
	if ended {
		for ti, n := range nodes {
			if !n.twin {
				continue
			}
			probe := udp([]byte{203, 0, 113, byte(20 + ti%200)}, 30000+idx)
			t := fmt.Sprintf("c9%d", ti)
			pm := bencode.MustMarshal(krpc.Msg{Q: "find_node", Y: "q", T: t, A: &krpc.MsgArgs{ID: krpc.ID{7, byte(ti)}, Target: n.id, Want: []krpc.Want{"n4", "n6"}}})
			conn.takeWrites()
			if !conn.inject(pm, probe, 3*time.Second) {
				continue
			}
			var rep *krpc.Msg
			for dl := time.Now().Add(3 * time.Second); rep == nil && time.Now().Before(dl); {
				for _, w := range conn.takeWrites() {
					if mm, ok := decodeLikeServer(w.data); ok && mm.Y == "r" && mm.T == t && w.addr.String() == probe.String() {
						rep = mm
					}
				}
				time.Sleep(time.Millisecond)
			}
			if rep == nil || rep.R == nil {
				continue
			}
			for _, ni := range append(append([]krpc.NodeInfo(nil), rep.R.Nodes...), rep.R.Nodes6...) {
				if ni.ID == n.id && ni.Addr.Port == n.addr.Port && ni.Addr.IP.Equal(n.addr.IP) {
					oracle("C09", "listed-contact-never-answered-under-that-id:after-maintenance", "case=%d pass k=%d entry=%s@%s (host answers pings under another id: %v)", idx, k, hx(n.id[:]), n.addr, n.answers)
				}
			}
		}
	}
	afterTok := "-"
	if len(after) > 0 {
		afterTok = strings.Join(after, ";")
	}
	nt, at, ft, ot := "-", "-", "-", "-"
	if len(otoks) > 0 {
		ot = strings.Join(otoks, ",")
	}
	if len(ftoks) > 0 {
		ft = strings.Join(ftoks, ",")
	}
	if len(ntoks) > 0 {
		nt = strings.Join(ntoks, ",")
	}
	if len(atoks) > 0 {
		at = strings.Join(atoks, ",")
	}
	if ended {
		emit("mpass %d root=%s nosec=1 booted=%d nodes=%s answers=%s oanswers=%s fanswers=%s => boot:%s %s after:%s", idx, hx(root[:]), b2i(booted), nt, at, ot, ft, mpSetTok(boot), strings.Join(toks, " "), afterTok)
	}
	emit("# mpass %d depth=%d nodes=%d datagrams=%d ended=%v", idx, depth, len(nodes), len(log2), ended)
	s.Close()
	conn.Close()
	emit("mend %d => ok", idx)
}

// runMaintEmptyCase: TableMaintainer on a node that cannot find anybody (empty table; the starting-node resolver fails,
// returns nothing, or names an address that never answers), closed a moment later: the maintainer must return and
// leave nothing behind (C14), the API must go on returning (C01).
func runMaintEmptyCase(seed uint64, k, idx int) {
	emit("mbegin %d maint strategy=pass-empty => ok", idx)
	out.Flush()
	kind := []string{"resolver-error", "resolver-empty", "resolver-nil", "silent-starting-node"}[k%4]
	conn := newFakeConn()
	cfg := &dht.ServerConfig{
		Conn:             conn,
		NoSecurity:       true,
		QueryResendDelay: func() time.Duration { return 12 * time.Millisecond },
		Logger:           log.NewLogger().FilterLevel(log.Critical),
		SendLimiter:      rate.NewLimiter(rate.Inf, 1),
	}
	cfg.NodeId[0], cfg.NodeId[19] = 0x51, byte(k)
	switch kind {
	case "resolver-error":
		cfg.StartingNodes = func() ([]dht.Addr, error) { return nil, fmt.Errorf("no such host") }
	case "resolver-empty":
		cfg.StartingNodes = func() ([]dht.Addr, error) { return nil, nil }
	case "silent-starting-node":
		cfg.StartingNodes = func() ([]dht.Addr, error) {
			return []dht.Addr{dht.NewAddr(udp([]byte{10, 3, 3, 3}, 6881))}, nil
		}
	}
	s, err := dht.NewServer(cfg)
	if err != nil {
		panic(err)
	}
	mdone := make(chan struct{})
	go func() { s.TableMaintainer(); close(mdone) }()
	time.Sleep(time.Duration(20+60*(k%3)) * time.Millisecond)
	s.Close()
	select {
	case <-mdone:
	case <-time.After(15 * time.Second):
		oracle("C14", "maintainer-does-not-return-after-close:nobody-to-ask:"+kind, "case=%d k=%d", idx, k)
	}
	api := make(chan struct{})
	go func() { s.Stats(); s.NumNodes(); s.Nodes(); close(api) }()
	select {
	case <-api:
	case <-time.After(5 * time.Second):
		oracle("C01", "api-does-not-return:maint-close-nobody-to-ask", "case=%d k=%d kind=%s", idx, k, kind)
	}
	left := 0
	for dl := time.Now().Add(4 * time.Second); ; {
		left = goroutinesInside("github.com/anacrolix/dht/v2/traversal.")
		if left == 0 || time.Now().After(dl) {
			break
		}
		time.Sleep(5 * time.Millisecond)
	}
	if left > 0 {
		oracle("C14", "maintainer-left-traversal-running", "case=%d k=%d kind=%s: %d goroutines inside the traversal package 4 s after Close", idx, k, kind, left)
	}
	conn.Close()
	emit("# mpass %d nobody-to-ask kind=%s", idx, kind)
	emit("mend %d => ok", idx)
}
