package main

// Engine "traversal", part 2: input classes added for the seeded changes of round 4.
//
// (A) OVERLAPPING COMPLETIONS.  The explorer of traversal.go releases one DoQuery at a time, so the
// post-processing of two replies (addClosest, AddNodes x2, outstanding--) never overlaps in time.
// A case with `conc != nil` releases groups of 2..Alpha in-flight queries back to back, while the
// NodeFilter / DataFilter callbacks of the group's responders (and of nodes the replies list) are
// made slow: a callback that is armed waits until ANOTHER armed callback is running at the same
// time (rendezvous) or a bounded time has passed.  On a tree that runs the callbacks under op.mu
// they can never meet and every armed call just costs the wait; on a tree that runs them outside
// the lock (or splits a read-modify-write of the closest set / the frontier over two critical
// sections) the rendezvous puts both goroutines inside the window by construction.
//
//	tdonem case n (addr from|- n nodes.. n6 nodes6..)xn => <obs>
//
// is compared with the model: the runner explores every interleaving of the locked sections of
// the n completions with each other and with the run loop (RunTraversal.rt_conc_succ, proved to
// stay inside the LTS in proofs/TraversalConc.v), so the line is valid under every schedule.  The
// C02 result-set oracles are evaluated after the quiescence that follows every group.
// The set of model states consistent with an observation grows with the number of sections that
// may interleave (orders of starts and pushes are part of the model state), so model-compared
// runs release PAIRS, at most tConcModelGroups times per run; `wide` runs release up to Alpha
// queries together any number of times and are decided by the oracles alone (their trace is
// printed as comment lines).
//
// (B) BOUNDARY IDS AND ADDRESSES (kind "edgeid").  Node IDs 00..00, ff..ff, 00..01, 80..00, the
// target itself, target^1 and ^target (distance 0, 1, 2^160-1), on responders, in listings and in
// seeds, also for targets 00..00 / ff..ff; addresses 0.0.0.0, :: and port 0; node filters that
// reject some of these IDs while accepting candidates of unknown ID (the shape of the Server's
// BEP 42 filter).  Every line is model-compared; the oracle `queried-addr-never-passed-filter`
// states C04's filter clause on the (address, ID) pairs actually offered.

import (
	"fmt"
	"strconv"
	"strings"
	"sync"
	"time"
)

type tConc struct {
	seed uint64        // decides per step whether, and how many, completions are released together
	mode string        // armed callbacks: none | data | node | listed | all
	wait time.Duration // upper bound of one armed callback
	wide bool          // groups of up to Alpha, unbounded number: oracle-only (trace lines are comments)
}

const tConcModelGroups = 2

type tSlow struct {
	mu     sync.Mutex
	keys   map[string]int // armed callback keys -> remaining slow calls
	inside int
	meet   chan struct{}
	wait   time.Duration
}

var tConcStats struct {
	groups, released, armedCalls, met int
}

// line prints a trace line; the trace of an oracle-only run is not compared with the model
func (r *tRun) line(format string, a ...interface{}) {
	if r.c.conc != nil && r.c.conc.wide {
		format = "# " + format
	}
	emit(format, a...)
}

// point is called from the filter callbacks (any goroutine).
func (s *tSlow) point(key string) {
	s.mu.Lock()
	if s.keys[key] <= 0 {
		s.mu.Unlock()
		return
	}
	s.keys[key]--
	tConcStats.armedCalls++
	s.inside++
	var ch chan struct{}
	if s.inside >= 2 {
		// another armed callback is running right now: let it go on, do not wait
		tConcStats.met++
		if s.meet != nil {
			close(s.meet)
			s.meet = nil
		}
	} else {
		s.meet = make(chan struct{})
		ch = s.meet
	}
	wait := s.wait
	s.mu.Unlock()
	if ch != nil {
		t := time.NewTimer(wait)
		select {
		case <-ch:
		case <-t.C:
		}
		t.Stop()
	}
	s.mu.Lock()
	s.inside--
	if s.inside == 0 {
		s.meet = nil
	}
	s.mu.Unlock()
}

func (s *tSlow) arm(keys map[string]int, wait time.Duration) {
	s.mu.Lock()
	s.keys = keys
	s.wait = wait
	s.mu.Unlock()
}

func (s *tSlow) disarm() {
	s.mu.Lock()
	s.keys = nil
	s.mu.Unlock()
}

// pickGroup decides (deterministically from the case, the step and the explorer's choice) which
// in-flight queries complete together; fewer than two = an ordinary single completion.
func (r *tRun) pickGroup(infl []*tEntry, idx, step int) []*tEntry {
	cc := r.c.conc
	if cc == nil || len(infl) < 2 {
		return nil
	}
	rr := (&rng{s: cc.seed}).sub(step)
	if rr.intn(5) == 0 {
		return nil
	}
	n := 2
	if cc.wide {
		n = 2 + rr.intn(len(infl)-1)
	} else if r.groups >= tConcModelGroups {
		return nil
	}
	var grp []*tEntry
	for i := 0; i < n; i++ {
		grp = append(grp, infl[(idx+i)%len(infl)])
	}
	return grp
}

func (r *tRun) completeGroup(grp []*tEntry) {
	c := r.c
	cc := c.conc
	keys := map[string]int{}
	budget := 2 * len(grp) // armed calls per group (each costs up to cc.wait on a correct tree)
	armKey := func(k string) {
		if budget > 0 {
			keys[k]++
			budget--
		}
	}
	var parts, names []string
	resps := make([]tResp, len(grp))
	listed := map[string]int{}
	var listedOrder []string
	for i, e := range grp {
		resp := c.net[e.addrKey]
		resps[i] = resp
		from := "-"
		if resp.from != nil {
			from = resp.from.tok() + ":" + resp.data
			r.responders = append(r.responders, struct {
				ni   tNI
				data string
			}{*resp.from, resp.data})
			if cc.mode == "data" || cc.mode == "all" {
				armKey("d:" + resp.data)
			}
			if cc.mode == "node" || cc.mode == "all" {
				armKey("n:" + resp.from.tok())
			}
		}
		for _, l := range [][]tNI{resp.nodes, resp.nodes6} {
			for _, n := range l {
				if listed[n.tok()] == 0 {
					listedOrder = append(listedOrder, n.tok())
				}
				listed[n.tok()]++
			}
		}
		r.learned = append(r.learned, resp.nodes...)
		r.learned = append(r.learned, resp.nodes6...)
		parts = append(parts, fmt.Sprintf("%s %s %d %s %d %s", e.addrKey, from, len(resp.nodes), tniToks(resp.nodes),
			len(resp.nodes6), tniToks(resp.nodes6)))
		names = append(names, e.addrKey)
	}
	if cc.mode == "listed" {
		// nodes listed by several replies of the group first (both AddNodes calls filter them)
		for pass := 0; pass < 2; pass++ {
			for _, k := range listedOrder {
				if (pass == 0) == (listed[k] >= 2) {
					for j := 0; j < listed[k] && j < 2; j++ {
						armKey("n:" + k)
					}
				}
			}
		}
	}
	r.sched = append(r.sched, "donem:"+strings.Join(names, "+"))
	r.slow.arm(keys, cc.wait)
	r.mu.Lock()
	for _, e := range grp {
		e.released = true
		r.released++
	}
	r.mu.Unlock()
	for i, e := range grp {
		e.release <- resps[i]
	}
	obs := r.observe()
	r.slow.disarm()
	r.groups++
	tConcStats.groups++
	tConcStats.released += len(grp)
	r.line("tdonem %s %d %s => %s", r.caseID, len(grp), strings.Join(parts, " "), obs)
	// C02 at the quiescent point after the group: every reply of the group has been processed
	r.checkClosest(r.op.VerifSnapshot(), false)
	r.flushOracles()
}

// C04, filter clause, on what was actually offered: an address may be queried only if some
// (address, ID) pair offered so far (seed, AddNodes, node listed by a completed reply) passed the
// lookup's node filter.  r.learned is appended by the explorer before the action that delivers it.
func (r *tRun) checkStartedPassedFilter(started []string) {
	if len(started) == 0 {
		return
	}
	ok := map[string]bool{}
	for _, n := range r.learned {
		if r.c.nodeFilterOK(n.addrKey(), n.id) {
			ok[n.addrKey()] = true
		}
	}
	for _, a := range started {
		if !ok[a] {
			var offers []string
			for _, n := range r.learned {
				if n.addrKey() == a {
					offers = append(offers, n.tok())
				}
			}
			r.oracle("C04", "queried-addr-never-passed-filter", "%s offered-as=%s", a, strings.Join(offers, ","))
		}
	}
}

// ---------------------------------------------------------------- generator: boundary IDs / addresses

func (g *tGen) edgeIDs() [][]byte {
	zero := make([]byte, 20)
	ff := make([]byte, 20)
	comp := make([]byte, 20)
	for i := range ff {
		ff[i] = 0xff
		comp[i] = ^g.target[i]
	}
	one := make([]byte, 20)
	one[19] = 1
	top := make([]byte, 20)
	top[0] = 0x80
	tgt := append([]byte(nil), g.target...)
	tgt1 := append([]byte(nil), g.target...)
	tgt1[19] ^= 1
	return [][]byte{zero, ff, one, top, tgt, tgt1, comp}
}

func (g *tGen) edge(n int, kMax int) *tCase {
	switch g.r.intn(6) {
	case 0:
		g.target = make([]byte, 20)
	case 1:
		g.target = make([]byte, 20)
		for i := range g.target {
			g.target[i] = 0xff
		}
	}
	c := g.baseCase("edgeid", n, kMax)
	if g.r.intn(2) == 0 {
		c.K = 0 // default 8: the result set rarely fills, so every accepted candidate gets queried
	}
	sp := g.edgeIDs()
	pick := func() []byte {
		if g.r.intn(3) == 0 {
			return sp[0] // the zero value most often
		}
		return sp[g.r.intn(len(sp))]
	}
	ns := g.nodes(n)
	for i := range ns {
		if g.r.intn(3) == 0 {
			ns[i].id = pick()
		}
	}
	// addresses that are only ever listed under boundary IDs; boundary addresses among them
	var ph []tNI
	m := 1 + g.r.intn(3)
	for i := 0; i < m; i++ {
		p := tNI{ip: g.v4(300 + i), port: 6881 + i, id: pick()}
		switch g.r.intn(10) {
		case 0:
			p.ip = g.v6(300 + i)
		case 1:
			p.ip = []byte{0, 0, 0, 0}
		case 2:
			p.ip = make([]byte, 16)
		case 3:
			p.port = 0
		}
		ph = append(ph, p)
	}
	all := append(append([]tNI(nil), ns...), ph...)
	list := func() (l4, l6 []tNI) {
		k := g.r.intn(len(all) + 2)
		for j := 0; j < k; j++ {
			x := all[g.r.intn(len(all))]
			if g.r.intn(3) == 0 {
				x = ph[g.r.intn(len(ph))]
			}
			if g.r.intn(6) == 0 {
				x.id = pick() // the same address under another boundary ID
			}
			if len(x.ip) == 4 && g.r.intn(6) != 0 {
				l4 = append(l4, x)
			} else {
				l6 = append(l6, x)
			}
		}
		return
	}
	for i, nd := range all {
		nd := nd
		var resp tResp
		if g.r.intn(5) != 0 {
			f := nd
			if g.r.intn(5) == 0 {
				f.id = pick() // answers under a boundary ID
			}
			resp.from = &f
			resp.data = strconv.Itoa(i + 1)
		}
		resp.nodes, resp.nodes6 = list()
		if i == 0 {
			resp.nodes = append(resp.nodes, ph...) // the phantoms are reachable from the first node
		}
		c.net[nd.addrKey()] = resp
	}
	// the filter rejects some boundary IDs (ID-less candidates pass, as with the BEP 42 filter)
	for _, id := range sp {
		if g.r.intn(3) == 0 {
			c.badID[hx(id)] = true
		}
	}
	if g.r.intn(5) != 0 {
		c.badID[hx(ph[0].id)] = true
	}
	if g.r.intn(4) == 0 {
		c.badAddr[ph[g.r.intn(len(ph))].addrKey()] = true
	}
	if g.r.intn(3) == 0 {
		c.badData[strconv.Itoa(1+g.r.intn(len(all)))] = true
	}
	c.seeds = g.pickSeeds(ns)
	c.seeds = append(c.seeds, ns[0])
	if g.r.intn(3) == 0 {
		c.seeds = append(c.seeds, ph[g.r.intn(len(ph))]) // a seed under a boundary ID
	}
	if g.r.intn(4) == 0 {
		c.extras = append(c.extras, tExtra{pos: 1 + g.r.intn(3), kind: "add", ns: ph})
	}
	return c
}

var tConcModes = []string{"all", "data", "node", "listed", "none"}

// makeConc turns a generated case into an overlapping-completions case.
func makeConc(c *tCase, sub *rng, i int) *tCase {
	if c.Alpha == 1 {
		c.Alpha = 2 + sub.intn(3)
	}
	cc := &tConc{seed: sub.next(), mode: tConcModes[i%len(tConcModes)], wait: time.Millisecond}
	switch sub.intn(4) {
	case 0:
		cc.wait = 300 * time.Microsecond
	case 1:
		cc.wait = 2 * time.Millisecond
	}
	cc.wide = sub.intn(3) == 0
	c.conc = cc
	return c
}
