package main

// Engine "bep44": the BEP 44 item store (C12 store side, C13).
//
//  (a) pure functions on generated items with real ed25519 keys: bufferToSign, Check, Item.Target /
//      Put.Target / MakeMutableTarget, CheckIncoming
//  (b) sequential histories on bep44.NewWrapper(store, exp): puts over a seq/cas grid, gets, ageing
//  (c) concurrent Wrapper.Put / Wrapper.Get calls against a store that yields to a scheduler at
//      every Get/Put/Del; all interleavings (2 threads; 3 threads sampled in quick, all in thorough)
//  (d) the same store behind a real dht.Server: inbound put/get datagrams and Server.Put
//  (e) store faults, in (b) and (d): chosen Get/Put/Del calls of the underlying Store return an error
//      that is not ErrItemNotFound (lines b44fput b44fget b44fwput b44fwget b44flput; model Bep44Fault.v)
//  (g) items produced and reused the way an application does through the exported API (bep44_api.go):
//      NewItem, Modify, ToPut / ToItem, struct copies, fields assigned after construction and after
//      Check / Target were called, the same *Item put again after a change; in (a)-(d) and (f)
//  (f) stores that copy / rebuild items (bep44_stores.go): custom implementations of the exported
//      bep44.Store interface that do not hand back the *Item pointer they were given; sequential
//      histories, wire level and Server.Put, ageing through VerifAge where the representation keeps the
//      time stamp and through real time (short expiry) where it does not (model Bep44Rebuild.v)
//
// Every line is `op args => observed`; the model runner recomputes the part after `=>`.
// `edtable` lines carry the ed25519 verdicts (computed here with crypto/ed25519 on the buffer built
// by b44refBuf, this file's own reference encoder) that the model takes as its ed_verify parameter.
// `oracle C12|C13 <key> <details>` lines are direct property violations found from the
// implementation's behaviour alone.

import (
	"bytes"
	"context"
	"crypto/ed25519"
	"crypto/sha1"
	"errors"
	"fmt"
	"math"
	"net"
	"os"
	"os/exec"
	"runtime"
	"sort"
	"strconv"
	"strings"
	"sync"
	"time"

	"github.com/anacrolix/torrent/bencode"
	"golang.org/x/time/rate"

	dht "github.com/anacrolix/dht/v2"
	"github.com/anacrolix/dht/v2/bep44"
	"github.com/anacrolix/dht/v2/krpc"
)

func init() { engines["bep44"] = b44Engine }

const b44Exp = 120 * time.Minute

// small values first so that the first reported example of a finding is the most readable one
var b44Grid = []int64{1, 2, 3, 0, -1, math.MinInt64, math.MaxInt64}

type b44env struct {
	r      *rng
	seed   uint64
	tier   string
	priv   []ed25519.PrivateKey
	pub    [][32]byte
	oracle map[string]int // emitted oracle lines per key (details of the first few only)
}

func b44Engine(seed uint64, tier string, args []string) {
	e := &b44env{r: &rng{s: seed ^ 0xb44b44}, seed: seed, tier: tier, oracle: map[string]int{}}
	for i := 0; i < 3; i++ {
		p := ed25519.NewKeyFromSeed(e.r.bytes(32))
		e.priv = append(e.priv, p)
		var k [32]byte
		copy(k[:], p.Public().(ed25519.PublicKey))
		e.pub = append(e.pub, k)
	}
	if len(args) > 0 && args[0] == "server-child" {
		e.server()
		return
	}
	e.pure()
	e.sequential()
	e.sequentialFaults()
	e.rebuilding()
	e.concurrent()
	e.apiRoutes()
	e.serverContained()
}

// Part (d) drives a real Server whose serve loop runs in its own goroutine: a panic there cannot be
// recovered here, so that part runs in a child process.  Its lines are copied through; if it dies,
// that is reported (with what it was doing) instead of killing the run.
func (e *b44env) serverContained() {
	cmd := exec.Command(os.Args[0], "-seed", strconv.FormatUint(e.seed, 10), "-tier", e.tier, "bep44", "server-child")
	var stdout, stderr bytes.Buffer
	cmd.Stdout, cmd.Stderr = &stdout, &stderr
	done := make(chan error, 1)
	if err := cmd.Start(); err != nil {
		emit("oracle C12 server-part-not-run seed=%d %v", e.seed, err)
		return
	}
	go func() { done <- cmd.Wait() }()
	var err error
	select {
	case err = <-done:
	case <-time.After(10 * time.Minute):
		cmd.Process.Kill()
		err = fmt.Errorf("timeout")
	}
	lines := strings.Split(strings.TrimRight(stdout.String(), "\n"), "\n")
	last := ""
	for _, l := range lines {
		if l == "" {
			continue
		}
		emit("%s", l)
		if !strings.HasPrefix(l, "oracle ") && !strings.HasPrefix(l, "edtable ") {
			last = l
		}
	}
	if err != nil {
		if !strings.HasPrefix(last, "b44end") {
			emit("b44end => ok") // keep the case structure well-formed for the runner
		}
		cause := "?"
		for _, l := range strings.Split(stderr.String(), "\n") {
			if strings.HasPrefix(l, "panic:") || strings.HasPrefix(l, "fatal error:") {
				cause = l
				break
			}
		}
		if len(last) > 300 {
			last = last[:300]
		}
		emit("oracle C12 server-crashed-on-put-get seed=%d exit=%v cause=%q last-line=%q", e.seed, err, cause, last)
	}
}

func (e *b44env) thorough() bool { return e.tier == "thorough" }

// at most a few lines per key: the key is what counts, the details are a replay
func (e *b44env) fire(prop, key, format string, a ...interface{}) {
	e.oracle[prop+" "+key]++
	if e.oracle[prop+" "+key] > 3 {
		return
	}
	emit("oracle %s %s seed=%d %s", prop, key, e.seed, fmt.Sprintf(format, a...))
}

// ---------------------------------------------------------------- items

type b44it struct {
	v    interface{}
	bv   []byte
	k    [32]byte
	salt []byte
	sig  [64]byte
	cas  int64
	seq  int64
	note string
	via  *b44via // how item() produces the *bep44.Item (nil: a struct literal); see bep44_api.go
}

func (x *b44it) mutable() bool { return x.k != [32]byte{} }

// a fresh *bep44.Item every time: the store keeps the pointer it is given
func (x *b44it) item() *bep44.Item {
	if x.via != nil {
		return x.via.make(x)
	}
	salt := append([]byte(nil), x.salt...)
	if x.salt != nil && salt == nil {
		salt = []byte{} // present but empty (what a decoder yields for `4:salt0:`) is not the same Go value as absent
	}
	return &bep44.Item{V: x.v, K: x.k, Salt: salt, Sig: x.sig, Cas: x.cas, Seq: x.seq}
}

func (x *b44it) args() string {
	return fmt.Sprintf("%s %s %s %s %d %d", hx(x.bv), hx(x.k[:]), hx(x.salt), hx(x.sig[:]), x.cas, x.seq)
}

func (x *b44it) brief() string {
	if x.via != nil {
		return fmt.Sprintf("(seq=%d,cas=%d,v=%s,salt=%dB,%s,%s)", x.seq, x.cas, b44short(x.bv), len(x.salt), x.note, x.via)
	}
	return fmt.Sprintf("(seq=%d,cas=%d,v=%s,salt=%dB,%s)", x.seq, x.cas, b44short(x.bv), len(x.salt), x.note)
}

func b44short(b []byte) string {
	if len(b) > 12 {
		return fmt.Sprintf("%s..(%dB)", hx(b[:6]), len(b))
	}
	return hx(b)
}

// reference encoder of the signed buffer (BEP 44): [4:salt<len>:<salt>]3:seqi<seq>e1:v<bv>
func b44refBuf(salt []byte, seq int64, bv []byte) []byte {
	var b []byte
	if len(salt) > 0 {
		b = append(b, "4:salt"...)
		b = append(b, strconv.Itoa(len(salt))...)
		b = append(b, ':')
		b = append(b, salt...)
	}
	b = append(b, "3:seqi"...)
	b = append(b, strconv.FormatInt(seq, 10)...)
	b = append(b, "e1:v"...)
	b = append(b, bv...)
	return b
}

func (x *b44it) refVerify() bool {
	return ed25519.Verify(x.k[:], b44refBuf(x.salt, x.seq, x.bv), x.sig[:])
}

func (x *b44it) edEntry() string {
	return fmt.Sprintf("%s:%s:%s:%d", hx(x.k[:]), hx(b44refBuf(x.salt, x.seq, x.bv)), hx(x.sig[:]), b2i(x.refVerify()))
}

// what BEP 44 requires of Check, decided here without the code under test
func (x *b44it) refCheck() int {
	if len(x.bv) > 1000 {
		return 205
	}
	if !x.mutable() {
		return 0
	}
	if len(x.salt) > 64 {
		return 207
	}
	if !x.refVerify() {
		return 206
	}
	return 0
}

func (x *b44it) refTarget() [20]byte {
	if x.mutable() {
		return sha1.Sum(append(append([]byte(nil), x.k[:]...), x.salt...))
	}
	return sha1.Sum(x.bv)
}

func (e *b44env) mk(v interface{}, key int, salt []byte, seq, cas int64) *b44it {
	x := &b44it{v: v, bv: bencode.MustMarshal(v), salt: salt, seq: seq, cas: cas, note: "valid"}
	if key >= 0 {
		x.k = e.pub[key]
		copy(x.sig[:], ed25519.Sign(e.priv[key], b44refBuf(salt, seq, x.bv)))
	} else {
		x.note = "immutable"
	}
	return x
}

func b44edtable(items []*b44it) { b44edtableTo(emit, items) }

func b44edtableTo(emit func(string, ...interface{}), items []*b44it) {
	seen := map[string]bool{}
	var ents []string
	for _, x := range items {
		if !x.mutable() {
			continue
		}
		s := x.edEntry()
		if !seen[s] {
			seen[s] = true
			ents = append(ents, s)
		}
	}
	// bounded line length
	for len(ents) > 0 {
		n := len(ents)
		if n > 16 {
			n = 16
		}
		emit("edtable %d %s => ok", n, strings.Join(ents[:n], " "))
		ents = ents[n:]
	}
}

func b44errStr(err error) string {
	if err == nil {
		return "ok"
	}
	if ke, ok := err.(krpc.Error); ok {
		return strconv.Itoa(ke.Code)
	}
	return "other"
}

// values of every bencode shape whose encoding is exactly n bytes (n >= 20)
func b44sized(n int, shape int) interface{} {
	mkv := func(pad int) interface{} {
		s := strings.Repeat("x", pad)
		switch shape {
		case 0:
			return s
		case 1:
			return []interface{}{int64(7), s}
		case 2:
			return map[string]interface{}{"a": int64(-3), "pad": s}
		default:
			return map[string]interface{}{"l": []interface{}{[]interface{}{s, int64(0)}, map[string]interface{}{"z": ""}}}
		}
	}
	for pad := n; pad >= 0; pad-- {
		v := mkv(pad)
		if len(bencode.MustMarshal(v)) == n {
			return v
		}
	}
	panic("b44sized")
}

func (e *b44env) shapes() []interface{} {
	return []interface{}{
		int64(0), int64(-1), int64(math.MinInt64), int64(math.MaxInt64), int64(42),
		"", "a", "Hello World!", string(e.r.bytes(20)), strings.Repeat("\x00", 5),
		[]interface{}{}, []interface{}{int64(1), "a"}, []interface{}{[]interface{}{[]interface{}{}}},
		map[string]interface{}{}, map[string]interface{}{"a": int64(1), "b": "c"},
		map[string]interface{}{"k": []interface{}{int64(1), map[string]interface{}{"x": "y"}}, "z": ""},
	}
}

// signature variants of one (value, salt, seq): valid, valid for other salt/seq/value/key, bit-flipped, immutable
func (e *b44env) variants(v interface{}, salt []byte, seq int64) []*b44it {
	base := e.mk(v, 0, salt, seq, 0)
	var out []*b44it
	out = append(out, base)
	alt := func(note string, sig []byte) {
		y := *base
		y.note = note
		copy(y.sig[:], sig)
		out = append(out, &y)
	}
	osalt := append(append([]byte(nil), salt...), 'x')
	alt("sig-other-salt", ed25519.Sign(e.priv[0], b44refBuf(osalt, seq, base.bv)))
	alt("sig-other-seq", ed25519.Sign(e.priv[0], b44refBuf(salt, seq+1, base.bv)))
	alt("sig-other-value", ed25519.Sign(e.priv[0], b44refBuf(salt, seq, append(append([]byte(nil), base.bv...), '0'))))
	alt("sig-other-key", ed25519.Sign(e.priv[1], b44refBuf(salt, seq, base.bv)))
	fl := append([]byte(nil), base.sig[:]...)
	fl[e.r.intn(64)] ^= 1 << uint(e.r.intn(8))
	alt("sig-bit-flipped", fl)
	alt("sig-zero", make([]byte, 64))
	if len(salt) == 0 {
		// signed over a buffer that spells the empty salt out (`4:salt0:`): not the BEP 44 buffer, must not verify
		alt("sig-over-spelled-out-empty-salt", ed25519.Sign(e.priv[0], append([]byte("4:salt0:"), b44refBuf(nil, seq, base.bv)...)))
	}
	imm := e.mk(v, -1, salt, seq, 0)
	copy(imm.sig[:], e.r.bytes(64))
	out = append(out, imm)
	return out
}

// ---------------------------------------------------------------- (a) pure functions

func (e *b44env) pure() {
	salts := [][]byte{nil, {}, []byte("s"), e.r.bytes(63), e.r.bytes(64), e.r.bytes(65), e.r.bytes(200)}
	seqs := []int64{0, 1, -1, math.MinInt64, math.MaxInt64, 1234567890123}
	// bufferToSign against the model (and, through the edtable, against the reference encoder)
	for _, salt := range salts {
		for _, seq := range append(append([]int64(nil), b44Grid...), 10, -10, 99, 100, 1000000007) {
			bv := bencode.MustMarshal(e.shapes()[e.r.intn(16)])
			emit("b44buf %s %d %s => %s", hx(salt), seq, hx(bv), hx(bep44.VerifBufferToSign(salt, bv, seq)))
		}
	}
	var vals []interface{}
	vals = append(vals, e.shapes()...)
	for n := 998; n <= 1003; n++ {
		for shape := 0; shape < 4; shape++ {
			vals = append(vals, b44sized(n, shape))
		}
	}
	ci := 0
	for vi, v := range vals {
		for si, salt := range salts {
			seq := seqs[(vi+si)%len(seqs)]
			for _, x := range e.variants(v, salt, seq) {
				ci++
				b44edtable([]*b44it{x})
				got := b44errStr(bep44.Check(x.item()))
				emit("b44check %s %s %s %s %d => %s", hx(x.bv), hx(x.k[:]), hx(x.salt), hx(x.sig[:]), x.seq, got)
				want := "ok"
				if c := x.refCheck(); c != 0 {
					want = strconv.Itoa(c)
				}
				if got != want {
					e.fire("C12", fmt.Sprintf("wrong-error-code:check-expected-%s-got-%s", want, got), "Check item=%s", x.brief())
				}
				it := x.item()
				t1 := it.Target()
				p := it.ToPut()
				t2 := p.Target()
				t3 := "-"
				if x.mutable() {
					t := bep44.MakeMutableTarget(x.k, x.salt)
					t3 = hx(t[:])
				}
				emit("b44target %s %s %s => %s %s %s", hx(x.bv), hx(x.k[:]), hx(x.salt), hx(t1[:]), hx(t2[:]), t3)
				if rt := x.refTarget(); t1 != rt || t2 != rt {
					e.fire("C12", "wrong-target:pure", "Target item=%s", x.brief())
				}
			}
		}
	}
	// CheckIncoming over the whole seq/cas grid
	same := bencode.MustMarshal("v")
	diff := bencode.MustMarshal("w")
	for _, sseq := range b44Grid {
		for _, scas := range b44Grid {
			for _, iseq := range b44Grid {
				for _, icas := range b44Grid {
					for _, ibv := range [][]byte{same, diff} {
						st := &bep44.Item{V: "v", Seq: sseq, Cas: scas}
						in := &bep44.Item{V: "v", Seq: iseq, Cas: icas}
						if !bytes.Equal(ibv, same) {
							in.V = "w"
						}
						got := b44errStr(bep44.CheckIncoming(st, in))
						emit("b44checkin %d %d %s %d %d %s => %s", sseq, scas, hx(same), iseq, icas, hx(ibv), got)
						e.decisionOracle("CheckIncoming", sseq, scas, same, iseq, icas, ibv, got)
					}
				}
			}
		}
	}
}

// C13 decision table, restated: 302 if lower (or same seq, other value); else 301 if cas given and
// different from the stored seq; else accepted.
func (e *b44env) decisionOracle(where string, sseq, scas int64, sbv []byte, iseq, icas int64, ibv []byte, got string) {
	lower := iseq < sseq || (iseq == sseq && !bytes.Equal(sbv, ibv))
	casbad := icas != 0 && icas != sseq
	det := fmt.Sprintf("%s stored=(seq=%d,cas=%d) incoming=(seq=%d,cas=%d,%s) got=%s", where, sseq, scas, iseq, icas,
		map[bool]string{true: "same-value", false: "other-value"}[bytes.Equal(sbv, ibv)], got)
	switch {
	case lower && got == "ok":
		e.fire("C13", "lower-seq-accepted:"+map[bool]string{true: "lower", false: "equal-seq-other-value"}[iseq < sseq], "%s", det)
	case lower && got != "302":
		e.fire("C13", "wrong-error-code:expected-302-got-"+got, "%s", det)
	case !lower && casbad && got == "ok":
		disc := "other"
		switch {
		case iseq == sseq:
			disc = "refresh"
		case scas == 0:
			disc = "stored-cas-0"
		case scas == icas:
			disc = "stored-cas-eq-incoming-cas"
		}
		e.fire("C13", "cas-mismatch-accepted:"+disc, "%s", det)
	case !lower && casbad && got != "301":
		e.fire("C13", "wrong-error-code:expected-301-got-"+got, "%s", det)
	case !lower && !casbad && got == "301":
		e.fire("C13", "cas-match-rejected:"+map[bool]string{true: "no-cas-given", false: "cas-equals-stored-seq"}[icas == 0], "%s", det)
	case !lower && !casbad && got != "ok":
		e.fire("C13", "valid-update-rejected:got-"+got, "%s", det)
	}
}

// ---------------------------------------------------------------- store with yield points

type b44thr struct {
	id     int
	spec   string
	put    *b44it
	get    *[20]byte
	st     string // N, R (running, internal), B, yG, yP, yD, F:<result>, S
	gid    int64
	arrive chan string
	resume chan struct{}
	gidCh  chan int64
}

// yields to the scheduler at every Get/Put/Del made by a registered thread; other callers pass through
type b44ystore struct {
	mem   bep44.Store // the store underneath: bep44.Memory, or one of the copying / rebuilding stores
	mu    sync.Mutex
	byGid map[int64]*b44thr
	flt   b44fault                 // armed faults (see arm)
	hits  []string                 // the calls that were failed since arm
	acc   map[bep44.Target]*b44acc // the latest successful Put per target (see trueAgeOracle)
}

// which calls of the underlying store fail while armed: the call returns errB44Fault (not
// ErrItemNotFound, not a krpc.Error) before it touches the memory store
type b44fault struct{ get, put, del bool }

func (f b44fault) any() bool { return f.get || f.put || f.del }
func (f b44fault) String() string {
	s := ""
	for _, x := range []struct {
		on bool
		n  string
	}{{f.get, "get"}, {f.put, "put"}, {f.del, "del"}} {
		if x.on {
			if s != "" {
				s += "+"
			}
			s += x.n
		}
	}
	if s == "" {
		return "none"
	}
	return s
}

var errB44Fault = errors.New("verif: injected fault of the underlying store")

func (s *b44ystore) arm(f b44fault) {
	s.mu.Lock()
	s.flt, s.hits = f, nil
	s.mu.Unlock()
}

// ends the fault window; returns the calls that were failed ("" when none was made)
func (s *b44ystore) disarm() string {
	s.mu.Lock()
	defer s.mu.Unlock()
	h := strings.Join(s.hits, "+")
	s.flt, s.hits = b44fault{}, nil
	return h
}

func (s *b44ystore) failing(kind string) bool {
	s.mu.Lock()
	defer s.mu.Unlock()
	on := (kind == "get" && s.flt.get) || (kind == "put" && s.flt.put) || (kind == "del" && s.flt.del)
	if on {
		s.hits = append(s.hits, kind)
	}
	return on
}

func b44curGid() int64 {
	var buf [64]byte
	n := runtime.Stack(buf[:], false)
	f := strings.Fields(string(buf[:n]))
	if len(f) < 2 {
		return -1
	}
	g, _ := strconv.ParseInt(f[1], 10, 64)
	return g
}

func (s *b44ystore) yield(kind string) {
	s.mu.Lock()
	th := s.byGid[b44curGid()]
	s.mu.Unlock()
	if th == nil {
		return
	}
	th.arrive <- kind
	<-th.resume
}
func (s *b44ystore) Get(t bep44.Target) (*bep44.Item, error) {
	s.yield("yG")
	if s.failing("get") {
		return nil, errB44Fault
	}
	return s.mem.Get(t)
}
func (s *b44ystore) Put(i *bep44.Item) error {
	s.yield("yP")
	if s.failing("put") {
		return errB44Fault
	}
	err := s.mem.Put(i)
	if err == nil {
		s.mu.Lock()
		s.acc[i.Target()] = &b44acc{at: time.Now()}
		s.mu.Unlock()
	}
	return err
}
func (s *b44ystore) Del(t bep44.Target) error {
	s.yield("yD")
	if s.failing("del") {
		return errB44Fault
	}
	return s.mem.Del(t)
}

// goroutine id -> wait state, from the runtime's own dump
func b44goStates() map[int64]string {
	buf := make([]byte, 1<<18)
	n := runtime.Stack(buf, true)
	m := map[int64]string{}
	for _, l := range strings.Split(string(buf[:n]), "\n") {
		if !strings.HasPrefix(l, "goroutine ") {
			continue
		}
		rest := l[len("goroutine "):]
		sp := strings.IndexByte(rest, ' ')
		if sp < 0 {
			continue
		}
		g, err := strconv.ParseInt(rest[:sp], 10, 64)
		if err != nil {
			continue
		}
		a, b := strings.IndexByte(rest, '['), strings.IndexByte(rest, ']')
		if a >= 0 && b > a {
			m[g] = rest[a+1 : b]
		}
	}
	return m
}

func b44lockWait(state string) bool {
	return strings.HasPrefix(state, "sync.Mutex.Lock") || strings.HasPrefix(state, "semacquire") ||
		strings.HasPrefix(state, "sync.RWMutex")
}

// ---------------------------------------------------------------- a case: sequential part

type b44case struct {
	e      *b44env
	name   string
	mem    *bep44.Memory
	xs     b44xstore // nil: bep44.Memory (mem) is the underlying store
	exp    time.Duration
	ys     *b44ystore
	w      *bep44.Wrapper
	nop    int
	thr    []*b44thr
	sched  []int
	hasGet bool
	// lines of a case that runs in lockstep with others are held back until it is complete
	held    bool
	lines   []string
	aborted bool
}

func (e *b44env) begin(name string, items []*b44it) *b44case {
	return e.beginK(name, items, nil, b44Exp, false)
}

// a case over the underlying store xs (nil: bep44.Memory) and the expiry exp
func (e *b44env) beginK(name string, items []*b44it, xs b44xstore, exp time.Duration, held bool) *b44case {
	c := &b44case{e: e, name: name, mem: bep44.NewMemory(), xs: xs, exp: exp, held: held}
	var under bep44.Store = c.mem
	if xs != nil {
		under = xs
	}
	c.ys = &b44ystore{mem: under, byGid: map[int64]*b44thr{}, acc: map[bep44.Target]*b44acc{}}
	c.w = bep44.NewWrapper(c.ys, exp)
	if xs == nil {
		c.emit("b44begin %s %d => ok", name, int64(exp))
	} else {
		fp, fg := xs.forgets()
		c.emit("b44kbegin %s %d %s %d %d => ok", name, int64(exp), xs.kind(), b2i(fp), b2i(fg))
	}
	b44edtableTo(c.emit, items)
	return c
}

func (c *b44case) emit(format string, a ...interface{}) {
	if c.held {
		c.lines = append(c.lines, fmt.Sprintf(format, a...))
		return
	}
	emit(format, a...)
}

func (c *b44case) end() {
	c.emit("b44end => ok")
	if c.held {
		for _, l := range c.lines {
			emit("%s", l)
		}
		c.held, c.lines = false, nil
	}
}

// content of the underlying store, sorted by target
func (c *b44case) dump() []bep44.VerifEntry {
	if c.xs != nil {
		return c.xs.dump()
	}
	return bep44.VerifDump(c.mem)
}

func (c *b44case) kindName() string {
	if c.xs != nil {
		return c.xs.kind()
	}
	return "memory"
}

// are the time stamps of dump() the ones Wrapper.Get is handed?  Not over a store that rebuilds the
// item on every read: there the stamp the store keeps never reaches the wrapper.
func (c *b44case) stampsVisible() bool {
	if c.xs == nil {
		return true
	}
	_, fg := c.xs.forgets()
	return !fg
}

// Expiry verdicts that hold whatever the scheduling.  With the two-hour expiry ages are virtual
// (VerifAge, whole minutes; the real time between operations is well below the 30 s of slack).  With
// a short expiry ages are real: t0 is a reading taken before the call was made, t1 one taken after it
// returned, the comparison inside Wrapper.Get happened in between.
func (c *b44case) surelyExpired(created, t0 time.Time) bool {
	if c.exp >= time.Minute {
		return b44vage(created) >= int64(c.exp/time.Minute)
	}
	return t0.Sub(created) > c.exp
}

func (c *b44case) surelyFresh(created, t1 time.Time) bool {
	if c.exp >= time.Minute {
		return b44vage(created) < int64(c.exp/time.Minute)
	}
	return t1.Sub(created) < c.exp
}

// The expiry clause on the TRUE age of an item, independent of any time stamp: the yielding store notes
// when the latest successful Put of the underlying store on a target returned (at; every accepted
// Wrapper.Put ends with one, from whichever goroutine) and the harness how much older VerifAge has made
// the stored items since (vage; only where the store's representation has a stamp that can be moved).
// The stamp Wrapper.Put gave the item is not later than `at`, the comparison made by a get is not earlier
// than the reading t0 taken before the get was issued: if t0 - at + vage exceeds the expiry the item is
// older than the expiry and must not be served, whatever the store does with the item in between.
type b44acc struct {
	at   time.Time
	vage time.Duration
}

func (c *b44case) trueAgeOracle(t [20]byte, t0 time.Time, where string) {
	c.ys.mu.Lock()
	a := c.ys.acc[t]
	var at time.Time
	var vage time.Duration
	if a != nil {
		at, vage = a.at, a.vage
	}
	c.ys.mu.Unlock()
	if a == nil {
		return
	}
	if age := t0.Sub(at) + vage; age > c.exp {
		c.e.fire("C13", "expired-item-served:by-true-age:"+c.kindName(), "%s expiry=%v accepted-put-returned=%v-before-the-get aged-by=%v", where, c.exp,
			t0.Sub(at).Round(time.Millisecond), vage)
	}
}

func b44vage(created time.Time) int64 {
	if created.Before(time.Unix(0, 0)) {
		return math.MaxInt32 // no time stamp (the zero time): older than any expiry
	}
	return int64((time.Since(created) + 30*time.Second) / time.Minute)
}

func b44itemStr(i *bep44.Item, created time.Time) string {
	age := strconv.FormatInt(int64(time.Since(created)/time.Minute), 10)
	if created.Before(time.Unix(0, 0)) {
		age = "z" // no time stamp: an item rebuilt by the store from the exported fields
	}
	return fmt.Sprintf("%d:%d:%s:%s:%s:%s:%s", i.Seq, i.Cas, hx(bencode.MustMarshal(i.V)), hx(i.K[:]), hx(i.Salt),
		hx(i.Sig[:]), age)
}

func b44dumpStr(es []bep44.VerifEntry) string {
	parts := []string{strconv.Itoa(len(es))}
	for i := range es {
		parts = append(parts, hx(es[i].Target[:])+":"+b44itemStr(&es[i].Item, es[i].Created))
	}
	return strings.Join(parts, " ")
}

func b44seqsStr(es []bep44.VerifEntry) string {
	parts := []string{strconv.Itoa(len(es))}
	for i := range es {
		parts = append(parts, fmt.Sprintf("%s:%d", hx(es[i].Target[:]), es[i].Item.Seq))
	}
	return strings.Join(parts, " ")
}

func b44find(es []bep44.VerifEntry, t [20]byte) *bep44.VerifEntry {
	for i := range es {
		if es[i].Target == t {
			return &es[i]
		}
	}
	return nil
}

func b44sameDump(a, b []bep44.VerifEntry) bool {
	if len(a) != len(b) {
		return false
	}
	for i := range a {
		if a[i].Target != b[i].Target || a[i].Item.Seq != b[i].Item.Seq || a[i].Item.Cas != b[i].Item.Cas ||
			a[i].Item.K != b[i].Item.K || a[i].Item.Sig != b[i].Item.Sig || !bytes.Equal(a[i].Item.Salt, b[i].Item.Salt) ||
			!a[i].Created.Equal(b[i].Created) ||
			!bytes.Equal(bencode.MustMarshal(a[i].Item.V), bencode.MustMarshal(b[i].Item.V)) {
			return false
		}
	}
	return true
}

// C12 over the store content: every stored item is genuine, within limits and under its own target
func (c *b44case) storeOracle(es []bep44.VerifEntry, where string) {
	for i := range es {
		it := &es[i].Item
		x := &b44it{bv: bencode.MustMarshal(it.V), k: it.K, salt: it.Salt, sig: it.Sig, seq: it.Seq}
		det := fmt.Sprintf("case=%s %s target=%s seq=%d salt=%dB v=%dB", c.name, where, hx(es[i].Target[:]), it.Seq, len(it.Salt), len(x.bv))
		if len(x.bv) > 1000 {
			c.e.fire("C12", "oversized-stored:value", "%s", det)
		}
		if x.mutable() && len(x.salt) > 64 {
			c.e.fire("C12", "oversized-stored:salt", "%s", det)
		}
		if x.mutable() && !x.refVerify() {
			c.e.fire("C12", "forged-item-stored", "%s", det)
		}
		if x.refTarget() != es[i].Target {
			c.e.fire("C12", "wrong-target:stored", "%s", det)
		}
	}
}

func (c *b44case) seqDecreased(before, after []bep44.VerifEntry, key, where string) {
	for i := range before {
		if a := b44find(after, before[i].Target); a != nil && a.Item.Seq < before[i].Item.Seq {
			c.e.fire("C13", key, "case=%s %s target=%s seq %d -> %d", c.name, where, hx(a.Target[:]), before[i].Item.Seq, a.Item.Seq)
		}
	}
}

func (c *b44case) put(x *b44it) string {
	c.nop++
	before := c.dump()
	got := b44errStr(c.w.Put(x.item()))
	after := c.dump()
	c.emit("b44put %s => %s | %s", x.args(), got, b44dumpStr(after))
	c.putOracles(x, got, before, after, fmt.Sprintf("op#%d Wrapper.Put", c.nop))
	return got
}

func (c *b44case) putOracles(x *b44it, got string, before, after []bep44.VerifEntry, where string) {
	where = fmt.Sprintf("%s item=%s", where, x.brief())
	if got != "ok" && !b44sameDump(before, after) {
		c.e.fire("C12", "rejected-put-changed-store:"+got, "case=%s %s", c.name, where)
	}
	c.storeOracle(after, where)
	want := x.refCheck()
	if want != 0 {
		if got != strconv.Itoa(want) {
			c.e.fire("C12", fmt.Sprintf("wrong-error-code:put-expected-%d-got-%s", want, got), "case=%s %s", c.name, where)
		}
	} else {
		if got == "205" || got == "206" || got == "207" {
			c.e.fire("C12", "wrong-error-code:put-expected-ok-got-"+got, "case=%s %s", c.name, where)
		}
		if st := b44find(before, x.refTarget()); st != nil {
			c.e.decisionOracle(fmt.Sprintf("case=%s %s", c.name, where), st.Item.Seq, st.Item.Cas,
				bencode.MustMarshal(st.Item.V), x.seq, x.cas, x.bv, got)
		} else if got != "ok" {
			c.e.fire("C13", "valid-first-put-rejected:got-"+got, "case=%s %s", c.name, where)
		}
		if got == "ok" {
			if a := b44find(after, x.refTarget()); a == nil || a.Item.Seq != x.seq || !bytes.Equal(bencode.MustMarshal(a.Item.V), x.bv) {
				c.e.fire("C13", "accepted-put-not-stored", "case=%s %s", c.name, where)
			}
		}
	}
	c.seqDecreased(before, after, "seq-decreased:sequential-put", where)
}

func (c *b44case) get(t [20]byte) { c.getItem(t) }

// ... and hands the item to the caller, as Wrapper.Get does
func (c *b44case) getItem(t [20]byte) *bep44.Item {
	c.nop++
	before := c.dump()
	t0 := time.Now()
	it, err := c.w.Get(t)
	t1 := time.Now()
	after := c.dump()
	res := "notfound"
	if err == nil && it != nil {
		res = "found " + b44itemStr(it, bep44.VerifCreated(it))
	} else if err != bep44.ErrItemNotFound {
		res = "error"
	}
	c.emit("b44get %s => %s | %s", hx(t[:]), res, b44dumpStr(after))
	where := fmt.Sprintf("case=%s op#%d Wrapper.Get target=%s", c.name, c.nop, hx(t[:]))
	c.getOraclesAt(t, it, before, after, where, t0, t1)
	if err != nil {
		return nil
	}
	return it
}

func (c *b44case) getOracles(t [20]byte, it *bep44.Item, before, after []bep44.VerifEntry, where string) {
	c.getOraclesAt(t, it, before, after, where, time.Time{}, time.Now())
}

// t0 / t1: readings of the clock taken before the get was issued / after it returned
func (c *b44case) getOraclesAt(t [20]byte, it *bep44.Item, before, after []bep44.VerifEntry, where string, t0, t1 time.Time) {
	st := b44find(before, t)
	if it != nil {
		c.servedOracle(t, b44itOf(it, "served"), where)
		if c.surelyExpired(bep44.VerifCreated(it), t0) {
			c.e.fire("C13", "expired-item-served", "%s age=%dmin", where, b44vage(bep44.VerifCreated(it)))
		}
		if !t0.IsZero() {
			c.trueAgeOracle(t, t0, where)
		}
		if st == nil || st.Item.Seq != it.Seq || !bytes.Equal(bencode.MustMarshal(st.Item.V), bencode.MustMarshal(it.V)) || st.Item.Sig != it.Sig {
			c.e.fire("C12", "served-item-not-the-stored-one", "%s", where)
		}
	} else if st != nil && c.stampsVisible() && c.surelyFresh(st.Created, t1) {
		c.e.fire("C13", "fresh-item-not-served", "%s age=%dmin", where, b44vage(st.Created))
	}
	for i := range before {
		if b44find(after, before[i].Target) == nil && c.stampsVisible() && c.surelyFresh(before[i].Created, t1) {
			c.e.fire("C13", "fresh-item-deleted-by-get:sequential", "%s deleted=%s", where, hx(before[i].Target[:]))
		}
	}
	c.storeOracle(after, where)
}

// makes every stored item d older, where the representation of the store has a time stamp
func (c *b44case) age(d time.Duration) {
	reached := true
	if c.xs != nil {
		reached = c.xs.age(d)
	} else {
		bep44.VerifAge(c.mem, d)
	}
	if reached {
		c.ys.mu.Lock()
		for _, a := range c.ys.acc {
			a.vage += d
		}
		c.ys.mu.Unlock()
	}
	c.emit("b44age %d => ok", int64(d))
}

// ---------------------------------------------------------------- store faults

// Wrapper.Put while the calls named by f fail
func (c *b44case) fput(x *b44it, f b44fault) string {
	c.nop++
	before := c.dump()
	c.ys.arm(f)
	got := b44errStr(c.w.Put(x.item()))
	hits := c.ys.disarm()
	after := c.dump()
	c.emit("b44fput %d %d %s => %s | %s", b2i(f.get), b2i(f.put), x.args(), got, b44dumpStr(after))
	c.faultPutOracles(x, got, before, after, fmt.Sprintf("op#%d Wrapper.Put faults=%s", c.nop, f), hits)
	return got
}

// hits: the store calls of this put that returned the injected error.  Such a put was not able to
// read the stored version / to write the new one: it must not be reported as accepted and must leave
// the store as it was.  Without a hit the put is an ordinary one.
func (c *b44case) faultPutOracles(x *b44it, got string, before, after []bep44.VerifEntry, where, hits string) {
	if hits == "" {
		c.putOracles(x, got, before, after, where)
		return
	}
	w := fmt.Sprintf("case=%s %s failed-calls=%s item=%s", c.name, where, hits, x.brief())
	if !b44sameDump(before, after) {
		c.e.fire("C13", "store-fault:put-changed-store:"+hits, "%s got=%s", w, got)
	}
	if got == "ok" {
		c.e.fire("C13", "store-fault:put-accepted:"+hits, "%s", w)
		c.putOracles(x, got, before, after, where) // and everything demanded of an accepted put
		return
	}
	c.storeOracle(after, where)
	c.seqDecreased(before, after, "seq-decreased:store-fault", w)
}

// Wrapper.Get while the calls named by f fail
func (c *b44case) fget(t [20]byte, f b44fault) {
	c.nop++
	before := c.dump()
	c.ys.arm(f)
	t0 := time.Now()
	it, err := c.w.Get(t)
	hits := c.ys.disarm()
	after := c.dump()
	res := "notfound"
	if err == nil && it != nil {
		res = "found " + b44itemStr(it, bep44.VerifCreated(it))
	} else if err != bep44.ErrItemNotFound {
		res = "error"
	}
	if it != nil {
		c.trueAgeOracle(t, t0, fmt.Sprintf("case=%s op#%d Wrapper.Get target=%s faults=%s", c.name, c.nop, hx(t[:]), f))
	}
	c.emit("b44fget %d %d %s => %s | %s", b2i(f.get), b2i(f.del), hx(t[:]), res, b44dumpStr(after))
	where := fmt.Sprintf("case=%s op#%d Wrapper.Get target=%s faults=%s failed-calls=%s", c.name, c.nop, hx(t[:]), f, hits)
	c.faultGetOracles(t, it, before, after, where, hits)
}

func (c *b44case) faultGetOracles(t [20]byte, it *bep44.Item, before, after []bep44.VerifEntry, where, hits string) {
	if hits == "" || it != nil {
		c.getOracles(t, it, before, after, where)
		return
	}
	// the get could not read (or not delete): serving nothing is legitimate, deleting a fresh item is not
	expMin := int64(b44Exp / time.Minute)
	for i := range before {
		if b44find(after, before[i].Target) == nil && b44vage(before[i].Created) < expMin {
			c.e.fire("C13", "fresh-item-deleted-by-get:store-fault", "%s deleted=%s", where, hx(before[i].Target[:]))
		}
	}
	c.seqDecreased(before, after, "seq-decreased:store-fault", where)
	c.storeOracle(after, where)
}

var b44PutFaults = []b44fault{{get: true}, {put: true}, {get: true, put: true}}

func (e *b44env) sequentialFaults() {
	salt := []byte("f")
	v0, v1 := "v", "w"
	// a put over a stored item while the read, the write or both fail; then the same put over the
	// healthy store: the fault must not have let anything through, nor have lost the stored item
	cas2s := []int64{0, 2}
	if e.thorough() {
		cas2s = b44Grid
	}
	n := 0
	for _, seq1 := range b44Grid {
		for _, seq2 := range b44Grid {
			for _, cas2 := range cas2s {
				for _, sameV := range []bool{true, false} {
					for _, f := range b44PutFaults {
						a := e.mk(v0, 0, salt, seq1, 0)
						v := v0
						if !sameV {
							v = v1
						}
						b := e.mk(v, 0, salt, seq2, cas2)
						c := e.begin(fmt.Sprintf("fgrid%d", n), []*b44it{a, b})
						n++
						c.put(a)
						c.fput(b, f)
						c.get(a.refTarget())
						c.put(b)
						c.get(a.refTarget())
						c.end()
					}
				}
			}
		}
	}
	// first put into an empty slot (mutable, immutable), rejected items (the fault is then never reached)
	firsts := []*b44it{e.mk(v0, 0, salt, 1, 0), e.mk(v0, 0, nil, math.MinInt64, 0), e.mk(v0, 0, salt, math.MaxInt64, 5),
		e.mk("immutable", -1, nil, 0, 0), e.variants(v0, salt, 4)[2], e.mk(b44sized(1001, 1), 0, salt, 1, 0),
		e.mk(v0, 0, e.r.bytes(65), 1, 0)}
	for i, x := range firsts {
		for j, f := range b44PutFaults {
			c := e.begin(fmt.Sprintf("ffirst%d-%d", i, j), []*b44it{x})
			c.fput(x, f)
			c.get(x.refTarget())
			c.fput(x, b44fault{del: true}) // Wrapper.Put never calls Del: an ordinary put
			c.fget(x.refTarget(), b44fault{put: true})
			c.fput(x, f)
			c.end()
		}
	}
	// gets: a failing read serves nothing and deletes nothing; a failing delete keeps the expired item
	// (still not served); afterwards the healthy get behaves as if nothing had happened
	getFaults := []b44fault{{get: true}, {del: true}, {get: true, del: true}}
	for i, d := range []time.Duration{0, 119 * time.Minute, 120 * time.Minute, 121 * time.Minute} {
		for j, f := range getFaults {
			a := e.mk(v0, 0, salt, 3, 0)
			b := e.mk(v1, 0, salt, 2, 0)
			c := e.begin(fmt.Sprintf("fget%d-%d", i, j), []*b44it{a, b})
			c.put(a)
			c.age(d)
			c.fget(a.refTarget(), f)
			c.fput(b, b44fault{get: true}) // a stale put during a read fault, also over an expired item
			c.fget(a.refTarget(), f)
			c.get(a.refTarget())
			c.put(b) // 302 while the item lives, accepted once the get has expired it
			c.get(a.refTarget())
			c.end()
		}
	}
	// random histories over several targets: every operation is hit by faults with probability 1/2
	cnt := 120
	if e.thorough() {
		cnt = 3000
	}
	for h := 0; h < cnt; h++ {
		r := e.r.sub(3000 + h)
		type slot struct {
			key  int
			salt []byte
		}
		slots := []slot{{0, nil}, {0, []byte("f")}, {1, []byte("f")}, {-1, nil}}
		var ops []func(c *b44case)
		var items []*b44it
		var targets [][20]byte
		ln := 4 + r.intn(9)
		for j := 0; j < ln; j++ {
			var f b44fault
			if r.bool() {
				f = b44fault{get: r.bool(), put: r.bool(), del: r.bool()}
			}
			switch k := r.intn(10); {
			case k < 6:
				sl := slots[r.intn(len(slots))]
				var v interface{} = []interface{}{"v", int64(r.intn(3))}
				if r.intn(15) == 0 {
					v = b44sized(1001+r.intn(3), r.intn(4))
				}
				seq := []int64{0, 1, 2, 3, 4, -1, math.MaxInt64, math.MinInt64, math.MinInt64 + 1, math.MaxInt64 - 1}[r.intn(10)]
				cas := []int64{0, 0, 0, 1, 2, 3, -1, math.MaxInt64, math.MinInt64}[r.intn(9)]
				x := e.mk(v, sl.key, sl.salt, seq, cas)
				if sl.key >= 0 && r.intn(8) == 0 {
					vs := e.variants(v, sl.salt, seq)
					x = vs[1+r.intn(6)]
					x.cas = cas
				}
				items = append(items, x)
				targets = append(targets, x.refTarget())
				ops = append(ops, func(c *b44case) {
					if f.any() {
						c.fput(x, f)
					} else {
						c.put(x)
					}
				})
			case k < 9:
				if len(targets) == 0 {
					continue
				}
				t := targets[r.intn(len(targets))]
				ops = append(ops, func(c *b44case) {
					if f.any() {
						c.fget(t, f)
					} else {
						c.get(t)
					}
				})
			default:
				d := []time.Duration{1, 30, 60, 90, 119, 120, 121}[r.intn(7)] * time.Minute
				ops = append(ops, func(c *b44case) { c.age(d) })
			}
		}
		c := e.begin(fmt.Sprintf("fhist%d", h), items)
		for _, op := range ops {
			op(c)
		}
		c.end()
	}
}

// ---------------------------------------------------------------- (b) sequential histories

func (e *b44env) sequential() {
	salt := []byte("s")
	v0, v1 := "v", "w"
	// two-put histories over the grid, then a get
	cas1s := []int64{0, 2, -1}
	if e.thorough() {
		cas1s = b44Grid
	}
	n := 0
	for _, seq1 := range b44Grid {
		for _, cas1 := range cas1s {
			for _, seq2 := range b44Grid {
				for _, cas2 := range b44Grid {
					for _, sameV := range []bool{true, false} {
						a := e.mk(v0, 0, salt, seq1, cas1)
						v := v0
						if !sameV {
							v = v1
						}
						b := e.mk(v, 0, salt, seq2, cas2)
						c := e.begin(fmt.Sprintf("grid%d", n), []*b44it{a, b})
						n++
						c.put(a)
						c.put(b)
						c.get(a.refTarget())
						c.end()
					}
				}
			}
		}
	}
	// expiry boundary, refresh resets the age
	for i, d := range []time.Duration{0, 60 * time.Minute, 119 * time.Minute, 120 * time.Minute, 121 * time.Minute, 500 * time.Minute} {
		a := e.mk(v0, 0, salt, 1, 0)
		c := e.begin(fmt.Sprintf("expiry%d", i), []*b44it{a})
		c.put(a)
		c.age(d)
		c.get(a.refTarget())
		c.get(a.refTarget())
		c.end()
		c = e.begin(fmt.Sprintf("refresh%d", i), []*b44it{a})
		c.put(a)
		c.age(100 * time.Minute)
		c.put(a) // same seq, same value: timeout counter is reset
		c.age(d)
		c.get(a.refTarget())
		c.put(a)
		c.get(a.refTarget())
		c.end()
	}
	// random longer histories over several targets, with forged and oversized puts in between
	cnt := 150
	if e.thorough() {
		cnt = 3000
	}
	for h := 0; h < cnt; h++ {
		r := e.r.sub(1000 + h)
		type slot struct {
			key  int
			salt []byte
		}
		slots := []slot{{0, nil}, {0, []byte("s")}, {1, []byte("s")}, {-1, nil}, {0, []byte{}}}
		var ops []func(c *b44case)
		var items []*b44it
		var targets [][20]byte
		ln := 3 + r.intn(8)
		for j := 0; j < ln; j++ {
			switch k := r.intn(10); {
			case k < 7:
				sl := slots[r.intn(len(slots))]
				var v interface{} = []interface{}{"v", int64(r.intn(3))}
				if r.intn(12) == 0 {
					v = b44sized(1001+r.intn(3), r.intn(4))
				}
				seq := []int64{0, 1, 2, 3, 4, -1, math.MaxInt64, math.MinInt64}[r.intn(8)]
				cas := []int64{0, 0, 0, 1, 2, 3, -1, math.MaxInt64}[r.intn(8)]
				sa := sl.salt
				if r.intn(15) == 0 {
					sa = r.bytes(65 + r.intn(3))
				}
				x := e.mk(v, sl.key, sa, seq, cas)
				if sl.key >= 0 && r.intn(6) == 0 {
					vs := e.variants(v, sa, seq)
					x = vs[1+r.intn(6)]
					x.cas = cas
				}
				items = append(items, x)
				targets = append(targets, x.refTarget())
				ops = append(ops, func(c *b44case) { c.put(x) })
			case k < 9:
				if len(targets) == 0 {
					continue
				}
				t := targets[r.intn(len(targets))]
				ops = append(ops, func(c *b44case) { c.get(t) })
			default:
				d := []time.Duration{1, 30, 60, 90, 119, 120, 121}[r.intn(7)] * time.Minute
				ops = append(ops, func(c *b44case) { c.age(d) })
			}
		}
		c := e.begin(fmt.Sprintf("hist%d", h), items)
		for _, op := range ops {
			op(c)
		}
		c.end()
	}
}

// ---------------------------------------------------------------- (c) concurrent

type b44tspec struct {
	put *b44it
	get *[20]byte
}

func (s b44tspec) String() string {
	if s.put != nil {
		return "P:" + strings.ReplaceAll(s.put.args(), " ", ":")
	}
	return "G:" + hx(s.get[:])
}

func (s b44tspec) brief() string {
	if s.put != nil {
		return "put" + s.put.brief()
	}
	return "get"
}

type b44scn struct {
	name  string
	init  []*b44it
	age   time.Duration
	specs []b44tspec
}

func (c *b44case) statuses() string {
	var p []string
	for _, th := range c.thr {
		p = append(p, th.st)
	}
	return strings.Join(p, " ")
}

func (c *b44case) launch(th *b44thr) {
	th.st = "R"
	go func() {
		g := b44curGid()
		c.ys.mu.Lock()
		c.ys.byGid[g] = th
		c.ys.mu.Unlock()
		th.gidCh <- g
		res := "panic"
		func() {
			defer func() { recover() }()
			if th.put != nil {
				res = b44errStr(c.w.Put(th.put.item()))
			} else {
				it, err := c.w.Get(*th.get)
				switch {
				case err == nil && it != nil:
					res = fmt.Sprintf("found:%d", it.Seq)
				case err == bep44.ErrItemNotFound:
					res = "notfound"
				default:
					res = "error"
				}
			}
		}()
		c.ys.mu.Lock()
		delete(c.ys.byGid, g)
		c.ys.mu.Unlock()
		th.arrive <- "F:" + res
	}()
	th.gid = <-th.gidCh
}

// wait until every thread is at a yield point, finished, or parked on a lock
func (c *b44case) settle() {
	deadline := time.Now().Add(5 * time.Second)
	parked := 0
	for spin := 0; ; spin++ {
		running, blocked := 0, 0
		for _, th := range c.thr {
			if th.st == "R" || th.st == "B" {
				select {
				case a := <-th.arrive:
					th.st = a
				default:
				}
			}
			switch th.st {
			case "R":
				running++
			case "B":
				blocked++
			}
		}
		if running == 0 && blocked == 0 {
			return
		}
		if spin < 20 && running > 0 {
			runtime.Gosched()
			continue
		}
		states := b44goStates()
		quiet := true
		for _, th := range c.thr {
			if th.st != "R" && th.st != "B" {
				continue
			}
			// an arrival may have been posted while the dump was taken
			if len(th.arrive) > 0 {
				quiet = false
				continue
			}
			if b44lockWait(states[th.gid]) {
				th.st = "B"
			} else {
				th.st = "R"
				quiet = false
			}
		}
		if quiet {
			parked++
			if parked >= 2 {
				return
			}
		} else {
			parked = 0
		}
		if time.Now().After(deadline) {
			for _, th := range c.thr {
				if th.st == "R" {
					th.st = "S" // never reached a yield point: reported through the compared line
				}
			}
			return
		}
		time.Sleep(50 * time.Microsecond)
	}
}

// runs one schedule of the scenario; choose picks among the threads that can be acted upon
func (e *b44env) runSchedule(scn *b44scn, name string, choose func(opts []int) int) {
	var items []*b44it
	items = append(items, scn.init...)
	for _, s := range scn.specs {
		if s.put != nil {
			items = append(items, s.put)
		}
	}
	c := e.begin(name, items)
	for _, x := range scn.init {
		c.put(x)
	}
	if scn.age > 0 {
		c.age(scn.age)
	}
	var specs, briefs []string
	for i, s := range scn.specs {
		th := &b44thr{id: i, put: s.put, get: s.get, st: "N", arrive: make(chan string, 1), resume: make(chan struct{}), gidCh: make(chan int64, 1)}
		c.thr = append(c.thr, th)
		specs = append(specs, s.String())
		briefs = append(briefs, s.brief())
		if s.get != nil {
			c.hasGet = true
		}
	}
	emit("b44cthreads %d %s => ok", len(specs), strings.Join(specs, " "))
	kind := "concurrent-puts"
	if c.hasGet {
		kind = "concurrent-put-get"
	}
	for step := 0; step < 64; step++ {
		var opts []int
		for _, th := range c.thr {
			if th.st == "N" || strings.HasPrefix(th.st, "y") {
				opts = append(opts, th.id)
			}
		}
		if len(opts) == 0 {
			break
		}
		tid := choose(opts)
		c.sched = append(c.sched, tid)
		th := c.thr[tid]
		before := c.dump()
		if th.st == "N" {
			c.launch(th)
		} else {
			th.st = "R"
			th.resume <- struct{}{}
		}
		c.settle()
		after := c.dump()
		emit("b44cstep %d => %s | %s", tid, c.statuses(), b44seqsStr(after))
		where := fmt.Sprintf("threads=[%s] sched=%v", strings.Join(briefs, " "), c.sched)
		c.seqDecreased(before, after, "seq-decreased:"+kind, where)
		c.storeOracle(after, where)
	}
	final := c.dump()
	emit("b44cend => %s | %s", c.statuses(), b44dumpStr(final))
	where := fmt.Sprintf("case=%s threads=[%s] sched=%v results=[%s]", c.name, strings.Join(briefs, " "), c.sched, c.statuses())
	var maxAcc *b44it
	for _, th := range c.thr {
		if th.put != nil && th.st == "F:ok" {
			if b44find(final, th.put.refTarget()) == nil {
				c.e.fire("C13", "fresh-item-deleted-by-get:"+kind, "%s", where)
			}
			if maxAcc == nil || th.put.seq > maxAcc.seq {
				maxAcc = th.put
			}
		}
		// a thread parked on a lock for good is a deadlock of the code under test; a thread that merely
		// missed the deadline ("S") is reported through the compared line only (correspondence failure)
		if th.st == "B" || strings.HasPrefix(th.st, "y") {
			c.e.fire("C13", "thread-never-finished:"+th.st, "%s", where)
		}
	}
	if maxAcc != nil {
		if f := b44find(final, maxAcc.refTarget()); f != nil && f.Item.Seq < maxAcc.seq {
			c.e.fire("C13", "final-item-not-greatest-accepted:"+kind, "%s final-seq=%d greatest-accepted=%d", where, f.Item.Seq, maxAcc.seq)
		}
	}
	c.get(scn.specs[0].targetOf())
	c.end()
}

func (s b44tspec) targetOf() [20]byte {
	if s.put != nil {
		return s.put.refTarget()
	}
	return *s.get
}

// every schedule (depth-first over the choices), or a sample of them
func (e *b44env) explore(scn *b44scn, sample int) int {
	if sample > 0 {
		for i := 0; i < sample; i++ {
			r := e.r.sub(77000 + i)
			e.runSchedule(scn, fmt.Sprintf("%s/s%d", scn.name, i), func(opts []int) int { return opts[r.intn(len(opts))] })
		}
		return sample
	}
	var path []int
	count := 0
	for ; count < 100000; count++ {
		var counts []int
		depth := 0
		e.runSchedule(scn, fmt.Sprintf("%s/%d", scn.name, count), func(opts []int) int {
			idx := 0
			if depth < len(path) {
				idx = path[depth]
				if idx >= len(opts) {
					idx = len(opts) - 1
				}
			} else {
				path = append(path, 0)
			}
			counts = append(counts, len(opts))
			depth++
			return opts[idx]
		})
		if depth < len(path) {
			path = path[:depth]
		}
		d := len(path) - 1
		for d >= 0 && path[d]+1 >= counts[d] {
			d--
		}
		if d < 0 {
			count++
			break
		}
		path = path[:d+1]
		path[d]++
	}
	return count
}

func (e *b44env) concurrent() {
	salt := []byte("s")
	base := e.mk("v", 0, salt, 1, 0)
	tgt := base.refTarget()
	P := func(seq, cas int64, v string) b44tspec { return b44tspec{put: e.mk(v, 0, salt, seq, cas)} }
	G := b44tspec{get: &tgt}
	puts := []b44tspec{P(5, 0, "a"), P(3, 0, "b"), P(1, 0, "v"), P(2, 1, "c"), P(2, 7, "d")}
	n := 0
	// two puts over a stored item, every interleaving
	for i := range puts {
		for j := range puts {
			if i == j && !e.thorough() {
				continue
			}
			scn := &b44scn{name: fmt.Sprintf("pp%d", n), init: []*b44it{base}, specs: []b44tspec{puts[i], puts[j]}}
			n++
			e.explore(scn, 0)
		}
	}
	// two puts into an empty store
	e.explore(&b44scn{name: "pp-empty", specs: []b44tspec{puts[0], puts[1]}}, 0)
	// a get at expiry against a put
	for i, p := range []b44tspec{P(2, 0, "n"), P(1, 0, "v"), P(0, 0, "o")} {
		e.explore(&b44scn{name: fmt.Sprintf("gp-expired%d", i), init: []*b44it{base}, age: 121 * time.Minute, specs: []b44tspec{G, p}}, 0)
		e.explore(&b44scn{name: fmt.Sprintf("gp-fresh%d", i), init: []*b44it{base}, age: 60 * time.Minute, specs: []b44tspec{G, p}}, 0)
	}
	// three threads
	triples := [][]b44tspec{
		{puts[0], puts[1], puts[3]},
		{G, puts[0], puts[1]},
		{puts[1], puts[2], puts[4]},
	}
	for i, tr := range triples {
		age := time.Duration(0)
		if tr[0].get != nil {
			age = 121 * time.Minute
		}
		scn := &b44scn{name: fmt.Sprintf("t3-%d", i), init: []*b44it{base}, age: age, specs: tr}
		if e.thorough() {
			e.explore(scn, 0)
		} else {
			e.explore(scn, 25)
		}
	}
}

// ---------------------------------------------------------------- (d) behind a real Server

type b44conn struct {
	in     chan b44pkt
	mu     sync.Mutex
	writes []b44pkt
	closed chan struct{}
	once   sync.Once
}
type b44pkt struct {
	data []byte
	addr net.Addr
}

func (c *b44conn) ReadFrom(b []byte) (int, net.Addr, error) {
	select {
	case p := <-c.in:
		return copy(b, p.data), p.addr, nil
	case <-c.closed:
		return 0, nil, net.ErrClosed
	}
}
func (c *b44conn) WriteTo(b []byte, addr net.Addr) (int, error) {
	c.mu.Lock()
	c.writes = append(c.writes, b44pkt{append([]byte(nil), b...), addr})
	c.mu.Unlock()
	return len(b), nil
}
func (c *b44conn) Close() error                       { c.once.Do(func() { close(c.closed) }); return nil }
func (c *b44conn) LocalAddr() net.Addr                { return &net.UDPAddr{IP: net.IPv4(127, 0, 0, 1), Port: 4444} }
func (c *b44conn) SetDeadline(t time.Time) error      { return nil }
func (c *b44conn) SetReadDeadline(t time.Time) error  { return nil }
func (c *b44conn) SetWriteDeadline(t time.Time) error { return nil }

// the datagram written with transaction id t (replies are written from goroutines)
func (c *b44conn) await(t string, query bool) *krpc.Msg {
	deadline := time.Now().Add(5 * time.Second)
	for {
		c.mu.Lock()
		for i, w := range c.writes {
			var m krpc.Msg
			if bencode.Unmarshal(w.data, &m) == nil && ((query && m.Y == "q" && m.Q == t) || (!query && m.T == t && m.Y != "q")) {
				c.writes = append(c.writes[:i], c.writes[i+1:]...)
				c.mu.Unlock()
				return &m
			}
		}
		c.mu.Unlock()
		if time.Now().After(deadline) {
			return nil
		}
		time.Sleep(50 * time.Microsecond)
	}
}

type b44srv struct {
	c    *b44case
	conn *b44conn
	s    *dht.Server
	from *net.UDPAddr
	nt   int
}

func (e *b44env) beginServer(name string, items []*b44it) *b44srv {
	return e.beginServerK(name, items, nil, b44Exp, false)
}

func (e *b44env) beginServerK(name string, items []*b44it, xs b44xstore, exp time.Duration, held bool) *b44srv {
	c := e.beginK(name, items, xs, exp, held)
	conn := &b44conn{in: make(chan b44pkt), closed: make(chan struct{})}
	cfg := dht.NewDefaultServerConfig()
	cfg.Conn = conn
	cfg.NoSecurity = true
	cfg.Store = c.ys
	cfg.Exp = exp
	cfg.SendLimiter = rate.NewLimiter(rate.Inf, 1)
	cfg.StartingNodes = func() ([]dht.Addr, error) { return nil, nil }
	s, err := dht.NewServer(cfg)
	if err != nil {
		panic(err)
	}
	return &b44srv{c: c, conn: conn, s: s, from: &net.UDPAddr{IP: net.IPv4(10, 1, 2, 3), Port: 7000}}
}

func (v *b44srv) close() { v.s.Close(); v.c.end(); out.Flush() }

func (v *b44srv) query(q string, a *krpc.MsgArgs) *krpc.Msg {
	out.Flush() // a crash of the server must not lose what was observed so far
	v.nt++
	t := fmt.Sprintf("t%d", v.nt)
	var id [20]byte
	id[0] = 0x77
	a.ID = id
	b := bencode.MustMarshal(krpc.Msg{Q: q, A: a, T: t, Y: "q"})
	select {
	case v.conn.in <- b44pkt{b, v.from}:
	case <-time.After(5 * time.Second):
		return nil
	}
	return v.conn.await(t, false)
}

// a write token is per source address, not per target: it is fetched with a get for a target that is
// never stored, so that fetching it does not touch (expire) the slot under test
func (v *b44srv) token() string {
	var t [20]byte
	for i := range t {
		t[i] = 0xee
	}
	m := v.query("get", &krpc.MsgArgs{Target: krpc.ID(t)})
	if m == nil || m.R == nil || m.R.Token == nil {
		return ""
	}
	return *m.R.Token
}

// inbound put with a fresh valid token; withSeq=false leaves the seq argument out
func (v *b44srv) wput(x *b44it, withSeq bool) { v.wputF(x, withSeq, b44fault{}) }

// ... while the store calls named by f fail (the token is fetched before the fault window opens)
func (v *b44srv) wputF(x *b44it, withSeq bool, f b44fault) {
	v.c.nop++
	tok := v.token()
	before := v.c.dump()
	a := &krpc.MsgArgs{V: x.v, K: x.k, Salt: x.salt, Sig: x.sig, Cas: x.cas, Token: tok}
	seqs := "-"
	if withSeq {
		a.Seq = &x.seq
		seqs = strconv.FormatInt(x.seq, 10)
	}
	v.c.ys.arm(f)
	m := v.query("put", a)
	hits := v.c.ys.disarm()
	after := v.c.dump()
	res := "noreply"
	got := "noreply"
	if m != nil && m.Y == "r" {
		res, got = "reply", "ok"
	} else if m != nil && m.Y == "e" && m.E != nil {
		res = fmt.Sprintf("error %d", m.E.Code)
		got = strconv.Itoa(m.E.Code)
	}
	where := fmt.Sprintf("op#%d inbound put", v.c.nop)
	if f.any() {
		v.c.emit("b44fwput %d %d %s %s %s %s %d %s => %s | %s", b2i(f.get), b2i(f.put), hx(x.bv), hx(x.k[:]), hx(x.salt), hx(x.sig[:]), x.cas, seqs, res, b44dumpStr(after))
		where += " faults=" + f.String()
	} else {
		v.c.emit("b44wput %s %s %s %s %d %s => %s | %s", hx(x.bv), hx(x.k[:]), hx(x.salt), hx(x.sig[:]), x.cas, seqs, res, b44dumpStr(after))
	}
	if !withSeq {
		if !b44sameDump(before, after) {
			v.c.e.fire("C12", "rejected-put-changed-store:no-seq", "case=%s %s item=%s", v.c.name, where, x.brief())
		}
		return
	}
	v.c.faultPutOracles(x, got, before, after, where, hits)
}

func (v *b44srv) wget(t [20]byte, seq *int64) { v.wgetF(t, seq, b44fault{}) }

func (v *b44srv) wgetF(t [20]byte, seq *int64, f b44fault) {
	v.c.nop++
	before := v.c.dump()
	v.c.ys.arm(f)
	t0 := time.Now()
	m := v.query("get", &krpc.MsgArgs{Target: krpc.ID(t), Seq: seq})
	t1 := time.Now()
	hits := v.c.ys.disarm()
	after := v.c.dump()
	seqs := "-"
	if seq != nil {
		seqs = strconv.FormatInt(*seq, 10)
	}
	res := "noreply"
	st := b44find(before, t)
	where := fmt.Sprintf("case=%s op#%d inbound get target=%s seq=%s", v.c.name, v.c.nop, hx(t[:]), seqs)
	if m != nil && m.Y == "r" && m.R != nil {
		rs := "-"
		if m.R.Seq != nil {
			rs = strconv.FormatInt(*m.R.Seq, 10)
			// the seq of an item is sent only while the item is served
			v.c.trueAgeOracle(t, t0, where)
		}
		if len(m.R.V) > 0 {
			if m.R.Seq == nil {
				v.c.trueAgeOracle(t, t0, where)
			}
			res = fmt.Sprintf("seq=%s %s %s %s", rs, hx(m.R.V), hx(m.R.K[:]), hx(m.R.Sig[:]))
			// C12 from the reply alone (the salt is not sent: it is the one of the slot that was asked for)
			if st != nil {
				sv := &b44it{bv: m.R.V, k: m.R.K, sig: m.R.Sig, salt: st.Item.Salt, note: "served"}
				if m.R.Seq != nil {
					sv.seq = *m.R.Seq
				} else if sv.mutable() {
					v.c.e.fire("C12", "forged-item-served:no-seq", "%s", where)
				}
				v.c.servedOracle(t, sv, where)
			}
			// C12/C13 from the reply and the store
			if st == nil || !bytes.Equal(bencode.MustMarshal(st.Item.V), m.R.V) || st.Item.K != m.R.K || st.Item.Sig != m.R.Sig {
				v.c.e.fire("C12", "served-item-not-the-stored-one", "%s", where)
			} else if v.c.stampsVisible() && v.c.surelyExpired(st.Created, t0) {
				v.c.e.fire("C13", "expired-item-served", "%s", where)
			}
			if seq != nil && st != nil && st.Item.Seq <= *seq {
				v.c.e.fire("C13", "get-seq-gate:value-sent-though-not-newer", "%s stored-seq=%d", where, st.Item.Seq)
			}
		} else {
			res = fmt.Sprintf("seq=%s - - -", rs)
			if hits == "" && st != nil && v.c.stampsVisible() && v.c.surelyFresh(st.Created, t1) && (seq == nil || st.Item.Seq > *seq) {
				v.c.e.fire("C13", "get-seq-gate:value-withheld-though-newer", "%s stored-seq=%d", where, st.Item.Seq)
			}
		}
	} else if m != nil && m.Y == "e" && m.E != nil {
		res = fmt.Sprintf("error %d", m.E.Code)
	}
	if f.any() {
		v.c.emit("b44fwget %d %d %s %s => %s | %s", b2i(f.get), b2i(f.del), hx(t[:]), seqs, res, b44dumpStr(after))
		where += " faults=" + f.String() + " failed-calls=" + hits
		v.c.seqDecreased(before, after, "seq-decreased:store-fault", where)
	} else {
		v.c.emit("b44wget %s %s => %s | %s", hx(t[:]), seqs, res, b44dumpStr(after))
	}
	for i := range before {
		if b44find(after, before[i].Target) == nil && v.c.stampsVisible() && v.c.surelyFresh(before[i].Created, t1) {
			v.c.e.fire("C13", "fresh-item-deleted-by-get:sequential", "%s", where)
		}
	}
}

// Server.Put: the local store first, the query only when it accepted
func (v *b44srv) lput(x *b44it) { v.lputF(x, b44fault{}) }

func (v *b44srv) lputF(x *b44it, f b44fault) {
	v.c.nop++
	before := v.c.dump()
	v.c.ys.arm(f)
	p := bep44.Put{V: x.v, Salt: x.salt, Sig: x.sig, Cas: x.cas, Seq: x.seq}
	ks := "-"
	if x.mutable() {
		k := x.k
		p.K = &k
		ks = hx(k[:])
	}
	if x.via != nil {
		p = x.item().ToPut() // the record of an Item the application holds (K points into that Item)
	}
	ctx, cancel := context.WithCancel(context.Background())
	done := make(chan dht.QueryResult, 1)
	go func() {
		done <- v.s.Put(ctx, dht.NewAddr(&net.UDPAddr{IP: net.IPv4(10, 9, 9, 9), Port: 9000}), p, "tok", dht.QueryRateLimiting{})
	}()
	var res, got string
	var q *krpc.Msg
	select {
	case r := <-done: // returned without waiting for a reply: the store refused
		got = b44errStr(r.Err)
		res = "err " + got
	case <-time.After(20 * time.Millisecond):
	}
	if res == "" {
		q = v.conn.await("put", true)
		cancel()
		select {
		case r := <-done:
			if q == nil {
				got = b44errStr(r.Err)
				res = "err " + got
			}
		case <-time.After(5 * time.Second):
			res = "hang"
		}
	}
	cancel()
	if q != nil && q.A != nil {
		got = "ok"
		sq := "-"
		if q.A.Seq != nil {
			sq = strconv.FormatInt(*q.A.Seq, 10)
		}
		res = fmt.Sprintf("query %s %s %s %s %d %s", hx(bencode.MustMarshal(q.A.V)), hx(q.A.K[:]), hx(q.A.Salt), hx(q.A.Sig[:]), q.A.Cas, sq)
	}
	hits := v.c.ys.disarm()
	after := v.c.dump()
	where := fmt.Sprintf("op#%d Server.Put", v.c.nop)
	if f.any() {
		v.c.emit("b44flput %d %d %s %s %s %s %d %d => %s | %s", b2i(f.get), b2i(f.put), hx(x.bv), ks, hx(x.salt), hx(x.sig[:]), x.cas, x.seq, res, b44dumpStr(after))
		where += " faults=" + f.String()
	} else {
		v.c.emit("b44lput %s %s %s %s %d %d => %s | %s", hx(x.bv), ks, hx(x.salt), hx(x.sig[:]), x.cas, x.seq, res, b44dumpStr(after))
	}
	v.c.faultPutOracles(x, got, before, after, where, hits)
}

func (e *b44env) server() {
	salt := []byte("s")
	i64 := func(x int64) *int64 { return &x }
	// fixed script: every handler branch
	{
		a1 := e.mk("v", 0, salt, 1, 0)
		a2 := e.mk("w", 0, salt, 2, 1)
		a3bad := e.mk("x", 0, salt, 3, 1)
		low := e.mk("y", 0, salt, 1, 0)
		forged := e.variants("z", salt, 9)[2]
		big := e.mk(b44sized(1001, 0), 0, salt, 10, 0)
		bigsalt := e.mk("q", 0, e.r.bytes(65), 1, 0)
		imm := e.mk("immutable value", -1, nil, 0, 0)
		l1 := e.mk("l", 0, salt, 5, 2)
		l2 := e.mk("m", 0, salt, 4, 0)
		l3 := e.variants("n", salt, 9)[1]
		v := e.beginServer("srv-script", []*b44it{a1, a2, a3bad, low, forged, big, bigsalt, l1, l2, l3})
		tgt := a1.refTarget()
		v.wget(tgt, nil)
		v.wput(a1, false) // 203: seq missing
		v.wput(a1, true)
		v.wget(tgt, nil)
		v.wget(tgt, i64(0))
		v.wget(tgt, i64(1))
		v.wget(tgt, i64(2))
		v.wput(a2, true)
		v.wput(a3bad, true) // 301
		v.wput(low, true)   // 302
		v.wput(forged, true)
		v.wput(big, true)
		v.wput(bigsalt, true)
		v.wput(imm, true)
		v.wget(imm.refTarget(), nil)
		v.lput(l1)
		v.lput(l2) // refused locally: no query
		v.lput(l3)
		v.lput(imm)
		v.c.age(121 * time.Minute)
		v.wget(tgt, nil)
		v.wget(tgt, nil)
		v.close()
	}
	e.serverExtremes()
	e.serverFaults()
	e.serverRebuilding()
	cnt := 25
	if e.thorough() {
		cnt = 400
	}
	for h := 0; h < cnt; h++ {
		r := e.r.sub(5000 + h)
		var ops []func(v *b44srv)
		var items []*b44it
		// odd histories draw the stored seq and the seq named by a get from the extremes of int64 as
		// well; one history in three is run over a store whose calls fail now and then
		extreme := h%2 == 1
		faulty := h%3 == 2
		salts := [][]byte{salt}
		if extreme {
			salts = append(salts, []byte("t")) // a slot stuck at MaxInt64 must not end the history
		}
		pick := func(small []int64) int64 {
			if extreme && r.intn(2) == 0 {
				return b44Extremes[r.intn(len(b44Extremes))]
			}
			return small[r.intn(len(small))]
		}
		for j := 0; j < 4+r.intn(6); j++ {
			var f b44fault
			if faulty && r.intn(3) == 0 {
				f = [...]b44fault{{get: true}, {put: true}, {del: true}, {get: true, put: true, del: true}}[r.intn(4)]
			}
			sa := salts[r.intn(len(salts))]
			switch k := r.intn(10); {
			case k < 5:
				seq := pick([]int64{0, 1, 2, 3, 4})
				cas := pick([]int64{0, 0, 1, 2, 3})
				x := e.mk(fmt.Sprintf("v%d", r.intn(2)), 0, sa, seq, cas)
				if r.intn(7) == 0 {
					x = e.variants("f", sa, seq)[1+r.intn(6)]
				}
				items = append(items, x)
				local, noseq := r.intn(4) == 0, r.intn(9) == 0
				ops = append(ops, func(v *b44srv) {
					if local {
						v.lputF(x, f)
					} else {
						v.wputF(x, !noseq, f)
					}
				})
			case k < 9:
				var sq *int64
				if r.bool() {
					sq = i64(pick([]int64{-1, 0, 1, 2, 3}))
				}
				tgt := e.mk("v", 0, sa, 0, 0).refTarget()
				ops = append(ops, func(v *b44srv) { v.wgetF(tgt, sq, f) })
			default:
				d := []time.Duration{30, 119, 120, 121}[r.intn(4)] * time.Minute
				ops = append(ops, func(v *b44srv) { v.c.age(d) })
			}
		}
		v := e.beginServer(fmt.Sprintf("srv%d", h), items)
		for _, op := range ops {
			op(v)
		}
		v.close()
	}
	e.serverAPI()
}

// the ends of the int64 range and their neighbours, and the values around zero
var b44Extremes = []int64{math.MinInt64, math.MinInt64 + 1, -1, 0, 1, math.MaxInt64 - 1, math.MaxInt64}

// (d) at the extremes: an item stored (inbound put / Server.Put) with each extreme seq is returned by a
// get that names no seq, and by a get naming seq n exactly when the stored seq is greater than n
func (e *b44env) serverExtremes() {
	i64 := func(x int64) *int64 { return &x }
	for i, sseq := range b44Extremes {
		for _, local := range []bool{false, true} {
			salt := []byte(fmt.Sprintf("x%d", i))
			x := e.mk("extreme", 0, salt, sseq, 0)
			items := []*b44it{x}
			var ups []*b44it
			// a follow-up at the next seq with the CAS naming the stored one, and a stale one below
			if sseq < math.MaxInt64 {
				ups = append(ups, e.mk("next", 0, salt, sseq+1, sseq))
			}
			if sseq > math.MinInt64 {
				ups = append(ups, e.mk("stale", 0, salt, sseq-1, 0))
			}
			ups = append(ups, e.mk("wrong-cas", 0, salt, math.MaxInt64, 7))
			items = append(items, ups...)
			v := e.beginServer(fmt.Sprintf("srv-extreme%d-%s", i, map[bool]string{false: "wire", true: "local"}[local]), items)
			tgt := x.refTarget()
			v.wget(tgt, nil)
			if local {
				v.lput(x)
			} else {
				v.wput(x, true)
			}
			v.wget(tgt, nil)
			for _, n := range b44Extremes {
				v.wget(tgt, i64(n))
			}
			if sseq > math.MinInt64 {
				v.wget(tgt, i64(sseq-1))
			}
			if sseq < math.MaxInt64 {
				v.wget(tgt, i64(sseq+1))
			}
			v.wget(tgt, i64(sseq))
			for _, u := range ups {
				if local {
					v.wput(u, true)
				} else {
					v.lput(u)
				}
				v.wget(tgt, nil)
				v.wget(tgt, i64(sseq))
			}
			v.c.age(121 * time.Minute)
			v.wget(tgt, i64(math.MinInt64))
			v.wget(tgt, nil)
			v.close()
		}
	}
}

// (d) over a failing store: inbound put / get and Server.Put while the read, the write or the delete of
// the underlying store fails.  A put that met a fault is answered with an error (Server.Put: returns
// the error, sends no query) and the store keeps what it held; afterwards everything works again.
func (e *b44env) serverFaults() {
	i64 := func(x int64) *int64 { return &x }
	salt := []byte("sf")
	n := 0
	for _, f := range b44PutFaults {
		for _, local := range []bool{false, true} {
			// stored seq 5; puts below (3), equal with another value (5), above (6), above with a wrong CAS
			base := e.mk("five", 0, salt, 5, 0)
			ins := []*b44it{e.mk("three", 0, salt, 3, 0), e.mk("other five", 0, salt, 5, 0), e.mk("five", 0, salt, 5, 0),
				e.mk("six", 0, salt, 6, 5), e.mk("seven", 0, salt, 7, 1), e.mk("imm", -1, nil, 0, 0),
				e.variants("forged", salt, 9)[2]}
			v := e.beginServer(fmt.Sprintf("srv-fault%d", n), append([]*b44it{base}, ins...))
			n++
			tgt := base.refTarget()
			put := func(x *b44it, f b44fault) {
				if local {
					v.lputF(x, f)
				} else {
					v.wputF(x, true, f)
				}
			}
			put(base, f) // into the empty store: refused as well
			v.wget(tgt, nil)
			put(base, b44fault{})
			for _, x := range ins {
				put(x, f)
				v.wget(tgt, nil)
			}
			v.wputF(base, false, f) // no seq: 203 before the store is consulted
			for _, x := range ins {
				put(x, b44fault{})
				v.wget(tgt, i64(5))
			}
			v.close()
		}
	}
	for i, f := range []b44fault{{get: true}, {del: true}, {get: true, del: true}, {put: true}} {
		a := e.mk("v", 0, salt, 3, 0)
		b := e.mk("w", 0, salt, 2, 0)
		v := e.beginServer(fmt.Sprintf("srv-fault-get%d", i), []*b44it{a, b})
		tgt := a.refTarget()
		v.wgetF(tgt, nil, f)
		v.wput(a, true)
		v.wgetF(tgt, nil, f)
		v.wgetF(tgt, i64(2), f)
		v.wgetF(tgt, i64(3), f)
		v.wget(tgt, nil)
		v.c.age(121 * time.Minute)
		v.wgetF(tgt, nil, f) // a failing delete keeps the expired item, which is still not served
		v.wputF(b, true, b44fault{get: true})
		v.wgetF(tgt, i64(0), f)
		v.wget(tgt, nil)
		v.wput(b, true)
		v.wget(tgt, nil)
		v.close()
	}
}

var _ = sort.Strings
