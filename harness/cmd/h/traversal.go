package main

// Engine "traversal": drives the REAL traversal.Start with a scripted DoQuery that blocks until
// the schedule explorer releases it with the scripted response (C02, C03, C04).
//
// The explorer acts only at quiescent points (all released queries finished, the run loop has
// taken its wake-up channel after the last broadcast) and decides the order of completions, late
// AddNodes calls and Stop. After every action it prints the observables:
//
//	s <n> addr...   addresses DoQuery was entered for since the previous action (sorted)
//	o <n>           Operation.outstanding          u <n>  frontier length
//	st <0|1>        a receive from Stalled() succeeded      sp <0|1>  Stopped() closed
//	c <n> addr:b..  ctx.Done() closed, per in-flight query (sorted)
//
// Lines:  tbegin case target K Alpha nbadaddr a.. nbadid i.. nbaddata d.. => ok
//         tadd  case n ami..            => <AddNodes return> <obs>
//         tdone case addr from|- n nodes.. n6 nodes6.. => <obs>
//         tdonem case n (addr from|- n nodes.. n6 nodes6..)xn => <obs>   (traversal_conc.go: n completions
//                                          released together while filter callbacks are slow)
//         tstop case                    => <obs>
//         tend  case                    => <n> closest elems (ip:port:id:data) in container order
//
// Oracles use the implementation's behaviour only (never the model).

import (
	"context"
	"fmt"
	"math/big"
	"os"
	"sort"
	"strconv"
	"strings"
	"sync"
	"time"

	"github.com/anacrolix/dht/v2/krpc"
	"github.com/anacrolix/dht/v2/traversal"
	"github.com/anacrolix/dht/v2/types"
)

func init() { engines["traversal"] = traversalEngine }

const tDeadline = 5 * time.Second

type tNI struct {
	ip   []byte
	port int
	id   []byte // nil = unknown (seeds only)
}

func (n tNI) addrKey() string { return fmt.Sprintf("%s:%d", hx(n.ip), n.port) }
func (n tNI) tok() string {
	id := "-"
	if n.id != nil {
		id = hx(n.id)
	}
	return fmt.Sprintf("%s:%d:%s", hx(n.ip), n.port, id)
}
func (n tNI) ami() types.AddrMaybeId { return mkAmi(n.ip, n.port, n.id) }
func (n tNI) nodeInfo() krpc.NodeInfo {
	return krpc.NodeInfo{ID: arr20(n.id), Addr: krpc.NodeAddr{IP: append([]byte(nil), n.ip...), Port: n.port}}
}

type tResp struct {
	from   *tNI // nil = no response (silent / error)
	data   string
	nodes  []tNI
	nodes6 []tNI
}

type tExtra struct {
	pos  int    // performed before the pos-th completion (or when nothing is in flight)
	kind string // "add" | "stop"
	ns   []tNI
}

type tCase struct {
	name    string
	gen     string
	target  []byte
	K       int
	Alpha   int
	badAddr map[string]bool
	badID   map[string]bool
	badData map[string]bool
	net     map[string]tResp
	seeds   []tNI
	extras  []tExtra
	honest  []tNI  // non-nil: the honest network N (exactness oracle applies)
	conc    *tConc // non-nil: completions are released in overlapping groups (traversal_conc.go)
}

func (c *tCase) effK() int {
	if c.K == 0 {
		return 8
	}
	return c.K
}
func (c *tCase) effAlpha() int {
	if c.Alpha == 0 {
		return 3
	}
	return c.Alpha
}

func (c *tCase) nodeFilterOK(addrKey string, id []byte) bool {
	if c.badAddr[addrKey] {
		return false
	}
	if id != nil && c.badID[hx(id)] {
		return false
	}
	return true
}

func xorDist(id, target []byte) *big.Int {
	x := make([]byte, 20)
	for i := range x {
		x[i] = id[i] ^ target[i]
	}
	return new(big.Int).SetBytes(x)
}

type tEntry struct {
	seq      int
	addrKey  string
	ctx      context.Context
	release  chan tResp
	released bool
	returned bool
}

type tRun struct {
	c        *tCase
	caseID   string
	op       *traversal.Operation
	mu       sync.Mutex
	entries  []*tEntry
	perAddr  map[string]int
	inDo     int
	maxInDo  int
	printed  int // entries already reported in an observation
	released int
	stopping bool
	oracles  map[string]bool
	omu      sync.Mutex
	pending  []string
	sched    []string
	// everything offered to the operation so far (seeds, AddNodes, nodes of completed replies)
	learned []tNI
	// responders of completed queries
	responders []struct {
		ni   tNI
		data string
	}
	stalledSeen bool
	mem         *tMem // result memory shared by all replies of the run (traversal_own.go)
	slow        tSlow // slow / rendezvous filter callbacks (traversal_conc.go)
	groups      int   // overlapping groups released so far
}

func (r *tRun) oracle(prop, key, format string, a ...interface{}) {
	k := prop + " " + key
	r.omu.Lock()
	defer r.omu.Unlock()
	if r.oracles[k] {
		return
	}
	r.oracles[k] = true
	r.pending = append(r.pending, fmt.Sprintf("oracle %s %s %s", prop, key, fmt.Sprintf(format, a...)))
}

// called by the explorer goroutine only
func (r *tRun) flushOracles() {
	r.omu.Lock()
	defer r.omu.Unlock()
	for _, l := range r.pending {
		emit("%s case=%s sched=%s", l, r.caseID, strings.Join(r.sched, ","))
	}
	r.pending = nil
}

func (r *tRun) doQuery(ctx context.Context, addr krpc.NodeAddr) traversal.QueryResult {
	key := fmt.Sprintf("%s:%d", hx(addr.IP), addr.Port)
	e := &tEntry{addrKey: key, ctx: ctx, release: make(chan tResp, 1)}
	r.mu.Lock()
	e.seq = len(r.entries)
	r.entries = append(r.entries, e)
	r.perAddr[key]++
	dup := r.perAddr[key]
	r.inDo++
	over := r.inDo
	r.mu.Unlock()
	if dup > 1 {
		r.oracle("C04", "dup-addr-query", "%s times=%d", key, dup)
	}
	if over > r.c.effAlpha() {
		r.oracle("C04", "alpha-exceeded", "inflight=%d alpha=%d", over, r.c.effAlpha())
	}
	if r.c.badAddr[key] {
		r.oracle("C04", "filtered-addr-queried", "%s", key)
	}
	resp := <-e.release
	r.mu.Lock()
	r.inDo--
	e.returned = true
	r.mu.Unlock()
	var res traversal.QueryResult
	if r.mem.result(key, resp, &res) && (resp.from != nil || len(resp.nodes)+len(resp.nodes6) > 0) {
		// windows of the snapshot this run's DoQuery side owns (traversal_own.go)
		return res
	}
	res = traversal.QueryResult{}
	if resp.from != nil {
		ni := resp.from.nodeInfo()
		res.ResponseFrom = &ni
		res.ClosestData = resp.data
	}
	for _, n := range resp.nodes {
		res.Nodes = append(res.Nodes, n.nodeInfo())
	}
	for _, n := range resp.nodes6 {
		res.Nodes6 = append(res.Nodes6, n.nodeInfo())
	}
	return res
}

func (r *tRun) counts() (entered, released int) {
	r.mu.Lock()
	defer r.mu.Unlock()
	return len(r.entries), r.released
}

// Stalled(): 1 = a value was received (the loop offered it), 2 = channel closed (loop exited), 0 = nothing
func (r *tRun) tryStalled(wait time.Duration) int {
	ch := r.op.Stalled()
	if wait <= 0 {
		select {
		case _, ok := <-ch:
			if ok {
				return 1
			}
			return 2
		default:
			return 0
		}
	}
	t := time.NewTimer(wait)
	defer t.Stop()
	select {
	case _, ok := <-ch:
		if ok {
			return 1
		}
		return 2
	case <-t.C:
		return 0
	}
}

func isClosed(ch <-chan struct{}) bool {
	select {
	case <-ch:
		return true
	default:
		return false
	}
}

// settle waits for quiescence and returns the snapshot; ok=false when the deadline passed.
func (r *tRun) settle() (snap traversal.VerifSnap, ok bool) {
	deadline := time.Now().Add(tDeadline)
	spins := 0
	for {
		snap = r.op.VerifSnapshot()
		entered, released := r.counts()
		q := snap.Outstanding == entered-released
		if q {
			if r.stopping {
				// the loop must have exited: it closes the stalled channel
				q = r.tryStalled(0) == 2
			} else {
				q = snap.CondArmed
			}
		}
		if q {
			// confirm with a second identical reading (nothing moves at a quiescent point)
			snap2 := r.op.VerifSnapshot()
			e2, r2 := r.counts()
			if e2 == entered && r2 == released && snap2.Outstanding == snap.Outstanding &&
				snap2.UnqueriedLen == snap.UnqueriedLen && len(snap2.Queried) == len(snap.Queried) {
				return snap2, true
			}
		}
		if time.Now().After(deadline) {
			return snap, false
		}
		spins++
		if spins < 50 {
			// let the goroutines of the operation run
			time.Sleep(5 * time.Microsecond)
		} else {
			time.Sleep(100 * time.Microsecond)
		}
	}
}

func (r *tRun) inflight() []*tEntry {
	r.mu.Lock()
	defer r.mu.Unlock()
	var l []*tEntry
	for _, e := range r.entries {
		if !e.released {
			l = append(l, e)
		}
	}
	sort.SliceStable(l, func(i, j int) bool {
		if l[i].addrKey != l[j].addrKey {
			return l[i].addrKey < l[j].addrKey
		}
		return l[i].seq < l[j].seq
	})
	return l
}

// observe waits for quiescence, runs the per-state oracles and renders the observables
func (r *tRun) observe() string {
	snap, ok := r.settle()
	if !ok {
		r.oracle("C03", "no-quiescence-within-deadline", "outstanding=%d", snap.Outstanding)
	}
	r.mu.Lock()
	var started []string
	for _, e := range r.entries[r.printed:] {
		started = append(started, e.addrKey)
	}
	r.printed = len(r.entries)
	r.mu.Unlock()
	sort.Strings(started)
	r.checkStartedPassedFilter(started)

	infl := r.inflight()
	// stop: every in-flight ctx must get cancelled; Stopped() exactly when nothing is in flight
	if r.stopping {
		for _, e := range infl {
			select {
			case <-e.ctx.Done():
			case <-time.After(tDeadline):
				r.oracle("C04", "ctx-not-cancelled-after-stop", "%s", e.addrKey)
			}
		}
		if snap.Outstanding == 0 {
			select {
			case <-r.op.Stopped():
			case <-time.After(tDeadline):
				r.oracle("C03", "stop-did-not-complete", "outstanding=0")
			}
		} else if isClosed(r.op.Stopped()) {
			r.oracle("C03", "stopped-with-queries-in-flight", "outstanding=%d", snap.Outstanding)
		}
	}
	stalled := 0
	if !r.stopping {
		if snap.Outstanding == 0 {
			// nothing in flight and the loop has seen the current state: it must offer the stall
			if r.tryStalled(tDeadline) != 0 {
				stalled = 1
			} else {
				r.oracle("C03", "no-stall-within-deadline", "unqueried=%d", snap.UnqueriedLen)
			}
		} else if r.tryStalled(50*time.Microsecond) != 0 {
			stalled = 1
			r.oracle("C03", "stalled-with-queries-in-flight", "outstanding=%d", snap.Outstanding)
		}
	} else if r.tryStalled(0) != 0 {
		stalled = 1 // closed channel: always ready
	}
	if stalled == 1 && !r.stopping {
		r.stalledSeen = true
		r.checkStallPredicate(snap)
	}
	var ctxs []string
	for _, e := range infl {
		ctxs = append(ctxs, fmt.Sprintf("%s:%d", e.addrKey, b2i(isClosed(e.ctx.Done()))))
	}
	return fmt.Sprintf("s %d %s o %d u %d st %d sp %d c %d %s", len(started), strings.Join(started, " "),
		snap.Outstanding, snap.UnqueriedLen, stalled, b2i(isClosed(r.op.Stopped())), len(ctxs), strings.Join(ctxs, " "))
}

// C03: at a stall, every learned contact passing the node filter has its address queried, except
// (only when the closest set is full) contacts of unknown ID or farther than the farthest member.
func (r *tRun) checkStallPredicate(snap traversal.VerifSnap) {
	queried := map[string]bool{}
	r.mu.Lock()
	for k := range r.perAddr {
		queried[k] = true
	}
	r.mu.Unlock()
	full := len(snap.Closest) >= r.c.effK()
	var far *big.Int
	for _, e := range snap.Closest {
		d := xorDist(unhx(e.Id), r.c.target)
		if far == nil || d.Cmp(far) > 0 {
			far = d
		}
	}
	for _, n := range r.learned {
		if !r.c.nodeFilterOK(n.addrKey(), n.id) || queried[n.addrKey()] {
			continue
		}
		if full && (n.id == nil || xorDist(n.id, r.c.target).Cmp(far) > 0) {
			continue
		}
		r.oracle("C03", "stalled-with-closer-unqueried", "%s full=%v", n.tok(), full)
		return
	}
}

// C02 on the final closest set
func (r *tRun) checkClosest(snap traversal.VerifSnap, final bool) {
	c := r.c
	if len(snap.Closest) > c.effK() {
		r.oracle("C02", "closest-too-large", "len=%d k=%d", len(snap.Closest), c.effK())
	}
	member := map[string]bool{}
	var maxd *big.Int
	for _, e := range snap.Closest {
		member[e.Addr+":"+e.Id] = true
		d := xorDist(unhx(e.Id), c.target)
		if maxd == nil || d.Cmp(maxd) > 0 {
			maxd = d
		}
		found := false
		for _, rp := range r.responders {
			if rp.ni.addrKey() == e.Addr && hx(rp.ni.id) == e.Id {
				found = true
				if rp.data == e.Data {
					break
				}
			}
		}
		if !found {
			r.oracle("C02", "member-not-responder", "%s:%s", e.Addr, e.Id)
		}
		if !c.nodeFilterOK(e.Addr, unhx(e.Id)) || c.badData[e.Data] {
			r.oracle("C02", "member-failed-filter", "%s:%s:%s", e.Addr, e.Id, e.Data)
		}
	}
	// a responder's latest data decides the data filter only for that push; a responder passes if
	// any of its responses passed both filters
	for _, rp := range r.responders {
		if !c.nodeFilterOK(rp.ni.addrKey(), rp.ni.id) || c.badData[rp.data] {
			continue
		}
		if member[rp.ni.addrKey()+":"+hx(rp.ni.id)] {
			continue
		}
		if len(snap.Closest) < c.effK() {
			r.oracle("C02", "closer-responder-missing", "%s closest-not-full", rp.ni.tok())
			continue
		}
		if maxd != nil && xorDist(rp.ni.id, c.target).Cmp(maxd) < 0 {
			r.oracle("C02", "closer-responder-missing", "%s", rp.ni.tok())
		}
	}
	if final && c.honest != nil && r.stalledSeen && !r.stopping {
		// exactly the K closest nodes of the honest network
		ns := append([]tNI(nil), c.honest...)
		sort.Slice(ns, func(i, j int) bool { return xorDist(ns[i].id, c.target).Cmp(xorDist(ns[j].id, c.target)) < 0 })
		if len(ns) > c.effK() {
			ns = ns[:c.effK()]
		}
		want := map[string]bool{}
		for _, n := range ns {
			want[n.addrKey()+":"+hx(n.id)] = true
		}
		okk := len(want) == len(member)
		for k := range want {
			if !member[k] {
				okk = false
			}
		}
		if !okk {
			r.oracle("C02", "not-k-closest-of-honest-network", "got=%d want=%d", len(member), len(want))
		}
	}
}

func tniToks(ns []tNI) string {
	var s []string
	for _, n := range ns {
		s = append(s, n.tok())
	}
	return strings.Join(s, " ")
}

func sortedKeys(m map[string]bool) []string {
	var l []string
	for k := range m {
		l = append(l, k)
	}
	sort.Strings(l)
	return l
}

// runCase executes one case under one schedule (choice indices for the completions); it returns
// the number of options that existed at every completion step.
func runCase(c *tCase, choices []int, caseID string) (options []int) {
	r := &tRun{c: c, caseID: caseID, perAddr: map[string]int{}, oracles: map[string]bool{}}
	r.mem = buildMem(c, caseID)
	defer func() {
		if p := recover(); p != nil {
			r.oracle("C03", "traversal-panic", "%v", p)
			r.flushOracles()
		}
	}()
	in := traversal.OperationInput{
		Target:  krpc.ID(arr20(c.target)),
		Alpha:   c.Alpha,
		K:       c.K,
		DoQuery: r.doQuery,
	}
	if len(c.badAddr)+len(c.badID) > 0 || c.conc != nil {
		in.NodeFilter = func(a types.AddrMaybeId) bool {
			key := fmt.Sprintf("%s:%d", hx(a.Addr.Addr().AsSlice()), a.Addr.Port())
			var id []byte
			if a.Id.Ok {
				b := a.Id.Value.AsByteArray()
				id = b[:]
			}
			if c.conc != nil {
				ids := "-"
				if id != nil {
					ids = hx(id)
				}
				r.slow.point("n:" + key + ":" + ids)
			}
			return c.nodeFilterOK(key, id)
		}
	}
	if len(c.badData) > 0 || c.conc != nil {
		in.DataFilter = func(d any) bool {
			s, _ := d.(string)
			if c.conc != nil {
				r.slow.point("d:" + s)
			}
			return !c.badData[s]
		}
	}
	ba, bi, bd := sortedKeys(c.badAddr), sortedKeys(c.badID), sortedKeys(c.badData)
	r.line("tbegin %s %s %d %d %d %s %d %s %d %s => ok", caseID, hx(c.target), c.K, c.Alpha,
		len(ba), strings.Join(ba, " "), len(bi), strings.Join(bi, " "), len(bd), strings.Join(bd, " "))
	r.op = traversal.Start(in)

	addNodes := func(ns []tNI) {
		var amis []types.AddrMaybeId
		for _, n := range ns {
			amis = append(amis, n.ami())
		}
		r.learned = append(r.learned, ns...)
		r.sched = append(r.sched, fmt.Sprintf("add%d", len(ns)))
		ret := r.op.AddNodes(amis)
		r.line("tadd %s %d %s => %d %s", caseID, len(ns), tniToks(ns), ret, r.observe())
		r.flushOracles()
	}
	stop := func() {
		r.sched = append(r.sched, "stop")
		r.stopping = true
		r.op.Stop()
		r.line("tstop %s => %s", caseID, r.observe())
		r.flushOracles()
	}
	addNodes(c.seeds)

	extras := append([]tExtra(nil), c.extras...)
	sort.SliceStable(extras, func(i, j int) bool { return extras[i].pos < extras[j].pos })
	step := 0
	for guard := 0; guard < 400; guard++ {
		for len(extras) > 0 && extras[0].pos <= step {
			x := extras[0]
			extras = extras[1:]
			if x.kind == "stop" {
				if !r.stopping {
					stop()
				}
			} else {
				addNodes(x.ns)
			}
		}
		infl := r.inflight()
		if len(infl) == 0 {
			if len(extras) > 0 {
				step = extras[0].pos
				continue
			}
			break
		}
		idx := 0
		if step < len(choices) {
			idx = choices[step] % len(infl)
		}
		options = append(options, len(infl))
		if grp := r.pickGroup(infl, idx, step); len(grp) >= 2 {
			r.completeGroup(grp)
			step++
			continue
		}
		e := infl[idx]
		resp := c.net[e.addrKey]
		from := "-"
		if resp.from != nil {
			from = resp.from.tok() + ":" + resp.data
			r.responders = append(r.responders, struct {
				ni   tNI
				data string
			}{*resp.from, resp.data})
		}
		r.learned = append(r.learned, resp.nodes...)
		r.learned = append(r.learned, resp.nodes6...)
		r.sched = append(r.sched, "done:"+e.addrKey)
		r.mu.Lock()
		e.released = true
		r.released++
		r.mu.Unlock()
		e.release <- resp
		r.line("tdone %s %s %s %d %s %d %s => %s", caseID, e.addrKey, from, len(resp.nodes), tniToks(resp.nodes),
			len(resp.nodes6), tniToks(resp.nodes6), r.observe())
		r.flushOracles()
		step++
	}
	snap := r.op.VerifSnapshot()
	var cl []string
	for _, e := range snap.Closest {
		cl = append(cl, fmt.Sprintf("%s:%s:%s", e.Addr, e.Id, e.Data))
	}
	r.line("tend %s => %d %s", caseID, len(cl), strings.Join(cl, " "))
	r.checkClosest(snap, true)
	// cleanup (not part of the compared trace): stop, let every query return
	r.op.Stop()
	for _, e := range r.inflight() {
		r.mu.Lock()
		e.released = true
		r.released++
		r.mu.Unlock()
		e.release <- tResp{}
	}
	select {
	case <-r.op.Stopped():
	case <-time.After(tDeadline):
		r.oracle("C03", "stop-did-not-complete", "cleanup")
	}
	r.waitReturned()
	r.mem.verify(r)
	r.flushOracles()
	return options
}

// ---------------------------------------------------------------- generators

type tGen struct {
	r      *rng
	target []byte
}

func (g *tGen) v4(i int) []byte { return []byte{10, byte(i >> 8), byte(i), 1} }
func (g *tGen) v6(i int) []byte {
	b := make([]byte, 16)
	b[0] = 0x20
	b[1] = 0x01
	b[14] = byte(i >> 8)
	b[15] = byte(i)
	return b
}
func (g *tGen) mapped(i int) []byte {
	return []byte{0, 0, 0, 0, 0, 0, 0, 0, 0, 0, 0xff, 0xff, 10, byte(i >> 8), byte(i), 1}
}

// an id at a chosen XOR distance rank from the target: small ranks are close
func (g *tGen) idNear(rank int) []byte {
	id := append([]byte(nil), g.target...)
	id[18] ^= byte(rank >> 8)
	id[19] ^= byte(rank)
	return id
}

func (g *tGen) randID() []byte {
	if g.r.intn(3) == 0 {
		return g.r.bytes(20)
	}
	return g.idNear(1 + g.r.intn(4000))
}

// distinct nodes with distinct ids and addresses
func (g *tGen) nodes(n int) []tNI {
	var ns []tNI
	used := map[string]bool{}
	for i := 0; len(ns) < n; i++ {
		id := g.randID()
		if used[hx(id)] {
			continue
		}
		used[hx(id)] = true
		var ip []byte
		switch g.r.intn(6) {
		case 0:
			ip = g.v6(i + 1)
		default:
			ip = g.v4(i + 1)
		}
		ns = append(ns, tNI{ip: ip, port: 1000 + g.r.intn(3)*1000 + i, id: id})
	}
	return ns
}

func splitFamilies(ns []tNI) (n4, n6 []tNI) {
	for _, n := range ns {
		if len(n.ip) == 4 {
			n4 = append(n4, n)
		} else {
			n6 = append(n6, n)
		}
	}
	return
}

func kClosest(ns []tNI, target []byte, k int) []tNI {
	l := append([]tNI(nil), ns...)
	sort.SliceStable(l, func(i, j int) bool { return xorDist(l[i].id, target).Cmp(xorDist(l[j].id, target)) < 0 })
	if len(l) > k {
		l = l[:k]
	}
	return l
}

func (g *tGen) pickSeeds(ns []tNI) []tNI {
	m := 1 + g.r.intn(3)
	var s []tNI
	for i := 0; i < m && i < len(ns); i++ {
		n := ns[g.r.intn(len(ns))]
		if g.r.intn(4) == 0 {
			n.id = nil // bootstrap address of unknown id
		}
		s = append(s, n)
	}
	return s
}

func (g *tGen) baseCase(gen string, nNodes int, kMax int) *tCase {
	c := &tCase{gen: gen, target: g.target, net: map[string]tResp{}, badAddr: map[string]bool{}, badID: map[string]bool{}, badData: map[string]bool{}}
	c.K = 1 + g.r.intn(kMax)
	if g.r.intn(12) == 0 {
		c.K = 0
	}
	c.Alpha = 1 + g.r.intn(4)
	if g.r.intn(12) == 0 {
		c.Alpha = 0
	}
	_ = nNodes
	return c
}

// every node answers with the true K closest nodes of the network
func (g *tGen) honest(n int, kMax int) *tCase {
	c := g.baseCase("honest", n, kMax)
	ns := g.nodes(n)
	c.honest = ns
	kc := kClosest(ns, c.target, c.effK())
	n4, n6 := splitFamilies(kc)
	for i, nd := range ns {
		nd := nd
		c.net[nd.addrKey()] = tResp{from: &nd, data: strconv.Itoa(i + 1), nodes: n4, nodes6: n6}
	}
	c.seeds = g.pickSeeds(ns)
	return c
}

// arbitrary graph: random neighbour lists, some nodes silent, some lying about themselves,
// duplicate IDs, references to addresses nobody answers at
func (g *tGen) messy(n int, kMax int, kind string) *tCase {
	c := g.baseCase(kind, n, kMax)
	ns := g.nodes(n)
	if kind == "dupid" {
		for i := range ns {
			if i > 0 && g.r.intn(2) == 0 {
				ns[i].id = ns[g.r.intn(i)].id
			}
		}
	}
	ghost := g.nodes(2)
	for i := range ghost {
		ghost[i].ip = g.v4(200 + i)
	}
	for i, nd := range ns {
		nd := nd
		var resp tResp
		silent := (kind == "silent" || kind == "mixed") && g.r.intn(3) == 0
		if !silent {
			f := nd
			if (kind == "lying" || kind == "mixed") && g.r.intn(3) == 0 {
				switch g.r.intn(3) {
				case 0:
					f.id = g.randID() // answers under another id than advertised
				case 1:
					f.ip, f.port = g.v4(100+i), 7 // answers from another address
				default:
					f = ns[g.r.intn(len(ns))] // impersonates another node
				}
			}
			resp.from = &f
			resp.data = strconv.Itoa(i + 1)
		}
		if !silent || g.r.intn(2) == 0 {
			m := g.r.intn(len(ns) + 1)
			for j := 0; j < m; j++ {
				x := ns[g.r.intn(len(ns))]
				if (kind == "lying" || kind == "mixed") && g.r.intn(4) == 0 {
					x.id = g.randID()
				}
				if g.r.intn(8) == 0 {
					x = ghost[g.r.intn(len(ghost))]
				}
				if len(x.ip) == 4 && g.r.intn(5) != 0 {
					resp.nodes = append(resp.nodes, x)
				} else {
					resp.nodes6 = append(resp.nodes6, x)
				}
			}
			if silent {
				resp.from = nil
			}
		}
		c.net[nd.addrKey()] = resp
	}
	c.seeds = g.pickSeeds(ns)
	if kind == "filtered" || kind == "mixed" {
		for _, nd := range ns {
			if g.r.intn(3) == 0 {
				c.badAddr[nd.addrKey()] = true
			} else if g.r.intn(5) == 0 {
				c.badID[hx(nd.id)] = true
			}
		}
		// keep at least one usable seed most of the time
		if g.r.intn(4) != 0 {
			delete(c.badAddr, c.seeds[0].addrKey())
		}
	}
	if kind == "datafilter" || kind == "mixed" {
		for i := range ns {
			if g.r.intn(3) == 0 {
				c.badData[strconv.Itoa(i+1)] = true
			}
		}
	}
	return c
}

// one victim address listed under m IDs (1..16), repeated across replies and the seed set,
// also in its 16-byte v4-mapped form (a different address as far as the lookup is concerned)
func (g *tGen) dupAddr(n int, m int, kMax int) *tCase {
	c := g.baseCase("dupaddr", n, kMax)
	ns := g.nodes(n)
	victim := tNI{ip: g.v4(999), port: 6881}
	var aliases []tNI
	for i := 0; i < m; i++ {
		v := victim
		v.id = g.idNear(1 + g.r.intn(60))
		if g.r.intn(4) == 0 {
			v.id = g.randID()
		}
		aliases = append(aliases, v)
	}
	vResp := victim
	vResp.id = aliases[0].id
	vr := tResp{from: &vResp, data: "777"}
	if g.r.intn(2) == 0 {
		vr.nodes = append(vr.nodes, aliases...) // the victim lists itself again
	}
	if g.r.intn(3) == 0 {
		vr.from = nil
	}
	c.net[victim.addrKey()] = vr
	for i, nd := range ns {
		nd := nd
		resp := tResp{from: &nd, data: strconv.Itoa(i + 1)}
		if g.r.intn(3) != 0 || i == 0 {
			resp.nodes = append(resp.nodes, aliases[:1+g.r.intn(m)]...)
		}
		for j := 0; j < g.r.intn(3); j++ {
			resp.nodes = append(resp.nodes, ns[g.r.intn(len(ns))])
		}
		if g.r.intn(4) == 0 {
			mp := victim
			mp.ip = []byte{0, 0, 0, 0, 0, 0, 0, 0, 0, 0, 0xff, 0xff, victim.ip[0], victim.ip[1], victim.ip[2], victim.ip[3]}
			mp.id = aliases[0].id
			resp.nodes6 = append(resp.nodes6, mp)
		}
		g.r.shuffle(len(resp.nodes), func(a, b int) { resp.nodes[a], resp.nodes[b] = resp.nodes[b], resp.nodes[a] })
		c.net[nd.addrKey()] = resp
	}
	c.seeds = g.pickSeeds(ns)
	if len(ns) == 0 || g.r.intn(3) == 0 {
		c.seeds = append(c.seeds, aliases[:1+g.r.intn(m)]...)
	}
	if g.r.intn(3) == 0 {
		// re-offer the victim later, after it may have been queried
		c.extras = append(c.extras, tExtra{pos: 1 + g.r.intn(3), kind: "add", ns: aliases})
	}
	return c
}

func (r *rng) shuffle(n int, swap func(i, j int)) {
	for i := n - 1; i > 0; i-- {
		swap(i, r.intn(i+1))
	}
}

// ---------------------------------------------------------------- exploration

type tStats struct {
	cases, runs int
}

// exhaustive enumeration of the completion orders of a case (stateless DFS over choice indices),
// at most maxRuns schedules
func exploreAll(c *tCase, base string, maxRuns int, st *tStats) {
	var choices []int
	for run := 0; run < maxRuns; run++ {
		id := fmt.Sprintf("%s/o%d", base, run)
		opts := runCase(c, choices, id)
		st.runs++
		// next schedule: increment the last position that has an untried option
		full := make([]int, len(opts))
		copy(full, choices)
		for i := range full {
			if opts[i] > 0 {
				full[i] %= opts[i]
			}
		}
		i := len(opts) - 1
		for ; i >= 0; i-- {
			if full[i]+1 < opts[i] {
				break
			}
		}
		if i < 0 {
			return
		}
		choices = append(full[:i:i], full[i]+1)
	}
}

func randomSchedule(r *rng, n int) []int {
	s := make([]int, n)
	for i := range s {
		s[i] = r.intn(64)
	}
	return s
}

func withExtras(c *tCase, extras []tExtra) *tCase {
	d := *c
	d.extras = append(append([]tExtra(nil), c.extras...), extras...)
	return &d
}

func allNodesOf(c *tCase) []tNI {
	var ns []tNI
	seen := map[string]bool{}
	var keys []string
	for k := range c.net {
		keys = append(keys, k)
	}
	sort.Strings(keys)
	for _, k := range keys {
		rp := c.net[k]
		for _, l := range [][]tNI{rp.nodes, rp.nodes6} {
			for _, n := range l {
				if !seen[n.tok()] {
					seen[n.tok()] = true
					ns = append(ns, n)
				}
			}
		}
		if rp.from != nil && !seen[rp.from.tok()] {
			seen[rp.from.tok()] = true
			ns = append(ns, *rp.from)
		}
	}
	return ns
}

func traversalEngine(seed uint64, tier string, args []string) {
	r := &rng{s: seed ^ 0x7261766572736c}
	thorough := tier == "thorough"
	st := &tStats{}
	only := ""
	if len(args) > 0 {
		only = args[0] // replay a single case family: prefix of the case id
	}
	want := func(id string) bool { return only == "" || strings.HasPrefix(id, only) }
	kinds := []string{"honest", "silent", "lying", "dupid", "filtered", "datafilter", "mixed", "dupaddr", "edgeid", "filtresp", "tree"}
	mk := func(g *tGen, kind string, n int, kMax int) *tCase {
		switch kind {
		case "honest":
			return g.honest(n, kMax)
		case "dupaddr":
			return g.dupAddr(n-1, 1+g.r.intn(16), kMax)
		case "edgeid":
			return g.edge(n, kMax)
		case "filtresp":
			return g.filtResp(n, kMax)
		case "tree":
			return g.tree(n, kMax)
		default:
			return g.messy(n, kMax, kind)
		}
	}

	// (1) small graphs, every completion order
	reps, maxRuns := 3, 40
	if thorough {
		reps, maxRuns = 12, 400
	}
	for n := 1; n <= 5; n++ {
		for _, kind := range kinds {
			for rep := 0; rep < reps; rep++ {
				id := fmt.Sprintf("x-%s-n%d-%d", kind, n, rep)
				sub := r.sub(n*1000 + rep*10 + len(kind))
				if !want(id) {
					continue
				}
				g := &tGen{r: sub, target: sub.bytes(20)}
				c := mk(g, kind, n, 4)
				if c.Alpha > 3 {
					c.Alpha = 3
				}
				st.cases++
				exploreAll(c, id, maxRuns, st)
			}
		}
	}
	// (2) Stop and a late AddNodes at every position of small schedules
	reps = 1
	if thorough {
		reps = 6
	}
	for _, kind := range kinds {
		for rep := 0; rep < reps; rep++ {
			sub := r.sub(77000 + rep*10 + len(kind))
			g := &tGen{r: sub, target: sub.bytes(20)}
			n := 3 + sub.intn(3)
			c := mk(g, kind, n, 4)
			late := allNodesOf(c)
			maxPos := 5
			if thorough {
				maxPos = 8
			}
			for pos := 0; pos <= maxPos; pos++ {
				for _, what := range []string{"stop", "add", "addstop"} {
					id := fmt.Sprintf("p-%s-%d-%s%d", kind, rep, what, pos)
					if !want(id) {
						continue
					}
					var ex []tExtra
					switch what {
					case "stop":
						ex = []tExtra{{pos: pos, kind: "stop"}}
					case "add":
						ex = []tExtra{{pos: pos, kind: "add", ns: late}}
					default:
						ex = []tExtra{{pos: pos, kind: "add", ns: late}, {pos: pos + 1, kind: "stop"}, {pos: pos + 2, kind: "add", ns: late}}
					}
					st.cases++
					nsched := 2
					if thorough {
						nsched = 6
					}
					for s := 0; s < nsched; s++ {
						runCase(withExtras(c, ex), randomSchedule(sub.sub(pos*100+s), 40), fmt.Sprintf("%s/r%d", id, s))
						st.runs++
					}
				}
			}
		}
	}
	// (3) larger graphs, seeded random schedules
	nCases, maxN, kMax, nsched := 10, 14, 8, 3
	if thorough {
		nCases, maxN, kMax, nsched = 60, 40, 16, 8
	}
	for _, kind := range kinds {
		for i := 0; i < nCases; i++ {
			id := fmt.Sprintf("r-%s-%d", kind, i)
			if !want(id) {
				continue
			}
			sub := r.sub(500000 + i*16 + len(kind))
			g := &tGen{r: sub, target: sub.bytes(20)}
			n := 2 + sub.intn(maxN-1)
			c := mk(g, kind, n, kMax)
			if sub.intn(3) == 0 {
				late := allNodesOf(c)
				if len(late) > 0 {
					sub.shuffle(len(late), func(a, b int) { late[a], late[b] = late[b], late[a] })
					c.extras = append(c.extras, tExtra{pos: sub.intn(n + 2), kind: "add", ns: late[:1+sub.intn(len(late))]})
				}
			}
			if sub.intn(5) == 0 {
				c.extras = append(c.extras, tExtra{pos: sub.intn(n + 2), kind: "stop"})
			}
			st.cases++
			for s := 0; s < nsched; s++ {
				runCase(c, randomSchedule(sub.sub(9000+s), 200), fmt.Sprintf("%s/r%d", id, s))
				st.runs++
			}
		}
	}
	// (4) overlapping completions: groups of in-flight queries released together while the filter
	// callbacks are slow (traversal_conc.go); seeded random schedules, and every order for small graphs
	nCases, maxN, kMax, nsched = 5, 10, 8, 3
	if thorough {
		nCases, maxN, kMax, nsched = 40, 30, 16, 8
	}
	for ki, kind := range kinds {
		for i := 0; i < nCases; i++ {
			id := fmt.Sprintf("c-%s-%d", kind, i)
			if !want(id) {
				continue
			}
			sub := r.sub(900000 + i*16 + ki)
			g := &tGen{r: sub, target: sub.bytes(20)}
			n := 3 + sub.intn(maxN-2)
			c := makeConc(mk(g, kind, n, kMax), sub, i+ki)
			if len(c.seeds) < 2 && kind != "dupaddr" && len(c.honest) >= 2 {
				c.seeds = append(c.seeds, c.honest[sub.intn(len(c.honest))])
			}
			if sub.intn(4) == 0 {
				late := allNodesOf(c)
				if len(late) > 0 {
					c.extras = append(c.extras, tExtra{pos: sub.intn(4), kind: "add", ns: late[:1+sub.intn(len(late))]})
				}
			}
			if sub.intn(8) == 0 {
				c.extras = append(c.extras, tExtra{pos: 1 + sub.intn(n), kind: "stop"})
			}
			st.cases++
			for s := 0; s < nsched; s++ {
				runCase(c, randomSchedule(sub.sub(9000+s), 200), fmt.Sprintf("%s/r%d", id, s))
				st.runs++
			}
		}
	}
	reps, maxRuns = 1, 12
	if thorough {
		reps, maxRuns = 6, 200
	}
	for n := 2; n <= 4; n++ {
		for ki, kind := range kinds {
			for rep := 0; rep < reps; rep++ {
				id := fmt.Sprintf("cx-%s-n%d-%d", kind, n, rep)
				if !want(id) {
					continue
				}
				sub := r.sub(950000 + n*1000 + rep*16 + ki)
				g := &tGen{r: sub, target: sub.bytes(20)}
				c := makeConc(mk(g, kind, n, 4), sub, n+rep+ki)
				c.conc.wait = 300 * time.Microsecond
				st.cases++
				exploreAll(c, id, maxRuns, st)
			}
		}
	}
	emit("%s", tMemReport())
	emit("# traversal-conc groups=%d completions=%d armed-callbacks=%d concurrent-callbacks=%d",
		tConcStats.groups, tConcStats.released, tConcStats.armedCalls, tConcStats.met)
	fmt.Fprintf(os.Stderr, "traversal: %d cases, %d runs, %d overlapping groups\n", st.cases, st.runs, tConcStats.groups)
}
