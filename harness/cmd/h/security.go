package main

// Engine "security": BEP 42 node-ID security (C17) plus the two hash primitives the models of
// other properties rely on (SHA-1, CRC-32C).
//
// Lines (model recomputes everything after " => "):
//   sha1 <hex> => <hex>                         crypto/sha1
//   crc32c <hex> => <dec>                       hash/crc32 Castagnoli
//   hashtuple n <hex>... => <hex>               dht.HashTuple
//   maskfor <ip> => <hex>                       maskForIP            (hook)
//   islocal <ip> => 0|1                         isLocalNetwork       (hook)
//   crcip <ip> <rand> => <dec>|panic            crcIP                (hook)
//   secure <id> <ip> => <id>|panic              dht.SecureNodeId
//   issecure <id> <ip> => 0|1|panic             dht.NodeIdSecure
//   secx8 <id> <ip> => 8 x <3 bytes>            SecureNodeId for the 8 seeds id[19]&7 = 0..7
//   detid <addr.String() hex> <ip> => <id>|panic   dht.MakeDeterministicNodeID
//   initid <nodeid> <hasconn> <network> <addr> <pubip|nil> <nosec> => <id> <det>|panic
//                                               ServerConfig.InitNodeId (relational when random)
//   serverid <same args> => <id>|panic          dht.NewServer(cfg).ID()
//
// Oracle lines are computed from the implementation and an independent word-level
// re-implementation of the BEP 42 rule (secRefSecure below, hash/crc32), never from the model.

import (
	"crypto/sha1"
	"encoding/binary"
	"encoding/hex"
	"fmt"
	"hash/crc32"
	"net"
	"strings"
	"sync"
	"time"

	dht "github.com/anacrolix/dht/v2"
	"github.com/anacrolix/dht/v2/krpc"
)

func init() { engines["security"] = securityEngine }

// ---------------------------------------------------------------- contained calls

func secTrySecure(id [20]byte, ip net.IP) (out [20]byte, panicked bool) {
	defer func() {
		if recover() != nil {
			panicked = true
		}
	}()
	k := krpc.ID(id)
	dht.SecureNodeId(&k, ip)
	return [20]byte(k), false
}

func secTryIsSecure(id [20]byte, ip net.IP) (ok, panicked bool) {
	defer func() {
		if recover() != nil {
			panicked = true
		}
	}()
	return dht.NodeIdSecure(id, ip), false
}

func secTryCrcIP(ip net.IP, rand uint8) (c uint32, panicked bool) {
	defer func() {
		if recover() != nil {
			panicked = true
		}
	}()
	return dht.VerifCrcIP(ip, rand), false
}

func secCp(b []byte) []byte { return append([]byte(nil), b...) }

// ---------------------------------------------------------------- independent BEP 42 rule

var secCastagnoli = crc32.MakeTable(crc32.Castagnoli)

type secIPWord struct {
	is4, is6 bool
	v4       uint32
	hi, lo   uint64
}

func secRefFamily(ip []byte) (w secIPWord) {
	switch len(ip) {
	case 4:
		w.is4, w.v4 = true, binary.BigEndian.Uint32(ip)
	case 16:
		w.hi, w.lo = binary.BigEndian.Uint64(ip[:8]), binary.BigEndian.Uint64(ip[8:])
		if w.hi == 0 && w.lo>>32 == 0xffff {
			w.is4, w.v4 = true, uint32(w.lo)
		} else {
			w.is6 = true
		}
	}
	return
}

// 10/8, 172.16/12, 192.168/16, 169.254/16, 127/8; fe80::/10, ::1
func secRefLocal(w secIPWord) bool {
	if w.is4 {
		v := w.v4
		return v>>24 == 10 || v>>20 == 0xac1 || v>>16 == 0xc0a8 || v>>16 == 0xa9fe || v>>24 == 127
	}
	if w.is6 {
		return w.hi>>54 == 0x3fa || (w.hi == 0 && w.lo == 1)
	}
	return false
}

func secTop21(id [20]byte) uint32 { return uint32(id[0])<<13 | uint32(id[1])<<5 | uint32(id[2])>>3 }

func secRefCrc(w secIPWord, r uint8) uint32 {
	if w.is4 {
		var b [4]byte
		binary.BigEndian.PutUint32(b[:], w.v4&0x030f3fff|uint32(r&7)<<29)
		return crc32.Checksum(b[:], secCastagnoli)
	}
	var b [8]byte
	binary.BigEndian.PutUint64(b[:], w.hi&0x0103070f1f3f7fff|uint64(r&7)<<61)
	return crc32.Checksum(b[:], secCastagnoli)
}

// (verdict, defined): defined only for 4- and 16-byte addresses
func secRefSecure(id [20]byte, ip []byte) (bool, bool) {
	w := secRefFamily(ip)
	if !w.is4 && !w.is6 {
		return false, false
	}
	if secRefLocal(w) {
		return true, true
	}
	return secTop21(id) == secRefCrc(w, id[19])>>11, true
}

// ---------------------------------------------------------------- oracles

var secOracleCount = map[string]int{}

func secOracle(kind string, key string, format string, a ...interface{}) {
	secOracleCount[kind]++
	if secOracleCount[kind] > 12 {
		return
	}
	emit("oracle C17 %s:%s %s", kind, key, fmt.Sprintf(format, a...))
}

// all direct checks for one (id, ip) with a valid address length; returns the secured id
func secCheck(id [20]byte, ip []byte, r *rng) (sec [20]byte, panicked bool) {
	valid := len(ip) == 4 || len(ip) == 16
	key := fmt.Sprintf("ip=%s:id=%s", hx(ip), hx(id[:]))
	sec, panicked = secTrySecure(id, secCp(ip))
	if !valid {
		return
	}
	if panicked {
		secOracle("panic-secure", key, "SecureNodeId panicked on a %d-byte address", len(ip))
		return
	}
	// only the first 21 bits may change
	if string(sec[3:]) != string(id[3:]) || sec[2]&7 != id[2]&7 {
		secOracle("secure-outside-21", key, "secured=%s", hx(sec[:]))
	}
	// idempotent
	if again, p := secTrySecure(sec, secCp(ip)); p || again != sec {
		secOracle("not-idempotent", key, "once=%s twice=%s panic=%v", hx(sec[:]), hx(again[:]), p)
	}
	// the secured id verifies
	if ok, p := secTryIsSecure(sec, secCp(ip)); p || !ok {
		secOracle("secured-not-verified", key, "secured=%s panic=%v", hx(sec[:]), p)
	}
	// verification = the BEP 42 rule, on the secured id, the original id and a near miss
	for _, x := range [][20]byte{sec, id, secFlipBit(sec, 20), secFlipBit(sec, 21), secFlipBit(sec, r.intn(21))} {
		got, p := secTryIsSecure(x, secCp(ip))
		want, _ := secRefSecure(x, ip)
		if p {
			secOracle("panic-verify", fmt.Sprintf("ip=%s:id=%s", hx(ip), hx(x[:])), "NodeIdSecure panicked")
		} else if got != want {
			secOracle("verify-disagrees-bep42", fmt.Sprintf("ip=%s:id=%s", hx(ip), hx(x[:])), "NodeIdSecure=%v rule=%v", got, want)
		}
	}
	// local addresses accept every id
	if secRefLocal(secRefFamily(ip)) {
		if ok, p := secTryIsSecure(id, secCp(ip)); p || !ok {
			secOracle("local-rejected", key, "NodeIdSecure=%v panic=%v", ok, p)
		}
	}
	return
}

func secFlipBit(id [20]byte, i int) [20]byte {
	id[i/8] ^= 1 << (7 - uint(i%8))
	return id
}

// ---------------------------------------------------------------- line printers

func secTok(p bool, s string) string {
	if p {
		return "panic"
	}
	return s
}

func secLineSecure(id [20]byte, ip []byte, r *rng) [20]byte {
	sec, p := secCheck(id, ip, r)
	emit("secure %s %s => %s", hx(id[:]), hx(ip), secTok(p, hx(sec[:])))
	return sec
}

func secLineIsSecure(id [20]byte, ip []byte) {
	ok, p := secTryIsSecure(id, secCp(ip))
	emit("issecure %s %s => %s", hx(id[:]), hx(ip), secTok(p, fmt.Sprint(b2i(ok))))
	if want, def := secRefSecure(id, ip); def && !p && want != ok {
		secOracle("verify-disagrees-bep42", fmt.Sprintf("ip=%s:id=%s", hx(ip), hx(id[:])), "NodeIdSecure=%v rule=%v", ok, want)
	}
}

func secLineIPFacts(ip []byte, r *rng) {
	emit("maskfor %s => %s", hx(ip), hx(dht.VerifMaskForIP(secCp(ip))))
	loc := dht.VerifIsLocalNetwork(secCp(ip))
	emit("islocal %s => %d", hx(ip), b2i(loc))
	if w := secRefFamily(ip); (w.is4 || w.is6) && secRefLocal(w) != loc {
		secOracle("local-disagrees-ranges", "ip="+hx(ip), "isLocalNetwork=%v ranges=%v", loc, secRefLocal(w))
	}
	for _, rd := range []uint8{0, 7, 8, 0xff, uint8(r.next())} {
		c, p := secTryCrcIP(secCp(ip), rd)
		emit("crcip %s %d => %s", hx(ip), rd, secTok(p, fmt.Sprint(c)))
		if w := secRefFamily(ip); (w.is4 || w.is6) && (p || c != secRefCrc(w, rd)) {
			secOracle("crc-disagrees-bep42", fmt.Sprintf("ip=%s:rand=%d", hx(ip), rd), "crcIP=%d panic=%v rule=%d", c, p, secRefCrc(w, rd))
		}
	}
}

// secx8: the 8 seeds of one address
func secLineX8(id [20]byte, ip []byte, r *rng) {
	var sb strings.Builder
	for i := 0; i < 8; i++ {
		x := id
		x[19] = x[19]&^7 | byte(i)
		sec, p := secCheck(x, ip, r)
		if i > 0 {
			sb.WriteByte(' ')
		}
		sb.WriteString(secTok(p, hex.EncodeToString(sec[:3])))
	}
	emit("secx8 %s %s => %s", hx(id[:]), hx(ip), sb.String())
}

// ---------------------------------------------------------------- generators

func secMapped(ip4 []byte) []byte {
	return append([]byte{0, 0, 0, 0, 0, 0, 0, 0, 0, 0, 0xff, 0xff}, ip4...)
}

func secIP6(s string) []byte { return []byte(net.ParseIP(s).To16()) }

func secBoundaryIPs() [][]byte {
	var l [][]byte
	for _, s := range []string{
		"9.255.255.255", "10.0.0.0", "10.255.255.255", "11.0.0.0",
		"172.15.255.255", "172.16.0.0", "172.31.255.255", "172.32.0.0", "172.0.0.1", "173.16.0.1",
		"192.167.255.255", "192.168.0.0", "192.168.255.255", "192.169.0.0", "193.168.0.1",
		"169.253.255.255", "169.254.0.0", "169.254.1.1", "169.254.255.255", "169.255.0.0", "168.254.0.1",
		"126.255.255.255", "127.0.0.0", "127.0.0.1", "127.255.255.255", "128.0.0.0",
		"0.0.0.0", "255.255.255.255", "1.2.3.4", "3.15.63.255", "252.240.192.0",
		"124.31.75.21", "21.75.31.124", "65.23.51.170", "84.124.73.14", "43.213.53.83",
	} {
		p := net.ParseIP(s).To4()
		l = append(l, []byte(p), secMapped(p))
	}
	for _, s := range []string{
		"::", "::1", "::2", "1::1", "::1:0", "8000::1",
		"fe80::", "fe80::1", "febf:ffff:ffff:ffff:ffff:ffff:ffff:ffff", "fec0::", "fe7f:ffff::1", "fe00::1", "ff02::1", "7e80::1",
		"2001:db8::1", "2001:db8:85a3::8a2e:370:7334", "64:ff9b::a00:1", "fc00::1", "fd12:3456::1",
		"a00::1", "ac10::1", "c0a8::1", "7f00::1", "a9fe::1",
		"ffff:ffff:ffff:ffff:ffff:ffff:ffff:ffff", "103:70f:1f3f:7fff::", "fefc:f8f0:e0c0:8000::",
	} {
		l = append(l, secIP6(s))
	}
	// near misses of the v4-secMapped prefix (To4 must be strict)
	base := secMapped([]byte{10, 0, 0, 1})
	for _, m := range []struct {
		i int
		v byte
	}{{0, 1}, {5, 1}, {9, 1}, {9, 0x80}, {10, 0xfe}, {10, 0}, {11, 0xfe}, {11, 0x7f}} {
		x := secCp(base)
		x[m.i] = m.v
		l = append(l, x)
	}
	for _, tail := range [][]byte{{127, 0, 0, 1}, {169, 254, 9, 9}, {172, 20, 1, 1}, {192, 168, 1, 1}, {8, 8, 8, 8}, {0, 0, 0, 0}} {
		l = append(l, secMapped(tail))
		x := secMapped(tail)
		x[10] = 0 // ::0:a.b.c.d is IPv6 (deprecated v4-compatible), not v4-secMapped
		x[11] = 0
		l = append(l, x)
	}
	return l
}

func secOddIPs(r *rng) [][]byte {
	l := [][]byte{nil, {}}
	for _, n := range []int{1, 2, 3, 5, 6, 7, 8, 9, 12, 15, 17, 20, 32} {
		l = append(l, r.bytes(n))
		z := make([]byte, n)
		l = append(l, z)
	}
	l = append(l, []byte{10, 0, 0}, []byte{10, 0, 0, 0, 0}, []byte{127, 0, 0, 1, 0, 0, 0, 0}, []byte{0xfe, 0x80, 0, 0, 0, 0, 0, 0})
	return l
}

func secRandID(r *rng) [20]byte { return arr20(r.bytes(20)) }

// ---------------------------------------------------------------- sections

func secHashes(r *rng, thorough bool) {
	maxLen := 200
	if thorough {
		maxLen = 1100
	}
	msgs := [][]byte{}
	for n := 0; n <= maxLen; n++ {
		msgs = append(msgs, r.bytes(n))
	}
	for _, n := range []int{55, 56, 63, 64, 65, 119, 120, 127, 128} {
		msgs = append(msgs, make([]byte, n), secBytesOf(0xff, n), secBytesOf(0x80, n))
	}
	msgs = append(msgs, []byte("abc"), []byte("123456789"), []byte("abcdbcdecdefdefgefghfghighijhijkijkljklmklmnlmnomnopnopq"))
	if thorough {
		for _, n := range []int{4096, 65535, 65536} {
			msgs = append(msgs, r.bytes(n))
		}
	}
	for _, m := range msgs {
		d := sha1.Sum(m)
		emit("sha1 %s => %s", hx(m), hx(d[:]))
		emit("crc32c %s => %d", hx(m), crc32.Checksum(m, secCastagnoli))
	}
	// HashTuple
	nt := 60
	if thorough {
		nt = 600
	}
	for i := 0; i < nt; i++ {
		n := r.intn(5)
		var bs [][]byte
		var toks []string
		for j := 0; j < n; j++ {
			b := r.bytes(r.intn(70) * r.intn(2))
			if r.intn(8) == 0 {
				b = r.bytes(44 + r.intn(3))
			}
			bs = append(bs, b)
			toks = append(toks, hx(b))
		}
		d := dht.HashTuple(bs...)
		emit("hashtuple %d %s => %s", n, strings.Join(toks, " "), hx(d[:]))
	}
}

func secBytesOf(v byte, n int) []byte {
	b := make([]byte, n)
	for i := range b {
		b[i] = v
	}
	return b
}

func secVectors(r *rng) {
	for _, c := range []struct {
		ip, id string
		valid  bool
	}{
		{"124.31.75.21", "5fbfbff10c5d6a4ec8a88e4c6ab4c28b95eee401", true},
		{"21.75.31.124", "5a3ce9c14e7a08645677bbd1cfe7d8f956d53256", true},
		{"65.23.51.170", "a5d43220bc8f112a3d426c84764f8c2a1150e616", true},
		{"84.124.73.14", "1b0321dd1bb1fe518101ceef99462b947a01ff41", true},
		{"43.213.53.83", "e56f6cbf5b7c4be0237986d5243b87aa6d51305a", true},
		{"124.31.75.21", "5fbfbff10c5d7a4ec8a88e4c6ab4c28b95eee401", true},
		{"21.75.31.124", "5a3ce1c14e7a08645677bbd1cfe7d8f956d53256", false},
		{"65.23.51.170", "a5d43620bc8f112a3d426c84764f8c2a1150e616", true},
		{"84.124.73.14", "1b0321dd1bb1fe518101ceef99462b947a01fe01", true},
		{"43.213.53.83", "e56f6cbf5b7c4be0237986d5243b87aa6d51303e", false},
		{"10.213.53.83", "e56f6cbf5b7c4be0237986d5243b87aa6d51305a", true},
		{"12.213.53.83", "e56f6cbf5b7c4be0237986d5243b87aa6d51305a", false},
		{"192.168.53.83", "e56f6cbf5b7c4be0237986d5243b87aa6d51305a", true},
	} {
		id := arr20(unhx(c.id))
		for _, ip := range [][]byte{net.ParseIP(c.ip).To4(), net.ParseIP(c.ip)} {
			secLineIsSecure(id, ip)
			if ok, _ := secTryIsSecure(id, secCp(ip)); ok != c.valid {
				secOracle("spec-vector", fmt.Sprintf("ip=%s:id=%s", hx(ip), c.id), "NodeIdSecure=%v table=%v", ok, c.valid)
			}
			var z [20]byte
			z[19] = id[19]
			secLineSecure(z, ip, r)
			secLineSecure(id, ip, r)
		}
	}
}

// the 2^20 address bits kept by mask 03.0f.3f.ff: all of them (thorough) or 2^14 samples
func secSweepV4(r *rng, thorough bool) {
	n := 1 << 14
	if thorough {
		n = 1 << 20
	}
	for i := 0; i < n; i++ {
		v := uint32(i)
		if !thorough {
			v = uint32(i)<<6 | uint32(r.intn(64)) // stratified sample
		}
		junk := uint32(r.next())
		ip := []byte{
			byte(v>>18)&0x03 | byte(junk)&0xfc,
			byte(v>>14)&0x0f | byte(junk>>8)&0xf0,
			byte(v>>8)&0x3f | byte(junk>>16)&0xc0,
			byte(v),
		}
		if i%8 == 5 {
			ip = secMapped(ip)
		}
		secLineX8(secRandID(r), ip, r)
	}
}

func secCases(r *rng, thorough bool) {
	ips := secBoundaryIPs()
	nrand := 300
	if thorough {
		nrand = 6000
	}
	for i := 0; i < nrand; i++ {
		switch i % 3 {
		case 0:
			ips = append(ips, r.bytes(16))
		case 1:
			ips = append(ips, r.bytes(4))
		case 2:
			// IPv6 with structured prefix bytes (few bits set) so that mask bits matter
			x := r.bytes(16)
			for j := 0; j < 8; j++ {
				if r.intn(2) == 0 {
					x[j] = 1 << uint(r.intn(8))
				}
			}
			ips = append(ips, x)
		}
	}
	ips = append(ips, secOddIPs(r)...)
	for n, ip := range ips {
		secLineIPFacts(ip, r)
		id := secRandID(r)
		sec := secLineSecure(id, ip, r)
		secLineIsSecure(id, ip)
		secLineIsSecure(sec, ip)
		secLineX8(id, ip, r)
		flips := []int{0, 19, 20, 21, 23, 24, 156, 157, 159}
		if thorough && n < 700 { // every single-bit change of the secured id, for the first addresses
			flips = nil
			for b := 0; b < 160; b++ {
				flips = append(flips, b)
			}
		}
		for _, b := range flips {
			secLineIsSecure(secFlipBit(sec, b), ip)
		}
	}
}

type secAddr struct{ nw, s string }

func (a secAddr) Network() string { return a.nw }
func (a secAddr) String() string  { return a.s }

func secTryDetID(a net.Addr) (id [20]byte, panicked bool) {
	defer func() {
		if recover() != nil {
			panicked = true
		}
	}()
	return [20]byte(dht.MakeDeterministicNodeID(a)), false
}

func secDetID(r *rng, thorough bool) {
	n := 60
	if thorough {
		n = 1500
	}
	for i := 0; i < n; i++ {
		var ip []byte
		switch r.intn(6) {
		case 0:
			ip = r.bytes(4)
		case 1:
			ip = secMapped(r.bytes(4))
		case 2:
			ip = r.bytes(16)
		case 3:
			b := secBoundaryIPs()
			ip = b[r.intn(len(b))]
		case 4:
			ip = nil
		case 5:
			ip = r.bytes(r.intn(20))
		}
		port := r.intn(65536)
		var a net.Addr
		switch r.intn(4) {
		case 0, 1:
			ua := &net.UDPAddr{IP: secCp(ip), Port: port}
			if len(ip) == 16 && r.intn(4) == 0 {
				ua.Zone = "eth0"
			}
			a = ua
		case 2:
			a = &net.TCPAddr{IP: secCp(ip), Port: port}
		case 3:
			// any other net.Addr: the ip is parsed back from its string (always 16 bytes, or nil)
			s := (&net.UDPAddr{IP: secCp(ip), Port: port}).String()
			a = secAddr{"udp", s}
			host, _, err := net.SplitHostPort(s)
			if err != nil {
				continue
			}
			ip = net.ParseIP(host)
		}
		id, p := secTryDetID(a)
		emit("detid %s %s => %s", hx([]byte(a.String())), hx(ip), secTok(p, hx(id[:])))
		if len(ip) == 4 || len(ip) == 16 {
			if ok, p2 := secTryIsSecure(id, secCp(ip)); p || p2 || !ok {
				secOracle("detid-not-verified", fmt.Sprintf("addr=%s", hx([]byte(a.String()))), "id=%s ip=%s panic=%v", hx(id[:]), hx(ip), p || p2)
			}
		}
	}
}

// a PacketConn that never delivers anything; LocalAddr is what the test says
type secConn struct {
	addr   net.Addr
	closed chan struct{}
	once   sync.Once
}

func newSecConn(a net.Addr) *secConn { return &secConn{addr: a, closed: make(chan struct{})} }
func (c *secConn) ReadFrom(p []byte) (int, net.Addr, error) {
	<-c.closed
	return 0, nil, net.ErrClosed
}
func (c *secConn) WriteTo(p []byte, a net.Addr) (int, error) { return len(p), nil }
func (c *secConn) Close() error                              { c.once.Do(func() { close(c.closed) }); return nil }
func (c *secConn) LocalAddr() net.Addr                       { return c.addr }
func (c *secConn) SetDeadline(time.Time) error               { return nil }
func (c *secConn) SetReadDeadline(time.Time) error           { return nil }
func (c *secConn) SetWriteDeadline(time.Time) error          { return nil }

func secTryInit(c *dht.ServerConfig) (det, panicked bool) {
	defer func() {
		if recover() != nil {
			panicked = true
		}
	}()
	return c.InitNodeId(), false
}

func secTryNewServer(c *dht.ServerConfig) (id [20]byte, panicked bool, err error) {
	defer func() {
		if recover() != nil {
			panicked = true
		}
	}()
	s, err := dht.NewServer(c)
	if err != nil {
		return
	}
	id = s.ID()
	s.Close()
	return
}

func secPubTok(ip net.IP) string {
	if ip == nil {
		return "nil"
	}
	return hx(ip)
}

func secInit(r *rng, thorough bool) {
	n := 150
	if thorough {
		n = 3000
	}
	networks := []string{"udp", "udp4", "udp6", "", "x"}
	bnd := secBoundaryIPs()
	for i := 0; i < n; i++ {
		var nodeID [20]byte
		if r.intn(5) == 0 {
			nodeID = secRandID(r)
		}
		var pub net.IP
		switch r.intn(9) {
		case 0:
			pub = nil
		case 1, 2:
			pub = r.bytes(4)
		case 3:
			pub = secMapped(r.bytes(4))
		case 4, 5:
			pub = r.bytes(16)
		case 6:
			pub = secCp(bnd[r.intn(len(bnd))])
		case 7:
			pub = net.IP{}
		case 8:
			pub = r.bytes(1 + r.intn(19))
		}
		nosec := r.bool()
		hasConn := r.intn(3) != 0
		nw := networks[r.intn(len(networks))]
		var addr string
		switch r.intn(4) {
		case 0:
			addr = fmt.Sprintf("0.0.0.0:%d", r.intn(65536))
		case 1:
			addr = fmt.Sprintf("[::]:%d", r.intn(65536))
		case 2:
			addr = (&net.UDPAddr{IP: r.bytes(4), Port: r.intn(65536)}).String()
		case 3:
			addr = string(r.bytes(r.intn(40)))
		}
		mk := func(withConn bool) (*dht.ServerConfig, *secConn) {
			c := &dht.ServerConfig{NodeId: krpc.ID(nodeID), PublicIP: secCpIP(pub), NoSecurity: nosec}
			var fc *secConn
			if withConn {
				fc = newSecConn(secAddr{nw, addr})
				c.Conn = fc
			}
			return c, fc
		}
		args := func(id [20]byte, withConn bool) string {
			if withConn {
				return fmt.Sprintf("%s 1 %s %s %s %d", hx(id[:]), hx([]byte(nw)), hx([]byte(addr)), secPubTok(pub), b2i(nosec))
			}
			return fmt.Sprintf("%s 0 - - %s %d", hx(id[:]), secPubTok(pub), b2i(nosec))
		}
		validPub := len(pub) == 4 || len(pub) == 16

		// direct InitNodeId, then a second call on the now initialised config (must keep the id)
		c, _ := mk(hasConn)
		det, p := secTryInit(c)
		got := [20]byte(c.NodeId)
		if p {
			emit("initid %s => panic", args(nodeID, hasConn))
		} else {
			emit("initid %s => %s %d", args(nodeID, hasConn), hx(got[:]), b2i(det))
			det2, p2 := secTryInit(c)
			got2 := [20]byte(c.NodeId)
			emit("initid %s => %s", args(got, hasConn), secTok(p2, fmt.Sprintf("%s %d", hx(got2[:]), b2i(det2))))
		}
		// the id a node generates for itself when it has a Conn (as under NewServer) and a public ip
		if nodeID == ([20]byte{}) && validPub && hasConn {
			if ok, p2 := secTryIsSecure(got, secCp(pub)); p || p2 || !ok {
				secOracle("self-id-not-verified", fmt.Sprintf("InitNodeId:pubip=%s:nosec=%d", hx(pub), b2i(nosec)), "id=%s network=%q addr=%q panic=%v", hx(got[:]), nw, addr, p || p2)
			}
		}
		if nodeID == ([20]byte{}) && validPub && !hasConn && !nosec {
			if ok, p2 := secTryIsSecure(got, secCp(pub)); p || p2 || !ok {
				secOracle("self-id-not-verified", fmt.Sprintf("InitNodeId-noconn:pubip=%s", hx(pub)), "id=%s panic=%v", hx(got[:]), p || p2)
			}
		}

		// NewServer: always with a Conn (NewServer would otherwise open a real socket)
		if i%3 == 0 {
			c2, fc := mk(true)
			sid, p3, err := secTryNewServer(c2)
			fc.Close()
			if err != nil {
				secOracle("newserver-error", args(nodeID, true), "%v", err)
				continue
			}
			emit("serverid %s => %s", args(nodeID, true), secTok(p3, hx(sid[:])))
			if !p3 && sid != [20]byte(c2.NodeId) {
				secOracle("server-id-differs-from-config", args(nodeID, true), "Server.ID()=%s config.NodeId=%s", hx(sid[:]), hx(c2.NodeId[:]))
			}
			if nodeID == ([20]byte{}) && validPub {
				if ok, p4 := secTryIsSecure(sid, secCp(pub)); p3 || p4 || !ok {
					secOracle("self-id-not-verified", fmt.Sprintf("NewServer:pubip=%s:nosec=%d", hx(pub), b2i(nosec)), "id=%s network=%q addr=%q panic=%v", hx(sid[:]), nw, addr, p3 || p4)
				}
			}
		}
		// NewServer without a Conn: the server opens its own socket (udp, port chosen by the system) and must then
		// treat it exactly like a supplied one; the local address is read back from the server
		if i%10 == 1 && validPub {
			c3 := &dht.ServerConfig{NodeId: krpc.ID(nodeID), PublicIP: secCpIP(pub), NoSecurity: nosec}
			func() {
				defer func() {
					if p := recover(); p != nil {
						emit("serverid %s => panic", args(nodeID, false))
					}
				}()
				s3, err := dht.NewServer(c3)
				if err != nil {
					emit("# NewServer without Conn: %v", err)
					return
				}
				la := s3.Addr()
				sid := [20]byte(s3.ID())
				s3.Close()
				a3 := fmt.Sprintf("%s 1 %s %s %s %d", hx(nodeID[:]), hx([]byte(la.Network())), hx([]byte(la.String())), secPubTok(pub), b2i(nosec))
				emit("serverid %s => %s", a3, hx(sid[:]))
				if nodeID == ([20]byte{}) {
					if ok, p4 := secTryIsSecure(sid, secCp(pub)); p4 || !ok {
						secOracle("self-id-not-verified", fmt.Sprintf("NewServer-own-socket:pubip=%s:nosec=%d", hx(pub), b2i(nosec)), "id=%s local=%s/%s panic=%v", hx(sid[:]), la.Network(), la, p4)
					}
				}
			}()
		}
	}
}

// keeps nil nil (PublicIP == nil is a distinct configuration from an empty slice)
func secCpIP(ip net.IP) net.IP {
	if ip == nil {
		return nil
	}
	return append(net.IP{}, ip...)
}

// The three entry points are pure functions of their arguments: called from many goroutines at once
// (the serve loop, lookups and the table maintainer all call them) each call returns what the same
// call returns alone. The sequential results are compared with the model through their own lines.
func secConcurrent(r *rng, thorough bool) {
	type pair struct {
		id  [20]byte
		ip  []byte
		sec [20]byte
		ok  bool
		crc uint32
		rd  uint8
	}
	bnd := secBoundaryIPs()
	var ps []pair
	for i := 0; i < 192; i++ {
		var ip []byte
		switch i % 4 {
		case 0:
			ip = r.bytes(4)
		case 1:
			ip = r.bytes(16)
		case 2:
			ip = secMapped(r.bytes(4))
		default:
			ip = secCp(bnd[r.intn(len(bnd))])
		}
		p := pair{id: secRandID(r), ip: ip, rd: uint8(r.next())}
		p.sec = secLineSecure(p.id, ip, r)
		if i%2 == 0 {
			p.id = p.sec // half of the verifications succeed
		}
		secLineIsSecure(p.id, ip)
		p.ok, _ = secTryIsSecure(p.id, secCp(ip))
		c, pn := secTryCrcIP(secCp(ip), p.rd)
		emit("crcip %s %d => %s", hx(ip), p.rd, secTok(pn, fmt.Sprint(c)))
		p.crc = c
		ps = append(ps, p)
	}
	workers, iters := 8, 3000
	if thorough {
		iters = 60000
	}
	var mu sync.Mutex
	bad := map[string]string{}
	var wg sync.WaitGroup
	for w := 0; w < workers; w++ {
		wr := r.sub(100 + w)
		wg.Add(1)
		go func() {
			defer wg.Done()
			defer func() {
				if p := recover(); p != nil {
					mu.Lock()
					bad["panic"] = fmt.Sprint(p)
					mu.Unlock()
				}
			}()
			for i := 0; i < iters; i++ {
				p := &ps[wr.intn(len(ps))]
				var what, det string
				switch i % 3 {
				case 0:
					k := krpc.ID(p.id)
					dht.SecureNodeId(&k, secCp(p.ip))
					if [20]byte(k) != p.sec {
						what, det = "SecureNodeId", fmt.Sprintf("id=%s ip=%s alone=%s concurrent=%s", hx(p.id[:]), hx(p.ip), hx(p.sec[:]), hx(k[:]))
					}
				case 1:
					if ok := dht.NodeIdSecure(p.id, secCp(p.ip)); ok != p.ok {
						what, det = "NodeIdSecure", fmt.Sprintf("id=%s ip=%s alone=%v concurrent=%v", hx(p.id[:]), hx(p.ip), p.ok, ok)
					}
				case 2:
					if c := dht.VerifCrcIP(secCp(p.ip), p.rd); c != p.crc {
						what, det = "crcIP", fmt.Sprintf("ip=%s rand=%d alone=%d concurrent=%d", hx(p.ip), p.rd, p.crc, c)
					}
				}
				if what != "" {
					mu.Lock()
					if _, seen := bad[what]; !seen {
						bad[what] = det
					}
					mu.Unlock()
				}
			}
		}()
	}
	wg.Wait()
	for _, what := range []string{"SecureNodeId", "NodeIdSecure", "crcIP", "panic"} {
		if det, ok := bad[what]; ok {
			secOracle("concurrent-call-differs", what, "%d goroutines: %s", workers, det)
		}
	}
	emit("# security concurrent: %d pairs, %d goroutines x %d calls, differing=%d", len(ps), workers, iters, len(bad))
}

// Results must not depend on what was asked before: pairs of addresses of the two families that agree on every
// bit both masks keep (an IPv4 address a.b.c.d with few bits set and the IPv6 address a.b.c.d:0000:... ), the same
// seed, asked one right after the other in both orders and twice.
func secTwins(r *rng, thorough bool) {
	n := 48
	if thorough {
		n = 2000
	}
	for i := 0; i < n; i++ {
		v4 := []byte{byte(r.intn(2)), byte(r.intn(4)), byte(r.intn(8)), byte(r.intn(16))}
		if i%4 == 3 {
			v4 = r.bytes(4) // unrelated prefixes as well
		}
		v6 := append(append(secCp(v4), 0, 0, 0, 0), r.bytes(8)...)
		if i%3 == 2 {
			copy(v6[4:8], r.bytes(4)) // differs in the second half of the hashed prefix
		}
		id := secRandID(r)
		a, b := v4, v6
		if i%2 == 1 {
			a, b = v6, v4
		}
		for rep := 0; rep < 2; rep++ {
			sa := secLineSecure(id, a, r)
			sb := secLineSecure(id, b, r)
			secLineIsSecure(sa, a)
			secLineIsSecure(sa, b)
			secLineIsSecure(sb, b)
			secLineIsSecure(sb, a)
		}
	}
}

func securityEngine(seed uint64, tier string, _ []string) {
	r := &rng{s: seed}
	thorough := tier == "thorough"
	secHashes(r.sub(1), thorough)
	secVectors(r.sub(2))
	secCases(r.sub(3), thorough)
	secDetID(r.sub(4), thorough)
	secInit(r.sub(5), thorough)
	secSweepV4(r.sub(6), thorough)
	secConcurrent(r.sub(7), thorough)
	secTwins(r.sub(8), thorough)
}
