package main

// Engine "api", C11 part: bursts of FIRST announces for infohashes the store has not seen yet.
// The server hands every accepted announce to PeerStore.AddPeer on its own goroutine, so announces
// arriving back to back run AddPeer concurrently; the event-by-event server engine awaits each one.

import (
	"fmt"
	"net"
	"runtime"
	"sort"
	"strings"
	"sync"
	"sync/atomic"
	"time"

	"github.com/anacrolix/log"
	"github.com/anacrolix/torrent/bencode"
	"golang.org/x/time/rate"

	dht "github.com/anacrolix/dht/v2"
	"github.com/anacrolix/dht/v2/krpc"
	peer_store "github.com/anacrolix/dht/v2/peer-store"
)

type apiAnn struct {
	ih   [20]byte
	ip   net.IP // raw bytes as the store sees them
	port int
}

func (a apiAnn) tok() string { return fmt.Sprintf("%s:%s:%d", hx(a.ih[:]), hx(a.ip), a.port) }

func apiAddrToks(nas []krpc.NodeAddr) string {
	var ss []string
	for _, na := range nas {
		ss = append(ss, fmt.Sprintf("%s:%d", hx(na.IP), na.Port))
	}
	sort.Strings(ss)
	return fmt.Sprintf("%d %s", len(ss), strings.Join(ss, " "))
}

func apiAnnToks(as []apiAnn) string {
	var ss []string
	for _, a := range as {
		ss = append(ss, a.tok())
	}
	return fmt.Sprintf("%d %s", len(ss), strings.Join(ss, " "))
}

// distinct raw IPs over the three spellings the store can meet
func apiDistinctIPs(r *rng, n int) []net.IP {
	seen := map[string]bool{}
	var ips []net.IP
	for len(ips) < n {
		ip := randAddr(r, famOf(r)).IP
		if seen[string(ip.To16())] {
			continue
		}
		seen[string(ip.To16())] = true
		ips = append(ips, ip)
	}
	return ips
}

// ---------------------------------------------------------------- the store's own exported API

func runApiPeersDirect(seed uint64, idx int, c apiCase) {
	r := (&rng{s: seed ^ 0xa91c11}).sub(idx)
	store := &peer_store.InMemory{}
	lines, lost, racedSame := 0, 0, 0
	for round := 1; round <= c.rounds; round++ {
		ctxs := fmt.Sprintf("case=%d round=%d %s", idx, round, c)
		if round%40 == 1 {
			store = &peer_store.InMemory{} // a zero-value store: the very first AddPeer calls overlap too
		}
		nih := 1
		if r.intn(3) == 0 {
			nih = 2 + r.intn(2)
		}
		var batch []apiAnn
		sameKey := false
		var ihs [][20]byte
		for k := 0; k < nih; k++ {
			var ih [20]byte
			copy(ih[:], r.bytes(20))
			ihs = append(ihs, ih)
			n := c.par
			if nih > 1 {
				n = 2 + r.intn(3)
			}
			for _, ip := range apiDistinctIPs(r, n) {
				batch = append(batch, apiAnn{ih, ip, 1 + r.intn(65535)})
			}
			if r.intn(5) == 0 { // one host announces twice at once (two ports): either may win
				batch = append(batch, apiAnn{ih, batch[len(batch)-1].ip, 1 + r.intn(65535)})
				sameKey = true
				racedSame++
			}
		}
		apiPeersRunBatch(store, batch, ihs, ctxs)
		all := append([]apiAnn(nil), batch...)
		// sometimes a second burst replaces some of the endpoints (distinct hosts within the burst)
		if !sameKey && r.intn(4) == 0 {
			var second []apiAnn
			for i, a := range batch {
				if i%2 == 0 {
					second = append(second, apiAnn{a.ih, a.ip, 1 + r.intn(65535)})
				}
			}
			var ih [20]byte
			copy(ih[:], r.bytes(20))
			for _, ip := range apiDistinctIPs(r, 2) { // and a fresh infohash in the same burst
				second = append(second, apiAnn{ih, ip, 1 + r.intn(65535)})
			}
			ihs = append(ihs, ih)
			apiPeersRunBatch(store, second, ihs, ctxs)
			all = append(all, second...)
		}
		for _, ih := range ihs {
			got := store.GetPeers(peer_store.InfoHash(ih))
			// expected: per raw IP the last announce (within one burst every announce of that IP is a candidate)
			want := map[string]map[int]bool{}
			lastBatchOf := map[string]int{}
			for bi, a := range all {
				if a.ih != ih {
					continue
				}
				k := string(a.ip)
				gen := 0
				if bi >= len(batch) {
					gen = 1
				}
				if want[k] == nil || lastBatchOf[k] < gen {
					want[k] = map[int]bool{}
					lastBatchOf[k] = gen
				}
				want[k][a.port] = true
			}
			seen := map[string]bool{}
			for _, na := range got {
				k := string(na.IP)
				if want[k] == nil || !want[k][na.Port] {
					oracle("C11", "store-returned-unannounced-endpoint:concurrent-first-announces", "%s ih=%x endpoint=%s:%d", ctxs, ih, hx(na.IP), na.Port)
				}
				if seen[k] {
					oracle("C11", "store-returned-one-host-twice:concurrent-first-announces", "%s ih=%x ip=%s", ctxs, ih, hx(na.IP))
				}
				seen[k] = true
			}
			if len(seen) < len(want) {
				lost++
				oracle("C11", "announced-peer-missing-from-store:concurrent-first-announces", "%s ih=%x announced-hosts=%d returned=%d", ctxs, ih, len(want), len(seen))
			}
			// model line: the store after the burst(s) = fold of add_peer over the announces in ANY order
			if !sameKey && (round%6 == 0 || len(seen) < len(want)) && lines < 400 {
				lines++
				emit("astore %d.%d %s %s => %s", idx, round, hx(ih[:]), apiAnnToks(all), apiAddrToks(got))
			}
		}
		if round%200 == 0 {
			out.Flush()
		}
	}
	emit("# api case=%d %s model-lines=%d rounds-with-loss=%d same-host-races=%d", idx, c, lines, lost, racedSame)
}

// apiSpinBarrier: the caller that arrives last releases all the others, which are spinning on their
// processors: they leave within a few hundred nanoseconds of each other (bounded: gives up after 20 ms)
func apiSpinBarrier(arrived *int32, n int32) {
	atomic.AddInt32(arrived, 1)
	var dl time.Time
	for i := 1; atomic.LoadInt32(arrived) < n; i++ {
		if i%512 == 0 {
			if dl.IsZero() {
				dl = time.Now().Add(20 * time.Millisecond)
			} else if time.Now().After(dl) {
				return
			}
			runtime.Gosched()
		}
	}
}

// all announces of the batch call AddPeer at once (spin barrier); readers run alongside
func apiPeersRunBatch(store *peer_store.InMemory, batch []apiAnn, ihs [][20]byte, ctxs string) {
	var arrived int32
	var wg sync.WaitGroup
	announced := map[[20]byte]map[string]bool{}
	for _, a := range batch {
		if announced[a.ih] == nil {
			announced[a.ih] = map[string]bool{}
		}
		announced[a.ih][fmt.Sprintf("%s:%d", a.ip.To16(), a.port)] = true
	}
	n := int32(len(batch) + 1)
	for _, a := range batch {
		wg.Add(1)
		go func(a apiAnn) {
			defer wg.Done()
			apiSpinBarrier(&arrived, n)
			store.AddPeer(peer_store.InfoHash(a.ih), krpc.NodeAddr{IP: a.ip, Port: a.port})
		}(a)
	}
	// a reader alongside: whatever it sees for a FRESH infohash was announced in this burst
	fresh := ihs[len(ihs)-1]
	var early []krpc.NodeAddr
	wg.Add(1)
	go func() {
		defer wg.Done()
		apiSpinBarrier(&arrived, n)
		early = store.GetPeers(peer_store.InfoHash(fresh))
	}()
	wg.Wait()
	if len(ihs) == 1 || announced[fresh] != nil {
		for _, na := range early {
			if !announced[fresh][fmt.Sprintf("%s:%d", na.IP.To16(), na.Port)] {
				oracle("C11", "store-returned-unannounced-endpoint:reader-during-burst", "%s ih=%x endpoint=%s:%d", ctxs, fresh, hx(na.IP), na.Port)
			}
		}
	}
}

// ---------------------------------------------------------------- announce_peer datagrams to a Server

// gateStore passes AddPeer through to the bundled store once `want` calls have arrived (or after a
// short wait), so that the per-announce goroutines of one burst enter the store together: the
// callers first meet at a channel, then leave a spin barrier within a few hundred nanoseconds.
type gateGen struct {
	open    chan struct{}
	want    int32
	spun    int32
	arrived int
}

type gateStore struct {
	inner *peer_store.InMemory
	mu    sync.Mutex
	gen   *gateGen
	done  int64
}

func (g *gateStore) arm(want int) {
	g.mu.Lock()
	g.gen = &gateGen{open: make(chan struct{}), want: int32(want)}
	g.mu.Unlock()
	atomic.StoreInt64(&g.done, 0)
}

func (g *gateStore) AddPeer(ih peer_store.InfoHash, na krpc.NodeAddr) {
	g.mu.Lock()
	gen := g.gen
	gen.arrived++
	if gen.arrived == int(gen.want) {
		close(gen.open)
	}
	g.mu.Unlock()
	select {
	case <-gen.open:
		apiSpinBarrier(&gen.spun, gen.want)
	case <-time.After(150 * time.Millisecond):
	}
	g.inner.AddPeer(ih, na)
	atomic.AddInt64(&g.done, 1)
}
func (g *gateStore) GetPeers(ih peer_store.InfoHash) []krpc.NodeAddr { return g.inner.GetPeers(ih) }

type apiAnnouncer struct {
	addr  *net.UDPAddr
	id    [20]byte
	token string
}

func runApiPeersWire(seed uint64, idx int, c apiCase) {
	r := (&rng{s: seed ^ 0xa91c12}).sub(idx)
	var root [20]byte
	copy(root[:], r.bytes(20))
	conn := newFakeConn()
	var mu sync.Mutex
	replies := map[string]*krpc.Msg{}
	conn.onWrite = func(b []byte, to *net.UDPAddr) {
		if m, ok := decodeLikeServer(b); ok {
			mu.Lock()
			replies[m.T+"|"+to.String()] = m
			mu.Unlock()
		}
	}
	inner := &peer_store.InMemory{}
	var gs *gateStore
	cfg := &dht.ServerConfig{
		NodeId:        root,
		Conn:          conn,
		NoSecurity:    true,
		StartingNodes: func() ([]dht.Addr, error) { return nil, nil },
		Logger:        log.NewLogger().FilterLevel(log.Critical),
		SendLimiter:   rate.NewLimiter(rate.Inf, 1),
	}
	if c.mix == "barrier" {
		gs = &gateStore{inner: inner}
		gs.arm(1)
		cfg.PeerStore = gs
	} else {
		cfg.PeerStore = inner
	}
	s, err := dht.NewServer(cfg)
	if err != nil {
		panic(err)
	}
	defer func() { s.Close(); conn.Close() }()
	for atomic.LoadInt64(&conn.reads) == 0 {
		time.Sleep(20 * time.Microsecond)
	}
	ctx0 := fmt.Sprintf("case=%d %s", idx, c)
	await := func(t string, from *net.UDPAddr) *krpc.Msg {
		dl := time.Now().Add(5 * time.Second)
		for {
			mu.Lock()
			m := replies[t+"|"+from.String()]
			mu.Unlock()
			if m != nil || time.Now().After(dl) {
				return m
			}
			time.Sleep(50 * time.Microsecond)
		}
	}
	send := func(m krpc.Msg, from *net.UDPAddr) bool {
		return conn.inject(bencode.MustMarshal(m), from, 5*time.Second)
	}
	// ---- announcers and requesters; every announcer fetches its token first
	var anns []apiAnnouncer
	for _, ip := range apiDistinctIPs(r, c.par+2) {
		a := apiAnnouncer{addr: udp(ip, 1+r.intn(65535))}
		copy(a.id[:], r.bytes(20))
		var ih [20]byte
		copy(ih[:], r.bytes(20))
		t := fmt.Sprintf("tk%d", len(anns))
		send(krpc.Msg{Q: "get_peers", Y: "q", T: t, A: &krpc.MsgArgs{ID: a.id, InfoHash: ih}}, a.addr)
		if m := await(t, a.addr); m != nil && m.R != nil && m.R.Token != nil {
			a.token = *m.R.Token
		} else {
			oracle("C11", "get_peers-reply-without-token:api", "%s announcer=%s", ctx0, a.addr)
			return
		}
		anns = append(anns, a)
	}
	type requester struct {
		addr  *net.UDPAddr
		wants []krpc.Want
	}
	reqs := []requester{
		{udp([]byte{203, 0, 113, 7}, 4007), nil},
		{udp(append([]byte{0x20, 0x01, 0x0d, 0xb8}, r.bytes(12)...), 4008), nil},
		{udp([]byte{203, 0, 113, 9}, 4009), []krpc.Want{krpc.WantNodes, krpc.WantNodes6}},
		{udp([]byte{203, 0, 113, 10}, 4010), []krpc.Want{krpc.WantNodes6}},
	}
	var reqID [20]byte
	copy(reqID[:], r.bytes(20))
	// the idle goroutine count: the minimum over a while (transient reply goroutines only add)
	base := runtime.NumGoroutine()
	for i := 0; i < 40; i++ {
		time.Sleep(500 * time.Microsecond)
		if n := runtime.NumGoroutine(); n < base {
			base = n
		}
	}
	lines, lost, unsettled := 0, 0, 0
	var history []apiAnn // accepted announces, burst after burst
	for round := 1; round <= c.rounds; round++ {
		ctxs := fmt.Sprintf("case=%d round=%d %s", idx, round, c)
		var ih [20]byte
		copy(ih[:], r.bytes(20))
		// the burst: a random subset (>= 2) of the announcers, back to back
		perm := make([]int, len(anns))
		for i := range perm {
			perm[i] = i
		}
		for i := len(perm) - 1; i > 0; i-- {
			j := r.intn(i + 1)
			perm[i], perm[j] = perm[j], perm[i]
		}
		k := c.par
		if r.intn(3) == 0 {
			k = 2 + r.intn(len(anns)-1)
		}
		if k > len(anns) {
			k = len(anns)
		}
		type sent struct {
			a    apiAnnouncer
			t    string
			port int
		}
		var burst []sent
		var planned []apiAnn
		var bwg sync.WaitGroup
		var bmu sync.Mutex
		if gs != nil {
			gs.arm(k)
		}
		for _, ai := range perm[:k] {
			a := anns[ai]
			port := 1 + r.intn(65535)
			args := &krpc.MsgArgs{ID: a.id, InfoHash: ih, Port: &port, Token: a.token}
			chosen := port
			switch r.intn(4) {
			case 0:
				args.ImpliedPort = true
				chosen = a.addr.Port
			case 1:
				args.ImpliedPort = true
				args.Port = nil
				chosen = a.addr.Port
			}
			t := fmt.Sprintf("a%d.%d", round, ai)
			msg := krpc.Msg{Q: "announce_peer", Y: "q", T: t, A: args}
			planned = append(planned, apiAnn{ih, a.addr.IP, chosen})
			if gs == nil {
				// plain store: the datagrams queue up at the socket and are read back to back
				bwg.Add(1)
				go func(a apiAnnouncer) {
					defer bwg.Done()
					if send(msg, a.addr) {
						bmu.Lock()
						burst = append(burst, sent{a, t, chosen})
						bmu.Unlock()
					}
				}(a)
			} else if send(msg, a.addr) {
				burst = append(burst, sent{a, t, chosen})
			}
		}
		bwg.Wait()
		// accepted = answered with a response
		var accepted, attempted []apiAnn
		for _, pi := range planned {
			attempted = append(attempted, pi)
		}
		for _, b := range burst {
			if m := await(b.t, b.a.addr); m != nil && m.Y == "r" {
				accepted = append(accepted, apiAnn{ih, b.a.addr.IP, b.port})
			} else {
				emit("# api %s announce %s not answered with a response", ctxs, b.t)
			}
		}
		// quiescence: every per-announce goroutine has ended
		settled := false
		dl := time.Now().Add(5 * time.Second)
		for time.Now().Before(dl) {
			if gs != nil {
				if atomic.LoadInt64(&gs.done) >= int64(len(accepted)) && runtime.NumGoroutine() <= base {
					settled = true
					break
				}
			} else if runtime.NumGoroutine() <= base {
				settled = true
				break
			}
			time.Sleep(50 * time.Microsecond)
		}
		if !settled {
			unsettled++
			emit("# api %s announce goroutines still running, no comparison", ctxs)
			history = append(history, accepted...)
			continue
		}
		history = append(history, accepted...)
		if len(history) > 64 {
			history = history[len(history)-64:]
		}
		// ---- get_peers from both families / want combinations. A loss is permanent, a late goroutine is
		// not: when something seems missing the questions are asked again after 0.3 s and after 1.5 s
		// more, and only the last answers count.
		roundLost := false
		for attempt := 0; attempt < 3; attempt++ {
			final := attempt == 2
			type answer struct {
				qi      int
				m       *krpc.Msg
				got     map[string]bool
				missing int
			}
			var answers []answer
			totalMissing := 0
			for qi, q := range reqs {
				t := fmt.Sprintf("g%d.%d.%d", round, qi, attempt)
				send(krpc.Msg{Q: "get_peers", Y: "q", T: t, A: &krpc.MsgArgs{ID: reqID, InfoHash: ih, Want: q.wants}}, q.addr)
				m := await(t, q.addr)
				an := answer{qi: qi, m: m, got: map[string]bool{}}
				if m != nil && m.R != nil {
					for _, v := range m.R.Values {
						an.got[fmt.Sprintf("%s:%d", hx(v.IP.To16()), v.Port)] = true
					}
					// every accepted announcer this requester can be told about: a requester for IPv4 learns every
					// IPv4 and v4-mapped host, a requester for IPv6 learns every host (IPv4 ones v4-mapped)
					wants6 := q.addr.IP.To4() == nil
					wants4 := !wants6
					if q.wants != nil {
						wants4, wants6 = false, false
						for _, w := range q.wants {
							if w == krpc.WantNodes {
								wants4 = true
							}
							if w == krpc.WantNodes6 {
								wants6 = true
							}
						}
					}
					for _, a := range accepted {
						if wants6 || (wants4 && a.ip.To4() != nil) {
							if !an.got[fmt.Sprintf("%s:%d", hx(a.ip.To16()), a.port)] {
								an.missing++
							}
						}
					}
				}
				totalMissing += an.missing
				answers = append(answers, an)
			}
			if totalMissing > 0 && !final {
				time.Sleep([]time.Duration{300 * time.Millisecond, 1500 * time.Millisecond}[attempt])
				continue
			}
			// "announced": every announce sent for this infohash, answered in time or not
			announcedSet := map[string]bool{}
			for _, a := range attempted {
				announcedSet[fmt.Sprintf("%s:%d", hx(a.ip.To16()), a.port)] = true
			}
			for _, an := range answers {
				q := reqs[an.qi]
				m := an.m
				if m == nil || m.R == nil {
					oracle("C11", "get_peers-not-answered:api", "%s requester=%s", ctxs, q.addr)
					continue
				}
				if m.R.Token == nil {
					oracle("C11", "get_peers-reply-without-token:api", "%s requester=%s", ctxs, q.addr)
				}
				for g := range an.got {
					if !announcedSet[g] {
						oracle("C11", "get_peers-returned-unannounced-endpoint:api", "%s requester=%s value=%s", ctxs, q.addr, g)
					}
				}
				if an.missing > 0 {
					roundLost = true
					oracle("C11", "accepted-announce-missing-from-get_peers:burst-of-first-announces", "%s requester=%s accepted=%d returned=%d missing=%d", ctxs, q.addr, len(accepted), len(an.got), an.missing)
				}
				if len(accepted) == len(planned) && (round%4 == 0 || an.missing > 0) && lines < 300 {
					lines++
					var ws []string
					for _, w := range q.wants {
						ws = append(ws, hx([]byte(w)))
					}
					wtok := "-"
					if q.wants != nil {
						wtok = "w" + strings.Join(ws, ",")
					}
					emit("apeers %d.%d.%d %s %s %s %s => %s", idx, round, an.qi, hx(ih[:]), hx(q.addr.IP), wtok, apiAnnToks(history), apiAddrToks(m.R.Values))
				}
			}
			break
		}
		if roundLost {
			lost++
		}
		mu.Lock()
		for k := range replies {
			delete(replies, k)
		}
		mu.Unlock()
		if round%20 == 0 {
			out.Flush()
		}
	}
	emit("# api case=%d %s model-lines=%d rounds-with-loss=%d rounds-not-settled=%d", idx, c, lines, lost, unsettled)
}
