package main

// Engine "maint" (hostile-reply cases: oracle only, serve C01 / C19; pass cases, maint_pass.go: model-compared `mpass` lines): a real Server running TableMaintainer (bootstrap
// traversal, questionable-node pings, bucket refresh traversals) against simulated remote nodes
// that answer the node's own queries with hostile replies. There is no model of the maintainer;
// the engine checks the property directly: the process survives (child containment), the node
// still answers a fresh ping, its API returns, nothing is sent to blocked addresses.

import (
	"fmt"
	"net"
	"os"
	"runtime"
	"strconv"
	"time"

	"github.com/anacrolix/log"
	"github.com/anacrolix/torrent/bencode"
	"golang.org/x/time/rate"

	dht "github.com/anacrolix/dht/v2"
	"github.com/anacrolix/dht/v2/krpc"
)

func init() { engines["maint"] = maintEngine }

var maintStrategies = []string{
	"normal", "no-r-dict", "error", "empty-r", "r-short-id", "r-bad-nodes", "r-list", "silent", "truncated",
	"wrong-t", "y-missing", "nodes-self", "huge-nodes", "e-malformed", "r-and-e", "dup-addr", "dup-addr-own", "mixed",
}

func maintReply(r *rng, strategy string, q *krpc.Msg, self speer, others []speer, root [20]byte) []byte {
	if strategy == "mixed" {
		strategy = maintStrategies[r.intn(len(maintStrategies)-1)]
	}
	t := q.T
	enc := func(m krpc.Msg) []byte { return bencode.MustMarshal(m) }
	var nodes krpc.CompactIPv4NodeInfo
	for _, o := range others {
		if ip4 := o.addr.IP.To4(); ip4 != nil && len(nodes) < 8 {
			nodes = append(nodes, krpc.NodeInfo{ID: o.id, Addr: krpc.NodeAddr{IP: ip4, Port: o.addr.Port}})
		}
	}
	bs := func(s string) string { return strconv.Itoa(len(s)) + ":" + s }
	switch strategy {
	case "normal":
		return enc(krpc.Msg{Y: "r", T: t, R: &krpc.Return{ID: self.id, Nodes: nodes}})
	case "no-r-dict":
		return []byte("d1:t" + bs(t) + "1:y1:re")
	case "error":
		return enc(krpc.Msg{Y: "e", T: t, E: &krpc.Error{Code: 202, Msg: "server error"}})
	case "empty-r":
		return []byte("d1:rde1:t" + bs(t) + "1:y1:re")
	case "r-short-id":
		return []byte("d1:rd2:id3:abce1:t" + bs(t) + "1:y1:re")
	case "r-bad-nodes":
		return []byte("d1:rd2:id20:" + string(self.id[:]) + "5:nodes7:garbagee1:t" + bs(t) + "1:y1:re")
	case "r-list":
		return []byte("d1:rli1ei2ee1:t" + bs(t) + "1:y1:re")
	case "silent":
		return nil
	case "truncated":
		b := enc(krpc.Msg{Y: "r", T: t, R: &krpc.Return{ID: self.id, Nodes: nodes}})
		return b[:len(b)/2]
	case "wrong-t":
		return enc(krpc.Msg{Y: "r", T: t + "x", R: &krpc.Return{ID: self.id}})
	case "y-missing":
		return []byte("d1:rd2:id20:" + string(self.id[:]) + "e1:t" + bs(t) + "e")
	case "nodes-self":
		return enc(krpc.Msg{Y: "r", T: t, R: &krpc.Return{ID: root, Nodes: krpc.CompactIPv4NodeInfo{{ID: root, Addr: krpc.NodeAddr{IP: net.IPv4(127, 0, 0, 1).To4(), Port: 4242}}}}})
	case "huge-nodes":
		var many krpc.CompactIPv4NodeInfo
		for i := 0; i < 200; i++ {
			var id [20]byte
			copy(id[:], r.bytes(20))
			many = append(many, krpc.NodeInfo{ID: id, Addr: krpc.NodeAddr{IP: net.IPv4(10, byte(i), 1, 1).To4(), Port: 1 + i}})
		}
		return enc(krpc.Msg{Y: "r", T: t, R: &krpc.Return{ID: self.id, Nodes: many}})
	case "dup-addr", "dup-addr-own":
		// one address under many ids (ids close to what was asked for), and nothing else: once the address has
		// been asked, the remaining listings are stale candidates
		victim := krpc.NodeAddr{IP: net.IPv4(10, 200, 1, 1).To4(), Port: 4000}
		if strategy == "dup-addr-own" {
			victim = krpc.NodeAddr{IP: self.addr.IP, Port: self.addr.Port}
		}
		var dup krpc.CompactIPv4NodeInfo
		var dup6 krpc.CompactIPv6NodeInfo
		tgt := root
		if q.A != nil {
			if q.A.Target != ([20]byte{}) {
				tgt = q.A.Target
			} else if q.A.InfoHash != ([20]byte{}) {
				tgt = q.A.InfoHash
			}
		}
		for i := 0; i < 2+r.intn(7); i++ {
			id := tgt
			id[19] ^= byte(1 + i)
			id[18] ^= byte(r.intn(256))
			ni := krpc.NodeInfo{ID: id, Addr: victim}
			if victim.IP.To4() != nil {
				ni.Addr.IP = victim.IP.To4()
				dup = append(dup, ni)
			} else {
				dup6 = append(dup6, ni)
			}
		}
		return enc(krpc.Msg{Y: "r", T: t, R: &krpc.Return{ID: self.id, Nodes: dup, Nodes6: dup6}})
	case "e-malformed":
		return []byte("d1:eli201ee1:t" + bs(t) + "1:y1:ee")
	case "r-and-e":
		return []byte("d1:eli201e1:xe1:rd2:id20:" + string(self.id[:]) + "e1:t" + bs(t) + "1:y1:ee")
	}
	return nil
}

func maintEngine(seed uint64, tier string, args []string) {
	from := 0
	child := false
	for i := 0; i < len(args); i++ {
		switch args[i] {
		case "-child":
			child = true
		case "-from":
			from, _ = strconv.Atoi(args[i+1])
			i++
		}
	}
	n := len(maintStrategies) * 2
	if tier == "thorough" {
		n = len(maintStrategies) * 12
	}
	if p := os.Getenv("VERIF_PROP"); (p == "C05" || p == "C06" || p == "C09" || p == "C14") && from < n {
		from = n // these checks run the pass cases only
	}
	np := maintPassCount(tier) // model-compared passes of the maintainer (maint_pass.go) follow the hostile-reply cases
	if !child {
		runContained("maint", seed, tier, n+np, func(idx int) string {
			if idx >= n {
				return "pass"
			}
			return maintStrategies[idx%len(maintStrategies)]
		})
		return
	}
	for i := from; i < n+np; i++ {
		if i >= n+np-4 {
			runMaintEmptyCase(seed, i-(n+np-4), i) // the last four: a node that finds nobody to ask, closed at once
		} else if i >= n {
			runMaintPassCase(seed, i-n, i)
		} else {
			runMaintCase(seed, i)
		}
	}
}

func runMaintCase(seed uint64, idx int) {
	r := (&rng{s: seed ^ 0x3a1e}).sub(idx)
	strategy := maintStrategies[idx%len(maintStrategies)]
	emit("mbegin %d maint strategy=%s => ok", idx, strategy)
	out.Flush()
	var root [20]byte
	copy(root[:], r.bytes(20))
	conn := newFakeConn()
	var peers []speer
	for i := 0; i < 12; i++ {
		peers = append(peers, speer{addr: randAddr(r, famOf(r)), id: idInBucket(r, root, []int{0, 0, 0, 1, 1, 2, 3, 5}[r.intn(8)])})
	}
	blocked := peers[len(peers)-1]
	bl := blockOf(blocked.addr.IP)
	cfg := &dht.ServerConfig{
		NodeId:           root,
		Conn:             conn,
		NoSecurity:       true,
		StartingNodes:    func() ([]dht.Addr, error) { return []dht.Addr{dht.NewAddr(peers[0].addr)}, nil },
		QueryResendDelay: func() time.Duration { return 15 * time.Millisecond },
		Logger:           log.NewLogger().FilterLevel(log.Critical),
		DefaultWant:      []krpc.Want{krpc.WantNodes, krpc.WantNodes6},
		IPBlocklist:      bl,
		SendLimiter:      rate.NewLimiter(rate.Inf, 1),
	}
	base := runtime.NumGoroutine()
	s, err := dht.NewServer(cfg)
	if err != nil {
		panic(err)
	}
	byAddr := map[string]speer{}
	for _, p := range peers {
		byAddr[p.addr.String()] = p
	}
	rr := r.sub(77)
	conn.onWrite = func(b []byte, to *net.UDPAddr) {
		if _, isBlocked := bl.Lookup(to.IP); isBlocked {
			oracle("C19", "datagram-to-blocked-address", "case=%d maint strategy=%s to=%s", idx, strategy, to)
		}
		m, ok := decodeLikeServer(b)
		if !ok || m.Y != "q" {
			return
		}
		p, known := byAddr[to.String()]
		if !known {
			return
		}
		conn.mu.Lock()
		reply := maintReply(rr, strategy, m, p, peers, root)
		conn.mu.Unlock()
		if reply == nil {
			return
		}
		go conn.inject(reply, to, time.Second)
	}
	for _, p := range peers {
		s.AddNode(krpc.NodeInfo{ID: p.id, Addr: krpc.NodeAddr{IP: p.addr.IP, Port: p.addr.Port}})
	}
	go s.TableMaintainer()
	time.Sleep(350 * time.Millisecond)
	// the node must still serve
	probe := udp([]byte{203, 0, 113, 9}, 40000+idx)
	pm := bencode.MustMarshal(krpc.Msg{Q: "ping", Y: "q", T: "pr", A: &krpc.MsgArgs{ID: krpc.ID{9}}})
	conn.takeWrites()
	okInj := conn.inject(pm, probe, 3*time.Second)
	answered := false
	deadline := time.Now().Add(3 * time.Second)
	for !answered && time.Now().Before(deadline) {
		for _, w := range conn.takeWrites() {
			if mm, ok := decodeLikeServer(w.data); ok && mm.Y == "r" && mm.T == "pr" && w.addr.String() == probe.String() {
				answered = true
			}
		}
		time.Sleep(time.Millisecond)
	}
	if !okInj || !answered {
		oracle("C01", "probe-ping-not-answered:maint", "case=%d strategy=%s", idx, strategy)
	}
	done := make(chan struct{})
	go func() { s.Stats(); s.NumNodes(); s.Nodes(); close(done) }()
	select {
	case <-done:
	case <-time.After(3 * time.Second):
		oracle("C01", "api-does-not-return:maint", "case=%d strategy=%s", idx, strategy)
	}
	st := s.Stats()
	s.Close()
	conn.Close()
	// everything the maintainer started must wind down (queries time out after 3 x 15 ms)
	deadline = time.Now().Add(4 * time.Second)
	for runtime.NumGoroutine() > base && time.Now().Before(deadline) {
		time.Sleep(2 * time.Millisecond)
	}
	leaked := runtime.NumGoroutine() - base
	emit("# maint %d strategy=%s nodes=%d good=%d leaked-goroutines=%d", idx, strategy, st.Nodes, st.GoodNodes, leaked)
	emit("mend %d => ok", idx)
	_ = fmt.Sprint
}
