package main

// Engine "bep44", part (g): items that reach the store the way an application produces them.
//
// The other parts hand the store a fresh struct literal for every put.  The exported API offers more
// ways to an *bep44.Item, and an application may hold on to one and use it again:
//
//   construction   struct literal; bep44.NewItem (mutable with a private key, immutable with nil);
//                  NewItem followed by one or two Item.Modify; Item.ToPut / Put.ToItem round trips;
//                  bep44.Put literal, Put.Sign, Put.ToItem
//   use before     Check, Item.Target, Put.Target, CheckIncoming (either side), IsMutable, a put into
//   the put        ANOTHER wrapper and store (twice, and a get) - all of them before and/or after ...
//   changes        ... the exported fields V, K, Salt, Sig, Cas, Seq are assigned (in any order; the salt
//                  and list / dictionary values also in place), on the item itself or on a struct copy
//                  taken after the construction, after the first uses or after the changes
//   reuse          the same *Item put again after a change (the item of a rejected put; a struct copy of
//                  it where the store keeps the pointer it was given), the item handed out by
//                  Wrapper.Get changed and put back, Modify with the right and with a wrong key
//
// What the store has to do with such an item depends on the exported fields at the time of the put and on
// nothing else: the line printed for a put is the ordinary `b44put` (`b44fput`, `b44lput`, thread spec, ...)
// line with the fields read off at that moment, so the model and the reference verifier of this engine
// (refCheck / refVerify / refTarget) decide as they do for a literal.  The history of the item only shows
// in the note of an oracle line (`via=...`), as a replay.
//
// Oracles added with this part: `forged-item-served`, `oversized-served:*`, `wrong-target:served` - what
// Wrapper.Get hands out and what a get reply carries must verify under the target that was asked for
// (decided from the reply alone, with the salt of the slot).

import (
	"bytes"
	"crypto/ed25519"
	"fmt"
	"math"
	"strings"
	"time"

	"github.com/anacrolix/torrent/bencode"

	"github.com/anacrolix/dht/v2/bep44"
)

// ---------------------------------------------------------------- what is served

// sv: the fields of an item that was handed out for target t
func (c *b44case) servedOracle(t [20]byte, sv *b44it, where string) {
	det := fmt.Sprintf("%s served=(seq=%d,v=%s,salt=%dB)", where, sv.seq, b44short(sv.bv), len(sv.salt))
	if len(sv.bv) > 1000 {
		c.e.fire("C12", "oversized-served:value", "%s", det)
	}
	if sv.mutable() && len(sv.salt) > 64 {
		c.e.fire("C12", "oversized-served:salt", "%s", det)
	}
	if sv.mutable() && !sv.refVerify() {
		c.e.fire("C12", "forged-item-served", "%s", det)
	}
	if sv.refTarget() != t {
		c.e.fire("C12", "wrong-target:served", "%s", det)
	}
}

func b44saltCopy(s []byte) []byte {
	c := append([]byte(nil), s...)
	if s != nil && c == nil {
		c = []byte{}
	}
	return c
}

// the exported fields of an item as they are now
func b44itOf(it *bep44.Item, note string) *b44it {
	return &b44it{v: it.V, bv: bencode.MustMarshal(it.V), k: it.K, salt: b44saltCopy(it.Salt), sig: it.Sig, cas: it.Cas, seq: it.Seq, note: note}
}

// ---------------------------------------------------------------- values

func b44clone(v interface{}) interface{} {
	switch t := v.(type) {
	case []interface{}:
		c := make([]interface{}, len(t))
		for i := range t {
			c[i] = b44clone(t[i])
		}
		return c
	case map[string]interface{}:
		c := map[string]interface{}{}
		for k, x := range t {
			c[k] = b44clone(x)
		}
		return c
	}
	return v
}

// a value of the same shape and the same encoded length, another content (ok=false: there is none)
func b44tweak(v interface{}) (interface{}, bool) {
	switch t := v.(type) {
	case string:
		if t == "" {
			return nil, false
		}
		b := []byte(t)
		b[len(b)-1] ^= 1
		return string(b), true
	case int64:
		if t >= 0 && t <= 8 {
			return (t + 1) % 9, true // one digit stays one digit
		}
		return nil, false
	case []interface{}:
		for i := len(t) - 1; i >= 0; i-- {
			if w, ok := b44tweak(t[i]); ok {
				c := b44clone(t).([]interface{})
				c[i] = w
				return c, true
			}
		}
	case map[string]interface{}:
		var keys []string
		for k := range t {
			keys = append(keys, k)
		}
		sortStrings(keys)
		for _, k := range keys {
			if w, ok := b44tweak(t[k]); ok {
				c := b44clone(t).(map[string]interface{})
				c[k] = w
				return c, true
			}
		}
	}
	return nil, false
}

func sortStrings(s []string) {
	for i := 1; i < len(s); i++ {
		for j := i; j > 0 && s[j] < s[j-1]; j-- {
			s[j], s[j-1] = s[j-1], s[j]
		}
	}
}

// a value whose encoding differs from that of v
func (e *b44env) otherValue(r *rng, v interface{}) interface{} {
	var o interface{}
	switch r.intn(7) {
	case 0, 1:
		if w, ok := b44tweak(v); ok {
			o = w
		}
	case 2:
		o = "start value"
	case 3:
		o = b44sized(1001+r.intn(3), r.intn(4))
	case 4:
		o = e.shapes()[r.intn(16)]
	case 5:
		o = []interface{}{"v", int64(7)}
	default:
		o = b44sized(990+r.intn(11), r.intn(4))
	}
	if o == nil || bytes.Equal(bencode.MustMarshal(o), bencode.MustMarshal(v)) {
		o = "another start value"
	}
	return o
}

// ---------------------------------------------------------------- routes

var b44Builds = []string{"literal", "NewItem", "NewItem+Modify", "literal.ToPut.ToItem", "NewItem.ToPut.ToItem",
	"Put.Sign.ToItem", "NewItem+Modify+Modify"}

const (
	b44WCheck = 1 << iota
	b44WTarget
	b44WPutTarget
	b44WCheckIncoming
	b44WOtherStore
	b44WMisc
	b44WAll = 1<<iota - 1
)

func b44warmStr(bits int) string {
	if bits == 0 {
		return "none"
	}
	var p []string
	for i, n := range []string{"Check", "Target", "ToPut.Target", "CheckIncoming", "put-into-another-store", "IsMutable+ToPut.ToItem"} {
		if bits&(1<<uint(i)) != 0 {
			p = append(p, n)
		}
	}
	return strings.Join(p, "+")
}

// The route to the *bep44.Item of one put: `start` is constructed (build), possibly copied, used
// (warm), possibly copied, changed into the item that is put (assign, fields in `order`), possibly
// copied, used again (late).
type b44via struct {
	e       *b44env
	start   *b44it // genuine: signed by one of the engine's keys, or immutable with a zero signature
	build   int    // index into b44Builds
	warm    int    // b44W* bits: uses before the change
	copyAt  int    // 0 no struct copy, 1 after the construction, 2 after the first uses, 3 after the change
	late    int    // b44W* bits: uses after the change
	order   [6]int // order in which the fields are assigned: 0 V 1 K 2 Salt 3 Sig 4 Cas 5 Seq
	inplace bool   // salt and list / dictionary values are changed in place where the sizes allow it
}

func (v *b44via) String() string {
	return fmt.Sprintf("via=%s/start(seq=%d,cas=%d,v=%s,salt=%dB,%s)/used-before=%s/struct-copy-at=%d/used-after=%s/inplace=%v",
		b44Builds[v.build], v.start.seq, v.start.cas, b44short(v.start.bv), len(v.start.salt), v.start.note,
		b44warmStr(v.warm), v.copyAt, b44warmStr(v.late), v.inplace)
}

func (e *b44env) keyOf(k [32]byte) int {
	if k == [32]byte{} {
		return -1
	}
	for i := range e.pub {
		if e.pub[i] == k {
			return i
		}
	}
	return -2
}

func b44copyItem(it *bep44.Item) *bep44.Item {
	c := *it
	return &c
}

// a call of the exported API that does not return normally
func (e *b44env) contained(call string, f func()) {
	defer func() {
		if r := recover(); r != nil {
			e.fire("C12", "api-call-panicked:"+call, "%v", r)
		}
	}()
	f()
}

func (v *b44via) construct() *bep44.Item {
	s, e := v.start, v.e
	var priv ed25519.PrivateKey
	if ki := e.keyOf(s.k); ki >= 0 {
		priv = e.priv[ki]
	}
	salt := b44saltCopy(s.salt)
	val := b44clone(s.v)
	lit := func() *bep44.Item {
		return &bep44.Item{V: val, K: s.k, Salt: salt, Sig: s.sig, Cas: s.cas, Seq: s.seq}
	}
	newItem := func(value interface{}, seq int64) *bep44.Item {
		it, err := bep44.NewItem(value, salt, seq, s.cas, priv)
		if err != nil || it == nil {
			return lit()
		}
		return it
	}
	var it *bep44.Item
	e.contained("construct:"+b44Builds[v.build], func() {
		switch v.build {
		case 1:
			it = newItem(val, s.seq)
		case 2, 6:
			n := int64(1)
			if v.build == 6 {
				n = 2
			}
			if s.seq < math.MinInt64+n {
				it = newItem(val, s.seq)
				break
			}
			if priv == nil {
				// Modify of an immutable item is refused and leaves the item alone
				it = newItem(val, s.seq)
				it.Modify("not for an immutable item", e.priv[0])
				break
			}
			it = newItem("the value before", s.seq-n)
			if n == 2 {
				it.Modify([]interface{}{"the value in between", int64(1)}, priv)
			}
			it.Modify(val, priv)
		case 3:
			p := lit().ToPut()
			it = p.ToItem()
		case 4:
			p := newItem(val, s.seq).ToPut()
			it = p.ToItem()
		case 5:
			p := bep44.Put{V: val, Salt: salt, Cas: s.cas, Seq: s.seq}
			if priv != nil {
				k := s.k
				p.K = &k
				p.Sign(priv)
			}
			it = p.ToItem()
		default:
			it = lit()
		}
	})
	if it == nil {
		it = lit()
	}
	return it
}

func (v *b44via) use(it *bep44.Item, bits int) {
	e := v.e
	if bits&b44WCheck != 0 {
		e.contained("Check", func() { bep44.Check(it) })
	}
	if bits&b44WTarget != 0 {
		e.contained("Item.Target", func() { it.Target() })
	}
	if bits&b44WPutTarget != 0 {
		e.contained("Put.Target", func() { p := it.ToPut(); p.Target() })
	}
	if bits&b44WCheckIncoming != 0 {
		e.contained("CheckIncoming", func() {
			o := &bep44.Item{V: "some other item", Seq: it.Seq}
			bep44.CheckIncoming(it, o)
			bep44.CheckIncoming(o, it)
		})
	}
	if bits&b44WOtherStore != 0 {
		e.contained("Wrapper.Put/Get:another-store", func() {
			w := bep44.NewWrapper(bep44.NewMemory(), time.Hour)
			w.Put(it)
			w.Put(it)
			w.Get(it.Target())
		})
	}
	if bits&b44WMisc != 0 {
		e.contained("IsMutable/ToPut/ToItem", func() { it.IsMutable(); p := it.ToPut(); p.ToItem() })
	}
}

// makes the exported fields of it those of x; fields that already are what they should be are left alone
func (v *b44via) assign(it *bep44.Item, x *b44it) {
	for _, f := range v.order {
		switch f {
		case 0:
			if bytes.Equal(bencode.MustMarshal(it.V), x.bv) {
				break
			}
			if v.inplace {
				switch cur := it.V.(type) {
				case []interface{}:
					if to, ok := x.v.([]interface{}); ok && len(to) == len(cur) {
						for i := range to {
							cur[i] = b44clone(to[i])
						}
						continue
					}
				case map[string]interface{}:
					if to, ok := x.v.(map[string]interface{}); ok {
						for k := range cur {
							delete(cur, k)
						}
						for k, w := range to {
							cur[k] = b44clone(w)
						}
						continue
					}
				}
			}
			it.V = b44clone(x.v)
		case 1:
			if it.K != x.k {
				it.K = x.k
			}
		case 2:
			if bytes.Equal(it.Salt, x.salt) && (it.Salt == nil) == (x.salt == nil) {
				break
			}
			if v.inplace && len(it.Salt) == len(x.salt) && len(x.salt) > 0 {
				copy(it.Salt, x.salt)
				break
			}
			it.Salt = b44saltCopy(x.salt)
		case 3:
			if it.Sig != x.sig {
				it.Sig = x.sig
			}
		case 4:
			it.Cas = x.cas
		case 5:
			it.Seq = x.seq
		}
	}
}

func (v *b44via) make(x *b44it) *bep44.Item {
	it := v.construct()
	if v.copyAt == 1 {
		it = b44copyItem(it)
	}
	v.use(it, v.warm)
	if v.copyAt == 2 {
		it = b44copyItem(it)
	}
	v.assign(it, x)
	if v.copyAt == 3 {
		it = b44copyItem(it)
	}
	v.use(it, v.late)
	return it
}

// a genuine item that differs from x in the fields named by `fields` (bits 0 V 1 Salt 2 Seq 3 K 4 Cas); the
// signature then differs as well (and also when x is forged and no field is named)
func (e *b44env) startFor(r *rng, x *b44it, fields int) *b44it {
	sv, skey, ssalt, sseq, scas := x.v, e.keyOf(x.k), x.salt, x.seq, x.cas
	if skey == -2 {
		skey = 0
	}
	if fields&1 != 0 {
		sv = e.otherValue(r, x.v)
	}
	if fields&2 != 0 {
		switch r.intn(5) {
		case 0:
			ssalt = append(b44saltCopy(x.salt), 'x')
		case 1:
			ssalt = nil
			if len(x.salt) == 0 {
				ssalt = []byte("start salt")
			}
		case 2:
			ssalt = r.bytes(65 + r.intn(3))
		case 3:
			ssalt = r.bytes(len(x.salt)) // the same length: a candidate for a change in place
			if bytes.Equal(ssalt, x.salt) {
				ssalt = []byte("start salt")
			}
		default:
			ssalt = []byte("t")
			if bytes.Equal(ssalt, x.salt) {
				ssalt = []byte("u")
			}
		}
	}
	if fields&4 != 0 {
		switch k := r.intn(4); {
		case k == 0 && x.seq > math.MinInt64:
			sseq = x.seq - 1
		case k == 1 && x.seq < math.MaxInt64:
			sseq = x.seq + 1
		default:
			sseq = b44Grid[r.intn(len(b44Grid))]
			if sseq == x.seq {
				sseq = 77
			}
		}
	}
	if fields&8 != 0 {
		switch {
		case skey < 0:
			skey = r.intn(3)
		case r.intn(3) == 0:
			skey = -1
		default:
			skey = (skey + 1 + r.intn(2)) % 3
		}
	}
	if fields&16 != 0 {
		scas = []int64{0, 1, 2, x.cas + 1, math.MaxInt64}[r.intn(5)]
		if scas == x.cas {
			scas = x.cas - 1
		}
	}
	s := e.mk(sv, skey, ssalt, sseq, scas)
	var d []string
	for i, n := range []string{"V", "Salt", "Seq", "K", "Cas"} {
		if fields&(1<<uint(i)) != 0 {
			d = append(d, n)
		}
	}
	s.note = "differs-in=" + strings.Join(d, "+")
	if d == nil {
		s.note = "differs-in=Sig-at-most"
	}
	return s
}

// a random route to x
func (e *b44env) viaFor(r *rng, x *b44it) *b44via {
	fields := 0
	switch k := r.intn(12); {
	case k < 1: // nothing but (for a forged x) the signature
	case k < 6:
		fields = 1
	case k < 7:
		fields = 2
	case k < 8:
		fields = 4
	case k < 9:
		fields = 8
	case k < 10:
		fields = 1 | 16
	case k < 11:
		fields = r.intn(32)
	default:
		fields = 31
	}
	v := &b44via{e: e, start: e.startFor(r, x, fields), build: r.intn(len(b44Builds)), copyAt: r.intn(4), inplace: r.bool()}
	switch r.intn(4) {
	case 0: // the item is not used before it is changed
	case 1:
		v.warm = 1 << uint(r.intn(6))
	default:
		v.warm = r.intn(b44WAll + 1)
	}
	switch r.intn(4) {
	case 0, 1:
	case 2:
		v.late = 1 << uint(r.intn(6))
	default:
		v.late = r.intn(b44WAll + 1)
	}
	for i := range v.order {
		v.order[i] = i
	}
	for i := len(v.order) - 1; i > 0; i-- {
		j := r.intn(i + 1)
		v.order[i], v.order[j] = v.order[j], v.order[i]
	}
	return v
}

// x, to be produced along a random route (a copy: x itself stays a literal)
func (e *b44env) routed(r *rng, x *b44it) *b44it {
	y := *x
	y.via = e.viaFor(r, x)
	return &y
}

// x with the value replaced and nothing else: the signature (if any) is the one for the old value
func b44withValue(x *b44it, v interface{}, note string) *b44it {
	y := *x
	y.v, y.bv, y.note, y.via = v, bencode.MustMarshal(v), note, nil
	return &y
}

// ---------------------------------------------------------------- generated items

var b44ApiSalts = [][]byte{nil, nil, {}, []byte("s"), []byte("s"), []byte("salt"), nil, nil}

func (e *b44env) apiValue(r *rng) interface{} {
	switch k := r.intn(20); {
	case k < 10:
		return []interface{}{"v", int64(r.intn(3))}
	case k < 13:
		return e.shapes()[r.intn(16)]
	case k < 16:
		return b44sized(998+r.intn(6), r.intn(4))
	case k < 18:
		return fmt.Sprintf("value %d", r.intn(4))
	default:
		return map[string]interface{}{"n": int64(r.intn(5)), "s": "x"}
	}
}

// valid items of every kind, forged and oversized ones
func (e *b44env) apiItem(r *rng) *b44it {
	v := e.apiValue(r)
	key := r.intn(4) - 1
	salt := b44ApiSalts[r.intn(len(b44ApiSalts))]
	switch r.intn(12) {
	case 0:
		salt = r.bytes(63 + r.intn(4))
	case 1:
		salt = r.bytes(64)
	}
	seq := append(append([]int64(nil), b44Grid...), 4, 5, 10, 1000000007)[r.intn(len(b44Grid)+4)]
	cas := []int64{0, 0, 0, 1, 2, -1, math.MaxInt64}[r.intn(7)]
	x := e.mk(v, key, salt, seq, cas)
	if key >= 0 && r.intn(3) == 0 {
		vs := e.variants(v, salt, seq) // signed with key 0
		x = vs[1+r.intn(len(vs)-2)]
		x.cas = cas
	}
	return x
}

// ---------------------------------------------------------------- (g1) pure functions

func (e *b44env) apiPure() {
	r := e.r.sub(880001)
	n := 1000
	if e.thorough() {
		n = 30000
	}
	for i := 0; i < n; i++ {
		x := e.routed(r, e.apiItem(r))
		b44edtable([]*b44it{x})
		it := x.item()
		var t1, t2 bep44.Target
		target := func(it *bep44.Item) {
			e.contained("Item.Target", func() { t1 = it.Target() })
			e.contained("Put.Target", func() { p := it.ToPut(); t2 = p.Target() })
		}
		// Check and Target of the same item in either order, or of two items produced alike
		got := "panic"
		switch r.intn(3) {
		case 0:
			e.contained("Check", func() { got = b44errStr(bep44.Check(it)) })
			target(it)
		case 1:
			target(it)
			e.contained("Check", func() { got = b44errStr(bep44.Check(it)) })
		default:
			e.contained("Check", func() { got = b44errStr(bep44.Check(it)) })
			target(x.item())
		}
		emit("b44check %s %s %s %s %d => %s", hx(x.bv), hx(x.k[:]), hx(x.salt), hx(x.sig[:]), x.seq, got)
		want := "ok"
		if c := x.refCheck(); c != 0 {
			want = fmt.Sprint(c)
		}
		if got != want {
			e.fire("C12", fmt.Sprintf("wrong-error-code:check-expected-%s-got-%s", want, got), "Check item=%s", x.brief())
		}
		t3 := "-"
		if x.mutable() {
			t := bep44.MakeMutableTarget(x.k, x.salt)
			t3 = hx(t[:])
		}
		emit("b44target %s %s %s => %s %s %s", hx(x.bv), hx(x.k[:]), hx(x.salt), hx(t1[:]), hx(t2[:]), t3)
		if rt := x.refTarget(); t1 != rt || t2 != rt {
			e.fire("C12", "wrong-target:pure", "Target item=%s", x.brief())
		}
	}
	// CheckIncoming between items that were produced along routes
	n = 300
	if e.thorough() {
		n = 6000
	}
	small := []int64{0, 1, 2, 3}
	for i := 0; i < n; i++ {
		pick := func() int64 {
			if r.intn(4) == 0 {
				return b44Grid[r.intn(len(b44Grid))]
			}
			return small[r.intn(len(small))]
		}
		key := r.intn(2) - 1
		vs := []interface{}{"v", "w", []interface{}{"v", int64(r.intn(2))}}
		st := e.routed(r, e.mk(vs[r.intn(3)], key, []byte("ci"), pick(), pick()))
		in := e.routed(r, e.mk(vs[r.intn(3)], key, []byte("ci"), pick(), pick()))
		sti, ini := st.item(), in.item()
		got := "panic"
		e.contained("CheckIncoming", func() { got = b44errStr(bep44.CheckIncoming(sti, ini)) })
		emit("b44checkin %d %d %s %d %d %s => %s", st.seq, st.cas, hx(st.bv), in.seq, in.cas, hx(in.bv), got)
		e.decisionOracle(fmt.Sprintf("CheckIncoming stored-item=%s incoming-item=%s", st.brief(), in.brief()), st.seq, st.cas, st.bv, in.seq, in.cas, in.bv, got)
	}
}

// ---------------------------------------------------------------- (g2) sequential histories

type b44slot struct {
	key  int
	salt []byte
}

// a random history (puts along routes, gets, ageing) over the store xs
func (e *b44env) apiHistory(name string, r *rng, kind string, faults bool) {
	slots := []b44slot{{0, nil}, {0, []byte("s")}, {1, []byte("s")}, {-1, nil}, {0, []byte{}}}
	var ops []func(c *b44case)
	var items []*b44it
	var targets [][20]byte
	ln := 3 + r.intn(8)
	for j := 0; j < ln; j++ {
		switch k := r.intn(10); {
		case k < 7:
			sl := slots[r.intn(len(slots))]
			var v interface{} = []interface{}{"v", int64(r.intn(3))}
			switch r.intn(12) {
			case 0:
				v = b44sized(1001+r.intn(3), r.intn(4))
			case 1:
				v = e.apiValue(r)
			}
			seq := []int64{0, 1, 2, 3, 4, -1, math.MaxInt64, math.MinInt64}[r.intn(8)]
			cas := []int64{0, 0, 0, 1, 2, 3, -1, math.MaxInt64}[r.intn(8)]
			sa := sl.salt
			if r.intn(15) == 0 {
				sa = r.bytes(65 + r.intn(3))
			}
			x := e.mk(v, sl.key, sa, seq, cas)
			if sl.key >= 0 && r.intn(5) == 0 {
				vs := e.variants(v, sa, seq)
				x = vs[1+r.intn(6)]
				x.cas = cas
			}
			x = e.routed(r, x)
			items = append(items, x)
			targets = append(targets, x.refTarget(), x.via.start.refTarget())
			var f b44fault
			if faults && r.intn(3) == 0 {
				f = b44fault{get: r.bool(), put: r.bool()}
			}
			ops = append(ops, func(c *b44case) {
				if f.any() {
					c.fput(x, f)
				} else {
					c.put(x)
				}
			})
		case k < 9:
			if len(targets) == 0 {
				continue
			}
			t := targets[r.intn(len(targets))]
			ops = append(ops, func(c *b44case) { c.get(t) })
		default:
			d := []time.Duration{1, 60, 119, 120, 121}[r.intn(5)] * time.Minute
			ops = append(ops, func(c *b44case) { c.age(d) })
		}
	}
	var xs b44xstore
	if kind != "memory" {
		xs = b44newStore(kind)
	}
	c := e.beginK(name, items, xs, b44Exp, false)
	for _, op := range ops {
		op(c)
	}
	c.end()
}

// does the underlying store keep the pointer it is handed by Put / hand out the pointer it keeps?
func (c *b44case) keepsPointers() bool    { return c.xs == nil || c.xs.kind() == "reread" }
func (c *b44case) handsOutPointers() bool { return c.xs == nil }

// Wrapper.Put of an item the caller holds: the line carries the exported fields as they are now
func (c *b44case) putItem(it *bep44.Item, note string) string {
	x := b44itOf(it, note)
	b44edtableTo(c.emit, []*b44it{x})
	c.nop++
	before := c.dump()
	got := "panic"
	c.e.contained("Wrapper.Put", func() { got = b44errStr(c.w.Put(it)) })
	after := c.dump()
	c.emit("b44put %s => %s | %s", x.args(), got, b44dumpStr(after))
	c.putOracles(x, got, before, after, fmt.Sprintf("op#%d Wrapper.Put", c.nop))
	return got
}

// An application that holds on to its items: it puts them, changes them and puts them again.  An item
// the store may still point to is never written to: the application then works on a struct copy.
func (e *b44env) apiReuse(name string, r *rng, kind string) {
	var xs b44xstore
	if kind != "memory" {
		xs = b44newStore(kind)
	}
	c := e.beginK(name, nil, xs, b44Exp, false)
	inStore := map[*bep44.Item]bool{}
	var pool []*bep44.Item
	var targets [][20]byte
	var hist []string
	mine := func(p *bep44.Item) *bep44.Item {
		if inStore[p] || r.intn(3) == 0 {
			hist = append(hist, "struct-copy")
			return b44copyItem(p)
		}
		return p
	}
	put := func(p *bep44.Item) {
		note := "api:" + strings.Join(hist, ",")
		if len(note) > 300 {
			note = note[:300] + ".."
		}
		targets = append(targets, b44itOf(p, "").refTarget())
		if c.putItem(p, note) == "ok" && c.keepsPointers() {
			inStore[p] = true
		}
	}
	salts := [][]byte{nil, []byte("s"), []byte("t")}
	val := func() interface{} {
		if r.intn(10) == 0 {
			return b44sized(999+r.intn(4), r.intn(4))
		}
		return []interface{}{"r", int64(r.intn(4))}
	}
	use := &b44via{e: e}
	ln := 6 + r.intn(10)
	for j := 0; j < ln; j++ {
		k := r.intn(12)
		if len(pool) == 0 {
			k = 0
		}
		switch {
		case k < 2:
			key := r.intn(3) - 1
			var priv ed25519.PrivateKey
			if key >= 0 {
				priv = e.priv[key]
			}
			seq := []int64{0, 1, 2, 5, -1, math.MaxInt64 - 1, math.MinInt64}[r.intn(7)]
			var p *bep44.Item
			e.contained("NewItem", func() { p, _ = bep44.NewItem(val(), b44saltCopy(salts[r.intn(3)]), seq, 0, priv) })
			if p == nil {
				continue
			}
			hist = append(hist, fmt.Sprintf("NewItem(seq=%d,key=%d)", seq, key))
			pool = append(pool, p)
			if r.intn(4) > 0 {
				put(p)
			}
		case k < 9:
			i := r.intn(len(pool))
			hist = append(hist, fmt.Sprintf("item#%d", i))
			p := mine(pool[i])
			pool[i] = p
			if w := r.intn(4); w > 0 {
				bits := 1 << uint(r.intn(6))
				if w == 3 {
					bits = r.intn(b44WAll + 1)
				}
				bits &^= b44WOtherStore // the other store would keep the pointer
				use.use(p, bits)
				hist = append(hist, "use:"+b44warmStr(bits))
			}
			key := e.keyOf(p.K)
			nch := 1 + r.intn(2)
			for ch := 0; ch < nch; ch++ {
				switch m := r.intn(12); {
				case m < 3:
					p.V = val()
					hist = append(hist, "V=")
				case m < 4:
					p.Seq += []int64{1, 1, -1, 2}[r.intn(4)]
					hist = append(hist, "Seq=")
				case m < 5:
					p.Salt = b44saltCopy(salts[r.intn(3)])
					hist = append(hist, "Salt=")
				case m < 6:
					if r.bool() {
						p.Sig[r.intn(64)] ^= 1 << uint(r.intn(8))
					} else {
						p.Sig = [64]byte{}
					}
					hist = append(hist, "Sig=")
				case m < 7:
					if r.intn(3) == 0 {
						p.K = [32]byte{}
					} else {
						p.K = e.pub[r.intn(3)]
					}
					hist = append(hist, "K=")
				case m < 8:
					p.Cas = []int64{0, 1, 2, p.Seq, p.Seq - 1}[r.intn(5)]
					hist = append(hist, "Cas=")
				case m < 10:
					// Modify with the key of the item (or, now and then, with another one: then the signature is not the item's)
					kk := key
					if kk < 0 || r.intn(6) == 0 {
						kk = r.intn(3)
					}
					var ok bool
					nv := val()
					e.contained("Item.Modify", func() { ok = p.Modify(nv, e.priv[kk]) })
					hist = append(hist, fmt.Sprintf("Modify(key=%d)=%v", kk, ok))
				case m < 11:
					// signed again by the application: Item.ToPut, Put.Sign, Put.ToItem
					if key >= 0 {
						e.contained("ToPut/Sign/ToItem", func() {
							pp := p.ToPut()
							pp.Sign(e.priv[key])
							p = pp.ToItem()
							pool[i] = p
						})
						hist = append(hist, "ToPut.Sign.ToItem")
					}
				default:
					// ... or with crypto/ed25519 over the BEP 44 buffer
					if key >= 0 {
						copy(p.Sig[:], ed25519.Sign(e.priv[key], b44refBuf(p.Salt, p.Seq, bencode.MustMarshal(p.V))))
						hist = append(hist, "Sig=signed-again")
					}
				}
			}
			if r.intn(3) == 0 {
				bits := (1 << uint(r.intn(6))) &^ b44WOtherStore
				use.use(p, bits)
				hist = append(hist, "use:"+b44warmStr(bits))
			}
			put(p)
		case k < 11:
			if len(targets) == 0 {
				continue
			}
			t := targets[r.intn(len(targets))]
			if it := c.getItem(t); it != nil && r.bool() {
				// the application goes on with what it was handed
				if c.handsOutPointers() {
					inStore[it] = true
				}
				pool = append(pool, it)
				hist = append(hist, fmt.Sprintf("Wrapper.Get->item#%d", len(pool)-1))
			}
		default:
			c.age([]time.Duration{1, 60, 121}[r.intn(3)] * time.Minute)
		}
	}
	c.end()
}

func (e *b44env) apiSequential() {
	salt := []byte("api")
	kinds := append([]string{"memory"}, b44Kinds...)
	// the readable cases first.  A genuine item; items derived from it by replacing fields without signing
	// again (all rejected, whatever is stored); genuine updates derived from it (accepted)
	for _, kind := range kinds {
		for build := 1; build < len(b44Builds); build++ {
			for copyAt := 0; copyAt < 3; copyAt++ {
				g := e.mk("genuine", 0, salt, 1, 0)
				via := func(x *b44it, warm int) *b44it {
					y := *x
					y.via = &b44via{e: e, start: g, build: build, copyAt: copyAt, warm: warm, order: [6]int{0, 1, 2, 3, 4, 5}}
					return &y
				}
				forged := via(b44withValue(g, "forged!", "value-replaced"), 0)
				forgedSameLen := via(b44withValue(g, "genuinf", "value-replaced-same-length"), b44WCheck|b44WTarget)
				big := via(b44withValue(g, b44sized(1001, 0), "value-replaced-by-1001B"), b44WCheck)
				seq2 := *g
				seq2.seq, seq2.note = 2, "seq-replaced"
				gv := via(g, b44WCheck)
				up := via(e.mk("update", 0, salt, 2, 1), b44WTarget)
				up2 := via(e.mk(b44sized(1000, 1), 0, salt, 3, 0), b44WCheck|b44WPutTarget)
				// an oversized genuine item first, then a value that fits
				gBig := e.mk(b44sized(1001, 2), 0, salt, 4, 0)
				fit := e.mk("fits", 0, salt, 4, 0)
				fit.via = &b44via{e: e, start: gBig, build: build, copyAt: copyAt, warm: b44WCheck, order: [6]int{3, 0, 1, 2, 4, 5}}
				items := []*b44it{g, forged, forgedSameLen, big, &seq2, up, up2, fit}
				var xs b44xstore
				if kind != "memory" {
					xs = b44newStore(kind)
				}
				c := e.beginK(fmt.Sprintf("api-mut-%s-%d-%d", kind, build, copyAt), items, xs, b44Exp, false)
				tgt := g.refTarget()
				c.put(forged)
				c.get(tgt)
				c.put(gv)
				c.get(tgt)
				c.put(forged)
				c.put(forgedSameLen)
				c.put(big)
				c.put(via(&seq2, b44WCheck))
				c.get(tgt)
				c.put(up)
				c.get(tgt)
				c.put(up2)
				c.put(fit)
				c.get(tgt)
				c.end()
				// immutable: value B in an item that was made for value A lands under B's target
				a := e.mk("immutable value A", -1, nil, 0, 0)
				b := e.mk("immutable value B", -1, nil, 0, 0)
				b.via = &b44via{e: e, start: a, build: build, copyAt: copyAt, warm: []int{0, b44WTarget, b44WCheck}[copyAt], order: [6]int{0, 1, 2, 3, 4, 5}}
				bigImm := e.mk(b44sized(1001, 3), -1, nil, 0, 0)
				bigImm.via = &b44via{e: e, start: a, build: build, copyAt: copyAt, order: [6]int{0, 1, 2, 3, 4, 5}}
				if kind != "memory" {
					xs = b44newStore(kind)
				}
				c = e.beginK(fmt.Sprintf("api-imm-%s-%d-%d", kind, build, copyAt), nil, xs, b44Exp, false)
				c.put(b)
				c.get(a.refTarget())
				c.get(b.refTarget())
				c.put(bigImm)
				c.get(a.refTarget())
				c.get(bigImm.refTarget())
				c.end()
			}
		}
	}
	// random histories
	cnt, kcnt := 120, 25
	if e.thorough() {
		cnt, kcnt = 3000, 600
	}
	for ki, kind := range kinds {
		n := kcnt
		if kind == "memory" {
			n = cnt
		}
		for h := 0; h < n; h++ {
			e.apiHistory(fmt.Sprintf("api-hist-%s-%d", kind, h), e.r.sub(882000+10000*ki+h), kind, kind == "memory" && h%4 == 3)
		}
		for h := 0; h < n; h++ {
			e.apiReuse(fmt.Sprintf("api-reuse-%s-%d", kind, h), e.r.sub(942000+10000*ki+h), kind)
		}
	}
}

// ---------------------------------------------------------------- (g3) concurrent puts of such items

func (e *b44env) apiConcurrent() {
	r := e.r.sub(990001)
	salt := []byte("s")
	base := e.mk("v", 0, salt, 1, 0)
	mkp := func(seq, cas int64, v string, forgedV bool) b44tspec {
		x := e.mk(v, 0, salt, seq, cas)
		if forgedV {
			x = b44withValue(x, v+"!", "value-replaced")
		}
		return b44tspec{put: e.routed(r, x)}
	}
	scns := [][]b44tspec{
		{mkp(5, 0, "a", false), mkp(3, 0, "b", false)},
		{mkp(5, 0, "a", true), mkp(3, 0, "b", false)},
		{mkp(2, 1, "c", false), mkp(2, 1, "c", true)},
		{mkp(1, 0, "v", true), mkp(1, 0, "v", false)},
	}
	for i, sp := range scns {
		e.explore(&b44scn{name: fmt.Sprintf("api-pp%d", i), init: []*b44it{e.routed(r, base)}, specs: sp}, 0)
	}
}

func (e *b44env) apiRoutes() {
	e.apiPure()
	e.apiSequential()
	e.apiConcurrent()
}

// ---------------------------------------------------------------- (g4) behind a real Server

// The application shares its store with the Server (ServerConfig.Store) and publishes into it through
// its own bep44.Wrapper and through Server.Put; peers read over the wire.
func (e *b44env) serverAPI() {
	salt := []byte("sapi")
	for _, kind := range []string{"memory", "value"} {
		for build := 1; build < len(b44Builds); build += 2 {
			g := e.mk("genuine", 0, salt, 1, 0)
			via := func(x *b44it, copyAt, warm int) *b44it {
				y := *x
				y.via = &b44via{e: e, start: g, build: build, copyAt: copyAt, warm: warm, order: [6]int{0, 1, 2, 3, 4, 5}}
				return &y
			}
			forged := via(b44withValue(g, "forged!", "value-replaced"), 2, 0)
			up := via(e.mk("update", 0, salt, 2, 1), 0, b44WCheck)
			forgedUp := via(b44withValue(up, "forged update", "value-replaced"), 1, b44WTarget)
			a := e.mk("immutable value A", -1, nil, 0, 0)
			b := e.mk("immutable value B", -1, nil, 0, 0)
			b.via = &b44via{e: e, start: a, build: build, copyAt: 2, order: [6]int{0, 1, 2, 3, 4, 5}}
			cc := e.mk("immutable value C", -1, nil, 0, 0)
			cc.via = &b44via{e: e, start: a, build: build, copyAt: 0, warm: b44WTarget, order: [6]int{0, 1, 2, 3, 4, 5}}
			var xs b44xstore
			if kind != "memory" {
				xs = b44newStore(kind)
			}
			v := e.beginServerK(fmt.Sprintf("srv-api-%s-%d", kind, build), []*b44it{g, forged, up, forgedUp}, xs, b44Exp, false)
			tgt := g.refTarget()
			v.c.put(forged)
			v.wget(tgt, nil)
			v.lput(forged)
			v.wget(tgt, nil)
			v.c.put(via(g, 0, b44WCheck))
			v.wget(tgt, nil)
			v.c.put(forged)
			v.wget(tgt, nil)
			v.lput(forgedUp)
			v.wget(tgt, nil)
			v.lput(up)
			v.wget(tgt, nil)
			v.c.put(forgedUp)
			v.wget(tgt, nil)
			v.c.put(b)
			v.wget(a.refTarget(), nil)
			v.wget(b.refTarget(), nil)
			v.lput(cc)
			v.wget(a.refTarget(), nil)
			v.wget(cc.refTarget(), nil)
			v.close()
		}
	}
	cnt := 10
	if e.thorough() {
		cnt = 300
	}
	i64 := func(x int64) *int64 { return &x }
	for h := 0; h < cnt; h++ {
		r := e.r.sub(995000 + h)
		var ops []func(v *b44srv)
		var items []*b44it
		var targets [][20]byte
		salts := [][]byte{salt, []byte("sapj")}
		for j := 0; j < 4+r.intn(6); j++ {
			sa := salts[r.intn(len(salts))]
			switch k := r.intn(10); {
			case k < 6:
				seq := []int64{0, 1, 2, 3, 4}[r.intn(5)]
				cas := []int64{0, 0, 1, 2, 3}[r.intn(5)]
				key := 0
				if r.intn(5) == 0 {
					key, sa = -1, nil
				}
				x := e.mk(fmt.Sprintf("v%d", r.intn(2)), key, sa, seq, cas)
				if key >= 0 && r.intn(6) == 0 {
					x = e.variants("f", sa, seq)[1+r.intn(6)]
				}
				items = append(items, x)
				routedX := e.routed(r, x)
				targets = append(targets, x.refTarget(), routedX.via.start.refTarget())
				switch r.intn(5) {
				case 0:
					ops = append(ops, func(v *b44srv) { v.wput(x, true) })
				case 1, 2:
					ops = append(ops, func(v *b44srv) { v.lput(routedX) })
				default:
					ops = append(ops, func(v *b44srv) { v.c.put(routedX) })
				}
			case k < 9:
				var sq *int64
				if r.intn(3) == 0 {
					sq = i64([]int64{-1, 0, 1, 2, 3}[r.intn(5)])
				}
				tgt := e.mk("v", 0, sa, 0, 0).refTarget()
				if len(targets) > 0 && r.bool() {
					tgt = targets[r.intn(len(targets))]
				}
				ops = append(ops, func(v *b44srv) { v.wget(tgt, sq) })
			default:
				d := []time.Duration{30, 119, 121}[r.intn(3)] * time.Minute
				ops = append(ops, func(v *b44srv) { v.c.age(d) })
			}
		}
		var xs b44xstore
		name := fmt.Sprintf("srv-api%d", h)
		if h%5 == 4 {
			xs = b44newStore("value")
			name += "-value"
		}
		v := e.beginServerK(name, items, xs, b44Exp, false)
		for _, op := range ops {
			op(v)
		}
		v.close()
	}
}
